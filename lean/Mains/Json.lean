import Spok.Oracle.Loop
import Spok.Oracle.Json
def main : IO UInt32 := Spok.Oracle.runMain Spok.Oracle.Json.handle
