import Spok.Oracle.Loop
import Spok.Oracle.Env
def main : IO UInt32 := Spok.Oracle.runMain Spok.Oracle.Env.handle
