import Spok.Oracle.Loop
import Spok.Oracle.Hash
def main : IO UInt32 := Spok.Oracle.runMain Spok.Oracle.Hash.handle
