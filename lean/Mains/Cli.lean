import Spok.Oracle.Loop
import Spok.Oracle.Cli
def main : IO UInt32 := Spok.Oracle.runMain Spok.Oracle.Cli.handle
