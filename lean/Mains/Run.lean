import Spok.Oracle.Loop
import Spok.Oracle.Run
def main : IO UInt32 := Spok.Oracle.runMain Spok.Oracle.Run.handle
