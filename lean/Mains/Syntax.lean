import Spok.Oracle.Loop
import Spok.Oracle.Syntax
def main : IO UInt32 := Spok.Oracle.runMain Spok.Oracle.Syntax.handle
