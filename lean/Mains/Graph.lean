import Spok.Oracle.Loop
import Spok.Oracle.Graph
def main : IO UInt32 := Spok.Oracle.runMain Spok.Oracle.Graph.handle
