import Spok.Oracle.Loop
import Spok.Oracle.Find
def main : IO UInt32 := Spok.Oracle.runMain Spok.Oracle.Find.handle
