import Spok.Oracle.Loop
import Spok.Oracle.Glob
def main : IO UInt32 := Spok.Oracle.runMain Spok.Oracle.Glob.handle
