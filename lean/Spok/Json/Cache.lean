import Spok.Hash
import Spok.Json.Quote
/-! # The cache file at byte level: `Cache.Dump` (`json.Marshal` of a `map[string]string`) and `cache.Load`
(`json.Unmarshal` into a `map[string]string`)

`encodeMap` is what `Dump` writes: `{`, the entries sorted bytewise by key, `"key":"value"` separated by commas, `}`.
`load` is what `Load` makes of a byte string: a syntax error when the scanner rejects it; otherwise an object whose
values are strings (or `null`, which leaves the zero value `""`) is the map, later duplicates winning; any other value is
an `UnmarshalTypeError`; a top-level `null` is the nil map. -/
namespace Spok.Json
open Spok

abbrev KV := Bytes × Bytes

def kvLE (a b : KV) : Bool := Spok.Hash.ble a.1 b.1

def encEntry (kv : KV) : Bytes := encStr kv.1 ++ 58 :: encStr kv.2

def joinComma : List Bytes → Bytes
  | [] => []
  | [x] => x
  | x :: y :: rest => x ++ 44 :: joinComma (y :: rest)

/-- `json.Marshal(map[string]string{…})` for a non-nil map given as its entries (keys distinct) -/
def encodeMap (m : List KV) : Bytes := 123 :: (joinComma ((m.mergeSort kvLE).map encEntry) ++ [125])

/-! ## `Load` -/

inductive LoadRes where
  /-- `*json.SyntaxError` -/
  | syntaxErr
  /-- `*json.UnmarshalTypeError` (not an object of strings) -/
  | typeErr
  /-- the document `null`: no error, `inner` stays nil (a later `Set` panics) -/
  | nullMap
  /-- the entries in document order; a later entry for the same key overrides an earlier one -/
  | ok (kvs : List KV)
deriving DecidableEq, Repr

def skipWs : Bytes → Bytes
  | [] => []
  | c :: rest => if isSpace c.toNat then skipWs rest else c :: rest

/-- after an opening quote: the raw text up to the closing quote, and what follows it -/
def takeStr : Bytes → Option (Bytes × Bytes)
  | [] => none
  | c :: rest =>
    if c.toNat == 34 then some ([], rest)
    else if c.toNat == 92 then
      match rest with
      | [] => none
      | e :: rest' => (takeStr rest').map fun (b, r) => (c :: e :: b, r)
    else (takeStr rest).map fun (b, r) => (c :: b, r)

def isNull (bs : Bytes) : Option Bytes :=
  match bs with
  | a :: b :: c :: d :: rest => if a.toNat == 110 && b.toNat == 117 && c.toNat == 108 && d.toNat == 108 then some rest else none
  | _ => none

/-- the members of an object, from the first key on; the input has passed the scanner, so the `syntaxErr`
    answers below are unreachable (kept explicit rather than defaulted) -/
def members : Nat → Bytes → List KV → LoadRes
  | 0, _, _ => .syntaxErr
  | fuel + 1, bs, acc =>
    match skipWs bs with
    | q :: r1 =>
      if q.toNat != 34 then .syntaxErr else
      match takeStr r1 with
      | none => .syntaxErr
      | some (kraw, r2) =>
        match skipWs r2 with
        | col :: r3 =>
          if col.toNat != 58 then .syntaxErr else
          match unqBody kraw with
          | none => .syntaxErr
          | some k =>
            let after (acc' : List KV) (r : Bytes) : LoadRes :=
              match skipWs r with
              | d :: r' => if d.toNat == 44 then members fuel r' acc' else if d.toNat == 125 then .ok acc' else .syntaxErr
              | [] => .syntaxErr
            match skipWs r3 with
            | v0 :: r4 =>
              if v0.toNat == 34 then
                match takeStr r4 with
                | none => .syntaxErr
                | some (vraw, r5) =>
                  match unqBody vraw with
                  | none => .syntaxErr
                  | some v => after (acc ++ [(k, v)]) r5
              else match isNull (v0 :: r4) with
                | some r5 => after (acc ++ [(k, [])]) r5
                | none => .typeErr
            | [] => .syntaxErr
        | [] => .syntaxErr
    | [] => .syntaxErr

/-- `json.Unmarshal(contents, &cache.inner)` -/
def load (bs : Bytes) : LoadRes :=
  if !valid bs then .syntaxErr
  else
    match skipWs bs with
    | c :: rest =>
      if c.toNat == 123 then
        match skipWs rest with
        | d :: rest' => if d.toNat == 125 then .ok [] else members (bs.length + 1) (d :: rest') []
        | [] => .syntaxErr
      else if (isNull (c :: rest)).isSome then .nullMap
      else .typeErr
    | [] => .syntaxErr

/-- the map a successful load denotes: the last entry for a key -/
def lookup (kvs : List KV) (k : Bytes) : Option Bytes := (kvs.reverse.find? (·.1 == k)).map (·.2)

end Spok.Json
