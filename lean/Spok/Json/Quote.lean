import Spok.Basic.Rune
import Spok.Json.Scanner
/-! # JSON string literals as `encoding/json` writes and reads them

`encStr` is `appendString(dst, src, escapeHTML = true)` of `encode.go` (what `json.Marshal` uses for map keys, string
values and struct fields); `unquote` is `unquoteBytes` of `decode.go`.  Both walk the byte string the way
`utf8.DecodeRune` partitions it, so they are written over `decodeAll` (Go-semantics decoding, `Basic/Rune.lean`):
an ASCII byte is a rune of its own, an invalid byte is a rune `U+FFFD` of width one. -/
namespace Spok.Json
open Spok

/-- `hex[n]` of `encode.go` ("0123456789abcdef") -/
def hexd (n : Nat) : UInt8 := if n < 10 then UInt8.ofNat (48 + n) else UInt8.ofNat (87 + n)

/-- what `appendString` writes for an ASCII byte (`htmlSafeSet`: everything from 0x20 on except `"` `\` `<` `>` `&`) -/
def escAscii (b : UInt8) : Bytes :=
  let n := b.toNat
  if n == 34 || n == 92 then [92, b]
  else if n == 8 then [92, 98]
  else if n == 12 then [92, 102]
  else if n == 10 then [92, 110]
  else if n == 13 then [92, 114]
  else if n == 9 then [92, 116]
  else if n < 32 || n == 60 || n == 62 || n == 38 then [92, 117, 48, 48, hexd (n / 16), hexd (n % 16)]
  else [b]

/-- `c == utf8.RuneError && size == 1` -/
def _root_.Spok.Rune.invalid (r : Rune) : Bool := r.cp == 0xFFFD && r.more.isEmpty

def encRune (r : Rune) : Bytes :=
  if r.b0.toNat < 128 then escAscii r.b0
  else if r.invalid then [92, 117, 102, 102, 102, 100]          -- �
  else if r.cp == 0x2028 then [92, 117, 50, 48, 50, 56]         --  
  else if r.cp == 0x2029 then [92, 117, 50, 48, 50, 57]         --  
  else r.bytes

def encBody (s : Bytes) : Bytes := (decodeAll s).flatMap encRune

/-- `appendString`: the quoted, escaped literal -/
def encStr (s : Bytes) : Bytes := 34 :: (encBody s ++ [34])

/-! ## reading -/

def hexVal (c : UInt8) : Option Nat :=
  let n := c.toNat
  if 48 ≤ n && n ≤ 57 then some (n - 48)
  else if 97 ≤ n && n ≤ 102 then some (n - 87)
  else if 65 ≤ n && n ≤ 70 then some (n - 55)
  else none

/-- `getu4` on the four digits after `\u` -/
def getu4 (a b c d : UInt8) : Option Nat := do
  let x ← hexVal a; let y ← hexVal b; let z ← hexVal c; let w ← hexVal d
  pure (((x * 16 + y) * 16 + z) * 16 + w)

/-- `utf8.EncodeRune` (surrogates and out-of-range values become U+FFFD) -/
def utf8enc (r : Nat) : Bytes :=
  if r < 0x80 then [UInt8.ofNat r]
  else if r < 0x800 then [UInt8.ofNat (0xC0 + r / 64), UInt8.ofNat (0x80 + r % 64)]
  else if (0xD800 ≤ r && r < 0xE000) || 0x10FFFF < r then [0xEF, 0xBF, 0xBD]
  else if r < 0x10000 then [UInt8.ofNat (0xE0 + r / 4096), UInt8.ofNat (0x80 + r / 64 % 64), UInt8.ofNat (0x80 + r % 64)]
  else [UInt8.ofNat (0xF0 + r / 262144), UInt8.ofNat (0x80 + r / 4096 % 64), UInt8.ofNat (0x80 + r / 64 % 64),
        UInt8.ofNat (0x80 + r % 64)]

def isSurrogate (r : Nat) : Bool := 0xD800 ≤ r && r < 0xE000

/-- `utf16.DecodeRune` -/
def utf16pair (r1 r2 : Nat) : Nat :=
  if 0xD800 ≤ r1 && r1 < 0xDC00 && 0xDC00 ≤ r2 && r2 < 0xE000 then (r1 - 0xD800) * 1024 + (r2 - 0xDC00) + 0x10000
  else 0xFFFD

def cons? (h : Bytes) (t : Option Bytes) : Option Bytes := t.map (h ++ ·)

/-- is this rune the ASCII byte `c`? -/
def _root_.Spok.Rune.is (r : Rune) (c : Nat) : Bool := r.b0.toNat == c

/-- `getu4(s[r:])` for the second half of a surrogate pair: the value when the runes begin with `\uXXXX` -/
def peekU4 : List Rune → Option Nat
  | b :: u :: g1 :: g2 :: g3 :: g4 :: _ => if b.is 92 && u.is 117 then getu4 g1.b0 g2.b0 g3.b0 g4.b0 else none
  | _ => none

/-- the loop of `unquoteBytes` over the runes between the quotes; `none` = `ok == false` -/
def unqRunes : List Rune → Option Bytes
  | [] => some []
  | r :: rs =>
    let c := r.b0.toNat
    if c == 92 then
      match rs with
      | [] => none
      | e :: rs1 =>
        let x := e.b0.toNat
        if x == 34 || x == 92 || x == 47 || x == 39 then cons? [e.b0] (unqRunes rs1)
        else if x == 98 then cons? [8] (unqRunes rs1)
        else if x == 102 then cons? [12] (unqRunes rs1)
        else if x == 110 then cons? [10] (unqRunes rs1)
        else if x == 114 then cons? [13] (unqRunes rs1)
        else if x == 116 then cons? [9] (unqRunes rs1)
        else if x == 117 then
          match rs1 with
          | h1 :: h2 :: h3 :: h4 :: rs2 =>
            match getu4 h1.b0 h2.b0 h3.b0 h4.b0 with
            | none => none
            | some rr =>
              if isSurrogate rr then
                match peekU4 rs2 with
                | some rr1 =>
                  if utf16pair rr rr1 != 0xFFFD then cons? (utf8enc (utf16pair rr rr1)) (unqRunes (rs2.drop 6))
                  else cons? (utf8enc 0xFFFD) (unqRunes rs2)
                | none => cons? (utf8enc 0xFFFD) (unqRunes rs2)
              else cons? (utf8enc rr) (unqRunes rs2)
          | _ => none
        else none
    else if c == 34 || c < 32 then none
    else if c < 128 then cons? [r.b0] (unqRunes rs)
    else cons? (utf8enc r.cp) (unqRunes rs)   -- "coerce to well-formed UTF-8": `utf8.EncodeRune(b[w:], rr)`
termination_by l => l.length
decreasing_by all_goals (simp only [List.length_cons, List.length_drop]; omega)

/-- `unquoteBytes` on the text between the quotes -/
def unqBody (body : Bytes) : Option Bytes := unqRunes (decodeAll body)

/-- what a string survives a round trip as: invalid bytes become U+FFFD (`appendString` writes `�` for them) -/
def sanitize (s : Bytes) : Bytes := (decodeAll s).flatMap fun r => if r.invalid then [0xEF, 0xBF, 0xBD] else r.bytes

end Spok.Json
