import Spok.Json.Cache
import Spok.App
/-! # The `--json` report at byte level: `Results.JSON()` = `json.Marshal(task.Results)` (task/task.go, shell/shell.go)

```go
type Result  struct { Task string `json:"task"`; CommandResults shell.Results `json:"results"`; Skipped bool `json:"skipped"` }
type Result  struct { Cmd string `json:"cmd"`; Stdout string `json:"stdout"`; Stderr string `json:"stderr"`; Status int `json:"status"` }
```

`encReport` is what `json.Marshal` writes for such a value: compact (no blanks), fields in declaration order, strings
through `appendString` (`encStr`: escapes, `<>&` as `<…`, invalid UTF-8 as `�`), the status in decimal, a nil
`CommandResults` (a skipped task, a task without commands) as `null`, the non-nil outer slice as `[…]`.

`decReport` reads such a document back (a reader for exactly this schema in compact form — the form `Marshal` writes).
`Props/C20Json.lean`: `decReport (encReport rs) = some (rs.map sanitize)`, `encReport rs` is one valid JSON document and
no strict prefix of it is. -/
namespace Spok.Json
open Spok

structure BCmd where
  cmd : Bytes
  stdout : Bytes
  stderr : Bytes
  status : Nat
deriving DecidableEq, Repr

structure BResult where
  task : Bytes
  cmds : List BCmd
  skipped : Bool
deriving DecidableEq, Repr

/-- the ASCII bytes of a literal -/
def ascii (s : String) : Bytes := s.toList.map fun c => UInt8.ofNat c.toNat

/-! ## writing -/

/-- `strconv.AppendInt(b, n, 10)` for `n ≥ 0` -/
def natDigits (n : Nat) : Bytes :=
  if h : n < 10 then [UInt8.ofNat (48 + n)] else natDigits (n / 10) ++ [UInt8.ofNat (48 + n % 10)]
termination_by n
decreasing_by omega

def kCmd : Bytes := ascii "{\"cmd\":"
def kStdout : Bytes := ascii ",\"stdout\":"
def kStderr : Bytes := ascii ",\"stderr\":"
def kStatus : Bytes := ascii ",\"status\":"
def kTask : Bytes := ascii "{\"task\":"
def kResults : Bytes := ascii ",\"results\":"
def kSkipped : Bytes := ascii ",\"skipped\":"
def kNull : Bytes := ascii "null"
def kTrue : Bytes := ascii "true"
def kFalse : Bytes := ascii "false"

def encCmd (c : BCmd) : Bytes :=
  kCmd ++ (encStr c.cmd ++ (kStdout ++ (encStr c.stdout ++ (kStderr ++ (encStr c.stderr ++ (kStatus ++ (natDigits c.status ++ [125])))))))

/-- a slice: `null` when nil — here: when empty, the only empty slices this document has are nil —, else `[a,b,…]` -/
def encArr (items : List Bytes) : Bytes := 91 :: (joinComma items ++ [93])

def encCmds (cs : List BCmd) : Bytes := if cs.isEmpty then kNull else encArr (cs.map encCmd)

def encBool (b : Bool) : Bytes := if b then kTrue else kFalse

def encResult (r : BResult) : Bytes :=
  kTask ++ (encStr r.task ++ (kResults ++ (encCmds r.cmds ++ (kSkipped ++ (encBool r.skipped ++ [125])))))

/-- `json.Marshal(results)`; the outer slice is made with `make`, never nil: an empty run is `[]` -/
def encReport (rs : List BResult) : Bytes := encArr (rs.map encResult)

/-! ## reading -/

/-- strip a literal prefix -/
def lit? : Bytes → Bytes → Option Bytes
  | [], bs => some bs
  | _ :: _, [] => none
  | w :: ws, b :: bs => if w == b then lit? ws bs else none

/-- a string: opening quote, raw text, closing quote; unquoted -/
def pStr : Bytes → Option (Bytes × Bytes)
  | [] => none
  | q :: r =>
    if q.toNat == 34 then
      match takeStr r with
      | some (raw, r2) => (unqBody raw).map fun s => (s, r2)
      | none => none
    else none

def digitVal (a : Nat) (d : UInt8) : Nat := a * 10 + (d.toNat - 48)

/-- the leading digits -/
def readDigits : Nat → Bytes → Nat × Bytes
  | a, [] => (a, [])
  | a, d :: r => if isDigit d.toNat then readDigits (digitVal a d) r else (a, d :: r)

/-- a non-negative integer: at least one digit -/
def pNat : Bytes → Option (Nat × Bytes)
  | [] => none
  | d :: r => if isDigit d.toNat then some (readDigits 0 (d :: r)) else none

def pBool (bs : Bytes) : Option (Bool × Bytes) :=
  match lit? kTrue bs with
  | some r => some (true, r)
  | none => (lit? kFalse bs).map fun r => (false, r)

/-- `x , x , … ]` — at least one element, up to and including the closing bracket -/
def pSeq {α : Type} (p : Bytes → Option (α × Bytes)) : Nat → Bytes → Option (List α × Bytes)
  | 0, _ => none
  | fuel + 1, bs =>
    match p bs with
    | none => none
    | some (x, r) =>
      match r with
      | [] => none
      | d :: r' =>
        if d.toNat == 44 then (pSeq p fuel r').map fun (xs, r'') => (x :: xs, r'')
        else if d.toNat == 93 then some ([x], r')
        else none

/-- `[]` or `[x,…]` -/
def pArr {α : Type} (p : Bytes → Option (α × Bytes)) (bs : Bytes) : Option (List α × Bytes) :=
  match bs with
  | o :: c :: r =>
    if o.toNat == 91 then
      if c.toNat == 93 then some ([], r) else pSeq p (bs.length) (c :: r)
    else none
  | _ => none

def pCmd (bs : Bytes) : Option (BCmd × Bytes) := do
  let r ← lit? kCmd bs
  let (c, r) ← pStr r
  let r ← lit? kStdout r
  let (o, r) ← pStr r
  let r ← lit? kStderr r
  let (e, r) ← pStr r
  let r ← lit? kStatus r
  let (n, r) ← pNat r
  let r ← lit? [125] r
  pure (⟨c, o, e, n⟩, r)

/-- `null` (no commands) or a non-empty array of command objects -/
def pCmds (bs : Bytes) : Option (List BCmd × Bytes) :=
  match lit? kNull bs with
  | some r => some ([], r)
  | none => pArr pCmd bs

def pResult (bs : Bytes) : Option (BResult × Bytes) := do
  let r ← lit? kTask bs
  let (t, r) ← pStr r
  let r ← lit? kResults r
  let (cs, r) ← pCmds r
  let r ← lit? kSkipped r
  let (s, r) ← pBool r
  let r ← lit? [125] r
  pure (⟨t, cs, s⟩, r)

/-- the whole document, nothing after it -/
def decReport (bs : Bytes) : Option (List BResult) :=
  match pArr pResult bs with
  | some (rs, []) => some rs
  | _ => none

/-- what a reader gets back: invalid UTF-8 replaced by U+FFFD, everything else as it was -/
def BCmd.san (c : BCmd) : BCmd := ⟨sanitize c.cmd, sanitize c.stdout, sanitize c.stderr, c.status⟩
def BResult.san (r : BResult) : BResult := ⟨sanitize r.task, r.cmds.map BCmd.san, r.skipped⟩

/-- all strings of the results are valid UTF-8 (they are text) -/
def textOnly (s : Bytes) : Prop := ∀ r ∈ decodeAll s, r.invalid = false
def BCmd.text (c : BCmd) : Prop := textOnly c.cmd ∧ textOnly c.stdout ∧ textOnly c.stderr
def BResult.text (r : BResult) : Prop := textOnly r.task ∧ ∀ c ∈ r.cmds, c.text

/-! ## from the `String`s of `Spok.App` -/

/-- the UTF-8 bytes of a `String` -/
def strBytes (s : String) : Bytes := (s.toList.map Char.toNat).flatMap utf8enc

def cmdB (c : App.CmdResult) : BCmd := ⟨strBytes c.cmd, strBytes c.stdout, strBytes c.stderr, c.status⟩
def resultB (r : App.Result) : BResult := ⟨strBytes r.task, r.cmds.map cmdB, r.skipped⟩

/-- what `fmt.Println(results.JSON())` puts on standard output -/
def reportLine (rs : List App.Result) : Bytes := encReport (rs.map resultB) ++ [10]

end Spok.Json
