/-! # `encoding/json`'s validity scanner (`scanner.go`), transliterated

`cache.Load` is `os.ReadFile` + `json.Unmarshal`, and `Unmarshal` begins with `checkValid`: a byte string the scanner
rejects is a `*json.SyntaxError`, i.e. "Could not load spok cache file".  The scanner is a push-down automaton: a step
function per state (`stateBeginValue`, `stateInString`, …) and a stack of parse states (`parseObjectKey`,
`parseObjectValue`, `parseArrayValue`).  This file follows `scanner.go` function by function; bytes are `UInt8`,
compared through `toNat`. -/
namespace Spok.Json

abbrev Bytes := List UInt8

/-- `parseState` entries -/
inductive PS where
  | objKey | objVal | arrVal
deriving DecidableEq, Repr

/-- the `step` field: which state function is current -/
inductive Step where
  | beginValueOrEmpty | beginValue | beginStringOrEmpty | beginString | endValue | endTop
  | inString | inStringEsc | escU | escU1 | escU12 | escU123
  | neg | s1 | s0 | dot | dot0 | e | eSign | e0
  | t | tr | tru | f | fa | fal | fals | n | nu | nul
  | error
deriving DecidableEq, Repr

structure Sc where
  step : Step
  /-- head = top of the stack (`parseState[n-1]`) -/
  stack : List PS
  endTop : Bool
  err : Bool
deriving DecidableEq, Repr

def maxNestingDepth : Nat := 10000

/-- `reset()` -/
def Sc.init : Sc := ⟨.beginValue, [], false, false⟩

/-- `s.error(c, …)` -/
def Sc.fail (s : Sc) : Sc := { s with step := .error, err := true }

def isSpace (c : Nat) : Bool := c == 32 || c == 9 || c == 13 || c == 10

def isHex (c : Nat) : Bool := (48 ≤ c && c ≤ 57) || (97 ≤ c && c ≤ 102) || (65 ≤ c && c ≤ 70)

def isDigit (c : Nat) : Bool := 48 ≤ c && c ≤ 57

/-- `pushParseState` -/
def Sc.push (s : Sc) (p : PS) (next : Step) : Sc :=
  if s.stack.length + 1 ≤ maxNestingDepth then { s with stack := p :: s.stack, step := next }
  else { s with stack := p :: s.stack, step := .error, err := true }

/-- `popParseState` -/
def Sc.pop (s : Sc) : Sc :=
  match s.stack with
  | [] => s.fail                       -- unreachable: only called with a non-empty stack
  | [_] => { s with stack := [], step := .endTop, endTop := true }
  | _ :: rest => { s with stack := rest, step := .endValue }

/-- `stateEndTop` -/
def endTopStep (s : Sc) (c : Nat) : Sc := if isSpace c then s else s.fail

/-- `stateEndValue` -/
def endValue (s : Sc) (c : Nat) : Sc :=
  match s.stack with
  | [] => endTopStep { s with step := .endTop, endTop := true } c
  | ps :: rest =>
    if isSpace c then { s with step := .endValue }
    else match ps with
      | .objKey => if c == 58 then { s with stack := .objVal :: rest, step := .beginValue } else s.fail
      | .objVal =>
        if c == 44 then { s with stack := .objKey :: rest, step := .beginString }
        else if c == 125 then s.pop
        else s.fail
      | .arrVal =>
        if c == 44 then { s with step := .beginValue }
        else if c == 93 then s.pop
        else s.fail

/-- `stateBeginValue` -/
def beginValue (s : Sc) (c : Nat) : Sc :=
  if isSpace c then s
  else if c == 123 then s.push .objKey .beginStringOrEmpty
  else if c == 91 then s.push .arrVal .beginValueOrEmpty
  else if c == 34 then { s with step := .inString }
  else if c == 45 then { s with step := .neg }
  else if c == 48 then { s with step := .s0 }
  else if c == 116 then { s with step := .t }
  else if c == 102 then { s with step := .f }
  else if c == 110 then { s with step := .n }
  else if 49 ≤ c && c ≤ 57 then { s with step := .s1 }
  else s.fail

/-- `stateBeginString` -/
def beginString (s : Sc) (c : Nat) : Sc :=
  if isSpace c then s
  else if c == 34 then { s with step := .inString }
  else s.fail

/-- `state0` (also the tail of `state1`) -/
def state0 (s : Sc) (c : Nat) : Sc :=
  if c == 46 then { s with step := .dot }
  else if c == 101 || c == 69 then { s with step := .e }
  else endValue s c

/-- `stateESign` -/
def stateESign (s : Sc) (c : Nat) : Sc := if isDigit c then { s with step := .e0 } else s.fail

def lit (s : Sc) (c want : Nat) (next : Step) : Sc := if c == want then { s with step := next } else s.fail

def hexStep (s : Sc) (c : Nat) (next : Step) : Sc := if isHex c then { s with step := next } else s.fail

/-- `scan.step(scan, c)` -/
def stepFn (s : Sc) (c : Nat) : Sc :=
  match s.step with
  | .beginValueOrEmpty =>
    if isSpace c then s else if c == 93 then endValue s c else beginValue s c
  | .beginValue => beginValue s c
  | .beginStringOrEmpty =>
    if isSpace c then s
    else if c == 125 then
      match s.stack with
      | [] => s.fail                  -- unreachable: this state is entered by a push
      | _ :: rest => endValue { s with stack := .objVal :: rest } c
    else beginString s c
  | .beginString => beginString s c
  | .endValue => endValue s c
  | .endTop => endTopStep s c
  | .inString =>
    if c == 34 then { s with step := .endValue }
    else if c == 92 then { s with step := .inStringEsc }
    else if c < 32 then s.fail
    else s
  | .inStringEsc =>
    if c == 98 || c == 102 || c == 110 || c == 114 || c == 116 || c == 92 || c == 47 || c == 34 then
      { s with step := .inString }
    else if c == 117 then { s with step := .escU }
    else s.fail
  | .escU => hexStep s c .escU1
  | .escU1 => hexStep s c .escU12
  | .escU12 => hexStep s c .escU123
  | .escU123 => hexStep s c .inString
  | .neg => if c == 48 then { s with step := .s0 } else if 49 ≤ c && c ≤ 57 then { s with step := .s1 } else s.fail
  | .s1 => if isDigit c then s else state0 s c
  | .s0 => state0 s c
  | .dot => if isDigit c then { s with step := .dot0 } else s.fail
  | .dot0 => if isDigit c then s else if c == 101 || c == 69 then { s with step := .e } else endValue s c
  | .e => if c == 43 || c == 45 then { s with step := .eSign } else stateESign s c
  | .eSign => stateESign s c
  | .e0 => if isDigit c then s else endValue s c
  | .t => lit s c 114 .tr
  | .tr => lit s c 117 .tru
  | .tru => lit s c 101 .endValue
  | .f => lit s c 97 .fa
  | .fa => lit s c 108 .fal
  | .fal => lit s c 115 .fals
  | .fals => lit s c 101 .endValue
  | .n => lit s c 117 .nu
  | .nu => lit s c 108 .nul
  | .nul => lit s c 108 .endValue
  | .error => s

/-- one byte of `checkValid`'s loop (after an error the loop has returned: the state no longer matters) -/
def feed (s : Sc) (c : UInt8) : Sc := if s.err then s else stepFn s c.toNat

def scan (s : Sc) (bs : Bytes) : Sc := bs.foldl feed s

/-- `scan.eof() != scanError` -/
def Sc.eofOk (s : Sc) : Bool :=
  if s.err then false
  else if s.endTop then true
  else
    let s' := stepFn s 32
    s'.endTop

/-- `json.Valid` -/
def valid (bs : Bytes) : Bool := (scan Sc.init bs).eofOk

theorem scan_append (s : Sc) (a b : Bytes) : scan s (a ++ b) = scan (scan s a) b := by
  simp [scan, List.foldl_append]

theorem scan_cons (s : Sc) (c : UInt8) (bs : Bytes) : scan s (c :: bs) = scan (feed s c) bs := rfl

@[simp] theorem scan_nil (s : Sc) : scan s [] = s := rfl

end Spok.Json
