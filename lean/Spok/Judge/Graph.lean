import Spok.Graph
/-! # Judge for C03 — the property as a decidable predicate over what one `Run` was *observed* to do

`c03 ts req fails obs`: `ts` the task table of the spokfile, `req` the requested names, `fails` which tasks' commands
exit non-zero, `obs` = error class returned (if any) and the Runner calls in order.

The judge first decides what kind of configuration it is looking at (`classify`): erroneous (a name defined twice, an
undefined name among the requested tasks and everything they reach, a dependency cycle among the selected tasks) or
fine, in which case it also knows the set of selected tasks.  The decision procedure runs the model's `plan` with a fixed
oracle; that this *is* the mathematical notion (`Erroneous`, `Reach` — inductive definitions in `Spok/Graph.lean`)
is theorem `classify_erroneous_iff` / `classify_fine` in `Lemmas/GraphJudge.lean`, and `Props/C03.lean` proves
`c03 … = true ↔ Spec …` where `Spec` (below) is the property written with quantifiers.

Then:
* erroneous configuration  ⇒ an error must be reported and nothing may have run;
* otherwise: nothing runs twice, only selected tasks run, every task that runs is preceded by all its dependencies;
  and when no selected task fails, no error (an empty request selects nothing: there any outcome with no call passes)
  and every selected task ran.
-/
namespace Spok.Judge.Graph
open Spok.Graph

variable {α : Type} [DecidableEq α]

inductive Config (α : Type)
  | erroneous
  | fine (selected : List α)
  deriving Repr

/-- the oracle that gives no hints: collections are iterated in the order the model stores them -/
def plainOracle : Oracle α := ⟨[], fun _ => []⟩

/-- decision procedure for the kind of configuration and, when it is fine, the selected tasks.  It runs the model's
    `plan` under one fixed oracle; `classify_erroneous_iff` and `classify_fine` (Lemmas/GraphJudge.lean) prove that
    the answer is the mathematical one (`Erroneous`, `Reach`), whatever the oracle. -/
def classify (ts : Table α) (req : List α) : Config α :=
  if ¬ (names ts).Nodup then .erroneous
  else if req = [] then .fine []
  else match plan plainOracle ts req with
    | .ok order => .fine order
    | _ => .erroneous

/-- every task that ran was preceded by all the tasks it depends on -/
def depsBeforeB (ts : Table α) (calls : List α) : Bool :=
  calls.all fun b => (deps ts b).all fun a => calls.idxOf a < calls.idxOf b

def c03 (ts : Table α) (req : List α) (fails : α → Bool) (obs : Obs α) : Bool :=
  match classify ts req with
  | .erroneous => obs.err.isSome && obs.calls.isEmpty
  | .fine sel =>
    decide obs.calls.Nodup && obs.calls.all (fun n => n ∈ sel) && depsBeforeB ts obs.calls &&
    (sel.any fails || ((obs.err.isNone || req.isEmpty) && sel.all (fun n => n ∈ obs.calls)))

/-- C03 with quantifiers: what the property demands of an observed run (`c03_iff_spec`: the judge decides exactly this) -/
def Spec (ts : Table α) (req : List α) (fails : α → Bool) (obs : Obs α) : Prop :=
  (Erroneous ts req → obs.err ≠ none ∧ obs.calls = []) ∧
  (¬ Erroneous ts req →
    obs.calls.Nodup ∧
    (∀ n ∈ obs.calls, Reach ts req n) ∧
    (∀ b ∈ obs.calls, ∀ a ∈ deps ts b, Before obs.calls a b) ∧
    ((∀ n, Reach ts req n → fails n = false) →
      (obs.err = none ∨ req = []) ∧ ∀ n, Reach ts req n → n ∈ obs.calls))

end Spok.Judge.Graph
