import Spok.Clean
import Spok.Env
/-! # Executable judges for C12 (`--clean`) and C13 (variables in commands)

The property itself as a decidable predicate over what the *implementation* was observed to do:
`some true` = accepted, `some false` = rejected, `none` = the property does not speak about this case. -/
namespace Spok.Judge.Env
open Spok.Clean Spok.Env

/-! ## C12 -/

inductive ErrClass where
  | none        -- exit status 0
  | refused     -- non-zero, "Refusing to remove …"
  | other       -- any other failure
  | hang
  deriving DecidableEq, Repr

/-- what was seen around one `spok --clean`: the whole sandbox before and after (every entry with kind and
    content hash; the cache directory is one entry, a run may write inside it) -/
structure Obs12 where
  err : ErrClass
  ranCleanTask : Bool          -- the user's clean task left its mark on stdout
  before : FS
  after : FS
  deriving Repr

def definedOutputs (sf : SpokFile) : Bool :=
  sf.tasks.all (fun t => t.namedOutputs.all (fun n => (lookupVar sf.vars n).isSome))

/-- C12 for an invocation from the spokfile's directory -/
def c12 (sf : SpokFile) (cwd : Str) (o : Obs12) : Option Bool :=
  if sf.hasTask cleanName then
    -- the task is run instead, spok itself removes nothing: every entry that was there still is, unchanged
    -- (the task's commands have no file effects; the run may create the cache directory)
    some (o.ranCleanTask && o.err = .none &&
          o.before.all (fun e => o.after.contains e) &&
          o.after.all (fun e => o.before.contains e || e.1 = pathOf sf.cacheDir))
  else if !definedOutputs sf then none
  else
    let ds := designatedList sf cwd
    if ds.any (fun d => protectedPath sf (pathOf d)) then
      -- the spokfile, its directory or something above it is designated: refuse, touch nothing
      some (o.err ≠ .none && o.after = o.before)
    else
      some (o.err = .none && o.after = expectedAfter o.before ds)

/-- a user-defined `clean` task whose command FAILS: the failure is reported (non-zero exit) and spok itself still removes
    nothing — the task is run *instead* of spok's own clean, however it ends -/
def c12failing (sf : SpokFile) (o : Obs12) : Bool :=
  o.ranCleanTask && decide (o.err ≠ .none) &&
  o.before.all (fun e => o.after.contains e) &&
  o.after.all (fun e => o.before.contains e || e.1 = pathOf sf.cacheDir)

/-- the observation the model produces -/
def obsOfModel (sf : SpokFile) (cwd : Str) (fs : FS) (taskRun : FS → FS × Bool) (ran : Bool) : Obs12 :=
  let r := handleClean sf cwd fs taskRun
  { err := match r.err with
      | Option.none => .none
      | some (.refused _) => .refused
      | some _ => .other,
    ranCleanTask := ran, before := fs, after := r.fs }

/-! ## C13 -/

structure TaskCase where
  name : Str
  commands : List Command
  deriving Repr

inductive StmtCase where
  | decl (name : Str) (rhs : Rhs)
  | task (t : TaskCase)
  deriving Repr

def StmtCase.toStmt : StmtCase → Stmt
  | .decl n r => .decl n r
  | .task t => .task ⟨t.name, t.commands.map Command.src⟩

structure Row where
  task : Str
  idx : Nat
  cmd : Str
  stdout : Str
  status : Nat
  deriving DecidableEq, Repr

inductive Phase where
  | ok | err | none | other
  deriving DecidableEq, Repr

structure Obs13 where
  load : Phase                     -- `spok --vars` succeeded / failed
  vars : List (Str × Str)          -- its rows, in the order printed
  run : Phase                      -- `spok --json tasks…`
  rows : List Row
  deriving Repr

def strLt : Str → Str → Bool
  | [], [] => false
  | [], _ :: _ => true
  | _ :: _, [] => false
  | a :: as, b :: bs => a.toNat < b.toNat || (a = b && strLt as bs)

def insertRow (r : Str × Str) : List (Str × Str) → List (Str × Str)
  | [] => [r]
  | x :: xs => if strLt r.1 x.1 then r :: x :: xs else x :: insertRow r xs

/-- `sort.Strings` on the names -/
def sortRows (vs : List (Str × Str)) : List (Str × Str) := vs.foldr insertRow []

def tasksOf : List StmtCase → List TaskCase
  | [] => []
  | .task t :: rest => t :: tasksOf rest
  | .decl _ _ :: rest => tasksOf rest

def scopeOf (f : File) (n : Str) : Vars :=
  match f.tasks.find? (fun l => l.name = n) with
  | some l => l.scope
  | Option.none => []

/-- every reference of the command names a variable defined earlier -/
def refsDefined (scope : Vars) (c : Command) : Bool :=
  (refsOf c.pieces).all (fun n => (get scope n).isSome)

def envNamesOf : Command → List Str
  | .raw _ _ => []
  | .words ws => ws.flatMap (fun w => w.filterMap (fun p => match p with
      | .evar n => some n | .dq n => some n | _ => Option.none))

def isWords : Command → Bool
  | .words _ => true
  | .raw _ _ => false

/-- one command of one task against its observed row -/
def judgeCommand (scope final : Vars) (c : Command) (row : Row) : Bool :=
  row.status = 0 &&
  -- template clause: direct textual substitution of the references, everything else as written
  (!refsDefined scope c || row.cmd = subst scope c.pieces) &&
  -- environment clause: where the command only looks at spokfile variables, `$N` is the spokfile value
  (!(isWords c && refsDefined scope c && (envNamesOf c).all (fun n => (get final n).isSome)) ||
    match c.stdout scope (get final) with
    | some out => row.stdout = out
    | Option.none => true)

/-- the row the model produces for command `i` of task `tname` (`none`: outside the modelled subsets) -/
def modelRow (scope : Vars) (env : Str → Option Str) (tname : Str) (i : Nat) (c : Command) : Option Row :=
  match expand scope c.src, c.stdout scope env with
  | .ok cmd, some out => some ⟨tname, i, cmd, out, 0⟩
  | _, _ => Option.none

def judgeTask (f : File) (obs : Obs13) (t : TaskCase) : Bool :=
  let scope := scopeOf f t.name
  (List.range t.commands.length).all (fun i =>
    match t.commands[i]?, obs.rows.find? (fun r => r.task = t.name && r.idx = i) with
    | some c, some row => judgeCommand scope f.vars c row
    | _, _ => false)

/-- C13: `cwd` is the directory spok runs in (the project root) -/
def c13 (cwd : Str) (stmts : List StmtCase) (obs : Obs13) : Option Bool :=
  match load cwd (stmts.map StmtCase.toStmt) with
  | .error (.execFailed _) => some (obs.load = .err)          -- a failing exec is an error
  | .error .execArity => some (obs.load = .err)
  | .error _ => Option.none                                          -- outside the template subset / duplicate task
  | .ok f =>
    some (obs.load = .ok &&
          -- every variable has the value the property gives it (`--vars`, sorted by name)
          obs.vars = sortRows f.vars &&
          ((tasksOf stmts).isEmpty || (obs.run = .ok && (tasksOf stmts).all (judgeTask f obs))))

end Spok.Judge.Env

namespace Spok.Judge
abbrev c12 := @Spok.Judge.Env.c12
abbrev c13 := @Spok.Judge.Env.c13
end Spok.Judge
