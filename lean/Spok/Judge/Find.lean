import Spok.Find
/-! # Judge for C17 — the property as a decidable predicate over what `file.Find` was *observed* to do

The judge does not run the loop model (`Find.find`); it evaluates the specification
(`Find.spec`: nearest directory at or above `start` that is not a strict ancestor of `stop` and holds
a regular file called `spokfile`) and demands that the observed outcome is exactly that.  A call that
did not come back (`hang`) violates "always terminates"; an error other than "none found" on a chain
whose levels are all readable (`err`) violates "otherwise reports that none was found". -/
namespace Spok.Judge
open Spok.Find

inductive FindObs where
  | found (dir : Dir)     -- returned `dir/spokfile`
  | notFound              -- returned the "No spokfile found" error
  | err                   -- returned something else (a path that is not a `spokfile` of the chain, another error)
  | hang                  -- did not return
deriving DecidableEq, Repr

def FindObs.ofResult : Result → FindObs
  | .found d => .found d
  | .notFound => .notFound

def c17 (fs : FS) (start stop : Dir) (obs : FindObs) : Bool :=
  decide (obs = FindObs.ofResult (spec fs start stop))

/-- a relative start (`Find.relSpec`): the call terminates and returns the nearest regular `spokfile` between start and the
    working directory, else "none found" -/
def c17rel (fs : FS) (cwd : Dir) (rel : List String) (obs : FindObs) : Bool :=
  decide (obs = FindObs.ofResult (relSpec fs cwd rel))

end Spok.Judge
