import Spok.Find
/-! # Judge for C17 — the property as a decidable predicate over what `file.Find` was *observed* to do

The judge does not run the loop model (`Find.find`); it evaluates the specification
(`Find.spec`: nearest directory at or above `start` that is not a strict ancestor of `stop` and holds
a regular file called `spokfile`) and demands that the observed outcome is exactly that.  A call that
did not come back (`hang`) violates "always terminates"; an error other than "none found" on a chain
whose levels are all readable (`err`) violates "otherwise reports that none was found". -/
namespace Spok.Judge
open Spok.Find

inductive FindObs where
  | found (dir : Dir)     -- returned `dir/spokfile`
  | notFound              -- returned the "No spokfile found" error
  | err                   -- returned something else (a path that is not a `spokfile` of the chain, another error)
  | hang                  -- did not return
deriving DecidableEq, Repr

def FindObs.ofResult : Result → FindObs
  | .found d => .found d
  | .notFound => .notFound

def c17 (fs : FS) (start stop : Dir) (obs : FindObs) : Bool :=
  decide (obs = FindObs.ofResult (spec fs start stop))

/-- A RELATIVE start path (not what cli/app passes, but `Find` takes any path): the climb of a relative path ends at
    `.` — the working directory `cwd`, of which `start` is a descendant — and neither `start == stop` nor "above stop" can
    hold between a relative and an absolute path.  Reading fixed here: the call terminates and returns the nearest regular
    `spokfile` between `start` and the working directory (both included), else "none found". -/
def relSpec (fs : FS) (cwd : Dir) (start : Dir) : Result :=
  -- the candidates, nearest first: start, its parent, … down to the working directory
  let cands := ((List.range (start.length + 1)).map fun k => start.take (start.length - k)).filter
    fun d => cwd.isPrefixOf d
  match cands.find? (fun d => hasSpokfile (fs d)) with
  | some d => .found d
  | none => .notFound

def c17rel (fs : FS) (cwd start : Dir) (obs : FindObs) : Bool :=
  decide (obs = FindObs.ofResult (relSpec fs cwd start))

end Spok.Judge
