/-! # Judges for the hash engine: C04 and C18 as decidable predicates over what the *implementation* did

One observed *group* = a base list of paths and variants of it, each hashed many times by the real
`hash.New().Hash` under different schedules (GOMAXPROCS, CPU affinity, yield perturbation). For every variant the
harness reports the set of distinct outcomes seen over the repetitions and the goroutine count difference. -/
namespace Spok.Judge.Hash

/-- what the harness put at a listed path -/
inductive Kind where
  | file      -- regular file
  | dir       -- directory
  | missing   -- nothing there
  | dangling  -- symlink to nothing
  | notdir    -- the parent is a regular file
  | vanish    -- regular file that is removed while the hasher runs
  | readfail  -- opens and stats as a regular file, reading fails (EIO)
deriving DecidableEq, Repr

/-- cannot be opened or cannot be read, whatever the schedule -/
def Kind.unreadable : Kind → Bool
  | .missing | .dangling | .notdir | .readfail => true
  | _ => false

/-- one observed return of `Hash` (or what the supervisor saw instead of a return) -/
inductive Out where
  | digest (hex : String)
  | error
  | crash
  | hang
deriving DecidableEq, Repr

def Out.returned : Out → Bool
  | .digest _ | .error => true
  | _ => false

/-- how a variant relates to the base list of its group -/
inductive Rel where
  | base
  /-- same collection of regular (path, content) pairs: a permutation, or directories inserted / removed -/
  | same
  /-- the collection differs by one edit: content change, rename, added or removed file -/
  | edit
  /-- unrelated (only judged on its own) -/
  | other
deriving DecidableEq, Repr

structure Run where
  rel : Rel
  kinds : List Kind
  /-- distinct outcomes over all repetitions of this variant -/
  outs : List Out
  /-- goroutines after the calls (settled) minus before, maximum over the repetitions -/
  leak : Nat
  /-- the model's digest of this variant (executable SHA-256) when all members are regular files or directories -/
  expect : Option String

def Run.clean (r : Run) : Bool := r.kinds.all fun k => k == .file || k == .dir

def digestsOf (r : Run) : List String := r.outs.filterMap fun | .digest d => some d | _ => none

/-- a fault-free variant returned, in all its repetitions, one and the same digest, and it is the model's digest byte
    for byte (so: independent of schedule and CPU count) -/
def Run.selfOk (v : Run) : Bool := !v.clean || v.expect.any (fun d => v.outs == [.digest d])

/-- `same` variants: the observed outcome equals the base's observed outcome (independent of order and directories);
    `edit` variants: no observed digest is one of the base's observed digests -/
def Run.relOk (base v : Run) : Bool :=
  match v.rel with
  | .same => v.outs == base.outs
  | .edit => !v.clean || (digestsOf v).all (fun d => !(digestsOf base).contains d)
  | _ => true

/-- C04 on one group; `none` = not applicable (the base list has members that are not regular files / directories) -/
def c04 (runs : List Run) : Option Bool :=
  match runs with
  | [] => none
  | base :: vs =>
    if !base.clean then none else some ((base :: vs).all Run.selfOk && vs.all (Run.relOk base))

/-- C18 on one group (`race` = the race detector reported a data race during these calls):
    every call returned a digest or an error (no crash, no hang — a deadlock shows up as one of the two);
    a variant with a member that cannot be opened returned an error every time, never a digest;
    no goroutine was left behind; no race was reported. -/
def c18 (runs : List Run) (race : Bool) : Bool :=
  !race && runs.all fun v =>
    !v.outs.isEmpty && v.outs.all Out.returned &&
    (!(v.kinds.any Kind.unreadable) || v.outs == [.error]) &&
    v.leak == 0

end Spok.Judge.Hash
