import Spok.Json.Cache
/-! # Judge for the byte-level clause of C10 — "never silently trusts a damaged cache"

What the implementation was observed to do with a cache file that `Cache.Dump` wrote for the map `m` and that was
then cut to its first `cut` bytes (a kill part-way through the write): a strict prefix must make `cache.Load` fail;
the whole file must give back exactly `m`.  The judge looks at the implementation's own bytes (`written`) and its own
`Load` answer, not at the model's. -/
namespace Spok.Judge.Json
open Spok.Json

/-- what `cache.Load` was observed to return -/
inductive LoadObs where
  | syntaxErr | typeErr | otherErr | nullMap
  /-- the entries of the loaded map, sorted by key -/
  | ok (kvs : List KV)
  | crash
deriving DecidableEq, Repr

def LoadObs.isErr : LoadObs → Bool
  | .syntaxErr | .typeErr | .otherErr => true
  | _ => false

/-- the loaded entries `kvs` are the entries of `m` up to the replacement of invalid bytes by U+FFFD (which
    `json.Marshal` performs): every loaded entry comes from one of `m`, and every key of `m` was loaded -/
def sameMap (kvs m : List KV) : Bool :=
  kvs.all (fun e => m.any fun kv => (sanitize kv.1, sanitize kv.2) == e) &&
  m.all (fun kv => kvs.any fun e => e.1 == sanitize kv.1)

/-- `m`: the map handed to `Dump` (keys distinct, values as given); `writtenLen`: how many bytes `Dump` wrote;
    `cut`: how many of them are on disk when `Load` runs -/
def c10torn (m : List KV) (writtenLen cut : Nat) (obs : LoadObs) : Bool :=
  if cut < writtenLen then obs.isErr
  else match obs with
    | .ok kvs => sameMap kvs m
    | _ => false

end Spok.Judge.Json
