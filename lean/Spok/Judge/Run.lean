import Spok.Run
/-! # Judges for C01 C02 C10 C14: the properties as decidable predicates over an *observed* history.

The observed history is replayed through the GHOST ONLY: `last t` = the dependency files task `t`'s commands last
completed successfully on (none after the cache was removed), `inp` = the current inputs of every task, `disk` = the
class (missing / corrupt / valid) of the cache file as last observed.  No model of the cache is involved: every
reported skip / non-skip is tested against `last` exactly as the property says. -/
namespace Spok.Judge.Run
open Spok.Run

structure Ghost where
  last : Name → Option Items
  inp : Name → Option Inputs
  disk : DiskClass

def Ghost.init : Ghost := ⟨fun _ => none, fun _ => some ⟨0, []⟩, .missing⟩

/-- the ghost after one trace entry: only a successful completion of the commands changes it -/
def ghostStep (inp : Name → Option Inputs) (L : Name → Option Items) : Name × Out → Name → Option Items
  | (t, .ranOk) => upd L t ((inp t).map Inputs.items)
  | _ => L

def ghostTrace (inp : Name → Option Inputs) (L : Name → Option Items) (tr : List (Name × Out)) : Name → Option Items :=
  tr.foldl (ghostStep inp) L

/-- test every entry of a trace against the ghost as it stands when that entry happens -/
def checkTrace (chk : (Name → Option Items) → Name × Out → Bool) (inp : Name → Option Inputs) :
    (Name → Option Items) → List (Name × Out) → Bool
  | _, [] => true
  | L, e :: es => chk L e && checkTrace chk inp (ghostStep inp L e) es

/-- C01 for one entry: reported skipped ⇒ the current dependency files are those of the last success -/
def c01Entry (inp : Name → Option Inputs) (L : Name → Option Items) : Name × Out → Bool
  | (t, .skipped) => match inp t with
    | some i => L t == some i.items
    | none => false
  | _ => true

/-- C02 for one entry of an unforced/forced run: (a) no file handed to the hasher ⇒ not skipped;
    (b) unforced, ≥ 1 matching file, last success on exactly these files ⇒ skipped -/
def c02Entry (force : Bool) (inp : Name → Option Inputs) (L : Name → Option Items) : Name × Out → Bool
  | (t, o) => match inp t with
    | none => true
    | some i =>
      (i.n != 0 || o != .skipped) &&
      (!(!force && L t == some i.items && !i.items.isEmpty) || o == .skipped)

def advance (g : Ghost) : OEvent → Ghost
  | .edit f => { g with inp := f }
  | .removeCache => { g with last := fun _ => none, disk := .missing }
  | .invoke _ _ tr _ d => { g with last := ghostTrace g.inp g.last tr, disk := d }

def judgeWith (chk : Ghost → OEvent → Bool) : Ghost → ObservedHistory → Bool
  | _, [] => true
  | g, e :: es => chk g e && judgeWith chk (advance g e) es

def c01Ev (g : Ghost) : OEvent → Bool
  | .invoke _ _ tr oc _ => oc != .bad && checkTrace (c01Entry g.inp) g.inp g.last tr
  | _ => true

def c02Ev (g : Ghost) : OEvent → Bool
  | .invoke force _ tr oc _ => oc != .bad && (oc != .done || checkTrace (c02Entry force g.inp) g.inp g.last tr)
  | _ => true

/-- first half of C14: a forced run that returned results ran every selected task and reported no skip -/
def c14Ev (_ : Ghost) : OEvent → Bool
  | .invoke force sel tr oc _ =>
    oc != .bad && (!(force && oc == .done) || (tr.all isRun && sel.all fun t => tr.any fun e => e.1 == t && isRun e))
  | _ => true

/-- C10 beyond C01: no panic; a damaged cache ⇒ explicit cache error having executed nothing (or killed again before
    anything ran); and the cache error is raised only for a damaged cache -/
def c10Ev (g : Ghost) : OEvent → Bool
  | .invoke _ _ tr oc _ =>
    oc != .panic && oc != .bad && oc != .stuck &&
    (g.disk != .corrupt || ((oc == .cacheError || oc == .crashed) && tr.isEmpty)) &&
    (oc != .cacheError || g.disk == .corrupt)
  | _ => true

def isCrash : OEvent → Bool
  | .invoke _ _ _ oc _ => oc == .crashed || oc == .stuck || oc == .panic
  | _ => false

def isForced : OEvent → Bool
  | .invoke force _ _ _ _ => force
  | _ => false

def hasCrash (oh : ObservedHistory) : Bool := oh.any isCrash
def hasForced (oh : ObservedHistory) : Bool := oh.any isForced

/-- C01: no reported skip without the ghost agreeing -/
def c01 (oh : ObservedHistory) : Bool := judgeWith c01Ev Ghost.init oh

/-- C02: demanded of crash-free histories only -/
def c02 (oh : ObservedHistory) : Bool := hasCrash oh || judgeWith c02Ev Ghost.init oh

/-- C10: every skip sound although invocations were killed, and a later invocation is normal or an explicit cache error -/
def c10 (oh : ObservedHistory) : Bool := judgeWith c01Ev Ghost.init oh && judgeWith c10Ev Ghost.init oh

/-- C14: forced runs run everything, and the history (with its forced runs) still satisfies C01 -/
def c14 (oh : ObservedHistory) : Bool := judgeWith c14Ev Ghost.init oh && judgeWith c01Ev Ghost.init oh

/-- C09 as far as the run loop is concerned: the report never contradicts what ran (`bad`: a command failed and the
    results do not show it, a task that ran is missing from them, exit status 0 with a failed command), and a task that
    failed is not treated as up to date later (C01 over the same ghost: a failure records nothing) -/
def c09Ev (_ : Ghost) : OEvent → Bool
  | .invoke _ _ _ oc _ => oc != .bad
  | _ => true

def hasFailure (oh : ObservedHistory) : Bool :=
  oh.any fun
    | .invoke _ _ tr _ _ => tr.any fun e => e.2 == .ranFail
    | _ => false

def c09 (oh : ObservedHistory) : Bool := judgeWith c09Ev Ghost.init oh && judgeWith c01Ev Ghost.init oh

end Spok.Judge.Run
