import Spok.Glob
/-! # Judge for C05 — the property as a decidable predicate over what `SpokFile.ExpandGlobs` was *observed* to do

The judge does not run the walk model.  From the tree and the pattern it computes the set the property
names — the regular files of the tree whose relative path matches the pattern (`Glob.matches`, the
specification matcher) and does not begin with a dot — and demands that the observed expansion,
restricted to regular files, is exactly that set (no matching file omitted, no other file included), and
that the repeated expansions (a second, fresh `SpokFile`; the same `SpokFile` again) gave the very same list.
Directories in the expansion are not judged (the property speaks of files; the hasher drops them). -/
namespace Spok.Judge
open Spok.Glob

/-- the files the property says the pattern denotes -/
def expectedFiles (t : Node) (pat : Pattern) : List Path :=
  ((entries t).filter (fun e => !e.2 && «matches» pat e.1 e.2 && !hidden e.1)).map (·.1)

/-- equal as sets -/
def sameSet (a b : List Path) : Bool := a.all (b.contains ·) && b.all (a.contains ·)

def observedFiles (obs : List Visit) : List Path := (obs.filter (fun v => !v.2)).map (·.1)

def c05 (t : Node) (pat : Pattern) (obs obsFresh obsAgain : List Visit) : Bool :=
  sameSet (observedFiles obs) (expectedFiles t pat) && obsFresh == obs && obsAgain == obs

end Spok.Judge
