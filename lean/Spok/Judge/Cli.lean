import Spok.App
/-! # Executable judges for C09, C19, C20: the property as a decidable predicate over what the REAL binary
    was observed to do in one invocation of a sequence.

Ground truth never comes from spok's own report.  It is
* the **side-effect log**: every generated command appends its marker `(task index, command index)` to a file
  outside the sandbox before doing anything else, so the log says which commands really ran and in which order;
* the **script**: stdout, stderr and exit status of every generated command are fixed by construction (`CmdSpec`);
* the **snapshots** of the sandbox `HOME` taken before and after the invocation (`diff`): symbolic links are
  recorded as links (kind `l`, content = the target string, never followed by the walk); what a link points to
  is in the snapshot under its own path, so "written through the link" shows as a change of the TARGET path.

Reading of C19 where symbolic links are involved (also in the plug-in's assumptions): a path designates what the
operating system resolves it to.  "The spokfile" that `--fmt` may rewrite is the file the found path designates
(through the link; the link itself must stay as it is); "an existing spokfile" for `--init` is anything `os.Stat`
finds at `<cwd>/spokfile`, so a link to a spokfile kept elsewhere IS one and nothing may be written; a DANGLING
link designates no spokfile: `--init` may create the file the link names (a new spokfile, nothing overwritten)
and nothing else; `--init` "appends to .gitignore" = to the file `<cwd>/.gitignore` designates, append or create.
-/
namespace Spok.Judge.Cli
open Spok.App

structure CmdSpec where
  src : String
  /-- the command text after `{{.NAME}}` expansion -/
  interp : String
  out : String
  err : String
  status : Nat
deriving Repr, Inhabited

structure TaskSpec where
  name : String
  doc : String
  tdeps : List String
  fdeps : List String
  cmds : List CmdSpec
deriving Repr, Inhabited

/-- what the generator built into the sandbox, as far as one invocation is concerned -/
structure Ctx where
  tasks : List TaskSpec
  /-- (name, evaluated value for this working directory) -/
  vars : List (String × String)
  opts : Options
  args : List String
  world : World
  /-- sandbox-relative paths -/
  cwd : String
  /-- the spokfile in use (found or given), if any: the path as spok names it, links NOT resolved -/
  spokfile : Option String
  /-- the symbolic links of the sandbox: (path of the link, its target string); spok creates and removes none -/
  links : List (String × String) := []
deriving Repr

inductive JsonObs where
  | none                         -- stdout was not looked at as JSON (no --json, or stdout empty)
  | bad                          -- --json, stdout not empty and not exactly one JSON document
  | doc (rs : List Result)       -- the single document, flattened by the harness
deriving Repr

structure Obs where
  exit : Int
  outEmpty : Bool
  json : JsonObs
  /-- stdout lines whose first word is a task / variable name, blanks squeezed -/
  taskRows : List String
  varRows : List String
  /-- the side-effect log: (task index, command index) in the order the commands ran -/
  log : List (Nat × Nat)
  /-- snapshot diff: (sandbox-relative path, new|del|mod|app|chm|typ) -/
  diff : List (String × String)
  /-- spok's own lines on stderr (command output and debug lines removed) -/
  report : String
deriving Repr

inductive Verdict where
  | ok | fail | na
deriving Repr, DecidableEq

def Verdict.str : Verdict → String
  | .ok => "ok" | .fail => "FAIL" | .na => "na"

/-- several clauses: any failure fails, otherwise ok if some clause applied -/
def Verdict.both : Verdict → Verdict → Verdict
  | .fail, _ | _, .fail => .fail
  | .ok, _ | _, .ok => .ok
  | .na, .na => .na

def ofBool (b : Bool) : Verdict := if b then .ok else .fail
def whenever (premise : Bool) (conclusion : Bool) : Verdict := if premise then ofBool conclusion else .na

/-! ## helpers -/

def isInfix (pat s : List Char) : Bool :=
  match s with
  | [] => pat.isEmpty
  | _ :: rest => pat.isPrefixOf s || isInfix pat rest

def mentions (text name : String) : Bool := isInfix name.toList text.toList

def taskAt (c : Ctx) (i : Nat) : Option TaskSpec := c.tasks[i]?
def findTask (c : Ctx) (n : String) : Option TaskSpec := c.tasks.find? (·.name == n)

def cmdStatus (c : Ctx) (tc : Nat × Nat) : Nat :=
  match taskAt c tc.1 with
  | some t => match t.cmds[tc.2]? with
    | some k => k.status
    | none => 0
  | none => 0

/-- names of the tasks of which the log shows a command with a non-zero scripted status -/
def failedTasks (c : Ctx) (log : List (Nat × Nat)) : List String :=
  ((log.filter (fun tc => cmdStatus c tc != 0)).filterMap (fun tc => (taskAt c tc.1).map (·.name))).eraseDups

/-- consecutive log entries of one task: the tasks that really executed, in execution order -/
def groupLog : List (Nat × Nat) → List (Nat × List Nat)
  | [] => []
  | (t, k) :: rest =>
    match groupLog rest with
    | (t', ks) :: gs => if t' == t then (t, k :: ks) :: gs else (t, [k]) :: (t', ks) :: gs
    | [] => [(t, [k])]

/-- requested tasks and everything they depend on (depth-first, bounded by the number of tasks) -/
def closureAux (c : Ctx) : Nat → List String → List String → List String
  | 0, _, acc => acc
  | fuel + 1, todo, acc =>
    match todo with
    | [] => acc
    | n :: rest =>
      if acc.contains n then closureAux c fuel rest acc
      else match findTask c n with
        | some t => closureAux c fuel (t.tdeps ++ rest) (acc ++ [n])
        | none => closureAux c fuel rest acc

def closure (c : Ctx) (req : List String) : List String :=
  closureAux c ((c.tasks.length + 1) * (c.tasks.length + 1) + req.length + 1) req []

def noActionFlags (o : Options) : Bool :=
  !o.init && !o.fmt && !o.vars && !o.clean && !o.show && !(o.quiet && o.debug)

/-- the invocation asks for tasks to be run (named ones, or the default task) and nothing stops it before -/
def runRequest (c : Ctx) : Option (List String) :=
  if noActionFlags c.opts && c.world.ok c.opts then
    let req := if c.args.isEmpty then (if c.world.hasDefault then ["default"] else []) else c.args
    if !req.isEmpty && req.all (fun n => (findTask c n).isSome) then some req else none
  else none

/-! ## C09 -/

/-- some executed command failed ⇒ the invocation fails and its report names a task that did fail.
    `prevFailed`: the tasks that failed in the invocation before this one ⇒ when this invocation runs them again
    they really execute (their markers are in the log) and are not reported as skipped. -/
def c09 (c : Ctx) (prevFailed : List String) (ob : Obs) : Verdict :=
  let failed := failedTasks c ob.log
  let named := (c.tasks.map (·.name)).filter (mentions ob.report)
  let a := whenever (!failed.isEmpty) (ob.exit != 0 && named.any failed.contains)
  let executed := (groupLog ob.log).filterMap (fun g => (taskAt c g.1).map (·.name))
  let b := match runRequest c with
    | some req =>
      let again := prevFailed.filter (closure c req).contains
      whenever (!again.isEmpty)
        (again.all executed.contains &&
         (match ob.json with
          | .doc rs => rs.all (fun r => !(again.contains r.task && r.skipped))
          | _ => true))
    | none => .na
  a.both b

/-! ## C03 (at the level of the binary) -/

/-- position of the first group of a task in the log -/
def firstPos (names : List String) (n : String) : Option Nat :=
  (names.zipIdx.find? (·.1 == n)).map (·.2)

/-- One invocation that runs tasks — named ones, the default task, or the user's `clean` task under `--clean`: the
    side-effect log shows every task at most ONCE (its commands in one block, never again later), nothing outside the
    closure of what the action asks for, and every task only after the tasks it depends on that ran too.  When nothing
    failed and the invocation succeeded, every task of the closure that has commands did run (unforced runs may skip
    tasks with file dependencies: those are exempt). -/
def c03 (c : Ctx) (ob : Obs) : Verdict :=
  let a := action c.opts c.args c.world
  if !a.isRun then .na
  else
    let req := requested a
    -- a requested name that is no task (an empty or blank argument included): an error, and nothing runs
    if !(req.all fun n => (findTask c n).isSome) then ofBool (ob.exit != 0 && ob.log.isEmpty)
    else
      let run := closure c req
      let names := (groupLog ob.log).filterMap (fun g => (taskAt c g.1).map (·.name))
      let once := names.eraseDups.length == names.length
      let inside := names.all run.contains
      let ordered := names.all fun n =>
        match findTask c n, firstPos names n with
        | some t, some i => t.tdeps.all fun d => match firstPos names d with | some j => j < i | none => true
        | _, _ => false
      let complete := !((failedTasks c ob.log).isEmpty && ob.exit == 0) ||
        run.all fun n => match findTask c n with
          | some t => t.cmds.isEmpty || !t.fdeps.isEmpty || names.contains n
          | none => false
      ofBool (once && inside && ordered && complete)

/-! ## C17 (at the level of the binary) -/

/-- A read-only listing (`--show`, `--vars`, or no task names and no default task) without `--spokfile`: it succeeds
    exactly when discovery — from the working directory upwards, not above `$HOME` — finds a spokfile (`c.spokfile`, worked out
    by the model of `Find` on the sandbox) that reads, parses and loads; when none is to be found the invocation fails. -/
def c17 (c : Ctx) (ob : Obs) : Verdict :=
  if c.opts.spokfileGiven || c.opts.init || (c.opts.quiet && c.opts.debug) then .na
  else match action c.opts c.args c.world with
    | .show | .vars | .list => ofBool (ob.exit == 0 && c.spokfile.isSome)
    | .error .notFound => ofBool (ob.exit != 0 && c.spokfile.isNone)
    | _ => .na

/-! ## C14 (at the level of the binary) -/

/-- `--force` on an invocation that runs tasks (named ones, or the default task) and in which nothing fails: every task
    of the closure really executed (its markers are in the side-effect log) and none is reported as skipped -/
def c14 (c : Ctx) (ob : Obs) : Verdict :=
  match runRequest c with
  | some req =>
    let executed := (groupLog ob.log).filterMap (fun g => (taskAt c g.1).map (·.name))
    let run := closure c req
    -- a task without commands leaves no marker: only tasks with commands can be seen to have executed
    let visible := run.filter (fun n => match findTask c n with | some t => !t.cmds.isEmpty | none => false)
    whenever (c.opts.force && (failedTasks c ob.log).isEmpty && ob.exit == 0)
      (visible.all executed.contains &&
       (match ob.json with
        | .doc rs => rs.all (fun r => !r.skipped)
        | _ => true))
  | none => .na

/-! ## C19 -/

/-- `filepath.Dir` on a clean relative path -/
def dirOf (p : String) : String :=
  let cs := p.toList
  if cs.contains '/' then String.ofList (((cs.reverse.dropWhile (· != '/')).drop 1).reverse) else "."

def under (dir p : String) : Bool := p == dir || (dir.toList ++ ['/']).isPrefixOf p.toList

def joinPath (d n : String) : String := if d == "." then n else d ++ "/" ++ n

/-- the components of a `/`-separated path -/
def splitSlash : List Char → List Char → List (List Char)
  | [], cur => [cur.reverse]
  | c :: cs, cur => if c == '/' then cur.reverse :: splitSlash cs [] else splitSlash cs (c :: cur)

def normComps : List (List Char) → List (List Char) → List (List Char)
  | [], acc => acc.reverse
  | c :: cs, acc =>
    if c.isEmpty || c == ['.'] then normComps cs acc
    else if c == ['.', '.'] then normComps cs (acc.drop 1)
    else normComps cs (c :: acc)

/-- `filepath.Clean` on a sandbox-relative path: `.` and empty components dropped, `..` applied -/
def normPath (p : String) : String :=
  match normComps (splitSlash p.toList []) [] with
  | [] => "."
  | cs => String.ofList (List.intercalate ['/'] cs)

def linkTarget (links : List (String × String)) (p : String) : Option String := (links.find? (·.1 == p)).map (·.2)

/-- what `p` designates once symbolic links at its LAST component are followed (relative targets are read from the
    directory of the link, as the kernel does); fuel-bounded: running out of fuel is a link loop -/
def resolve (links : List (String × String)) : Nat → String → String
  | 0, p => p
  | fuel + 1, p =>
    match linkTarget links p with
    | some t => resolve links fuel (normPath (joinPath (dirOf p) t))
    | none => p

def resolveFuel : Nat := 8

def Ctx.real (c : Ctx) (p : String) : String := resolve c.links resolveFuel p

/-- what a changed path is, in the vocabulary of the property; `none` = something spok has no business with.
    Paths spok names are taken through the links (`Ctx.real`); a change of a link ITSELF (retargeted, replaced by
    a file, removed) is therefore never one of the permitted writes. -/
def classify (c : Ctx) (path kind : String) : Option Write :=
  let cacheDir := c.spokfile.map (fun s => joinPath (dirOf s) ".spok")
  if cacheDir.any (under · path) then some ⟨.cache, .modify⟩
  else if some path == c.spokfile.map c.real then
    -- a dangling link `<cwd>/spokfile` is what discovery finds AND what `--init` creates through
    (if kind == "mod" || kind == "app" then some ⟨.spokfile, .modify⟩
     else if kind == "new" && path == c.real (joinPath c.cwd "spokfile") then some ⟨.cwdSpokfile, .create⟩
     else none)
  else if path == c.real (joinPath c.cwd "spokfile") then
    (if kind == "new" then some ⟨.cwdSpokfile, .create⟩ else none)
  else if path == c.real (joinPath c.cwd ".gitignore") then
    (if kind == "new" || kind == "app" then some ⟨.cwdGitignore, .append⟩ else none)
  else none

/-- every difference between the two snapshots is one the chosen flags permit -/
def c19 (c : Ctx) (ob : Obs) : Verdict :=
  ofBool (ob.diff.all fun (p, k) =>
    match classify c p k with
    | some w => permitted c.opts c.world w
    | none => false)

/-! ## C20 -/

def expectedCmd (k : CmdSpec) : CmdResult := ⟨k.interp, k.out, k.err, k.status⟩

/-- the single JSON document against the log: exactly the tasks of the run, the executed ones in the order the
    log shows and with the scripted text / stdout / stderr / status of every command that ran, the others
    skipped and empty (where a skipped task stands among them cannot be observed and is not constrained) -/
def jsonMatches (c : Ctx) (req : List String) (log : List (Nat × Nat)) (rs : List Result) : Bool :=
  let run := closure c req
  let names := rs.map (·.task)
  let groups := groupLog log
  let executed := groups.filterMap (fun g => (taskAt c g.1).map (·.name))
  executed.length == groups.length &&
  names.eraseDups.length == names.length &&
  names.all run.contains && run.all names.contains &&
  (names.filter executed.contains) == executed &&
  rs.all (fun r =>
    match findTask c r.task with
    | none => false
    | some t =>
      (match groups.find? (fun g => (taskAt c g.1).map (·.name) == some r.task) with
       | some g => !r.skipped && r.cmds == g.2.filterMap (fun k => (t.cmds[k]?).map expectedCmd) && r.cmds.length == g.2.length
       | none => r.cmds.isEmpty && (t.cmds.isEmpty || r.skipped)))

def rowOf (name text : String) : String := if text.isEmpty then name else name ++ " " ++ text

def rowName (row : String) : String := String.ofList (row.toList.takeWhile (· != ' '))

def strictlySorted : List String → Bool
  | a :: b :: rest => decide (a < b) && strictlySorted (b :: rest)
  | _ => true

/-- `--show`: every defined task once, sorted by name, with its docstring -/
def showOk (c : Ctx) (rows : List String) : Bool :=
  strictlySorted (rows.map rowName) &&
  rows.length == c.tasks.length &&
  c.tasks.all (fun t => rows.contains (rowOf t.name t.doc))

/-- `--vars`: every variable with its evaluated value -/
def varsOk (c : Ctx) (rows : List String) : Bool :=
  rows.length == c.vars.length && c.vars.all (fun v => rows.contains (rowOf v.1 v.2))

def c20 (c : Ctx) (ob : Obs) : Verdict :=
  let o := c.opts
  let noFailure := (failedTasks c ob.log).isEmpty
  -- with --quiet standard output is empty (--quiet --json together is contradictory: not judged)
  let q := whenever (o.quiet && !o.json) ob.outEmpty
  -- with --json, a run in which no command fails prints a single faithful document
  let j := match runRequest c with
    | some req => whenever (o.json && !o.quiet && noFailure)
        (match ob.json with
         | .doc rs => jsonMatches c req ob.log rs
         | _ => false)
    | none => .na
  let visible := !o.quiet && !o.json
  let only (flag : Bool) (others : Bool) := flag && !others && !o.init && !(o.quiet && o.debug) && c.world.ok o
  let s := whenever (only o.show (o.fmt || o.vars || o.clean) && visible) (showOk c ob.taskRows)
  let v := whenever (only o.vars (o.fmt || o.clean || o.show) && visible) (varsOk c ob.varRows)
  -- without task names: the task named default runs when there is one (judged when it has commands and no
  -- file dependencies, so that it cannot be skipped and must show in the log), the tasks are listed otherwise
  let d :=
    if noActionFlags o && c.world.ok o && c.args.isEmpty then
      match c.tasks.findIdx? (·.name == "default") with
      | some i =>
        (match taskAt c i with
         | some t => whenever (!t.cmds.isEmpty && t.fdeps.isEmpty)
             ((List.range t.cmds.length).all (fun k => ob.log.contains (i, k)) && ob.taskRows.isEmpty)
         | none => .na)
      | none => ofBool (ob.log.isEmpty && (!visible || showOk c ob.taskRows))
    else .na
  q.both (j.both (s.both (v.both d)))

end Spok.Judge.Cli
