import Spok.Syntax.Sem
/-! # Executable judges for the syntax properties: the property itself as a decidable predicate over
    what the *implementation* was observed to do.  `Props/Cnn` proves each judge accepts the model. -/
namespace Spok.Judge

def countNL (bs : List UInt8) : Nat := (bs.filter (· == 10)).length
def allSpace (bs : List UInt8) : Bool := (decodeAll bs).all isSpace
def slice (bs : List UInt8) (a b : Nat) : List UInt8 := (bs.drop a).take (b - a)

/-- C16 on a token stream already cut at its first EOF / ERROR token.
    `cur` is the offset just after the previous token. -/
def tilesFrom (bs : List UInt8) : Nat → List Tok → Bool
  | _, [] => false                                  -- the stream must end with EOF or ERROR
  | cur, [t] =>
    if t.ty == .error then true
    else if t.ty == .eof then
      t.val.isEmpty && t.pos == bs.length && cur ≤ t.pos && allSpace (slice bs cur t.pos) &&
      t.line == 1 + countNL (bs.take t.pos)
    else false
  | cur, t :: ts =>
    if t.ty == .error || t.ty == .eof then false   -- cut streams have these only in last position
    else
      let v := flat t.val
      cur ≤ t.pos && allSpace (slice bs cur t.pos) && slice bs t.pos (t.pos + v.length) == v &&
      t.pos + v.length ≤ bs.length &&
      t.line == 1 + countNL (bs.take t.pos) && tilesFrom bs (t.pos + v.length) ts

def c16 (bs : List UInt8) (toks : List Tok) : Bool := tilesFrom bs 0 toks

/-- the lines `strings.Split(input, "\n")` yields -/
def splitLines (bs : List UInt8) : List (List UInt8) :=
  let rec go : List UInt8 → List UInt8 → List (List UInt8)
    | [], cur => [cur.reverse]
    | b :: rest, cur => if b == 10 then cur.reverse :: go rest [] else go rest (b :: cur)
  go bs []

def trimmedLine (bs : List UInt8) (i : Nat) : Option (List UInt8) :=
  ((splitLines bs)[i - 1]?).map fun l => flat (trimSpace (decodeAll l))

inductive Outcome where
  | ok (t : Tree)
  | err (cited : Nat) (quoted : List UInt8)
  | panic | hang | nondet
deriving Repr

/-- C08: a tree, or an error citing a line of the input and quoting it -/
def c08 (bs : List UInt8) : Outcome → Bool
  | .ok _ => true
  | .err cited q => 1 ≤ cited && cited ≤ 1 + countNL bs && trimmedLine bs cited == some q
  | _ => false

/-- C07: the formatted text parses and means the same -/
def c07 (t : Tree) : Outcome → Bool
  | .ok t' => sem t' == sem t
  | _ => false

def c11 (printed reprinted : List UInt8) : Bool := printed == reprinted

def c15 (t : Tree) : Outcome → Bool
  | .ok t' => notes t' == notes t
  | _ => false

def c06 (expected : Tree) : Outcome → Bool
  | .ok t => t == expected
  | _ => false

end Spok.Judge
