import Spok.Judge.Json
import Spok.Wire
/-! oracle driver for the json engine (byte level of the cache file; C10)

cases
  `M <n> <k₁> <v₁> … <kₙ> <vₙ> T <cut>`   the map (hex, `-` = empty) is `Set` into a fresh cache and `Dump`ed; the file is
                                          cut to its first `cut` bytes (`cut` ≥ length: left whole); `cache.Load` reads it
      impl:  `ENC <hex of what Dump wrote> ; LOAD <obs>`
  `B <hex>`                               raw bytes as the cache file
      impl:  `VALID 0|1 ; LOAD <obs>`      (`json.Valid`, `cache.Load`)
  `Q <hex>`                               one string through `json.Marshal` and back through `json.Unmarshal`
      impl:  `ENC <hex> ; BACK <hex>|ERR`
`<obs>` = `syntax` | `type` | `other` | `null` | `crash` | `ok <n> <k> <v> …` (sorted by key)

answer: the same sections computed by the model `||` `C10=ok|FAIL|na` (the judge on the implementation's observation) -/
namespace Spok.Oracle.Json
open Spok.Json Spok.Judge.Json Spok.Wire

def readKVs : Nat → List String → Option (List KV × List String)
  | 0, ws => some ([], ws)
  | n + 1, k :: v :: ws => do
    let k ← unhex k; let v ← unhex v; let (r, ws) ← readKVs n ws
    pure ((k, v) :: r, ws)
  | _, _ => none

def kvWords (kvs : List KV) : String :=
  " ".intercalate (toString kvs.length :: kvs.flatMap fun kv => [hexBytes kv.1, hexBytes kv.2])

/-- a loaded document as the map it denotes, sorted by key -/
def canonKVs (kvs : List KV) : List KV :=
  let keys := (kvs.map (·.1)).eraseDups
  (keys.filterMap fun k => (lookup kvs k).map fun v => (k, v)).mergeSort kvLE

def loadStr : LoadRes → String
  | .syntaxErr => "syntax" | .typeErr => "type" | .nullMap => "null"
  | .ok kvs => "ok " ++ kvWords (canonKVs kvs)

def parseObs (ws : List String) : LoadObs :=
  match ws with
  | ["syntax"] => .syntaxErr | ["type"] => .typeErr | ["other"] => .otherErr | ["null"] => .nullMap
  | "ok" :: n :: rest =>
    match n.toNat? with
    | some n => match readKVs n rest with | some (kvs, []) => .ok kvs | _ => .crash
    | none => .crash
  | _ => .crash

def words (s : String) : List String := (s.splitOn " ").filter (· ≠ "")

def sect (impl : String) (name : String) : List String :=
  match (impl.splitOn " ; ").filterMap (fun p => match words p with | n :: r => if n == name then some r else none | [] => none) with
  | r :: _ => r
  | [] => []

def handle (line : String) : String :=
  match line.splitOn " | " with
  | [inp, impl] =>
    match words inp with
    | "M" :: n :: rest =>
      match n.toNat? with
      | some n =>
        match readKVs n rest with
        | some (m, ["T", cut]) =>
          match cut.toNat? with
          | some cut =>
            let enc := encodeMap m
            let res := load (enc.take cut)
            let wlen := match sect impl "ENC" with | [h] => ((unhex h).map List.length).getD 0 | _ => 0
            let v := if c10torn m wlen cut (parseObs (sect impl "LOAD")) then "ok" else "FAIL"
            s!"ENC {hexBytes enc} ; LOAD {loadStr res} || C10={v}"
          | none => "BAD-CASE || C10=FAIL"
        | _ => "BAD-CASE || C10=FAIL"
      | none => "BAD-CASE || C10=FAIL"
    | ["B", h] =>
      match unhex h with
      | some bs => s!"VALID {if valid bs then 1 else 0} ; LOAD {loadStr (load bs)} || C10=na"
      | none => "BAD-CASE || C10=FAIL"
    | ["Q", h] =>
      match unhex h with
      | some s =>
        let enc := encStr s
        let back := match enc with
          | _ :: t => (unqBody t.dropLast).map hexBytes |>.getD "ERR"
          | [] => "ERR"
        s!"ENC {hexBytes enc} ; BACK {back} || C10=na"
      | none => "BAD-CASE || C10=FAIL"
    | _ => "BAD-CASE || C10=FAIL"
  | _ => "BAD-LINE || C10=FAIL"

end Spok.Oracle.Json
