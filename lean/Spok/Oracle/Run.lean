/-! oracle driver for the run engine (to be written) -/
namespace Spok.Oracle.Run
def handle (line : String) : String := "TODO " ++ line
end Spok.Oracle.Run
