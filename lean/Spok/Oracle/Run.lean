import Spok.Run
import Spok.Judge.Run
/-! # oracle driver for the run engine (C01 C02 C10 C14)

input line:  `<case> | <implementation observation>`
  case            `T<k> ev ev …`,  ev = `w.<file>.<v>` | `d.<file>` | `c` | `f.<Task>` | `r.<Tasks>.<force>.<crash>`
                  (`T<k>b …` = the same history run against the real binary, one process per invocation, kills being real
                  SIGKILLs; the first word of a case is not read here, so both kinds are replayed, judged and compared alike)
  observation     sections separated by ` ; `; inside a section one value per invocation, separated by ` / `
     oracle arguments (observed by the harness, not compared):
       INP  `A=0:0.1+2.1,B=x,N=0:`   per task `dirs:items` (item = `path.content`), `x` = the hasher fails
       ORD  `A,B`                    run order        SEL `A,B` selected closure
       CR   `-` | `K<j>` (killed in the j-th Runner call) | `B<j>` `T<j>` `A<j>` (before / torn / after the j-th Dump)
     compared with the model:  RES `A:O,B:S` | `-`   EXEC `A:1,B:0` | `-`   ERR none|cache|other|crash|panic|bad
                               CACHE missing | corrupt | `A=<digest id>,B=-`
output line: `<model observation: RES ; EXEC ; ERR ; CACHE> || C01=… C02=… C10=… C14=…` -/
namespace Spok.Oracle.Run
open Spok.Run Spok.Judge.Run

def splitC (c : Char) (s : String) : List String := (s.splitOn (String.singleton c))
def words (s : String) : List String := (s.splitOn " ").filter (· ≠ "")

def taskId (s : String) : Option Nat :=
  match s.toList with
  | [c] => if 'A' ≤ c ∧ c ≤ 'Z' then some (c.toNat - 65) else none
  | _ => none
def taskStr (n : Nat) : String := String.singleton (Char.ofNat (65 + n))

def lookup {β : Type} (l : List (Nat × β)) (d : β) (t : Nat) : β :=
  match l.find? (fun p => p.1 == t) with
  | some p => p.2
  | none => d

def parseItem (s : String) : Option Item :=
  match splitC '.' s with
  | [p, c] => do let p ← p.toNat?; let c ← c.toNat?; pure (p, c)
  | _ => none

def parseInputs (s : String) : Option (Option Inputs) :=
  if s == "x" then some none else
  match splitC ':' s with
  | [d, items] => do
    let d ← d.toNat?
    let its ← (if items == "" then some [] else (splitC '+' items).mapM parseItem)
    pure (some ⟨d, its⟩)
  | _ => none

/-- `A=0:0.1,B=x` -/
def parseInp (s : String) : Option (List (Nat × Option Inputs)) :=
  (splitC ',' s).mapM fun kv =>
    match splitC '=' kv with
    | [k, v] => do let k ← taskId k; let v ← parseInputs v; pure (k, v)
    | _ => none

def parseNames (s : String) : Option (List Nat) :=
  if s == "-" then some [] else (splitC ',' s).mapM taskId

def parseLetters (s : String) : Option (List Nat) := s.toList.mapM fun c => taskId (String.singleton c)

inductive Crash where
  | none | kill (j : Nat) | before (j : Nat) | torn (j : Nat) | after (j : Nat)
  /-- the j-th write of the cache file fails with an error and leaves the file as it was: for the file, the ghost and
      everything later this is an invocation that ends just before that write — except that it *returns* an error -/
  | error (j : Nat)
  /-- the j-th command of the invocation removed the cache (directory and all): the next write of the cache file fails
      (as `error`), and whatever the invocation did, it is followed by a `removeCache` event -/
  | removed (j : Nat)

def parseCrash (s : String) : Option Crash :=
  match s.toList with
  | ['-'] => some .none
  | 'K' :: r => (String.ofList r).toNat?.map .kill
  | 'B' :: r => (String.ofList r).toNat?.map .before
  | 'T' :: r => (String.ofList r).toNat?.map .torn
  | 'A' :: r => (String.ofList r).toNat?.map .after
  | 'E' :: r => (String.ofList r).toNat?.map .error
  | 'R' :: r => (String.ofList r).toNat?.map .removed
  | _ => none

def parseTrace (good bad : String) (s : String) : Option (List (Name × Out)) :=
  if s == "-" then some [] else
  (splitC ',' s).mapM fun kv =>
    match splitC ':' kv with
    | [k, v] => do
      let k ← taskId k
      let o ← (if v == "S" then some Out.skipped else if v == good then some Out.ranOk else if v == bad then some Out.ranFail else none)
      pure (k, o)
    | _ => none

def parseErr : String → Option Outcome
  | "none" => some .done | "cache" => some .cacheError | "other" => some .otherError | "crash" => some .crashed
  | "panic" => some .panic | "bad" => some .bad | _ => none

def parseCacheCls (s : String) : DiskClass :=
  if s == "missing" then .missing else if s == "corrupt" then .corrupt else .valid

def sect (secs : List String) (name : String) : Option (List String) :=
  match secs.find? (fun s => s.startsWith (name ++ " ")) with
  | some s =>
    let v := String.ofList (s.toList.drop (name.length + 1))
    some ((v.splitOn " / ").map fun x => String.ofList ((x.toList.dropWhile (· == ' ')).reverse.dropWhile (· == ' ')).reverse)
  | none => none

/-! ### model side -/

def truncating : Pc → Bool
  | .initWriting | .invalidating _ | .committing => true
  | _ => false

/-- the states `s₀ … s_fuel` of an invocation -/
def states (s : St) : Nat → List St
  | 0 => [s]
  | k + 1 => s :: states (step natDigest s) k

/-- the number of micro-steps after which the implementation's observed crash point falls -/
def crashSteps (s0 : St) (n : Nat) (c : Crash) : Option Nat :=
  let sts := states s0 (fuel n)
  let idx := (List.range sts.length).zip sts
  -- number of Dumps begun up to and including each state
  let counts := idx.map fun (i, _) => ((sts.take (i + 1)).filter fun s => truncating s.pc).length
  let tornAt (j : Nat) : Option Nat :=
    ((idx.zip counts).find? fun ((_, s), cnt) => truncating s.pc && cnt == j).map fun x => x.1.1
  match c with
  | .none => none
  | .kill j =>
    (idx.find? fun (_, s) => (match s.pc with | .invalidated _ => true | _ => false) && (s.out.filter isRun).length + 1 == j).map (·.1)
  | .torn j => tornAt j
  | .before j => (tornAt j).map (· - 1)
  | .error j => (tornAt j).map (· - 1)
  | .removed j =>
    (idx.find? fun (_, s) => truncating s.pc && decide ((s.out.filter isRun).length ≥ j)).map (·.1 - 1)
  | .after j => (tornAt j).map (· + 1)

def outStr : Out → String
  | .skipped => "S" | .ranOk => "O" | .ranFail => "F"

def joinOr (l : List String) : String := if l.isEmpty then "-" else ",".intercalate l

def errStr : Outcome → String
  | .done => "none" | .cacheError => "cache" | .otherError => "other" | .crashed => "crash"
  | .stuck => "stuck" | .panic => "panic" | .bad => "bad"

def cacheStr (tasks : List Nat) : Disk → String
  | .missing => "missing"
  | .corrupt => "corrupt"
  | .valid m => joinOr (tasks.map fun t => taskStr t ++ "=" ++ (match m t with | some d => toString d | none => "-"))

structure Acc where
  w : World
  fails : List (Nat × Bool)
  events : List Event
  oevents : List OEvent          -- what the implementation was observed to do
  res : List String
  exec : List String
  err : List String
  cache : List String
  k : Nat                         -- index of the next invocation
  asked : Bool := false           -- some invocation of the case was to be killed (whether or not the process died)

structure Obs where
  inp : List (List (Nat × Option Inputs))
  ord : List (List Nat)
  sel : List (List Nat)
  cr : List Crash
  ires : List String
  iexec : List String
  ierr : List Outcome
  icache : List String

def stepCase (o : Obs) (a : Acc) (ev : String) : Option Acc :=
  match splitC '.' ev with
  | ["c"] =>
    let r := runEvent natDigest a.w .removeCache
    some { a with w := r.1, events := a.events ++ [.removeCache], oevents := a.oevents ++ [.removeCache] }
  | ["f", t] => do
    let t ← taskId t
    pure { a with fails := (t, !(lookup a.fails false t)) :: a.fails }
  | "w" :: _ => some a
  | "d" :: _ => some a
  | "t" :: _ => some a     -- a touch: the modification time moves, the inputs (INP) stay
  -- a side effect of a command (harness only): what it changes reaches the model through the inputs every task SAW (INP)
  | "x" :: _ => some a
  | "y" :: _ => some a
  | "r" :: _ :: force :: spec :: _ => do   -- a fifth field (`c1`: the process saw one CPU) does not concern the model
    let force := force == "1"
    let a := { a with asked := a.asked || (spec != "-" && !spec.startsWith "E" && !spec.startsWith "F") }
    let inp ← o.inp[a.k]?
    let ord ← o.ord[a.k]?
    let sel ← o.sel[a.k]?
    let cr ← o.cr[a.k]?
    let ires ← o.ires[a.k]?
    let iexec ← o.iexec[a.k]?
    let ierr ← o.ierr[a.k]?
    let icache ← o.icache[a.k]?
    let inpF : Name → Option Inputs := lookup inp (some ⟨0, []⟩)
    let failsL := a.fails
    let failsF : Name → Bool := lookup failsL false
    let w1 := (runEvent natDigest a.w (.edit inpF)).1
    let crashAt := crashSteps (initSt w1 force ord failsF) ord.length cr
    let e := Event.invoke force ord failsF crashAt
    let r := runEvent natDigest w1 e
    let s := runInv natDigest w1 force ord failsF crashAt
    let tasks := inp.map (·.1)
    let mres := if s.pc matches .finished then joinOr (s.out.map fun (t, x) => taskStr t ++ ":" ++ outStr x) else "-"
    let mexec := joinOr ((s.out.filter isRun).map fun (t, x) => taskStr t ++ ":" ++ (if x == .ranOk then "1" else "0"))
    -- the implementation's observation of this invocation, for the judges
    let itrace ← (if ierr == .done then parseTrace "O" "F" ires else parseTrace "1" "0" iexec)
    let removed := match cr with | .removed _ => true | _ => false
    let wEnd := if removed then (runEvent natDigest r.1 .removeCache).1 else r.1
    pure { a with
      w := wEnd, events := a.events ++ [.edit inpF, e] ++ (if removed then [.removeCache] else []),
      oevents := a.oevents ++ [.edit inpF, .invoke force sel itrace ierr (parseCacheCls icache)]
        ++ (if removed then [.removeCache] else []),
      res := a.res ++ [mres], exec := a.exec ++ [mexec],
      err := a.err ++ [match cr, crashAt with
        | .error _, some _ => "other"       -- a write error is reported, not a kill
        | .removed _, some _ => "other"
        | _, _ => errStr (outcomeOf crashAt s)],
      cache := a.cache ++ [cacheStr tasks wEnd.disk], k := a.k + 1 }
  | _ => none

def b2s (b : Bool) : String := if b then "ok" else "FAIL"
def sl (l : List String) : String := if l.isEmpty then "-" else " / ".intercalate l

def allFail : String := "C01=FAIL C02=FAIL C10=FAIL C14=FAIL C09=FAIL"

def handle (line : String) : String :=
  match line.splitOn " | " with
  | [case, impl] =>
    let secs := (impl.splitOn " ; ").map fun x => String.ofList (x.toList.dropWhile (· == ' '))
    let get (n : String) : List String := ((sect secs n).getD []).filter (· ≠ "-none-")
    let noInv := (sect secs "ERR") == some ["-"]
    let strip (l : List String) : List String := if noInv then [] else l
    let obs : Option Obs := do
      let inp ← (strip (get "INP")).mapM parseInp
      let ord ← (strip (get "ORD")).mapM parseNames
      let sel ← (strip (get "SEL")).mapM parseNames
      let cr ← (strip (get "CR")).mapM parseCrash
      let ierr ← (strip (get "ERR")).mapM parseErr
      pure ⟨inp, ord, sel, cr, strip (get "RES"), strip (get "EXEC"), ierr, strip (get "CACHE")⟩
    match obs, words case with
    | some o, _ :: evs =>
      let a0 : Acc := ⟨World.init, [], [], [], [], [], [], [], 0, false⟩
      match evs.foldlM (stepCase o) a0 with
      | some a =>
        -- the model observation is that of `runHistory` on the reconstructed history (same fold as above)
        let model := s!"RES {sl a.res} ; EXEC {sl a.exec} ; ERR {sl a.err} ; CACHE {sl a.cache}"
        let oh := a.oevents
        let v01 := b2s (c01 oh)
        -- an invocation cut short by a write error is no more a completed run than a killed one
        let cut := o.cr.any fun c => match c with | .error _ => true | .removed _ => true | _ => false
        let v02 := if hasCrash oh || cut then "na" else b2s (c02 oh)
        -- a kill that was asked for (a signal sent from inside a command) counts even when the process survived it
        let v10 := if hasCrash oh || a.asked then b2s (c10 oh) else "na"
        let v14 := if hasForced oh then b2s (c14 oh) else "na"
        let v09 := if hasFailure oh then b2s (c09 oh) else "na"
        s!"{model} || C01={v01} C02={v02} C10={v10} C14={v14} C09={v09}"
      | none => "BAD-CASE || " ++ allFail
    | _, _ => "BAD-OBS || " ++ allFail
  | _ => "BAD-LINE || " ++ allFail

end Spok.Oracle.Run
