/-! oracle driver for the cli engine (to be written) -/
namespace Spok.Oracle.Cli
def handle (line : String) : String := "TODO " ++ line
end Spok.Oracle.Cli
