import Spok.Wire
import Spok.App
import Spok.Json.Report
import Spok.Judge.Cli
/-! oracle driver for the cli engine (C09, C19, C20): reads `<case> | <what the real binary did>`, answers
    `<what the model does> || <judge verdicts on what the binary did>`.

    The model side replays the sequence of invocations over a tiny file-system state (which spokfiles and
    `.gitignore`s exist, the text of the spokfile) using `Spok.App`; the *results of commands* are an oracle
    argument taken from the side-effect log (which tasks really executed, in which order), the scripted
    command outcomes come from the case.  `--fmt` is predicted with the printer model of the syntax engine. -/
namespace Spok.Oracle.Cli
open Spok Spok.App Spok.Judge.Cli

/-! ## wire helpers: byte strings travel hex encoded; inside they are Latin-1 `String`s (one char per byte) -/

def unhexS (h : String) : Option String :=
  (Wire.unhex h).map fun bs => String.ofList (bs.map fun b => Char.ofNat b.toNat)

def bytesOf (s : String) : List UInt8 := s.toList.map fun c => UInt8.ofNat c.toNat
def hexS (s : String) : String := Wire.hexBytes (bytesOf s)

def joinOr (xs : List String) (sep : String) : String := if xs.isEmpty then "-" else sep.intercalate xs
def sortS (xs : List String) : List String := xs.mergeSort (fun a b => decide (a ≤ b))

abbrev R := StateT (List String) Option

def word : R String := fun ws => match ws with
  | w :: r => some (w, r)
  | [] => none
def num : R Nat := do
  let w ← word
  match w.toNat? with
  | some n => pure n
  | none => StateT.lift none
def hexw : R String := do
  let w ← word
  match unhexS w with
  | some s => pure s
  | none => StateT.lift none
def lit (s : String) : R Unit := do
  let w ← word
  if w == s then pure () else StateT.lift none
def rep {α} (p : R α) : Nat → R (List α)
  | 0 => pure []
  | n + 1 => do let x ← p; let xs ← rep p n; pure (x :: xs)
def many {α} (p : R α) : R (List α) := do let n ← num; rep p n

structure Ent where
  path : String
  kind : String
  content : String
deriving Repr

structure VarSpec where
  name : String
  join : Bool
  val : String
  args : List String
deriving Repr

structure StepSpec where
  cwd : String
  flags : List String
  args : List String
  edits : List (String × String)
deriving Repr

structure Case where
  tree : List Ent
  proj : String
  parses : Bool
  loads : Bool
  dotenv : String
  vars : List VarSpec
  tasks : List TaskSpec
  steps : List StepSpec
deriving Repr

def undash (s : String) : String := if s == "-" then "" else s

def pEnt : R Ent := do
  let p ← word; let k ← word; let _ ← word; let c ← hexw
  pure ⟨p, k, c⟩

def pVar : R VarSpec := do
  let n ← word
  let k ← word
  if k == "S" then do let v ← hexw; pure ⟨n, false, v, []⟩
  else if k == "J" then do let as ← many hexw; pure ⟨n, true, "", as⟩
  else StateT.lift none

def pCmd : R CmdSpec := do
  let s ← hexw; let i ← hexw; let o ← hexw; let e ← hexw; let st ← num
  pure ⟨s, i, o, e, st⟩

def pTask : R TaskSpec := do
  let n ← word; let d ← hexw
  let td ← many word
  let fd ← many hexw
  let cs ← many pCmd
  pure ⟨n, d, td, fd, cs⟩

def pStep : R StepSpec := do
  let cwd ← word
  let f ← word
  let args ← many word
  let edits ← many (do let p ← word; let c ← hexw; pure (p, c))
  pure ⟨cwd, if f == "-" then [] else f.splitOn ",", args, edits⟩

def pCase : R Case := do
  lit "T"; let tree ← many pEnt
  lit "P"; let proj ← word
  lit "W"; let p ← word; let l ← word; let de ← word
  lit "V"; let vars ← many pVar
  lit "K"; let tasks ← many pTask
  lit "S"; let steps ← many pStep
  pure ⟨tree, undash proj, p == "1", l == "1", de, vars, tasks, steps⟩

def parseCase (s : String) : Option Case :=
  match pCase ((s.splitOn " ").filter (· ≠ "")) with
  | some (c, []) => some c
  | _ => none

/-! ## the implementation's observation -/

def sectionsOf (impl : String) : List (String × List String) :=
  (impl.splitOn " ; ").map fun sec =>
    let sec := sec.trimAscii.toString
    let name := (sec.splitOn " ").headD ""
    let body := (sec.drop name.length).toString.trimAscii.toString
    (name, (body.splitOn " / ").map fun v => v.trimAscii.toString)

def sectAt (secs : List (String × List String)) (name : String) (i : Nat) : String :=
  match secs.find? (·.1 == name) with
  | some (_, vs) => vs.getD i "-"
  | none => "-"

def commaList (s : String) : List String := if s == "-" || s == "" then [] else s.splitOn ","

def parseLog (s : String) : List (Nat × Nat) :=
  (commaList s).map fun m =>
    match m.splitOn "." with
    | [a, b] => (a.toNat?.getD 9999, b.toNat?.getD 9999)   -- an unknown marker is a task that does not exist
    | _ => (9999, 9999)

def parseDiff (s : String) : List (String × String) :=
  (commaList s).map fun e =>
    match (e.splitOn ":").reverse with
    | k :: rest => (":".intercalate rest.reverse, k)
    | [] => (e, "?")

def pJCmd : R CmdResult := do
  let c ← hexw; let o ← hexw; let e ← hexw; let s ← num
  pure ⟨c, o, e, s⟩

def pJTask : R Result := do
  lit "T"
  let n ← hexw; let sk ← word; let cs ← many pJCmd
  pure ⟨n, cs, sk == "1"⟩

partial def pJTasks : R (List Result) := fun ws =>
  match ws with
  | [] => some ([], [])
  | _ => match pJTask ws with
    | some (t, rest) => match pJTasks rest with
      | some (ts, r) => some (t :: ts, r)
      | none => none
    | none => none

def parseJson (s : String) : JsonObs :=
  if s == "-" then .none
  else if s == "bad" then .bad
  else match pJTasks ((s.splitOn " ").filter (· ≠ "")) with
    | some (rs, []) => .doc rs
    | _ => .bad

/-! the report at byte level: the strings of this oracle are Latin-1 (one char per byte) -/
def cmdL (c : CmdResult) : Json.BCmd := ⟨bytesOf c.cmd, bytesOf c.stdout, bytesOf c.stderr, c.status⟩
def resultL (r : Result) : Json.BResult := ⟨bytesOf r.task, r.cmds.map cmdL, r.skipped⟩

def hasSub (needle : List UInt8) : List UInt8 → Bool
  | [] => needle.isEmpty
  | b :: bs => needle.isPrefixOf (b :: bs) || hasSub needle bs

/-- `ok`: the bytes on stdout are exactly what `json.Marshal` + `Println` write for the content read from them (model:
    `Json.encReport`), and the model's reader gets that content back from them; a document showing `\ufffd` (an output
    that was not text) is not compared -/
def canonOf (doc : JsonObs) (rawHex : String) : String :=
  match doc, Wire.unhex rawHex with
  | .doc rs, some raw =>
    if hasSub (Json.ascii "\\ufffd") raw then "ok"
    else
      let brs := rs.map resultL
      if Json.encReport brs ++ [10] == raw && Json.decReport (raw.dropLast) == some brs then "ok" else "diff"
  | _, _ => "nodoc"

def rowsOf (s : String) : List String := (commaList s).map fun h => (unhexS h).getD "?"

/-! ## the model's little file system -/

structure FS where
  files : List (String × String)
  dirs : List String
  /-- symbolic links: (path, target string); the real program never creates or removes one -/
  links : List (String × String)
deriving Repr

/-- the regular file AT `p` (no link followed) -/
def FS.file? (fs : FS) (p : String) : Option String := (fs.files.find? (·.1 == p)).map (·.2)
def FS.isFile (fs : FS) (p : String) : Bool := (fs.file? p).isSome
def FS.isLink (fs : FS) (p : String) : Bool := (linkTarget fs.links p).isSome
/-- what `p` designates (links at the last component followed) -/
def FS.real (fs : FS) (p : String) : String := resolve fs.links resolveFuel p
/-- `os.Lstat` and `os.Stat` on `p` -/
def FS.entry (fs : FS) (p : String) : Entry :=
  if fs.isLink p then
    let r := fs.real p
    if fs.isFile r then .linkFile else if fs.dirs.contains r then .linkDir else .dangling
  else if fs.isFile p then .file
  else if fs.dirs.contains p then .dir
  else .absent
/-- `os.ReadFile(p)`: through links -/
def FS.read? (fs : FS) (p : String) : Option String := fs.file? (fs.real p)
def FS.put (fs : FS) (p c : String) : FS :=
  if fs.isFile p then { fs with files := fs.files.map fun (q, d) => if q == p then (q, c) else (q, d) }
  else { fs with files := fs.files ++ [(p, c)] }
/-- can `open(2)` with `O_CREAT` produce / open a regular file at the REAL path `r`?  not when `r` is a directory,
    still a link (loop), or when its directory does not exist -/
def FS.writable (fs : FS) (r : String) : Bool :=
  !fs.dirs.contains r && !fs.isLink r && (fs.isFile r || dirOf r == "." || fs.dirs.contains (dirOf r))
/-- `os.WriteFile(p, c)`: through links; `none` = the call fails and nothing changes -/
def FS.write (fs : FS) (p c : String) : Option FS :=
  let r := fs.real p
  if fs.writable r then some (fs.put r c) else none

def ancestors : Nat → String → List String
  | 0, d => [d]
  | n + 1, d => if d == "." then ["."] else d :: ancestors n (dirOf d)

/-- `isAbove(dir, other)` on sandbox-relative paths (`.` is the sandbox root) -/
def isAboveP (d other : String) : Bool := d != other && (d == "." || other.startsWith (d ++ "/"))

/-- `file.Find`: from the working directory upwards, never into a directory above `stop` (= `$HOME`; the sandbox root `.`
    unless the step says `home=<dir>`), ending at `stop` — the first directory with a NON-DIRECTORY entry named `spokfile`
    (a regular file or any symbolic link); the path is returned unresolved.  Nothing above the sandbox root holds one. -/
def findFrom (fs : FS) (stop : String) : Nat → String → Option String
  | 0, _ => none
  | n + 1, d =>
    if isAboveP d stop then none
    else if (fs.entry (joinPath d "spokfile")).findable then some (joinPath d "spokfile")
    else if d == stop || d == "." then none
    else findFrom fs stop n (dirOf d)

def findSpokfile (fs : FS) (cwd : String) (stop : String := ".") : Option String := findFrom fs stop 17 cwd

/-- `home=<dir>`: the step runs with `$HOME` = that directory of the sandbox -/
def homeOf (flags : List String) : String :=
  match flags.reverse.find? (·.startsWith "home=") with
  | some f => (f.drop 5).toString
  | none => "."

def optionsOf (flags : List String) : Options :=
  let has (a b : String) := flags.contains a || flags.contains b
  { init := flags.contains "init", quiet := has "quiet" "q", debug := flags.contains "debug", json := has "json" "j",
    fmt := flags.contains "fmt", vars := flags.contains "vars", clean := has "clean" "c", «show» := has "show" "s",
    force := has "force" "f", spokfileGiven := flags.any (·.startsWith "spokfile=") }

def givenSpokfile (flags : List String) : Option String :=
  -- the flag library lets the LAST occurrence of a repeated flag win
  (flags.reverse.find? (·.startsWith "spokfile=")).map fun f => (f.drop 9).toString

def baseOf (p : String) : String := (p.splitOn "/").getLastD ""

/-- world facts and the spokfile in use, for one step -/
def worldOf (c : Case) (fs : FS) (st : StepSpec) : World × Option String :=
  let o := optionsOf st.flags
  let sp : Option String := match givenSpokfile st.flags with
    | some p => some p
    | none => findSpokfile fs st.cwd (homeOf st.flags)
  -- the spec of the case describes the FILE that `<proj>/spokfile` designates, by whatever path it is reached
  let isProj := c.proj != "" && sp.map fs.real == some (fs.real (joinPath c.proj "spokfile"))
  -- `exists(.env)` follows links; `godotenv.Load` fails on a directory and on the generator's bad text
  let dotenvOk := match sp with
    | some p =>
      (match fs.entry (joinPath (dirOf p) ".env") with
       | .dir | .linkDir => false
       | .file | .linkFile => c.dotenv != "b"
       | .absent | .dangling => true)
    | none => true
  let w : World :=
    { cwdEntry := fs.entry (joinPath st.cwd "spokfile")
      found := o.spokfileGiven || sp.isSome
      nameOk := match sp with | some p => baseOf p == "spokfile" | none => true
      dotenvOk := dotenvOk
      readable := match sp with | some p => (fs.entry p).readable | none => true
      parses := if isProj then c.parses else true
      loads := if isProj then c.loads else true
      hasDefault := c.tasks.any (·.name == "default")
      hasClean := c.tasks.any (·.name == "clean") }
  (w, sp)

def evalVars (c : Case) (cwd : String) : List (String × String) :=
  c.vars.map fun v =>
    if v.join then (v.name, "@/" ++ (if cwd == "." then "" else cwd ++ "/") ++ "/".intercalate v.args)
    else (v.name, v.val)

/-! ## marker scanning (what the harness extracts from human-readable output) -/

def takeDigits : List Char → List Char × List Char
  | c :: cs => if c.isDigit then let (d, r) := takeDigits cs; (c :: d, r) else ([], c :: cs)
  | [] => ([], [])

/-- all non-overlapping `o<digits>x<digits>` in a text, left to right -/
def oMarks : Nat → List Char → List String
  | 0, _ => []
  | _, [] => []
  | n + 1, c :: cs =>
    if c == 'o' then
      let (d1, r1) := takeDigits cs
      match d1, r1 with
      | _ :: _, 'x' :: r2 =>
        let (d2, r3) := takeDigits r2
        if d2.isEmpty then oMarks n cs
        else String.ofList ('o' :: d1 ++ 'x' :: d2) :: oMarks n r3
      | _, _ => oMarks n cs
    else oMarks n cs

def oMarksOf (s : String) : List String := oMarks (s.length + 1) s.toList

def isEMark (l : String) : Bool :=
  match l.toList with
  | 'e' :: cs =>
    let (d1, r1) := takeDigits cs
    match d1, r1 with
    | _ :: _, 'x' :: r2 =>
      let (d2, r3) := takeDigits r2
      !d2.isEmpty && (r3.isEmpty || (r3.length == 1 && r3.all Char.isLower))
    | _, _ => false
  | _ => false

/-! ## one step of the model -/

structure StepOut where
  exit : String
  named : String
  wr : String
  out : String
  js : String
  om : String
  tr : String
  vr : String
  em : String
  /-- `--json` runs: is the real standard output, byte for byte, `Json.reportLine` of the document's content? -/
  canon : String := "-"

def rowStr (r : String × String) : String := hexS (rowOf r.1 r.2)

def jsCanon (c : Ctx) (rs : List Result) : String :=
  let ncmds (n : String) : Nat := match findTask c n with | some t => t.cmds.length | none => 1
  let xs := (rs.filter (fun r => !r.cmds.isEmpty)).map fun r =>
    " ".intercalate (["X", hexS r.task, if r.skipped then "1" else "0", toString r.cmds.length] ++
      r.cmds.flatMap fun k => [hexS k.cmd, hexS k.stdout, hexS k.stderr, toString k.status])
  let rest := rs.filter (fun r => r.cmds.isEmpty)
  let zs := (rest.filter fun r => ncmds r.task == 0).map (hexS ·.task)
  let ss := (rest.filter fun r => ncmds r.task != 0 && r.skipped).map (hexS ·.task)
  let ns := (rest.filter fun r => ncmds r.task != 0 && !r.skipped).map (hexS ·.task)
  " ".intercalate (xs ++ ["S " ++ joinOr (sortS ss) ",", "Z " ++ joinOr (sortS zs) ",", "N " ++ joinOr (sortS ns) ","])

/-- the results `SpokFile.Run` returns, given which tasks the log shows executing (oracle argument): an executed
    task ran ALL its commands (`Task.Run` does not stop at a failure); the other tasks of the run were skipped
    (or had no commands: indistinguishable in the log, canonicalised apart as `Z`) -/
def resultsFrom (c : Ctx) (req : List String) (log : List (Nat × Nat)) : List Result :=
  let executed := (groupLog log).filterMap fun g => taskAt c g.1
  let ex : List Result := executed.map fun t => ⟨t.name, t.cmds.map expectedCmd, false⟩
  let others := (closure c req).filter fun n => !(executed.any (·.name == n))
  ex ++ others.map fun n => ⟨n, [], match findTask c n with | some t => !t.cmds.isEmpty | none => true⟩

def lines (s : String) : List String := (s.splitOn "\n").filter (· ≠ "")

def modelStep (cs : Case) (fs : FS) (st : StepSpec) (log : List (Nat × Nat)) : StepOut × FS × Ctx :=
  let fs := st.edits.foldl (fun f (p, c) => (f.write p c).getD f) fs
  let o := optionsOf st.flags
  let (w, sp) := worldOf cs fs st
  let ctx : Ctx := { tasks := cs.tasks, vars := evalVars cs st.cwd, opts := o, args := st.args, world := w, cwd := st.cwd, spokfile := sp,
                     links := fs.links }
  let a := action o st.args w
  let req := requested a
  let planOk := req.all fun n => (findTask ctx n).isSome
  let ran : Option (List Result) := if a.isRun && planOk then some (resultsFrom ctx req log) else none
  let exit0 := exitOf o a ran
  let named :=
    if (failedTasks ctx log).isEmpty then "-"
    else match ran with
      | some rs => (match (outcome o rs).failingTask with | some t => t | none => "none")
      | none => "none"
  -- writes outside the cache directory, and the state afterwards
  -- (every path reported is the REAL one: `os.WriteFile` / `os.OpenFile` follow symbolic links)
  let (wr, fs', failed) : List String × FS × Bool := match a with
    | .initialise =>
      -- `exists` said no: `<cwd>/spokfile` is absent or a dangling link (then the link's target is created);
      -- os.WriteFile first, and only when that succeeded os.OpenFile(.gitignore, O_APPEND|O_CREATE)
      let sf := fs.real (joinPath st.cwd "spokfile")
      let gi := fs.real (joinPath st.cwd ".gitignore")
      (match fs.write sf "demo" with
       | none => ([], fs, true)
       | some fs1 =>
         (match fs1.write gi "ignore" with
          | none => ([sf ++ ":new"], fs1, true)
          | some fs2 => ([gi ++ (if fs.isFile gi then ":app" else ":new"), sf ++ ":new"], fs2, false)))
    | .fmt =>
      (match sp.map fs.real with
       | some p =>
         let old := (fs.file? p).getD ""
         let pr := parse (bytesOf old)
         (match pr.fail with
          | none =>
            let new := String.ofList ((flat (format pr.tree)).map fun b => Char.ofNat b.toNat)
            if new == old then ([], fs, false)
            else ([p ++ (if old.length < new.length && old.toList.isPrefixOf new.toList then ":app" else ":mod")], fs.put p new, false)
          | some _ => (["?model-parse-failed"], fs, false))
       | none => (["?no-spokfile"], fs, false))
    | _ => ([], fs, false)
  let exit := if failed then 1 else exit0
  let out := stdoutOf o a (cs.tasks.map fun t => (t.name, t.doc)) ctx.vars ran
  let streamOn := !nullStream o
  let executedCmds : List CmdSpec := match ran with
    | some _ => ((groupLog log).filterMap fun g => taskAt ctx g.1).flatMap (·.cmds)
    | none => []
  let em := if streamOn then executedCmds.flatMap (fun k => (lines k.err).filter isEMark) else []
  let so : StepOut := match out with
    | .empty => ⟨toString exit, named, joinOr (sortS wr) ",", "empty", "-", "-", "-", "-", joinOr em ",", "-"⟩
    | .text =>
      let om := if a.isRun then executedCmds.flatMap (fun k => oMarksOf k.interp ++ oMarksOf k.out) else []
      ⟨toString exit, named, joinOr (sortS wr) ",", "text", "-", joinOr om ",", "-", "-", joinOr em ",", "-"⟩
    | .taskRows rows => ⟨toString exit, named, joinOr (sortS wr) ",", "text", "-", "-", joinOr (rows.map rowStr) ",", "-", joinOr em ",", "-"⟩
    | .varRows rows => ⟨toString exit, named, joinOr (sortS wr) ",", "text", "-", "-", "-", joinOr (rows.map rowStr) ",", joinOr em ",", "-"⟩
    | .json doc =>
      let js := match decode doc with
        | some rs => jsCanon ctx rs
        | none => "?undecodable"
      ⟨toString exit, named, joinOr (sortS wr) ",", "json", js, "-", "-", "-", joinOr em ",", "-"⟩
  (so, fs', ctx)

/-! ## the whole line -/

def initialFS (c : Case) : FS :=
  { files := (c.tree.filter (·.kind == "f")).map (fun e => (e.path, e.content)),
    dirs := (c.tree.filter (·.kind == "d")).map (·.path),
    links := (c.tree.filter (·.kind == "l")).map (fun e => (e.path, e.content)) }

/-- `CWDSF`: what the harness found at `<cwd>/spokfile` in the real sandbox before the invocation
    (`os.Lstat` for the entry, `os.Stat` for what is behind a link) -/
def entryOfCode (s : String) : Entry :=
  if s == "f" then .file else if s == "d" then .dir else if s == "lf" then .linkFile
  else if s == "ld" then .linkDir else if s == "lx" then .dangling else .absent

structure Acc where
  fs : FS
  outs : List StepOut
  prevFailed : List String
  v09 : Verdict
  v19 : Verdict
  v20 : Verdict
  v14 : Verdict := .na
  v03 : Verdict := .na
  v17 : Verdict := .na

def runCase (c : Case) (secs : List (String × List String)) : Acc :=
  let idx := List.range c.steps.length
  (c.steps.zip idx).foldl (fun acc (st, i) =>
    let log := parseLog (sectAt secs "LOG" i)
    let (so, fs', ctx) := modelStep c acc.fs st log
    -- the judges look at the implementation's observation; the world they are told about is the generator's,
    -- except "what is `<cwd>/spokfile`" (absent, file, directory, link to ...), which is read off the real sandbox
    let ctxJ : Ctx := { ctx with world := { ctx.world with cwdEntry := entryOfCode (sectAt secs "CWDSF" i) } }
    let ob : Obs :=
      { exit := (sectAt secs "EXIT" i).toInt?.getD 0
        outEmpty := sectAt secs "OUT" i == "empty"
        json := parseJson (sectAt secs "JSON" i)
        taskRows := rowsOf (sectAt secs "TR" i)
        varRows := rowsOf (sectAt secs "VR" i)
        log := log
        diff := parseDiff (sectAt secs "DIFF" i)
        report := (unhexS (sectAt secs "REPORT" i)).getD "" }
    let so := if so.out == "json" then { so with canon := canonOf ob.json (sectAt secs "RAW" i) } else so
    { fs := fs', outs := acc.outs ++ [so], prevFailed := failedTasks ctxJ log,
      v09 := acc.v09.both (c09 ctxJ acc.prevFailed ob),
      -- (the look-around probe of a task saw something next to the cache directory that spok had put there: a write
      -- no action allows, even if it is gone again when the invocation ends)
      v19 := (acc.v19.both (c19 ctxJ ob)).both
        (let p := sectAt secs "PROBE" i; if p == "clean" || p == "-" then .na else .fail),
      v20 := acc.v20.both (c20 ctxJ ob),
      v14 := acc.v14.both (c14 ctxJ ob),
      v03 := acc.v03.both (c03 ctxJ ob),
      v17 := acc.v17.both (c17 ctxJ ob) })
    { fs := initialFS c, outs := [], prevFailed := [], v09 := .na, v19 := .na, v20 := .na }

def handle (line : String) : String :=
  match line.splitOn " | " with
  | [inp, impl] =>
    match parseCase inp with
    | none => "BAD-CASE || C09=FAIL C19=FAIL C20=FAIL C14=FAIL C03=FAIL C17=FAIL"
    | some c =>
      let secs := sectionsOf impl
      let acc := runCase c secs
      let j (f : StepOut → String) := " / ".intercalate (acc.outs.map f)
      s!"EXIT {j (·.exit)} ; NAMED {j (·.named)} ; WR {j (·.wr)} ; OUT {j (·.out)} ; JS {j (·.js)} ; OM {j (·.om)} ; TR {j (·.tr)} ; VR {j (·.vr)} ; EM {j (·.em)} ; CANON {j (·.canon)} ; PROBE {j (fun _ => "clean")}" ++
      s!" || C09={acc.v09.str} C19={acc.v19.str} C20={acc.v20.str} C14={acc.v14.str} C03={acc.v03.str} C17={acc.v17.str}"
  | _ => "BAD-LINE || C09=FAIL C19=FAIL C20=FAIL C14=FAIL C03=FAIL C17=FAIL"

end Spok.Oracle.Cli
