import Spok.Wire
import Spok.Judge.Env
/-! oracle driver for the env engine: `--clean` (C12) and variables / template / environment (C13).

A line is `<case> | <what the real binary did>`; a case is a flat word stream written by
`harness/cmd/vh-env` (see `encode` there), arbitrary text hex-encoded, the sandbox root written `/S`. -/
namespace Spok.Oracle.Env
open Spok Spok.Wire Spok.Clean Spok.Env Spok.Judge.Env

def toStr (bs : List UInt8) : Str := bs.map (fun b => Char.ofNat b.toNat)
def hexStr (s : Str) : String := hexBytes (s.map (fun c => UInt8.ofNat c.toNat))
def lit (s : String) : Str := s.toList

/-! ## reading the word stream -/
abbrev P := StateT (List String) Option

def word : P String := fun ws => match ws with
  | [] => none
  | w :: rest => some (w, rest)

def expect (s : String) : P Unit := do
  let w ← word
  if w == s then pure () else failure

def num : P Nat := do
  let w ← word
  match w.toNat? with
  | some n => pure n
  | none => failure

def str : P Str := do
  let w ← word
  match unhex w with
  | some bs => pure (toStr bs)
  | none => failure

def rep {α} (p : P α) : Nat → P (List α)
  | 0 => pure []
  | n + 1 => do let a ← p; let r ← rep p n; pure (a :: r)

def counted {α} (p : P α) : P (List α) := do let n ← num; rep p n

def pair : P (Str × Str) := do let a ← str; let b ← str; pure (a, b)

structure TreeEntry where
  kind : String
  path : Str
  content : Str

def treeEntry : P TreeEntry := do
  let k ← word; let p ← str; let c ← str; pure ⟨k, p, c⟩

def qitem : P QItem := do
  let k ← word
  let s ← str
  if k == "r" then pure (.ref s) else if k == "t" then pure (.text s) else failure

def shPiece : P ShPiece := do
  let k ← word
  match k with
  | "B" => do let s ← str; pure (.bare s)
  | "R" => do let s ← str; pure (.tref s)
  | "E" => do let s ← str; pure (.evar s)
  | "D" => do let s ← str; pure (.dq s)
  | "Q" => do let q ← counted qitem; pure (.sq q)
  | _ => failure

def command : P Command := do
  let k ← word
  match k with
  | "RAWC" => do let src ← str; let out ← str; let st ← num; pure (.raw src ⟨out, st⟩)
  | "W" => do let ws ← counted (counted shPiece); pure (.words ws)
  | _ => failure

def globOut : P GlobOut := do
  let p ← str; let hits ← counted str; pure ⟨p, hits⟩

structure TaskFull where
  clean : Clean.Task
  cmds : List Command

inductive StmtFull where
  | decl (n : Str) (r : Rhs)
  | task (t : TaskFull)

def stmt : P StmtFull := do
  let k ← word
  match k with
  | "V" => do
    let n ← str
    let kind ← word
    match kind with
    | "S" => do let v ← str; pure (.decl n (.str v))
    | "J" => do let args ← counted str; pure (.decl n (.join args))
    | "X" => do let args ← counted str; let out ← str; let st ← num; pure (.decl n (.exec args ⟨out, st⟩))
    | _ => failure
  | "T" => do
    let n ← str
    let files ← counted str
    let named ← counted str
    let globs ← counted globOut
    let cmds ← counted command
    pure (.task ⟨⟨n, files, named, globs⟩, cmds⟩)
  | _ => failure

structure Case where
  prop : String
  judged : Bool
  cwd : Str
  amb : List (Str × Str)
  dot : List (Str × Str)
  tree : List TreeEntry
  stmts : List StmtFull

def caseP : P Case := do
  let prop ← word
  let j ← word
  expect "CWD"; let cwd ← str
  expect "AMB"; let amb ← counted pair
  expect "DOT"; let dot ← counted pair
  expect "TREE"; let tree ← counted treeEntry
  expect "STMTS"; let stmts ← counted stmt
  pure ⟨prop, j == "J", cwd, amb, dot, tree, stmts⟩

def wordsOf (s : String) : List String := (s.splitOn " ").filter (· ≠ "")

def parseCase (s : String) : Option Case :=
  match caseP.run (wordsOf s) with
  | some (c, []) => some c
  | _ => none

/-! ## sections of the implementation's observation -/

def sect (secs : List String) (name : String) : Option String :=
  (secs.find? (fun s => s.startsWith (name ++ " ") || s == name)).map
    fun s => ((s.drop (name.length)).toString.trimAscii).toString

def root : Str := lit "/S"
def projDir : Str := lit "/S/a/home/proj"

def absOfRel (rel : Str) : Str := root ++ '/' :: rel

def snapEntry : P (Path × Kind) := do
  let k ← word; let p ← str; let h ← word
  let path := pathOf (absOfRel p)
  pure (path, if k == "d" then Kind.dir else Kind.file (lit (k ++ ":" ++ h)))

def parseSnap (s : String) : Option FS :=
  match (counted snapEntry).run (wordsOf s) with
  | some (fs, []) => some fs
  | _ => none

def cacheEntry : Path × Kind := (pathOf (join [projDir, cacheDirName]), Kind.dir)

def withCache (fs : FS) (present : Bool) : FS := if present then fs ++ [cacheEntry] else fs

def relOf (p : Path) : Str := glue (p.drop 1)

def snapStr (fs : FS) : String :=
  let es := fs.filter (fun e => e.1 ≠ cacheEntry.1)
  let ws := es.flatMap fun e =>
    match e.2 with
    | .dir => ["d", hexStr (relOf e.1), "-"]
    | .file c =>
      let s := String.ofList c
      match s.splitOn ":" with
      | [k, h] => [k, hexStr (relOf e.1), h]
      | _ => ["f", hexStr (relOf e.1), s]
  " ".intercalate (toString es.length :: ws)

def hasCache (fs : FS) : Bool := fs.any (fun e => e.1 = cacheEntry.1)
def presentStr (b : Bool) : String := if b then "present" else "absent"

def verdict : Option Bool → String
  | some true => "ok"
  | some false => "FAIL"
  | none => "na"

def toEnvStmt : StmtFull → Env.Stmt
  | .decl n r => .decl n r
  | .task t => .task ⟨t.clean.name, t.cmds.map Command.src⟩

def toStmtCase : StmtFull → StmtCase
  | .decl n r => .decl n r
  | .task t => .task ⟨t.clean.name, t.cmds⟩

def cleanTasks : List StmtFull → List Clean.Task
  | [] => []
  | .task t :: rest => t.clean :: cleanTasks rest
  | .decl _ _ :: rest => cleanTasks rest

/-- what running the user's clean task does to the tree: its commands only print; the run creates the cache -/
def cleanTaskRun (fs : FS) : FS × Bool := (if hasCache fs then fs else fs ++ [cacheEntry], true)

def errStr : ErrClass → String
  | .none => "none" | .refused => "refused" | .other => "err" | .hang => "hang"

def readErr (s : String) : ErrClass :=
  if s == "none" then .none else if s == "refused" then .refused else if s == "hang" then .hang else .other

def fullTasks : List StmtFull → List TaskFull
  | [] => []
  | .task t :: rest => t :: fullTasks rest
  | .decl _ _ :: rest => fullTasks rest

def linksOf (c : Case) : List (Str × Str) :=
  (c.tree.filter (·.kind == "l")).map fun e => (clean (absOfRel e.path), e.content)

def handleC12 (c : Case) (secs : List String) : String :=
  let cwd := absOfRel c.cwd
  match load cwd (c.stmts.map toEnvStmt) with
  | .error _ => "ERR load || C12=na C13=na C19=na C05=na"
  | .ok f =>
    let sf : SpokFile := ⟨projDir, f.vars, cleanTasks c.stmts, physOf (linksOf c)⟩
    match (sect secs "BEFORE").bind parseSnap, (sect secs "AFTER").bind parseSnap with
    | some before0, some after0 =>
      let c0 := sect secs "CACHE0" == some "present"
      let c1 := sect secs "CACHE" == some "present"
      let before := withCache before0 c0
      let after := withCache after0 c1
      -- model
      let isClean := sf.hasTask cleanName
      -- does the user's clean task fail (a command with a recorded non-zero status)?
      let cleanFails := (fullTasks c.stmts).any fun t =>
        t.clean.name == cleanName && t.cmds.any fun k => match k with | .raw _ o => o.status != 0 | _ => false
      let taskRun : FS → FS × Bool := fun fs => ((cleanTaskRun fs).1, !cleanFails)
      let m := obsOfModel sf cwd before taskRun isClean
      let model := s!"ERR {errStr m.err} ; RAN {if isClean then 1 else 0} ; CACHE {presentStr (hasCache m.after)} ; AFTER {snapStr m.after}"
      -- judge on the implementation's behaviour
      let obs : Obs12 := ⟨readErr ((sect secs "ERR").getD "?"), sect secs "RAN" == some "1", before, after⟩
      let v := if !c.judged then "na"
        else if isClean && cleanFails then (if c12failing sf obs then "ok" else "FAIL")
        else verdict (c12 sf cwd obs)
      -- the same verdict serves the checks this engine is an extra engine of: C19 (what `--clean` may delete) and, when an
      -- output glob is involved, C05 (a glob denotes exactly the matching non-hidden files)
      let hasGlob := (cleanTasks c.stmts).any fun t => !t.globOutputs.isEmpty
      s!"{model} || C12={v} C13=na C19={v} C05={if hasGlob then v else "na"}"
    | _, _ => "BAD-SNAPSHOT || C12=FAIL C13=na C19=FAIL C05=FAIL"

def readPhase (s : String) : Phase :=
  if s == "ok" then .ok else if s == "err" then .err else if s == "none" then .none else .other

def rowP : P (Option Row) := do
  let t ← str
  let i ← word
  let cmd ← str
  let out ← str
  let st ← num
  match i.toNat? with
  | some i => pure (some ⟨t, i, cmd, out, st⟩)
  | none => pure none

def parseRows (s : String) : Option (List Row) :=
  match (counted rowP).run (wordsOf s) with
  | some (rs, []) => rs.mapM id
  | _ => none

def parseVars (s : String) : Option (List (Str × Str)) :=
  match (counted pair).run (wordsOf s) with
  | some (vs, []) => some vs
  | _ => none

def varsStr (vs : List (Str × Str)) : String :=
  " ".intercalate (toString vs.length :: vs.flatMap (fun p => [hexStr p.1, hexStr p.2]))

def taskRows (f : File) (env : Str → Option Str) (t : TaskFull) : List String :=
  let scope := scopeOf f t.clean.name
  (List.range t.cmds.length).flatMap fun i =>
    match t.cmds[i]? with
    | none => []
    | some c =>
      match modelRow scope env t.clean.name i c with
      | some r => [hexStr r.task, toString r.idx, hexStr r.cmd, hexStr r.stdout, toString r.status]
      | none =>
      let cmd := match expand scope c.src with
        | .ok e => hexStr e
        | .error _ => "UNMODELLED"
      let out := match c.stdout scope env with
        | some o => hexStr o
        | none => "UNMODELLED"
      [hexStr t.clean.name, toString i, cmd, out, "0"]

def handleC13 (c : Case) (secs : List String) : String :=
  let cwd := absOfRel c.cwd
  let tasks := fullTasks c.stmts
  let model :=
    match load cwd (c.stmts.map toEnvStmt) with
    | .error _ => "LOAD err ; VARS 0 ; RUN none ; CMDS 0"
    | .ok f =>
      -- the order of `SpokFile.Env()` is Go's map order; no name occurs twice, so any order gives the same lookups
      let env := lookup (mergeEnv c.amb c.dot f.vars)
      let rows := tasks.flatMap (taskRows f env)
      let n := rows.length / 5
      let run := if tasks.isEmpty then "none" else "ok"
      s!"LOAD ok ; VARS {varsStr (sortRows f.vars)} ; RUN {run} ; CMDS {" ".intercalate (toString n :: rows)}"
  let obs : Option Obs13 := do
    let vars ← (sect secs "VARS").bind parseVars
    let rows ← (sect secs "CMDS").bind parseRows
    pure ⟨readPhase ((sect secs "LOAD").getD "?"), vars, readPhase ((sect secs "RUN").getD "?"), rows⟩
  let v := match obs with
    | none => "FAIL"
    | some o => if c.judged then verdict (c13 cwd (c.stmts.map toStmtCase) o) else "na"
  -- `--vars` is C20's business too: the rows of the listing are the evaluated values (VARS is compared; the verdict is C13's)
  s!"{model} || C12=na C13={v} C19=na C05=na C20={v}"

def handle (line : String) : String :=
  match line.splitOn " | " with
  | [inp, impl] =>
    match parseCase inp with
    | none => "BAD-CASE || C12=FAIL C13=FAIL C19=FAIL C05=FAIL"
    | some c =>
      let secs := (impl.splitOn " ; ").map (fun x => x.trimAscii.toString)
      if c.prop == "C12" then handleC12 c secs
      else if c.prop == "C13" then handleC13 c secs
      else "BAD-PROP || C12=FAIL C13=FAIL C19=FAIL C05=FAIL"
  | _ => "BAD-LINE || C12=FAIL C13=FAIL C19=FAIL C05=FAIL"

end Spok.Oracle.Env
