/-! oracle driver for the env engine: --clean (C12) and variables/template/environment (C13) (to be written) -/
namespace Spok.Oracle.Env
def handle (line : String) : String := "TODO " ++ line
end Spok.Oracle.Env
