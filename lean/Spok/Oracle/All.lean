import Spok.Oracle.Syntax
import Spok.Oracle.Run
import Spok.Oracle.Graph
import Spok.Oracle.Hash
import Spok.Oracle.Glob
import Spok.Oracle.Find
import Spok.Oracle.Cli
/-! registry of the oracle's line handlers, one per engine -/
namespace Spok.Oracle
def handlers : List (String × (String → String)) :=
  [("syntax", Syntax.handle), ("run", Run.handle), ("graph", Graph.handle), ("hash", Hash.handle),
   ("glob", Glob.handle), ("find", Find.handle), ("cli", Cli.handle)]
end Spok.Oracle
