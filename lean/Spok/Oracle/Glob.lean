import Spok.Judge.Glob
/-! oracle driver for the glob engine (C05)

case:  `T <tree> P <pattern> [R <hex root name>] [L <path,…>]`
  * `<tree>`: comma-separated `f:<path>` (regular file) / `d:<path>` (directory) entries, `-` = empty;
    directories above an entry are implied; names use a safe alphabet (no blanks, commas, colons);
  * `<pattern>`: the dependency string, verbatim.
impl observation:  `OBS <e…>` first expansion in the order of `sf.Globs[pattern]`, `OBS2` a second fresh SpokFile,
  `OBSB` the first SpokFile expanded again; `SEQ` = `OBS` (or `na` when the pattern has `{`), `SET` = sorted, duplicate-free.
  Entries are `f:<rel>` / `d:<rel>`; `-` = none; `notglob` when spok does not treat the string as a glob.
  `LEG`: doublestar.GlobWalk called directly with the pinned callback (`SkipDir` for hidden paths), `na` with `{`.
answer:  `SEQ … ; SET … ; LEG …` (`LEG` = the walk model with `legacyCallback`) of the model `||` `C05=ok|FAIL|na` (the judge on the implementation's observation) -/
namespace Spok.Oracle.Glob
open Spok.Glob Spok.Judge

def parsePath (s : String) : Path := (s.splitOn "/").map String.toList

def parseEntry (s : String) : Option Visit :=
  if s.startsWith "f:" then some (parsePath (s.drop 2).toString, false)
  else if s.startsWith "d:" then some (parsePath (s.drop 2).toString, true)
  else none

def parseEntries (s : String) (sep : String) : Option (List Visit) :=
  if s == "-" || s == "" then some [] else ((s.splitOn sep).filter (· ≠ "")).mapM parseEntry

def showPath (p : Path) : String := if p.isEmpty then "." else "/".intercalate (p.map String.ofList)
def showVisit (v : Visit) : String := (if v.2 then "d:" else "f:") ++ showPath v.1
def showList (vs : List String) : String := if vs.isEmpty then "-" else " ".intercalate vs

def insertStr (s : String) : List String → List String
  | [] => [s]
  | m :: ms => if s == m then m :: ms else if s < m then s :: m :: ms else m :: insertStr s ms
def sortDedup (xs : List String) : List String := xs.foldr insertStr []

def sect (secs : List String) (name : String) : Option String :=
  (secs.find? (fun s => s.startsWith (name ++ " ") || s == name)).map fun s => ((s.drop (name.length)).toString.trimAscii).toString

def handle (line : String) : String :=
  match line.splitOn " | " with
  | [inp, impl] =>
    match (inp.splitOn " ").filter (· ≠ "") with
    -- `R <hex>` (the name of the project directory) and `L <paths>` (entries the harness realises as symbolic links to
    -- something outside the project) do not concern the model: a path is a path, whatever it is reached through
    | "T" :: tr :: "P" :: ps :: opts =>
      match parseEntries tr "," with
      | none => "BAD-CASE || C05=FAIL"
      | some es =>
        let t := Node.ofEntries es
        if !isGlob ps.toList then "SEQ notglob ; SET notglob ; LEG notglob || C05=na"
        else match Pattern.parse ps.toList with
          | none => "SEQ unsupported ; SET unsupported || C05=na"
          | some pat =>
            let m := (expandGlob t pat).map showVisit
            let seq := if pat.any Seg.hasAlt then "na" else showList m
            let secs := (impl.splitOn " ; ").map (fun x => x.trimAscii.toString)
            let rd (n : String) : Option (List Visit) := (sect secs n).bind (fun s => parseEntries s " ")
            let v := match rd "OBS", rd "OBS2", rd "OBSB" with
              | some o, some o2, some ob => if c05 t pat o o2 ob then "ok" else "FAIL"
              | _, _, _ => "FAIL"
            let leg := if pat.any Seg.hasAlt then "na" else showList ((run legacyCallback t pat).map showVisit)
            -- `Q <pattern>`: a second pattern in the same spokfile; its set is computed on its own
            let rec findQ : List String → Option String
              | "Q" :: q :: _ => some q
              | _ :: rest => findQ rest
              | [] => none
            let setq := match findQ opts with
              | none => "na"
              | some q =>
                if !isGlob q.toList then "notglob"
                else match Pattern.parse q.toList with
                  | none => "unsupported"
                  | some pq => showList (sortDedup ((expandGlob t pq).map showVisit))
            s!"SEQ {seq} ; SET {showList (sortDedup m)} ; LEG {leg} ; SETQ {setq} || C05={v}"
    | _ => "BAD-CASE || C05=FAIL"
  | _ => "BAD-LINE || C05=FAIL"

end Spok.Oracle.Glob
