/-! oracle driver for the glob engine (to be written) -/
namespace Spok.Oracle.Glob
def handle (line : String) : String := "TODO " ++ line
end Spok.Oracle.Glob
