import Spok.Hash
import Spok.Basic.Sha256
import Spok.Judge.Hash
/-! # oracle driver for the hash engine (C04, C18)

case lines (written by `vh-hash gen`, see harness/cmd/vh-hash/main.go):
* `sha <hex>` — self-test of the executable SHA-256 against `crypto/sha256`; impl observation `SHA <hex digest>`;
* `grp g=<GOMAXPROCS> c=<cpus|0> r=<repetitions> y=<seed> x=<0|1 race build> <variant>…` where a variant is
  `<label>:<n>` followed by `n` entries `<kind>:<relative path hex>:<content hex>`; kinds `f d m l n v r s x` (`x`: cannot be opened, the process is out of descriptors — an error like `r`)
  (regular file, directory, missing, dangling symlink, parent is a regular file, vanishes while hashed, read fails);
  labels `base perm dirs content rename add remove diff other`, the first variant is the base.
  impl observation: `ROOT <hex of the temp dir> ; OUT <token per variant> ; LEAK <n per variant> ; RACE 0|1 ; CALLS n`,
  a token being the comma-separated sorted set of distinct outcomes `D:<hex digest>` / `E` (error) / `P` (panic)
  over the repetitions. The absolute path handed to `Hash` (and hashed) is `ROOT/<relative path>`.

model observation: `OUT <token per variant>` computed by `Spok.Hash.digest` with `sha := Spok.Sha256.sha256`. -/
namespace Spok.Oracle.Hash
open Spok.Hash Spok.Judge.Hash

def unhexDigit? (c : Char) : Option Nat :=
  if '0' ≤ c ∧ c ≤ '9' then some (c.toNat - 48)
  else if 'a' ≤ c ∧ c ≤ 'f' then some (c.toNat - 87)
  else none

def unhexList : List Char → Option Bytes
  | [] => some []
  | a :: b :: rest => do
    let x ← unhexDigit? a; let y ← unhexDigit? b; let r ← unhexList rest
    pure (UInt8.ofNat (x * 16 + y) :: r)
  | _ => none

def unhex? (s : String) : Option Bytes := if s == "-" then some [] else unhexList s.toList

structure EntryW where
  kind : Kind
  rel : Bytes
  content : Bytes

structure Variant where
  label : String
  entries : List EntryW

def kindOf : String → Option Kind
  | "f" => some .file | "d" => some .dir | "m" => some .missing
  | "s" => some .file      -- a symbolic link to a regular file with that content: for the digest, the file itself
  | "l" => some .dangling | "n" => some .notdir | "v" => some .vanish | "r" => some .readfail | "x" => some .readfail
  | _ => none

def parseEntry (tok : String) : Option EntryW :=
  match tok.splitOn ":" with
  | [k, p, c] => do
    let k ← kindOf k; let p ← unhex? p; let c ← unhex? c
    pure ⟨k, p, c⟩
  | _ => none

def parseVariants : Nat → List String → Option (List Variant)
  | _, [] => some []
  | 0, _ => none
  | fuel + 1, hd :: rest =>
    match hd.splitOn ":" with
    | [label, n] => do
      let n ← n.toNat?
      let (es, rest') := rest.splitAt n
      if es.length != n then none else
      let es ← es.mapM parseEntry
      let vs ← parseVariants fuel rest'
      pure (⟨label, es⟩ :: vs)
    | _ => none

def relOf (i : Nat) (label : String) : Rel :=
  if i == 0 then .base
  else if label == "perm" || label == "dirs" then .same
  else if label == "content" || label == "rename" || label == "add" || label == "remove" || label == "diff" then .edit
  else .other

/-- the model's view of a variant; `vanishGone` decides what a vanishing file counts as; a 0x00 byte in a relative
    path stands for the root directory -/
def filesOf (root : Bytes) (v : Variant) (vanishGone : Bool) : List (Path × Entry) :=
  v.entries.map fun e =>
    (root ++ (47 :: e.rel.flatMap fun b => if b == 0 then root else [b]),
      match e.kind with
      | .file => Entry.regular e.content
      | .dir => .dir
      | .vanish => if vanishGone then .unreadable else .regular e.content
      | _ => .unreadable)

def modelTok (root : Bytes) (v : Variant) (vanishGone : Bool) : String :=
  match digest Spok.Sha256.sha256 (filesOf root v vanishGone) with
  | .ok d => "D:" ++ d
  | .error _ => "E"

def hasVanish (v : Variant) : Bool := v.entries.any fun e => e.kind == .vanish

def parseAtom (a : String) : Out :=
  if a == "E" then .error
  else if a.startsWith "D:" then .digest (a.drop 2).toString
  else .crash

def parseOutTok (t : String) : List Out := (t.splitOn ",").map parseAtom

/-- the token the model prints for a variant: deterministic, except that a vanishing file may or may not have been
    opened in time — then any non-empty subset of {digest with the file, error} the implementation showed is echoed -/
def expectTok (root : Bytes) (v : Variant) (implTok : Option String) : String :=
  let t0 := modelTok root v false
  if !hasVanish v then t0 else
  let t1 := modelTok root v true
  if t0 == t1 then t0 else
  let both := t0 ++ "," ++ t1
  match implTok with
  | some t => if t == t0 || t == t1 || t == both then t else both
  | none => both

def sect (secs : List String) (name : String) : Option String :=
  (secs.find? (fun s => s.startsWith (name ++ " ") || s == name)).map fun s => ((s.drop (name.length)).toString.trimAscii).toString

def words (s : String) : List String := (s.splitOn " ").filter (· ≠ "")

def verdict : Option Bool → String
  | none => "na" | some true => "ok" | some false => "FAIL"

def zipRuns (root : Bytes) : Nat → List Variant → List String → List Nat → List Run
  | i, v :: vs, t :: ts, l :: ls =>
    let kinds := v.entries.map (·.kind)
    let clean := kinds.all fun k => k == .file || k == .dir
    let expect := if clean then (match modelTok root v false with
      | "E" => none
      | s => some (s.drop 2).toString) else none
    { rel := relOf i v.label, kinds := kinds, outs := parseOutTok t, leak := l, expect := expect } :: zipRuns root (i + 1) vs ts ls
  | _, _, _, _ => []

def handleGrp (vtoks : List String) (impl : String) : String :=
  match parseVariants (vtoks.length + 1) vtoks with
  | none => "BAD-INPUT"
  | some vs =>
    let baseClean : Bool := match vs with
      | v :: _ => v.entries.all fun e => e.kind == .file || e.kind == .dir
      | [] => false
    if impl == "CRASH" || impl == "HANG" then
      -- the process died (panic in a goroutine, SIGSEGV, runtime deadlock report) or never answered
      s!"OUT ? || C04={if baseClean then "FAIL" else "na"} C18=FAIL"
    else
    let secs := (impl.splitOn " ; ").map (fun x => x.trimAscii.toString)
    let race := (sect secs "RACE") == some "1"
    match (sect secs "ROOT").bind unhex? with
    | none => if race then "OUT ? || C04=na C18=FAIL" else s!"OUT ? || C04={if baseClean then "FAIL" else "na"} C18=FAIL"
    | some root =>
      let itoks := words ((sect secs "OUT").getD "")
      let leaks := (words ((sect secs "LEAK").getD "")).map (fun w => w.toNat?.getD 1)
      let paired : List (Variant × Option String) := vs.zipIdx.map fun (v, i) => (v, itoks[i]?)
      let mtoks := paired.map fun (v, t) => expectTok root v t
      let model := "OUT " ++ " ".intercalate mtoks
      if race then
        -- the race detector stopped the process at the first report: no outcome was observed
        s!"{model} || C04=na C18=FAIL"
      else if itoks.length != vs.length || leaks.length != vs.length then
        s!"{model} || C04={if baseClean then "FAIL" else "na"} C18=FAIL"
      else
        let runs := zipRuns root 0 vs itoks leaks
        s!"{model} || C04={verdict (c04 runs)} C18={verdict (some (c18 runs race))}"

def hexStr (bs : Bytes) : String := if bs.isEmpty then "-" else hex bs

def handle (line : String) : String :=
  match line.splitOn " | " with
  | [inp, impl] =>
    match words inp with
    | ["sha", h] =>
      (match unhex? h with
       | some bs => s!"SHA {hexStr (Spok.Sha256.sha256 bs)} || C04=na C18=na"
       | none => "BAD-INPUT")
    | "grp" :: _g :: _c :: _r :: _y :: _x :: vtoks => handleGrp vtoks impl.trimAscii.toString
    | _ => "BAD-INPUT"
  | _ => "BAD-LINE"

end Spok.Oracle.Hash
