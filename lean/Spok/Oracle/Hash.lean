/-! oracle driver for the hash engine (to be written) -/
namespace Spok.Oracle.Hash
def handle (line : String) : String := "TODO " ++ line
end Spok.Oracle.Hash
