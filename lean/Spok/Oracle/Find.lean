import Spok.Judge.Find
/-! oracle driver for the find engine (C17)

case:  `L <k₀k₁…kₙ> S <i> T <stop> [LN <j>] [REL <i0>]`
  * `kⱼ` (one hex digit) describes level j of a directory chain `B/c`, `B/c/d`, `B/c/d/d`, …
    (`B` stands for the temp directory the harness builds the chain in, taken as one component below `/`):
    `kⱼ = 4·s + o`, `s` = 0 no spokfile | 1 regular file `spokfile` | 2 directory `spokfile`,
    `o` bit 0 = a file `aaa` (sorts before), bit 1 = a file `zzz` (sorts after);
    every level but the last also lists its child `d`;
  * start = level `i`;
  * stop = `Lj` level j | `Uj` an unrelated directory `u` next to level j | `ROOT` the file-system root.
impl observation:  `RES FOUND <level> | NOTFOUND | ERR | HANG` (or the supervisor's bare `HANG` / `CRASH`)
answer:            `RES …` of the model `||` `C17=ok|FAIL` (the judge on the implementation's observation) -/
namespace Spok.Oracle.Find
open Spok.Find Spok.Judge

def hexVal (c : Char) : Option Nat :=
  if '0' ≤ c ∧ c ≤ '9' then some (c.toNat - 48)
  else if 'a' ≤ c ∧ c ≤ 'f' then some (c.toNat - 87)
  else none

def levelDir (j : Nat) : Dir := ["B", "c"] ++ List.replicate j "d"

/-- listing of level j (sorted by name: aaa < d < spokfile < u < zzz) -/
def levelEntries (k : Nat) (hasChild hasU : Bool) (caseVariants : Bool := false) : List Entry :=
  -- `CS`: regular files whose names differ from `spokfile` in case only (they sort before everything else)
  (if caseVariants then [⟨"SPOKFILE", false⟩, ⟨"Spokfile", false⟩] else []) ++
  (if k % 2 == 1 then [⟨"aaa", false⟩] else []) ++
  (if hasChild then [⟨"d", true⟩] else []) ++
  (match k / 4 with | 1 => [⟨NAME, false⟩] | 2 => [⟨NAME, true⟩] | _ => []) ++
  (if hasU then [⟨"u", true⟩] else []) ++
  (if (k / 2) % 2 == 1 then [⟨"zzz", false⟩] else [])

inductive Stop where
  | level (j : Nat) | unrel (j : Nat) | root
  /-- the directory `B/ext` that a linked level (`LN`) points to: physically the same directory as that level, lexically
      a directory next to the chain -/
  | ext

def stopDir : Stop → Dir
  | .level j => levelDir j
  | .unrel j => (levelDir j).dropLast ++ ["u"]
  | .root => []
  | .ext => ["B", "ext"]

def mkFS (ks : List Nat) (stop : Stop) (cs : Option Nat := none) : FS := fun d =>
  let n := ks.length
  let uAt : Option Nat := match stop with | .unrel j => some j | _ => none   -- `u` is listed in the parent of level j
  if d == [] then [⟨"B", true⟩]
  else if d == ["B"] then [⟨"c", true⟩] ++ (match stop with | .ext => [⟨"ext", true⟩] | _ => []) ++ (if uAt == some 0 then [⟨"u", true⟩] else [])
  else if d.length ≥ 2 ∧ d == levelDir (d.length - 2) ∧ d.length - 2 < n then
    let j := d.length - 2
    levelEntries (ks.getD j 0) (j + 1 < n) (uAt == some (j + 1)) (cs == some j)
  else []

def parseStop (s : String) : Option Stop :=
  if s == "ROOT" then some .root
  else if s == "EXT" then some .ext
  else match s.toList with
    | 'L' :: r => (String.ofList r).toNat?.map .level
    | 'U' :: r => (String.ofList r).toNat?.map .unrel
    | _ => none

def resStr (r : FindObs) : String :=
  match r with
  | .found d => if d.length ≥ 2 ∧ d == levelDir (d.length - 2) then s!"FOUND {d.length - 2}" else "FOUND outside"
  | .notFound => "NOTFOUND"
  | .err => "ERR"
  | .hang => "HANG"

def parseObs (s : String) : FindObs :=
  match (s.splitOn " ").filter (· ≠ "") with
  | ["RES", "FOUND", j] => match j.toNat? with | some j => .found (levelDir j) | none => .err
  | ["RES", "NOTFOUND"] => .notFound
  | ["RES", "HANG"] => .hang
  | ["HANG"] => .hang
  | _ => .err

def optNum (ws : List String) (key : String) : Option Nat :=
  match ws with
  | k :: v :: rest => if k == key then v.toNat? else optNum rest key
  | _ => none

def handle (line : String) : String :=
  match line.splitOn " | " with
  | [inp, impl] =>
    match (inp.splitOn " ").filter (· ≠ "") with
    -- `LN <j>` (level j is a symbolic link) does not concern the model: a path is climbed component by component
    | "L" :: ks :: "S" :: i :: "T" :: st :: opts =>
      match ks.toList.mapM hexVal, i.toNat?, parseStop st with
      | some ks, some i, some stop =>
        let fs := mkFS ks stop (optNum opts "CS")
        let start := levelDir i
        let sd := stopDir stop
        match optNum opts "REL" with
        | some i0 =>
          let cwd := levelDir i0
          let rel := List.replicate (i - i0) "d"
          let m := FindObs.ofResult (findRel fs cwd rel)
          let v := if c17rel fs cwd rel (parseObs impl.trimAscii.toString) then "ok" else "FAIL"
          s!"RES {resStr m} || C17={v}"
        | none =>
          let m := FindObs.ofResult (find fs start sd)
          let v := if c17 fs start sd (parseObs impl.trimAscii.toString) then "ok" else "FAIL"
          s!"RES {resStr m} || C17={v}"
      | _, _, _ => "BAD-CASE || C17=FAIL"
    | _ => "BAD-CASE || C17=FAIL"
  | _ => "BAD-LINE || C17=FAIL"

end Spok.Oracle.Find
