/-! oracle driver for the find engine (to be written) -/
namespace Spok.Oracle.Find
def handle (line : String) : String := "TODO " ++ line
end Spok.Oracle.Find
