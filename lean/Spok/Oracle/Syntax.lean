import Spok.Wire
import Spok.Judge.Syntax
import Spok.Syntax.WF
/-! oracle driver for the syntax engine (lexer, parser, printer) -/
namespace Spok.Oracle.Syntax
open Spok Spok.Wire Spok.Judge

def outcomeOf (bs : List UInt8) (pr : ParseResult) : Outcome :=
  match pr.fail with
  | none => .ok pr.tree
  | some (.err e) => match trimmedLine bs e.ctx with
    | some q => .err e.cited q
    | none => .panic
  | some .panic => .panic
  | some .spin => .hang

def outcomeStr : Outcome → String
  | .ok t => s!"ok {treeStr t}"
  | .err c q => s!"err {c} {hexBytes q}"
  | .panic => "panic" | .hang => "hang" | .nondet => "nondet"

def readOutcome (s : String) : Option Outcome :=
  match (s.splitOn " ").filter (· ≠ "") with
  | "ok" :: ws => (parseTree (" ".intercalate ws)).map .ok
  | ["err", c, q] => do let c ← c.toNat?; let q ← unhex q; pure (.err c q)
  | ["panic"] => some .panic
  | ["hang"] => some .hang
  | ["nondet"] => some .nondet
  | _ => none

def sect (secs : List String) (name : String) : Option String :=
  (secs.find? (fun s => s.startsWith (name ++ " ") || s == name)).map fun s => ((s.drop (name.length)).toString.trimAscii).toString

def b2s (b : Bool) : String := if b then "ok" else "FAIL"

def handle (line : String) : String :=
  match line.splitOn " | " with
  | [inp, impl] =>
    match unhex (((inp.trimAscii.toString.splitOn " ").head?).getD "") with
    | none => "BAD-INPUT"
    | some bs =>
      -- model
      let lr := lex bs
      let mLex := if lr.halted then toksStr lr.toks else "hang"
      let pr := parse bs
      let mOut := outcomeOf bs pr
      let (mPrint, mRe, mRePrint) : String × String × String := match mOut with
        | .ok t =>
          let p := flat (format t)
          let pr2 := parse p
          let o2 := outcomeOf p pr2
          (hexBytes p, outcomeStr o2, match o2 with | .ok t2 => hexBytes (flat (format t2)) | _ => "none")
        | _ => ("none", "none", "none")
      -- `BINS` cases: what the real binary reports for an input that does not parse (same located error as the parser)
      let isBins := ((inp.trimAscii.toString.splitOn " ").filter (· ≠ "")).contains "BINS"
      let mB := match mOut with
        | .err c q => s!"err {c} {hexBytes q}"
        | _ => "na"
      -- `BINF`: a file that parses but does not load (a builtin with an identifier argument): `--fmt` refuses, file unchanged
      let isBinf := ((inp.trimAscii.toString.splitOn " ").filter (· ≠ "")).contains "BINF"
      let (mPrint, mRe, mRePrint) := match isBinf, mOut with
        | true, .ok _ => ("fmtfail", outcomeStr mOut, hexBytes bs)
        | _, _ => (mPrint, mRe, mRePrint)
      let model := s!"LEX {mLex} ; PARSE {outcomeStr mOut} ; PRINT {mPrint} ; REPARSE {mRe} ; REPRINT {mRePrint}" ++
        (if isBins then s!" ; BPARSE {mB}" else "")
      -- judges on what the implementation did
      let secs := (impl.splitOn " ; ").map (fun x => x.trimAscii.toString)
      let jC16 := match (sect secs "LEX").bind Wire.parseToks with
        | some toks => b2s (c16 bs toks)
        | none => "FAIL"
      let iOut := (sect secs "PARSE").bind readOutcome
      let jC08a := match iOut with | some o => c08 bs o | none => false
      -- the binary's own report, when there is one: a located error of the input, never a crash, a hang or a bare failure
      let jC08b := match sect secs "BPARSE" with
        | none => true
        | some "na" => true
        | some b => match readOutcome b with
          | some (.err c q) => c08 bs (.err c q)
          | _ => false
      let jC08 := b2s (jC08a && jC08b)
      let iRe := (sect secs "REPARSE").bind readOutcome
      -- C15 speaks of the comments and docstrings IN THE FILE: where the language (the model's parse of the input) says
      -- what they are, that is the "before" — a front end that drops a comment before the formatter ever sees it has
      -- not kept it; where the input is not a spokfile of the language, the implementation's own tree is all there is
      let before15 (t : Tree) : Tree := match mOut with | .ok mt => mt | _ => t
      let (jC07, jC15) := match iOut with
        | some (.ok t) => (match iRe with
            | some o => (b2s (c07 t o), b2s (c15 (before15 t) o))
            | none => ("FAIL", "FAIL"))
        | _ => ("na", "na")
      let jC11 := match iOut with
        | some (.ok _) => (match sect secs "PRINT", sect secs "REPRINT" with
            -- the binary refused to format (a file that does not load): nothing was formatted, nothing to compare
            | some "fmtfail", _ => "na"
            | some p, some q => (match unhex p, unhex q with
                | some p, some q => b2s (c11 p q)
                | _, _ => "FAIL")
            | _, _ => "FAIL")
        | _ => "na"
      let jC06 := match sect secs "EXPECT" with
        | some e => if e == "none" then "na" else
            (match parseTree e, iOut with
             | some et, some o => b2s (c06 et o)
             | _, _ => "FAIL")
        | none => "na"
      -- runtime validation of the hypotheses the round-trip theorems still carry: every parsed tree is
      -- well formed, and the formatted text parses to exactly the normalised tree
      let (jWF, jNORM) := match mOut with
        | .ok t =>
          let p := flat (format t)
          (b2s (wfTree t), b2s (match outcomeOf p (parse p) with | .ok t2 => t2 == norm t | _ => false))
        | _ => ("na", "na")
      s!"{model} || C16={jC16} C08={jC08} C07={jC07} C11={jC11} C15={jC15} C06={jC06} WF={jWF} NORM={jNORM}"
  | _ => "BAD-LINE"

end Spok.Oracle.Syntax
