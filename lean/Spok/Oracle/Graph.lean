/-! oracle driver for the graph engine (to be written) -/
namespace Spok.Oracle.Graph
def handle (line : String) : String := "TODO " ++ line
end Spok.Oracle.Graph
