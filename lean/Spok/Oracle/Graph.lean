import Spok.Graph
import Spok.Judge.Graph
/-! oracle driver for the graph engine (C03)

case:   `TASKS a:b,c b: c:a ; REQ a zz ; FAIL b ; REP 0`   (`-` = empty list; definitions and dependencies in source order)
impl:   `OUTCOME ok|duplicate|no-such-task|no-such-dependency|cycle|other|… ; ORDER a b c ; RESULTS a b c`
model:  the same three sections.  Go's map iteration order inside `dag.Sort` cannot be observed from outside the
        library, but Kahn's algorithm with a FIFO queue is determined by the relative order in which simultaneously
        ready vertices are enqueued, and that order is visible in the output: the model is run with the *observed order*
        as the oracle's hint at every iteration point and must then reproduce the observed order exactly.
verdict: `C03=ok|FAIL` — `Judge.Graph.c03` on what the implementation did. -/
namespace Spok.Oracle.Graph
open Spok.Graph Spok.Judge.Graph

def words (s : String) : List String := (s.splitOn " ").filter (· ≠ "")

def listOf (s : String) : List String := (words s).filter (· ≠ "-")

def sect (secs : List String) (name : String) : Option String :=
  (secs.find? (fun s => s.startsWith (name ++ " ") || s == name)).map fun s => ((s.drop (name.length)).toString.trimAscii).toString

def parseDef (w : String) : Option (String × List String) :=
  match w.splitOn ":" with
  | [n, ds] => if n.isEmpty then none else some (n, (ds.splitOn ",").filter (· ≠ ""))
  | _ => none

def errName : Err → String
  | .duplicate => "duplicate" | .noSuchTask => "no-such-task" | .noSuchDependency => "no-such-dependency"
  | .cycle => "cycle" | .other => "other"

def errOfName : String → Option (Option Err)
  | "ok" => some none
  | "duplicate" => some (some .duplicate) | "no-such-task" => some (some .noSuchTask)
  | "no-such-dependency" => some (some .noSuchDependency) | "cycle" => some (some .cycle) | "other" => some (some .other)
  | _ => none

def showList (l : List String) : String := if l.isEmpty then "-" else " ".intercalate l

def b2s (b : Bool) : String := if b then "ok" else "FAIL"

def handle (line : String) : String :=
  match line.splitOn " | " with
  | [c, impl] =>
    let cs := (c.splitOn " ; ").map (fun x => x.trimAscii.toString)
    let is := (impl.splitOn " ; ").map (fun x => x.trimAscii.toString)
    match (sect cs "TASKS").bind (fun s => (listOf s).mapM parseDef), sect cs "REQ", sect cs "FAIL" with
    | some ts, some req, some fl =>
      let req := listOf req
      let fl := listOf fl
      let fails : String → Bool := fun n => fl.contains n
      let seen := ((sect is "ORDER").map listOf).getD []
      let o : Oracle String := ⟨seen, fun _ => seen⟩
      let model := match exec o ts req fails with
        | .ok obs =>
          let oc := match obs.err with | none => "ok" | some e => errName e
          s!"OUTCOME {oc} ; ORDER {showList obs.calls} ; RESULTS {showList obs.calls}"
        | .error _ => "OUTCOME model-error ; ORDER - ; RESULTS -"
        | .spin => "OUTCOME spin ; ORDER - ; RESULTS -"
      -- judge: on the implementation's observation; Runner calls and `results` must tell the same story
      let verdict := match (sect is "OUTCOME").bind errOfName, sect is "ORDER", sect is "RESULTS" with
        | some e, some ord, some res =>
          let ord := listOf ord
          b2s (c03 ts req fails ⟨e, ord⟩ && (e.isSome || listOf res == ord))
        | _, _, _ => "FAIL"
      s!"{model} || C03={verdict}"
    | _, _, _ => "BAD-CASE || C03=FAIL"
  | _ => "BAD-LINE || C03=FAIL"

end Spok.Oracle.Graph
