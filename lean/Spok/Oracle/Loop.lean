/-! the line loop shared by the `oracle-<engine>` executables: one case per line on stdin
    (`<case> | <what the implementation did>`), one answer per line on stdout
    (`<what the model does> || <judge verdicts on the implementation's behaviour>`) -/
namespace Spok.Oracle

partial def loop (h : IO.FS.Stream) (out : IO.FS.Stream) (f : String → String) : IO Unit := do
  let line ← h.getLine
  if line.isEmpty then return ()
  let line := line.trimAsciiEnd.toString
  if !line.isEmpty then out.putStrLn (f line)
  loop h out f

def runMain (f : String → String) : IO UInt32 := do
  let stdin ← IO.getStdin
  let stdout ← IO.getStdout
  loop stdin stdout f
  return 0

end Spok.Oracle
