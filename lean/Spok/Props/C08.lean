import Spok.Lemmas.LexTerm
import Spok.Judge.Syntax
/-! # Property C08 — parsing any input terminates, deterministically, with a tree or a located error

`lex` and `parse` are total Lean functions, so every input has exactly one result (determinism is
functionality).  What has to be *proved* is that the result is never one of the explicit
"the Go code would not get here" outcomes: the lexer's step budget and the command loop's fuel are
never exhausted (`C08_lexer_halts`), … (parser: under construction). -/
namespace Spok.Props.C08
open Spok

/-- For every byte string the lexer reaches its final state within `3·|runes| + 4` steps: the
    `run` loop of the Go lexer terminates and `lexTaskCommands` never spins. -/
theorem C08_lexer_halts (bytes : List UInt8) : (lex bytes).halted = true := by
  unfold lex; exact lexRunes_halted _

/-- the mechanism named by the property: every state function consumes input, ends the scan, or
    moves down in `rank` -/
theorem C08_every_state_makes_progress (l : L) (t : Tag) (ht : t.final = false) :
    (stepTag l t).2 ≠ .spin ∧
    ((stepTag l t).2 = .done ∨ 3 * (stepTag l t).1.right.length + rank (stepTag l t).2 < 3 * l.right.length + rank t) :=
  dec_stepTag l t ht

/-- non-vacuity: a task body with two commands lexes to the end -/
example : (lex "task t(\"a\") {\n go test\n echo {{.X}}\n}\n".toUTF8.toList).halted = true := C08_lexer_halts _

end Spok.Props.C08
