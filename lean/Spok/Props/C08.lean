import Spok.Judge.Syntax
/-! # Property C08 — theorems (under construction) -/
namespace Spok.Props.C08
end Spok.Props.C08
