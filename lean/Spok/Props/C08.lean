import Spok.Lemmas.LexTerm
import Spok.Lemmas.LexShape
import Spok.Lemmas.ParseTotal
import Spok.Lemmas.LineCount
import Spok.Oracle.Syntax
/-! # Property C08 — parsing any input terminates, deterministically, with a tree or a located error

"For every byte string — valid, malformed, truncated, non-UTF-8 — lexing and parsing terminate and
return either a tree or an error; they never panic, hang or crash the process, and the same input
always gives the same result.  Every syntax error cites a line number between 1 and the number of
lines of the input and quotes that line."

**Determinism is functionality**: `lex` and `parse` are total Lean *functions* of the byte string (no
oracle argument, no state), so the same input has exactly one result — `rfl`, see `C08_deterministic`.
What has to be *proved* is that the result is never one of the explicit "the Go code would not get
here" outcomes of the model:

* the lexer's step budget and the command loop's fuel are never exhausted (`C08_lexer_halts`);
* the parser never reads the closed channel in a way that matters, `parseTaskCommands` never spins on
  an exhausted stream, `getLine` never indexes `lines` out of range (`C08_bytes_no_spin_no_panic`);
* every error — the lexer's own `lines[l.line-1]`, built before the parser sees the token, and the
  parser's `illegalToken` — cites a line `1 … nLines` and quotes that very line
  (`C08_bytes_lexer_errors_located`, `C08_bytes_error_located`).

The mechanism (`Lemmas/LexLine`, `Lemmas/LexShape`, `Lemmas/ParseTotal`): in every reachable scanner state
`line = 1 + newlines left of the cursor` (so `1 ≤ line ≤ nLines`), and the token stream is an
*admissible stream* `Str`: exactly one final EOF / ERROR token, `#` → COMMENT, `task` → IDENT,
`{` → COMMAND* → `}` or the final ERROR, every token on a line of the input.  On such a stream every
parse function stops at the final token at the latest.

The rune-level theorems take `RunesOK rs` ("a newline rune is one byte wide"): `backup` un-counts a line
only `if width == 1`.  Decoded input satisfies it (`runesOK_decodeAll`), so the byte-level theorems are
hypothesis-free; for rune lists that are not decodings the property is false (`RunesOK_needed`). -/
namespace Spok.Props.C08
open Spok

/-- For every byte string the lexer reaches its final state within `3·|runes| + 4` steps: the
    `run` loop of the Go lexer terminates and `lexTaskCommands` never spins. -/
theorem C08_lexer_halts (bytes : List UInt8) : (lex bytes).halted = true := by
  unfold lex; exact lexRunes_halted _

/-- the mechanism named by the property: every state function consumes input, ends the scan, or
    moves down in `rank` -/
theorem C08_every_state_makes_progress (l : L) (t : Tag) (ht : t.final = false) :
    (stepTag l t).2 ≠ .spin ∧
    ((stepTag l t).2 = .done ∨ 3 * (stepTag l t).1.right.length + rank (stepTag l t).2 < 3 * l.right.length + rank t) :=
  dec_stepTag l t ht

/-! ## the token stream -/

/-- **shape of the token stream** (all of it, not only what the parser reads): one final EOF or ERROR
    token and no other; HASH is followed by COMMENT, TASK by IDENT; after LBRACE only COMMANDs up to
    an RBRACE or the final ERROR; every token but an ERROR is on a line `1 … nLines`, an ERROR cites
    such a line. -/
theorem C08_stream_shape (rs : List Rune) (hok : RunesOK rs) : Str (nLines rs) .top (lexRunes rs).toks :=
  lexRunes_str rs hok

/-- (i) spelled out: the stream ends with its only EOF / ERROR token (the lexer emits nothing after an
    ERROR and closes the channel after EOF) -/
theorem C08_one_final_token (rs : List Rune) (hok : RunesOK rs) :
    ∃ pre last, (lexRunes rs).toks = pre ++ [last] ∧ (last.ty = .eof ∨ last.ty = .error) ∧
      ∀ t ∈ pre, t.ty ≠ .eof ∧ t.ty ≠ .error :=
  (lexRunes_str rs hok).ends

/-- (C) every ERROR token the lexer produces was built with an existing `lines[l.line-1]` -/
theorem C08_lexer_errors_located (rs : List Rune) (hok : RunesOK rs) :
    ∀ t ∈ (lexRunes rs).toks, t.ty = .error → 1 ≤ t.errLine ∧ t.errLine ≤ nLines rs :=
  (lexRunes_str rs hok).errors_located

/-- every other token, the final EOF included, carries a line of the input (what `getLine` indexes) -/
theorem C08_tokens_located (rs : List Rune) (hok : RunesOK rs) :
    ∀ t ∈ (lexRunes rs).toks, t.ty ≠ .error → 1 ≤ t.line ∧ t.line ≤ nLines rs :=
  (lexRunes_str rs hok).lines_located

/-! ## the parser -/

theorem parseRunes_good (rs : List Rune) (hok : RunesOK rs) : GoodOpt (nLines rs) (parseRunes rs).fail := by
  unfold parseRunes
  simp only [lexRunes_halted, Bool.not_true, Bool.false_eq_true, if_false]
  exact parseToks_good (lexRunes_str rs hok)

/-- (A) the parser never hangs (`parseTaskCommands` on an exhausted stream, the statement loop's
    fuel) and never panics (`lines[i]` out of range in `getLine` or in the lexer's error) -/
theorem C08_no_spin_no_panic (rs : List Rune) (hok : RunesOK rs) :
    (parseRunes rs).fail ≠ some .spin ∧ (parseRunes rs).fail ≠ some .panic := by
  have h := parseRunes_good rs hok
  cases hf : (parseRunes rs).fail with
  | none => simp
  | some f =>
    rw [hf] at h
    obtain ⟨e, rfl, _⟩ := h
    simp

/-- (B) a syntax error cites a line of the input and quotes that line -/
theorem C08_error_located (rs : List Rune) (hok : RunesOK rs) (e : PErr)
    (h : (parseRunes rs).fail = some (.err e)) : 1 ≤ e.cited ∧ e.cited ≤ nLines rs ∧ e.ctx = e.cited := by
  have hg := parseRunes_good rs hok
  rw [h] at hg
  obtain ⟨e', he, h1, h2, h3⟩ := hg
  cases he
  exact ⟨h1, h2, h3⟩

/-- the outcome is a tree or a located error: the three-way summary of (A) and (B) -/
theorem C08_tree_or_located_error (rs : List Rune) (hok : RunesOK rs) :
    (parseRunes rs).fail = none ∨
    ∃ e, (parseRunes rs).fail = some (.err e) ∧ 1 ≤ e.cited ∧ e.cited ≤ nLines rs ∧ e.ctx = e.cited := by
  have h := parseRunes_good rs hok
  cases hf : (parseRunes rs).fail with
  | none => exact Or.inl rfl
  | some f =>
    rw [hf] at h
    obtain ⟨e, rfl, h1, h2, h3⟩ := h
    exact Or.inr ⟨e, rfl, h1, h2, h3⟩

/-! ## byte strings: every input, hypothesis-free -/

theorem C08_bytes_stream_shape (bytes : List UInt8) :
    Str (nLines (decodeAll bytes)) .top (lex bytes).toks :=
  C08_stream_shape _ (runesOK_decodeAll bytes)

theorem C08_bytes_lexer_errors_located (bytes : List UInt8) :
    ∀ t ∈ (lex bytes).toks, t.ty = .error → 1 ≤ t.errLine ∧ t.errLine ≤ nLines (decodeAll bytes) :=
  C08_lexer_errors_located _ (runesOK_decodeAll bytes)

theorem C08_bytes_tokens_located (bytes : List UInt8) :
    ∀ t ∈ (lex bytes).toks, t.ty ≠ .error → 1 ≤ t.line ∧ t.line ≤ nLines (decodeAll bytes) :=
  C08_tokens_located _ (runesOK_decodeAll bytes)

theorem C08_bytes_no_spin_no_panic (bytes : List UInt8) :
    (parse bytes).fail ≠ some .spin ∧ (parse bytes).fail ≠ some .panic :=
  C08_no_spin_no_panic _ (runesOK_decodeAll bytes)

theorem C08_bytes_error_located (bytes : List UInt8) (e : PErr) (h : (parse bytes).fail = some (.err e)) :
    1 ≤ e.cited ∧ e.cited ≤ nLines (decodeAll bytes) ∧ e.ctx = e.cited :=
  C08_error_located _ (runesOK_decodeAll bytes) e h

theorem C08_bytes_tree_or_located_error (bytes : List UInt8) :
    (parse bytes).fail = none ∨
    ∃ e, (parse bytes).fail = some (.err e) ∧ 1 ≤ e.cited ∧ e.cited ≤ nLines (decodeAll bytes) ∧ e.ctx = e.cited :=
  C08_tree_or_located_error _ (runesOK_decodeAll bytes)

/-- (D) determinism: `parse` and `lex` are functions — two runs on the same input are the same term -/
theorem C08_deterministic (b1 b2 : List UInt8) (h : b1 = b2) : parse b1 = parse b2 ∧ lex b1 = lex b2 := by
  subst h; exact ⟨rfl, rfl⟩

/-! ## the executable judge accepts the model -/

/-- **`Judge.c08` holds of the model's own outcome, for every input**: the outcome the oracle prints
    for the model (`Oracle.Syntax.outcomeOf`) is a tree, or an error whose cited line is
    `1 … 1 + countNL bytes` and whose quoted text is that line of the input, trimmed — never `panic`,
    `hang`. -/
theorem judge_accepts_model (bytes : List UInt8) :
    Judge.c08 bytes (Oracle.Syntax.outcomeOf bytes (parse bytes)) = true := by
  unfold Oracle.Syntax.outcomeOf
  rcases C08_bytes_tree_or_located_error bytes with h | ⟨e, h, h1, h2, h3⟩
  · rw [h]; rfl
  · rw [h]
    rw [nLines_decodeAll] at h2
    obtain ⟨q, hq⟩ := trimmedLine_isSome bytes e.cited h1 h2
    simp only [h3, hq, Judge.c08]
    simp [h1, h2]

/-! ## non-vacuity -/

/-- (a) `a := "b"` ⏎ `c := "d` — an unterminated string on line 2: a *lexer* error, citing line 2 of 2 -/
def lexerError : List UInt8 := [97, 32, 58, 61, 32, 34, 98, 34, 10, 99, 32, 58, 61, 32, 34, 100]

set_option maxRecDepth 100000 in
theorem lexerError_tokens : (lex lexerError).toks.map (fun t => (t.ty, t.line, t.errLine)) =
    [(.ident, 1, 0), (.declare, 1, 0), (.string, 1, 0), (.ident, 2, 0), (.declare, 2, 0), (.error, 2, 2)] := by
  decide +kernel

set_option maxRecDepth 100000 in
theorem lexerError_outcome : (parse lexerError).fail = some (.err ⟨2, 2⟩) := by decide +kernel

example : 1 ≤ 2 ∧ 2 ≤ nLines (decodeAll lexerError) ∧ (2 : Nat) = 2 :=
  C08_bytes_error_located lexerError ⟨2, 2⟩ lexerError_outcome

/-- (b) `a := "b"` ⏎ ⏎ `c("x")` ⏎ — lexes without error; the *parser* rejects the `(` on line 3 (`illegalToken`) -/
def parserError : List UInt8 := [97, 32, 58, 61, 32, 34, 98, 34, 10, 10, 99, 40, 34, 120, 34, 41, 10]

set_option maxRecDepth 100000 in
theorem parserError_no_lexer_error : ∀ t ∈ (lex parserError).toks, t.ty ≠ .error := by decide +kernel

set_option maxRecDepth 100000 in
theorem parserError_outcome : (parse parserError).fail = some (.err ⟨3, 3⟩) := by decide +kernel

example : 1 ≤ 3 ∧ 3 ≤ nLines (decodeAll parserError) ∧ (3 : Nat) = 3 :=
  C08_bytes_error_located parserError ⟨3, 3⟩ parserError_outcome

/-- (c) `# c` ⏎ `task t("a") -> out {` ⏎ ` go build` ⏎ `}` ⏎ — a tree -/
def wellFormed : List UInt8 := "# c\ntask t(\"a\") -> out {\n go build\n}\n".toUTF8.toList

set_option maxRecDepth 100000 in
theorem wellFormed_outcome : (parse wellFormed).fail = none ∧ (parse wellFormed).tree.length = 1 := by
  decide +kernel

/-- truncated, non-UTF-8 input: `task t(` then the bytes `FF FE` — still a located error -/
example : (parse [116, 97, 115, 107, 32, 116, 40, 0xFF, 0xFE]).fail ≠ some .panic :=
  (C08_bytes_no_spin_no_panic _).2

example : Judge.c08 lexerError (Oracle.Syntax.outcomeOf lexerError (parse lexerError)) = true :=
  judge_accepts_model _

/-- the judge is not trivially true: it rejects a panic, a hang, an error citing line 0 or a line past
    the end, and an error quoting the wrong line -/
example : Judge.c08 lexerError .panic = false ∧ Judge.c08 lexerError .hang = false ∧
    Judge.c08 lexerError (.err 0 [97]) = false ∧ Judge.c08 lexerError (.err 3 []) = false ∧
    Judge.c08 lexerError (.err 2 [97, 32, 58, 61, 32, 34, 98, 34]) = false := by decide +kernel

/-- `RunesOK` is needed at the rune level: on a rune list that is no decoding — `a` followed by a
    *two-byte* "newline" — the line counter runs past the number of lines (`backup` does not un-count
    it), the EOF token sits on line 3 of 2 and `getLine` would index out of range.  Such a list never
    comes out of `decodeAll` (`runesOK_decodeAll`). -/
theorem RunesOK_needed : (parseRunes [asc 97, ⟨10, 10, [0]⟩]).fail = some .panic := by decide +kernel

end Spok.Props.C08
