import Spok.Lemmas.JsonReportScan
import Spok.Lemmas.JsonReportValue
import Spok.Lemmas.Utf8Enc
import Spok.App
/-! # C20 at the byte level of the `--json` report

`Props/C20.lean` speaks of the report as a JSON *value* (`jsonDoc`).  What the user's `jq` or CI script gets is bytes:
`fmt.Println(json.Marshal(results))`.  `Spok/Json/Report.lean` is that writer (`encReport`: compact form, declared
field order, `appendString` escaping, decimal status, `null` for a nil command list) and a reader for it; both rest on
the transliterated `encoding/json` scanner and string quoting of `Spok/Json`.  Here, for every list of results — any
number of tasks and commands, any bytes in names, command texts and outputs, any status:

* the bytes are ONE JSON document for `encoding/json`'s scanner, and no strict prefix of them is
  (`C20_report_is_one_document`, `C20_report_prefix_is_no_document`): a consumer never mistakes a cut-off report for a
  report, and nothing but blanks can follow it on stdout;
* read back, the document yields the same tasks in the same order with the same skipped flags and, per command, the
  same text, standard output, standard error and status — exactly when these are text (valid UTF-8), and with U+FFFD
  for every invalid byte otherwise, which is `json.Marshal`'s doing (`C20_report_reads_back`, `C20_report_exact_for_text`);
* hence two runs printing the same bytes had the same results (`C20_report_injective_for_text`), and everything a Lean
  `String` can hold is text (`C20_report_of_strings`).

The `cli` engine compares `encReport` with the real standard output byte for byte on every `--json` run (`CANON`). -/
namespace Spok.Props.C20Json
open Spok Spok.Json

/-- the report is one complete JSON document -/
theorem C20_report_is_one_document (rs : List BResult) : valid (encReport rs) = true := by
  unfold valid; rw [scan_encReport]; rfl

/-- … followed by the newline of `fmt.Println` it still is (blanks may follow a top-level value) -/
theorem C20_report_line_is_one_document (rs : List BResult) : valid (encReport rs ++ [10]) = true := by
  unfold valid; rw [scan_append, scan_encReport]; rfl

/-- no strict prefix of the report is a JSON document: a report cut short (a full disk, a closed pipe, a kill) is
    never taken for a report -/
theorem C20_report_prefix_is_no_document (rs : List BResult) (q : Bytes) (hq : q <+: encReport rs) (hne : q ≠ encReport rs) :
    valid q = false := by
  unfold encReport encArr at hq hne
  cases q with
  | nil => rfl
  | cons c q' =>
    obtain ⟨rfl, hq'⟩ := List.cons_prefix_cons.mp hq
    unfold valid
    rw [scan_cons, feed_init_arr]
    exact (seg_report_tail rs).prefix_not_eofOk hq' (by intro h; exact hne (by rw [h]))

/-- read back, the report is the results: same tasks, same order, same flags, same commands with text, outputs and
    status — invalid UTF-8 replaced by U+FFFD (what `json.Marshal` does to a Go string that is not text) -/
theorem C20_report_reads_back (rs : List BResult) : decReport (encReport rs) = some (rs.map BResult.san) :=
  decReport_encReport rs

/-- for text, the report is exact -/
theorem C20_report_exact_for_text (rs : List BResult) (h : ∀ r ∈ rs, r.text) : decReport (encReport rs) = some rs := by
  rw [decReport_encReport]
  have : ∀ r ∈ rs, BResult.san r = id r := fun r hr => BResult.san_text r (h r hr)
  rw [List.map_congr_left this]; simp

/-- two runs that print the same report had the same results -/
theorem C20_report_injective_for_text (rs rs' : List BResult) (h : ∀ r ∈ rs, r.text) (h' : ∀ r ∈ rs', r.text)
    (he : encReport rs = encReport rs') : rs = rs' := by
  have h1 := C20_report_exact_for_text rs h
  rw [he, C20_report_exact_for_text rs' h'] at h1
  exact (Option.some.inj h1).symm

/-- statuses are never confused: the decimal form reads back as the number (the heart of "exact exit status") -/
theorem C20_status_reads_back (n : Nat) (T : Bytes) : pNat (natDigits n ++ 125 :: T) = some (n, 125 :: T) :=
  pNat_digits n 125 T (by decide)

/-! ## from the `String`s of `Spok.App` -/

theorem char_isScalar (c : Char) : isScalar c.toNat := by
  have := c.valid
  unfold isScalar
  simp only [Char.toNat, UInt32.isValidChar, Nat.isValidChar] at *
  omega

theorem strBytes_text (s : String) : textOnly (strBytes s) :=
  (decodeAll_utf8 (s.toList.map Char.toNat) (by
    intro cp h
    obtain ⟨c, _, rfl⟩ := List.mem_map.mp h
    exact char_isScalar c)).2

theorem resultB_text (r : App.Result) : (resultB r).text := by
  refine ⟨strBytes_text _, ?_⟩
  intro c hc
  obtain ⟨c', _, rfl⟩ := List.mem_map.mp hc
  exact ⟨strBytes_text _, strBytes_text _, strBytes_text _⟩

/-- the results of `Spok.App` (whose strings are `String`s, hence text) survive the bytes unchanged -/
theorem C20_report_of_strings (rs : List App.Result) :
    decReport (encReport (rs.map resultB)) = some (rs.map resultB) :=
  C20_report_exact_for_text _ (by
    intro r hr
    obtain ⟨r', _, rfl⟩ := List.mem_map.mp hr
    exact resultB_text r')

/-- the two levels of C20 are one: the bytes of the report are compact `json.Marshal` (`encJ`) of the document
    `jsonDoc rs` that `Props/C20.lean` reasons about -/
theorem C20_value_and_bytes_agree (rs : List App.Result) : encJ (App.jsonDoc rs) = encReport (rs.map resultB) :=
  encJ_jsonDoc rs

/-- … so reading the marshalled document of `Props/C20.lean` gives the results back -/
theorem C20_document_bytes_read_back (rs : List App.Result) : decReport (encJ (App.jsonDoc rs)) = some (rs.map resultB) := by
  rw [C20_value_and_bytes_agree]; exact C20_report_of_strings rs

/-! ## the writer on concrete runs: the very bytes the real binary prints (checked by the kernel) -/

def exCmd : BCmd := ⟨ascii "echo <hi> & \"bye\"", ascii "hi\n", [], 0⟩
def exRun : List BResult := [⟨ascii "gen", [exCmd, ⟨ascii "false", [], ascii "e\tr", 127⟩], false⟩, ⟨ascii "lint", [], true⟩]

example : encReport exRun =
    ascii ("[{\"task\":\"gen\",\"results\":[{\"cmd\":\"echo \\u003chi\\u003e \\u0026 \\\"bye\\\"\",\"stdout\":\"hi\\n\",\"stderr\":\"\",\"status\":0}," ++
         "{\"cmd\":\"false\",\"stdout\":\"\",\"stderr\":\"e\\tr\",\"status\":127}],\"skipped\":false}," ++
         "{\"task\":\"lint\",\"results\":null,\"skipped\":true}]") := by decide +kernel

example : decReport (encReport exRun) = some exRun := by decide +kernel

/-- an output that is not text: `printf '\377x\n'` — the report says `�x\n`, and that is what a reader gets -/
example : encReport [⟨ascii "a", [⟨ascii "p", [0xFF, 120, 10], [], 0⟩], false⟩] =
    ascii "[{\"task\":\"a\",\"results\":[{\"cmd\":\"p\",\"stdout\":\"\\ufffdx\\n\",\"stderr\":\"\",\"status\":0}],\"skipped\":false}]" := by
  decide +kernel

example : decReport (encReport [⟨ascii "a", [⟨ascii "p", [0xFF, 120, 10], [], 0⟩], false⟩]) =
    some [⟨ascii "a", [⟨ascii "p", [0xEF, 0xBF, 0xBD, 120, 10], [], 0⟩], false⟩] := by decide +kernel

example : encReport [] = ascii "[]" := by decide +kernel

end Spok.Props.C20Json
