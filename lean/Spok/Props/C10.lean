import Spok.Props.C01
import Spok.Generated.Facts
/-! # C10 — killing spok at any point never leads to a wrongly skipped task later

A kill after `k` micro-steps (`crashAt = some k`) leaves whatever `disk` holds at that point; memory is lost.  The
soundness invariant `Inv` holds after EVERY micro-step, so what a kill leaves on disk is unparsable (`corrupt`),
absent, or justified by the ghost.  Every `Dump` is two micro-steps (truncate, write). -/
namespace Spok.Props.C10
open Spok.Run Spok.Judge.Run

variable (digest : Items → Digest)

/-- **C10, the invariant.** After any history — with kills after arbitrarily many micro-steps of arbitrarily many
    invocations — the cache file is unparsable, or absent with nothing remembered, or every digest in it is the digest
    of the files its task last succeeded on. -/
theorem C10_crash_safe (h : History) :
    match (runHistory digest World.init h).1.disk with
    | .corrupt => True
    | .missing => ∀ t, (runHistory digest World.init h).1.last t = none
    | .valid m => ∀ t d, m t = some d → ∃ i, (runHistory digest World.init h).1.last t = some i ∧ digest i = d := by
  have := winv_history digest h _ (winv_init digest)
  unfold WInv InvDisk at this
  split <;> rename_i hd <;> rw [hd] at this
  · trivial
  · exact this
  · exact fun t d hm => this t d hm

/-- the same at every micro-step of every invocation: every possible kill point -/
theorem C10_every_micro_step {s : St} (hr : Reach digest false s) : InvDisk digest s.last s.disk :=
  inv_disk digest s (C01.reach_inv digest hr)

/-- **C10, skips after kills.** `C01_skip_sound` holds verbatim for histories with kills (its `Reach … false` places no
    restriction on `crashAt`): a later invocation never skips a task whose files differ from those of its last success. -/
theorem C10_skip_sound_after_kills {s : St} (hr : Reach digest false s) (t : TaskIn) (rest : List TaskIn)
    (hpc : s.pc = .decide) (hto : s.todo = t :: rest) (hskip : skipTest digest s t = true) :
    s.last t.name = some t.inp.items ∨ ∃ i j : Items, i ≠ j ∧ digest i = digest j :=
  C01.C01_skip_sound digest hr t rest hpc hto hskip

/-- **C10, damaged cache.** If a kill left the cache unparsable, the next invocation (whatever its flags and tasks) ends in
    the explicit cache-error outcome having executed and reported nothing, and leaves disk and ghost as they were. -/
theorem C10_corrupt_is_error (w : World) (force : Bool) (order : List Name) (fails : Name → Bool)
    (hd : w.disk = .corrupt) :
    outcomeOf none (runInv digest w force order fails none) = .cacheError ∧
    (runInv digest w force order fails none).out = [] ∧
    (runInv digest w force order fails none).disk = .corrupt ∧
    (runInv digest w force order fails none).last = w.last := by
  obtain ⟨h1, h2, h3, h4⟩ := runInv_corrupt digest w force order fails hd (fuel order.length)
  refine ⟨?_, h1, h2, h3⟩
  rcases h4 with ⟨h, _⟩ | ⟨_, h⟩
  · simp [fuel] at h
  · have h' : (runInv digest w force order fails none).pc = .cacheError := h
    simp [outcomeOf, h']

/-- **C10, "behaves normally or stops with an explicit error".** An invocation that is not itself killed always ends:
    results, the cache error, or the hasher's error — the cache error only when the cache was unparsable. -/
theorem C10_next_invocation_ends (w : World) (force : Bool) (order : List Name) (fails : Name → Bool) :
    (runInv digest w force order fails none).pc.terminal = true ∧
    ((runInv digest w force order fails none).pc = .cacheError → w.disk = .corrupt) :=
  ⟨runInv_terminal digest w force order fails,
   (cacheError_only_corrupt digest w force order fails (fuel order.length)).2⟩

/-- **C10, observable form.** The judge accepts every history the model produces, or exhibits a collision. -/
theorem C10_judge_accepts (h : History) :
    c10 (runHistory digest World.init h).2 = true ∨ ∃ i j : Items, i ≠ j ∧ digest i = digest j := by
  by_cases hc : Collision digest
  · exact .inr hc
  · left
    unfold c10
    rw [hist_c01 digest hc h _ _ (winv_init digest) sync_init, hist_c10 digest h _ _ sync_init]
    rfl

/-! ## non-vacuity: kills at every kind of point -/

def inpV1 : Name → Option Inputs := fun _ => some ⟨0, [(0, 1)]⟩
def inpV2 : Name → Option Inputs := fun _ => some ⟨0, [(0, 2)]⟩
def noFail : Name → Bool := fun _ => false

def disks (r : World × ObservedHistory) : List (Outcome × DiskClass × List (Name × Out)) :=
  r.2.filterMap fun | .invoke _ _ tr oc d => some (oc, d, tr) | _ => none

/-- killed part-way through the very first cache write (2 micro-steps in): unparsable; the next run is the cache error -/
example : disks (runHistory natDigest World.init [.edit inpV1, .invoke false [0] noFail (some 2), .invoke false [0] noFail none])
    = [(.crashed, .corrupt, []), (.cacheError, .corrupt, [])] := by decide

/-- run on v1; edit; killed during the command (after the invalidation was written): the old digest is gone, so the
    revert to v1 is NOT skipped although the cache is valid -/
example : disks (runHistory natDigest World.init
    [.edit inpV1, .invoke false [0] noFail none, .edit inpV2, .invoke false [0] noFail (some 3), .edit inpV1,
     .invoke false [0] noFail none])
    = [(.done, .valid, [(0, .ranOk)]), (.crashed, .valid, []), (.done, .valid, [(0, .ranOk)])] := by decide

/-- killed after the command completed but before its digest was written: conservative, runs again -/
example : disks (runHistory natDigest World.init
    [.edit inpV1, .invoke false [0] noFail (some 5), .invoke false [0] noFail none])
    = [(.crashed, .valid, [(0, .ranOk)]), (.done, .valid, [(0, .ranOk)])] := by decide

/-- killed in the middle of writing the new digest: unparsable -/
example : disks (runHistory natDigest World.init
    [.edit inpV1, .invoke false [0] noFail (some 6), .invoke false [0] noFail none])
    = [(.crashed, .corrupt, [(0, .ranOk)]), (.cacheError, .corrupt, [])] := by decide

/-- a state with a corrupt disk is reachable, so `C10_corrupt_is_error` is not vacuous -/
example : (runHistory natDigest World.init [.edit inpV1, .invoke false [0] noFail (some 2)]).1.disk.cls = .corrupt := by decide

example : c10 (runHistory natDigest World.init
    [.edit inpV1, .invoke false [0] noFail none, .edit inpV2, .invoke false [0] noFail (some 3), .edit inpV1,
     .invoke false [0] noFail none]).2 = true := by decide

/-- the judge rejects a run that silently trusts a damaged cache -/
example : c10 [.edit inpV1, .invoke false [0] [] .crashed .corrupt, .invoke false [0] [(0, .ranOk)] .done .valid] = false := by
  decide

/-- **Regenerated tie.** The calls of `SpokFile.run` that touch the cache file, the hasher and the task —
    extracted from the AST of file/file.go on every run — come in the order the machine `step` follows:
    the entry is cleared and *written* (`Set("")`, `Dump`) before the task's commands run (`taskToRun.Run`), and the
    new digest is set and written only after them.  Moving a `Dump`, dropping the invalidation or recording
    before the run breaks this obligation. -/
theorem run_protocol_as_modelled :
    Spok.Generated.Facts.runProtocol =
      ["cache.Exists", "cache.Init", "cache.Load", "hash.New().Hash", "cachedState.Get", "cachedState.Set(\"\")",
       "cachedState.Set(\"\")", "cachedState.Dump", "taskToRun.Run", "cachedState.Set(recorded)", "cachedState.Dump"] := by
  decide

end Spok.Props.C10
