import Spok.Generated.Facts
import Spok.App
/-! # Expectations over the regenerated facts (`Generated/Facts.lean`) — the dispatch of `App.Run` (C14, C19, C20)

`Spok.App.action` / `prepare` / `dispatch` transliterate `App.Run`: `--init` first, then the `--quiet --debug` clash,
then setup / read / parse / load, then a `switch` in which the FIRST true flag wins.  The order of those tests is
extracted from the AST of cli/app/app.go on every run; a re-ordered `switch`, a new flag or a test moved in front of
another stops these from checking. -/
namespace Spok.Props.FactsApp
open Spok Spok.App Spok.Generated

/-- the tests before the `switch` and the preparation steps are in the order the model takes them -/
theorem run_prefix_matches_source :
    Facts.runIfs = ["Init", "Quiet", "Debug", "JSON"] ∧
    Facts.runPrepare = ["a.initialise", "a.setup", "os.ReadFile", "parser.New", "file.New"] := by decide

/-- the `switch`: `--fmt`, `--vars`, `--clean`, `--show`, in that order -/
theorem run_switch_matches_source : Facts.runSwitch = ["Fmt", "Variables", "Clean", "Show"] := by decide

/-- … which is the priority of the model's `dispatch` -/
theorem dispatch_priority (o : Options) (args : List String) (w : World) :
    (o.fmt = true → dispatch o args w = .fmt) ∧
    (o.fmt = false → o.vars = true → dispatch o args w = .vars) ∧
    (o.fmt = false → o.vars = false → o.clean = true → dispatch o args w = (if w.hasClean then .cleanTask else .clean)) ∧
    (o.fmt = false → o.vars = false → o.clean = false → o.show = true → dispatch o args w = .show) := by
  refine ⟨?_, ?_, ?_, ?_⟩ <;> intros <;> simp_all [dispatch]

/-- `--init` is decided before anything else is looked at, the flag clash before the spokfile is -/
theorem action_prefix (o : Options) (args : List String) (w : World) :
    (o.init = true → action o args w = (if w.cwdSpokfile then .error .initExists else .initialise)) ∧
    (o.init = false → o.quiet = true → o.debug = true → action o args w = .error .quietDebug) := by
  refine ⟨?_, ?_⟩ <;> intros <;> simp_all [action]

end Spok.Props.FactsApp
