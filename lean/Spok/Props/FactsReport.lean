import Spok.Generated.Facts
import Spok.Json.Report
/-! # Expectations over the regenerated facts (`Generated/Facts.lean`) — the `--json` report (C20)

Proof obligations that tie the Go source as it is NOW (facts extracted from its AST on every run) to the model: when the
source changes in a way the model depends on, one of these stops checking. -/
namespace Spok.Props.FactsReport
open Spok Spok.Generated

/-! ## the `--json` report: the keys and their order are the json tags of the two `Result` structs, the writer is
`json.Marshal` (compact, HTML-escaping) — what `Json/Report.lean` transliterates -/

open Spok.Json in
/-- `{"<tag>":` / `,"<tag>":` for the tags of `shell.Result` and `task.Result` in declaration order ARE the key
    literals of `encCmd` / `encResult`; a renamed tag, a reordered or added field breaks this -/
theorem report_keys_match_source :
    Facts.shellResultFields.map (·.2.2) = ["cmd", "stdout", "stderr", "status"] ∧
    Facts.taskResultFields.map (·.2.2) = ["task", "results", "skipped"] ∧
    [kCmd, kStdout, kStderr, kStatus] =
      (Facts.shellResultFields.map (·.2.2)).zipIdx.map (fun (t, i) => ascii ((if i = 0 then "{\"" else ",\"") ++ t ++ "\":")) ∧
    [kTask, kResults, kSkipped] =
      (Facts.taskResultFields.map (·.2.2)).zipIdx.map (fun (t, i) => ascii ((if i = 0 then "{\"" else ",\"") ++ t ++ "\":")) := by
  decide +kernel

/-- the Go types behind the fields are the ones the writer assumes: strings, an `int` status, a bool flag, and a slice of
    command results (nil ⇒ `null`) -/
theorem report_field_types :
    Facts.shellResultFields.map (·.2.1) = ["string", "string", "string", "int"] ∧
    Facts.taskResultFields.map (·.2.1) = ["string", "shell.Results", "bool"] := by decide

/-- the report is produced by ONE call of `json.Marshal` (not `MarshalIndent`, not an `Encoder` with other settings) -/
theorem report_entry_point : Facts.reportJSONCalls = ["json.Marshal"] := by decide

end Spok.Props.FactsReport
