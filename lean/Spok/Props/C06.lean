import Spok.Lemmas.RT.Assemble
import Spok.Lemmas.RT.Comment
import Spok.Lemmas.RT.Assign
import Spok.Lemmas.RT.Task
import Spok.Lemmas.RT.Format
import Spok.Judge.Syntax
import Spok.Lemmas.Utf8Enc
/-! # Property C06 — parsing recovers exactly the structure written, in every admissible layout

`Doc t txt` (`Syntax/Render.lean`) says that `txt` is the tree `t` written out in some layout the
syntax admits: any whitespace (blanks, tabs, LF, CRLF, lone CR, Unicode spaces) before, between and
after statements and around punctuation; LF or CRLF line ends; optional trailing commas; a single
output bare or parenthesised; one-line or multi-line bodies with optional carriage returns before the
newlines and at most one blank before the closing brace; names and strings with non-ASCII runes.  The
relation is purely syntactic — its side conditions are about which runes a name, a string, a comment or
a command may contain and which whitespace may stand in which slot.

`C06` states that the model of lexer + parser returns exactly `t`, with no error, for EVERY such text:
every tree, every size, every choice of whitespace.  It is assembled from the lexing lemmas per
statement kind (`Lemmas/RT/Comment, Assign, Paren, Task`), the parser lemmas on token views
(`Lemmas/RT/ParseViews`) and an induction over the file (`Lemmas/RT/Assemble`). -/
namespace Spok.Props.C06
open Spok

/-- **C06** (rune level): any admissible layout of a tree parses to exactly that tree. -/
theorem C06 (t : Tree) (txt : List Rune) (h : Doc t txt) : parseRunes txt = ⟨t, none⟩ :=
  C06_of_specs lexStmt_comment lexStmt_assign (lexStmt_task lexParen_spec) t txt h

/-- **C06** (byte level): a byte string whose decoding is an admissible layout of `t` parses to `t`. -/
theorem C06_bytes (t : Tree) (bytes : List UInt8) (h : Doc t (decodeAll bytes)) : parse bytes = ⟨t, none⟩ := by
  unfold parse; exact C06 t _ h

/-- the judge accepts the model: on an admissible layout the model's outcome is the expected tree -/
theorem judge_accepts_model (t : Tree) (bytes : List UInt8) (h : Doc t (decodeAll bytes)) :
    Judge.c06 t (.ok (parse bytes).tree) = true := by
  rw [C06_bytes t bytes h]; simp [Judge.c06]

/-- the three lexing specifications the assembly rests on, exported for the axiom audit -/
theorem lexing_specs : LexStmtSpec Node.isComment ∧ LexStmtSpec Node.isAssign ∧ LexStmtSpec Node.isTask ∧ LexParenSpec :=
  ⟨lexStmt_comment, lexStmt_assign, lexStmt_task lexParen_spec, lexParen_spec⟩

/-- **Non-ASCII text reaches the lexer as written.**  A file that is well-formed UTF-8 — the encodings (`utf8.EncodeRune`)
    of Unicode scalar values, in any number and order — is decoded by the lexer's `utf8.DecodeRune` loop to exactly those
    code points, none flagged invalid: C06's "non-ASCII letters in names and strings" is about the characters the user
    wrote, not about an artefact of the decoder. -/
theorem C06_utf8_text (cps : List Nat) (h : ∀ cp ∈ cps, Spok.Json.isScalar cp) :
    (decodeAll (cps.flatMap Spok.Json.utf8enc)).map (·.cp) = cps ∧
    ∀ r ∈ decodeAll (cps.flatMap Spok.Json.utf8enc), r.invalid = false :=
  Spok.Json.decodeAll_utf8 cps h

/-- … and a validly decoded rune re-encodes to the bytes it came from -/
theorem C06_utf8_reencode (b0 : UInt8) (rest : List UInt8) (h : (decode1 b0 rest).invalid = false) :
    Spok.Json.utf8enc (decode1 b0 rest).cp = (decode1 b0 rest).bytes := Spok.Json.utf8enc_decode1 b0 rest h

/-! ## non-vacuity: the formatter's output for a tree with every kind of statement is an admissible
layout (so `Doc` is inhabited by non-trivial texts), and the theorem applies to it -/

example : Doc (norm Fmt.exTree) (format Fmt.exTree) := renders_format _ Fmt.exTree_wf

example : parseRunes (format Fmt.exTree) = ⟨norm Fmt.exTree, none⟩ :=
  C06 _ _ (renders_format _ Fmt.exTree_wf)

/-! ## corollaries about layouts -/

/-- **Layout independence**: two admissible layouts of the same structure — whatever their indentation, line ends, trailing
    commas, parenthesisation — parse to the same result. -/
theorem C06_layout_independent (t : Tree) (a b : List Rune) (ha : Doc t a) (hb : Doc t b) : parseRunes a = parseRunes b := by
  rw [C06 t a ha, C06 t b hb]

/-- **No ambiguity**: a text is an admissible layout of at most one structure (the layout relation never lets two different
    trees be written as the same text; otherwise "the structure written" would not be well defined). -/
theorem C06_unambiguous (t₁ t₂ : Tree) (txt : List Rune) (h₁ : Doc t₁ txt) (h₂ : Doc t₂ txt) : t₁ = t₂ := by
  have h := (C06 t₁ txt h₁).symm.trans (C06 t₂ txt h₂)
  exact congrArg ParseResult.tree h

/-- **One canonical text**: formatting any admissible layout of `t` prints what formatting `t` prints. -/
theorem C06_canonical (t : Tree) (txt : List Rune) (h : Doc t txt) : format (parseRunes txt).tree = format t := by
  rw [C06 t txt h]

example : ∀ txt, Doc (norm Fmt.exTree) txt → parseRunes txt = parseRunes (format Fmt.exTree) :=
  fun txt h => C06_layout_independent _ txt _ h (renders_format _ Fmt.exTree_wf)

end Spok.Props.C06
