import Spok.Judge.Syntax
/-! # Property C06 — theorems (under construction) -/
namespace Spok.Props.C06
end Spok.Props.C06
