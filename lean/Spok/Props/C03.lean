import Spok.Lemmas.GraphJudge
/-! # Property C03 — requested tasks and their transitive dependencies run once, dependencies first

Theorems about the model `Spok.Graph` (`plan`, `exec`), for **all** task tables, request lists, failing sets and
**all** oracles (= all iteration orders Go may choose for the maps and sets inside `dag.Sort`); no size bound.
Vocabulary (`Spok/Graph.lean`): `Reach ts req n` — `n` is requested or reachable from a requested task through declared
task dependencies; `Erroneous ts req` — a name is defined twice, or a selected name is undefined, or the dependencies of
the selected tasks contain a cycle (`Cyclic`: a selected task on a `DependsOn`-path to itself).

The proofs are in `Lemmas/Graph*.lean`: the closure invariant `CInv`, the generic emission relation `Emit` /
`EmitSeq` that `sort o` refines for every `o` (`KInv`, `sort_spec`), and the pigeonhole-free cycle argument
`cycle_of_no_source` (a vertex that Kahn's algorithm never emits has a never-emitted parent). -/
namespace Spok.Props.C03
open Spok.Graph Spok.Judge.Graph

variable {α : Type} [DecidableEq α]

/-- **C03, successful planning.** Whatever order Go iterates its maps in: a run order contains no task twice, contains
    exactly the requested tasks and everything reachable from them, and every dependency comes before its dependent. -/
theorem C03_ok (o : Oracle α) (ts : Table α) (req order : List α) (h : plan o ts req = .ok order) :
    order.Nodup ∧ (∀ n, n ∈ order ↔ Reach ts req n) ∧
    (∀ a b, b ∈ order → a ∈ deps ts b → order.idxOf a < order.idxOf b) := by
  have := plan_spec o ts req
  rw [h] at this
  cases this with
  | ok _ _ _ _ _ h1 h2 h3 => exact ⟨h1, h2, h3⟩

/-- **C03, errors.** For a non-empty request and every oracle: `plan` reports an error exactly when a task name is
    defined twice, or a requested / depended-upon name is undefined, or the selected tasks' dependencies contain a cycle.
    (⇐ is "no spurious error"; it contains the argument that Kahn's algorithm emits every vertex of an acyclic graph.) -/
theorem C03_err (o : Oracle α) (ts : Table α) (req : List α) (hreq : req ≠ []) :
    (¬ (names ts).Nodup ∨ (∃ n, Reach ts req n ∧ Undefined ts n) ∨ Cyclic ts req) ↔ ∃ e, plan o ts req = .error e := by
  constructor
  · intro herr
    cases hp : plan o ts req with
    | ok order => exact absurd herr (not_erroneous_of_plan_ok hp)
    | error e => exact ⟨e, rfl⟩
    | spin => exact absurd hp (plan_ne_spin o ts req)
  · rintro ⟨e, he⟩
    rcases erroneous_of_plan_error he with h | h
    · exact absurd h hreq
    · exact h

/-- the empty request, as the code has it: `dag.Sort` rejects the empty graph (the CLI never passes an empty request) -/
theorem C03_empty_request (o : Oracle α) (ts : Table α) : ∃ e, plan o ts [] = .error e := by
  have := plan_spec o ts []
  cases hp : plan o ts [] with
  | ok order =>
    rw [hp] at this
    cases this with
    | ok _ _ _ _ h _ _ _ => exact absurd rfl h
  | error e => exact ⟨e, rfl⟩
  | spin => exact absurd hp (plan_ne_spin o ts [])

/-- **C03 does not depend on Go's map iteration order.**  If planning succeeds under one iteration order (`o₁`) it succeeds under
    every other (`o₂`), and the two run orders contain the same tasks, each once: they are permutations of one another (both
    dependency-respecting by `C03_ok`).  So which tasks run, and that they run, is never a matter of luck. -/
theorem C03_oracle_independent (o₁ o₂ : Oracle α) (ts : Table α) (req order₁ : List α) (h : plan o₁ ts req = .ok order₁) :
    ∃ order₂, plan o₂ ts req = .ok order₂ ∧ order₁.Perm order₂ := by
  cases hp : plan o₂ ts req with
  | ok order₂ =>
    refine ⟨order₂, rfl, ?_⟩
    obtain ⟨n1, m1, _⟩ := C03_ok o₁ ts req order₁ h
    obtain ⟨n2, m2, _⟩ := C03_ok o₂ ts req order₂ hp
    exact (List.perm_ext_iff_of_nodup n1 n2).2 (fun a => (m1 a).trans (m2 a).symm)
  | error e =>
    have hne : req ≠ [] := by
      rintro rfl
      obtain ⟨e', he'⟩ := C03_empty_request o₁ ts
      rw [h] at he'; cases he'
    have herr := (C03_err o₂ ts req hne).2 ⟨e, hp⟩
    obtain ⟨e', he'⟩ := (C03_err o₁ ts req hne).1 herr
    rw [h] at he'; cases he'
  | spin => exact absurd hp (plan_ne_spin o₂ ts req)

/-- which error: the class reported tells the cause, and "could not add edge" (`Err.other`) is never reported -/
theorem C03_error_class (o : Oracle α) (ts : Table α) (req : List α) (e : Err) (h : plan o ts req = .error e) :
    (e = .duplicate ↔ ¬ (names ts).Nodup) ∧
    (e = .noSuchTask ∨ e = .noSuchDependency → ∃ n, Reach ts req n ∧ Undefined ts n) ∧
    (e = .cycle → req = [] ∨ Cyclic ts req) ∧
    e ≠ .other := by
  have := plan_spec o ts req
  rw [h] at this
  cases this with
  | duplicate hd => exact ⟨by simp [hd], by simp, by simp, by simp⟩
  | undefined _ hnd he hu =>
    refine ⟨?_, fun _ => hu, ?_, ?_⟩
    · rcases he with rfl | rfl <;> simp [hnd]
    · rcases he with rfl | rfl <;> simp
    · rcases he with rfl | rfl <;> simp
  | cycle hnd _ hc => exact ⟨by simp [hnd], by simp, fun _ => Or.inr hc, by simp⟩
  | empty hnd hr => exact ⟨by simp [hnd], by simp, fun _ => Or.inl hr, by simp⟩

/-- the loop of `dag.Sort` always ends (the model's fuel never runs out), for every oracle -/
theorem C03_sort_terminates (o : Oracle α) (ts : Table α) (req : List α) (fails : α → Bool) :
    plan o ts req ≠ .spin ∧ exec o ts req fails ≠ .spin := by
  refine ⟨plan_ne_spin o ts req, ?_⟩
  unfold exec
  cases hp : plan o ts req with
  | ok order => simp
  | error e => simp
  | spin => exact absurd hp (plan_ne_spin o ts req)

/-- **C03, an error runs nothing.** -/
theorem C03_error_runs_nothing (o : Oracle α) (ts : Table α) (req : List α) (fails : α → Bool) (e : Err)
    (h : plan o ts req = .error e) : exec o ts req fails = .ok ⟨some e, []⟩ := by
  simp [exec, h]

/-- **C03, failing commands.** Whatever fails, the run loop makes exactly one Runner call per planned task, in plan
    order: every selected task is started exactly once, nothing else is started, dependencies first. -/
theorem C03_each_once_even_on_failure (o : Oracle α) (ts : Table α) (req order : List α) (fails : α → Bool)
    (h : plan o ts req = .ok order) :
    exec o ts req fails = .ok ⟨none, order⟩ ∧
    (∀ n, Reach ts req n → order.count n = 1) ∧ (∀ n, ¬ Reach ts req n → order.count n = 0) := by
  obtain ⟨hnd, hmem, _⟩ := C03_ok o ts req order h
  refine ⟨?_, ?_, ?_⟩
  · simp [exec, h, runLoop_calls]
  · intro n hn
    rw [hnd.count, if_pos ((hmem n).mpr hn)]
  · intro n hn
    rw [hnd.count, if_neg (fun hm => hn ((hmem n).mp hm))]

/-- **C03, nothing is silently left out**: for a non-empty request, either an error is reported and nothing runs, or
    every requested and every depended-upon task is started (exactly once, by the theorem above). -/
theorem C03_no_silent_omission (o : Oracle α) (ts : Table α) (req : List α) (fails : α → Bool) :
    (∃ e, exec o ts req fails = .ok ⟨some e, []⟩) ∨
    (∃ calls, exec o ts req fails = .ok ⟨none, calls⟩ ∧ ∀ n, Reach ts req n → n ∈ calls) := by
  cases hp : plan o ts req with
  | ok order =>
    right
    exact ⟨order, (C03_each_once_even_on_failure o ts req order fails hp).1, fun n hn => ((C03_ok o ts req order hp).2.1 n).mpr hn⟩
  | error e => exact Or.inl ⟨e, C03_error_runs_nothing o ts req fails e hp⟩
  | spin => exact absurd hp (plan_ne_spin o ts req)

/-- **Kahn refines the emission relation, for every oracle.** On the graph `buildGraph` returns, whatever `dag.Sort`
    returns is an emission sequence (`EmitSeq`: each vertex is new and all its parents were emitted before it) that
    cannot be extended (`Stuck`: every vertex left over still waits for a parent that was never emitted); and the only
    error `Sort` itself can report is the empty initial queue. -/
theorem C03_kahn_refines_emit (o : Oracle α) (ts : Table α) (req : List α) (g : Graph α) (hc : closure ts req = .ok g) :
    (∃ r, sort o g = .ok r ∧ EmitSeq g.verts g.edges r ∧ Stuck g.verts g.edges r) ∨
    (sort o g = .error .cycle ∧ Stuck g.verts g.edges []) :=
  sort_spec (wf_of_selected (closure_ok hc)) o

/-- what `buildGraph` returns: the vertices are exactly the selected tasks (each once, all defined), the edges exactly
    the declared dependencies between them; it fails exactly when a selected name is undefined -/
theorem C03_closure (ts : Table α) (req : List α) :
    (∀ g, closure ts req = .ok g →
      g.verts.Nodup ∧ (∀ n, n ∈ g.verts ↔ Reach ts req n) ∧ (∀ p c, (p, c) ∈ g.edges ↔ c ∈ g.verts ∧ p ∈ deps ts c)) ∧
    ((∃ e, closure ts req = .error e) ↔ ∃ n, Reach ts req n ∧ Undefined ts n) :=
  ⟨fun _ hc => ⟨(closure_ok hc).vnodup, (closure_ok hc).verts_iff, (closure_ok hc).edges_iff⟩, closure_error_iff⟩

/-- quantifying over oracles quantifies over exactly the iteration orders: `reorder` always yields a permutation of the
    collection, and every permutation is produced by some hint -/
theorem C03_oracle_adequate (hint l : List α) : (reorder hint l).Perm l ∧ ∀ p : List α, p.Perm l → reorder p l = p :=
  ⟨reorder_perm hint l, fun _ hp => reorder_self hp⟩

/-- the judge is the property: `c03` accepts an observed run iff `Spec` (the statement with quantifiers) holds of it -/
theorem judge_iff_spec (ts : Table α) (req : List α) (fails : α → Bool) (obs : Obs α) :
    c03 ts req fails obs = true ↔ Spec ts req fails obs := c03_iff_spec ts req fails obs

/-- the judge accepts everything the model can do, for every oracle and every set of failing tasks -/
theorem judge_accepts_model (o : Oracle α) (ts : Table α) (req : List α) (fails : α → Bool) :
    ∃ obs, exec o ts req fails = .ok obs ∧ c03 ts req fails obs = true := by
  cases hp : plan o ts req with
  | spin => exact absurd hp (plan_ne_spin o ts req)
  | ok order =>
    obtain ⟨hnd, hmem, hbefore⟩ := C03_ok o ts req order hp
    refine ⟨⟨none, order⟩, (C03_each_once_even_on_failure o ts req order fails hp).1, ?_⟩
    rw [c03_iff_spec]
    refine ⟨fun herr => absurd herr (not_erroneous_of_plan_ok hp), fun _ => ⟨hnd, fun n hn => (hmem n).mp hn, ?_, ?_⟩⟩
    · intro b hb a ha
      exact hbefore a b hb ha
    · intro _
      exact ⟨Or.inl rfl, fun n hn => (hmem n).mpr hn⟩
  | error e =>
    refine ⟨⟨some e, []⟩, C03_error_runs_nothing o ts req fails e hp, ?_⟩
    rw [c03_iff_spec]
    refine ⟨fun _ => ⟨by simp, rfl⟩, fun hne => ?_⟩
    rcases erroneous_of_plan_error hp with hreq | herr
    · subst hreq
      refine ⟨List.nodup_nil, by simp, by simp, fun _ => ⟨Or.inr rfl, fun n hn => absurd hn reach_nil⟩⟩
    · exact absurd herr hne

/-! ## Non-vacuity: the hypotheses are met by concrete spokfiles (names are numbers here) -/

section examples

/-- c(b) b(a) a() with c = 2, b = 1, a = 0 -/
def chain3 : Table Nat := [(2, [1]), (1, [0]), (0, [])]
/-- d(b, c) b(a) c(a) a() with d = 3, b = 1, c = 2, a = 0 -/
def diamond : Table Nat := [(3, [1, 2]), (1, [0]), (2, [0]), (0, [])]
/-- x(y) y(x) i() with x = 0, y = 1, i = 2 -/
def twoCycle : Table Nat := [(0, [1]), (1, [0]), (2, [])]
/-- s(s) i() with s = 0, i = 1 -/
def selfLoop : Table Nat := [(0, [0]), (1, [])]

def noHints : Oracle Nat := ⟨[], fun _ => []⟩
/-- an oracle that iterates the other way round wherever there is a choice -/
def backwards : Oracle Nat := ⟨[3, 2, 1, 0], fun _ => [3, 2, 1, 0]⟩

-- the D2 witness: `spok c` runs a, b, c (the pinned tree ran b, c only)
example : plan noHints chain3 [2] = .ok [0, 1, 2] := by unfold noHints chain3; graph_eval
example : plan backwards chain3 [2] = .ok [0, 1, 2] := by unfold backwards chain3; graph_eval
-- the diamond has two admissible orders, each produced by some oracle; a is started once
theorem diamond_plain : plan noHints diamond [3] = .ok [0, 1, 2, 3] := by unfold noHints diamond; graph_eval
theorem diamond_backwards : plan backwards diamond [3] = .ok [0, 2, 1, 3] := by unfold backwards diamond; graph_eval
example : exec noHints diamond [3] (fun n => n == 0 || n == 2) = .ok ⟨none, [0, 1, 2, 3]⟩ := by
  unfold noHints diamond; graph_eval
-- a 2-cycle next to an independent task: an error, not a silent run of the independent task alone (D2)
example : plan noHints twoCycle [0, 2] = .error .cycle := by unfold noHints twoCycle; graph_eval
example : plan backwards twoCycle [2, 0] = .error .cycle := by unfold backwards twoCycle; graph_eval
example : plan noHints twoCycle [2] = .ok [2] := by unfold noHints twoCycle; graph_eval
-- a self-loop (D2: `spok s i` ran only i)
example : plan noHints selfLoop [0, 1] = .error .cycle := by unfold noHints selfLoop; graph_eval
example : plan noHints selfLoop [1] = .ok [1] := by unfold noHints selfLoop; graph_eval
-- undefined names and duplicate definitions
example : plan noHints chain3 [2, 7] = .error .noSuchTask := by unfold noHints chain3; graph_eval
example : plan noHints [(0, [5])] [0] = .error .noSuchDependency := by unfold noHints; graph_eval
example : plan noHints [(0, []), (1, []), (0, [1])] [1] = .error .duplicate := by unfold noHints; graph_eval
-- the hypotheses of C03_ok / C03_err are inhabited, on both sides of the equivalence
example : [0, 2, 1, 3].Nodup ∧ (∀ n, n ∈ [0, 2, 1, 3] ↔ Reach diamond [3] n) :=
  ⟨(C03_ok backwards diamond [3] _ diamond_backwards).1, (C03_ok backwards diamond [3] _ diamond_backwards).2.1⟩
example : ¬ Erroneous diamond [3] := not_erroneous_of_plan_ok diamond_plain
example : Cyclic twoCycle [0, 2] :=
  ⟨0, .req (by simp), .tail (.single (show DependsOn twoCycle 0 1 by unfold twoCycle; graph_eval))
    (show DependsOn twoCycle 1 0 by unfold twoCycle; graph_eval)⟩
example : ∀ o : Oracle Nat, ∃ e, plan o twoCycle [0, 2] = .error e :=
  fun o => (C03_err o twoCycle [0, 2] (by simp)).mp (Or.inr (Or.inr
    ⟨0, .req (by simp), .tail (.single (show DependsOn twoCycle 0 1 by unfold twoCycle; graph_eval))
      (show DependsOn twoCycle 1 0 by unfold twoCycle; graph_eval)⟩))
-- the judge rejects the behaviours of the pinned tree and accepts the correct ones
example : c03 chain3 [2] (fun _ => false) ⟨none, [1, 2]⟩ = false := by unfold chain3; graph_eval
example : c03 chain3 [2] (fun _ => false) ⟨none, [0, 1, 2]⟩ = true := by unfold chain3; graph_eval
example : c03 chain3 [2] (fun _ => false) ⟨none, [1, 0, 2]⟩ = false := by unfold chain3; graph_eval
example : c03 chain3 [2] (fun _ => false) ⟨none, [0, 1, 2, 0]⟩ = false := by unfold chain3; graph_eval
example : c03 chain3 [2] (fun _ => false) ⟨some .cycle, []⟩ = false := by unfold chain3; graph_eval
example : c03 selfLoop [0, 1] (fun _ => false) ⟨none, [1]⟩ = false := by unfold selfLoop; graph_eval
example : c03 selfLoop [0, 1] (fun _ => false) ⟨some .cycle, []⟩ = true := by unfold selfLoop; graph_eval
example : c03 twoCycle [0] (fun _ => false) ⟨none, [1, 0]⟩ = false := by unfold twoCycle; graph_eval
-- stopping after a failure keeps the order; starting c without b does not
example : c03 chain3 [2] (fun n => n == 0) ⟨none, [0]⟩ = true := by unfold chain3; graph_eval
example : c03 chain3 [2] (fun n => n == 0) ⟨none, [0, 2]⟩ = false := by unfold chain3; graph_eval

/-- `C03_oracle_independent` on the diamond: from the plain order, the backwards oracle's order exists and is a permutation -/
example : ∃ order₂, plan backwards diamond [3] = .ok order₂ ∧ [0, 1, 2, 3].Perm order₂ :=
  C03_oracle_independent noHints backwards diamond [3] _ diamond_plain

end examples

end Spok.Props.C03
