import Spok.Lemmas.JsonLoad
import Spok.Json.Report
import Spok.Judge.Json
/-! # C10 at the byte level of `.spok/cache.json`

The run machine (`Spok/Run.lean`) treats every `Cache.Dump` as two micro-steps — truncate, write — and calls the file
in between `corrupt`: *whatever* a kill leaves of the new contents makes the next `cache.Load` fail.  That is a claim
about `encoding/json`, and here it is a theorem about the transliterated scanner and decoder (`Spok/Json/*.lean`,
compared with the real `cache.Dump` / `cache.Load` / `json.Valid` by the `json` engine on every run):

* every strict prefix of what `Dump` writes is rejected by the scanner, so `Load` returns a `*json.SyntaxError`
  (`C10_torn_write_is_syntax_error`) — for every map, every key and value, every cut;
* the whole file loads to exactly the map that was dumped (`C10_whole_write_loads`, `C10_whole_write_same_map`);
* hence the three-valued file state of the run machine is what the bytes denote (`C10_disk_class`). -/
namespace Spok.Props.C10Json
open Spok Spok.Json

/-- a kill part-way through the write of the cache file leaves a file that `cache.Load` refuses -/
theorem C10_torn_write_is_syntax_error (m : List KV) (q : Bytes) (hq : q <+: encodeMap m) (hne : q ≠ encodeMap m) :
    load q = .syntaxErr := by
  unfold load; rw [prefix_invalid m q hq hne]; rfl

/-- in terms of byte counts: the first `n` bytes, `n` short of the whole -/
theorem C10_torn_write_take (m : List KV) (n : Nat) (h : n < (encodeMap m).length) : load ((encodeMap m).take n) = .syntaxErr :=
  C10_torn_write_is_syntax_error m _ (List.take_prefix n _) (by
    intro he
    have := congrArg List.length he
    simp only [List.length_take] at this
    omega)

/-- the completed write is valid JSON … -/
theorem C10_whole_write_valid (m : List KV) : valid (encodeMap m) = true := valid_encodeMap m

/-- … and loads to the entries that were dumped, sorted by key (invalid UTF-8 replaced by U+FFFD, as `json.Marshal` does) -/
theorem C10_whole_write_loads (m : List KV) : load (encodeMap m) = .ok ((m.mergeSort kvLE).map sanKV) := load_encodeMap m

/-- a string without invalid UTF-8 (every task name: the lexer only accepts letters, digits and `_`; every digest: hex) -/
def ValidUtf8 (s : Bytes) : Prop := ∀ r ∈ decodeAll s, r.invalid = false

theorem find_of_mem_nodup : ∀ (l : List KV) (k v : Bytes), (l.map (·.1)).Nodup → (k, v) ∈ l → l.find? (·.1 == k) = some (k, v)
  | [], _, _, _, h => by simp at h
  | (k', v') :: l, k, v, hn, h => by
    simp only [List.map_cons, List.nodup_cons] at hn
    simp only [List.mem_cons] at h
    rcases h with h | h
    · cases h; simp
    · have hne : k' ≠ k := by
        intro he; subst he
        exact hn.1 (List.mem_map.mpr ⟨(k', v), h, rfl⟩)
      rw [List.find?_cons]
      simp only [beq_iff_eq, hne, if_false]
      have : ((k', v').1 == k) = false := by simp [hne]
      simp only [this]
      exact find_of_mem_nodup l k v hn.2 h

theorem lookup_of_mem {l : List KV} {k v : Bytes} (hn : (l.map (·.1)).Nodup) (h : (k, v) ∈ l) : lookup l k = some v := by
  unfold lookup
  rw [find_of_mem_nodup l.reverse k v (by rw [List.map_reverse]; exact (List.reverse_perm _).nodup_iff.mpr hn) (List.mem_reverse.mpr h)]
  rfl

theorem lookup_none {l : List KV} {k : Bytes} (h : ∀ v, (k, v) ∉ l) : lookup l k = none := by
  unfold lookup
  have : l.reverse.find? (·.1 == k) = none := by
    rw [List.find?_eq_none]
    intro x hx hk
    simp only [beq_iff_eq] at hk
    exact h x.2 (by rw [← hk]; exact List.mem_reverse.mp hx)
  rw [this]; rfl

/-- the map a list of entries with distinct keys denotes does not depend on their order -/
theorem lookup_perm {l1 l2 : List KV} (hp : l1.Perm l2) (hn : (l1.map (·.1)).Nodup) (k : Bytes) : lookup l1 k = lookup l2 k := by
  have hn2 : (l2.map (·.1)).Nodup := (hp.map _).nodup_iff.mp hn
  by_cases h : ∃ v, (k, v) ∈ l1
  · obtain ⟨v, hv⟩ := h
    rw [lookup_of_mem hn hv, lookup_of_mem hn2 (hp.mem_iff.mp hv)]
  · have h1 : ∀ v, (k, v) ∉ l1 := fun v hv => h ⟨v, hv⟩
    have h2 : ∀ v, (k, v) ∉ l2 := fun v hv => h ⟨v, hp.mem_iff.mpr hv⟩
    rw [lookup_none h1, lookup_none h2]

theorem sanKV_valid {kv : KV} (h1 : ValidUtf8 kv.1) (h2 : ValidUtf8 kv.2) : sanKV kv = kv := by
  unfold sanKV; rw [sanitize_valid _ h1, sanitize_valid _ h2]

/-- **the completed write gives back the very map that was dumped**: same keys, same values -/
theorem C10_whole_write_same_map (m : List KV) (hk : (m.map (·.1)).Nodup)
    (hv : ∀ kv ∈ m, ValidUtf8 kv.1 ∧ ValidUtf8 kv.2) :
    ∃ kvs, load (encodeMap m) = .ok kvs ∧ ∀ k, lookup kvs k = lookup m k := by
  refine ⟨m.mergeSort kvLE, ?_, ?_⟩
  · rw [load_encodeMap]
    congr 1
    have : ∀ kv ∈ m.mergeSort kvLE, sanKV kv = kv := fun kv hkv =>
      let h := hv kv ((List.mergeSort_perm m kvLE).mem_iff.mp hkv)
      sanKV_valid h.1 h.2
    exact (List.map_congr_left this).trans (List.map_id _)
  · intro k
    exact (lookup_perm (List.mergeSort_perm m kvLE).symm hk k).symm

/-! ## the file state of the run machine, from the bytes -/

inductive FileClass where
  | missing | corrupt | valid
deriving DecidableEq, Repr

/-- what `Exists` + `Load` make of the cache file (`none`: no such file) -/
def classOf : Option Bytes → FileClass
  | none => .missing
  | some b => match load b with
    | .ok _ => .valid
    | _ => .corrupt

/-- **`cache.Init`** (a fresh project: every task name with the empty digest, written by the same `Dump`): the file loads,
    every task is in it, and every digest read back is `""` — "never succeeded", the `mem := fun _ => none` of the run
    machine's `initWriting` step; a torn `Init` is a syntax error like any other torn write (`C10_torn_write_is_syntax_error`) -/
theorem C10_init_file (names : List Bytes) (hn : names.Nodup) (hv : ∀ n ∈ names, ValidUtf8 n) :
    ∃ kvs, load (encodeMap (names.map fun n => (n, []))) = .ok kvs ∧
      (∀ n ∈ names, lookup kvs n = some []) ∧ ∀ k, k ∉ names → lookup kvs k = none := by
  have hk : ((names.map fun n => ((n, []) : KV)).map (·.1)).Nodup := by
    have e : (names.map fun n => ((n, []) : KV)).map (·.1) = names := by
      rw [List.map_map]; exact (List.map_congr_left (fun _ _ => rfl)).trans (List.map_id _)
    rw [e]; exact hn
  obtain ⟨kvs, hl, hlk⟩ := C10_whole_write_same_map (names.map fun n => (n, [])) hk (by
    intro kv hkv
    obtain ⟨n, hnm, rfl⟩ := List.mem_map.mp hkv
    exact ⟨hv n hnm, by intro r hr; simp [decodeAll] at hr⟩)
  refine ⟨kvs, hl, ?_, ?_⟩
  · intro n hnm
    rw [hlk]
    exact lookup_of_mem hk (List.mem_map.mpr ⟨n, hnm, rfl⟩)
  · intro k hk'
    rw [hlk]
    exact lookup_none (by
      intro v hmem
      obtain ⟨n, hnm, he⟩ := List.mem_map.mp hmem
      exact hk' (by cases he; exact hnm))

/-- the hypotheses of `C10_init_file` are met by ordinary task names -/
example : [Json.ascii "build", Json.ascii "test", Json.ascii "lint"].Nodup ∧
    ∀ n ∈ [Json.ascii "build", Json.ascii "test", Json.ascii "lint"], ValidUtf8 n := by
  refine ⟨by decide, ?_⟩
  intro n hn
  simp only [List.mem_cons, List.mem_nil_iff, or_false] at hn
  rcases hn with rfl | rfl | rfl <;> (intro r hr; revert r; decide +kernel)

/-- after "truncate, then write some prefix of the new contents" the file is `valid` exactly when the write completed
    — the two micro-steps `corrupt`, `valid s.mem` of `Run.step` -/
theorem C10_disk_class (m : List KV) (q : Bytes) (hq : q <+: encodeMap m) :
    classOf (some q) = if q = encodeMap m then .valid else .corrupt := by
  by_cases h : q = encodeMap m
  · subst h; simp [classOf, load_encodeMap]
  · simp [classOf, C10_torn_write_is_syntax_error m q hq h, h]

/-- the judge of the json engine accepts what the model does, at every cut -/
theorem judge_accepts_model (m : List KV) (cut : Nat) :
    Spok.Judge.Json.c10torn m (encodeMap m).length cut
      (match load ((encodeMap m).take cut) with
       | .syntaxErr => .syntaxErr | .typeErr => .typeErr | .nullMap => .nullMap | .ok kvs => .ok kvs) = true := by
  unfold Spok.Judge.Json.c10torn
  by_cases h : cut < (encodeMap m).length
  · simp [h, C10_torn_write_take m cut h, Spok.Judge.Json.LoadObs.isErr]
  · have ht : (encodeMap m).take cut = encodeMap m := List.take_of_length_le (by omega)
    simp only [h, if_false, ht, load_encodeMap, Spok.Judge.Json.sameMap, Bool.and_eq_true, List.all_eq_true, List.any_eq_true,
      beq_iff_eq]
    have hp := List.mergeSort_perm m kvLE
    constructor
    · intro e he
      obtain ⟨kv, hkv, rfl⟩ := List.mem_map.mp he
      exact ⟨kv, hp.mem_iff.mp hkv, rfl⟩
    · intro kv hkv
      exact ⟨sanKV kv, List.mem_map.mpr ⟨kv, hp.mem_iff.mpr hkv, rfl⟩, rfl⟩

/-! ## non-vacuity -/

/-- `{"a":"","b":"1"}` -/
def sample : Bytes := [123, 34, 97, 34, 58, 34, 34, 44, 34, 98, 34, 58, 34, 49, 34, 125]

example : (123 :: (joinComma ([([97], []), ([98], [49])].map encEntry) ++ [125]) : Bytes) = sample := by decide +kernel
example : load sample = .ok [([97], []), ([98], [49])] := by decide +kernel
example : load (sample.take 15) = .syntaxErr ∧ load (sample.take 9) = .syntaxErr ∧ load [] = .syntaxErr := by decide +kernel
/-- `{"a":1}` and `null` -/
example : load [123, 34, 97, 34, 58, 49, 125] = .typeErr ∧ load [110, 117, 108, 108] = .nullMap := by decide +kernel
example : (([([98], [49]), ([97], [])] : List KV).map (·.1)).Nodup := by decide
/-- `ä` (C3 A4) is valid, a lone C3 is not -/
example : sanitize [98, 0xC3, 0xA4] = [98, 0xC3, 0xA4] ∧ sanitize [98, 0xC3] = [98, 0xEF, 0xBF, 0xBD] := by decide +kernel

end Spok.Props.C10Json
