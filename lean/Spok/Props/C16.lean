import Spok.Lemmas.LexJudge
/-! # Property C16 — the token stream tiles the input

*Each non-error token's text is exactly the slice of the input at its recorded offset; tokens come in
increasing, non-overlapping offsets with nothing but whitespace between them; each token's line number is
one plus the number of newlines before its offset.  Read up to its first end-of-file or error token the
stream is finite, and a scan that ends without error ends with an end-of-file token positioned at the end
of the input.*

The proof is an invariant of the scanner (`Wf`/`WfT`, `Lemmas/LexWf*.lean`): Go's counters
`pos start line startLine` are the byte length / newline count of what the zipper has read, the pending
token text is the stretch `[start, pos)`, and the tokens emitted so far tile the input before `start`.
Every primitive (`next`, `backup` after `next`, `absorb` over a spelled token, `emit`, `discard` over white
space, `pos--` over a blank), every scanning loop and every state function preserves it; an ERROR token
ends the obligation.  `Lemmas/LexTiles.lean` turns the rune-level tiling into the byte-level statement
`TilesBytes` (see its docstring), `Lemmas/LexJudge.lean` shows that the executable judge `Judge.c16` —
which is what is evaluated on the *implementation's* token stream — accepts whatever satisfies it. -/
namespace Spok.Props.C16
open Spok Spok.Judge

/-- tokens up to and including the first EOF or ERROR -/
abbrev cut := Wire.cutToks

/-- **the invariant is inductive**: one step of the scanner's state machine preserves `WfT` -/
theorem C16_invariant_step {input : List Rune} {l : L} {t : Tag} (h : WfT input l t) :
    WfT input (stepTag l t).1 (stepTag l t).2 := wfT_stepTag h

/-- … and holds initially, for every byte string (Go-style decoding, invalid UTF-8 included) -/
theorem C16_invariant_init (bytes : List UInt8) : WfT (decodeAll bytes) (L.init (decodeAll bytes)) .start :=
  wfT_intro .start (by decide) (by decide) (Wf.init (decodeAll_runesOK bytes)) rfl

/-- the model's stream has its only EOF / ERROR token in last position, so cutting changes nothing -/
theorem C16_cut_whole (bytes : List UInt8) : cut (lex bytes).toks = (lex bytes).toks :=
  cutToks_of_doneOK (lexRunes_doneOK (decodeAll_runesOK bytes))

/-- **C16, slices / gaps / lines.**  For every input, the stream read up to its first EOF or ERROR token
    satisfies `TilesBytes`: every token before the last is neither EOF nor ERROR; `flat t.val` is the slice of
    `bytes` at `[t.pos, t.pos + |flat t.val|)`, which lies inside the input; the bytes between the end of the
    previous token (offset 0 for the first) and `t.pos` are the bytes of consecutive white-space runes of the
    input's decoding (`WsGap`, in particular `previous end ≤ t.pos`); `t.line = 1 + #{0x0A bytes before
    t.pos}`; the last token is an ERROR token (unconstrained) or the EOF token (see `C16_finite_and_eof`). -/
theorem C16_tiles (bytes : List UInt8) : TilesBytes bytes (cut (lex bytes).toks) := by
  rw [C16_cut_whole]; exact lex_tilesBytes bytes

/-- **C16, order.**  Offsets are increasing and tokens do not overlap: every token ends at or before the
    start of every later non-error token. -/
theorem C16_offsets_increasing (bytes : List UInt8) :
    (cut (lex bytes).toks).Pairwise (fun a b => b.ty ≠ .error → a.pos + (flat a.val).length ≤ b.pos) :=
  (C16_tiles bytes).ordered.2

/-- **C16, finiteness and the final EOF.**  The scan halts (the step budget of `lexRunes` is never
    exhausted and the command loop never spins); if the stream contains no ERROR token, it is some tokens none
    of which is EOF followed by exactly the EOF token: empty text, offset = length of the input, line = one
    plus the number of newline bytes of the input. -/
theorem C16_finite_and_eof (bytes : List UInt8) :
    (lex bytes).halted = true ∧
    ((∀ t ∈ (lex bytes).toks, t.ty ≠ .error) →
      ∃ ts, (lex bytes).toks = ts ++ [⟨.eof, [], bytes.length, 1 + countNL bytes, 0⟩] ∧ ∀ t ∈ ts, t.ty ≠ .eof) := by
  refine ⟨lexRunes_halted _, fun hne => ?_⟩
  have hok := decodeAll_runesOK bytes
  obtain ⟨ts, e, htoks, h | h⟩ := lexRunes_doneOK hok
  · exact absurd h.1 (hne e (by show e ∈ (lexRunes (decodeAll bytes)).toks; rw [htoks]; simp))
  · obtain ⟨rfl, ht⟩ := h
    refine ⟨ts, ?_, fun t hm => (ht.types t hm).2⟩
    have h1 : bytesLen (decodeAll bytes) = bytes.length := by rw [← flat_length, flat_decodeAll]
    have h2 : nl (decodeAll bytes) = countNL bytes := by rw [← countNL_flat hok, flat_decodeAll]
    show (lexRunes (decodeAll bytes)).toks = _
    rw [htoks, h1, h2]

/-- **the executable judge accepts the model**: `Judge.c16` (evaluated by the oracle on the token stream the
    real lexer produced) holds of the model's own stream, for every input -/
theorem judge_accepts_model (bytes : List UInt8) : Judge.c16 bytes (cut (lex bytes).toks) = true :=
  (C16_tiles bytes).judge

/-! ## non-vacuity -/

/-- `# é⏎` (CRLF) `task a() {` ⏎ `  echo hi` ⏎ `}` ⏎ : a comment with a two-byte rune, a CRLF line end, a task body -/
def sample : List UInt8 :=
  [35, 32, 195, 169, 13, 10, 116, 97, 115, 107, 32, 97, 40, 41, 32, 123, 10, 32, 32, 101, 99, 104, 111, 32, 104, 105, 10,
   125, 10]

set_option maxRecDepth 100000 in
/-- what the model scans from `sample`: offsets count bytes (IDENT `a` at 11 after the two-byte `é`), lines count
    `\n` (the CR of the CRLF belongs to the comment's gap, not to a line of its own), the command excludes its
    indentation and its line end, EOF sits at offset 29 = `sample.length` on line 5 -/
theorem sample_tokens : (lex sample).toks.map (fun t => (t.ty, flat t.val, t.pos, t.line)) =
    [(.hash, [35], 0, 1), (.comment, [32, 195, 169], 1, 1), (.task, [116, 97, 115, 107], 6, 2), (.ident, [97], 11, 2),
     (.lparen, [40], 12, 2), (.rparen, [41], 13, 2), (.lbrace, [123], 15, 2),
     (.command, [101, 99, 104, 111, 32, 104, 105], 19, 3), (.rbrace, [125], 27, 4), (.eof, [], 29, 5)] := by
  decide +kernel

set_option maxRecDepth 100000 in
/-- the hypothesis of `C16_finite_and_eof` is satisfiable -/
theorem sample_no_error : ∀ t ∈ (lex sample).toks, t.ty ≠ .error := by decide +kernel

example : ∃ ts, (lex sample).toks = ts ++ [⟨.eof, [], 29, 5, 0⟩] ∧ ∀ t ∈ ts, t.ty ≠ .eof :=
  (C16_finite_and_eof sample).2 sample_no_error

example : TilesBytes sample (cut (lex sample).toks) := C16_tiles sample
example : Judge.c16 sample (cut (lex sample).toks) = true := judge_accepts_model sample

/-- `task a( {` followed by an invalid byte: the scan ends in an ERROR token; the tokens before it still tile -/
def broken : List UInt8 := [116, 97, 115, 107, 32, 97, 40, 32, 0xFF]

set_option maxRecDepth 100000 in
theorem broken_tokens : (lex broken).toks.map (fun t => (t.ty, flat t.val, t.pos, t.line)) =
    [(.task, [116, 97, 115, 107], 0, 1), (.ident, [97], 5, 1), (.lparen, [40], 6, 1), (.error, [], 8, 1)] := by
  decide +kernel

example : TilesBytes broken (cut (lex broken).toks) := C16_tiles broken

/-- the judge is not trivially true: a token one byte off is rejected -/
example : Judge.c16 [97, 10] [⟨.ident, [asc 97], 1, 1, 0⟩, ⟨.eof, [], 2, 2, 0⟩] = false := by decide +kernel

end Spok.Props.C16
