import Spok.Judge.Syntax
/-! # Property C16 — theorems (under construction) -/
namespace Spok.Props.C16
end Spok.Props.C16
