import Spok.App
import Spok.Lemmas.App
import Spok.Judge.Cli
/-! # C19 — spok writes only where the chosen action says it may

"Apart from its cache directory next to the spokfile, spok itself creates, changes or deletes files only as
the chosen action dictates: --fmt rewrites only the spokfile and only when it parses and loads; --init creates
a new spokfile and appends to .gitignore but never overwrites an existing spokfile.  Listing tasks, showing
variables and running tasks whose commands have no side effects leave every other file of the project tree
byte-identical."

`Spok.App.action` is `App.Run` up to its `switch` (the ORDER of the checks is the mechanism: parse and load
happen before any write of `--fmt`; the existence check comes before the write of `--init`), `Spok.App.writes`
lists what each branch writes, `allowedWrites` / `permitted` are the property's table.  The theorems are a
decision table over all option records, argument lists and worlds.  The weight of the claim is on the tie: the
real binary is run in a sandbox `HOME` under every subset of the flags, and the judge `Spok.Judge.Cli.c19`
applies `permitted` to the difference of two full snapshots (path, mode, content hash). -/
namespace Spok.Props.C19
open Spok.App

/-- **C19 (frame).**  Whatever the flags, the task names and the world: every write of the action that
    `App.Run` dispatches to is one the property's table allows for that action. -/
theorem C19_frame (o : Options) (args : List String) (w : World) :
    ∀ d ∈ writes (action o args w), d ∈ allowedWrites (action o args w) w := by
  intro d hd
  rcases action_cases o args w with ⟨_, _, h⟩ | ⟨_, hc, h⟩ | ⟨_, e, h⟩ | ⟨_, _, hp, h⟩
  · rw [h] at hd; simp [writes] at hd
  · rw [h] at hd ⊢; simpa [writes, allowedWrites, hc] using hd
  · rw [h] at hd; simp [writes] at hd
  · have hw := prepare_none o w hp
    rw [h] at hd ⊢
    rcases dispatch_cases o args w with ⟨_, h⟩ | ⟨_, _, h⟩ | ⟨_, _, _, h | h⟩ | ⟨_, _, _, _, h⟩ | ⟨_, _, _, _, _, h⟩ | ⟨_, _, _, _, _, h⟩
    all_goals rw [h] at hd ⊢
    all_goals (try (unfold defaultDispatch at hd ⊢; split at hd))
    all_goals simp_all [writes, allowedWrites]
    all_goals (try (rcases hd with rfl | rfl <;> simp))

/-- the same at the level of the flags (what the judge applies to the real binary): no dispatch order involved
    in `permitted`, so a reordering of `App.Run` that writes earlier would break this theorem -/
theorem C19_frame_flags (o : Options) (args : List String) (w : World) :
    ∀ d ∈ writes (action o args w), permitted o w d = true := by
  intro d hd
  rcases action_cases o args w with ⟨_, _, h⟩ | ⟨hi, hc, h⟩ | ⟨_, e, h⟩ | ⟨hi, _, hp, h⟩
  · rw [h] at hd; simp [writes] at hd
  · rw [h] at hd
    simp only [writes, List.mem_cons, List.not_mem_nil, or_false] at hd
    rcases hd with rfl | rfl <;> simp [permitted, hi, hc]
  · rw [h] at hd; simp [writes] at hd
  · have hw := prepare_none o w hp
    rw [h] at hd
    rcases dispatch_writes o args w d hd with ⟨rfl, hf, _⟩ | ht | ⟨rfl, hcl, _⟩
    · simp [permitted, hf, hi, hw]
    · obtain ⟨t, k⟩ := d
      simp only at ht
      subst ht
      simp [permitted]
    · simp [permitted, hcl, hi]

/-- `--fmt` writes nothing unless the spokfile parses AND loads (and then only the spokfile itself) -/
theorem C19_fmt_needs_parse_and_load (o : Options) (args : List String) (w : World)
    (h : (⟨.spokfile, .modify⟩ : Write) ∈ writes (action o args w)) :
    o.fmt = true ∧ o.init = false ∧ w.parses = true ∧ w.loads = true ∧ w.readable = true ∧
    action o args w = .fmt := by
  rcases action_cases o args w with ⟨_, _, ha⟩ | ⟨_, _, ha⟩ | ⟨_, e, ha⟩ | ⟨hi, _, hp, ha⟩
  · rw [ha] at h; simp [writes] at h
  · rw [ha] at h; simp [writes] at h
  · rw [ha] at h; simp [writes] at h
  · have hw := prepare_none o w hp
    rw [ha] at h ⊢
    rcases dispatch_writes o args w _ h with ⟨_, hf, hd⟩ | ht | ⟨he, _⟩
    · exact ⟨hf, hi, hw.2.2.2.2.1, hw.2.2.2.2.2, hw.2.2.2.1, hd⟩
    · simp at ht
    · simp at he

theorem C19_fmt_only_spokfile (o : Options) (args : List String) (w : World) (h : action o args w = .fmt) :
    writes (action o args w) = [⟨.spokfile, .modify⟩] := by
  rw [h]; rfl

/-- a spokfile that does not parse, or parses and does not load, is never written to, under any flags -/
theorem C19_invalid_spokfile_untouched (o : Options) (args : List String) (w : World)
    (h : w.parses = false ∨ w.loads = false) :
    ∀ d ∈ writes (action o args w), d.target ≠ .spokfile := by
  intro d hd ht
  have hp := C19_frame_flags o args w d hd
  obtain ⟨t, k⟩ := d
  simp only at ht
  subst ht
  cases k <;> cases h <;> simp_all [permitted]

/-- `--init` never overwrites: with a spokfile already in the working directory NOTHING is written
    (not even `.gitignore`), whatever the other flags -/
theorem C19_init_never_overwrites (o : Options) (args : List String) (w : World)
    (hi : o.init = true) (he : w.cwdSpokfile = true) : writes (action o args w) = [] := by
  simp [action, hi, he, writes]

/-- `--init` without one: a NEW spokfile and an append to `.gitignore`, nothing else; the spokfile in use
    (if any was found further up) is not a target -/
theorem C19_init_creates (o : Options) (args : List String) (w : World)
    (hi : o.init = true) (he : w.cwdSpokfile = false) :
    writes (action o args w) = [⟨.cwdSpokfile, .create⟩, ⟨.cwdGitignore, .append⟩] := by
  simp [action, hi, he, writes]

/-- nobody but `--init` creates a spokfile or touches `.gitignore` -/
theorem C19_only_init_creates (o : Options) (args : List String) (w : World) (d : Write)
    (hd : d ∈ writes (action o args w)) (ht : d.target = .cwdSpokfile ∨ d.target = .cwdGitignore) :
    o.init = true ∧ w.cwdSpokfile = false := by
  have hp := C19_frame_flags o args w d hd
  obtain ⟨t, k⟩ := d
  cases ht with
  | inl h => simp only at h; subst h; cases k <;> simp_all [permitted]
  | inr h => simp only at h; subst h; cases k <;> simp_all [permitted]

/-- listing tasks, showing variables and every error path write nothing at all -/
theorem C19_readonly_actions (a : Action)
    (h : a = .show ∨ a = .list ∨ a = .vars ∨ ∃ e, a = .error e) : writes a = [] := by
  rcases h with h | h | h | ⟨e, h⟩ <;> subst h <;> rfl

/-- running tasks (named, default, or a user `clean` task): spok itself writes under `<dir>/.spok` only -/
theorem C19_runs_only_cache (a : Action) (h : a.isRun = true) : ∀ d ∈ writes a, d.target = .cache := by
  cases a <;> simp_all [Action.isRun, writes]

/-- for every action except `--clean` (C12) the only non-cache targets are the three named by the property -/
theorem C19_no_other_target (o : Options) (args : List String) (w : World) (hc : o.clean = false) :
    ∀ d ∈ writes (action o args w), d.target ≠ .outputs := by
  intro d hd ht
  have hp := C19_frame_flags o args w d hd
  obtain ⟨t, k⟩ := d
  simp only at ht
  subst ht
  cases k <;> simp_all [permitted]

/-! ## non-vacuity: each action is reachable, and writing actions do write -/

example : action { fmt := true } [] {} = .fmt := by decide
example : action { fmt := true } [] { parses := false } = .error .parse := by decide
example : action { fmt := true } [] { loads := false } = .error .load := by decide
example : action { fmt := true, quiet := true, debug := true } [] {} = .error .quietDebug := by decide
example : action { init := true, fmt := true } [] { cwdEntry := .file } = .error .initExists := by decide
example : action { init := true } [] { cwdEntry := .linkFile } = .error .initExists := by decide
example : action { init := true } [] { cwdEntry := .dangling, found := false } = .initialise := by decide
example : action { init := true } ["x"] { found := false } = .initialise := by decide
example : action {} [] { found := false } = .error .notFound := by decide
example : action { spokfileGiven := true } [] { found := false, nameOk := false } = .error .badName := by decide
example : action {} [] { hasDefault := true } = .runDefault := by decide
example : action { json := true } [] {} = .list := by decide
example : action { vars := true, «show» := true } ["t"] {} = .vars := by decide
example : action { clean := true } [] { hasClean := true } = .cleanTask := by decide
example : action { force := true } ["a", "b"] {} = .run ["a", "b"] := by decide
example : writes (action { fmt := true } [] {}) ≠ [] := by decide
example : writes (action { init := true } [] {}) ≠ [] := by decide

/-- the judge on an observed diff: `--fmt` on a spokfile that does not load must not have touched it … -/
example :
    let ctx : Spok.Judge.Cli.Ctx :=
      { tasks := [], vars := [], opts := { fmt := true }, args := [], world := { loads := false }, cwd := "proj/sub", spokfile := some "proj/spokfile" }
    Spok.Judge.Cli.c19 ctx { exit := 1, outEmpty := true, json := .none, taskRows := [], varRows := [], log := [],
                             diff := [("proj/spokfile", "mod")], report := "" } = .fail := by
  decide

/-- … may touch it when it loads, may always fill its cache directory, and nothing else -/
example :
    let ctx : Spok.Judge.Cli.Ctx :=
      { tasks := [], vars := [], opts := { fmt := true }, args := [], world := {}, cwd := "proj/sub", spokfile := some "proj/spokfile" }
    Spok.Judge.Cli.c19 ctx { exit := 0, outEmpty := false, json := .none, taskRows := [], varRows := [], log := [],
                             diff := [("proj/spokfile", "mod"), ("proj/.spok/cache.json", "new")], report := "" } = .ok ∧
    Spok.Judge.Cli.c19 ctx { exit := 0, outEmpty := false, json := .none, taskRows := [], varRows := [], log := [],
                             diff := [("proj/sub/.spok", "new")], report := "" } = .fail := by
  decide

end Spok.Props.C19
