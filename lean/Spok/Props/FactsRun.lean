import Spok.Generated.Facts

/-! # Expectations over the regenerated facts (`Generated/Facts.lean`) — the cache protocol (C01, C02, C09, C10, C14)

Proof obligations that tie the Go source as it is NOW (facts extracted from its AST on every run) to the model: when the
source changes in a way the model depends on, one of these stops checking. -/
namespace Spok.Props.FactsRun
open Spok Spok.Generated

/-! ## the cache protocol of `SpokFile.run` (the pc-machine of `Spok/Run.lean`) -/

/-- the calls that touch the cache, the hasher and the task, in source order: Exists / Init / Load at the start; per
    task the digest, the lookup, the forgetting write (`Set ""` twice in the source: the skip-miss and the forced branch
    share it through one `Dump`), the task, and the recording write — the micro-steps of `Run.step` -/
theorem run_protocol_matches_model :
    Facts.runProtocol = ["cache.Exists", "cache.Init", "cache.Load", "hash.New().Hash", "cachedState.Get",
      "cachedState.Set(\"\")", "cachedState.Set(\"\")", "cachedState.Dump", "taskToRun.Run",
      "cachedState.Set(recorded)", "cachedState.Dump"] := by decide

/-- the cache file is written by `json.Marshal` and read by `json.Unmarshal` (`Json/Cache.lean`: `encodeMap`, `load`) -/
theorem cache_entry_points : Facts.cacheDumpCalls = ["json.Marshal"] ∧ Facts.cacheLoadCalls = ["json.Unmarshal"] := by decide

end Spok.Props.FactsRun
