import Spok.Lemmas.RunHash
import Spok.Props.C02
import Spok.Props.C10
import Spok.Props.C14
/-! # C01 ∘ C04 — a skip is sound up to a SHA-256 collision

The run engine (C01, C10, C14) proves skip soundness for an ABSTRACT digest, "… or two different input lists have the
same digest".  The hash engine (C04) proves that the REAL digest function separates different collections of files,
"… or `sha` collided".  Here the two are composed: the run machine is instantiated with

    digestSha sha pathOf contentOf items = code (Hash.digest sha (concrete pathOf contentOf items))

(`Lemmas/RunHash`: `pathOf`, `contentOf` arbitrary injective namings of the abstract file / content ids, `code` an
injective coding of the hasher's result in `Nat`), and the conclusion is: whenever the machine skips a task, the
(file, content) pairs it is handed now are — as a collection, with multiplicity — exactly those its commands last
completed successfully on, **or `sha` itself has an explicit collision** (`Hash.Collision sha = ∃ x y, x ≠ y ∧ sha x = sha y`).
The only assumption on `sha` is `∀ x, (sha x).length = 32`, which the executable SHA-256 satisfies (`sha256_length`).

"As a collection" (`List.Perm`) and not "equal as lists" is forced: the real hasher sorts, so two different listings of the
same files have the same digest without any collision (`permuted_listing_is_skipped` below).  For the same reason these
theorems are NOT instances of `C01_skip_sound`: its collision disjunct `∃ i j, i ≠ j ∧ digest i = digest j` is trivially
true for `digestSha`.  They are re-derived from the invariant `Inv` (`skip_sound_upto`).

All histories: any length, any number of tasks, edits, cache removals, forced / failing invocations, kills after any
number of micro-steps (`Reach … false`). -/
namespace Spok.Props.C01Sha
open Spok Spok.Run Spok.RunHash

section
variable {sha : Bytes → Bytes} {pathOf : Nat → Path} {contentOf : Nat → Bytes}

/-- **C01 ∘ C04.** Whenever, in any history whatsoever, the machine running on the real digest function is about to report
    task `t` skipped, the files (paths and contents) `t`'s commands last completed successfully on — cache not removed
    since — are, as a collection, exactly its current dependency files; or else SHA-256 has collided. -/
theorem C01_skip_sound_sha (h32 : ∀ x, (sha x).length = 32)
    (hp : Function.Injective pathOf) (hc : Function.Injective contentOf)
    {s : St} (hr : Reach (digestSha sha pathOf contentOf) false s) (t : TaskIn) (rest : List TaskIn)
    (_hpc : s.pc = .decide) (_hto : s.todo = t :: rest) (hskip : skipTest (digestSha sha pathOf contentOf) s t = true) :
    (∃ its, s.last t.name = some its ∧ its.Perm t.inp.items) ∨ Hash.Collision sha :=
  skip_sound_upto (digestSha sha pathOf contentOf) List.Perm (Hash.Collision sha)
    (fun _ _ h => digestSha_collision sha pathOf contentOf h32 hp hc h) s
    (reach_inv (digestSha sha pathOf contentOf) hr) t hskip

/-- the same in terms of the concrete files: the regular (path, content) pairs handed to the hasher now are a
    permutation of those of the last successful completion -/
theorem C01_skip_sound_sha_files (h32 : ∀ x, (sha x).length = 32)
    (hp : Function.Injective pathOf) (hc : Function.Injective contentOf)
    {s : St} (hr : Reach (digestSha sha pathOf contentOf) false s) (t : TaskIn) (rest : List TaskIn)
    (hpc : s.pc = .decide) (hto : s.todo = t :: rest) (hskip : skipTest (digestSha sha pathOf contentOf) s t = true) :
    (∃ its, s.last t.name = some its ∧
        (Hash.regs (concrete pathOf contentOf its)).Perm (Hash.regs (concrete pathOf contentOf t.inp.items))) ∨
      Hash.Collision sha := by
  rcases C01_skip_sound_sha h32 hp hc hr t rest hpc hto hskip with ⟨its, hl, hperm⟩ | h
  · exact .inl ⟨its, hl, by rw [regs_concrete, regs_concrete]; exact hperm.map _⟩
  · exact .inr h

/-- **C10 ∘ C04, the invariant.** After any history with kills anywhere, the cache file is unparsable, or absent with
    nothing remembered, or every entry in it is the (code of the) real digest of the files its task last succeeded on. -/
theorem C10_crash_safe_sha (sha : Bytes → Bytes) (pathOf : Nat → Path) (contentOf : Nat → Bytes) (h : History) :
    match (runHistory (digestSha sha pathOf contentOf) World.init h).1.disk with
    | .corrupt => True
    | .missing => ∀ t, (runHistory (digestSha sha pathOf contentOf) World.init h).1.last t = none
    | .valid m => ∀ t d, m t = some d →
        ∃ i, (runHistory (digestSha sha pathOf contentOf) World.init h).1.last t = some i ∧
          code (Hash.digest sha (concrete pathOf contentOf i)) = d :=
  C10.C10_crash_safe (digestSha sha pathOf contentOf) h

/-- **C10 ∘ C04, skips after kills.** `Reach … false` places no restriction on `crashAt`: after kills at arbitrary
    micro-steps of arbitrary earlier invocations, a later invocation never skips a task whose collection of files
    differs from that of its last success — or SHA-256 has collided. -/
theorem C10_skip_sound_after_kills_sha (h32 : ∀ x, (sha x).length = 32)
    (hp : Function.Injective pathOf) (hc : Function.Injective contentOf)
    {s : St} (hr : Reach (digestSha sha pathOf contentOf) false s) (t : TaskIn) (rest : List TaskIn)
    (hpc : s.pc = .decide) (hto : s.todo = t :: rest) (hskip : skipTest (digestSha sha pathOf contentOf) s t = true) :
    (∃ its, s.last t.name = some its ∧ its.Perm t.inp.items) ∨ Hash.Collision sha :=
  C01_skip_sound_sha h32 hp hc hr t rest hpc hto hskip

/-- **C14 ∘ C04, second half.** A forced run does not damage the cache: the histories quantified over contain forced
    invocations anywhere, and the ghost is updated by forced successes like any other. -/
theorem C14_forced_history_sound_sha (h32 : ∀ x, (sha x).length = 32)
    (hp : Function.Injective pathOf) (hc : Function.Injective contentOf)
    {s : St} (hr : Reach (digestSha sha pathOf contentOf) false s) (t : TaskIn) (rest : List TaskIn)
    (hpc : s.pc = .decide) (hto : s.todo = t :: rest) (hskip : skipTest (digestSha sha pathOf contentOf) s t = true) :
    (∃ its, s.last t.name = some its ∧ its.Perm t.inp.items) ∨ Hash.Collision sha :=
  C01_skip_sound_sha h32 hp hc hr t rest hpc hto hskip

/-- **C02 ∘ C04 (the converse; no collision disjunct, no assumption on `sha`).** In an invocation that follows a crash-free
    history, an unforced task that hands ≥ 1 regular file to the hasher and whose last success was on the same
    collection of files — in whatever order they are listed now — is skipped.  So `Perm` in `C01_skip_sound_sha` cannot
    be strengthened to equality. -/
theorem C02_skip_complete_sha (sha : Bytes → Bytes) (pathOf : Nat → Path) (contentOf : Nat → Bytes)
    {s : St} (hr : Reach (digestSha sha pathOf contentOf) true s) (t : TaskIn) (rest : List TaskIn)
    (hpc : s.pc = .decide) (_hto : s.todo = t :: rest) (hf : s.force = false)
    (its : Items) (hl : s.last t.name = some its) (hperm : its.Perm t.inp.items) (hne : t.inp.items ≠ []) :
    skipTest (digestSha sha pathOf contentOf) s t = true := by
  have hne' : its ≠ [] := fun h => hne (by rw [h] at hperm; exact hperm.nil_eq.symm)
  have hn : t.inp.n > 0 := by
    unfold Inputs.n
    cases hi : t.inp.items with
    | nil => exact absurd hi hne
    | cons a l => simp; omega
  exact skip_complete_upto (digestSha sha pathOf contentOf) List.Perm
    (fun _ _ h => digestSha_perm sha pathOf contentOf h) s (C02.reach_cinv _ hr) t hpc hf its hl hperm hne' hn

end

/-! ## non-vacuity -/

/-- the injectivity hypotheses are satisfiable -/
example : Function.Injective pathU ∧ Function.Injective contentU := ⟨pathU_injective, contentU_injective⟩

/-- a (bad) hash function with 32-byte output -/
def zsha : Bytes → Bytes := fun _ => List.replicate 32 0

example : ∀ x, (zsha x).length = 32 := fun _ => by simp [zsha]

/-- run, run again: all hypotheses of `C01_skip_sound_sha` are met by a real skip, for `zsha` … -/
example : (∀ x, (zsha x).length = 32) ∧ Function.Injective pathU ∧ Function.Injective contentU ∧
    ∃ s t rest, Reach (digestSha zsha pathU contentU) false s ∧ s.pc = .decide ∧ s.todo = t :: rest ∧
      skipTest (digestSha zsha pathU contentU) s t = true :=
  ⟨fun _ => by simp [zsha], pathU_injective, contentU_injective, skip_reachable _⟩

/-- … (for which the second disjunct of the conclusion of course holds: every two inputs collide) … -/
example : Hash.Collision zsha := ⟨[], [0], by decide, rfl⟩

/-- … and for the executable SHA-256 (FIPS 180-4, `Spok.Sha256.sha256`, the one the oracle compares byte for byte
    with `crypto/sha256`), … -/
example : (∀ x, (Sha256.sha256 x).length = 32) ∧ Function.Injective pathU ∧ Function.Injective contentU ∧
    ∃ s t rest, Reach (digestSha Sha256.sha256 pathU contentU) false s ∧ s.pc = .decide ∧ s.todo = t :: rest ∧
      skipTest (digestSha Sha256.sha256 pathU contentU) s t = true :=
  ⟨Sha256.sha256_length, pathU_injective, contentU_injective, skip_reachable _⟩

/-- … and indeed for every hash function whatsoever -/
example (sha : Bytes → Bytes) (pathOf : Nat → Path) (contentOf : Nat → Bytes) :
    ∃ s t rest, Reach (digestSha sha pathOf contentOf) false s ∧ s.pc = .decide ∧ s.todo = t :: rest ∧
      skipTest (digestSha sha pathOf contentOf) s t = true :=
  skip_reachable _

/-- what the instantiated machine computes with the executable SHA-256, evaluated in the kernel: the cache entry after
    a run on the files `a` (content `x`) and `aa` (content `xx`) is (the code of the hex string of) the 32 bytes
    `696a4832…b82a3806` that `crypto/sha256` gives for the sorted 64-byte items `sha256(content) ‖ sha256(path)`,
    in either listing order -/
theorem rawDigest_sha256_example : rawDigest Sha256.sha256 pathU contentU [(0, 1), (1, 2)] =
    [0x69, 0x6a, 0x48, 0x32, 0xcd, 0x17, 0xd1, 0x26, 0xf9, 0xf5, 0x1c, 0xde, 0x07, 0x98, 0xa4, 0xc9,
     0xe7, 0x74, 0xf7, 0x26, 0x93, 0x3d, 0x62, 0x2e, 0x5f, 0xd5, 0xa6, 0xc8, 0xb8, 0x2a, 0x38, 0x06] := by
  rw [rawDigest_of_sorted _ _ _ _ (by decide +kernel)]
  decide +kernel
example : rawDigest Sha256.sha256 pathU contentU [(1, 2), (0, 1)] =
    [0x69, 0x6a, 0x48, 0x32, 0xcd, 0x17, 0xd1, 0x26, 0xf9, 0xf5, 0x1c, 0xde, 0x07, 0x98, 0xa4, 0xc9,
     0xe7, 0x74, 0xf7, 0x26, 0x93, 0x3d, 0x62, 0x2e, 0x5f, 0xd5, 0xa6, 0xc8, 0xb8, 0x2a, 0x38, 0x06] := by
  rw [rawDigest_perm _ _ _ (List.Perm.swap ..)]
  exact rawDigest_sha256_example
example (items : Items) : Hash.digest Sha256.sha256 (concrete pathU contentU items) =
    .ok (Hash.hex (rawDigest Sha256.sha256 pathU contentU items)) :=
  digest_concrete_eq _ _ _ items

/-- **`Perm` cannot be strengthened to equality.** Run on `[a, aa]`, re-list the same files as `[aa, a]`, run again:
    the instantiated machine skips (for every `sha`; the real hasher sorts), with `last ≠ current` as lists and no
    collision involved — the first disjunct of `C01_skip_sound_sha` holds with a non-trivial permutation. -/
theorem permuted_listing_is_skipped (sha : Bytes → Bytes) (pathOf : Nat → Path) (contentOf : Nat → Bytes) :
    ∃ s t rest, Reach (digestSha sha pathOf contentOf) false s ∧ s.pc = .decide ∧ s.todo = t :: rest ∧
      skipTest (digestSha sha pathOf contentOf) s t = true ∧
      s.last t.name = some [(0, 1), (1, 2)] ∧ t.inp.items = [(1, 2), (0, 1)] := by
  obtain ⟨h1, h2, h3, h4, h5⟩ := atDecide_hRunB (digestSha sha pathOf contentOf)
  refine ⟨atDecide _ hRunB, ⟨0, ⟨0, [(1, 2), (0, 1)]⟩, true, true⟩, [], atDecide_reach _ hRunB, h1, h2, ?_, ?_, rfl⟩
  · have hperm : digestSha sha pathOf contentOf [(0, 1), (1, 2)] = digestSha sha pathOf contentOf [(1, 2), (0, 1)] :=
      digestSha_perm sha pathOf contentOf (List.Perm.swap ..)
    simp [skipTest, h3, h4, Inputs.n, hperm]
  · dsimp only; exact h5

/-- the hypotheses of `C02_skip_complete_sha` are met (crash-free history, permuted listing) -/
example (sha : Bytes → Bytes) (pathOf : Nat → Path) (contentOf : Nat → Bytes) :
    ∃ s t rest its, Reach (digestSha sha pathOf contentOf) true s ∧ s.pc = .decide ∧ s.todo = t :: rest ∧
      s.force = false ∧ s.last t.name = some its ∧ its.Perm t.inp.items ∧ its ≠ t.inp.items ∧ t.inp.items ≠ [] := by
  obtain ⟨h1, h2, h3, _, h5⟩ := atDecide_hRunB (digestSha sha pathOf contentOf)
  exact ⟨atDecide _ hRunB, ⟨0, ⟨0, [(1, 2), (0, 1)]⟩, true, true⟩, [], [(0, 1), (1, 2)],
    atDecide_reach_cf _ hRunB (by decide), h1, h2, h3, (by dsimp only; exact h5), List.Perm.swap .., by decide, by decide⟩

/-- an edit is seen: with the executable SHA-256 (kernel evaluation) the digests of `a ↦ x` and `a ↦ xx` differ, so
    after a run on the former and an edit to the latter the instantiated machine does not skip -/
example : digestSha Sha256.sha256 pathU contentU [(0, 1)] ≠ digestSha Sha256.sha256 pathU contentU [(0, 2)] := by
  rw [Ne, digestSha_eq_iff_raw, rawDigest_of_sorted _ _ _ _ (by simp [pairOf]), rawDigest_of_sorted _ _ _ _ (by simp [pairOf])]
  decide +kernel

end Spok.Props.C01Sha
