import Spok.App
import Spok.Lemmas.App
import Spok.Judge.Cli
/-! # C09 — a failing command fails the invocation

"If any command of any executed task exits with a non-zero status, the spok invocation as a whole fails: it
exits non-zero and reports an error identifying the failing task, also under --quiet and --json and however
many other tasks succeeded."

These theorems are a *decision table* about `Spok.App.outcome` (the loop of `App.runTasks` + `main`), for every
option record and every list of results.  They are short on purpose; the weight of the claim is on the tie:
`vh-cli` runs the real binary on random spokfiles with scripted failing commands and the judge
`Spok.Judge.Cli.c09` checks exit status and report against the side-effect log.

The last sentence of the property ("the failed task is not treated as up to date by later runs") is the cache
clause: it is the theorem `C09_failure_not_recorded` of the **run** engine (`Spok/Props/C01.lean`, about
`SpokFile.run`), not repeated here; this engine observes it end to end (second invocation of every sequence,
clause `b` of the judge). -/
namespace Spok.Props.C09
open Spok.App

/-- **C09.**  For EVERY option record (`--quiet`, `--json`, `--force`, … in any combination) and every list of
    results, however many of them succeeded: if some command of some executed task has a non-zero status then
    the invocation exits 1 and the error it prints names the first failing task (with its first failing
    command). -/
theorem C09 (o : Options) (rs : List Result) (h : ∃ r ∈ rs, ∃ c ∈ r.cmds, c.status ≠ 0) :
    (outcome o rs).exit = 1 ∧
    ∃ pre r post, rs = pre ++ r :: post ∧ (∀ p ∈ pre, p.ok = true) ∧ r.ok = false ∧
      (outcome o rs).failingTask = some r.task ∧
      ∃ c ∈ r.cmds, c.status ≠ 0 ∧ (outcome o rs).failingCmd = some c := by
  obtain ⟨pre, r, post, c, he, hpre, hr, hc, hn, hf⟩ := firstFailing_spec rs h
  have ho : outcome o rs = ⟨1, some r.task, some c⟩ := by simp [outcome, hf]
  rw [ho]
  exact ⟨rfl, pre, r, post, he, hpre, hr, rfl, c, hc, hn, rfl⟩

/-- the exit status of a whole invocation that got as far as running tasks (any of the three run actions) -/
theorem C09_exit (o : Options) (a : Action) (ha : a.isRun = true) (rs : List Result)
    (h : ∃ r ∈ rs, ∃ c ∈ r.cmds, c.status ≠ 0) : exitOf o a (some rs) = 1 := by
  have := (C09 o rs h).1
  cases a <;> simp_all [Action.isRun, exitOf]

/-- and no JSON document (nor anything else on stdout under `--quiet`/`--json`) hides the failure -/
theorem C09_no_document (o : Options) (rs : List Result) (h : ∃ r ∈ rs, ∃ c ∈ r.cmds, c.status ≠ 0) :
    ∀ d, runStdout o rs ≠ .json d := by
  obtain ⟨_, _, _, _, _, _, _, _, _, hf⟩ := firstFailing_spec rs h
  intro d
  unfold runStdout
  rw [hf]
  simp only [Option.isNone_some, Bool.and_false]
  split
  · rename_i hc; cases hc
  · split <;> simp

/-- converse, so that the table is not one-sided: exit 0 from a run means every command succeeded -/
theorem C09_exit_zero (o : Options) (rs : List Result) (h : (outcome o rs).exit = 0) :
    ∀ r ∈ rs, ∀ c ∈ r.cmds, c.status = 0 := by
  intro r hr c hc
  apply Classical.byContradiction
  intro hn
  have := (C09 o rs ⟨r, hr, c, hc, hn⟩).1
  omega

/-! ## non-vacuity -/

def okCmd : CmdResult := ⟨"echo hi", "hi\n", "", 0⟩
def badCmd : CmdResult := ⟨"exit 3", "", "", 3⟩
def sample : List Result := [⟨"lint", [okCmd], false⟩, ⟨"docs", [], true⟩, ⟨"build", [okCmd, badCmd, okCmd], false⟩, ⟨"ship", [badCmd], false⟩]

example : ∃ r ∈ sample, ∃ c ∈ r.cmds, c.status ≠ 0 :=
  ⟨⟨"build", [okCmd, badCmd, okCmd], false⟩, by simp [sample], badCmd, by simp, by decide⟩
example : outcome { quiet := true } sample = ⟨1, some "build", some badCmd⟩ := by decide
example : outcome { json := true, force := true } sample = ⟨1, some "build", some badCmd⟩ := by decide
example : (outcome {} [⟨"lint", [okCmd], false⟩, ⟨"docs", [], true⟩]).exit = 0 := by decide

/-- the judge accepts what the model does on the sample: exit 1, the report names `build` -/
example :
    let ctx : Spok.Judge.Cli.Ctx :=
      { tasks := [⟨"build", "", [], [], [⟨"exit 3", "exit 3", "", "", 3⟩]⟩], vars := [], opts := { json := true }, args := ["build"],
        world := {}, cwd := "proj", spokfile := some "proj/spokfile" }
    Spok.Judge.Cli.c09 ctx [] { exit := 1, outEmpty := true, json := .none, taskRows := [], varRows := [], log := [(0, 0)], diff := [],
                                report := "Error: Command \"exit 3\" in task \"build\" exited with status 3" } = .ok := by
  decide

end Spok.Props.C09
