import Spok.Lemmas.GlobWalk
import Spok.Judge.Glob
/-! # Property C05 — a glob denotes exactly the matching non-hidden files under the spokfile's directory

`Glob.matches` is the specification (left to right, `*`/`?` inside one component, `**` = zero or more
whole components, a segment followed by `/` denotes a directory); `Glob.walk` mirrors doublestar's
`GlobWalk` with the callback as a parameter; `Glob.expandGlob` is the walk with spok's callback.

The theorems hold for **every** tree (any depth, any number of entries, any listing order — no
hypothesis that the listing is sorted or the names distinct) and every pattern of the subset.
Equality of the expansion with the specified set is stated *extensionally* (`v ∈ … ↔ …`): the
expansion is a list in walk order and a pattern with two `**` (e.g. `**/**`) visits a path once per way
of matching it, so "as a list" it can hold a path twice; as a set it is exactly the specified one.
The judge (`Judge.c05`) compares sets in the same way. -/
namespace Spok.Props.C05
open Spok.Glob Spok.Judge

/-- a parsed pattern has at least one segment -/
theorem parse_ne_nil {s : List Char} {pat : Pattern} (h : Pattern.parse s = some pat) : pat ≠ [] := by
  unfold Pattern.parse at h
  split at h
  · cases h
  · rename_i hne
    rintro rfl
    exact hne h

/-- **the walk visits exactly the matching entries** (`walk_no_skip_visits_all_matches`): with a callback
    that never answers `SkipDir`, `GlobWalk` calls it on an entry of the tree iff the entry's relative
    path matches the pattern — nothing matching is left out, nothing else is visited, whatever else the
    tree holds (hidden files, hidden directories, directories matching the pattern, empty directories). -/
theorem walk_no_skip_visits_all_matches (cs : List (Name × Node)) (pat : Pattern) (hp : pat ≠ [])
    (ans : Path → Bool → Answer) (h : ∀ p d, ans p d = .ok) (v : Visit) :
    v ∈ walk ans (.dir cs) pat ↔ v ∈ entries (.dir cs) ∧ «matches» pat v.1 v.2 = true :=
  mem_walkFrom_noSkip pat hp cs ans h v

/-- **C05, exactness.**  The expansion of a glob is exactly
    `{p ∈ paths t | matches pat p ∧ ¬ hidden p}`: every entry of the tree whose relative path matches the
    pattern and does not begin with a dot is in it, and nothing else is. -/
theorem C05_exact (cs : List (Name × Node)) (pat : Pattern) (hp : pat ≠ []) (v : Visit) :
    v ∈ expandGlob (.dir cs) pat ↔
      v ∈ entries (.dir cs) ∧ «matches» pat v.1 v.2 = true ∧ hidden v.1 = false := by
  simp only [expandGlob, run, spokCallback, List.mem_filter,
    walk_no_skip_visits_all_matches cs pat hp _ (fun _ _ => rfl), Bool.not_eq_eq_eq_not, Bool.not_true, and_assoc]

/-- the clause of the property about regular files, spelled out -/
theorem C05_files (cs : List (Name × Node)) (pat : Pattern) (hp : pat ≠ []) (p : Path) :
    (p, false) ∈ expandGlob (.dir cs) pat ↔
      (p, false) ∈ entries (.dir cs) ∧ «matches» pat p false = true ∧ hidden p = false :=
  C05_exact cs pat hp (p, false)

/-- **Only the matching, non-hidden entries matter.**  Two trees that agree on the entries that match the pattern and are not
    hidden have the same expansion (as a set): creating, deleting or renaming files the glob does not denote — hidden ones,
    ones with another extension, ones elsewhere — never changes what the glob denotes. -/
theorem C05_only_matches_matter (cs cs' : List (Name × Node)) (pat : Pattern) (hp : pat ≠ [])
    (h : ∀ v : Visit, «matches» pat v.1 v.2 = true → hidden v.1 = false → (v ∈ entries (.dir cs) ↔ v ∈ entries (.dir cs')))
    (v : Visit) : v ∈ expandGlob (.dir cs) pat ↔ v ∈ expandGlob (.dir cs') pat := by
  rw [C05_exact cs pat hp v, C05_exact cs' pat hp v]
  exact ⟨fun ⟨a, b, c⟩ => ⟨(h v b c).1 a, b, c⟩, fun ⟨a, b, c⟩ => ⟨(h v b c).2 a, b, c⟩⟩

/-- `SpokFile.expandGlobs` for one pattern: `hasGlob` treats an empty cached list as "not expanded yet" -/
def expandGlobsStep (t : Node) (pat : Pattern) (cached : List Visit) : List Visit :=
  if cached.isEmpty then expandGlob t pat else cached

/-- **C05, determinism.**  The expansion is a function of the tree and the pattern, and expanding again on an
    unchanged tree — through the cache (`hasGlob`) or not — gives the same list. -/
theorem C05_deterministic (t : Node) (pat : Pattern) :
    expandGlobsStep t pat [] = expandGlob t pat ∧
    expandGlobsStep t pat (expandGlobsStep t pat []) = expandGlob t pat := by
  constructor
  · simp [expandGlobsStep]
  · simp only [expandGlobsStep, List.isEmpty_nil, if_true]
    split <;> rfl

/-! ## the judge accepts the model -/

theorem sameSet_iff (a b : List Path) : sameSet a b = true ↔ ∀ x, x ∈ a ↔ x ∈ b := by
  simp only [sameSet, Bool.and_eq_true, List.all_eq_true, List.contains_iff_mem]
  constructor
  · rintro ⟨h1, h2⟩ x; exact ⟨h1 x, h2 x⟩
  · intro h; exact ⟨fun x hx => (h x).1 hx, fun x hx => (h x).2 hx⟩

theorem judge_accepts_model (cs : List (Name × Node)) (pat : Pattern) (hp : pat ≠ []) :
    c05 (.dir cs) pat (expandGlob (.dir cs) pat) (expandGlob (.dir cs) pat) (expandGlob (.dir cs) pat) = true := by
  simp only [c05, Bool.and_eq_true, beq_self_eq_true, and_true, sameSet_iff]
  intro p
  simp only [observedFiles, expectedFiles, List.mem_map, List.mem_filter]
  constructor
  · rintro ⟨v, ⟨hv, hf⟩, rfl⟩
    obtain ⟨p, d⟩ := v
    simp only [Bool.not_eq_eq_eq_not, Bool.not_true] at hf
    subst hf
    obtain ⟨h1, h2, h3⟩ := (C05_files cs pat hp p).1 hv
    exact ⟨(p, false), ⟨h1, by simp [h2, h3]⟩, rfl⟩
  · rintro ⟨v, ⟨hv, hc⟩, rfl⟩
    obtain ⟨p, d⟩ := v
    simp only [Bool.and_eq_true, Bool.not_eq_eq_eq_not, Bool.not_true] at hc
    obtain ⟨⟨hd, hm⟩, hh⟩ := hc
    subst hd
    exact ⟨(p, false), ⟨(C05_files cs pat hp p).2 ⟨hv, hm, hh⟩, by simp⟩, rfl⟩

/-- the judge rejects an expansion that omits a matching file or includes another one -/
theorem judge_rejects_wrong_set (t : Node) (pat : Pattern) (obs o2 o3 : List Visit) (p : Path)
    (h : ¬ (p ∈ observedFiles obs ↔ p ∈ expectedFiles t pat)) : c05 t pat obs o2 o3 = false := by
  cases hc : c05 t pat obs o2 o3 with
  | false => rfl
  | true =>
    simp only [c05, Bool.and_eq_true, sameSet_iff] at hc
    exact absurd (hc.1.1 p) h

/-! ## non-vacuity: the D4 witness tree and friends (all by kernel evaluation) -/

abbrev early : Name := ['-', 'e', 'a', 'r', 'l', 'y', '.', 'x']
abbrev eslintrc : Name := ['.', 'e', 's', 'l', 'i', 'n', 't', 'r', 'c', '.', 'x']
abbrev mainx : Name := ['m', 'a', 'i', 'n', '.', 'x']
abbrev sub : Name := ['s', 'u', 'b']
abbrev sx : Name := ['s', '.', 'x']
abbrev dotgit : Name := ['.', 'g', 'i', 't']

/-- `{-early.x, .eslintrc.x, main.x}` (sorted as `ReadDir` lists them) -/
def d4 : Node := .dir [(early, .file), (eslintrc, .file), (mainx, .file)]

def starX : Pattern := [.glob [.one .star, .one (.lit '.'), .one (.lit 'x')]]          -- `*.x`
def dstarStarX : Pattern := [.dstar, .glob [.one .star, .one (.lit '.'), .one (.lit 'x')]]  -- `**/*.x`

-- the patterns above are what the parser makes of the strings
example : Pattern.parse ['*', '.', 'x'] = some starX := by decide
example : Pattern.parse ['*', '*', '/', '*', '.', 'x'] = some dstarStarX := by decide
-- an escaped star is a literal star
example : Pattern.parse ['a', '\\', '*', '*'] = some [.glob [.one (.lit 'a'), .one (.lit '*'), .one .star]] := by decide
-- outside the subset: a character class, a backslash with nothing to escape, an empty segment, `***`
example : Pattern.parse ['[', 'a', ']', '*'] = none := by decide
example : Pattern.parse ['a', '*', '\\'] = none := by decide
example : Pattern.parse ['a', '/', '/', '*'] = none := by decide
example : Pattern.parse ['a', '*', '*', '*'] = none := by decide
-- `task.New`: `?ain.x` is not a glob, `*.x` is
example : isGlob ['?', 'a', 'i', 'n', '.', 'x'] = false ∧ isGlob ['*', '.', 'x'] = true := by decide

-- the code as it is now: `main.x` is there, the hidden file is not
example : expandGlob d4 starX = [([early], false), ([mainx], false)] := by decide
example : expandGlob d4 dstarStarX = [([early], false), ([mainx], false)] := by decide
-- the pinned callback (`SkipDir` for a hidden file) lost `main.x` (defect D4) …
example : run legacyCallback d4 starX = [([early], false)] := by decide
example : run legacyCallback d4 dstarStarX = [([early], false)] := by decide
-- … and the judge rejects that observation while accepting the repaired one
example : c05 d4 starX [([early], false)] [([early], false)] [([early], false)] = false := by decide
example : c05 d4 starX (expandGlob d4 starX) (expandGlob d4 starX) (expandGlob d4 starX) = true := by decide
-- the judge insists on the repeated expansions being the same list
example : c05 d4 starX (expandGlob d4 starX) [([mainx], false), ([early], false)] (expandGlob d4 starX) = false := by decide

/-- `{.git/s.x, main.x, sub/.git/s.x, sub/s.x}` and an empty directory `sub/sub` -/
def t2 : Node := .dir [(dotgit, .dir [(sx, .file)]), (mainx, .file),
  (sub, .dir [(dotgit, .dir [(sx, .file)]), (sx, .file), (sub, .dir [])])]

-- only a *leading* dot hides: `sub/.git/s.x` is in the expansion, `.git/s.x` is not; the hidden directory
-- does not hide its later siblings
example : expandGlob t2 dstarStarX =
    [([mainx], false), ([sub, sx], false), ([sub, dotgit, sx], false)] := by decide
-- matching *directories* are kept (the judge looks at files only, the correspondence at everything)
example : expandGlob t2 [.glob [.one (.lit 's'), .one .star], .dstar] =
    [([sub], true), ([sub, dotgit], true), ([sub, dotgit, sx], false), ([sub, sx], false), ([sub, sub], true)] := by decide
-- a segment followed by `/` denotes a directory: `*/**` does not denote the regular file `main.x`
example : «matches» [.glob [.one .star], .dstar] [mainx] false = false ∧
          «matches» [.glob [.one .star], .dstar] [sub] true = true := by decide
-- two `**`: the same path is visited once per way of matching it — the expansion is a set, not a multiset
example : expandGlob t2 [.dstar, .dstar] ≠ (expandGlob t2 [.dstar, .dstar]).eraseDups := by decide
-- the hypotheses of the theorems are met by these trees and patterns
example : starX ≠ [] ∧ dstarStarX ≠ [] := by decide

end Spok.Props.C05
