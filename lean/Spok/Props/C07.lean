import Spok.Props.C06
import Spok.Lemmas.RT.Corollaries
import Spok.Lemmas.ParseTreeOK
import Spok.Lemmas.WfSelfDec
/-! # Property C07 — formatting never changes what a spokfile does, and its output always parses

For EVERY byte string that parses, the text the formatter produces for its tree
* decodes to exactly the runes the formatter wrote (`format_selfDec`: the formatter only ever puts ASCII
  literals after the token texts it copies, and every such text is a slice of the input that ended in
  front of an ASCII rune or the end of input),
* is an admissible layout of the normalised tree (`renders_format`, using `parse_wf`: every tree the
  parser returns satisfies `wfTree`), hence parses without error to `norm t` (C06),
* and `norm t` differs from `t` only in the spelling of comments and docstrings: same variables with the
  same values, same tasks with the same dependencies, outputs and command lines, in the same order. -/
namespace Spok.Props.C07
open Spok

/-- print, then parse: no error, the normalised tree — for every well-formed tree -/
theorem print_parse (t : Tree) (h : wfTree t = true) : parseRunes (format t) = ⟨norm t, none⟩ :=
  Spok.print_parse C06.C06 h

/-- every tree the parser returns is well formed (`Lemmas/ParseTreeOK.lean`) -/
theorem parse_wf (rs : List Rune) (h : (parseRunes rs).fail = none) : wfTree (parseRunes rs).tree = true :=
  Spok.parse_wf' rs h

/-- normalisation only re-spells comments: variables, values, tasks, dependencies, outputs and
    command lines are untouched, for every tree -/
theorem sem_preserved (t : Tree) : sem (norm t) = sem t := sem_norm t

/-- the formatter's bytes, read back, are the formatter's runes -/
theorem format_bytes (bytes : List UInt8) (h : (parse bytes).fail = none) :
    parse (flat (format (parse bytes).tree)) = parseRunes (format (parse bytes).tree) := by
  show parseRunes (decodeAll (flat (format (parse bytes).tree))) = _
  rw [format_selfDec bytes h]

/-- **C07** (rune level): for every input that parses, the formatted text parses and means the same. -/
theorem C07_runes (rs : List Rune) (hp : (parseRunes rs).fail = none) :
    (parseRunes (format (parseRunes rs).tree)).fail = none ∧
    sem (parseRunes (format (parseRunes rs).tree)).tree = sem (parseRunes rs).tree := by
  rw [print_parse _ (parse_wf rs hp)]; exact ⟨rfl, sem_norm _⟩

/-- **C07** (byte level, full strength): for every byte string that parses, the bytes the formatter writes
    parse without error to a tree defining the same variables and tasks. -/
theorem C07 (bytes : List UInt8) (hp : (parse bytes).fail = none) :
    (parse (flat (format (parse bytes).tree))).fail = none ∧
    sem (parse (flat (format (parse bytes).tree))).tree = sem (parse bytes).tree := by
  rw [format_bytes bytes hp]
  exact C07_runes (decodeAll bytes) hp

/-- the judge accepts the model -/
theorem judge_accepts_model (bytes : List UInt8) (hp : (parse bytes).fail = none) :
    Judge.c07 (parse bytes).tree (.ok (parse (flat (format (parse bytes).tree))).tree) = true := by
  have := (C07 bytes hp).2
  simp [Judge.c07, this]

/-! non-vacuity -/
example : wfTree Fmt.exTree = true := Fmt.exTree_wf
example : sem (parseRunes (format Fmt.exTree)).tree = sem Fmt.exTree := by
  rw [print_parse _ Fmt.exTree_wf]; exact sem_norm _

/-! ## any number of formattings

The statement above is about ONE formatting.  A user formats a file many times (an editor hook, a CI job): `fmtB` is one
`spok --fmt` on bytes, `fmtN n` is `n` of them in a row.  The tree read back after one formatting is exactly `norm t`; a
second formatting writes the same bytes; hence after any number of formattings the file parses and means what it meant. -/

/-- one formatting of a byte string, as `spok --fmt` does it -/
def fmtB (bytes : List UInt8) : List UInt8 := flat (format (parse bytes).tree)

/-- `n` formattings in a row -/
def fmtN : Nat → List UInt8 → List UInt8
  | 0, b => b
  | n + 1, b => fmtN n (fmtB b)

/-- the tree read back from the formatted bytes is exactly the normalised tree: the precise statement of what one
    formatting does to the structure -/
theorem fmt_tree (bytes : List UInt8) (hp : (parse bytes).fail = none) :
    parse (fmtB bytes) = ⟨norm (parse bytes).tree, none⟩ := by
  have hw : wfTree (parse bytes).tree = true := parse_wf (decodeAll bytes) hp
  unfold fmtB
  rw [format_bytes bytes hp, print_parse _ hw]

/-- a second formatting writes the bytes of the first -/
theorem fmtB_fmtB (bytes : List UInt8) (hp : (parse bytes).fail = none) : fmtB (fmtB bytes) = fmtB bytes := by
  show flat (format (parse (fmtB bytes)).tree) = _
  rw [fmt_tree bytes hp]
  show flat (format (norm (parse bytes).tree)) = flat (format (parse bytes).tree)
  rw [Spok.format_norm]

/-- after the first formatting, any number of further ones parse and change nothing -/
theorem fmtN_fmtB (bytes : List UInt8) (hp : (parse bytes).fail = none) (n : Nat) :
    (parse (fmtN n (fmtB bytes))).fail = none ∧ fmtN n (fmtB bytes) = fmtB bytes := by
  induction n with
  | zero => exact ⟨by show (parse (fmtB bytes)).fail = none; rw [fmt_tree bytes hp], rfl⟩
  | succ n ih =>
    show (parse (fmtN n (fmtB (fmtB bytes)))).fail = none ∧ fmtN n (fmtB (fmtB bytes)) = fmtB bytes
    rw [fmtB_fmtB bytes hp]; exact ih

/-- the tree read back after any number of formattings is the normalised tree of the original -/
theorem fmtN_tree (bytes : List UInt8) (hp : (parse bytes).fail = none) (n : Nat) :
    parse (fmtN n (fmtB bytes)) = ⟨norm (parse bytes).tree, none⟩ := by
  rw [(fmtN_fmtB bytes hp n).2]; exact fmt_tree bytes hp

/-- **C07, any number of times**: for every input that parses and every `n`, the file after `1 + n` formattings parses
    and defines the same variables and tasks as the original. -/
theorem C07_iter (bytes : List UInt8) (hp : (parse bytes).fail = none) (n : Nat) :
    (parse (fmtN n (fmtB bytes))).fail = none ∧
    sem (parse (fmtN n (fmtB bytes))).tree = sem (parse bytes).tree := by
  rw [fmtN_tree bytes hp n]; exact ⟨rfl, sem_norm _⟩

/-- the example text parses (evaluated by the kernel), so the hypothesis of the iterated statements is met by it -/
theorem exText_parses : (parse (flat (format Fmt.exTree))).fail = none := by decide +kernel

/-- non-vacuity of the iterated statement: three formattings of the example tree's text -/
example : sem (parse (fmtN 2 (fmtB (flat (format Fmt.exTree))))).tree = sem (parse (flat (format Fmt.exTree))).tree :=
  (C07_iter _ exText_parses 2).2

end Spok.Props.C07
