import Spok.Props.C06
import Spok.Lemmas.RT.Corollaries
/-! # Property C07 — formatting never changes what a spokfile does, and its output always parses

For every tree `t` satisfying `wfTree` (`Syntax/WF.lean`: the executable description of the trees the
parser can return) the formatter's text parses without error to the normalised tree `norm t`, which
differs from `t` only in the spelling of comments and docstrings; in particular it defines the same
variables with the same values and the same tasks with the same dependencies, outputs and commands,
in the same order (`sem`).

What is still OPEN is `parse_wf`: *every tree the parser returns satisfies `wfTree`*.  Until it is
proved the theorems below carry `wfTree t = true` as a hypothesis (hence `…_partial`), and the oracle
evaluates `wfTree` — and re-checks `parse (format t) = norm t` — on every tree the implementation
produces in every run (verdicts `WF`, `NORM`). -/
namespace Spok.Props.C07
open Spok

/-- print, then parse: no error, the normalised tree — for every well-formed tree -/
theorem print_parse (t : Tree) (h : wfTree t = true) : parseRunes (format t) = ⟨norm t, none⟩ :=
  Spok.print_parse C06.C06 h

/-- normalisation only re-spells comments: variables, values, tasks, dependencies, outputs and
    command lines are untouched, for every tree -/
theorem sem_preserved (t : Tree) : sem (norm t) = sem t := sem_norm t

/-- **C07** for every well-formed tree: the formatted text parses, and means the same.
    Missing for the full property: `parse_wf` (see the header). -/
theorem C07_partial (t : Tree) (h : wfTree t = true) :
    (parseRunes (format t)).fail = none ∧ sem (parseRunes (format t)).tree = sem t := by
  rw [print_parse t h]; exact ⟨rfl, sem_norm t⟩

/-- the same starting from an input: if it parses to a well-formed tree, the formatted text parses to a
    tree with the same meaning -/
theorem C07_from_input_partial (rs : List Rune) (hp : (parseRunes rs).fail = none)
    (hw : wfTree (parseRunes rs).tree = true) :
    (parseRunes (format (parseRunes rs).tree)).fail = none ∧
    sem (parseRunes (format (parseRunes rs).tree)).tree = sem (parseRunes rs).tree :=
  C07_partial _ hw

/-- the judge accepts the model on well-formed trees -/
theorem judge_accepts_model_partial (t : Tree) (h : wfTree t = true) :
    Judge.c07 t (.ok (parseRunes (format t)).tree) = true := by
  rw [print_parse t h]; simp [Judge.c07, sem_norm]

/-! non-vacuity -/
example : wfTree Fmt.exTree = true := Fmt.exTree_wf
example : sem (parseRunes (format Fmt.exTree)).tree = sem Fmt.exTree := (C07_partial _ Fmt.exTree_wf).2

end Spok.Props.C07
