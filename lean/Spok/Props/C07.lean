import Spok.Judge.Syntax
/-! # Property C07 — theorems (under construction) -/
namespace Spok.Props.C07
end Spok.Props.C07
