import Spok.Props.C06
import Spok.Lemmas.RT.Corollaries
import Spok.Lemmas.ParseTreeOK
import Spok.Lemmas.WfSelfDec
/-! # Property C07 — formatting never changes what a spokfile does, and its output always parses

For EVERY byte string that parses, the text the formatter produces for its tree
* decodes to exactly the runes the formatter wrote (`format_selfDec`: the formatter only ever puts ASCII
  literals after the token texts it copies, and every such text is a slice of the input that ended in
  front of an ASCII rune or the end of input),
* is an admissible layout of the normalised tree (`renders_format`, using `parse_wf`: every tree the
  parser returns satisfies `wfTree`), hence parses without error to `norm t` (C06),
* and `norm t` differs from `t` only in the spelling of comments and docstrings: same variables with the
  same values, same tasks with the same dependencies, outputs and command lines, in the same order. -/
namespace Spok.Props.C07
open Spok

/-- print, then parse: no error, the normalised tree — for every well-formed tree -/
theorem print_parse (t : Tree) (h : wfTree t = true) : parseRunes (format t) = ⟨norm t, none⟩ :=
  Spok.print_parse C06.C06 h

/-- every tree the parser returns is well formed (`Lemmas/ParseTreeOK.lean`) -/
theorem parse_wf (rs : List Rune) (h : (parseRunes rs).fail = none) : wfTree (parseRunes rs).tree = true :=
  Spok.parse_wf' rs h

/-- normalisation only re-spells comments: variables, values, tasks, dependencies, outputs and
    command lines are untouched, for every tree -/
theorem sem_preserved (t : Tree) : sem (norm t) = sem t := sem_norm t

/-- the formatter's bytes, read back, are the formatter's runes -/
theorem format_bytes (bytes : List UInt8) (h : (parse bytes).fail = none) :
    parse (flat (format (parse bytes).tree)) = parseRunes (format (parse bytes).tree) := by
  show parseRunes (decodeAll (flat (format (parse bytes).tree))) = _
  rw [format_selfDec bytes h]

/-- **C07** (rune level): for every input that parses, the formatted text parses and means the same. -/
theorem C07_runes (rs : List Rune) (hp : (parseRunes rs).fail = none) :
    (parseRunes (format (parseRunes rs).tree)).fail = none ∧
    sem (parseRunes (format (parseRunes rs).tree)).tree = sem (parseRunes rs).tree := by
  rw [print_parse _ (parse_wf rs hp)]; exact ⟨rfl, sem_norm _⟩

/-- **C07** (byte level, full strength): for every byte string that parses, the bytes the formatter writes
    parse without error to a tree defining the same variables and tasks. -/
theorem C07 (bytes : List UInt8) (hp : (parse bytes).fail = none) :
    (parse (flat (format (parse bytes).tree))).fail = none ∧
    sem (parse (flat (format (parse bytes).tree))).tree = sem (parse bytes).tree := by
  rw [format_bytes bytes hp]
  exact C07_runes (decodeAll bytes) hp

/-- the judge accepts the model -/
theorem judge_accepts_model (bytes : List UInt8) (hp : (parse bytes).fail = none) :
    Judge.c07 (parse bytes).tree (.ok (parse (flat (format (parse bytes).tree))).tree) = true := by
  have := (C07 bytes hp).2
  simp [Judge.c07, this]

/-! non-vacuity -/
example : wfTree Fmt.exTree = true := Fmt.exTree_wf
example : sem (parseRunes (format Fmt.exTree)).tree = sem Fmt.exTree := by
  rw [print_parse _ Fmt.exTree_wf]; exact sem_norm _

end Spok.Props.C07
