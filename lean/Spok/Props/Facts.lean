import Spok.Syntax.Printer
import Spok.Lemmas.LexGraph
/-! # Expectations over the regenerated facts (`Generated/Facts.lean`, `Generated/Unicode.lean`)

These are proof obligations that tie constants of the Go source and tables of the Go toolchain to the
model: when a constant changes in a way the proofs depend on, one of these stops checking. -/
namespace Spok.Props.Facts
open Spok Spok.Generated

set_option maxRecDepth 100000 in
/-- the model's ASCII fast path for letters agrees with Go's Letter table -/
theorem ascii_letter_table : ∀ c, c < 128 → inTable Unicode.letter c = asciiLetter c := by decide +kernel

set_option maxRecDepth 100000 in
/-- the model's ASCII fast path for punctuation agrees with Go's Punct table -/
theorem ascii_punct_table : ∀ c, c < 128 → inTable Unicode.punct c = asciiPunct c := by decide +kernel

set_option maxRecDepth 100000 in
/-- U+FFFD (what an invalid byte and a read at end of input decode to) is not a letter -/
theorem runeError_not_letter : isLetterCp 0xFFFD = false := by decide +kernel

/-- the token spellings the lexer model hard-codes are the ones `token.Type.String()` returns -/
theorem token_names : Facts.tokenNames = TT.all.map TT.name := by decide

/-- the printer's literals are the ones spelled in ast/ast.go -/
theorem printer_literals :
    Facts.litCommentString = ["", "# ", "\n", ""] ∧ Facts.litStringString = ["\"", "\""] ∧
    Facts.litAssignString = [" := ", "\n"] ∧
    Facts.litTaskString = ["task ", "(", ", ", ")", " -> ", "(", ", ", ")", " {\n", "    ", "\n", "}\n\n"] ∧
    Facts.litFunctionString = ["(", ", ", ")"] ∧ Facts.litTreeWrite = ["", "#\n"] := by decide

/-- the model never takes a transition outside `nextTags` … -/
theorem lexer_model_graph (l : L) (t : Tag) : (stepTag l t).2 ∈ nextTags t := stepTag_next l t

/-- … and `nextTags` is, state function by state function, exactly the set of state functions the Go
    source of `lexXxx` returns (extracted from the AST of lexer/lexer.go on every run; `nil` and error
    returns are the ends of the scan on both sides): a new or removed transition in the Go lexer breaks this. -/
theorem lexer_graph_matches_source :
    Tag.live.all (fun t => goEdges Facts.lexReturns t == some (modelEdges t)) = true := by decide

/-- every state function of the Go lexer is modelled (nothing but `unexpectedToken`, which only reports an
    error, is left over) -/
theorem lexer_functions_all_modelled :
    (Facts.lexReturns.map (·.1)).filter (fun f => !(Tag.live.map Tag.goName).contains f) = ["unexpectedToken"] := by decide

end Spok.Props.Facts
