import Spok.Syntax.Printer
/-! # Expectations over the regenerated facts (`Generated/Facts.lean`, `Generated/Unicode.lean`)

These are proof obligations that tie constants of the Go source and tables of the Go toolchain to the
model: when a constant changes in a way the proofs depend on, one of these stops checking. -/
namespace Spok.Props.Facts
open Spok Spok.Generated

set_option maxRecDepth 100000 in
/-- the model's ASCII fast path for letters agrees with Go's Letter table -/
theorem ascii_letter_table : ∀ c, c < 128 → inTable Unicode.letter c = asciiLetter c := by decide +kernel

set_option maxRecDepth 100000 in
/-- the model's ASCII fast path for punctuation agrees with Go's Punct table -/
theorem ascii_punct_table : ∀ c, c < 128 → inTable Unicode.punct c = asciiPunct c := by decide +kernel

set_option maxRecDepth 100000 in
/-- U+FFFD (what an invalid byte and a read at end of input decode to) is not a letter -/
theorem runeError_not_letter : isLetterCp 0xFFFD = false := by decide +kernel

/-- the token spellings the lexer model hard-codes are the ones `token.Type.String()` returns -/
theorem token_names : Facts.tokenNames = TT.all.map TT.name := by decide

/-- the printer's literals are the ones spelled in ast/ast.go -/
theorem printer_literals :
    Facts.litCommentString = ["", "# ", "\n", ""] ∧ Facts.litStringString = ["\"", "\""] ∧
    Facts.litAssignString = [" := ", "\n"] ∧
    Facts.litTaskString = ["task ", "(", ", ", ")", " -> ", "(", ", ", ")", " {\n", "    ", "\n", "}\n\n"] ∧
    Facts.litFunctionString = ["(", ", ", ")"] ∧ Facts.litTreeWrite = ["", "#\n"] := by decide

end Spok.Props.Facts
