import Spok.Props.C01
/-! # C14 — `--force` runs every selected task regardless of the cache, and does not damage the cache -/
namespace Spok.Props.C14
open Spok.Run Spok.Judge.Run

variable (digest : Items → Digest)

/-- **C14, the decision.** Under `--force` the skip test is false in every state: whatever the cache holds, whatever changed. -/
theorem C14_force_never_skips (s : St) (t : TaskIn) (hf : s.force = true) : skipTest digest s t = false :=
  force_never_skips digest s t hf

/-- **C14, first half.** A forced invocation (from any world: after any history, any cache contents) that returns results
    has run every selected task, and reports no skip. -/
theorem C14_force_runs_all (w : World) (order : List Name) (fails : Name → Bool) (crashAt : Option Nat)
    (hdone : (runInv digest w true order fails crashAt).pc = .finished) :
    (∀ e ∈ (runInv digest w true order fails crashAt).out, isRun e = true) ∧
    (∀ t ∈ order, (t, Out.ranOk) ∈ (runInv digest w true order fails crashAt).out ∨
                  (t, Out.ranFail) ∈ (runInv digest w true order fails crashAt).out) := by
  have hF := runInv_finv digest w true order fails crashAt (by rw [runInv, iter_force]; rfl)
  have hT := (runInv_tinv digest w true order fails crashAt).2.2
  simp only [TPc, hdone] at hT
  refine ⟨hF.1, fun t ht => ?_⟩
  rcases hF.2 t ht with h | ⟨⟨n, o⟩, he, h1, h2⟩
  · rw [hT] at h; simp at h
  · simp only at h1; subst h1
    cases o with
    | skipped => simp [isRun] at h2
    | ranOk => exact .inl he
    | ranFail => exact .inr he

/-- a forced invocation that is not killed and meets neither a damaged cache nor an unreadable dependency does finish -/
theorem C14_forced_run_finishes (w : World) (order : List Name) (fails : Name → Bool)
    (hd : w.disk ≠ .corrupt) (hr : ∀ t ∈ order, (w.inp t).isSome = true) :
    (runInv digest w true order fails none).pc = .finished := by
  have ht := runInv_terminal digest w true order fails
  have hc := (cacheError_only_corrupt digest w true order fails (fuel order.length)).2
  -- no task of the todo list is unreadable, so `hashError` is never entered
  have hh := iter_preserves digest (fun s => (∀ u ∈ s.todo, u.readable = true) ∧ s.pc ≠ .hashError)
    (fun s ⟨h1, h2⟩ => by
      refine ⟨?_, ?_⟩
      · intro u hu
        cases step_shape digest s with
        | quiet _ htodo _ => rw [htodo] at hu; exact h1 u hu
        | skip t' rest' _ hto' _ _ _ htodo _ => rw [htodo] at hu; exact h1 u (by rw [hto']; exact List.mem_cons_of_mem _ hu)
        | exec _ _ _ _ _ _ htodo _ => rw [htodo] at hu; exact h1 u hu
        | next t' rest' _ hto' _ htodo _ => rw [htodo] at hu; exact h1 u (by rw [hto']; exact List.mem_cons_of_mem _ hu)
      · unfold step
        split <;> rename_i hpc
        · split <;> simp
        · simp
        · simp
        · split
          · simp
          · rename_i t rest hto
            have := h1 t (by simp [hto])
            simp [this]
            split
            · simp [hpc]
            · split <;> simp
        · simp
        · split <;> simp
        · split
          · simp
          · split <;> simp
        · split <;> simp
        · exact h2
        · exact h2
        · exact h2)
    (fuel order.length) (initSt w true order fails)
    ⟨by
      intro u hu
      simp only [initSt, List.mem_map] at hu
      obtain ⟨n, hn, rfl⟩ := hu
      have := hr n hn
      unfold mkTask
      split
      · rfl
      · rename_i h; simp [h] at this, by simp [initSt]⟩
  have hh' : (runInv digest w true order fails none).pc ≠ .hashError := hh.2
  cases hp : (runInv digest w true order fails none).pc <;> simp [hp, Pc.terminal] at ht hh' ⊢
  exact hd (hc hp)

/-- **C14, second half.** A forced run does not damage the cache: `C01_skip_sound` quantifies over histories in which any
    invocation may be forced (first run, after failures, after cache removal …), and the ghost it refers to is updated by
    forced successes like any other. Restated here for the record. -/
theorem C14_forced_history_sound {s : St} (hr : Reach digest false s) (t : TaskIn) (rest : List TaskIn)
    (hpc : s.pc = .decide) (hto : s.todo = t :: rest) (hskip : skipTest digest s t = true) :
    s.last t.name = some t.inp.items ∨ ∃ i j : Items, i ≠ j ∧ digest i = digest j :=
  C01.C01_skip_sound digest hr t rest hpc hto hskip

/-- **C14, observable form.** The judge accepts every history the model produces, or exhibits a collision. -/
theorem C14_judge_accepts (h : History) :
    c14 (runHistory digest World.init h).2 = true ∨ ∃ i j : Items, i ≠ j ∧ digest i = digest j := by
  by_cases hc : Collision digest
  · exact .inr hc
  · left
    unfold c14
    rw [hist_c14 digest h _ _, hist_c01 digest hc h _ _ (winv_init digest) sync_init]
    rfl

/-! ## non-vacuity -/

def inpV1 : Name → Option Inputs := fun t => if t = 3 then some ⟨0, []⟩ else some ⟨0, [(0, 1)]⟩
def inpV2 : Name → Option Inputs := fun t => if t = 3 then some ⟨0, []⟩ else some ⟨0, [(0, 2)]⟩
def noFail : Name → Bool := fun _ => false

def traces (r : World × ObservedHistory) : List (Bool × Outcome × List (Name × Out)) :=
  r.2.filterMap fun | .invoke f _ tr oc _ => some (f, oc, tr) | _ => none

/-- an up-to-date task is skipped unforced, runs forced (together with a file-less task), and is skipped again afterwards:
    the forced run recorded the digest like any other -/
example : traces (runHistory natDigest World.init
    [.edit inpV1, .invoke false [0] noFail none, .invoke false [0] noFail none, .invoke true [0, 3] noFail none,
     .invoke false [0] noFail none])
    = [(false, .done, [(0, .ranOk)]), (false, .done, [(0, .skipped)]), (true, .done, [(0, .ranOk), (3, .ranOk)]),
       (false, .done, [(0, .skipped)])] := by decide

/-- the D1 `--force` witness: run on v1, edit, force on v2, revert to v1: must run (last success was on v2) -/
example : traces (runHistory natDigest World.init
    [.edit inpV1, .invoke false [0] noFail none, .edit inpV2, .invoke true [0] noFail none, .edit inpV1,
     .invoke false [0] noFail none])
    = [(false, .done, [(0, .ranOk)]), (true, .done, [(0, .ranOk)]), (false, .done, [(0, .ranOk)])] := by decide

/-- the hypothesis of `C14_force_runs_all` is met by a forced first run and by a forced run on a populated cache -/
example : (runInv natDigest World.init true [0, 3] noFail none).pc = .finished := by rfl
example : (runInv natDigest (runHistory natDigest World.init [.edit inpV1, .invoke false [0] noFail none]).1 true [0, 3] noFail none).pc
    = .finished := by rfl

/-- the judge rejects a skip under `--force` and a selected task that did not run -/
example : c14 [.edit inpV1, .invoke false [0] [(0, .ranOk)] .done .valid, .invoke true [0] [(0, .skipped)] .done .valid] = false := by
  decide
example : c14 [.edit inpV1, .invoke true [0, 3] [(0, .ranOk)] .done .valid] = false := by decide

end Spok.Props.C14
