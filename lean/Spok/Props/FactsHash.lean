import Spok.Generated.Facts
/-! # Expectations over the regenerated facts (`Generated/Facts.lean`) — what the hasher is made of (C04, C18)

The models of these functions (`Spok/Hash.lean`, `Spok/Glob.lean`, `Spok/Find.lean`) stand for particular library calls:
SHA-256 over the content and over the path, a stable sort on bytewise comparison, `strings.Contains(_, "*")` as THE test
that makes a string a glob, `doublestar.GlobWalk` over `os.DirFS` with the hidden-entry filter `strings.HasPrefix(_, ".")`,
`os.ReadDir` per directory on the way up and `filepath.Rel` for "above".  Which library calls the Go source makes (calls of
imported packages, error construction left out, and the string literals without blanks) is extracted from its AST on every
run; another hash function, another sort, another glob test, `Lstat` for `ReadDir` … stop these from checking. -/
namespace Spok.Props.FactsHash
open Spok Spok.Generated

/-- hash/hash.go: SHA-256 (streamed over the content, one-shot elsewhere), `bytes.Compare` under `sort.Stable`, the items
    joined, the digest in hex; one worker per CPU -/
theorem hasher_made_of :
    Facts.hashPkgCalls = ["bytes.Compare", "bytes.Join", "hex.EncodeToString", "io.Copy", "os.Open", "runtime.NumCPU",
      "sha256.New", "sha256.Sum256", "sort.Stable"] := by decide

end Spok.Props.FactsHash
