import Spok.Lemmas.RunHist
/-! # C01 — a task is never skipped unless its inputs equal those of its last success

All theorems are about the machine `Spok.Run.step` / `runHistory` for an arbitrary `digest` (never assumed injective:
conclusions are "… ∨ an explicit collision"), over ALL histories: any length, any number of tasks, any interleaving of
edits, cache removals, forced / failing / multi-task invocations, and kills after any number of micro-steps. -/
namespace Spok.Props.C01
open Spok.Run Spok.Judge.Run

variable (digest : Items → Digest)

/-- every state met in any history (including after kills) satisfies the soundness invariant -/
theorem reach_inv {s : St} (h : Reach digest false s) : Inv digest s := by
  induction h with
  | start h _ force order fails =>
    exact inv_init digest _ force order fails (winv_history digest h _ (winv_init digest))
  | step _ ih => exact step_inv digest _ ih

/-- **C01.** Whenever, in any history whatsoever, the machine is about to report task `t` skipped, the files `t`'s commands
    last completed successfully on — with the cache not removed since — are exactly its current dependency files;
    or else two different file sets have the same digest. -/
theorem C01_skip_sound {s : St} (hr : Reach digest false s) (t : TaskIn) (rest : List TaskIn)
    (_hpc : s.pc = .decide) (_hto : s.todo = t :: rest) (hskip : skipTest digest s t = true) :
    s.last t.name = some t.inp.items ∨ ∃ i j : Items, i ≠ j ∧ digest i = digest j :=
  skip_sound digest s (reach_inv digest hr) t hskip

/-- **C01, observable form.** The judge (ghost replay of what a bystander observes, no cache model) accepts every history
    the model produces — or exhibits a digest collision. -/
theorem C01_judge_accepts (h : History) :
    c01 (runHistory digest World.init h).2 = true ∨ ∃ i j : Items, i ≠ j ∧ digest i = digest j := by
  by_cases hc : Collision digest
  · exact .inr hc
  · exact .inl (hist_c01 digest hc h _ _ (winv_init digest) sync_init)

/-- **C09 (cache clause).** A failing task leaves its recorded digest and its ghost entry as they were: from the decision
    to run a task whose commands fail, at most 5 micro-steps later the machine is at the next task with the same
    cache contents (in memory and on disk) and the same ghost; the log gained exactly `ranFail`. -/
theorem C09_failure_not_recorded (s : St) (t : TaskIn) (rest : List TaskIn)
    (hpc : s.pc = .decide) (hto : s.todo = t :: rest) (hr : t.readable = true) (hfail : t.ok = false)
    (hns : skipTest digest s t = false) (hdk : s.disk = .valid s.mem) :
    ∃ k, k ≤ 5 ∧
      (iter digest k s).pc = .decide ∧ (iter digest k s).todo = rest ∧
      (∀ u, (iter digest k s).mem u = s.mem u) ∧ (iter digest k s).last = s.last ∧
      (iter digest k s).disk = .valid (iter digest k s).mem ∧
      (iter digest k s).out = s.out ++ [(t.name, .ranFail)] := by
  cases hm : s.mem t.name with
  | none =>
    refine ⟨3, by omega, ?_⟩
    simp [iter, step, hpc, hto, hr, hns, hm, hfail, recorded, res, hdk]
  | some d =>
    refine ⟨5, by omega, ?_⟩
    simp [iter, step, hpc, hto, hr, hns, hm, hfail, recorded, res]
    intro u
    unfold upd
    split
    · rename_i e; rw [e, hm]
    · rfl

theorem judgeWith_mono {p q : Ghost → OEvent → Bool} (hpq : ∀ g e, p g e = true → q g e = true) :
    ∀ (g : Ghost) (oh : ObservedHistory), judgeWith p g oh = true → judgeWith q g oh = true
  | _, [], _ => rfl
  | g, e :: es, h => by
    simp only [judgeWith, Bool.and_eq_true] at h ⊢
    exact ⟨hpq g e h.1, judgeWith_mono hpq _ es h.2⟩

/-- **C09, observable form (run loop).** The judge of the run engine's C09 clause — the report never contradicts what ran,
    and no later skip of a task without the ghost agreeing — accepts every history the model produces, or exhibits a
    digest collision. -/
theorem C09_judge_accepts (h : History) :
    c09 (runHistory digest World.init h).2 = true ∨ ∃ i j : Items, i ≠ j ∧ digest i = digest j := by
  rcases C01_judge_accepts digest h with h1 | hc
  · left
    unfold c09
    unfold c01 at h1
    rw [h1, Bool.and_true]
    refine judgeWith_mono ?_ _ _ h1
    intro g e he
    cases e <;> simp_all [c01Ev, c09Ev]
  · exact .inr hc

/-! ## non-vacuity: concrete histories (digest = `natDigest`) -/

/-- task 0 depends on one file (path 0, content 1), then content 2 -/
def inpV1 : Name → Option Inputs := fun _ => some ⟨0, [(0, 1)]⟩
def inpV2 : Name → Option Inputs := fun _ => some ⟨0, [(0, 2)]⟩
def noFail : Name → Bool := fun _ => false
def allFail : Name → Bool := fun _ => true

/-- run, run again: the second run reports a skip (so the hypotheses of `C01_skip_sound` are met by a real skip) -/
def hSkip : History := [.edit inpV1, .invoke false [0] noFail none]

example : ∃ s t rest, Reach natDigest false s ∧ s.pc = .decide ∧ s.todo = t :: rest ∧ skipTest natDigest s t = true :=
  ⟨_, _, _, .step (.start hSkip (by simp) false [0] noFail), rfl, rfl, by decide⟩

example : (runHistory natDigest World.init (hSkip ++ [.invoke false [0] noFail none])).2.getLast?
    = some (.invoke false [0] [(0, .skipped)] .done .valid) := by rfl

/-- edit, revert: run on v1, edit to v2 and force, revert to v1, run: NOT skipped (the D1 witness of DESIGN §6) -/
example : ((runHistory natDigest World.init
    [.edit inpV1, .invoke false [0] noFail none, .edit inpV2, .invoke true [0] noFail none,
     .edit inpV1, .invoke false [0] noFail none]).2.getLast?)
    = some (.invoke false [0] [(0, .ranOk)] .done .valid) := by rfl

/-- a failing run meets the hypotheses of `C09_failure_not_recorded`: after a success on v1, edit, fail on v2 -/
example : ∃ s t rest, Reach natDigest false s ∧ s.pc = .decide ∧ s.todo = t :: rest ∧ t.readable = true ∧ t.ok = false ∧
    skipTest natDigest s t = false ∧ s.disk = .valid s.mem ∧ s.mem t.name = some (natDigest [(0, 1)]) :=
  ⟨_, _, _, .step (.start (hSkip ++ [.edit inpV2]) (by simp) false [0] allFail), rfl, rfl, rfl, rfl, by decide, rfl, rfl⟩

/-- … and the failing run is observed as such, after which reverting to v1 is skipped again (the digest of v1 survived) -/
example : ((runHistory natDigest World.init
    (hSkip ++ [.edit inpV2, .invoke false [0] allFail none, .edit inpV1, .invoke false [0] noFail none])).2.drop 3)
    = [.invoke false [0] [(0, .ranFail)] .done .valid, .edit inpV1, .invoke false [0] [(0, .skipped)] .done .valid] := by
  rfl

example : c01 (runHistory natDigest World.init
    (hSkip ++ [.edit inpV2, .invoke false [0] allFail none, .edit inpV1, .invoke false [0] noFail (some 2)])).2 = true := by
  decide

/-- the corner where C02 and the last sentence of C09 pull apart (DESIGN §12): success on v1, a FORCED run on the same v1
    whose command fails, then a plain run — skipped: the last successful completion was on exactly these inputs (what
    C02 demands), and the failure recorded nothing (what the run loop's part of C09 says) -/
example : ((runHistory natDigest World.init
    (hSkip ++ [.invoke true [0] allFail none, .invoke false [0] noFail none])).2.drop 2)
    = [.invoke true [0] [(0, .ranFail)] .done .valid, .invoke false [0] [(0, .skipped)] .done .valid] := by
  rfl

/-- the judge is not trivially true: a fabricated observation with an unjustified skip is rejected -/
example : c01 [.edit inpV1, .invoke false [0] [(0, .ranOk)] .done .valid, .edit inpV2,
    .invoke false [0] [(0, .skipped)] .done .valid] = false := by decide

end Spok.Props.C01
