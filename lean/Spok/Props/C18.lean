import Spok.Lemmas.Hash
import Spok.Lemmas.HashPool
import Spok.Lemmas.HashJudge
/-! # Property C18 — hashing any path list returns cleanly: no crash, deadlock, race or leak

**PARTIAL BY NATURE.** What is proved is the *channel protocol* of `hash.Concurrent.Hash` (`Spok.HashPool`: feeder,
`min(NumCPU, len(files))` workers, waiter, main; unbuffered channels as rendezvous), for every list of jobs (empty, one,
thousands, duplicates, directories, unreadable entries — an entry is just a job that yields an item, an error or
nothing), every number of CPUs ≥ 1 and **every** interleaving:

* `pool_progress`, `pool_no_leak` — no reachable state is stuck unless *every* goroutine of the call has returned
  (no deadlock, no goroutine left blocked for ever);
* `pool_terminates`, `pool_schedule_bound` — a measure strictly decreases on every step, so every schedule is finite;
* `pool_result` — when main leaves its receive loop all workers have returned and main has received exactly the
  multiset of results that had to arrive, whatever the schedule and worker count;
* `unreadable_is_error`, `pool_unreadable_is_error` — an unreadable member makes the outcome an error, never a digest;
* "no crash": the model is a total function / relation with no `.panic` outcome because the repaired worker has no
  partial operation left (the pinned code's `f.Stat()` on a nil file, DESIGN §6 D12, is gone; the harness keeps the
  witness in its corpus and observes crashes through child processes).

What is **not expressible** in this model and therefore not proved: freedom from *data races* (the Go memory model) and
the behaviour of the *real scheduler and kernel* (file reads, files vanishing while read). Those parts are supported
only by the correspondence runs: child-process crash observation, goroutine-count accounting, schedule perturbation
through `hash.VerifYield`, GOMAXPROCS ∈ {1,2,4,16}, restricted CPU affinity, and `-race` builds in the thorough tier. -/
namespace Spok.Props.C18
open Spok.Hash Spok.HashPool Spok.Judge.Hash

variable {ρ : Type}

/-- no deadlock: as long as main has not left its receive loop some goroutine can move -/
theorem pool_progress {ncpu : Nat} (hcpu : 0 < ncpu) {jobs : List (Option ρ)} {s : St ρ}
    (hr : Reachable ncpu jobs s) (hf : ¬ final s) : ∃ s', Step s s' :=
  progress_of_inv (inv_of_reachable hcpu hr) (fun h => hf h.1)

/-- no leak: the *only* reachable states without a successor are those where every goroutine (main, feeder, waiter,
    every worker) has returned — nobody stays blocked on a channel for ever -/
theorem pool_no_leak {ncpu : Nat} (hcpu : 0 < ncpu) {jobs : List (Option ρ)} {s : St ρ}
    (hr : Reachable ncpu jobs s) (hf : ¬ allReturned s) : ∃ s', Step s s' :=
  progress_of_inv (inv_of_reachable hcpu hr) hf

/-- every step strictly decreases the measure: no schedule is infinite -/
theorem pool_terminates {s s' : St ρ} (st : Step s s') : measure s' < measure s :=
  measure_decreases st

/-- every schedule of a call on `n` paths has at most `4n + min(ncpu, n) + 3` steps -/
theorem pool_schedule_bound (ncpu : Nat) (jobs : List (Option ρ)) {k : Nat} {s : St ρ}
    (h : Steps k (init ncpu jobs) s) : k ≤ 4 * jobs.length + nWorkers ncpu jobs.length + 3 := by
  have := steps_bound h
  rw [measure_init] at this
  omega

/-- when main leaves the loop all workers have returned, `results` is closed, every path was sent, and the received
    results are, as a multiset, exactly the expected ones — the same for every schedule and every worker count -/
theorem pool_result {ncpu : Nat} (hcpu : 0 < ncpu) {jobs : List (Option ρ)} {s : St ρ}
    (hr : Reachable ncpu jobs s) (hf : final s) :
    allWorkersDone s ∧ s.resultsClosed = true ∧ s.todo = [] ∧ s.acc.Perm (expected jobs) :=
  result_of_inv (inv_of_reachable hcpu hr) hf

/-- from every reachable state some schedule leads to a state where all goroutines have returned (with
    `pool_terminates`: every maximal schedule does); in particular final states exist for every input -/
theorem pool_can_finish {ncpu : Nat} (hcpu : 0 < ncpu) {jobs : List (Option ρ)} :
    ∀ {s : St ρ}, Reachable ncpu jobs s → ∃ s', Reachable ncpu jobs s' ∧ allReturned s' := by
  suffices h : ∀ n (s : St ρ), measure s = n → Reachable ncpu jobs s → ∃ s', Reachable ncpu jobs s' ∧ allReturned s' by
    intro s hr; exact h _ s rfl hr
  intro n
  induction n using Nat.strongRecOn with
  | _ n ih =>
    intro s hm hr
    by_cases hf : allReturned s
    · exact ⟨s, hr, hf⟩
    · obtain ⟨s', st⟩ := pool_no_leak hcpu hr hf
      exact ih (measure s') (hm ▸ measure_decreases st) s' rfl (.step hr st)

/-- an unreadable member makes the call an error — never a digest (the function) -/
theorem unreadable_is_error (sha : Bytes → Bytes) {files : List (Path × Entry)} {p : Path}
    (h : (p, Entry.unreadable) ∈ files) : digest sha files = .error .unreadable :=
  digest_error_of_unreadable sha h

/-- … and so it is for every schedule and worker count of the pool -/
theorem pool_unreadable_is_error (sha : Bytes → Bytes) {ncpu : Nat} (hcpu : 0 < ncpu) {files : List (Path × Entry)}
    {p : Path} (h : (p, Entry.unreadable) ∈ files) {s : St Res}
    (hr : Reachable ncpu (files.map (jobResult sha)) s) (hf : final s) :
    finish sha s.acc = .error .unreadable := by
  have hp := (pool_result hcpu hr hf).2.2.2
  have he : expected (files.map (jobResult sha)) = results sha files := by
    simp [expected, results, List.filterMap_map]
  rw [he] at hp
  rw [finish_perm sha hp]
  exact unreadable_is_error sha h

/-- a list without unreadable members yields a digest, never an error (for every schedule: `C04_schedule_independent`) -/
theorem readable_is_digest (sha : Bytes → Bytes) {files : List (Path × Entry)}
    (h : ∀ pe ∈ files, pe.2 ≠ .unreadable) : ∃ d, digest sha files = .ok d :=
  digest_ok_of_readable sha h

/-- the judge accepts what the model does, for every group of lists: a digest or an error, an error whenever a member
    cannot be opened or read, nothing left behind -/
theorem C18_judge_accepts_model (sha : Bytes → Bytes) (vs : List (Rel × Obs)) :
    c18 (vs.map fun v => modelRun sha v.1 v.2) false = true := by
  simp only [c18, Bool.not_false, Bool.true_and]
  apply List.all_eq_true.mpr
  intro r hr
  obtain ⟨v, _, rfl⟩ := List.mem_map.mp hr
  have hret : ([outOf (digest sha (filesOf v.2))]).all Out.returned = true := by
    cases digest sha (filesOf v.2) <;> simp [outOf, Out.returned]
  cases hu : (v.2.map (·.1)).any Kind.unreadable with
  | false => simp [modelRun, hu, hret]
  | true =>
    obtain ⟨p, hp⟩ := unreadable_mem hu
    simp [modelRun, hu, digest_error_of_unreadable sha hp, outOf, Out.returned]

/-! ## non-vacuity, and why the hypothesis `0 < ncpu` is there -/

/-- reachable, not yet final states exist (pool_progress / pool_no_leak are not vacuous): the initial state -/
example : Reachable 2 [some 7, none, some 8] (init 2 [some 7, none, some 8]) ∧ ¬ final (init 2 [some 7, none, some 8]) :=
  ⟨.init, by simp [final, init]⟩
/-- steps exist (pool_terminates): the first send of that call, to the second worker, of a job that yields a result -/
example : Step (init 2 [some 7, none, some 8])
    { (init 2 [some 7, none, some 8]) with todo := [none, some 8], workers := [.idle, .holding 7] } :=
  .send _ (some 7) [none, some 8] [.idle] [] rfl rfl
/-- schedules exist (pool_schedule_bound): the three steps of the empty call in the order close-results, main-exit,
    close-jobs — main returns before the feeder has closed `jobs`, and the feeder still returns afterwards -/
example : Steps 3 (init 4 ([] : List (Option Nat)))
    { (init 4 []) with resultsClosed := true, mainDone := true, jobsClosed := true } :=
  .cons (.closeResults _ (by simp [init, nWorkers]) rfl) (.cons (.mainExit _ rfl rfl) (.cons (.closeJobs _ rfl rfl) (.refl _)))
/-- final reachable states exist for every input and every `ncpu ≥ 1` (pool_result, pool_unreadable_is_error) -/
example (ncpu : Nat) (hcpu : 0 < ncpu) (jobs : List (Option ρ)) : ∃ s, Reachable ncpu jobs s ∧ final s := by
  obtain ⟨s, hr, hf⟩ := pool_can_finish hcpu (Reachable.init (ncpu := ncpu) (jobs := jobs))
  exact ⟨s, hr, hf.1⟩
/-- lists with an unreadable member, and lists without, exist -/
example : (([2] : Path), Entry.unreadable) ∈ [(([1] : Path), Entry.regular []), ([2], .unreadable), ([3], .dir)] := by decide
example : ∀ pe ∈ [(([1] : Path), Entry.regular []), ([3], .dir)], pe.2 ≠ Entry.unreadable := by decide
/-- `0 < ncpu` (i.e. at least one worker for a non-empty list) cannot be dropped: with no worker the state after
    close-results and main-exit is reachable, main is gone, and the feeder is blocked for ever on its first send —
    a leaked goroutine. This is what an off-by-one in `min(NumCPU, len(files))` would cause. -/
example : ∃ s : St Nat, Reachable 0 [some 1] s ∧ final s ∧ ¬ allReturned s ∧ ¬ ∃ s', Step s s' := by
  refine ⟨{ (init 0 [some 1]) with resultsClosed := true, mainDone := true },
    .step (.step .init (.closeResults _ (by simp [init, nWorkers]) rfl)) (.mainExit _ rfl rfl), rfl, ?_, ?_⟩
  · intro h; exact absurd h.2.1 (by simp [init])
  · rintro ⟨s', st⟩
    cases st with
    | send j rest l₁ l₂ htd hw => simp [init, nWorkers] at hw
    | closeJobs htd hjc => simp [init] at htd
    | exit l₁ l₂ hjc hw => simp [init] at hjc
    | recv r l₁ l₂ hw hmd => simp at hmd
    | closeResults hall hrc => simp at hrc
    | mainExit hrc hmd => simp at hmd

end Spok.Props.C18
