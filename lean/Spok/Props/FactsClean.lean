import Spok.Generated.Facts

/-! # Expectations over the regenerated facts (`Generated/Facts.lean`) — `--clean` (C12, C19)

Proof obligations that tie the Go source as it is NOW (facts extracted from its AST on every run) to the model: when the
source changes in a way the model depends on, one of these stops checking. -/
namespace Spok.Props.FactsClean
open Spok Spok.Generated

/-! ## `--clean`: the guard is consulted before anything is removed, and compares physical paths (D8, D14) -/

/-- in `App.clean` every call of the guard precedes the (single) removal call, and there is no other way to remove -/
theorem clean_guard_before_removal :
    Facts.cleanCalls = ["containsSpokfile", "os.RemoveAll"] := by decide

/-- the guard takes both of its paths through `physical` before relating them, and `physical` resolves the directory
    part and keeps the last element (`Clean.SpokFile.phys`) -/
theorem guard_compares_physical_paths :
    Facts.guardCalls = ["physical", "physical", "filepath.Rel"] ∧
    Facts.physicalCalls = ["filepath.Clean", "filepath.EvalSymlinks", "filepath.Dir", "filepath.Join", "filepath.Base"] := by
  decide

end Spok.Props.FactsClean
