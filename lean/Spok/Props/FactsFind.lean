import Spok.Generated.Facts
/-! # Expectations over the regenerated facts (`Generated/Facts.lean`) — what `file.Find` is made of (C17)

The models of these functions (`Spok/Hash.lean`, `Spok/Glob.lean`, `Spok/Find.lean`) stand for particular library calls:
SHA-256 over the content and over the path, a stable sort on bytewise comparison, `strings.Contains(_, "*")` as THE test
that makes a string a glob, `doublestar.GlobWalk` over `os.DirFS` with the hidden-entry filter `strings.HasPrefix(_, ".")`,
`os.ReadDir` per directory on the way up and `filepath.Rel` for "above".  Which library calls the Go source makes (calls of
imported packages, error construction left out, and the string literals without blanks) is extracted from its AST on every
run; another hash function, another sort, another glob test, `Lstat` for `ReadDir` … stop these from checking. -/
namespace Spok.Props.FactsFind
open Spok Spok.Generated

/-- `file.Find`: one `os.ReadDir` per directory, `filepath.Dir` to climb; "above" is `filepath.Rel` + a `..` prefix test -/
theorem find_made_of :
    Facts.findCalls = ["os.ReadDir", "filepath.Abs", "filepath.Join", "filepath.Dir"] ∧
    Facts.isAboveCalls = ["filepath.Rel", "strings.HasPrefix"] := by decide

end Spok.Props.FactsFind
