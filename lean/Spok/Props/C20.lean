import Spok.App
import Spok.Lemmas.App
import Spok.Judge.Cli
/-! # C20 — reports and listings are a faithful, complete account of spokfile and run

"With --json, a run in which no command fails prints to standard output a single JSON document listing exactly
the tasks of the run in execution order, each with its skipped flag and, for every executed command, its
interpolated text, exact standard output, standard error and exit status; with --quiet standard output is
empty.  --show lists every defined task once, sorted by name, with its docstring, and --vars every variable
with its evaluated value.  Invoking spok without task names runs the task named default when one exists and
lists the tasks otherwise."

Decision tables about `Spok.App` (`jsonDoc`/`decode`, `stdoutOf`, `showRows`, `varsRows`, `action`).  They say
that the *document* is a lossless, order-preserving image of the results and that the dispatch is as stated;
that the results are what really ran is not a theorem but the tie: `vh-cli` compares the document printed by
the real binary with the side-effect log and the scripted outputs of the commands (`Spok.Judge.Cli.c20`). -/
namespace Spok.Props.C20
open Spok.App

/-- **C20 (json).**  The document is ONE value from which exactly the results of the run can be read back:
    the same tasks in the same (execution) order, each with its skipped flag and, per command, text, stdout,
    stderr and status. -/
theorem C20_json (rs : List Result) : decode (jsonDoc rs) = some rs := by
  have := optMap_map decodeResult resultJson id decodeResult_resultJson rs
  simpa [decode, jsonDoc] using this

/-- two runs with the same document had the same results: nothing is lost or merged -/
theorem C20_json_injective (rs rs' : List Result) (h : jsonDoc rs = jsonDoc rs') : rs = rs' := by
  have h1 := C20_json rs
  rw [h, C20_json rs'] at h1
  exact (Option.some.inj h1).symm

/-- with `--json`, a run in which no command fails prints exactly that document — for every other flag setting
    (`--force`, `--debug`, even `--quiet`) and for the default task as for named ones -/
theorem C20_json_printed (o : Options) (a : Action) (ha : a.isRun = true) (tasks vars : List (String × String))
    (rs : List Result) (hj : o.json = true) (hok : ∀ r ∈ rs, ∀ c ∈ r.cmds, c.status = 0) :
    stdoutOf o a tasks vars (some rs) = .json (jsonDoc rs) := by
  have hf : firstFailing rs = none := firstFailing_none rs hok
  cases a <;> simp_all [Action.isRun, stdoutOf, runStdout]

/-- **C20 (quiet).**  With `--quiet` (and without `--json`, which prints its document regardless) standard
    output is empty: for every action, every world, whatever ran and however it ended. -/
theorem C20_quiet (o : Options) (args : List String) (w : World) (tasks vars : List (String × String))
    (ran : Option (List Result)) (hq : o.quiet = true) (hj : o.json = false) :
    stdoutOf o (action o args w) tasks vars ran = .empty := by
  have hn : nullStream o = true := by simp [nullStream, hq]
  generalize action o args w = a
  cases a <;> simp [stdoutOf, hn]
  all_goals (cases ran <;> simp [runStdout, hn, hj])

/-- the two flags together: the document still goes to the real stdout (the property's clauses contradict each
    other here; the check compares this combination with the model and does not judge it) -/
theorem C20_quiet_json_prints (o : Options) (a : Action) (ha : a.isRun = true) (tasks vars : List (String × String))
    (rs : List Result) (_hq : o.quiet = true) (hj : o.json = true) (hok : firstFailing rs = none) :
    stdoutOf o a tasks vars (some rs) = .json (jsonDoc rs) := by
  cases a <;> simp_all [Action.isRun, stdoutOf, runStdout]

/-- **C20 (show).**  The rows of `--show` are a rearrangement of the defined tasks (every task listed, none
    invented, each row carrying that task's docstring), sorted by name; and since task names are unique (the
    keys of a map) the names are strictly increasing: each task is listed exactly once. -/
theorem C20_show (tasks : List (String × String)) :
    (showRows tasks).Perm tasks ∧
    (showRows tasks).Pairwise (fun a b => a.1 ≤ b.1) ∧
    (∀ row, row ∈ showRows tasks ↔ row ∈ tasks) ∧
    ((tasks.map (·.1)).Nodup → ((showRows tasks).map (·.1)).Pairwise (· < ·)) := by
  have hperm : (showRows tasks).Perm tasks := List.mergeSort_perm tasks byName
  have hsort : (showRows tasks).Pairwise (fun a b => a.1 ≤ b.1) := by
    have := List.pairwise_mergeSort byName_trans byName_total tasks
    simpa [byName, showRows] using this
  refine ⟨hperm, hsort, fun row => hperm.mem_iff, fun hnd => ?_⟩
  have hnd' : ((showRows tasks).map (·.1)).Nodup := (hperm.map (·.1)).nodup_iff.mpr hnd
  have hs' : ((showRows tasks).map (·.1)).Pairwise (· ≤ ·) := by
    rw [List.pairwise_map]; exact hsort
  have hne : ((showRows tasks).map (·.1)).Pairwise (· ≠ ·) := hnd'
  have := hs'.and hne
  refine this.imp ?_
  intro a b ⟨hle, hne⟩
  exact Std.lt_of_le_of_ne hle hne

/-- `--vars`: the same statement for (name, evaluated value) rows -/
theorem C20_vars (vars : List (String × String)) :
    (varsRows vars).Perm vars ∧ (varsRows vars).Pairwise (fun a b => a.1 ≤ b.1) ∧
    (∀ row, row ∈ varsRows vars ↔ row ∈ vars) :=
  let h := C20_show vars
  ⟨h.1, h.2.1, h.2.2.1⟩

/-- what is printed is those rows: `--show` (and the listing fall-back) print the task rows, `--vars` the variable rows -/
theorem C20_rows_printed (o : Options) (tasks vars : List (String × String)) (ran : Option (List Result))
    (hv : nullStream o = false) :
    stdoutOf o .show tasks vars ran = .taskRows (showRows tasks) ∧
    stdoutOf o .list tasks vars ran = .taskRows (showRows tasks) ∧
    stdoutOf o .vars tasks vars ran = .varRows (varsRows vars) := by
  simp [stdoutOf, hv]

/-- **C20 (default).**  No task names, no action flag, a spokfile that is found, parses and loads: the task
    named `default` is what is run when there is one, and the tasks are listed otherwise. -/
theorem C20_default (o : Options) (w : World)
    (hflags : o.init = false ∧ (o.quiet && o.debug) = false ∧ o.fmt = false ∧ o.vars = false ∧ o.clean = false ∧ o.show = false)
    (hw : w.ok o = true) :
    action o [] w = defaultDispatch w.hasDefault ∧
    (w.hasDefault = true → action o [] w = .runDefault ∧ requested (action o [] w) = ["default"]) ∧
    (w.hasDefault = false → action o [] w = .list ∧ requested (action o [] w) = []) := by
  obtain ⟨hi, hqd, hf, hv, hc, hs⟩ := hflags
  have hp : prepare o w = none := (prepare_none_iff o w).mpr hw
  have ha : action o [] w = defaultDispatch w.hasDefault := by
    simp [action, hi, hqd, hp, dispatch, hf, hv, hc, hs, defaultDispatch]
  rw [ha]
  refine ⟨rfl, ?_, ?_⟩ <;> intro hd <;> simp [defaultDispatch, hd, requested]

/-- with task names the named tasks are what is requested, never the default task -/
theorem C20_named (o : Options) (w : World) (t : String) (ts : List String)
    (hflags : o.init = false ∧ (o.quiet && o.debug) = false ∧ o.fmt = false ∧ o.vars = false ∧ o.clean = false ∧ o.show = false)
    (hw : w.ok o = true) : requested (action o (t :: ts) w) = t :: ts := by
  obtain ⟨hi, hqd, hf, hv, hc, hs⟩ := hflags
  have hp : prepare o w = none := (prepare_none_iff o w).mpr hw
  simp [action, hi, hqd, hp, dispatch, hf, hv, hc, hs, requested]

/-! ## non-vacuity -/

def c1 : CmdResult := ⟨"echo hello", "hello\n", "", 0⟩
def c2 : CmdResult := ⟨"echo e >&2", "", "e\n", 0⟩
def run1 : List Result := [⟨"gen", [c1, c2], false⟩, ⟨"lint", [], true⟩, ⟨"default", [c1], false⟩]

example : decode (jsonDoc run1) = some run1 := C20_json run1
example : ∀ r ∈ run1, ∀ c ∈ r.cmds, c.status = 0 := by decide
example : (stdoutOf { quiet := true } (action { quiet := true } [] { hasDefault := true }) [] [] (some run1)).isEmpty = true := by decide
example : showRows [("lint", "Second doc"), ("build", ""), ("default", "X")] = [("build", ""), ("default", "X"), ("lint", "Second doc")] := by
  simp [showRows, List.mergeSort, List.MergeSort.Internal.splitInTwo, List.splitAt, List.splitAt.go, byName]
example : action {} [] { hasDefault := true } = .runDefault ∧ action {} [] {} = .list ∧ action { force := true } ["x"] {} = .run ["x"] := by decide
example : (World.ok {} {}) = true := by decide

/-- the judge on an observed `--json` run of `build` (depends on `gen`): the document must list `gen` then `build`
    with the scripted output; a document that drops the dependency is rejected -/
example :
    let tasks : List Spok.Judge.Cli.TaskSpec :=
      [⟨"gen", "", [], [], [⟨"echo o0x0", "echo o0x0", "o0x0\n", "", 0⟩]⟩, ⟨"build", "Doc", ["gen"], [], [⟨"echo o1x0", "echo o1x0", "o1x0\n", "", 0⟩]⟩]
    let ctx : Spok.Judge.Cli.Ctx :=
      { tasks := tasks, vars := [], opts := { json := true }, args := ["build"], world := {}, cwd := "proj", spokfile := some "proj/spokfile" }
    let good : List Result := [⟨"gen", [⟨"echo o0x0", "o0x0\n", "", 0⟩], false⟩, ⟨"build", [⟨"echo o1x0", "o1x0\n", "", 0⟩], false⟩]
    let ob (rs : List Result) : Spok.Judge.Cli.Obs :=
      { exit := 0, outEmpty := false, json := .doc rs, taskRows := [], varRows := [], log := [(0, 0), (1, 0)], diff := [], report := "" }
    Spok.Judge.Cli.c20 ctx (ob good) = .ok ∧ Spok.Judge.Cli.c20 ctx (ob (good.drop 1)) = .fail ∧
    Spok.Judge.Cli.c20 ctx (ob good.reverse) = .fail := by
  decide

end Spok.Props.C20
