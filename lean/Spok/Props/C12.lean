import Spok.Lemmas.PathClean
import Spok.Judge.Env
/-! # Property C12 — `--clean` removes exactly the declared outputs and the cache, never the project

Statements are about the model `Spok.Clean` (`handleClean`, `runClean`) of `cli/app/app.go`; the tie to the
real binary is the correspondence run of `bin/check C12` (snapshot of a sandbox before / after `spok --clean`).

Vocabulary: `Designated sf cwd d` — `d` is a path designated by a declared output (literal joined with the
spokfile's directory, value of a named variable, a file the walk reported for an output glob — all made
absolute the way `filepath.Abs` does, and then taken to where they REALLY are: `sf.phys`, the resolution of the
symbolic links in the directory part, which is what the guard `containsSpokfile` compares since the repair of D14
and what the operating system does with the argument of `os.RemoveAll`; `PhysOk sf` — that resolution returns clean
absolute paths, nothing else is assumed about it) or the cache directory; `pathOf d <+: e.1` — the entry `e` is `d` or lies
below it; `protectedPath sf p` — `p` is the spokfile, its directory or an ancestor. -/
namespace Spok.Props.C12
open Spok.Clean Spok.Judge.Env

/-! ## exactness -/

/-- **C12_exact.** Without a user-defined `clean` task, a successful `--clean` leaves exactly the entries of the
    old tree that are neither a designated path nor below one (same order, same kind, same content), and
    the arguments of spok's `os.RemoveAll` calls are exactly the designated paths. -/
theorem C12_exact (sf : SpokFile) (cwd : Str) (fs : FS) (run : FS → FS × Bool)
    (hno : sf.hasTask cleanName = false) (hok : (handleClean sf cwd fs run).err = none) :
    (handleClean sf cwd fs run).fs = expectedAfter fs (designatedList sf cwd) ∧
    (handleClean sf cwd fs run).removed = designatedList sf cwd := by
  have h : handleClean sf cwd fs run = runClean sf cwd fs := by simp [handleClean, hno]
  rw [h] at hok ⊢
  obtain ⟨_, _, h3, h4⟩ := runClean_ok hok
  exact ⟨h3, h4⟩

/-- the same as a statement about membership: `fs' = fs \ ⋃ {subtree d | d designated (incl. the cache dir)}` -/
theorem C12_exact_mem (sf : SpokFile) (cwd : Str) (fs : FS) (run : FS → FS × Bool)
    (hno : sf.hasTask cleanName = false) (hok : (handleClean sf cwd fs run).err = none) (e : Path × Kind) :
    e ∈ (handleClean sf cwd fs run).fs ↔ e ∈ fs ∧ ¬ ∃ d, Designated sf cwd d ∧ pathOf d <+: e.1 := by
  rw [(C12_exact sf cwd fs run hno hok).1, mem_expectedAfter]
  constructor
  · rintro ⟨h1, h2⟩
    exact ⟨h1, fun ⟨d, hd, hp⟩ => h2 ⟨d, mem_designatedList.2 hd, hp⟩⟩
  · rintro ⟨h1, h2⟩
    exact ⟨h1, fun ⟨d, hd, hp⟩ => h2 ⟨d, mem_designatedList.1 hd, hp⟩⟩

/-- nothing is added or modified, ever: the new tree is a sublist of the old one
    (an entry carries its kind and content) — with or without error, for spok's own cleaning -/
theorem C12_nothing_else (sf : SpokFile) (cwd : Str) (fs : FS) : (runClean sf cwd fs).fs.Sublist fs := by
  by_cases h : (runClean sf cwd fs).err = none
  · rw [(runClean_ok h).2.2.1]; exact List.filter_sublist
  · rw [(runClean_err_fs sf cwd fs h).1]; exact List.Sublist.refl _

/-- **exactness is not vacuous**: whenever every named output is defined and no designated path is
    protected the clean succeeds (a designated path below a regular file is simply absent: repair 85950c0) — and then `C12_exact` applies. -/
theorem C12_exact_succeeds (sf : SpokFile) (cwd : Str) (fs : FS)
    (hdef : ∀ t ∈ sf.tasks, ∀ n ∈ t.namedOutputs, ∃ v, lookupVar sf.vars n = some v)
    (hsafe : ∀ d ∈ designatedList sf cwd, containsSpokfile d sf.path = false) :
    (runClean sf cwd fs).err = none := by
  have hstat : ∀ d ∈ designatedList sf cwd, statErr fs (pathOf d) = false := fun _ _ => rfl
  unfold runClean
  rw [targets_total hdef hstat]
  have : (designatedList sf cwd).find? (fun t => containsSpokfile t sf.path) = none := by
    apply List.find?_eq_none.2
    intro d hd
    simp [hsafe d hd]
  simp [this]

/-! ## the project is never removed -/

/-- `protectedPath` says what it should: for a spokfile in the (clean, absolute) directory `dir`, a path is
    protected iff it is `dir/spokfile`, `dir` itself, or a directory above `dir`. -/
theorem protectedPath_iff (sf : SpokFile) (hd : CleanAbs sf.dir) (p : Path) :
    protectedPath sf p = true ↔ p = pathOf sf.dir ++ [spokfileName] ∨ p <+: pathOf sf.dir := by
  have hn : Proper spokfileName := ⟨by decide, by decide, by decide, by decide⟩
  unfold protectedPath SpokFile.path
  rw [within_iff, pathOf_join_name hd hn]
  exact List.prefix_concat_iff

/-- **C12_protected.** For *any* outputs, variables, globs and working directory (absolute paths for the
    spokfile's directory and the cwd): (1) every entry that is the spokfile, its directory or an ancestor
    survives spok's own cleaning, and (2) if some designated path is one of those, the result is an error and
    the tree is untouched (`fs' = fs`, no `RemoveAll` issued). -/
theorem C12_protected (sf : SpokFile) (cwd : Str) (fs : FS) (hd : isAbs sf.dir = true) (hc : isAbs cwd = true)
    (hph : PhysOk sf) :
    (∀ e ∈ fs, protectedPath sf e.1 = true → e ∈ (runClean sf cwd fs).fs) ∧
    ((∃ d, Designated sf cwd d ∧ protectedPath sf (pathOf d) = true) →
      (runClean sf cwd fs).err ≠ none ∧ (runClean sf cwd fs).fs = fs ∧ (runClean sf cwd fs).removed = []) := by
  constructor
  · intro e he hp
    by_cases h : (runClean sf cwd fs).err = none
    · obtain ⟨_, hsafe, hfs, _⟩ := runClean_ok h
      rw [hfs, mem_expectedAfter]
      refine ⟨he, ?_⟩
      rintro ⟨d, hdm, hpre⟩
      have hdes := mem_designatedList.1 hdm
      have h1 := hsafe d hdm
      rw [containsSpokfile_designated hd hc hph hdes] at h1
      have : protectedPath sf (pathOf d) = true := by
        unfold protectedPath at hp ⊢
        rw [within_iff] at hp ⊢
        exact List.IsPrefix.trans hpre hp
      rw [this] at h1
      exact Bool.noConfusion h1
    · rw [(runClean_err_fs sf cwd fs h).1]; exact he
  · rintro ⟨d, hdes, hp⟩
    have herr : (runClean sf cwd fs).err ≠ none := by
      intro h
      have h1 := (runClean_ok h).2.1 d (mem_designatedList.2 hdes)
      rw [containsSpokfile_designated hd hc hph hdes, hp] at h1
      exact Bool.noConfusion h1
    exact ⟨herr, runClean_err_fs sf cwd fs herr⟩

/-- `C12_protected` for the worlds the check runs in: the symbolic links of the tree given as a table (path ↦ target), `phys`
    their resolution `physOf` — no hypothesis about links is left -/
theorem C12_protected_links (dir : Str) (vars : List (Str × Str)) (tasks : List Task) (links : List (Str × Str))
    (cwd : Str) (fs : FS) (hd : isAbs dir = true) (hc : isAbs cwd = true) :
    let sf : SpokFile := ⟨dir, vars, tasks, physOf links⟩
    (∀ e ∈ fs, protectedPath sf e.1 = true → e ∈ (runClean sf cwd fs).fs) ∧
    ((∃ d, Designated sf cwd d ∧ protectedPath sf (pathOf d) = true) →
      (runClean sf cwd fs).err ≠ none ∧ (runClean sf cwd fs).fs = fs ∧ (runClean sf cwd fs).removed = []) :=
  C12_protected ⟨dir, vars, tasks, physOf links⟩ cwd fs hd hc (physOk_physOf dir vars tasks links)

/-- (1) of `C12_protected` for `--clean` as a whole when there is no user task -/
theorem C12_protected_handle (sf : SpokFile) (cwd : Str) (fs : FS) (run : FS → FS × Bool)
    (hno : sf.hasTask cleanName = false) (hd : isAbs sf.dir = true) (hc : isAbs cwd = true) (hph : PhysOk sf) :
    ∀ e ∈ fs, protectedPath sf e.1 = true → e ∈ (handleClean sf cwd fs run).fs := by
  have h : handleClean sf cwd fs run = runClean sf cwd fs := by simp [handleClean, hno]
  rw [h]
  exact (C12_protected sf cwd fs hd hc hph).1

/-! ## a user-defined clean task -/

/-- **C12_user_clean.** With a task named `clean`, spok issues no removal of its own: the tree afterwards is
    whatever running that task made of it, and the outcome is the task's. -/
theorem C12_user_clean (sf : SpokFile) (cwd : Str) (fs : FS) (run : FS → FS × Bool)
    (h : sf.hasTask cleanName = true) :
    (handleClean sf cwd fs run).removed = [] ∧
    (handleClean sf cwd fs run).fs = (run fs).1 ∧
    ((handleClean sf cwd fs run).err = none ↔ (run fs).2 = true) := by
  refine ⟨?_, ?_, ?_⟩
  · simp [handleClean, h]
  · simp [handleClean, h]
  · simp only [handleClean, h, if_true]
    cases (run fs).2 <;> simp

/-- a user-defined `clean` task that FAILS: the invocation fails and the tree is what the task's run left — spok's own
    clean is not run instead, nothing is removed by spok -/
theorem C12_user_clean_fails (sf : SpokFile) (cwd : Str) (fs : FS) (run : FS → FS × Bool)
    (hclean : sf.hasTask cleanName = true) (hfail : (run fs).2 = false) :
    (handleClean sf cwd fs run).err = some .taskFailed ∧ (handleClean sf cwd fs run).fs = (run fs).1 := by
  simp [handleClean, hclean, hfail]

theorem C12_judge_accepts_model_failing (sf : SpokFile) (cwd : Str) (fs : FS) (run : FS → FS × Bool)
    (hclean : sf.hasTask cleanName = true)
    (hrun : (run fs).2 = false ∧ (∀ e ∈ fs, e ∈ (run fs).1) ∧ ∀ e ∈ (run fs).1, e ∈ fs ∨ e.1 = pathOf sf.cacheDir) :
    c12failing sf (obsOfModel sf cwd fs run true) = true := by
  obtain ⟨h1, h2⟩ := C12_user_clean_fails sf cwd fs run hclean hrun.1
  simp only [c12failing, obsOfModel, h1, h2, Bool.and_eq_true, List.all_eq_true, Bool.or_eq_true, decide_eq_true_eq,
    List.contains_iff_mem]
  refine ⟨⟨⟨trivial, by simp⟩, fun e he => hrun.2.1 e he⟩, fun e he => ?_⟩
  rcases hrun.2.2 e he with h | h
  · exact .inl h
  · exact .inr h

/-! ## the judge accepts the model -/

/-- Whatever the model does is accepted by the executable judge `c12` (which the check run applies to what
    the *real binary* did) — under the hypotheses the judged part of the case space satisfies: absolute
    directories and a clean task that only prints (the run keeps every
    entry and adds at most the cache directory). -/
theorem C12_judge_accepts_model (sf : SpokFile) (cwd : Str) (fs : FS) (run : FS → FS × Bool)
    (hd : isAbs sf.dir = true) (hc : isAbs cwd = true) (hph : PhysOk sf)
    (hrun : (run fs).2 = true ∧ (∀ e ∈ fs, e ∈ (run fs).1) ∧ ∀ e ∈ (run fs).1, e ∈ fs ∨ e.1 = pathOf sf.cacheDir) :
    c12 sf cwd (obsOfModel sf cwd fs run (sf.hasTask cleanName)) ≠ some false := by
  by_cases hclean : sf.hasTask cleanName = true
  · have hu := C12_user_clean sf cwd fs run hclean
    have herr : (handleClean sf cwd fs run).err = none := hu.2.2.2 hrun.1
    unfold c12
    rw [if_pos hclean]
    simp only [obsOfModel, hu.2.1, herr, hclean]
    simp
    exact ⟨fun a b hab => hrun.2.1 _ hab, fun a b hab hnb => (hrun.2.2 _ hab).resolve_left hnb⟩
  · have hno : sf.hasTask cleanName = false := by simpa using hclean
    have hh : handleClean sf cwd fs run = runClean sf cwd fs := by simp [handleClean, hno]
    unfold c12
    rw [if_neg hclean]
    by_cases hdefd : definedOutputs sf = true
    · have hdef : ∀ t ∈ sf.tasks, ∀ n ∈ t.namedOutputs, ∃ v, lookupVar sf.vars n = some v := by
        intro t ht n hn
        have h1 := hdefd
        simp only [definedOutputs, List.all_eq_true] at h1
        exact Option.isSome_iff_exists.1 (h1 t ht n hn)
      rw [if_neg (by simp [hdefd])]
      simp only [obsOfModel, hh]
      by_cases hany : (designatedList sf cwd).any (fun d => protectedPath sf (pathOf d)) = true
      · -- a designated path is protected: error, nothing changed
        rw [if_pos hany]
        simp only [List.any_eq_true] at hany
        obtain ⟨d, hdm, hp⟩ := hany
        obtain ⟨h1, h2, _⟩ := (C12_protected sf cwd fs hd hc hph).2 ⟨d, mem_designatedList.1 hdm, hp⟩
        rw [h2]
        cases hr : (runClean sf cwd fs).err with
        | none => exact absurd hr h1
        | some e => cases e <;> simp
      · rw [if_neg hany]
        have hsafe : ∀ d ∈ designatedList sf cwd, containsSpokfile d sf.path = false := by
          intro d hdm
          rw [containsSpokfile_designated hd hc hph (mem_designatedList.1 hdm)]
          simp only [List.any_eq_true, not_exists, not_and] at hany
          simpa using hany d hdm
        have hok := C12_exact_succeeds sf cwd fs hdef hsafe
        rw [(runClean_ok hok).2.2.1, hok]
        simp
    · rw [if_pos (by simpa using hdefd)]
      simp

/-! ## non-vacuity: concrete projects (outputs `""`, `"."`, `".."`, an empty variable, an ordinary file) -/

section Examples

private def proj : Str := ['/', 'h', '/', 'p']
private def fileA : Str := ['a', '.', 'o']

private def tree : FS :=
  [ ([['h']], .dir), ([['h'], ['p']], .dir), ([['h'], ['p'], spokfileName], .file ['1']),
    ([['h'], ['p'], ['a', '.', 'o']], .file ['2']), ([['h'], ['p'], ['k']], .file ['3']),
    ([['h'], ['p'], cacheDirName], .dir), ([['h'], ['p'], cacheDirName, ['c']], .file ['4']),
    ([['h'], ['q']], .file ['5']) ]

private def sfWith (outs : List Str) (named : List Str) (vars : List (Str × Str)) : SpokFile :=
  ⟨proj, vars, [⟨['t'], outs, named, []⟩], id⟩

/-- an ordinary output: the file, the cache directory and its content go, everything else stays -/
example : (runClean (sfWith [fileA] [] []) proj tree).err = none ∧
    (runClean (sfWith [fileA] [] []) proj tree).fs =
      [ ([['h']], .dir), ([['h'], ['p']], .dir), ([['h'], ['p'], spokfileName], .file ['1']),
        ([['h'], ['p'], ['k']], .file ['3']), ([['h'], ['q']], .file ['5']) ] := by decide

/-- the output `""` designates the project directory: refused, tree untouched -/
example : (runClean (sfWith [[]] [] []) proj tree).err = some (.refused proj) ∧
    (runClean (sfWith [[]] [] []) proj tree).fs = tree := by decide

/-- `"."` -/
example : (runClean (sfWith [['.']] [] []) proj tree).err = some (.refused proj) := by decide

/-- `".."` designates the parent of the project -/
example : (runClean (sfWith [['.', '.']] [] []) proj tree).err = some (.refused ['/', 'h']) ∧
    (runClean (sfWith [['.', '.']] [] []) proj tree).fs = tree := by decide

/-- a named output whose variable is the empty string resolves to the working directory -/
example : (runClean (sfWith [] [['E']] [(['E'], [])]) proj tree).err = some (.refused proj) := by decide

/-- the hypotheses of `C12_protected` (2) are met by that project -/
example : ∃ d, Designated (sfWith [[]] [] []) proj d ∧ protectedPath (sfWith [[]] [] []) (pathOf d) = true :=
  ⟨_, .file (t := ⟨['t'], [[]], [], []⟩) (o := []) (by simp [sfWith]) (by simp), by decide⟩

/-- a glob output: the files the walk reported are removed -/
example : (runClean ⟨proj, [], [⟨['t'], [], [], [⟨['*', '.', 'o'], [fileA]⟩]⟩], id⟩ proj tree).fs =
      [ ([['h']], .dir), ([['h'], ['p']], .dir), ([['h'], ['p'], spokfileName], .file ['1']),
        ([['h'], ['p'], ['k']], .file ['3']), ([['h'], ['q']], .file ['5']) ] := by decide

/-- with a task named clean nothing is removed by spok, whatever the outputs say -/
example : (handleClean ⟨proj, [], [⟨cleanName, [[]], [], []⟩], id⟩ proj tree (fun fs => (fs, true))).fs = tree ∧
    (handleClean ⟨proj, [], [⟨cleanName, [[]], [], []⟩], id⟩ proj tree (fun fs => (fs, true))).removed = [] := by decide

/-- a world with a symbolic link `/h/p/up -> ..`: the path `/h/p/up/p` really is `/h/p` -/
private def physUp (s : Str) : Str := if s = ['/', 'h', '/', 'p', '/', 'u', 'p', '/', 'p'] then proj else s

/-- the output `"up/p"` leads through that link back to the project directory: refused, tree untouched (D14) -/
example : (runClean ⟨proj, [], [⟨['t'], [['u', 'p', '/', 'p']], [], []⟩], physUp⟩ proj tree).err = some (.refused proj) ∧
    (runClean ⟨proj, [], [⟨['t'], [['u', 'p', '/', 'p']], [], []⟩], physUp⟩ proj tree).fs = tree := by decide

/-- … while the link itself as an output is only a link (an entry of its own: nothing else goes) -/
example : (runClean ⟨proj, [], [⟨['t'], [['u', 'p']], [], []⟩], physUp⟩ proj tree).err = none := by decide

/-- the assumption on `phys` is met by the identity (a tree without links) -/
example : PhysOk (sfWith [fileA] [] []) := fun _ h => h

end Examples

/-! ## `--clean` under repetition -/

/-- removing the subtrees of `ds` and then those of any sub-collection `ds'` is removing the subtrees of `ds` -/
theorem expectedAfter_again (fs : FS) (ds ds' : List Str) (h : ∀ d ∈ ds', d ∈ ds) :
    expectedAfter (expectedAfter fs ds) ds' = expectedAfter fs ds := by
  unfold expectedAfter
  rw [List.filter_filter]
  apply List.filter_congr
  intro e _
  cases hds : ds.any (fun d => within (pathOf d) e.1) with
  | true => simp
  | false =>
    have : ds'.any (fun d => within (pathOf d) e.1) = false := by
      rw [List.any_eq_false] at hds ⊢
      intro d hd; exact hds d (h d hd)
    simp [this]

/-- **A second `--clean` removes nothing.**  After a successful `--clean`, another one — of the same spokfile re-read
    (`sf'`: its globs re-expanded over the cleaned tree, so they hit no more than before), from any directory — that
    designates nothing new leaves the tree exactly as the first left it: cleaning is idempotent and never "eats further"
    into the project on repetition. -/
theorem C12_second_clean_noop (sf sf' : SpokFile) (cwd cwd' : Str) (fs : FS) (run run' : FS → FS × Bool)
    (hno : sf.hasTask cleanName = false) (hno' : sf'.hasTask cleanName = false)
    (hok : (handleClean sf cwd fs run).err = none)
    (hok' : (handleClean sf' cwd' (handleClean sf cwd fs run).fs run').err = none)
    (hsub : ∀ d ∈ designatedList sf' cwd', d ∈ designatedList sf cwd) :
    (handleClean sf' cwd' (handleClean sf cwd fs run).fs run').fs = (handleClean sf cwd fs run).fs := by
  rw [(C12_exact sf' cwd' _ run' hno' hok').1, (C12_exact sf cwd fs run hno hok).1]
  exact expectedAfter_again fs _ _ hsub

/-- the special case of the very same spokfile value and directory -/
theorem C12_idempotent (sf : SpokFile) (cwd : Str) (fs : FS) (run : FS → FS × Bool)
    (hno : sf.hasTask cleanName = false) (hok : (handleClean sf cwd fs run).err = none)
    (hok' : (handleClean sf cwd (handleClean sf cwd fs run).fs run).err = none) :
    (handleClean sf cwd (handleClean sf cwd fs run).fs run).fs = (handleClean sf cwd fs run).fs :=
  C12_second_clean_noop sf sf cwd cwd fs run run hno hno hok hok' (fun _ h => h)

/-- non-vacuity of `C12_idempotent`: on the example project with the output `a.o` both cleans succeed (so every hypothesis
    holds), the first removes something, the second nothing -/
example : (handleClean (sfWith [fileA] [] []) proj tree (fun fs => (fs, true))).err = none ∧
    (handleClean (sfWith [fileA] [] []) proj (handleClean (sfWith [fileA] [] []) proj tree (fun fs => (fs, true))).fs
      (fun fs => (fs, true))).err = none ∧
    (handleClean (sfWith [fileA] [] []) proj tree (fun fs => (fs, true))).fs ≠ tree := by decide

end Spok.Props.C12
