import Spok.Lemmas.Hash
import Spok.Lemmas.HashPool
import Spok.Basic.Sha256
import Spok.Lemmas.HashJudge
/-! # Property C04 — the digest is a deterministic, change-sensitive function of the file set

Statements about the model `Spok.Hash.digest` (the function) and `Spok.HashPool` (the goroutines), for **every** hash
function `sha : Bytes → Bytes`; nothing cryptographic is assumed. Sensitivity has the reduction form
"… or here is an explicit collision of `sha`" (`Collision sha`), under the one side condition that `sha` has 32-byte
outputs, which the executable SHA-256 used by the oracle satisfies (`sha256_length`, example below).

"Collection of (path, content) pairs" is read with multiplicity (`regs`): a path listed twice is hashed twice, exactly
as the Go code does; for a fixed spokfile the list is a function of the file set, so this is the stronger reading. -/
namespace Spok.Props.C04
open Spok.Hash Spok.HashPool Spok.Judge.Hash

/-- same digest (or same error) for every ordering of the list -/
theorem C04_perm (sha : Bytes → Bytes) {l₁ l₂ : List (Path × Entry)} (h : l₁.Perm l₂) :
    digest sha l₁ = digest sha l₂ :=
  finish_perm sha (h.filterMap (jobResult sha))

/-- directories in the list are ignored, wherever they stand -/
theorem C04_dirs (sha : Bytes → Bytes) (l : List (Path × Entry)) :
    digest sha (l.filter (fun pe => pe.2 ≠ .dir)) = digest sha l := by
  have : results sha (l.filter (fun pe => pe.2 ≠ .dir)) = results sha l := by
    induction l with
    | nil => rfl
    | cons pe t ih =>
      obtain ⟨p, e⟩ := pe
      simp only [results] at ih ⊢
      cases e <;> simp_all [List.filterMap_cons]
  simp only [digest, this]

/-- appending directories changes nothing -/
theorem C04_dirs_append (sha : Bytes → Bytes) (l dirs : List (Path × Entry)) (hd : ∀ pe ∈ dirs, pe.2 = .dir) :
    digest sha (l ++ dirs) = digest sha l := by
  rw [← C04_dirs sha (l ++ dirs), ← C04_dirs sha l, List.filter_append]
  have : dirs.filter (fun pe => pe.2 ≠ .dir) = [] := by
    apply List.filter_eq_nil_iff.mpr
    intro pe hpe
    simp [hd pe hpe]
  rw [this, List.append_nil]

/-- inserting a directory anywhere changes nothing -/
theorem C04_dirs_insert (sha : Bytes → Bytes) (l₁ l₂ : List (Path × Entry)) (p : Path) :
    digest sha (l₁ ++ (p, .dir) :: l₂) = digest sha (l₁ ++ l₂) := by
  rw [← C04_dirs sha (l₁ ++ (p, .dir) :: l₂), ← C04_dirs sha (l₁ ++ l₂)]
  simp [List.filter_append]

/-- the digest depends only on the collection of (path, content) pairs of the regular files in the list -/
theorem C04_collection (sha : Bytes → Bytes) {l₁ l₂ : List (Path × Entry)}
    (h₁ : ∀ pe ∈ l₁, pe.2 ≠ .unreadable) (h₂ : ∀ pe ∈ l₂, pe.2 ≠ .unreadable)
    (h : (regs l₁).Perm (regs l₂)) : digest sha l₁ = digest sha l₂ := by
  have e₁ : l₁.any isUnreadable = false := by
    apply List.any_eq_false.mpr
    intro pe hpe; have := h₁ pe hpe
    obtain ⟨p, e⟩ := pe
    cases e <;> simp_all [isUnreadable]
  have e₂ : l₂.any isUnreadable = false := by
    apply List.any_eq_false.mpr
    intro pe hpe; have := h₂ pe hpe
    obtain ⟨p, e⟩ := pe
    cases e <;> simp_all [isUnreadable]
  simp [digest_eq, e₁, e₂, sort_eq_of_perm (h.map (itemOf sha))]

/-- two lists whose collections of regular (path, content) pairs differ have different digests — or the equality of
    the digests hands over two different byte strings with the same `sha` -/
theorem C04_sensitive {sha : Bytes → Bytes} (h32 : ∀ x, (sha x).length = 32) {l₁ l₂ : List (Path × Entry)} {d : String}
    (hd₁ : digest sha l₁ = .ok d) (hd₂ : digest sha l₂ = .ok d) (hne : ¬ (regs l₁).Perm (regs l₂)) :
    Collision sha := by
  rw [digest_eq] at hd₁ hd₂
  split at hd₁
  · cases hd₁
  split at hd₂
  · cases hd₂
  injection hd₁ with hd₁
  injection hd₂ with hd₂
  have hsha := hex_injective (hd₁.trans hd₂.symm)
  by_cases hcat : (sort ((regs l₁).map (itemOf sha))).flatten = (sort ((regs l₂).map (itemOf sha))).flatten
  · have hlen : ∀ l : List (Path × Entry), ∀ x ∈ sort ((regs l).map (itemOf sha)), x.length = 64 := by
      intro l x hx
      have hx' := (sort_perm _).mem_iff.mp hx
      obtain ⟨pc, _, rfl⟩ := List.mem_map.mp hx'
      exact item_length h32 pc.1 pc.2
    have hsort := flatten_injective_of_length (by decide : 0 < 64) (hlen l₁) (hlen l₂) hcat
    rcases perm_of_map_perm (itemOf sha) (perm_of_sort_eq hsort) with hp | ⟨x, y, hxy, hf⟩
    · exact absurd hp hne
    · exact collision_of_item_eq h32 hxy hf
  · exact ⟨_, _, hcat, hsha⟩

/-- the same as a disjunction: different collections have different digests, or `sha` has an explicit collision.
    (A hypothesis "`sha` has no collision" would be unsatisfiable for a 32-byte hash and make the statement vacuous.) -/
theorem C04_sensitive_or {sha : Bytes → Bytes} (h32 : ∀ x, (sha x).length = 32)
    {l₁ l₂ : List (Path × Entry)} {d₁ d₂ : String} (hd₁ : digest sha l₁ = .ok d₁) (hd₂ : digest sha l₂ = .ok d₂)
    (hne : ¬ (regs l₁).Perm (regs l₂)) : d₁ ≠ d₂ ∨ Collision sha := by
  by_cases h : d₁ = d₂
  · subst h
    exact .inr (C04_sensitive h32 hd₁ hd₂ hne)
  · exact .inl h

/-- changing the content of a listed file (anything else may change too) -/
theorem C04_content_change {sha : Bytes → Bytes} (h32 : ∀ x, (sha x).length = 32) {fs fs' : Path → Entry}
    {paths : List Path} {p : Path} {c c' : Bytes} {d : String} (hp : p ∈ paths)
    (hfs : fs p = .regular c) (hfs' : fs' p = .regular c') (hc : c ≠ c')
    (hd₁ : digest sha (listing fs paths) = .ok d) (hd₂ : digest sha (listing fs' paths) = .ok d) :
    Collision sha := by
  apply C04_sensitive h32 hd₁ hd₂
  intro hperm
  have h1 : (p, c) ∈ regs (listing fs paths) :=
    mem_regs.mpr (List.mem_map.mpr ⟨p, hp, by rw [hfs]⟩)
  have h2 := mem_regs.mp (hperm.mem_iff.mp h1)
  obtain ⟨q, _, hq⟩ := List.mem_map.mp h2
  injection hq with hq1 hq2
  subst hq1
  rw [hfs'] at hq2
  injection hq2 with hq2
  exact hc hq2.symm

/-- a regular file whose path occurs in one list and not in the other (the common core of add / remove / rename) -/
theorem C04_path_differs {sha : Bytes → Bytes} (h32 : ∀ x, (sha x).length = 32) {fs₁ fs₂ : Path → Entry}
    {paths₁ paths₂ : List Path} {q : Path} {c : Bytes} {d : String} (hq : q ∈ paths₂) (hfs : fs₂ q = .regular c)
    (hnew : q ∉ paths₁)
    (hd₁ : digest sha (listing fs₁ paths₁) = .ok d) (hd₂ : digest sha (listing fs₂ paths₂) = .ok d) :
    Collision sha := by
  apply C04_sensitive h32 hd₁ hd₂
  intro hperm
  have h2 : (q, c) ∈ regs (listing fs₂ paths₂) :=
    mem_regs.mpr (List.mem_map.mpr ⟨q, hq, by rw [hfs]⟩)
  have h1 := mem_regs.mp (hperm.mem_iff.mpr h2)
  obtain ⟨q', hq', he⟩ := List.mem_map.mp h1
  injection he with he1 _
  subst he1
  exact hnew hq'

/-- adding a file -/
theorem C04_add {sha : Bytes → Bytes} (h32 : ∀ x, (sha x).length = 32) {fs : Path → Entry} {pre post : List Path}
    {q : Path} {c : Bytes} {d : String} (hfs : fs q = .regular c) (hnew : q ∉ pre ++ post)
    (hd₁ : digest sha (listing fs (pre ++ post)) = .ok d) (hd₂ : digest sha (listing fs (pre ++ q :: post)) = .ok d) :
    Collision sha :=
  C04_path_differs h32 (by simp) hfs hnew hd₁ hd₂

/-- removing a file -/
theorem C04_remove {sha : Bytes → Bytes} (h32 : ∀ x, (sha x).length = 32) {fs : Path → Entry} {pre post : List Path}
    {q : Path} {c : Bytes} {d : String} (hfs : fs q = .regular c) (hnew : q ∉ pre ++ post)
    (hd₁ : digest sha (listing fs (pre ++ q :: post)) = .ok d) (hd₂ : digest sha (listing fs (pre ++ post)) = .ok d) :
    Collision sha :=
  C04_path_differs h32 (by simp) hfs hnew hd₂ hd₁

/-- renaming a file `p` to a new name `q` (`fs₂` is the file system after the rename) -/
theorem C04_rename {sha : Bytes → Bytes} (h32 : ∀ x, (sha x).length = 32) {fs₁ fs₂ : Path → Entry}
    {pre post : List Path} {p q : Path} {c : Bytes} {d : String} (hfs : fs₂ q = .regular c)
    (hnew : q ∉ pre ++ p :: post)
    (hd₁ : digest sha (listing fs₁ (pre ++ p :: post)) = .ok d)
    (hd₂ : digest sha (listing fs₂ (pre ++ q :: post)) = .ok d) :
    Collision sha :=
  C04_path_differs h32 (by simp) hfs hnew hd₁ hd₂

/-- every schedule of the worker pool, for every number of CPUs, ends with the digest of the function `digest`
    (= `Spok.Props.C18.pool_result` followed by main's sequential tail) -/
theorem C04_schedule_independent (sha : Bytes → Bytes) {ncpu : Nat} (hcpu : 0 < ncpu) (files : List (Path × Entry))
    {s : St Res} (hr : Reachable ncpu (files.map (jobResult sha)) s) (hf : final s) :
    finish sha s.acc = digest sha files := by
  have h := (result_of_inv (inv_of_reachable hcpu hr) hf).2.2.2
  have : expected (files.map (jobResult sha)) = results sha files := by
    simp [expected, results, List.filterMap_map]
  rw [this] at h
  exact finish_perm sha h

/-- the judge accepts what the model does — or `sha` has an explicit collision: for a fault-free base list, variants
    that have the same collection (`same`) and variants whose collection differs (`edit`) -/
theorem C04_judge_accepts_model {sha : Bytes → Bytes} (h32 : ∀ x, (sha x).length = 32)
    (base : Obs) (vs : List (Rel × Obs)) (hb : cleanObs base = true)
    (hsame : ∀ v ∈ vs, v.1 = .same → cleanObs v.2 = true ∧ (regs (filesOf v.2)).Perm (regs (filesOf base)))
    (hedit : ∀ v ∈ vs, v.1 = .edit → cleanObs v.2 = true → ¬ (regs (filesOf v.2)).Perm (regs (filesOf base))) :
    c04 (modelRun sha .base base :: vs.map fun v => modelRun sha v.1 v.2) = some true ∨ Collision sha := by
  by_cases hnc : Collision sha
  · exact .inr hnc
  left
  obtain ⟨db, hdb⟩ := clean_digest sha hb
  simp only [c04, modelRun_clean, hb, Bool.not_true, Bool.false_eq_true, if_false, Option.some.injEq]
  rw [Bool.and_eq_true]
  refine ⟨?_, ?_⟩
  · apply List.all_eq_true.mpr
    intro r hr
    rcases List.mem_cons.mp hr with rfl | hr
    · exact modelRun_selfOk sha _ _
    · obtain ⟨v, _, rfl⟩ := List.mem_map.mp hr
      exact modelRun_selfOk sha _ _
  · apply List.all_eq_true.mpr
    intro r hr
    obtain ⟨v, hv, rfl⟩ := List.mem_map.mp hr
    cases hrel : v.1 with
    | base => simp [Run.relOk, modelRun]
    | other => simp [Run.relOk, modelRun]
    | same =>
      obtain ⟨hc, hp⟩ := hsame v hv hrel
      have := C04_collection sha (clean_readable hc) (clean_readable hb) hp
      simp [Run.relOk, modelRun, this]
    | edit =>
      rw [Run.relOk]
      simp only [modelRun_clean]
      simp only [modelRun]
      cases hc : cleanObs v.2 with
      | false => rfl
      | true =>
        obtain ⟨dv, hdv⟩ := clean_digest sha hc
        have hne : dv ≠ db := by
          rcases C04_sensitive_or h32 hdv hdb (hedit v hv hrel hc) with h | h
          · exact h
          · exact absurd h hnc
        simp [digestsOf, hdv, hdb, outOf, hne]

/-! ## the hypotheses are satisfiable (non-vacuity) -/

/-- the executable SHA-256 meets the side condition of the sensitivity theorems -/
example : ∀ x, (Spok.Sha256.sha256 x).length = 32 := Spok.Sha256.sha256_length

def zsha : Bytes → Bytes := fun _ => List.replicate 32 0
def fsEx : Path → Entry := fun p => if p = [97] then .regular [1] else if p = [98] then .regular [] else if p = [100] then .dir else .unreadable

/-- C04_perm: a non-trivial permutation -/
example : (listing fsEx [[97], [100], [98]]).Perm (listing fsEx [[98], [97], [100]]) := by decide
/-- C04_dirs / C04_dirs_append: a list with a directory in it, and a non-empty list of directories -/
example : ∀ pe ∈ listing fsEx [[100]], pe.2 = .dir := by decide
example : (listing fsEx [[97], [100], [98]]).filter (fun pe => pe.2 ≠ .dir) = listing fsEx [[97], [98]] := by decide
/-- C04_collection: two different lists with the same collection, none unreadable -/
example : (∀ pe ∈ listing fsEx [[97], [100], [98]], pe.2 ≠ .unreadable) ∧ (∀ pe ∈ listing fsEx [[98], [97]], pe.2 ≠ .unreadable)
    ∧ (regs (listing fsEx [[97], [100], [98]])).Perm (regs (listing fsEx [[98], [97]])) := by decide
/-- C04_sensitive: all hypotheses hold together for a (bad) 32-byte hash function — and then a collision is indeed
    what comes out; for a collision-free function they cannot hold together, which is the property (see C04_sensitive_or) -/
example : (∀ x, (zsha x).length = 32) ∧ (∃ d, digest zsha (listing fsEx [[97]]) = .ok d ∧ digest zsha (listing fsEx [[98]]) = .ok d)
    ∧ ¬ (regs (listing fsEx [[97]])).Perm (regs (listing fsEx [[98]])) := by
  refine ⟨fun _ => by simp [zsha], ⟨_, rfl, rfl⟩, by decide⟩
/-- the digests exist (are `.ok`) for readable lists, so `hd₁ hd₂` are not vacuous for any `sha` -/
example (sha : Bytes → Bytes) : ∃ d, digest sha (listing fsEx [[97], [100], [98]]) = .ok d := ⟨_, rfl⟩
/-- content change / add / remove / rename: the side hypotheses are satisfiable -/
example : [97] ∈ [[97], [98]] ∧ fsEx [97] = .regular [1] ∧ (fun p => if p = [97] then Entry.regular [2] else fsEx p) [97] = .regular [2]
    ∧ ([1] : Bytes) ≠ [2] := by decide
example : fsEx [98] = .regular [] ∧ [98] ∉ ([[97]] ++ [[100]] : List Path) := by decide
/-- schedule independence: reachable final states exist for every input (`Spok.Props.C18.pool_can_finish`);
    here the smallest one, the empty list, where main may even leave before the feeder has closed `jobs` -/
example : Reachable 4 (([] : List (Path × Entry)).map (jobResult zsha)) { (init 4 []) with resultsClosed := true, mainDone := true }
    ∧ final ({ (init 4 []) with resultsClosed := true, mainDone := true } : St Res) :=
  ⟨.step (.step .init (.closeResults _ (by simp [init, nWorkers]) rfl)) (.mainExit _ rfl rfl), rfl⟩

/-- C04_judge_accepts_model: a fault-free base with a `same` and an `edit` variant meeting the hypotheses -/
example : cleanObs [(.file, [97], [1]), (.dir, [100], [])] = true
    ∧ (regs (filesOf [(.dir, [100], []), (.file, [97], [1])])).Perm (regs (filesOf [(.file, [97], [1]), (.dir, [100], [])]))
    ∧ ¬ (regs (filesOf [(.file, [97], [2])])).Perm (regs (filesOf [(.file, [97], [1]), (.dir, [100], [])])) := by decide

/-- why the item has to be fixed-width (DESIGN §6 D3): with the pinned framing `sha content ++ path` the concatenation of
    the items of two files *is* the item of one file with a longer path — for every `sha`, no collision involved.
    (`corpus/hash/d03-framing.txt` is this witness for the real hasher.) -/
example (sha : Bytes → Bytes) (p₁ p₂ c₁ c₂ : Bytes) :
    (sha c₁ ++ p₁) ++ (sha c₂ ++ p₂) = sha c₁ ++ (p₁ ++ sha c₂ ++ p₂) := by
  simp [List.append_assoc]

end Spok.Props.C04
