import Spok.Lemmas.RunHist
/-! # C02 — a task whose inputs are unchanged since its last success is skipped; tasks without files always run

Crash-free histories, as the property says (after a kill the cache may legitimately know less than the ghost).
No collision disjunct is needed in this direction: equal files have equal digests. -/
namespace Spok.Props.C02
open Spok.Run Spok.Judge.Run

variable (digest : Items → Digest)

/-- every state of an invocation that follows a crash-free history satisfies the completeness invariant -/
theorem reach_cinv {s : St} (h : Reach digest true s) : CInv digest s := by
  induction h with
  | start h hcf force order fails =>
    apply cinv_init
    have hcf := hcf rfl
    clear force order fails
    suffices ∀ (h : History) (w : World), crashFree h = true → CW digest w → CW digest (runHistory digest w h).1 from
      this h _ hcf (cw_init digest)
    intro h
    induction h with
    | nil => intro w _ hw; exact hw
    | cons e es ih =>
      intro w hcf hw
      simp only [crashFree, List.all_cons, Bool.and_eq_true] at hcf
      refine ih _ (by simpa [crashFree] using hcf.2) ?_
      cases e with
      | edit f => exact hw
      | removeCache => exact fun _ => rfl
      | invoke force order fails crashAt =>
        cases crashAt with
        | some k => simp [Event.crashFree] at hcf
        | none =>
          exact cinv_disk digest _ (runInv_cinv digest w force order fails none hw)
            (runInv_terminal digest w force order fails)
  | step _ ih => exact step_cinv digest _ ih

/-- **C02.** In an invocation that follows any crash-free history: when the machine decides about an unforced task `t`
    that hands ≥ 1 regular file to the hasher and whose commands last completed successfully on exactly these files
    (cache not removed since), it skips `t` — whatever the other tasks of the run did. -/
theorem C02_skip_complete {s : St} (hr : Reach digest true s) (t : TaskIn) (rest : List TaskIn)
    (hpc : s.pc = .decide) (hto : s.todo = t :: rest) (hf : s.force = false)
    (hl : s.last t.name = some t.inp.items) (hne : t.inp.items ≠ []) :
    skipTest digest s t = true ∧ (step digest s).out = s.out ++ [(t.name, .skipped)] ∧ (step digest s).todo = rest := by
  have hs := skip_complete digest s (reach_cinv digest hr) t rest hpc hto hf hl hne
  have hrd : t.readable = true := by
    -- an unreadable task never succeeded on `t.inp.items ≠ []`: `mkTask` gives it no items
    cases h : t.readable with
    | true => rfl
    | false =>
      exfalso
      have : ∀ {s : St}, Reach digest true s → ∀ u ∈ s.todo, u.readable = false → u.inp.items = [] := by
        intro s hr
        induction hr with
        | start h _ force order fails =>
          intro u hu hur
          simp only [initSt, List.mem_map] at hu
          obtain ⟨n, _, rfl⟩ := hu
          unfold mkTask at hur ⊢
          split <;> simp_all
        | step _ ih =>
          rename_i s0 _
          intro u hu
          cases step_shape digest s0 with
          | quiet _ htodo _ => rw [htodo] at hu; exact ih u hu
          | skip t' rest' _ hto' _ _ _ htodo _ => rw [htodo] at hu; exact ih u (by rw [hto']; exact List.mem_cons_of_mem _ hu)
          | exec _ _ _ _ _ _ htodo _ => rw [htodo] at hu; exact ih u hu
          | next t' rest' _ hto' _ htodo _ => rw [htodo] at hu; exact ih u (by rw [hto']; exact List.mem_cons_of_mem _ hu)
      exact hne (this hr t (by simp [hto]) h)
  refine ⟨hs, ?_, ?_⟩ <;> simp [step, hpc, hto, hrd, hs]

/-- **C02, second clause.** A task that hands no path to the hasher (no file dependency, or globs matching nothing) is
    never skipped, in any state of any history, forced or not. -/
theorem C02_nodeps_always_run (s : St) (t : TaskIn) (hn : t.inp.n = 0) : skipTest digest s t = false :=
  nodeps_never_skips digest s t hn

/-- **C02, observable form.** The judge accepts every history the model produces (the judge demands nothing once a kill
    has been observed) … -/
theorem C02_judge_accepts (h : History) : c02 (runHistory digest World.init h).2 = true := by
  unfold c02
  rcases hist_c02 digest h _ _ (cw_init digest) sync_init with h | h <;> simp [h]

/-- … and on crash-free histories it is not vacuous: every entry of every reported trace passed the C02 test. -/
theorem C02_judge_accepts_crashFree (h : History) (hcf : crashFree h = true) :
    judgeWith c02Ev Ghost.init (runHistory digest World.init h).2 = true := by
  rcases hist_c02 digest h _ _ (cw_init digest) sync_init with hc | hc
  · rw [hist_nocrash digest h _ hcf] at hc; cases hc
  · exact hc

/-! ## non-vacuity -/

def inpAB : Name → Option Inputs := fun t => if t = 0 then some ⟨0, [(0, 1)]⟩ else if t = 1 then some ⟨0, [(2, 1), (3, 1)]⟩ else some ⟨0, []⟩
def inpAB' : Name → Option Inputs := fun t => if t = 0 then some ⟨0, [(0, 2)]⟩ else if t = 1 then some ⟨0, [(2, 1), (3, 1)]⟩ else some ⟨0, []⟩
def noFail : Name → Bool := fun _ => false
def failA : Name → Bool := fun t => t == 0

/-- three tasks: 0 on a file, 1 on two files, 3 without files; run all, edit 0's file -/
def hist : History := [.edit inpAB, .invoke false [0, 1, 3] noFail none, .edit inpAB']

/-- the hypotheses of `C02_skip_complete` are met by task 1 in a run where task 0 has just (re-)run and failed -/
example : ∃ s t rest, Reach natDigest true s ∧ s.pc = .decide ∧ s.todo = t :: rest ∧ s.force = false ∧
    s.last t.name = some t.inp.items ∧ t.inp.items ≠ [] ∧ s.out = [(0, .ranFail)] :=
  ⟨_, _, _, .step (.step (.step (.step (.step (.step (.start hist (by decide) false [0, 1, 3] failA)))))),
    rfl, rfl, rfl, rfl, by decide, rfl⟩

/-- … and observed: 0 fails, 1 is skipped all the same, 3 (no files) runs again; then 0 runs again, 1 and 3 as before -/
example : ((runHistory natDigest World.init
    (hist ++ [.invoke false [0, 1, 3] failA none, .invoke false [0, 1, 3] noFail none])).2.drop 3) =
    [.invoke false [0, 1, 3] [(0, .ranFail), (1, .skipped), (3, .ranOk)] .done .valid,
     .invoke false [0, 1, 3] [(0, .ranOk), (1, .skipped), (3, .ranOk)] .done .valid] := by rfl

/-- the judge is not trivially true: a needless re-run and a skipped file-less task are rejected -/
example : c02 [.edit inpAB, .invoke false [1] [(1, .ranOk)] .done .valid, .invoke false [1] [(1, .ranOk)] .done .valid] = false := by
  decide
example : c02 [.edit inpAB, .invoke false [3] [(3, .skipped)] .done .valid] = false := by decide

end Spok.Props.C02
