import Spok.Props.C07
/-! # Property C11 — formatting is idempotent

`format (norm t) = format t` holds for EVERY tree (the printer trims comment text, so re-spelling a
comment as `# ` + trimmed text prints the same).  With C07's `print_parse`, `parse_wf` and
`format_selfDec` this gives, for every byte string that parses: formatting the formatted bytes returns
them unchanged. -/
namespace Spok.Props.C11
open Spok

/-- the printed form of the normalised tree is the printed form of the tree — every tree -/
theorem format_norm (t : Tree) : format (norm t) = format t := Spok.format_norm t

/-- `norm` is idempotent: a fixed point is reached after one application -/
theorem norm_idem (t : Tree) : norm (norm t) = norm t := Spok.norm_idem t

/-- **C11** (byte level, full strength): `fmt (fmt x) = fmt x` for every `x` that parses, where
    `fmt x = flat (format (parse x).tree)`; the second parse never fails. -/
theorem C11 (bytes : List UInt8) (hp : (parse bytes).fail = none) :
    (parse (flat (format (parse bytes).tree))).fail = none ∧
    flat (format (parse (flat (format (parse bytes).tree))).tree) = flat (format (parse bytes).tree) := by
  have hw : wfTree (parse bytes).tree = true := C07.parse_wf (decodeAll bytes) hp
  rw [C07.format_bytes bytes hp, C07.print_parse _ hw]
  exact ⟨rfl, by rw [Spok.format_norm]⟩

/-- the judge accepts the model -/
theorem judge_accepts_model (bytes : List UInt8) (hp : (parse bytes).fail = none) :
    Judge.c11 (flat (format (parse bytes).tree)) (flat (format (parse (flat (format (parse bytes).tree))).tree)) = true := by
  rw [(C11 bytes hp).2]; simp [Judge.c11]

example : format (parseRunes (format Fmt.exTree)).tree = format Fmt.exTree := by
  rw [C07.print_parse _ Fmt.exTree_wf]; exact Spok.format_norm _

/-! ## any number of formattings

"Idempotent" for ONE re-formatting does not by itself say that a file formatted by every commit hook for a year stays what it
was after the first.  With `C07.fmtB` (one `spok --fmt` on bytes) and `C07.fmtN n` (`n` of them): after the first formatting
every further one parses and changes nothing — for every `n`. -/

/-- **C11, any number of times**: for every input that parses and every `n`, the bytes after `1 + n` formattings are the
    bytes after one, and they parse. -/
theorem C11_iter (bytes : List UInt8) (hp : (parse bytes).fail = none) (n : Nat) :
    (parse (C07.fmtN n (C07.fmtB bytes))).fail = none ∧ C07.fmtN n (C07.fmtB bytes) = C07.fmtB bytes :=
  C07.fmtN_fmtB bytes hp n

/-- non-vacuity: the theorem applies to the formatted bytes of the example tree (which parse: `C07.exText_parses`), e.g. `n = 5` -/
example : C07.fmtN 5 (C07.fmtB (flat (format Fmt.exTree))) = C07.fmtB (flat (format Fmt.exTree)) :=
  (C11_iter _ C07.exText_parses 5).2

end Spok.Props.C11
