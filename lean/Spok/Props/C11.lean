import Spok.Props.C07
/-! # Property C11 — formatting is idempotent

`format (norm t) = format t` holds for EVERY tree (the printer trims comment text, so re-spelling a
comment as `# ` + trimmed text prints the same).  With `print_parse` (C07) this gives: formatting the
formatted text returns it unchanged, for every well-formed tree.  Open: `parse_wf` (see `Props/C07`). -/
namespace Spok.Props.C11
open Spok

/-- the printed form of the normalised tree is the printed form of the tree — every tree, any literals -/
theorem format_norm (t : Tree) : format (norm t) = format t := Spok.format_norm t

/-- **C11** for every well-formed tree: format (parse (format t)) = format t, and that parse succeeds.
    Missing for the full property: `parse_wf`. -/
theorem C11_partial (t : Tree) (h : wfTree t = true) :
    (parseRunes (format t)).fail = none ∧ format (parseRunes (format t)).tree = format t :=
  format_idem C06.C06 h

/-- a fixed point is reached after one application: the tree obtained by re-parsing is again
    well-formed-for-printing in the sense that printing it again changes nothing (`norm` is idempotent) -/
theorem norm_idem (t : Tree) : norm (norm t) = norm t := Spok.norm_idem t

/-- the judge accepts the model on well-formed trees -/
theorem judge_accepts_model_partial (t : Tree) (h : wfTree t = true) :
    Judge.c11 (flat (format t)) (flat (format (parseRunes (format t)).tree)) = true := by
  rw [(C11_partial t h).2]; simp [Judge.c11]

example : format (parseRunes (format Fmt.exTree)).tree = format Fmt.exTree := (C11_partial _ Fmt.exTree_wf).2

end Spok.Props.C11
