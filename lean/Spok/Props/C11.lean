import Spok.Judge.Syntax
/-! # Property C11 — theorems (under construction) -/
namespace Spok.Props.C11
end Spok.Props.C11
