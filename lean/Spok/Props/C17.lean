import Spok.Judge.Find
import Spok.Lemmas.Find
/-! # Property C17 — spokfile discovery terminates and finds the nearest enclosing spokfile

*Termination.*  `Find.findUp` is a structural recursion on the component list of `start`
(Lean accepted the definition without a `termination_by`), mirroring the Go loop in which every
iteration either returns or replaces `start` by `filepath.Dir(start)`, and `parent == start` (the
root) returns.  So for **every** file system, start and stop the model returns; that the Go loop
takes the same exits is what the correspondence run (each call under a watchdog) checks.

*Reading fixed in DESIGN §7.6.*  Candidates are the directories at or above `start` that are not
**strict** ancestors of `stop`.  With `stop` unrelated to `start` the walk ends below their common
ancestor; a start directory that is itself above `stop` yields "none found". -/
namespace Spok.Props.C17
open Spok.Find Spok.Judge

/-! ## the candidates -/

/-- `ancestors start` are exactly the directories at or above `start` … -/
theorem mem_ancestors {start d : Dir} : d ∈ ancestors start ↔ d <+: start := by
  constructor
  · intro h; simpa using upsRev_prefix start.reverse d h
  · intro h; exact prefix_mem_upsRev start.reverse d (by simpa using h)

/-- … listed nearest first -/
theorem ancestors_nearest_first (start : Dir) :
    (ancestors start).Pairwise (fun a b => b.length < a.length) := by
  unfold ancestors
  generalize start.reverse = r
  induction r with
  | nil => simp [upsRev]
  | cons c up ih =>
    simp only [upsRev, List.pairwise_cons]
    refine ⟨?_, ih⟩
    intro d hd
    have := (upsRev_prefix up d hd).length_le
    simp at this ⊢
    omega

/-- **C17.**  For every file system, start and stop, `Find` returns the regular file `spokfile` of the
    nearest directory at or above `start` that is not a strict ancestor of `stop`, and otherwise
    reports that none was found. (`ancestors start` lists `start`, its parent, …, `/`.) -/
theorem C17_spec (fs : FS) (start stop : Dir) :
    find fs start stop =
      match (ancestors start).find? (fun d => !isAbove d stop && hasSpokfile (fs d)) with
      | some d => .found d
      | none => .notFound :=
  findUp_spec fs stop start.reverse

/-- the same, unfolded: what is found is a candidate, and no nearer directory is one -/
theorem C17_found_iff (fs : FS) (start stop d : Dir) :
    find fs start stop = .found d ↔
      d <+: start ∧ isAbove d stop = false ∧ hasSpokfile (fs d) = true ∧
      ∀ d', d' <+: start → d.length < d'.length → ¬ (isAbove d' stop = false ∧ hasSpokfile (fs d') = true) := by
  rw [C17_spec]
  constructor
  · intro h
    split at h
    · rename_i d0 hf
      cases h
      have hs := List.find?_some hf
      have hm := List.mem_of_find?_eq_some hf
      simp only [Bool.and_eq_true, Bool.not_eq_eq_eq_not, Bool.not_true] at hs
      refine ⟨mem_ancestors.1 hm, hs.1, hs.2, ?_⟩
      intro d' hd' hlen hc
      obtain ⟨as, bs, heq, hno⟩ := List.find?_eq_some_iff_append.1 hf |>.2
      have hpw := ancestors_nearest_first start
      rw [heq] at hpw
      have hd'm : d' ∈ as ++ d :: bs := heq ▸ mem_ancestors.2 hd'
      rcases List.mem_append.1 hd'm with hin | hin
      · have := hno d' hin
        simp [hc.1, hc.2] at this
      · rcases List.mem_cons.1 hin with rfl | hin
        · omega
        · have := (List.pairwise_append.1 hpw).2.1
          have := (List.pairwise_cons.1 this).1 d' hin
          omega
    · cases h
  · rintro ⟨hp, ha, hs, hn⟩
    have hm := mem_ancestors.2 hp
    have : (ancestors start).find? (fun d => !isAbove d stop && hasSpokfile (fs d)) = some d := by
      rw [List.find?_eq_some_iff_append]
      refine ⟨by simp [ha, hs], ?_⟩
      obtain ⟨as, bs, heq⟩ := List.append_of_mem hm
      refine ⟨as, bs, heq, ?_⟩
      intro d' hd'
      have hpw := ancestors_nearest_first start
      rw [heq] at hpw
      have hlen : d.length < d'.length := (List.pairwise_append.1 hpw).2.2 d' hd' d (by simp)
      have hd'p : d' <+: start := mem_ancestors.1 (heq ▸ List.mem_append_left _ hd')
      have := hn d' hd'p hlen
      simp only [not_and, Bool.not_eq_true] at this
      cases h1 : isAbove d' stop <;> simp_all
    simp [this]

theorem C17_notFound_iff (fs : FS) (start stop : Dir) :
    find fs start stop = .notFound ↔
      ∀ d, d <+: start → isAbove d stop = false → hasSpokfile (fs d) = false := by
  rw [C17_spec]
  split
  · rename_i d hf
    have hs := List.find?_some hf
    have hm := mem_ancestors.1 (List.mem_of_find?_eq_some hf)
    simp only [Bool.and_eq_true, Bool.not_eq_eq_eq_not, Bool.not_true] at hs
    constructor
    · intro h; cases h
    · intro h; have := h d hm hs.1; simp [hs.2] at this
  · rename_i hf
    rw [List.find?_eq_none] at hf
    constructor
    · intro _ d hd ha
      have := hf d (mem_ancestors.2 hd)
      simpa [ha] using this
    · intro _; rfl

/-- a start directory that is itself (strictly) above `stop` is never searched -/
theorem C17_start_above_stop (fs : FS) (start stop : Dir) (h : isAbove start stop = true) :
    find fs start stop = .notFound := by
  rw [C17_notFound_iff]
  intro d hd ha
  rw [isAbove_of_prefix h hd] at ha
  cases ha

/-! ## order and the other entries are irrelevant -/

/-- **C17, order-independence.**  The result depends on a directory listing only through "does it hold a
    regular file called `spokfile`": two file systems that agree on that — whatever their other entries
    (including directories called `spokfile`) and in whatever order they are listed — give the same result. -/
theorem C17_order_irrelevant (fs fs' : FS) (start stop : Dir)
    (h : ∀ d e, isSpok e = true → (e ∈ fs d ↔ e ∈ fs' d)) :
    find fs start stop = find fs' start stop := by
  have hh : ∀ d, hasSpokfile (fs d) = hasSpokfile (fs' d) := by
    intro d
    rw [Bool.eq_iff_iff]
    simp only [hasSpokfile, List.any_eq_true]
    constructor
    · rintro ⟨e, he, hs⟩; exact ⟨e, (h d e hs).1 he, hs⟩
    · rintro ⟨e, he, hs⟩; exact ⟨e, (h d e hs).2 he, hs⟩
  rw [C17_spec, C17_spec]
  simp [hh]

/-- reordering any listing changes nothing -/
theorem C17_perm (fs fs' : FS) (start stop : Dir) (h : ∀ d, (fs d).Perm (fs' d)) :
    find fs start stop = find fs' start stop :=
  C17_order_irrelevant fs fs' start stop (fun d _ _ => (h d).mem_iff)

/-- adding or removing entries that are not a regular `spokfile` changes nothing -/
theorem C17_others_irrelevant (fs : FS) (start stop : Dir) :
    find fs start stop = find (fun d => (fs d).filter isSpok) start stop :=
  C17_order_irrelevant fs _ start stop (fun d e he => by simp [he])

/-! ## where the user stands -/

/-- **Location independence.**  If discovery from `start` finds the spokfile of `d`, then discovery from EVERY directory between
    `d` and `start` finds the same one: where inside the project the user stands does not matter. -/
theorem C17_between (fs : FS) (start stop d d' : Dir) (h : find fs start stop = .found d)
    (h1 : d <+: d') (h2 : d' <+: start) : find fs d' stop = .found d := by
  obtain ⟨_, ha, hs, hn⟩ := (C17_found_iff fs start stop d).1 h
  exact (C17_found_iff fs d' stop d).2 ⟨h1, ha, hs, fun d'' hd hl => hn d'' (hd.trans h2) hl⟩

/-- … in particular discovery is stable: started in the directory it found, it finds that directory again -/
theorem C17_found_stable (fs : FS) (start stop d : Dir) (h : find fs start stop = .found d) :
    find fs d stop = .found d :=
  C17_between fs start stop d d h (List.prefix_refl d) ((C17_found_iff fs start stop d).1 h).1

/-- … and the negative side: when nothing is found from `start`, nothing is found from any directory above it either (no
    spokfile appears by standing higher up) -/
theorem C17_notFound_above (fs : FS) (start stop d' : Dir) (h : find fs start stop = .notFound) (h2 : d' <+: start) :
    find fs d' stop = .notFound :=
  (C17_notFound_iff fs d' stop).2 (fun d hd => (C17_notFound_iff fs start stop).1 h d (hd.trans h2))

/-! ## the judge accepts the model -/

theorem judge_accepts_model (fs : FS) (start stop : Dir) :
    c17 fs start stop (FindObs.ofResult (find fs start stop)) = true := by
  simp only [c17, decide_eq_true_eq]
  congr 1
  exact C17_spec fs start stop

/-- the judge rejects a call that does not return, and any other error, whatever the chain -/
theorem judge_rejects_hang (fs : FS) (start stop : Dir) :
    c17 fs start stop .hang = false ∧ c17 fs start stop .err = false := by
  constructor <;> simp only [c17, decide_eq_false_iff_not] <;> cases spec fs start stop <;> simp [FindObs.ofResult]

/-! ## non-vacuity: concrete chains -/

def file (n : String) : Entry := ⟨n, false⟩
def dir (n : String) : Entry := ⟨n, true⟩

/-- `/p` holds `aaa spokfile zzz`, `/p/q` is empty, `/p/q/r` holds a *directory* called spokfile, `/u` is unrelated -/
def fs1 : FS := fun d =>
  if d = [] then [dir "p", dir "u"]
  else if d = ["p"] then [file "aaa", dir "q", file "spokfile", file "zzz"]
  else if d = ["p", "q"] then [dir "r"]
  else if d = ["p", "q", "r"] then [dir "spokfile"]
  else []

-- the generated constant is what the model thinks it is (a respelling would still verify: the proofs never unfold it)
example : NAME = "spokfile" := by decide
-- other entries sort before the spokfile; a directory called spokfile on the way is not taken
example : find fs1 ["p", "q", "r"] ["p"] = .found ["p"] := by decide
-- `C17_between` applies to that search: from the directory in between the same spokfile is found
example : find fs1 ["p", "q"] ["p"] = .found ["p"] :=
  C17_between fs1 ["p", "q", "r"] ["p"] ["p"] ["p", "q"] (by decide) (by decide) (by decide)
-- the stop directory itself is searched, wholly
example : find fs1 ["p"] ["p"] = .found ["p"] := by decide
-- stop below the spokfile: never look above stop
example : find fs1 ["p", "q", "r"] ["p", "q"] = .notFound := by decide
-- empty stop directory (the D11 witness: the pinned loop never returned here)
example : find fs1 ["p", "q"] ["p", "q"] = .notFound := by decide
-- start not below stop (D11 witness): unrelated stop, the walk ends below the common ancestor `/`
example : find fs1 ["p", "q", "r"] ["u"] = .found ["p"] := by decide
example : find fs1 ["u"] ["p", "q"] = .notFound := by decide
-- start above stop: not searched although it holds a spokfile
example : find fs1 ["p"] ["p", "q"] = .notFound := by decide
-- the walk ends at the root
example : find fs1 ["u"] [] = .notFound := by decide
-- the spokfile being a directory: not found at all
example : find fs1 ["p", "q", "r"] ["p", "q", "r"] = .notFound := by decide
-- the hypothesis of `C17_order_irrelevant` is satisfiable by genuinely different file systems
example : ∀ d e, isSpok e = true →
    (e ∈ fs1 d ↔ e ∈ (fun d => if d = ["p"] then [file "spokfile", file "0"] else []) d) := by
  intro d e he
  have : e = file "spokfile" := by
    cases e with | mk n i =>
    simp [isSpok] at he
    have hn : n = "spokfile" := by simpa [NAME, Spok.Generated.Facts.spokfileName] using he.2
    simp [file, he.1, hn]
  subst this
  by_cases h1 : d = ["p"]
  · subst h1; decide
  · by_cases h0 : d = [] <;> by_cases h2 : d = ["p", "q"] <;> by_cases h3 : d = ["p", "q", "r"] <;>
      simp [fs1, h0, h1, h2, h3, file, dir]
-- the judge accepts what the model does and rejects a wrong answer
example : c17 fs1 ["p", "q", "r"] ["u"] (.found ["p"]) = true := by decide
example : c17 fs1 ["p", "q", "r"] ["u"] .notFound = false := by decide
example : c17 fs1 ["p", "q"] ["p", "q"] .hang = false := by decide

/-! ## a relative start path -/

theorem findRelUp_spec (fs : FS) (cwd : Dir) : ∀ (up : List String),
    findRelUp fs cwd up = (match (relUps cwd up).find? (fun d => hasSpokfile (fs d)) with
      | some d => .found d
      | none => .notFound)
  | [] => by
    simp only [findRelUp, relUps, List.find?_cons, List.find?_nil]
    cases hasSpokfile (fs cwd) <;> rfl
  | c :: up => by
    simp only [findRelUp, relUps, List.find?_cons]
    cases h : hasSpokfile (fs (cwd ++ (c :: up).reverse))
    · simpa using findRelUp_spec fs cwd up
    · rfl

/-- **C17 for a relative start.**  The loop terminates (structural recursion) and returns the nearest directory between
    start and the working directory that holds a regular `spokfile`, else "none found". -/
theorem C17_rel_spec (fs : FS) (cwd : Dir) (rel : List String) : findRel fs cwd rel = relSpec fs cwd rel :=
  findRelUp_spec fs cwd rel.reverse

theorem judge_accepts_model_rel (fs : FS) (cwd : Dir) (rel : List String) :
    Spok.Judge.c17rel fs cwd rel (Spok.Judge.FindObs.ofResult (findRel fs cwd rel)) = true := by
  simp [Spok.Judge.c17rel, C17_rel_spec]

end Spok.Props.C17
