import Spok.Props.C07
/-! # Property C15 — formatting keeps every comment and every task's docstring

`notes t` is the sequence of non-empty comments (trimmed, as the formatter and `--show` see them), the
positions of the statements between them, and every task's (trimmed) docstring.  `notes (norm t) = notes t`
holds for EVERY tree; with `print_parse` the re-parsed formatted text has the same notes, for every
well-formed tree: no comment lost, duplicated, moved past a statement or turned into a docstring.
Open: `parse_wf` (see `Props/C07`). -/
namespace Spok.Props.C15
open Spok

theorem notes_norm (t : Tree) : notes (norm t) = notes t := Spok.notes_norm t

/-- **C15** for every well-formed tree.  Missing for the full property: `parse_wf`. -/
theorem C15_partial (t : Tree) (h : wfTree t = true) :
    (parseRunes (format t)).fail = none ∧ notes (parseRunes (format t)).tree = notes t := by
  rw [C07.print_parse t h]; exact ⟨rfl, Spok.notes_norm t⟩

theorem judge_accepts_model_partial (t : Tree) (h : wfTree t = true) :
    Judge.c15 t (.ok (parseRunes (format t)).tree) = true := by
  rw [C07.print_parse t h]; simp [Judge.c15, Spok.notes_norm]

example : notes (parseRunes (format Fmt.exTree)).tree = notes Fmt.exTree := (C15_partial _ Fmt.exTree_wf).2

end Spok.Props.C15
