import Spok.Props.C07
/-! # Property C15 — formatting keeps every comment and every task's docstring

`notes t` is the sequence of non-empty comments (trimmed, as the formatter and `--show` see them), the
positions of the statements between them, and every task's (trimmed) docstring.  `notes (norm t) = notes t`
holds for EVERY tree; with C07's `print_parse`, `parse_wf` and `format_selfDec`, for every byte string that
parses the formatted bytes parse to a tree with the same notes: no comment lost, duplicated, moved past a
statement or turned into the docstring of a task it did not document. -/
namespace Spok.Props.C15
open Spok

theorem notes_norm (t : Tree) : notes (norm t) = notes t := Spok.notes_norm t

/-- **C15** (byte level, full strength) -/
theorem C15 (bytes : List UInt8) (hp : (parse bytes).fail = none) :
    (parse (flat (format (parse bytes).tree))).fail = none ∧
    notes (parse (flat (format (parse bytes).tree))).tree = notes (parse bytes).tree := by
  have hw : wfTree (parse bytes).tree = true := C07.parse_wf (decodeAll bytes) hp
  rw [C07.format_bytes bytes hp, C07.print_parse _ hw]
  exact ⟨rfl, Spok.notes_norm _⟩

theorem judge_accepts_model (bytes : List UInt8) (hp : (parse bytes).fail = none) :
    Judge.c15 (parse bytes).tree (.ok (parse (flat (format (parse bytes).tree))).tree) = true := by
  have := (C15 bytes hp).2
  simp [Judge.c15, this]

example : notes (parseRunes (format Fmt.exTree)).tree = notes Fmt.exTree := by
  rw [C07.print_parse _ Fmt.exTree_wf]; exact Spok.notes_norm _

/-- **C15, any number of times**: no comment or docstring is lost, duplicated or moved however often the file is
    formatted (`C07.fmtB` is one `spok --fmt`, `C07.fmtN n` is `n` of them). -/
theorem C15_iter (bytes : List UInt8) (hp : (parse bytes).fail = none) (n : Nat) :
    (parse (C07.fmtN n (C07.fmtB bytes))).fail = none ∧
    notes (parse (C07.fmtN n (C07.fmtB bytes))).tree = notes (parse bytes).tree := by
  rw [C07.fmtN_tree bytes hp n]; exact ⟨rfl, Spok.notes_norm _⟩

example : notes (parse (C07.fmtN 4 (C07.fmtB (flat (format Fmt.exTree))))).tree = notes (parse (flat (format Fmt.exTree))).tree :=
  (C15_iter _ C07.exText_parses 4).2

end Spok.Props.C15
