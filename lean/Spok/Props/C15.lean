import Spok.Judge.Syntax
/-! # Property C15 — theorems (under construction) -/
namespace Spok.Props.C15
end Spok.Props.C15
