import Spok.Generated.Facts
/-! # Expectations over the regenerated facts (`Generated/Facts.lean`) — what `task.New` and `expandGlob` are made of (C05)

The models of these functions (`Spok/Hash.lean`, `Spok/Glob.lean`, `Spok/Find.lean`) stand for particular library calls:
SHA-256 over the content and over the path, a stable sort on bytewise comparison, `strings.Contains(_, "*")` as THE test
that makes a string a glob, `doublestar.GlobWalk` over `os.DirFS` with the hidden-entry filter `strings.HasPrefix(_, ".")`,
`os.ReadDir` per directory on the way up and `filepath.Rel` for "above".  Which library calls the Go source makes (calls of
imported packages, error construction left out, and the string literals without blanks) is extracted from its AST on every
run; another hash function, another sort, another glob test, `Lstat` for `ReadDir` … stop these from checking. -/
namespace Spok.Props.FactsGlob
open Spok Spok.Generated

/-- `task.New`: a string is a glob iff it contains `*` (dependencies and outputs alike), anything else is a path joined
    with the spokfile's directory -/
theorem task_new_made_of :
    Facts.taskNewCalls = ["strings.Contains", "filepath.Join", "strings.Contains", "filepath.Join", "strings.TrimSpace"] ∧
    Facts.taskNewLits = ["*", "*"] := by decide

/-- `expandGlob`: `doublestar.GlobWalk` over `os.DirFS(root)`, entries whose path starts with `.` filtered, matches made
    absolute -/
theorem expand_glob_made_of :
    Facts.expandGlobCalls = ["strings.HasPrefix", "filepath.Abs", "filepath.Join", "filepath.Join", "doublestar.GlobWalk", "os.DirFS"] ∧
    Facts.expandGlobLits = ["."] := by decide

end Spok.Props.FactsGlob
