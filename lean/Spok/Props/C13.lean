import Spok.Lemmas.EnvTemplate
import Spok.Lemmas.EnvMerge
import Spok.Lemmas.PathBasic
import Spok.Judge.Env
import Spok.Lemmas.EnvShell
/-! # Property C13 — variables reach commands with their spokfile value, by template and by environment

Statements are about the model `Spok.Env` (`expand`, `evalRhs`, `load`, `mergeEnv`, `lookup`); the tie to the real
binary is the correspondence run of `bin/check C13` (`spok --vars`, and the `cmd` / `stdout` fields of `spok --json`).

A command is seen as a list of pieces — single characters of ordinary text and references `{{.NAME}}`;
`render` is its source text, `subst vars` the direct textual substitution. -/
namespace Spok.Props.C13
open Spok.Clean (Str isAbs CleanAbs)
open Spok.Env

/-! ## the template clause -/

/-- **C13_template.** For every command text in the subset (any well-formed mix of text and `{{.NAME}}`),
    template expansion is the direct textual substitution. -/
theorem C13_template (vars : Vars) (ps : List Piece) (h : WF ps) :
    expand vars (render ps) = .ok (subst vars ps) := by
  simp [expand, tokenise_render h]

/-- … and that is all the model accepts: whenever `expand` succeeds the command *is* such a mix and the
    result is its substitution (everything else is rejected as unmodelled, never silently altered). -/
theorem C13_template_only (vars : Vars) (cmd out : Str) (h : expand vars cmd = .ok out) :
    ∃ ps, WF ps ∧ render ps = cmd ∧ out = subst vars ps := by
  unfold expand at h
  split at h
  · simp at h
  · rename_i ps hps
    obtain ⟨h1, h2⟩ := render_tokenise hps
    simp at h
    exact ⟨ps, h2, h1, h.symm⟩

/-- every occurrence of a reference to a defined variable is replaced by exactly its value … -/
theorem C13_ref_replaced (vars : Vars) (n v : Str) (rest : List Piece) (hv : get vars n = some v) :
    subst vars (.ref n :: rest) = v ++ subst vars rest := by
  simp [subst, value, hv]

/-- … a name that is not defined (yet) prints as text/template prints a missing map key … -/
theorem C13_ref_missing (vars : Vars) (n : Str) (rest : List Piece) (hv : get vars n = none) :
    subst vars (.ref n :: rest) = noValue ++ subst vars rest := by
  simp [subst, value, hv]

/-- … all other command text reaches the shell unchanged (text before, between and after references) … -/
theorem C13_text_untouched (vars : Vars) (t : Str) (rest : List Piece) :
    subst vars (chs t ++ rest) = t ++ subst vars rest := subst_chs vars t rest

/-- … and a value is not expanded again: whatever it contains (for instance `{{.Y}}` or `$Y`), the command
    `before{{.n}}after` becomes `before ++ value ++ after`. -/
theorem C13_not_reexpanded (vars : Vars) (n v before after : Str) (hn : ValidName n)
    (hb : WF (chs before ++ [.ref n])) (ha : WF (chs after)) (hv : get vars n = some v) :
    expand vars (before ++ refText n ++ after) = .ok (before ++ v ++ after) := by
  have hwf : WF (chs before ++ (.ref n :: chs after)) := by
    clear hv
    induction before with
    | nil => exact ⟨hn, ha⟩
    | cons c cs ih =>
      obtain ⟨h1, h2⟩ := hb
      refine ⟨?_, ih h2⟩
      intro hc
      apply h1
      refine ⟨hc.1, ?_⟩
      have := hc.2
      simp only [chs] at this ⊢
      cases cs with
      | nil => simp [render, refText]
      | cons d ds => simpa [render] using this
  have hr : render (chs before ++ (.ref n :: chs after)) = before ++ refText n ++ after := by
    rw [render_chs]
    simp only [render]
    have := render_chs after []
    simp only [List.append_nil, render] at this
    rw [this]
    simp
  have hs : subst vars (chs before ++ (.ref n :: chs after)) = before ++ v ++ after := by
    rw [subst_chs, C13_ref_replaced vars n v _ hv]
    have := subst_chs vars after []
    simp only [List.append_nil, subst] at this
    rw [this]
    simp
  rw [← hr, ← hs]
  exact C13_template vars _ hwf

/-! ## what a task sees: the variables defined earlier -/

/-- a task is loaded with its commands expanded against the variables assigned *before* it in the file -/
theorem C13_defined_earlier (cwd : Str) (t : TaskSrc) (rest : List Stmt) (f f' : File)
    (h : loadAux cwd (.task t :: rest) f = .ok f') :
    ∃ cs, expandAll f.vars t.commands = .ok cs ∧ (⟨t.name, cs, f.vars⟩ : Loaded) ∈ f'.tasks := by
  unfold loadAux at h
  split at h
  · simp at h
  · rename_i cs hcs
    split at h
    · simp at h
    · exact ⟨cs, hcs, loadAux_tasks_mono h _ (by simp)⟩

/-- an assignment makes the variable have that value from then on (until it is assigned again) -/
theorem C13_assignment (vs : Vars) (n v : Str) : get (set vs n v) n = some v ∧
    ∀ m, m ≠ n → get (set vs n v) m = get vs m :=
  ⟨get_set_same vs n v, fun _ hm => get_set_other vs v hm⟩

/-! ## values -/

/-- **C13_string_value.** A string variable's value is the text of the literal, unchanged. -/
theorem C13_string_value (cwd v : Str) : evalRhs cwd (.str v) = .ok v := rfl

/-- **C13_join.** `join(...)` is the absolute, cleaned join of its arguments: `filepath.Abs ∘ filepath.Join`,
    and (for an absolute working directory) the result is absolute and clean. -/
theorem C13_join (cwd : Str) (args : List Str) (hc : isAbs cwd = true) :
    evalRhs cwd (.join args) = .ok (Clean.abs cwd (Clean.join args)) ∧
    CleanAbs (Clean.abs cwd (Clean.join args)) :=
  ⟨rfl, Clean.cleanAbs_abs hc _⟩

/-- **C13_exec.** `exec(cmd)` is the recorded stdout with surrounding whitespace trimmed; a non-zero status is
    an error (and so is any number of arguments other than one). -/
theorem C13_exec (cwd c out : Str) (st : Nat) :
    evalRhs cwd (.exec [c] ⟨out, st⟩) = (if st = 0 then .ok (trim out) else .error (.execFailed st)) := by
  simp [evalRhs, execBuiltin]

/-- `trim` removes exactly the surrounding whitespace: the text is `l ++ trim s ++ r` with `l`, `r` all
    whitespace, and `trim s` neither starts nor ends with whitespace. -/
theorem C13_trim_spec (s : Str) : ∃ l r, s = l ++ trim s ++ r ∧ l.all isSpace = true ∧ r.all isSpace = true ∧
    (∀ c, (trim s).head? = some c → isSpace c = false) ∧
    (∀ c, (trim s).getLast? = some c → isSpace c = false) := by
  obtain ⟨l, h1, h2, h3⟩ := trimLeft_spec s
  obtain ⟨r, g1, g2, g3⟩ := trimRight_spec (trimLeft s)
  refine ⟨l, r, ?_, h2, g2, ?_, g3⟩
  · unfold trim
    rw [List.append_assoc, ← g1]
    exact h1
  · intro c hc
    -- the first character of the trimmed text is the first character of `trimLeft s`
    apply h3 c
    unfold trim at hc
    rw [g1]
    cases ht : trimRight (trimLeft s) with
    | nil => rw [ht] at hc; simp at hc
    | cons a t => rw [ht] at hc; simpa using hc

/-- a failing exec makes loading the file fail -/
theorem C13_exec_failure_is_error (cwd n c out : Str) (st : Nat) (hst : st ≠ 0) (rest : List Stmt) (f : File) :
    loadAux cwd (.decl n (.exec [c] ⟨out, st⟩) :: rest) f = .error (.execFailed st) := by
  simp [loadAux, evalRhs, execBuiltin, hst]

/-! ## the environment clause -/

/-- **C13_env.** Every variable of the loaded spokfile is in each command's environment with its spokfile
    value — for every ambient environment, every `.env` content and every order in which the Go map hands
    the variables out. -/
theorem C13_env (cwd : Str) (stmts : List Stmt) (f : File) (ambient dotenv spokVars : EnvList) (k v : Str)
    (hl : load cwd stmts = .ok f) (hp : IsEnvOf spokVars f.vars) (hk : get f.vars k = some v) :
    lookup (mergeEnv ambient dotenv spokVars) k = some v := by
  have hn : NodupKeys spokVars := nodupKeys_perm hp (load_nodup hl)
  have hm : (k, v) ∈ spokVars := hp.mem_iff.2 (mem_of_get_eq_some hk)
  unfold mergeEnv
  rw [lookup_append, lookup_eq_some_of_mem hn hm]

/-- the same for any duplicate-free map of variables -/
theorem C13_env_map (vs : Vars) (ambient dotenv spokVars : EnvList) (k v : Str)
    (hn : NodupKeys vs) (hp : IsEnvOf spokVars vs) (hk : get vs k = some v) :
    lookup (mergeEnv ambient dotenv spokVars) k = some v := by
  have hn' : NodupKeys spokVars := nodupKeys_perm hp hn
  have hm : (k, v) ∈ spokVars := hp.mem_iff.2 (mem_of_get_eq_some hk)
  unfold mergeEnv
  rw [lookup_append, lookup_eq_some_of_mem hn' hm]

/-- names the spokfile does not define come from the process: the ambient value if there is one
    (`godotenv.Load` never overrides) -/
theorem C13_env_ambient (ambient dotenv spokVars : EnvList) (k w : Str)
    (hk : k ∉ keys spokVars) (ha : lookup ambient k = some w) :
    lookup (mergeEnv ambient dotenv spokVars) k = some w := by
  unfold mergeEnv loadDotenv
  rw [lookup_append, lookup_none_of_not_key hk, lookup_append]
  have hkey := hasKey_of_lookup ha
  have : k ∉ keys ((dotenvMap dotenv).filter (fun p => !hasKey ambient p.1)) := by
    intro hm
    simp only [keys, List.mem_map, List.mem_filter] at hm
    obtain ⟨⟨k', v'⟩, ⟨_, hnot⟩, hkk⟩ := hm
    simp only at hkk
    subst hkk
    simp [hkey] at hnot
  rw [lookup_none_of_not_key this]
  simp [ha]

/-! ## the judge accepts the model -/

/-- Whatever row the model produces for a command of the generated subset is accepted by the executable
    judge's per-command test (which the check run applies to the rows of the *real binary*): the command text
    is the direct substitution, and where the command only mentions spokfile variables its output is the
    one computed from the spokfile values alone — for every ambient environment, `.env` and map order. -/
theorem C13_judge_accepts_model_row (scope final : Vars) (ambient dotenv spokVars : EnvList)
    (c : Command) (t : Str) (i : Nat) (row : Spok.Judge.Env.Row)
    (hwf : WF c.pieces) (hn : NodupKeys final) (hp : IsEnvOf spokVars final)
    (hrow : Spok.Judge.Env.modelRow scope (lookup (mergeEnv ambient dotenv spokVars)) t i c = some row) :
    Spok.Judge.Env.judgeCommand scope final c row = true := by
  unfold Spok.Judge.Env.modelRow at hrow
  have hexp : expand scope c.src = .ok (subst scope c.pieces) := C13_template scope c.pieces hwf
  rw [hexp] at hrow
  cases hout : c.stdout scope (lookup (mergeEnv ambient dotenv spokVars)) with
  | none => rw [hout] at hrow; simp at hrow
  | some out =>
    rw [hout] at hrow
    simp at hrow
    subst hrow
    unfold Spok.Judge.Env.judgeCommand
    simp only [decide_true, Bool.true_and, Bool.or_true, Bool.and_true]
    by_cases hcond : (Spok.Judge.Env.isWords c && Spok.Judge.Env.refsDefined scope c &&
        (Spok.Judge.Env.envNamesOf c).all (fun n => (get final n).isSome)) = true
    · have hall : ∀ n ∈ Spok.Judge.Env.envNamesOf c, lookup (mergeEnv ambient dotenv spokVars) n = get final n := by
        intro n hnm
        simp only [Bool.and_eq_true, List.all_eq_true] at hcond
        have := hcond.2 n hnm
        obtain ⟨v, hv⟩ := Option.isSome_iff_exists.1 this
        rw [hv]
        exact C13_env_map final ambient dotenv spokVars n v hn hp hv
      rw [← stdout_congr scope c hall, hout]
      simp
    · simp only [Bool.not_eq_true] at hcond
      simp [hcond]

/-! ## non-vacuity -/

section Examples

private def X : Str := ['X']
private def Y : Str := ['Y']
/-- `X := "a {{.Y}} $Y"`, `Y := ""` (a value that looks like a reference, and an empty one) -/
private def vars : Vars := set (set [] X ['a', ' ', '{', '{', '.', 'Y', '}', '}', ' ', '$', 'Y']) Y []

private theorem validX : ValidName X := ⟨⟨'X', [], rfl, by decide⟩, by decide⟩
private theorem validY : ValidName Y := ⟨⟨'Y', [], rfl, by decide⟩, by decide⟩

/-- `echo {{.X}}|{{.Y}}|{{.Z}} {` : the value of X is not expanded again, the empty Y leaves nothing, the
    undefined Z prints `<no value>`, the lone `{` stays -/
example : expand vars (render [.ch 'e', .ch 'c', .ch 'h', .ch 'o', .ch ' ', .ref X, .ch '|', .ref Y, .ch '|', .ref ['Z'], .ch ' ', .ch '{']) =
    .ok (['e', 'c', 'h', 'o', ' '] ++ ['a', ' ', '{', '{', '.', 'Y', '}', '}', ' ', '$', 'Y'] ++ ['|'] ++ [] ++ ['|'] ++
      noValue ++ [' ', '{']) := by
  rw [C13_template]
  · rfl
  · exact ⟨by decide, by decide, by decide, by decide, by decide, validX, by decide, validY, by decide,
      ⟨⟨'Z', [], rfl, by decide⟩, by decide⟩, by decide, by decide, trivial⟩

/-- the hypotheses of `C13_not_reexpanded` are satisfiable -/
example : expand vars (['a', '='] ++ refText X ++ [';']) = .ok (['a', '='] ++ ['a', ' ', '{', '{', '.', 'Y', '}', '}', ' ', '$', 'Y'] ++ [';']) :=
  C13_not_reexpanded vars X _ ['a', '='] [';'] validX
    ⟨by decide, by decide, validX, trivial⟩ ⟨by decide, trivial⟩ (by decide)

/-- `{{{.X}}` is not in the subset (text/template reads the action from the leftmost `{{`) -/
example : expand vars ['{', '{', '{', '.', 'X', '}', '}'] = .error .unmodelled := by
  simp [expand, tokenise_other]

/-- the D9 situation: `FOO := "s"`, ambient `FOO=a`, `.env` has `FOO=d`: the command sees `s` -/
example : lookup (mergeEnv [(['F'], ['a']), (['H'], ['h'])] [(['F'], ['d'])] [(['F'], ['s'])]) ['F'] = some ['s'] := by decide

/-- an ambient name beats the `.env` file, the `.env` file supplies names the process lacks -/
example : lookup (mergeEnv [(['A'], ['1'])] [(['A'], ['2']), (['B'], ['3'])] []) ['A'] = some ['1'] ∧
    lookup (mergeEnv [(['A'], ['1'])] [(['A'], ['2']), (['B'], ['3'])] []) ['B'] = some ['3'] := by decide

/-- a file that loads, with a variable equal to `""`, one defined after the task, and its environment -/
example : ∃ f, load ['/', 'p'] [.decl ['E'] (.str []), .task ⟨['t'], [['e', 'c', 'h', 'o']]⟩, .decl ['L'] (.str ['l'])] = .ok f ∧
    get f.vars ['E'] = some [] ∧ get f.vars ['L'] = some ['l'] := by
  refine ⟨⟨[(['E'], []), (['L'], ['l'])], [⟨['t'], [['e', 'c', 'h', 'o']], [(['E'], [])]⟩]⟩, ?_, by decide, by decide⟩
  simp [load, loadAux, evalRhs, expandAll, expand, Env.set, tokenise_ch, tokenise_nil, Except.map, subst]

/-- `join("a", "..", "b")` from `/p` is `/p/b`; `join()` is the working directory -/
example : evalRhs ['/', 'p'] (.join [['a'], ['.', '.'], ['b']]) = .ok ['/', 'p', '/', 'b'] ∧
    evalRhs ['/', 'p'] (.join []) = .ok ['/', 'p'] := ⟨rfl, rfl⟩

/-- `exec`: trimmed output, failing status -/
example : evalRhs [] (.exec [['x']] ⟨[' ', '\t', 'h', ' ', 'i', '\n', '\n'], 0⟩) = .ok ['h', ' ', 'i'] ∧
    evalRhs [] (.exec [['x']] ⟨['o'], 3⟩) = .error (.execFailed 3) := ⟨rfl, rfl⟩

end Examples

end Spok.Props.C13
