import Spok.Judge.Env
/-! # Property C13 — theorems (under construction) -/
namespace Spok.Props.C13
end Spok.Props.C13
