import Spok.Generated.Unicode
import Spok.Basic.Rune
/-! # Unicode classes, from Go's own range tables (regenerated from the toolchain on every run)

Go's `unicode.IsLetter/IsPunct/IsSpace` take a fast path for Latin-1 (a property array for letters and
punctuation, an explicit switch for spaces) and search the range tables otherwise.  The model does the
same for ASCII; `Spok/Props/Facts.lean` proves that the ASCII fast paths agree with the regenerated
tables, and the correspondence run compares the classification of non-ASCII runes on every run. -/
namespace Spok

def inTable : List (Nat × Nat × Nat) → Nat → Bool
  | [], _ => false
  | (lo, hi, stride) :: t, c => (lo ≤ c && c ≤ hi && (c - lo) % stride == 0) || inTable t c

def asciiLetter (c : Nat) : Bool := (65 ≤ c && c ≤ 90) || (97 ≤ c && c ≤ 122)
/-- ASCII code points of the Unicode punctuation categories: `! " # % & ' ( ) * , - . / : ; ? @ [ \ ] _ { }` -/
def asciiPunct (c : Nat) : Bool :=
  [33, 34, 35, 37, 38, 39, 40, 41, 42, 44, 45, 46, 47, 58, 59, 63, 64, 91, 92, 93, 95, 123, 125].contains c

/-- `unicode.IsSpace`: Latin-1 is special-cased in Go, the rest is the White_Space table -/
def isSpaceCp (c : Nat) : Bool :=
  if c ≤ 0xFF then c == 9 || c == 10 || c == 11 || c == 12 || c == 13 || c == 32 || c == 0x85 || c == 0xA0
  else inTable Generated.Unicode.space c
def isLetterCp (c : Nat) : Bool := if c < 128 then asciiLetter c else inTable Generated.Unicode.letter c
def isPunctCp (c : Nat) : Bool := if c < 128 then asciiPunct c else inTable Generated.Unicode.punct c

def isSpace (r : Rune) : Bool := isSpaceCp r.cp
def isLetter (r : Rune) : Bool := isLetterCp r.cp
def isPunct (r : Rune) : Bool := isPunctCp r.cp
/-- `isValidIdent` -/
def isIdent (r : Rune) : Bool := isLetter r || r.cp == 95
def isASCII (r : Rune) : Bool := r.cp ≤ 127

end Spok
