import Spok.Generated.Unicode
import Spok.Basic.Rune
/-! # Unicode classes, from Go's own range tables (regenerated from the toolchain on every run) -/
namespace Spok

def inTable (t : Array (Nat × Nat × Nat)) (c : Nat) : Bool :=
  t.any fun (lo, hi, stride) => lo ≤ c && c ≤ hi && (c - lo) % stride == 0

/-- `unicode.IsSpace`: Latin-1 is special-cased in Go, the rest is the White_Space table -/
def isSpaceCp (c : Nat) : Bool :=
  if c ≤ 0xFF then c == 9 || c == 10 || c == 11 || c == 12 || c == 13 || c == 32 || c == 0x85 || c == 0xA0
  else inTable Generated.Unicode.space c
def isLetterCp (c : Nat) : Bool := inTable Generated.Unicode.letter c
def isPunctCp (c : Nat) : Bool := inTable Generated.Unicode.punct c

def isSpace (r : Rune) : Bool := isSpaceCp r.cp
def isLetter (r : Rune) : Bool := isLetterCp r.cp
def isPunct (r : Rune) : Bool := isPunctCp r.cp
/-- `isValidIdent` -/
def isIdent (r : Rune) : Bool := isLetter r || r.cp == 95
def isASCII (r : Rune) : Bool := r.cp ≤ 127

end Spok
