/-! # Executable SHA-256 (FIPS 180-4) over byte lists

Core-only and total (structural recursion only). It is *not* used by any property theorem — those take the
hash function as a parameter `sha` — but by the oracle, which instantiates `sha := Spok.Sha256.sha256` to compare
digests byte for byte with `crypto/sha256`. The only fact about it used in `Props` is `sha256_length`
(the output has exactly 32 bytes), which makes the side condition of `C04_sensitive` satisfiable. -/
namespace Spok.Sha256

def K : Array UInt32 := #[
  0x428a2f98, 0x71374491, 0xb5c0fbcf, 0xe9b5dba5, 0x3956c25b, 0x59f111f1, 0x923f82a4, 0xab1c5ed5,
  0xd807aa98, 0x12835b01, 0x243185be, 0x550c7dc3, 0x72be5d74, 0x80deb1fe, 0x9bdc06a7, 0xc19bf174,
  0xe49b69c1, 0xefbe4786, 0x0fc19dc6, 0x240ca1cc, 0x2de92c6f, 0x4a7484aa, 0x5cb0a9dc, 0x76f988da,
  0x983e5152, 0xa831c66d, 0xb00327c8, 0xbf597fc7, 0xc6e00bf3, 0xd5a79147, 0x06ca6351, 0x14292967,
  0x27b70a85, 0x2e1b2138, 0x4d2c6dfc, 0x53380d13, 0x650a7354, 0x766a0abb, 0x81c2c92e, 0x92722c85,
  0xa2bfe8a1, 0xa81a664b, 0xc24b8b70, 0xc76c51a3, 0xd192e819, 0xd6990624, 0xf40e3585, 0x106aa070,
  0x19a4c116, 0x1e376c08, 0x2748774c, 0x34b0bcb5, 0x391c0cb3, 0x4ed8aa4a, 0x5b9cca4f, 0x682e6ff3,
  0x748f82ee, 0x78a5636f, 0x84c87814, 0x8cc70208, 0x90befffa, 0xa4506ceb, 0xbef9a3f7, 0xc67178f2]

/-- the eight working variables / the chaining value -/
structure St where
  a : UInt32
  b : UInt32
  c : UInt32
  d : UInt32
  e : UInt32
  f : UInt32
  g : UInt32
  h : UInt32

def H0 : St := ⟨0x6a09e667, 0xbb67ae85, 0x3c6ef372, 0xa54ff53a, 0x510e527f, 0x9b05688c, 0x1f83d9ab, 0x5be0cd19⟩

def rotr (x : UInt32) (n : UInt32) : UInt32 := (x >>> n) ||| (x <<< (32 - n))

/-- big-endian 32-bit words of a byte list (a trailing partial word is dropped; `pad` never leaves one) -/
def words : List UInt8 → List UInt32
  | a :: b :: c :: d :: rest =>
    ((a.toUInt32 <<< 24) ||| (b.toUInt32 <<< 16) ||| (c.toUInt32 <<< 8) ||| d.toUInt32) :: words rest
  | _ => []

/-- message schedule: extend the 16 block words to 64 -/
def schedule (w16 : List UInt32) : Array UInt32 :=
  (List.range 48).foldl (fun (w : Array UInt32) k =>
    let i := k + 16
    let x := w.getD (i - 15) 0
    let y := w.getD (i - 2) 0
    let s0 := rotr x 7 ^^^ rotr x 18 ^^^ (x >>> 3)
    let s1 := rotr y 17 ^^^ rotr y 19 ^^^ (y >>> 10)
    w.push (w.getD (i - 16) 0 + s0 + w.getD (i - 7) 0 + s1)) w16.toArray

def round (w : Array UInt32) (s : St) (i : Nat) : St :=
  let S1 := rotr s.e 6 ^^^ rotr s.e 11 ^^^ rotr s.e 25
  let ch := (s.e &&& s.f) ^^^ ((~~~ s.e) &&& s.g)
  let t1 := s.h + S1 + ch + K.getD i 0 + w.getD i 0
  let S0 := rotr s.a 2 ^^^ rotr s.a 13 ^^^ rotr s.a 22
  let maj := (s.a &&& s.b) ^^^ (s.a &&& s.c) ^^^ (s.b &&& s.c)
  let t2 := S0 + maj
  ⟨t1 + t2, s.a, s.b, s.c, s.d + t1, s.e, s.f, s.g⟩

/-- the compression function on one 64-byte block -/
def compress (h : St) (block : List UInt8) : St :=
  let w := schedule (words block)
  let s := (List.range 64).foldl (round w) h
  ⟨h.a + s.a, h.b + s.b, h.c + s.c, h.d + s.d, h.e + s.e, h.f + s.f, h.g + s.g, h.h + s.h⟩

def be64 (n : Nat) : List UInt8 :=
  [UInt8.ofNat (n >>> 56), UInt8.ofNat (n >>> 48), UInt8.ofNat (n >>> 40), UInt8.ofNat (n >>> 32),
   UInt8.ofNat (n >>> 24), UInt8.ofNat (n >>> 16), UInt8.ofNat (n >>> 8), UInt8.ofNat n]

/-- `msg ‖ 0x80 ‖ 0…0 ‖ bitlength(64, big endian)`, a multiple of 64 bytes -/
def pad (msg : List UInt8) : List UInt8 :=
  msg ++ (0x80 :: (List.replicate ((119 - msg.length % 64) % 64) 0 ++ be64 (msg.length * 8)))

/-- absorb `n` blocks -/
def absorb : Nat → St → List UInt8 → St
  | 0, h, _ => h
  | n + 1, h, bs => absorb n (compress h (bs.take 64)) (bs.drop 64)

def be32 (x : UInt32) : List UInt8 := [(x >>> 24).toUInt8, (x >>> 16).toUInt8, (x >>> 8).toUInt8, x.toUInt8]

def out (s : St) : List UInt8 :=
  be32 s.a ++ be32 s.b ++ be32 s.c ++ be32 s.d ++ be32 s.e ++ be32 s.f ++ be32 s.g ++ be32 s.h

def sha256 (msg : List UInt8) : List UInt8 :=
  let p := pad msg
  out (absorb (p.length / 64) H0 p)

/-- the only fact about the executable instance that the property theorems' side condition needs -/
theorem sha256_length (msg : List UInt8) : (sha256 msg).length = 32 := by
  simp [sha256, out, be32]

/-! FIPS 180-4 test vectors, checked by kernel evaluation (no axioms) -/

/-- SHA-256("") = e3b0c442 98fc1c14 9afbf4c8 996fb924 27ae41e4 649b934c a495991b 7852b855 -/
example : sha256 [] =
    [0xe3, 0xb0, 0xc4, 0x42, 0x98, 0xfc, 0x1c, 0x14, 0x9a, 0xfb, 0xf4, 0xc8, 0x99, 0x6f, 0xb9, 0x24,
     0x27, 0xae, 0x41, 0xe4, 0x64, 0x9b, 0x93, 0x4c, 0xa4, 0x95, 0x99, 0x1b, 0x78, 0x52, 0xb8, 0x55] := by
  decide +kernel

/-- SHA-256("abc") = ba7816bf 8f01cfea 414140de 5dae2223 b00361a3 96177a9c b410ff61 f20015ad -/
example : sha256 [0x61, 0x62, 0x63] =
    [0xba, 0x78, 0x16, 0xbf, 0x8f, 0x01, 0xcf, 0xea, 0x41, 0x41, 0x40, 0xde, 0x5d, 0xae, 0x22, 0x23,
     0xb0, 0x03, 0x61, 0xa3, 0x96, 0x17, 0x7a, 0x9c, 0xb4, 0x10, 0xff, 0x61, 0xf2, 0x00, 0x15, 0xad] := by
  decide +kernel

/-- two-block message (56 bytes, FIPS 180-4 B.2): "abcdbcdecdefdefgefghfghighijhijkijkljklmklmnlmnomnopnopq" -/
example : sha256 ("abcdbcdecdefdefgefghfghighijhijkijkljklmklmnlmnomnopnopq".toUTF8.toList) =
    [0x24, 0x8d, 0x6a, 0x61, 0xd2, 0x06, 0x38, 0xb8, 0xe5, 0xc0, 0x26, 0x93, 0x0c, 0x3e, 0x60, 0x39,
     0xa3, 0x3c, 0xe4, 0x59, 0x64, 0xff, 0x21, 0x67, 0xf6, 0xec, 0xed, 0xd4, 0x19, 0xdb, 0x06, 0xc1] := by
  decide +kernel

end Spok.Sha256
