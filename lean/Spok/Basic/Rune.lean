/-! # Runes and UTF-8 decoding with Go's semantics

`decode1` follows `utf8.DecodeRuneInString`: an invalid or truncated sequence decodes to
U+FFFD with width 1.  A `Rune` carries the bytes it was decoded from, so that a list of runes
determines the byte string it came from (`flat (decodeAll bs) = bs`). -/
namespace Spok

structure Rune where
  cp : Nat
  /-- first byte -/
  b0 : UInt8
  /-- the remaining bytes (a rune is never empty) -/
  more : List UInt8
deriving DecidableEq, Repr, Inhabited

def Rune.bytes (r : Rune) : List UInt8 := r.b0 :: r.more

/-- width in bytes, always at least one -/
def Rune.w (r : Rune) : Nat := r.more.length + 1

theorem Rune.w_pos (r : Rune) : 1 ≤ r.w := by simp [Rune.w]
theorem Rune.w_ne_zero (r : Rune) : (r.w == 0) = false := by simp [Rune.w]
theorem Rune.bytes_length (r : Rune) : r.bytes.length = r.w := by simp [Rune.bytes, Rune.w]

/-- an ASCII rune -/
def asc (c : Nat) : Rune := ⟨c, UInt8.ofNat c, []⟩

def cont (b : UInt8) : Bool := 0x80 ≤ b.toNat && b.toNat ≤ 0xBF

/-- what `next()` returns at end of input: RuneError (the lexer records width 0 for it itself) -/
def eofRune : Rune := ⟨0xFFFD, 0, []⟩

/-- one step of `utf8.DecodeRuneInString` on a non-empty input -/
def decode1 (b0 : UInt8) (rest : List UInt8) : Rune :=
  let n0 := b0.toNat
  let bad : Rune := ⟨0xFFFD, b0, []⟩
  if n0 < 0x80 then ⟨n0, b0, []⟩
  else if n0 < 0xC2 then bad
  else if n0 < 0xE0 then
    match rest with
    | b1 :: _ => if cont b1 then ⟨(n0 % 32) * 64 + b1.toNat % 64, b0, [b1]⟩ else bad
    | _ => bad
  else if n0 < 0xF0 then
    match rest with
    | b1 :: b2 :: _ =>
      let lo := if n0 == 0xE0 then 0xA0 else 0x80
      let hi := if n0 == 0xED then 0x9F else 0xBF
      if lo ≤ b1.toNat && b1.toNat ≤ hi && cont b2 then
        ⟨(n0 % 16) * 4096 + (b1.toNat % 64) * 64 + b2.toNat % 64, b0, [b1, b2]⟩ else bad
    | _ => bad
  else if n0 < 0xF5 then
    match rest with
    | b1 :: b2 :: b3 :: _ =>
      let lo := if n0 == 0xF0 then 0x90 else 0x80
      let hi := if n0 == 0xF4 then 0x8F else 0xBF
      if lo ≤ b1.toNat && b1.toNat ≤ hi && cont b2 && cont b3 then
        ⟨(n0 % 8) * 262144 + (b1.toNat % 64) * 4096 + (b2.toNat % 64) * 64 + b3.toNat % 64, b0, [b1, b2, b3]⟩
      else bad
    | _ => bad
  else bad

/-- the decoded rune's bytes are a non-empty prefix of the input -/
theorem decode1_bytes (b0 : UInt8) (rest : List UInt8) :
    ∃ k, (decode1 b0 rest).bytes = b0 :: rest.take k ∧ k ≤ rest.length := by
  unfold decode1
  simp only []
  repeat' split
  all_goals first
    | (refine ⟨0, ?_, ?_⟩ <;> simp [Rune.bytes]; done)
    | (refine ⟨1, ?_, ?_⟩ <;> simp [Rune.bytes]; done)
    | (refine ⟨2, ?_, ?_⟩ <;> simp [Rune.bytes]; done)
    | (refine ⟨3, ?_, ?_⟩ <;> simp [Rune.bytes]; done)

theorem decode1_w_pos (b0 : UInt8) (rest : List UInt8) : 1 ≤ (decode1 b0 rest).w := Rune.w_pos _

theorem decode1_w_le (b0 : UInt8) (rest : List UInt8) : (decode1 b0 rest).w ≤ (b0 :: rest).length := by
  obtain ⟨k, hk, hle⟩ := decode1_bytes b0 rest
  rw [← Rune.bytes_length, hk]; simp; omega

/-- decode a whole byte string, Go style -/
def decodeAll : List UInt8 → List Rune
  | [] => []
  | b0 :: rest =>
    let r := decode1 b0 rest
    r :: decodeAll ((b0 :: rest).drop r.w)
termination_by bs => bs.length
decreasing_by
  have := decode1_w_pos b0 rest
  simp [List.length_drop]; omega

def flat (rs : List Rune) : List UInt8 := rs.flatMap (·.bytes)

/-- decoding is a partition of the input -/
theorem flat_decodeAll (bs : List UInt8) : flat (decodeAll bs) = bs := by
  induction h : bs.length using Nat.strongRecOn generalizing bs with
  | _ n ih =>
    cases bs with
    | nil => simp [decodeAll, flat]
    | cons b0 rest =>
      rw [decodeAll]
      simp only [flat, List.flatMap_cons]
      obtain ⟨k, hk, hle⟩ := decode1_bytes b0 rest
      have hw : (decode1 b0 rest).w = k + 1 := by rw [← Rune.bytes_length, hk]; simp; omega
      have := ih ((b0 :: rest).drop (decode1 b0 rest).w).length (by
        subst h; have := decode1_w_pos b0 rest; simp [List.length_drop]; omega) _ rfl
      simp only [flat] at this
      rw [this, hk, hw]
      simp

def strRunes (s : String) : List Rune := decodeAll s.toUTF8.toList

end Spok
