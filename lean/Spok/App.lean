/-! # `cli/app/app.go` as decision logic stated outright (engine **cli**: C09, C19, C20)

The model mirrors the *order* of `App.Run`:

```
--init  ▸  --quiet ∧ --debug  ▸  setup (find | --spokfile, name check, .env)  ▸  read  ▸  parse  ▸  load (file.New)
        ▸  switch  --fmt | --vars | --clean | --show | (no task names: default task or listing) | run the named tasks
```

Everything the real program learns from the file system, the parser and the loader is a field of `World`;
everything it learns from running commands is a `List Result` (an oracle argument: the harness feeds the
model what the side-effect log says really ran).  No `text/template`, `mvdan/sh`, `tabwriter`, `encoding/json`
text, `godotenv` here: those are "modelled, not verified" (DESIGN §5) and the tie to the real binary is the
correspondence run of `vh-cli`. -/
namespace Spok.App

/-- the flags of `cli/cmd/root.go`; `spokfileGiven` = `--spokfile PATH` was passed -/
structure Options where
  init : Bool := false
  quiet : Bool := false
  debug : Bool := false
  json : Bool := false
  fmt : Bool := false
  vars : Bool := false
  clean : Bool := false
  «show» : Bool := false
  force : Bool := false
  spokfileGiven : Bool := false
deriving Repr, DecidableEq, Inhabited

/-- what a path is, as `os.Lstat` (the directory entry itself) and `os.Stat` (symbolic links followed) see it -/
inductive Entry where
  /-- no such directory entry -/
  | absent
  /-- a regular file -/
  | file
  /-- a directory -/
  | dir
  /-- a symbolic link behind which `os.Stat` finds a regular file -/
  | linkFile
  /-- a symbolic link behind which `os.Stat` finds a directory -/
  | linkDir
  /-- a symbolic link whose target does not exist (`os.Lstat` succeeds, `os.Stat` fails; so does a link loop) -/
  | dangling
deriving Repr, DecidableEq, Inhabited

/-- `exists(path)` of `cli/app/app.go`: `os.Stat(path)` returns no error.  `os.Stat` FOLLOWS symbolic links: a
    link to a file or to a directory exists, a dangling link does not. -/
def Entry.statOk : Entry → Bool
  | .absent | .dangling => false
  | .file | .dir | .linkFile | .linkDir => true

/-- `os.Lstat(path)` + `Mode().IsRegular()`: NOT what `exists` does (stated for comparison: this variant does not
    see a spokfile that is reached through a symbolic link) -/
def Entry.lstatRegular : Entry → Bool
  | .file => true
  | _ => false

def Entry.isLink : Entry → Bool
  | .linkFile | .linkDir | .dangling => true
  | _ => false

/-- the test of `file.Find` on a directory entry named `spokfile`: `!e.IsDir()`.  `DirEntry.IsDir` looks at the
    entry itself, so ANY symbolic link passes, whatever is behind it. -/
def Entry.findable : Entry → Bool
  | .absent | .dir => false
  | .file | .linkFile | .linkDir | .dangling => true

/-- `os.ReadFile(path)` succeeds (links followed; unreadable permissions are not generated) -/
def Entry.readable : Entry → Bool
  | .file | .linkFile => true
  | _ => false

/-- what one invocation finds around it -/
structure World where
  /-- what `<cwd>/spokfile` is (looked at by `exists(path)` in `initialise`) -/
  cwdEntry : Entry := .absent
  /-- `file.Find` (cwd upwards to `$HOME`) finds a spokfile, i.e. a `findable` entry; irrelevant with `--spokfile` -/
  found : Bool := true
  /-- the base name of the path is `spokfile` (always so for a found one) -/
  nameOk : Bool := true
  /-- nothing that `os.Stat` finds at `.env` next to it, or `godotenv.Load` accepts it (links followed) -/
  dotenvOk : Bool := true
  /-- `os.ReadFile` succeeds (not so when the spokfile path is a link to a directory or a dangling link) -/
  readable : Bool := true
  /-- `parser.Parse` succeeds -/
  parses : Bool := true
  /-- `file.New` succeeds (no duplicate task, builtins defined and successful, templates expand) -/
  loads : Bool := true
  hasDefault : Bool := false
  hasClean : Bool := false
deriving Repr, DecidableEq, Inhabited

/-- `exists(<cwd>/spokfile)` in `initialise`: an entry called `spokfile` exists in the working directory, symbolic
    links followed.  A spokfile reached through a link IS an existing spokfile. -/
def World.cwdSpokfile (w : World) : Bool := w.cwdEntry.statOk

inductive Err where
  | initExists | quietDebug | notFound | badName | dotenv | read | parse | load
deriving Repr, DecidableEq

inductive Action where
  | initialise
  | error (e : Err)
  | fmt | vars | cleanTask | clean | «show» | runDefault | list
  | run (tasks : List String)
deriving Repr, DecidableEq

/-- `setup()`, `os.ReadFile`, `parser.Parse`, `file.New`, in that order: the first thing that goes wrong -/
def prepare (o : Options) (w : World) : Option Err :=
  if !o.spokfileGiven && !w.found then some .notFound
  else if !w.nameOk then some .badName
  else if !w.dotenvOk then some .dotenv
  else if !w.readable then some .read
  else if !w.parses then some .parse
  else if !w.loads then some .load
  else none

/-- the `switch` at the end of `App.Run` -/
def dispatch (o : Options) (args : List String) (w : World) : Action :=
  if o.fmt then .fmt
  else if o.vars then .vars
  else if o.clean then (if w.hasClean then .cleanTask else .clean)
  else if o.show then .show
  else match args with
    | [] => if w.hasDefault then .runDefault else .list
    | ts => .run ts

/-- `App.Run` up to and including the `switch` -/
def action (o : Options) (args : List String) (w : World) : Action :=
  if o.init then (if w.cwdSpokfile then .error .initExists else .initialise)
  else if o.quiet && o.debug then .error .quietDebug
  else match prepare o w with
    | some e => .error e
    | none => dispatch o args w

/-- `handleDefault` on its own -/
def defaultDispatch (hasDefault : Bool) : Action := if hasDefault then .runDefault else .list

/-- the task names handed to `runTasks` -/
def requested : Action → List String
  | .runDefault => ["default"]
  | .cleanTask => ["clean"]
  | .run ts => ts
  | _ => []

def Action.isRun : Action → Bool
  | .runDefault | .cleanTask | .run _ => true
  | _ => false

/-- setup, read, parse and load all succeed -/
def World.ok (o : Options) (w : World) : Bool :=
  (o.spokfileGiven || w.found) && w.nameOk && w.dotenvOk && w.readable && w.parses && w.loads

/-! ## what spok itself writes (C19) -/

/-- Targets are FILES, named by the path spok uses for them: where that path is a symbolic link the target is
    what the link designates (every write of app.go goes through `os.WriteFile` / `os.OpenFile`, which follow
    links; spok never replaces or removes a link itself). -/
inductive Target where
  | spokfile       -- the spokfile in use (the file the found / given path designates)
  | cwdSpokfile    -- what `<cwd>/spokfile` designates, and that did not exist before (for a dangling link: its target)
  | cwdGitignore   -- what `<cwd>/.gitignore` designates
  | cache          -- anything under `<spokfile dir>/.spok`
  | outputs        -- declared outputs (only `--clean`; C12 is about which)
deriving Repr, DecidableEq

inductive Kind where
  | create | modify | append | delete
deriving Repr, DecidableEq

structure Write where
  target : Target
  kind : Kind
deriving Repr, DecidableEq

/-- the writes of each branch of `App.Run` (the code as it is) -/
def writes : Action → List Write
  | .initialise => [⟨.cwdSpokfile, .create⟩, ⟨.cwdGitignore, .append⟩]   -- os.WriteFile after the exists check; O_APPEND|O_CREATE
  | .error _ => []
  | .fmt => [⟨.spokfile, .modify⟩]                                        -- os.WriteFile(spokfile, tree.String())
  | .vars | .show | .list => []
  | .clean => [⟨.cache, .delete⟩, ⟨.outputs, .delete⟩]
  | .cleanTask | .runDefault | .run _ => [⟨.cache, .create⟩, ⟨.cache, .modify⟩]  -- cache.Init / Dump in SpokFile.run

/-- the property's table: what the chosen action may touch -/
def allowedWrites (a : Action) (w : World) : List Write :=
  match a with
  | .fmt => if w.parses && w.loads then [⟨.spokfile, .modify⟩] else []
  | .initialise => if w.cwdSpokfile then [] else [⟨.cwdSpokfile, .create⟩, ⟨.cwdGitignore, .append⟩]
  | .vars | .show | .list | .error _ => []
  | .clean => [⟨.cache, .delete⟩, ⟨.outputs, .delete⟩]
  | .cleanTask | .runDefault | .run _ => [⟨.cache, .create⟩, ⟨.cache, .modify⟩, ⟨.cache, .delete⟩]

/-- the same table read off the *flags* (no dispatch order involved): this is what the judge applies to
    the snapshot diff of the real binary.  The cache directory is set aside by the property itself. -/
def permitted (o : Options) (w : World) (d : Write) : Bool :=
  match d.target, d.kind with
  | .cache, _ => true
  | .spokfile, .modify => o.fmt && !o.init && w.parses && w.loads
  | .cwdSpokfile, .create => o.init && !w.cwdSpokfile
  | .cwdGitignore, .append => o.init && !w.cwdSpokfile
  | .outputs, .delete => o.clean && !o.init
  | _, _ => false

/-! ## results and the process outcome (C09) -/

structure CmdResult where
  cmd : String
  stdout : String
  stderr : String
  status : Nat
deriving Repr, DecidableEq, Inhabited

structure Result where
  task : String
  cmds : List CmdResult
  skipped : Bool
deriving Repr, DecidableEq, Inhabited

def CmdResult.ok (c : CmdResult) : Bool := c.status == 0
def Result.ok (r : Result) : Bool := r.cmds.all CmdResult.ok

/-- the loop of `runTasks`: the first non-ok command of the first non-ok task -/
def firstFailing : List Result → Option (String × CmdResult)
  | [] => none
  | r :: rs =>
    if r.ok then firstFailing rs
    else match r.cmds.find? (fun c => !c.ok) with
      | some c => some (r.task, c)
      | none => firstFailing rs

structure Outcome where
  exit : Nat
  /-- the task named by the error that `main` prints -/
  failingTask : Option String
  failingCmd : Option CmdResult
deriving Repr, DecidableEq

/-- `runTasks` + `main`: an error is printed and the process exits 1, whatever the flags -/
def outcome (_o : Options) (rs : List Result) : Outcome :=
  match firstFailing rs with
  | some (t, c) => ⟨1, some t, some c⟩
  | none => ⟨0, none, none⟩

/-! ## reports (C20) -/

/-- an abstract JSON value (`encoding/json`'s text layer is not modelled) -/
inductive JVal where
  | null
  | bool (b : Bool)
  | num (n : Nat)
  | str (s : String)
  | arr (xs : List JVal)
  | obj (kvs : List (String × JVal))

def cmdJson (c : CmdResult) : JVal :=
  .obj [("cmd", .str c.cmd), ("stdout", .str c.stdout), ("stderr", .str c.stderr), ("status", .num c.status)]

/-- `json.Marshal(task.Result)`: a nil `CommandResults` (skipped task, task without commands) is `null` -/
def resultJson (r : Result) : JVal :=
  .obj [("task", .str r.task),
        ("results", if r.cmds.isEmpty then .null else .arr (r.cmds.map cmdJson)),
        ("skipped", .bool r.skipped)]

/-- `Results.JSON()` -/
def jsonDoc (rs : List Result) : JVal := .arr (rs.map resultJson)

/-- a reader of that document -/
def field (k : String) : List (String × JVal) → Option JVal
  | [] => none
  | (k', v) :: rest => if k' == k then some v else field k rest

def optMap {α β} (f : α → Option β) : List α → Option (List β)
  | [] => some []
  | x :: xs => match f x, optMap f xs with
    | some y, some ys => some (y :: ys)
    | _, _ => none

def decodeCmd : JVal → Option CmdResult
  | .obj kvs =>
    match field "cmd" kvs, field "stdout" kvs, field "stderr" kvs, field "status" kvs with
    | some (.str c), some (.str o), some (.str e), some (.num s) => some ⟨c, o, e, s⟩
    | _, _, _, _ => none
  | _ => none

def decodeResult : JVal → Option Result
  | .obj kvs =>
    match field "task" kvs, field "results" kvs, field "skipped" kvs with
    | some (.str t), some .null, some (.bool s) => some ⟨t, [], s⟩
    | some (.str t), some (.arr xs), some (.bool s) => (optMap decodeCmd xs).map fun cs => ⟨t, cs, s⟩
    | _, _, _ => none
  | _ => none

def decode : JVal → Option (List Result)
  | .arr xs => optMap decodeResult xs
  | _ => none

/-- `showTasks`: names of the task map, `sort.Strings`, each with its docstring -/
def byName (a b : String × String) : Bool := decide (a.1 ≤ b.1)
def showRows (tasks : List (String × String)) : List (String × String) := tasks.mergeSort byName
/-- `showVariables`: the same over (name, evaluated value) -/
def varsRows (vars : List (String × String)) : List (String × String) := vars.mergeSort byName

/-- `--quiet` and `--json` both swap the stream for `iostream.Null()` -/
def nullStream (o : Options) : Bool := o.quiet || o.json

inductive Out where
  | empty
  /-- human-readable text (echoed commands, command output, messages); only the command markers are compared -/
  | text
  | taskRows (rows : List (String × String))
  | varRows (rows : List (String × String))
  | json (doc : JVal)

/-- stdout of `runTasks`: the document is printed with `fmt.Println` (the real stdout) after the loop,
    hence only when no command failed; everything else goes through the stream -/
def runStdout (o : Options) (rs : List Result) : Out :=
  if o.json && (firstFailing rs).isNone then .json (jsonDoc rs)
  else if nullStream o then .empty else .text

/-- stdout of a whole invocation; `ran = none` when `SpokFile.Run` itself returned an error (unknown task …) -/
def stdoutOf (o : Options) (a : Action) (tasks vars : List (String × String)) (ran : Option (List Result)) : Out :=
  match a with
  | .initialise | .error _ => .empty
  | .fmt | .clean => if nullStream o then .empty else .text
  | .vars => if nullStream o then .empty else .varRows (varsRows vars)
  | .show | .list => if nullStream o then .empty else .taskRows (showRows tasks)
  | .cleanTask | .runDefault | .run _ =>
    match ran with
    | none => .empty
    | some rs => runStdout o rs

def Out.isEmpty : Out → Bool
  | .empty => true
  | _ => false

/-- exit status of a whole invocation (for `.initialise`: when both writes succeed; `os.WriteFile` through a
    dangling link into a missing directory, or a `.gitignore` that is a directory, make it 1: the oracle's
    little file system decides that) -/
def exitOf (o : Options) (a : Action) (ran : Option (List Result)) : Nat :=
  match a with
  | .error _ => 1
  | .initialise | .fmt | .vars | .show | .list | .clean => 0
  | .cleanTask | .runDefault | .run _ =>
    match ran with
    | none => 1
    | some rs => (outcome o rs).exit

end Spok.App
