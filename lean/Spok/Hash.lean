/-! # Model of `hash.Concurrent.Hash` (hash/hash.go), the digest as a function

What the Go code computes, with the goroutines taken out (they are in `HashPool.lean`):

* every list entry is a *job*; a worker opens the path: a directory produces **no** result, a path that cannot be
  opened / stat'ed / read produces an **error** result, a regular file produces `sha256(content)`;
* main turns every non-error result into the 64-byte item `sha256(content) ++ sha256(path)`;
* if any result was an error the call returns an error (which of several is reported depends on completion order and
  is not modelled: errors are one class);
* otherwise the items are sorted bytewise (`sort.Stable` + `bytes.Compare`), concatenated, hashed, hex-encoded.

`sha` is a parameter everywhere (DESIGN §4): no theorem assumes anything cryptographic about it. -/
namespace Spok.Hash

abbrev Bytes := List UInt8
abbrev Path := Bytes

/-- what the file system holds at a path, as far as the hasher can tell -/
inductive Entry where
  | regular (content : Bytes)
  | dir
  /-- `os.Open`, `Stat` or the read fails: missing file, dangling symlink, a parent that is a regular file, … -/
  | unreadable
deriving DecidableEq, Repr

/-- the only error class of `Hash` -/
inductive Err where
  | unreadable
deriving DecidableEq, Repr

/-- what a worker sends to main for one job (hash/hash.go `result`; for an error the item is never used) -/
inductive Res where
  | item (bytes : Bytes)
  | err
deriving DecidableEq, Repr

/-- the fixed-width item of one regular file -/
def item (sha : Bytes → Bytes) (p : Path) (content : Bytes) : Bytes := sha content ++ sha p

/-- one job: `none` = nothing is sent (directory) -/
def jobResult (sha : Bytes → Bytes) : Path × Entry → Option Res
  | (p, .regular c) => some (.item (item sha p c))
  | (_, .dir) => none
  | (_, .unreadable) => some .err

/-- the results main receives, here in list order (the pool delivers a permutation of this) -/
def results (sha : Bytes → Bytes) (files : List (Path × Entry)) : List Res := files.filterMap (jobResult sha)

def Res.isErr : Res → Bool
  | .err => true
  | .item _ => false

def Res.item? : Res → Option Bytes
  | .item b => some b
  | .err => none

/-- `bytes.Compare a b ≤ 0`: bytewise lexicographic order, a proper prefix is smaller -/
def ble : Bytes → Bytes → Bool
  | [], _ => true
  | _ :: _, [] => false
  | a :: as, b :: bs => a < b || (a == b && ble as bs)

def sort (l : List Bytes) : List Bytes := l.mergeSort ble

def hexDigit (n : Nat) : Char := if n < 10 then Char.ofNat (48 + n) else Char.ofNat (87 + n)
def hexChars : Bytes → List Char
  | [] => []
  | b :: bs => hexDigit (b.toNat / 16) :: hexDigit (b.toNat % 16) :: hexChars bs
/-- `hex.EncodeToString` -/
def hex (bs : Bytes) : String := String.ofList (hexChars bs)

/-- what main does with the received results, whatever order they arrived in -/
def finish (sha : Bytes → Bytes) (rs : List Res) : Except Err String :=
  if rs.any Res.isErr then .error .unreadable
  else .ok (hex (sha (sort (rs.filterMap Res.item?)).flatten))

/-- `hash.New().Hash(files)`; `files` pairs every list entry with what the file system holds there -/
def digest (sha : Bytes → Bytes) (files : List (Path × Entry)) : Except Err String :=
  finish sha (results sha files)

/-- the (path, content) pairs of the regular files in the list, with multiplicity, in list order -/
def regs : List (Path × Entry) → List (Path × Bytes)
  | [] => []
  | (p, .regular c) :: t => (p, c) :: regs t
  | (_, _) :: t => regs t

/-- a list of paths looked up in a file system -/
def listing (fs : Path → Entry) (paths : List Path) : List (Path × Entry) := paths.map fun p => (p, fs p)

/-- an explicit collision of the hash function: the only way the sensitivity statements can fail -/
def Collision (sha : Bytes → Bytes) : Prop := ∃ x y, x ≠ y ∧ sha x = sha y

end Spok.Hash
