import Spok.Clean
/-! # Model of how variables reach commands (property C13)

* `tokenise` / `expand`: `text/template` for the subset *text + `{{.NAME}}`* as `task.expandVars` uses it
  (a map as data, default `missingkey`: a missing key prints `<no value>`); anything else between
  `{{` and `}}` is outside the model and rejected (`unmodelled`), the generator never produces it.
* `evalRhs`: the right-hand sides of `file.New`: string literal, `join(...)`, `exec(...)` (the latter
  as a function of the recorded outcome of the command).
* `Vars`, `load`: variables are assigned in file order into a map, each task sees the map as it is
  when the task is reached (`task.New(taskNode, root, file.Vars)`).
* `mergeEnv`, `lookup`: `godotenv.Load` (never overrides), `append(os.Environ(), spokVars...)` and
  `expand.ListEnviron` (the last duplicate of a name wins).

Text is `List Char`. Core Lean only. -/
namespace Spok.Env
open Spok.Clean (Str)

/-! ## text/template subset -/

def isNameStart (c : Char) : Bool := c.isAlpha || c = '_'
def isNameChar (c : Char) : Bool := c.isAlphanum || c = '_'

inductive Piece where
  | ch (c : Char)          -- one character of ordinary text
  | ref (name : Str)       -- `{{.name}}`
  deriving DecidableEq, Repr

/-- the longest prefix of name characters and the rest -/
def spanName : Str → Str × Str
  | [] => ([], [])
  | c :: cs => if isNameChar c then ((c :: (spanName cs).1), (spanName cs).2) else ([], c :: cs)

theorem spanName_length (s : Str) : (spanName s).2.length ≤ s.length := by
  induction s with
  | nil => simp [spanName]
  | cons c cs ih => unfold spanName; split <;> simp <;> omega

/-- after `{{.`: the longest run of name characters, then exactly `}}`; the name must start with a letter
    or `_` (a digit would start a number in text/template) -/
def parseRef (s : Str) : Option (Str × Str) :=
  match (spanName s).1, (spanName s).2 with
  | n0 :: n, '}' :: '}' :: r => if isNameStart n0 then some (n0 :: n, r) else none
  | _, _ => none

theorem parseRef_length {s n r} (h : parseRef s = some (n, r)) : r.length < s.length + 1 := by
  unfold parseRef at h
  have hl := spanName_length s
  split at h
  · rename_i n0 n' r' _ h2
    split at h
    · simp at h; rw [h2] at hl; simp at hl; obtain ⟨_, rfl⟩ := h; omega
    · simp at h
  · simp at h

set_option linter.unusedVariables false in
/-- the leftmost `{{` always opens an action, as in text/template's `lexText`; the only action of the
    subset is `{{.NAME}}` -/
def tokenise : Str → Option (List Piece)
  | [] => some []
  | c :: rest =>
    if c = '{' ∧ rest.head? = some '{' then
      match ht : rest.tail with
      | '.' :: r0 =>
        match h : parseRef r0 with
        | none => none
        | some (n, r) => (tokenise r).map (Piece.ref n :: ·)
      | _ => none                                   -- some other action: not modelled
    else (tokenise rest).map (Piece.ch c :: ·)
termination_by s => s.length
decreasing_by
  all_goals simp_wf
  have := parseRef_length h
  cases rest with
  | nil => simp at ht
  | cons a b => simp at ht; subst ht; simp; omega

abbrev Vars := List (Str × Str)

/-- map lookup; keys are unique in a `Vars` built with `set` -/
def get (vs : Vars) (k : Str) : Option Str :=
  match vs with
  | [] => none
  | (k', v) :: rest => if k' = k then some v else get rest k

/-- map assignment: replace in place or add -/
def set (vs : Vars) (k v : Str) : Vars :=
  match vs with
  | [] => [(k, v)]
  | (k', v') :: rest => if k' = k then (k, v) :: rest else (k', v') :: set rest k v

def noValue : Str := "<no value>".toList

/-- what `{{.name}}` prints -/
def value (vs : Vars) (n : Str) : Str := (get vs n).getD noValue

/-- direct textual substitution: references replaced by values, every other character kept;
    a value is appended as it is (it is not looked at again) -/
def subst (vs : Vars) : List Piece → Str
  | [] => []
  | .ch c :: ps => c :: subst vs ps
  | .ref n :: ps => value vs n ++ subst vs ps

def refText (n : Str) : Str := '{' :: '{' :: '.' :: n ++ ['}', '}']

/-- the source text of a piece list -/
def render : List Piece → Str
  | [] => []
  | .ch c :: ps => c :: render ps
  | .ref n :: ps => refText n ++ render ps

inductive TErr where
  | unmodelled
  deriving DecidableEq, Repr

/-- `task.expandVars` on the subset -/
def expand (vs : Vars) (cmd : Str) : Except TErr Str :=
  match tokenise cmd with
  | none => .error .unmodelled
  | some ps => .ok (subst vs ps)

/-! ## builtins -/

/-- Go's `unicode.IsSpace` on Latin-1 (what `strings.TrimSpace` removes) -/
def isSpace (c : Char) : Bool :=
  c = ' ' || c = '\t' || c = '\n' || c = '\r' || c.toNat = 11 || c.toNat = 12 || c.toNat = 0x85 || c.toNat = 0xA0

def trimLeft (s : Str) : Str := s.dropWhile isSpace
def trimRight (s : Str) : Str := (s.reverse.dropWhile isSpace).reverse
/-- `strings.TrimSpace` -/
def trim (s : Str) : Str := trimRight (trimLeft s)

/-- what running a shell command gave -/
structure Outcome where
  stdout : Str
  status : Nat
  deriving DecidableEq, Repr

inductive Rhs where
  | str (v : Str)
  | join (args : List Str)
  | exec (args : List Str) (o : Outcome)      -- `o`: recorded outcome of running `args[0]`
  deriving Repr

inductive Err where
  | execArity
  | execFailed (status : Nat)
  | template
  | duplicateTask
  deriving DecidableEq, Repr

/-- builtin `join`: `filepath.Abs(filepath.Join(parts...))` -/
def joinBuiltin (cwd : Str) (args : List Str) : Str := Clean.abs cwd (Clean.join args)

/-- builtin `exec`: exactly one argument; a non-zero status is an error; stdout trimmed -/
def execBuiltin (args : List Str) (o : Outcome) : Except Err Str :=
  match args with
  | [_] => if o.status = 0 then .ok (trim o.stdout) else .error (.execFailed o.status)
  | _ => .error .execArity

def evalRhs (cwd : Str) : Rhs → Except Err Str
  | .str v => .ok v
  | .join args => .ok (joinBuiltin cwd args)
  | .exec args o => execBuiltin args o

/-! ## file.New: statements in order -/

structure TaskSrc where
  name : Str
  commands : List Str          -- source text of each command line
  deriving Repr

inductive Stmt where
  | decl (name : Str) (rhs : Rhs)
  | task (t : TaskSrc)
  deriving Repr

structure Loaded where
  name : Str
  commands : List Str          -- after template expansion
  scope : Vars                 -- ghost: the variables assigned before the task
  deriving Repr

structure File where
  vars : Vars
  tasks : List Loaded
  deriving Repr

def expandAll (vs : Vars) : List Str → Except Err (List Str)
  | [] => .ok []
  | c :: cs =>
    match expand vs c with
    | .error _ => .error .template
    | .ok e => (expandAll vs cs).map (e :: ·)

def loadAux (cwd : Str) : List Stmt → File → Except Err File
  | [], f => .ok f
  | .decl n rhs :: rest, f =>
    match evalRhs cwd rhs with
    | .error e => .error e
    | .ok v => loadAux cwd rest { f with vars := set f.vars n v }
  | .task t :: rest, f =>
    match expandAll f.vars t.commands with
    | .error e => .error e
    | .ok cs =>
      if f.tasks.any (fun l => l.name = t.name) then .error .duplicateTask
      else loadAux cwd rest { f with tasks := f.tasks ++ [⟨t.name, cs, f.vars⟩] }

/-- `file.New` as far as variables and commands are concerned -/
def load (cwd : Str) (stmts : List Stmt) : Except Err File := loadAux cwd stmts ⟨[], []⟩

/-! ## the environment of a command -/

abbrev EnvList := List (Str × Str)

def hasKey (e : EnvList) (k : Str) : Bool := e.any (fun p => p.1 = k)

/-- `expand.ListEnviron`: the last entry of a name is the one that counts -/
def lookup (e : EnvList) (k : Str) : Option Str :=
  match e with
  | [] => none
  | (k', v) :: rest =>
    match lookup rest k with
    | some w => some w
    | none => if k' = k then some v else none

/-- the `.env` file as godotenv reads it (a map: a later line of the same name replaces the earlier one) -/
def dotenvMap (lines : EnvList) : EnvList := lines.foldl (fun m p => set m p.1 p.2) []

/-- `godotenv.Load`: only names the process environment does not have yet are set -/
def loadDotenv (ambient dotenv : EnvList) : EnvList :=
  ambient ++ (dotenvMap dotenv).filter (fun p => !hasKey ambient p.1)

/-- what `IntegratedRunner.Run` hands to the interpreter: process environment (with `.env` loaded) first,
    the spokfile variables (`SpokFile.Env()`, in whatever order the Go map yields them) last -/
def mergeEnv (ambient dotenv : EnvList) (spokVars : EnvList) : EnvList :=
  loadDotenv ambient dotenv ++ spokVars

/-- `SpokFile.Env()` comes out of a Go map: some permutation of the variables -/
def IsEnvOf (spokVars : EnvList) (vs : Vars) : Prop := spokVars.Perm vs

/-! ## the commands the harness generates: `echo word word …` over a small shell subset
(what mvdan/sh does with them is *modelled*: bare safe text is itself, `'…'` is literal, `"$N"` is the
value of N, a bare `$N` / `{{.N}}` is only used where the value has no blanks or shell syntax) -/

inductive QItem where
  | text (t : Str)
  | ref (n : Str)
  deriving Repr

inductive ShPiece where
  | bare (t : Str)             -- literal text, shell-safe
  | tref (n : Str)             -- bare `{{.n}}`
  | evar (n : Str)             -- bare `$n`
  | dq (n : Str)               -- `"$n"`
  | sq (items : List QItem)    -- `'…'` with text and `{{.n}}` inside
  deriving Repr

inductive Command where
  | words (ws : List (List ShPiece))
  | raw (src : Str) (o : Outcome)      -- any other command, with its recorded outcome
  deriving Repr

def chs (t : Str) : List Piece := t.map Piece.ch

def QItem.pieces : QItem → List Piece
  | .text t => chs t
  | .ref n => [.ref n]

def ShPiece.pieces : ShPiece → List Piece
  | .bare t => chs t
  | .tref n => [.ref n]
  | .evar n => chs ('$' :: n)
  | .dq n => chs ('"' :: '$' :: n ++ ['"'])
  | .sq items => .ch '\'' :: items.flatMap QItem.pieces ++ [.ch '\'']

def echoText : Str := ['e', 'c', 'h', 'o']

/-- the command line as text pieces and references -/
def Command.pieces : Command → List Piece
  | .words ws => chs echoText ++ ws.flatMap (fun w => .ch ' ' :: w.flatMap ShPiece.pieces)
  | .raw src _ => chs src

/-- the source text as it stands in the spokfile -/
def Command.src (c : Command) : Str := render c.pieces

def refsOf (ps : List Piece) : List Str :=
  ps.filterMap (fun p => match p with | .ref n => some n | .ch _ => none)

def safeChar (c : Char) : Bool :=
  c.isAlphanum || c = '_' || c = '=' || c = ':' || c = ',' || c = '.' || c = '/' || c = '+' || c = '@' || c = '%' || c = '-'

def shellSafe (s : Str) : Bool := s.all safeChar

/-- mvdan/sh reads its SOURCE with a carriage return before a line feed dropped (also inside quotes); a value that arrived by
    template is source text by then, one that arrives through the environment is not -/
def shSource : Str → Str
  | '\r' :: '\n' :: rest => '\n' :: shSource rest
  | c :: rest => c :: shSource rest
  | [] => []

/-- value of a piece and whether it was quoted; `none`: outside the modelled shell subset -/
def ShPiece.eval (tv : Vars) (env : Str → Option Str) : ShPiece → Option (Str × Bool)
  | .bare t => if shellSafe t then some (t, false) else none
  | .tref n => let v := value tv n; if shellSafe v then some (v, false) else none
  | .evar n => let v := (env n).getD []; if shellSafe v then some (v, false) else none
  | .dq n => some ((env n).getD [], true)
  | .sq items => some (shSource (items.flatMap (fun i => match i with | .text t => t | .ref n => value tv n)), true)

/-- a word: concatenation; an unquoted word that expands to nothing disappears -/
def evalWord (tv : Vars) (env : Str → Option Str) (w : List ShPiece) : Option (Option Str) :=
  match w.mapM (ShPiece.eval tv env) with
  | none => none
  | some vs =>
    let text := vs.flatMap (·.1)
    if text.isEmpty && !vs.any (·.2) then some none else some (some text)

/-- stdout of the command -/
def Command.stdout (tv : Vars) (env : Str → Option Str) : Command → Option Str
  | .raw _ o => some o.stdout
  | .words ws =>
    match ws.mapM (evalWord tv env) with
    | none => none
    | some args => some (Clean.glue' (args.filterMap id) ++ ['\n'])

end Spok.Env
