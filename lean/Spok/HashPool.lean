/-! # The worker pool of `hash.Concurrent.Hash` as a transition system

Goroutines of one call: `nWorkers = min(NumCPU, len(files))` workers, the *feeder* (sends every path on the unbuffered
channel `jobs`, then closes it), the *waiter* (`wg.Wait()`, then closes `results`) and *main* (ranges over the unbuffered
channel `results`). An unbuffered send/receive pair is one rendezvous step.

The pool is generic in the result type `ρ`; a job is `none` when the worker sends nothing for it (a directory) and
`some r` when it sends `r` (an item or an error). `Spok.Props.C18` / `C04` instantiate `ρ := Spok.Hash.Res`. -/
namespace Spok.HashPool

/-- a worker goroutine: waiting in `range files`, blocked in `results <- res`, or returned (`wg.Done` ran) -/
inductive W (ρ : Type) where
  | idle
  | holding (r : ρ)
  | done
deriving DecidableEq, Repr

structure St (ρ : Type) where
  /-- paths the feeder has not sent yet -/
  todo : List (Option ρ)
  /-- the feeder has closed `jobs` and returned -/
  jobsClosed : Bool
  workers : List (W ρ)
  /-- what main has received so far, in arrival order -/
  acc : List ρ
  /-- the waiter has closed `results` and returned -/
  resultsClosed : Bool
  /-- main has left its `range results` loop (and goes on to compute the digest sequentially) -/
  mainDone : Bool

def afterJob {ρ : Type} : Option ρ → W ρ
  | none => .idle
  | some r => .holding r

/-- one atomic step of some goroutine (pair); a worker is identified by its position `l₁.length` -/
inductive Step {ρ : Type} : St ρ → St ρ → Prop where
  /-- feeder and an idle worker rendezvous on `jobs`; the worker processes the file up to its `results <-` (or loops on a directory) -/
  | send (s : St ρ) (j : Option ρ) (rest : List (Option ρ)) (l₁ l₂ : List (W ρ)) :
      s.todo = j :: rest → s.workers = l₁ ++ .idle :: l₂ →
      Step s { s with todo := rest, workers := l₁ ++ afterJob j :: l₂ }
  /-- the feeder's loop is over: `close(jobs)` -/
  | closeJobs (s : St ρ) : s.todo = [] → s.jobsClosed = false → Step s { s with jobsClosed := true }
  /-- a worker sees `jobs` closed, leaves its loop, `wg.Done()` -/
  | exit (s : St ρ) (l₁ l₂ : List (W ρ)) : s.jobsClosed = true → s.workers = l₁ ++ .idle :: l₂ →
      Step s { s with workers := l₁ ++ .done :: l₂ }
  /-- a blocked worker and main rendezvous on `results` -/
  | recv (s : St ρ) (r : ρ) (l₁ l₂ : List (W ρ)) : s.workers = l₁ ++ .holding r :: l₂ → s.mainDone = false →
      Step s { s with acc := s.acc ++ [r], workers := l₁ ++ .idle :: l₂ }
  /-- `wg.Wait()` returns when every worker has called `Done`; the waiter closes `results` -/
  | closeResults (s : St ρ) : (∀ w ∈ s.workers, w = .done) → s.resultsClosed = false →
      Step s { s with resultsClosed := true }
  /-- main sees `results` closed and leaves the loop -/
  | mainExit (s : St ρ) : s.resultsClosed = true → s.mainDone = false → Step s { s with mainDone := true }

/-- `nWorkers := min(runtime.NumCPU(), len(files))` -/
def nWorkers (ncpu nfiles : Nat) : Nat := min ncpu nfiles

def init {ρ : Type} (ncpu : Nat) (jobs : List (Option ρ)) : St ρ :=
  { todo := jobs, jobsClosed := false, workers := List.replicate (nWorkers ncpu jobs.length) .idle,
    acc := [], resultsClosed := false, mainDone := false }

/-- reachable from the initial state of a call with `ncpu` CPUs on the job list `jobs`, by any schedule -/
inductive Reachable {ρ : Type} (ncpu : Nat) (jobs : List (Option ρ)) : St ρ → Prop where
  | init : Reachable ncpu jobs (init ncpu jobs)
  | step {s s' : St ρ} : Reachable ncpu jobs s → Step s s' → Reachable ncpu jobs s'

/-- a schedule of `n` steps -/
inductive Steps {ρ : Type} : Nat → St ρ → St ρ → Prop where
  | refl (s : St ρ) : Steps 0 s s
  | cons {n : Nat} {s s' s'' : St ρ} : Step s s' → Steps n s' s'' → Steps (n + 1) s s''

/-- main has left the receive loop: `Hash` is about to return -/
def final {ρ : Type} (s : St ρ) : Prop := s.mainDone = true

def allWorkersDone {ρ : Type} (s : St ρ) : Prop := ∀ w ∈ s.workers, w = .done

/-- every goroutine of the call has returned -/
def allReturned {ρ : Type} (s : St ρ) : Prop :=
  s.mainDone = true ∧ s.jobsClosed = true ∧ s.resultsClosed = true ∧ allWorkersDone s

/-- the results that have to arrive: one per non-directory job -/
def expected {ρ : Type} (jobs : List (Option ρ)) : List ρ := jobs.filterMap id

def wgt {ρ : Type} : W ρ → Nat
  | .idle => 1
  | .holding _ => 2
  | .done => 0

/-- strictly decreases along every step -/
def measure {ρ : Type} (s : St ρ) : Nat :=
  4 * s.todo.length + (s.workers.map wgt).sum + (if s.jobsClosed then 0 else 1)
    + (if s.resultsClosed then 0 else 1) + (if s.mainDone then 0 else 1)

def held {ρ : Type} : W ρ → Option ρ
  | .holding r => some r
  | _ => none

end Spok.HashPool
