import Spok.Json.Quote
import Spok.Lemmas.LexJudge
/-! # UTF-8 facts the JSON string round trip needs

* re-encoding a validly decoded rune gives back its bytes (`utf8enc_decode1`): Go's decoder rejects over-long forms,
  surrogates and values beyond U+10FFFF, so `utf8.EncodeRune(utf8.DecodeRune(p))` is `p[:size]`;
* a validly decoded rune is decoded from its own bytes alone (`decode1_stable'`, also for a genuine U+FFFD). -/
namespace Spok.Json
open Spok

theorem u8_eq_of_toNat {a b : UInt8} (h : a.toNat = b.toNat) : a = b := UInt8.toNat_inj.mp h

theorem ofNat_eq {b : UInt8} {n : Nat} (h : n = b.toNat) : UInt8.ofNat n = b := by
  subst h; exact UInt8.ofNat_toNat

/-- `utf8.EncodeRune` undoes `utf8.DecodeRune` on everything but an invalid byte -/
theorem utf8enc_decode1 (b0 : UInt8) (rest : List UInt8) (h : (decode1 b0 rest).invalid = false) :
    utf8enc (decode1 b0 rest).cp = (decode1 b0 rest).bytes := by
  generalize hr : decode1 b0 rest = r at h ⊢
  unfold decode1 at hr
  simp only [] at hr
  repeat' split at hr
  all_goals subst hr
  all_goals first
    | (exfalso; simp [Rune.invalid] at h; done)
    | (simp only [cont, Bool.and_eq_true, decide_eq_true_eq, beq_iff_eq] at *
       unfold utf8enc
       simp only [Rune.bytes, Bool.or_eq_true, Bool.and_eq_true, decide_eq_true_eq]
       repeat' split
       all_goals first
         | omega
         | (simp only [List.cons.injEq, and_true]
            refine ⟨?_, ?_⟩ <;> first | (apply ofNat_eq; omega) | (refine ⟨?_, ?_⟩ <;> first | (apply ofNat_eq; omega) | (refine ⟨?_, ?_⟩ <;> (apply ofNat_eq; omega))))
         | (simp only [List.cons.injEq, and_true]; apply ofNat_eq; omega))

end Spok.Json

namespace Spok.Json
open Spok

/-- a rune that is not an invalid byte was decoded from its own bytes alone (also a genuine U+FFFD) -/
theorem decode1_stable' (b0 : UInt8) (rest rest' : List UInt8) (h : (decode1 b0 rest).invalid = false) :
    decode1 b0 ((decode1 b0 rest).more ++ rest') = decode1 b0 rest := by
  generalize hr : decode1 b0 rest = r at h ⊢
  unfold decode1 at hr
  simp only [] at hr
  repeat' split at hr
  all_goals subst hr
  all_goals first
    | (exfalso; simp [Rune.invalid] at h; done)
    | (unfold decode1; simp_all; done)
    | (unfold decode1
       simp only [List.nil_append, List.cons_append]
       repeat' split
       all_goals first | rfl | omega | (simp_all; done) | (exfalso; simp_all; omega))

/-- an ASCII byte as a rune -/
def ascR (b : UInt8) : Rune := ⟨b.toNat, b, []⟩

theorem decode1_ascii (b : UInt8) (h : b.toNat < 128) (rest : List UInt8) : decode1 b rest = ascR b := by
  unfold decode1; simp [h, ascR]

theorem decodeAll_ascii_cons (b : UInt8) (h : b.toNat < 128) (rest : List UInt8) :
    decodeAll (b :: rest) = ascR b :: decodeAll rest := by
  rw [decodeAll, decode1_ascii b h]
  simp [ascR, Rune.w]

theorem decodeAll_ascii : ∀ (l : List UInt8), (∀ b ∈ l, b.toNat < 128) → ∀ rest,
    decodeAll (l ++ rest) = l.map ascR ++ decodeAll rest
  | [], _, _ => rfl
  | b :: l, h, rest => by
    rw [List.cons_append, decodeAll_ascii_cons b (h b (by simp)), decodeAll_ascii l (fun x hx => h x (by simp [hx]))]
    rfl

/-- a validly decoded rune, written out again, decodes to itself whatever follows -/
theorem decodeAll_rune {bs : List UInt8} {r : Rune} (hr : r ∈ decodeAll bs) (hv : r.invalid = false) (rest : List UInt8) :
    decodeAll (r.bytes ++ rest) = r :: decodeAll rest := by
  obtain ⟨b0, rest0, rfl⟩ := decodeAll_mem hr
  have hb0 := decode1_b0 b0 rest0
  have hst := decode1_stable' b0 rest0 rest hv
  simp only [Rune.bytes, hb0, List.cons_append]
  rw [decodeAll, hst]
  congr 1
  have hw : (decode1 b0 rest0).w = (decode1 b0 rest0).more.length + 1 := rfl
  rw [hw]
  simp

end Spok.Json
