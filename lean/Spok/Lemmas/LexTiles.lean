import Spok.Lemmas.LexWfStates
import Spok.Judge.Syntax
/-! # C16 at the byte level: from the rune-level tiling invariant to offsets into the byte string

`TilesBytes bytes toks` is property C16 as a statement about the input *bytes* and a token stream cut at
its first EOF / ERROR token.  It is derived from `DoneOK` (`Lemmas/LexWfStates`) for the decoded input. -/
namespace Spok
open Spok.Judge (countNL slice)

/-! ## `flat`, byte lengths, newline bytes -/

@[simp] theorem flat_nil : flat [] = [] := rfl
@[simp] theorem flat_cons (r : Rune) (rs : List Rune) : flat (r :: rs) = r.bytes ++ flat rs := by simp [flat]
@[simp] theorem flat_append (xs ys : List Rune) : flat (xs ++ ys) = flat xs ++ flat ys := by simp [flat]
@[simp] theorem flat_length (xs : List Rune) : (flat xs).length = bytesLen xs := by
  induction xs with
  | nil => rfl
  | cons x xs ih => simp [ih, Rune.bytes_length]

@[simp] theorem countNL_nil : countNL [] = 0 := rfl
@[simp] theorem countNL_append (xs ys : List UInt8) : countNL (xs ++ ys) = countNL xs + countNL ys := by
  simp [countNL]

/-- a decoded rune is a newline iff its bytes are the single byte 0x0A -/
theorem RuneGood.countNL_bytes {r : Rune} (h : RuneGood r) : countNL r.bytes = if r.cp == NL then 1 else 0 := by
  by_cases hc : r.cp < 128
  · obtain ⟨hm, hb⟩ := h.1 hc
    by_cases h10 : r.cp = NL
    · have : r.b0 = 10 := UInt8.toNat_inj.mp (by rw [hb, h10]; rfl)
      simp [countNL, Rune.bytes, hm, this, h10]
    · have : r.b0 ≠ 10 := by
        intro hb0; apply h10; rw [← hb, hb0]; rfl
      simp [countNL, Rune.bytes, hm, this, h10]
  · have hge := h.2 (by omega)
    have h10 : ¬ r.cp = NL := by omega
    have : r.bytes.filter (· == 10) = [] := by
      rw [List.filter_eq_nil_iff]
      intro b hb hb10
      have := hge b hb
      have h2 : b = 10 := by simpa using hb10
      rw [h2] at this
      exact absurd this (by decide)
    simp [countNL, this, h10]

theorem countNL_flat {rs : List Rune} (h : RunesOK rs) : countNL (flat rs) = nl rs := by
  induction rs with
  | nil => rfl
  | cons r rs ih =>
    have hr := (h r (by simp)).countNL_bytes
    have := ih (fun x hx => h x (by simp [hx]))
    simp only [flat_cons, countNL_append, nl_cons, hr, this]

theorem take_flat (xs ys : List Rune) : (flat (xs ++ ys)).take (bytesLen xs) = flat xs := by
  rw [flat_append]; exact List.take_left' (flat_length xs)

theorem slice_flat (xs v ys : List Rune) :
    slice (flat (xs ++ v ++ ys)) (bytesLen xs) (bytesLen xs + bytesLen v) = flat v := by
  unfold slice
  rw [List.append_assoc, flat_append, List.drop_left' (flat_length xs), flat_append]
  have : bytesLen xs + bytesLen v - bytesLen xs = bytesLen v := by omega
  rw [this]; exact List.take_left' (flat_length v)

/-! ## the rune-level tiling, read from the front -/

/-- `TilesF input done ts`: with `done` (a prefix of `input`) already accounted for, the stream `ts`
    — cut at its first EOF / ERROR token — accounts for what follows. -/
inductive TilesF (input : List Rune) : List Rune → List Tok → Prop
  | space {done : List Rune} {r : Rune} {ts : List Tok} : isSpace r = true → (∃ rest, done ++ r :: rest = input) →
      TilesF input (done ++ [r]) ts → TilesF input done ts
  | error {done : List Rune} {t : Tok} : t.ty = .error → TilesF input done [t]
  | eof {done : List Rune} : done = input → TilesF input done [⟨.eof, [], bytesLen input, 1 + nl input, 0⟩]
  | tok {done : List Rune} {t : Tok} {ts : List Tok} : (∃ rest, done ++ t.val ++ rest = input) →
      t.ty ≠ .error → t.ty ≠ .eof → t.pos = bytesLen done → t.line = 1 + nl done →
      TilesF input (done ++ t.val) ts → TilesF input done (t :: ts)

theorem TilesR.toF {input : List Rune} {b : List Rune} {ts : List Tok} (h : TilesR b ts) :
    ∀ (rest : List Rune) (tail : List Tok), b.reverse ++ rest = input → TilesF input b.reverse tail →
      TilesF input [] (ts ++ tail) := by
  induction h with
  | nil => intro rest tail _ ht; simpa using ht
  | @space b ts r _ hs ih =>
    intro rest tail hin ht
    simp only [List.reverse_cons, List.append_assoc, List.singleton_append] at hin ht
    exact ih (r :: rest) tail hin (TilesF.space hs ⟨rest, hin⟩ (by simpa using ht))
  | @tok b ts t _ h1 h2 h3 h4 ih =>
    intro rest tail hin ht
    simp only [List.reverse_append, List.reverse_reverse, List.append_assoc] at hin ht
    have := ih (t.val ++ rest) (t :: tail) hin
      (TilesF.tok ⟨rest, by simpa using hin⟩ h1 h2 (by simpa using h3) (by simpa using h4) ht)
    simpa using this

theorem TilesR.types {b : List Rune} {ts : List Tok} (h : TilesR b ts) :
    ∀ t ∈ ts, t.ty ≠ .error ∧ t.ty ≠ .eof := by
  induction h with
  | nil => intro t ht; cases ht
  | space _ _ ih => exact ih
  | tok t _ h1 h2 _ _ ih =>
    intro x hx
    simp only [List.mem_append, List.mem_singleton] at hx
    rcases hx with hx | rfl
    · exact ih x hx
    · exact ⟨h1, h2⟩

theorem DoneOK.toF {input : List Rune} {toks : List Tok} (h : DoneOK input toks) : TilesF input [] toks := by
  obtain ⟨ts, e, rfl, h | h⟩ := h
  · obtain ⟨he, b, rest, hin, ht⟩ := h
    exact ht.toF rest [e] hin (TilesF.error he)
  · obtain ⟨rfl, ht⟩ := h
    exact ht.toF [] _ (by simp) (TilesF.eof (by simp))

/-! ## the byte-level statement -/

/-- the bytes `[a, b)` of the input are exactly the bytes of consecutive white-space runes of its decoding -/
def WsGap (bytes : List UInt8) (a b : Nat) : Prop :=
  ∃ pre ws post, decodeAll bytes = pre ++ ws ++ post ∧ (flat pre).length = a ∧ (flat (pre ++ ws)).length = b ∧
    ∀ r ∈ ws, isSpace r = true

/-- **C16** for a token stream cut at its first EOF / ERROR token; `cur` is the offset just after the
    previous token (0 at the beginning).  Every token before the last is neither EOF nor ERROR, starts at or
    after `cur` with only white-space runes in between, spells exactly the input bytes at its offset, and
    its line is one plus the number of newline bytes before its offset; the last token is an ERROR token
    (unconstrained) or the EOF token: empty, at the end of the input, after only white space. -/
inductive TilesFrom (bytes : List UInt8) : Nat → List Tok → Prop
  | error {cur : Nat} {t : Tok} : t.ty = .error → TilesFrom bytes cur [t]
  | eof {cur : Nat} {t : Tok} : t.ty = .eof → t.val = [] → t.pos = bytes.length → WsGap bytes cur t.pos →
      t.line = 1 + countNL (bytes.take t.pos) → TilesFrom bytes cur [t]
  | tok {cur : Nat} {t : Tok} {ts : List Tok} : t.ty ≠ .error → t.ty ≠ .eof → WsGap bytes cur t.pos →
      slice bytes t.pos (t.pos + (flat t.val).length) = flat t.val → t.pos + (flat t.val).length ≤ bytes.length →
      t.line = 1 + countNL (bytes.take t.pos) → TilesFrom bytes (t.pos + (flat t.val).length) ts →
      TilesFrom bytes cur (t :: ts)

def TilesBytes (bytes : List UInt8) (toks : List Tok) : Prop := TilesFrom bytes 0 toks

theorem WsGap.le {bytes : List UInt8} {a b : Nat} (h : WsGap bytes a b) : a ≤ b := by
  obtain ⟨pre, ws, post, -, h1, h2, -⟩ := h
  simp at h1 h2; omega

theorem TilesF.toBytes {bytes : List UInt8} {done : List Rune} {ts : List Tok}
    (h : TilesF (decodeAll bytes) done ts) :
    ∀ pre ws, done = pre ++ ws → (∃ rest, done ++ rest = decodeAll bytes) → (∀ r ∈ ws, isSpace r = true) →
      TilesFrom bytes (bytesLen pre) ts := by
  have hok := decodeAll_runesOK bytes
  have hflat := flat_decodeAll bytes
  induction h with
  | @space done r ts hs hin _ ih =>
    intro pre ws hd _ hws
    obtain ⟨rest, hin⟩ := hin
    refine ih pre (ws ++ [r]) (by simp [hd]) ⟨rest, by simpa using hin⟩ ?_
    intro x hx
    simp only [List.mem_append, List.mem_singleton] at hx
    rcases hx with hx | rfl
    · exact hws x hx
    · exact hs
  | error he => intro _ _ _ _ _; exact TilesFrom.error he
  | @eof done hd =>
    intro pre ws hpw _ hws
    have hlen : bytesLen (decodeAll bytes) = bytes.length := by rw [← flat_length, hflat]
    refine TilesFrom.eof rfl rfl hlen ⟨pre, ws, [], by simp [← hpw, hd], by simp, ?_, hws⟩ ?_
    · simp only [flat_length]; rw [← hpw, hd]
    · simp only [hlen, List.take_length]
      rw [← countNL_flat hok, hflat]
  | @tok done t ts hin h1 h2 h3 h4 _ ih =>
    intro pre ws hpw _ hws
    obtain ⟨rest, hin⟩ := hin
    have hb : bytes = flat (done ++ t.val ++ rest) := by rw [hin, hflat]
    have hokd : RunesOK done := fun r hr => hok r (by rw [← hin]; simp [hr])
    have hgap : WsGap bytes (bytesLen pre) t.pos :=
      ⟨pre, ws, t.val ++ rest, by rw [← hin, hpw]; simp, by simp, by simp [h3, hpw], hws⟩
    have hnext := ih (done ++ t.val) [] (by simp) ⟨rest, hin⟩ (by simp)
    have hslice : slice bytes t.pos (t.pos + (flat t.val).length) = flat t.val := by
      rw [hb, h3, flat_length]; exact slice_flat done t.val rest
    have hle : t.pos + (flat t.val).length ≤ bytes.length := by
      rw [hb, h3]; simp only [flat_length, bytesLen_append]; omega
    have hline : t.line = 1 + countNL (bytes.take t.pos) := by
      rw [h4, h3, hb, List.append_assoc, take_flat, countNL_flat hokd]
    refine TilesFrom.tok h1 h2 hgap hslice hle hline ?_
    rw [h3, flat_length]
    simpa using hnext

/-- read off `TilesFrom`: every non-error token starts at or after `cur`, and the tokens are pairwise
    non-overlapping in stream order -/
theorem TilesFrom.ordered {bytes : List UInt8} {cur : Nat} {ts : List Tok} (h : TilesFrom bytes cur ts) :
    (∀ t ∈ ts, t.ty ≠ .error → cur ≤ t.pos) ∧
    ts.Pairwise (fun a b => b.ty ≠ .error → a.pos + (flat a.val).length ≤ b.pos) := by
  induction h with
  | error he => exact ⟨by intro t ht hne; simp at ht; subst ht; exact absurd he hne, by simp⟩
  | eof _ _ _ h4 _ => exact ⟨by intro t ht _; simp at ht; subst ht; exact h4.le, by simp⟩
  | @tok cur t ts _ _ h3 _ _ _ _ ih =>
    have hle := h3.le
    refine ⟨?_, List.pairwise_cons.mpr ⟨fun b hb hne => ih.1 b hb hne, ih.2⟩⟩
    intro x hx hne
    simp only [List.mem_cons] at hx
    rcases hx with rfl | hx
    · exact hle
    · have := ih.1 x hx hne; omega

/-- the token stream of the model tiles the input bytes -/
theorem lex_tilesBytes (bytes : List UInt8) : TilesBytes bytes (lex bytes).toks := by
  have h := (lexRunes_doneOK (decodeAll_runesOK bytes)).toF
  exact h.toBytes [] [] rfl ⟨decodeAll bytes, rfl⟩ (by simp)

end Spok
