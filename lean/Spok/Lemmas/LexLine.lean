import Spok.Lemmas.LexTerm
import Spok.Syntax.Parser
/-! # The lexer's line counter and the shape of its token stream: definitions and primitive lemmas

`Str n m ts` says that `ts` is a token stream the lexer can still emit from "mode" `m` (top level,
inside a task body, just after `#`, just after `task`): every token but the last is neither EOF nor
ERROR and sits on a line `1 … n`; a HASH is followed by a COMMENT, a TASK by an IDENT, an LBRACE by
COMMANDs up to an RBRACE or the final ERROR; the last token is an EOF on a line `1 … n` (top level
only) or an ERROR citing a line `1 … n` (top level or task body only).

`St inp m l` is the invariant of a live scanner state: the zipper is a split of the input, `line` is
one plus the number of newlines to the left of the cursor, `startLine` is a line of the input, and the
tokens emitted so far followed by any stream admissible from mode `m` form an admissible stream
(continuation style, so that one definition serves both the prefix invariant and the final result).

The primitives `next`, `peek` (= `next` then `backup`), `atEOL`, `absorb` over a spelled token without
a newline, `emit`, `discard`, `stepBack` over a blank or CR, and the scanning loops preserve `St`.
A `backup` with an arbitrary `width` (the stale one in `scanString`) keeps `1 ≤ line ≤ n` (`Loose`). -/
namespace Spok

/-- the number of newline runes -/
def cntNL (rs : List Rune) : Nat := (rs.filter (·.cp == NL)).length

/-- in decoded input a newline is one byte wide (`backup` un-counts a line only `if width == 1`) -/
def RunesOK (rs : List Rune) : Prop := ∀ r ∈ rs, r.cp = NL → r.w = 1

inductive Mode where
  | top | body | afterHash | afterTask
deriving DecidableEq, Repr

/-- what a non-final token of type `ty` does to the mode; `none` = the lexer never emits it there -/
def trans : Mode → TT → Option Mode
  | .top, .lbrace => some .body
  | .top, .hash => some .afterHash
  | .top, .task => some .afterTask
  | .top, .lparen | .top, .rparen | .top, .comma | .top, .string | .top, .output | .top, .ident
  | .top, .declare => some .top
  | .body, .command => some .body
  | .body, .rbrace => some .top
  | .afterHash, .comment => some .top
  | .afterTask, .ident => some .top
  | _, _ => none

/-- the last token of a stream -/
def FinTok (n : Nat) (m : Mode) (t : Tok) : Prop :=
  (m = .top ∧ t.ty = .eof ∧ 1 ≤ t.line ∧ t.line ≤ n) ∨
  ((m = .top ∨ m = .body) ∧ t.ty = .error ∧ 1 ≤ t.errLine ∧ t.errLine ≤ n)

def Str (n : Nat) : Mode → List Tok → Prop
  | _, [] => False
  | m, t :: ts =>
    (ts = [] ∧ FinTok n m t) ∨
    (1 ≤ t.line ∧ t.line ≤ n ∧ ∃ m', trans m t.ty = some m' ∧ Str n m' ts)

instance (n : Nat) (m : Mode) (t : Tok) : Decidable (FinTok n m t) := by unfold FinTok; infer_instance

/-- executable version, for sanity tests -/
def strB (n : Nat) : Mode → List Tok → Bool
  | _, [] => false
  | m, t :: ts =>
    (ts.isEmpty && decide (FinTok n m t)) ||
    (decide (1 ≤ t.line) && decide (t.line ≤ n) && match trans m t.ty with
      | some m' => strB n m' ts
      | none => false)

theorem cntNL_nil : cntNL [] = 0 := rfl
theorem cntNL_cons (r : Rune) (rs : List Rune) : cntNL (r :: rs) = (if r.cp = NL then 1 else 0) + cntNL rs := by
  unfold cntNL
  rw [List.filter_cons]
  by_cases h : r.cp = NL <;> simp [h] <;> omega
theorem cntNL_append (a b : List Rune) : cntNL (a ++ b) = cntNL a + cntNL b := by
  simp [cntNL, List.filter_append]
theorem cntNL_reverse (a : List Rune) : cntNL a.reverse = cntNL a := by
  simp [cntNL, List.filter_reverse]
theorem nLines_eq (rs : List Rune) : nLines rs = 1 + cntNL rs := rfl
/-- in terms of the code points only -/
theorem cntNL_map (rs : List Rune) : cntNL rs = ((rs.map (·.cp)).filter (· == NL)).length := by
  induction rs with
  | nil => rfl
  | cons r rs ih =>
    rw [cntNL_cons, ih]
    by_cases h : r.cp = NL <;> simp [h] <;> omega

def TokInv (n : Nat) (m : Mode) (l : L) : Prop :=
  ∀ suf, Str n m suf → Str n .top (l.toks.toList ++ suf)

/-- invariant of a live scanner state -/
structure St (inp : List Rune) (m : Mode) (l : L) : Prop where
  ok : RunesOK inp
  zip : l.left.reverse ++ l.right = inp
  line : l.line = 1 + cntNL l.left
  sl1 : 1 ≤ l.startLine
  sl2 : l.startLine ≤ nLines inp
  toks : TokInv (nLines inp) m l

/-- what is left of `St` after a `backup` with a stale `width`: enough for an ERROR token -/
structure Loose (inp : List Rune) (m : Mode) (l : L) : Prop where
  ln1 : 1 ≤ l.line
  ln2 : l.line ≤ nLines inp
  toks : TokInv (nLines inp) m l

variable {inp : List Rune} {m : Mode} {l : L}

theorem St.cnt_le (h : St inp m l) : 1 + cntNL l.left + cntNL l.right = nLines inp := by
  rw [nLines_eq, ← h.zip, cntNL_append, cntNL_reverse]; omega

theorem St.line_le (h : St inp m l) : l.line ≤ nLines inp := by
  have := h.cnt_le; have := h.line; omega

theorem St.loose (h : St inp m l) : Loose inp m l := ⟨by have := h.line; omega, h.line_le, h.toks⟩

/-- a newline at the cursor is one byte wide -/
theorem St.head_ok (h : St inp m l) {r : Rune} {rs : List Rune} (hr : l.right = r :: rs) (hc : r.cp = NL) : r.w = 1 := by
  apply h.ok r _ hc
  rw [← h.zip, hr]; simp

theorem st_next (h : St inp m l) : St inp m (l.next).1 := by
  unfold L.next
  split
  · exact ⟨h.ok, h.zip, h.line, h.sl1, h.sl2, h.toks⟩
  · rename_i r rs hr
    refine ⟨h.ok, ?_, ?_, h.sl1, h.sl2, h.toks⟩
    · have := h.zip; rw [hr] at this; simpa using this
    · have := h.line
      simp only [cntNL_cons]
      by_cases hc : r.cp = NL <;> simp [hc] <;> omega

/-- `peek` = `next` then `backup` with the width `next` has just set: nothing but `width` changes -/
theorem st_peek (h : St inp m l) : St inp m (l.peek).1 := by
  show St inp m ((l.next).1.backup)
  unfold L.next
  split
  · exact ⟨h.ok, h.zip, h.line, h.sl1, h.sl2, h.toks⟩
  · rename_i r rs hr
    have hw := Rune.w_ne_zero r
    unfold L.backup
    simp only [hw]
    refine ⟨h.ok, ?_, ?_, h.sl1, h.sl2, h.toks⟩
    · have := h.zip; rw [hr] at this; simpa using this
    · have := h.line
      by_cases hc : r.cp = NL
      · have := h.head_ok hr hc
        simp [hc, this]; omega
      · simp [hc]; omega

theorem st_atEOL (h : St inp m l) : St inp m (l.atEOL).1 := st_peek h

theorem hasPrefix_take {s : List Nat} (hp : l.hasPrefix s = true) : (l.right.take s.length).map (·.cp) = s := by
  simpa [L.hasPrefix] using hp

/-- `hasPrefix` only looks at the remaining input -/
theorem hasPrefix_congr {l l' : L} (h : l'.right = l.right) (s : List Nat) : l'.hasPrefix s = l.hasPrefix s := by
  simp [L.hasPrefix, h]

/-- `pos += len(spelling)` over a spelled token that has no newline in it -/
theorem st_absorb (h : St inp m l) {s : List Nat} (hp : l.hasPrefix s = true) (hs : s.filter (· == NL) = []) :
    St inp m (l.absorb s.length) := by
  have ht := hasPrefix_take hp
  refine ⟨h.ok, ?_, ?_, h.sl1, h.sl2, h.toks⟩
  · have := h.zip
    simp only [L.absorb, List.reverse_append, List.reverse_reverse, List.append_assoc, List.take_append_drop]
    exact this
  · have := h.line
    simp only [L.absorb, cntNL_append, cntNL_reverse]
    rw [cntNL_map (l.right.take s.length), ht, hs]
    simpa using this

theorem st_emit (h : St inp m l) {ty : TT} {m' : Mode} (ht : trans m ty = some m') : St inp m' (l.emit ty) := by
  have h1 := h.line
  have h2 := h.line_le
  refine ⟨h.ok, h.zip, h.line, ?_, ?_, ?_⟩
  · show 1 ≤ l.line; omega
  · exact h2
  · intro suf hsuf
    show Str _ .top ((l.toks.push _).toList ++ suf)
    rw [Array.toList_push, List.append_assoc]
    apply h.toks
    simp only [List.singleton_append, Str]
    exact Or.inr ⟨h.sl1, h.sl2, m', ht, hsuf⟩

theorem st_discard (h : St inp m l) : St inp m l.discard := by
  have h1 := h.line
  have h2 := h.line_le
  exact ⟨h.ok, h.zip, h.line, by show 1 ≤ l.line; omega, h2, h.toks⟩

/-- the one-byte step back over a rune that is not a newline -/
theorem st_stepBack (h : St inp m l) {c : Nat} (hl : l.lastIs c = true) (hc : c ≠ NL) : St inp m l.stepBack := by
  unfold L.lastIs at hl
  split at hl
  · rename_i t ts r ls h1 h2
    have hcp : r.cp = c := by simpa using hl
    unfold L.stepBack
    simp only [h1, h2]
    refine ⟨h.ok, ?_, ?_, h.sl1, h.sl2, h.toks⟩
    · have := h.zip; rw [h2] at this; simpa using this
    · have := h.line
      rw [h2, cntNL_cons] at this
      have hne : r.cp ≠ NL := by rw [hcp]; exact hc
      simpa [hne] using this
  · cases hl

/-- `backup` with whatever `width` is in the state: the line stays a line of the input -/
theorem loose_backup (h : St inp m l) : Loose inp m l.backup := by
  have h1 := h.line
  have h2 := h.line_le
  unfold L.backup
  split
  · exact h.loose
  · cases hl : l.left with
    | nil => cases l.tokRev <;> exact h.loose
    | cons r ls =>
      have key : 1 ≤ (if (l.width == 1 && r.cp == NL) = true then l.line - 1 else l.line) ∧
          (if (l.width == 1 && r.cp == NL) = true then l.line - 1 else l.line) ≤ nLines inp := by
        rw [hl, cntNL_cons] at h1
        split
        · rename_i hc
          have : r.cp = NL := by simp at hc; exact hc.2
          simp [this] at h1; omega
        · omega
      cases l.tokRev <;> exact ⟨key.1, key.2, h.toks⟩

/-- the ERROR token closes the stream -/
theorem fin_error {l : L} (h : Loose inp m l) (hm : m = .top ∨ m = .body) :
    Str (nLines inp) .top (l.error).1.toks.toList := by
  show Str _ .top (l.toks.push _).toList
  rw [Array.toList_push]
  apply h.toks
  exact Or.inl ⟨rfl, Or.inr ⟨hm, rfl, h.ln1, h.ln2⟩⟩

/-! ## the scanning loops -/

theorem st_skipWs (h : St inp m l) : St inp m (skipWs l) := by
  induction hn : l.right.length using Nat.strongRecOn generalizing l with
  | _ n ih =>
    unfold skipWs
    split
    · exact st_discard (st_peek h)
    · rename_i r rs hr
      split
      · exact ih _ (by subst hn; simp [hr]) (st_next h) rfl
      · exact st_discard (st_peek h)

theorem st_scanIdent (h : St inp m l) : St inp m (scanIdent l) := by
  induction hn : l.right.length using Nat.strongRecOn generalizing l with
  | _ n ih =>
    unfold scanIdent
    split
    · exact st_peek h
    · rename_i r rs hr
      split
      · exact ih _ (by subst hn; simp [hr]) (st_next h) rfl
      · exact st_peek h

theorem st_scanComment (h : St inp m l) : St inp m (scanComment l) := by
  induction hn : l.right.length using Nat.strongRecOn generalizing l with
  | _ n ih =>
    unfold scanComment
    split
    · exact st_atEOL h
    · rename_i r rs hr
      split
      · exact st_atEOL h
      · exact ih _ (by subst hn; simp [hr]) (st_next (st_atEOL h)) rfl

theorem st_skipBlanks (h : St inp m l) : St inp m (skipBlanks l) := by
  induction hn : l.right.length using Nat.strongRecOn generalizing l with
  | _ n ih =>
    unfold skipBlanks
    split
    · exact st_peek h
    · rename_i r rs hr
      split
      · exact ih _ (by subst hn; simp [hr]) (st_next (st_peek h)) rfl
      · exact st_peek h

theorem st_stripCR (h : St inp m l) : St inp m (stripCR l) := by
  induction hn : l.tokRev.length using Nat.strongRecOn generalizing l with
  | _ n ih =>
    subst hn
    unfold stripCR
    split
    · rename_i hc
      have hlt : l.stepBack.tokRev.length < l.tokRev.length := by
        unfold L.lastIs at hc
        split at hc
        · rename_i h1 h2; simp [L.stepBack, h1, h2]
        · cases hc
      exact ih _ hlt (st_stepBack h hc (by decide)) rfl
    · exact h

/-- the loop of `lexString`: a terminated string leaves a live state; the unterminated-string state
    (after a `backup` whose `width` may be the one left by the `peek` inside `atEOL`) still has its
    `line` within the input -/
theorem st_scanString (h : St inp m l) :
    (∀ l', scanString l = .ok l' → St inp m l') ∧ (∀ l', scanString l = .error l' → Loose inp m l') := by
  induction hn : l.right.length using Nat.strongRecOn generalizing l with
  | _ n ih =>
    subst hn
    unfold scanString
    split
    · exact ⟨fun l' e => (by cases e), fun l' e => (by cases e; exact (st_peek h).loose)⟩
    · rename_i r rs hr
      simp only []
      split
      · exact ⟨fun l' e => (by cases e; exact st_next h), fun l' e => (by cases e)⟩
      · split
        · exact ⟨fun l' e => (by cases e), fun l' e => (by cases e; exact loose_backup (st_next h))⟩
        · split
          · exact ⟨fun l' e => (by cases e), fun l' e => (by cases e; exact loose_backup (st_atEOL (st_next h)))⟩
          · exact ih _ (by simp [hr]) (st_atEOL (st_next h)) rfl

/-- the EOF token closes the stream -/
theorem fin_eof {l : L} (h : St inp .top l) : Str (nLines inp) .top (l.emit .eof).toks.toList := by
  show Str _ .top (l.toks.push _).toList
  rw [Array.toList_push]
  apply h.toks
  exact Or.inl ⟨rfl, Or.inl ⟨rfl, rfl, h.sl1, h.sl2⟩⟩

/-! ## decoded input satisfies `RunesOK` -/

theorem decode1_ascii_or (b0 : UInt8) (rest : List UInt8) :
    (decode1 b0 rest).more = [] ∨ 128 ≤ (decode1 b0 rest).cp := by
  unfold decode1
  simp only []
  repeat' split
  all_goals first
    | (left; rfl)
    | (right; simp at *; omega)

theorem decode1_NL (b0 : UInt8) (rest : List UInt8) (h : (decode1 b0 rest).cp = NL) : (decode1 b0 rest).w = 1 := by
  rcases decode1_ascii_or b0 rest with h1 | h1
  · simp [Rune.w, h1]
  · omega

theorem runesOK_decodeAll (bs : List UInt8) : RunesOK (decodeAll bs) := by
  induction hn : bs.length using Nat.strongRecOn generalizing bs with
  | _ n ih =>
    cases bs with
    | nil => intro r hr; simp [decodeAll] at hr
    | cons b0 rest =>
      rw [decodeAll]
      intro r hr hc
      simp only [List.mem_cons] at hr
      rcases hr with rfl | hr
      · exact decode1_NL b0 rest hc
      · refine ih _ ?_ _ rfl r hr hc
        subst hn; have := decode1_w_pos b0 rest; simp [List.length_drop]; omega

end Spok
