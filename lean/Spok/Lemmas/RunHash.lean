import Spok.Lemmas.RunHist
import Spok.Props.C04
/-! # Composition of the run engine with the hash engine (helper lemmas for Props/C01Sha)

The run machine (`Spok.Run`) is parametrised by an abstract `digest : Items → Digest`, `Items = List (Nat × Nat)` being
(file id, content id) pairs.  Here the abstract digest is instantiated with the model of the real hasher
(`Spok.Hash.digest sha`, SHA-256 a parameter):

* `concrete pathOf contentOf items` reads an abstract input list as the list of regular files the hasher is handed,
  for any two injective namings `pathOf : Nat → Path`, `contentOf : Nat → Bytes` (`pathU`, `contentU`: a concrete pair);
* `code` turns the hasher's result into the run model's `Digest = Nat`, injectively;
* `digestSha sha pathOf contentOf items = code (Hash.digest sha (concrete … items))`.

Two *different* item lists that are permutations of each other have the same `digestSha` (the real hasher sorts), so the
collision disjunct of the run engine's theorems (`∃ i j, i ≠ j ∧ digest i = digest j`) is trivially true for `digestSha`
and says nothing.  The theorems are therefore re-derived from the invariant `Inv` for "the digest decides the inputs up
to a relation `R`, or `C`" (`skip_sound_upto`), and instantiated with `R = List.Perm`, `C = Hash.Collision sha`
(`digestSha_collision`, from `C04_sensitive`). -/
namespace Spok.RunHash
open Spok Spok.Run

abbrev Bytes := Hash.Bytes
abbrev Path := Hash.Path

/-! ## an injective code of the hasher's result in `Nat` -/

/-- strictly more than `Char.toNat c + 1` for every `c` -/
def charBase : Nat := 1114113

/-- bijective base-`charBase` numeral of a character list (digits `c.toNat + 1 ∈ [1, charBase)`, least significant first) -/
def codeChars : List Char → Nat
  | [] => 0
  | c :: cs => (c.toNat + 1) + charBase * codeChars cs

theorem char_digit_lt (c : Char) : c.toNat + 1 < charBase := by
  have h : c.toNat < 1114112 := by
    have := c.valid
    simp only [Char.toNat]
    rcases this with h | ⟨_, h⟩ <;> simp only [UInt32.toNat] at * <;> omega
  unfold charBase; omega

theorem codeChars_injective : ∀ {a b : List Char}, codeChars a = codeChars b → a = b
  | [], [], _ => rfl
  | [], d :: ds, h => by simp only [codeChars] at h; omega
  | c :: cs, [], h => by simp only [codeChars] at h; omega
  | c :: cs, d :: ds, h => by
    simp only [codeChars] at h
    have hc := char_digit_lt c
    have hd := char_digit_lt d
    have hmod : (c.toNat + 1 + charBase * codeChars cs) % charBase = c.toNat + 1 := by
      rw [Nat.add_mul_mod_self_left, Nat.mod_eq_of_lt hc]
    have hmod' : (d.toNat + 1 + charBase * codeChars ds) % charBase = d.toNat + 1 := by
      rw [Nat.add_mul_mod_self_left, Nat.mod_eq_of_lt hd]
    have hcd : c.toNat + 1 = d.toNat + 1 := by rw [← hmod, ← hmod', h]
    have hcd' : c = d := Char.toNat_inj.mp (by omega)
    have hrest : charBase * codeChars cs = charBase * codeChars ds := by omega
    have := Nat.eq_of_mul_eq_mul_left (by decide : 0 < charBase) hrest
    rw [hcd', codeChars_injective this]

/-- the hasher's result as a `Digest` of the run model: `0` for the (only) error, else the numeral of the hex string + 1 -/
def code : Except Hash.Err String → Digest
  | .error _ => 0
  | .ok s => codeChars s.toList + 1

theorem code_injective : ∀ {a b : Except Hash.Err String}, code a = code b → a = b
  | .error .unreadable, .error .unreadable, _ => rfl
  | .error _, .ok _, h => by simp [code] at h
  | .ok _, .error _, h => by simp [code] at h
  | .ok s, .ok s', h => by
    simp only [code, Nat.add_right_cancel_iff] at h
    rw [String.toList_inj.mp (codeChars_injective h)]

/-! ## abstract inputs as concrete file lists -/

section interp
variable (sha : Bytes → Bytes) (pathOf : Nat → Path) (contentOf : Nat → Bytes)

/-- the (path, content) pair an abstract item stands for -/
def pairOf (it : Item) : Path × Bytes := (pathOf it.1, contentOf it.2)

/-- the file list the hasher is handed for the abstract inputs `items`: every item a regular file
    (directories produce no result in the hasher and are not part of `Items`, see `Inputs.dirs`) -/
def concrete (items : Items) : List (Path × Hash.Entry) :=
  items.map fun (f, c) => (pathOf f, .regular (contentOf c))

/-- the run model's digest, instantiated: the real digest function on the concrete file list, coded in `Nat` -/
def digestSha (items : Items) : Digest := code (Hash.digest sha (concrete pathOf contentOf items))

theorem regs_concrete (items : Items) :
    Hash.regs (concrete pathOf contentOf items) = items.map (pairOf pathOf contentOf) := by
  induction items with
  | nil => rfl
  | cons it t ih =>
    obtain ⟨f, c⟩ := it
    simp only [concrete, List.map_cons, Hash.regs, pairOf] at ih ⊢
    rw [ih]

theorem concrete_readable (items : Items) : ∀ pe ∈ concrete pathOf contentOf items, pe.2 ≠ .unreadable := by
  intro pe hpe
  simp only [concrete, List.mem_map] at hpe
  obtain ⟨⟨f, c⟩, _, rfl⟩ := hpe
  simp

/-- the digest of a list of regular files is never an error -/
theorem digest_concrete_ok (items : Items) : ∃ d, Hash.digest sha (concrete pathOf contentOf items) = .ok d :=
  Hash.digest_ok_of_readable sha (concrete_readable pathOf contentOf items)

/-- the 32 bytes the real hasher hex-encodes for `items`: `sha` of the sorted, concatenated 64-byte items -/
def rawDigest (items : Items) : Bytes :=
  sha (Hash.sort ((items.map (pairOf pathOf contentOf)).map (Hash.itemOf sha))).flatten

/-- closed form of the real digest on a list of regular files -/
theorem digest_concrete_eq (items : Items) :
    Hash.digest sha (concrete pathOf contentOf items) = .ok (Hash.hex (rawDigest sha pathOf contentOf items)) := by
  have hr : (concrete pathOf contentOf items).any Hash.isUnreadable = false := by
    apply List.any_eq_false.mpr
    intro pe hpe
    simp only [concrete, List.mem_map] at hpe
    obtain ⟨⟨f, c⟩, _, rfl⟩ := hpe
    simp [Hash.isUnreadable]
  rw [Hash.digest_eq, hr, regs_concrete]
  rfl

/-- the instantiated digests of two inputs agree iff the 32-byte digests the hasher computes agree -/
theorem digestSha_eq_iff_raw (i j : Items) :
    digestSha sha pathOf contentOf i = digestSha sha pathOf contentOf j ↔
      rawDigest sha pathOf contentOf i = rawDigest sha pathOf contentOf j := by
  unfold digestSha
  rw [digest_concrete_eq, digest_concrete_eq]
  constructor
  · intro h
    have := code_injective h
    injection this with this
    exact Hash.hex_injective this
  · intro h; rw [h]

theorem rawDigest_perm {i j : Items} (h : i.Perm j) : rawDigest sha pathOf contentOf i = rawDigest sha pathOf contentOf j := by
  unfold rawDigest
  rw [Hash.sort_eq_of_perm ((h.map _).map _)]

/-- when the items already come in the hasher's order, sorting does nothing (lets the kernel evaluate `rawDigest` on
    concrete inputs without unfolding the well-founded recursion of `List.mergeSort`) -/
theorem rawDigest_of_sorted (items : Items)
    (hs : ((items.map (pairOf pathOf contentOf)).map (Hash.itemOf sha)).Pairwise (fun a b => Hash.ble a b = true)) :
    rawDigest sha pathOf contentOf items = sha ((items.map (pairOf pathOf contentOf)).map (Hash.itemOf sha)).flatten := by
  unfold rawDigest
  rw [List.Perm.eq_of_pairwise (fun a b _ _ => Hash.ble_antisymm a b) (Hash.sort_sorted _) hs (Hash.sort_perm _)]

/-- the instantiated digest is never the code of the error -/
theorem digestSha_pos (items : Items) : 0 < digestSha sha pathOf contentOf items := by
  obtain ⟨d, hd⟩ := digest_concrete_ok sha pathOf contentOf items
  simp [digestSha, hd, code]

theorem pairOf_injective (hp : Function.Injective pathOf) (hc : Function.Injective contentOf) :
    Function.Injective (pairOf pathOf contentOf) := by
  intro ⟨f, c⟩ ⟨g, d⟩ h
  simp only [pairOf, Prod.mk.injEq] at h
  rw [hp h.1, hc h.2]

/-- reordering the inputs does not change the instantiated digest (`C04_perm`) -/
theorem digestSha_perm {i j : Items} (h : i.Perm j) : digestSha sha pathOf contentOf i = digestSha sha pathOf contentOf j := by
  unfold digestSha concrete
  rw [Props.C04.C04_perm sha (h.map _)]

/-- **equal instantiated digests: the same collection of (file, content) pairs, or SHA-256 collided**
    (from `C04_sensitive`, injectivity of `code`, `pathOf`, `contentOf`) -/
theorem digestSha_collision (h32 : ∀ x, (sha x).length = 32)
    (hp : Function.Injective pathOf) (hc : Function.Injective contentOf) {i j : Items}
    (h : digestSha sha pathOf contentOf i = digestSha sha pathOf contentOf j) : i.Perm j ∨ Hash.Collision sha := by
  obtain ⟨di, hdi⟩ := digest_concrete_ok sha pathOf contentOf i
  obtain ⟨dj, hdj⟩ := digest_concrete_ok sha pathOf contentOf j
  have hcode := code_injective h
  rw [hdi, hdj] at hcode
  injection hcode with hcode
  subst hcode
  by_cases hperm : (Hash.regs (concrete pathOf contentOf i)).Perm (Hash.regs (concrete pathOf contentOf j))
  · rw [regs_concrete, regs_concrete] at hperm
    rcases Hash.perm_of_map_perm (pairOf pathOf contentOf) hperm with h' | ⟨x, y, hxy, hf⟩
    · exact .inl h'
    · exact absurd (pairOf_injective pathOf contentOf hp hc hf) hxy
  · exact .inr (Props.C04.C04_sensitive h32 hdi hdj hperm)

end interp

/-! ## a concrete injective naming (so that the injectivity hypotheses are satisfiable) -/

/-- file id `n` ↦ the path `"a…a"` (`n + 1` letters) -/
def pathU (n : Nat) : Path := List.replicate (n + 1) 97
/-- content id `n` ↦ `n` bytes `'x'` (content 0 is the empty file) -/
def contentU (n : Nat) : Bytes := List.replicate n 120

theorem pathU_injective : Function.Injective pathU := by
  intro a b h
  have := congrArg List.length h
  simpa [pathU] using this

theorem contentU_injective : Function.Injective contentU := by
  intro a b h
  have := congrArg List.length h
  simpa [contentU] using this

/-! ## the run invariant gives skip soundness up to whatever the digest decides -/

section upto
variable (digest : Items → Digest)

/-- `skip_sound` of Lemmas/Run redone for a digest that determines its argument only up to a relation `R` (or else `C`
    holds): whenever the machine skips, the files of the last success are `R`-related to the current ones, or `C`. -/
theorem skip_sound_upto (R : Items → Items → Prop) (C : Prop) (hR : ∀ i j, digest i = digest j → R i j ∨ C)
    (s : St) (h : Inv digest s) (t : TaskIn) (hskip : skipTest digest s t = true) :
    (∃ its, s.last t.name = some its ∧ R its t.inp.items) ∨ C := by
  simp [skipTest] at hskip
  obtain ⟨i, hi, hdi⟩ := h.1 t.name _ hskip.2
  rcases hR i t.inp.items hdi with hr | hc
  · exact .inl ⟨i, hi, hr⟩
  · exact .inr hc

/-- every state met in any history (kills included) satisfies the soundness invariant
    (= `Spok.Props.C01.reach_inv`, repeated here so that this file does not depend on a property file of the run engine) -/
theorem reach_inv {s : St} (h : Reach digest false s) : Inv digest s := by
  induction h with
  | start h _ force order fails =>
    exact inv_init digest _ force order fails (winv_history digest h _ (winv_init digest))
  | step _ ih => exact step_inv digest _ ih

/-- completeness up to `R`: between kills, an unforced task whose last success was on files `R`-related to the current
    (≥ 1) ones — where `R`-related inputs have equal digests — is skipped -/
theorem skip_complete_upto (R : Items → Items → Prop) (hR : ∀ i j, R i j → digest i = digest j)
    (s : St) (h : CInv digest s) (t : TaskIn) (hpc : s.pc = .decide) (hf : s.force = false)
    (its : Items) (hl : s.last t.name = some its) (hrel : R its t.inp.items) (hne : its ≠ []) (hn : t.inp.n > 0) :
    skipTest digest s t = true := by
  simp only [CInv, hpc] at h
  have hm := h.2 t.name its hl hne
  simp [skipTest, hf, hn, hm, hR _ _ hrel]

end upto

/-! ## a skip is reachable for EVERY digest function (non-vacuity without evaluating the digest) -/

def inpA : Name → Option Inputs := fun _ => some ⟨0, [(0, 1), (1, 2)]⟩
/-- the same two files, listed in the other order -/
def inpB : Name → Option Inputs := fun _ => some ⟨0, [(1, 2), (0, 1)]⟩
def noFail : Name → Bool := fun _ => false

/-- run task 0 on files {0 ↦ content 1, 1 ↦ content 2} -/
def hRun : History := [.edit inpA, .invoke false [0] noFail none]

/-- … then re-list the same two files in the other order -/
def hRunB : History := [.edit inpA, .invoke false [0] noFail none, .edit inpB]

/-- the machine state at the decision of the next invocation of task 0 -/
def atDecide (digest : Items → Digest) (h : History) : St :=
  step digest (initSt (runHistory digest World.init h).1 false [0] noFail)

theorem atDecide_reach (digest : Items → Digest) (h : History) : Reach digest false (atDecide digest h) :=
  .step (.start h (by simp) false [0] noFail)

theorem atDecide_reach_cf (digest : Items → Digest) (h : History) (hcf : crashFree h = true) :
    Reach digest true (atDecide digest h) :=
  .step (.start h (fun _ => hcf) false [0] noFail)

/-- after `hRun` the cache holds the digest of the inputs, whatever the digest function is -/
theorem atDecide_hRun (digest : Items → Digest) :
    (atDecide digest hRun).pc = .decide ∧
    (atDecide digest hRun).todo = [⟨0, ⟨0, [(0, 1), (1, 2)]⟩, true, true⟩] ∧
    (atDecide digest hRun).force = false ∧
    (atDecide digest hRun).mem 0 = some (digest [(0, 1), (1, 2)]) ∧
    (atDecide digest hRun).last 0 = some [(0, 1), (1, 2)] := by
  simp [atDecide, hRun, runHistory, runEvent, runInv, iter, step, initSt, mkTask, World.init, fuel, inpA, noFail,
    skipTest, recorded, upd, Inputs.n, res]

/-- … and likewise after the inputs were re-listed in the other order -/
theorem atDecide_hRunB (digest : Items → Digest) :
    (atDecide digest hRunB).pc = .decide ∧
    (atDecide digest hRunB).todo = [⟨0, ⟨0, [(1, 2), (0, 1)]⟩, true, true⟩] ∧
    (atDecide digest hRunB).force = false ∧
    (atDecide digest hRunB).mem 0 = some (digest [(0, 1), (1, 2)]) ∧
    (atDecide digest hRunB).last 0 = some [(0, 1), (1, 2)] := by
  simp [atDecide, hRunB, runHistory, runEvent, runInv, iter, step, initSt, mkTask, World.init, fuel, inpA, inpB, noFail,
    skipTest, recorded, upd, Inputs.n, res]

/-- run, run again: the second invocation skips — for every digest function -/
theorem skip_reachable (digest : Items → Digest) :
    ∃ s t rest, Reach digest false s ∧ s.pc = .decide ∧ s.todo = t :: rest ∧ skipTest digest s t = true := by
  obtain ⟨h1, h2, h3, h4, _⟩ := atDecide_hRun digest
  refine ⟨_, _, _, atDecide_reach digest hRun, h1, h2, ?_⟩
  simp [skipTest, h3, h4, Inputs.n]

end Spok.RunHash
