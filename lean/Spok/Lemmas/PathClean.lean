import Spok.Lemmas.PathBasic
/-! # Lemmas about `--clean`: the target list is the designated set, removing the targets one after the
other is one filter, and the refusal test is exactly "the spokfile, its directory or an ancestor". -/
namespace Spok.Clean

/-! ## mapE -/

theorem mapE_ok {α β ε} {f : α → Except ε β} {g : α → β} {l : List α} {r : List β}
    (hf : ∀ x ∈ l, ∀ y, f x = .ok y → y = g x) (h : mapE f l = .ok r) : r = l.map g := by
  induction l generalizing r with
  | nil => simp [mapE] at h; simp [h]
  | cons a t ih =>
    unfold mapE at h
    split at h
    · simp at h
    · rename_i b hb
      split at h
      · simp at h
      · rename_i bs hbs
        simp at h
        subst h
        rw [hf a (by simp) b hb, ih (fun x hx => hf x (by simp [hx])) hbs]
        simp

theorem mapE_ok_all {α β ε} {f : α → Except ε β} {l : List α} {r : List β}
    (h : mapE f l = .ok r) : ∀ x ∈ l, ∃ y, f x = .ok y := by
  induction l generalizing r with
  | nil => simp
  | cons a t ih =>
    unfold mapE at h
    split at h
    · simp at h
    · rename_i b hb
      split at h
      · simp at h
      · rename_i bs hbs
        intro x hx
        simp at hx
        rcases hx with rfl | hx
        · exact ⟨b, hb⟩
        · exact ih hbs x hx

theorem mapE_total {α β ε} {f : α → Except ε β} {g : α → β} {l : List α}
    (hf : ∀ x ∈ l, f x = .ok (g x)) : mapE f l = .ok (l.map g) := by
  induction l with
  | nil => simp [mapE]
  | cons a t ih =>
    unfold mapE
    rw [hf a (by simp), ih (fun x hx => hf x (by simp [hx]))]
    simp

/-! ## targets = designated -/

theorem statted_ok {fs : FS} {p y : Str} (h : statted fs p = .ok y) : y = p := by
  unfold statted at h
  split at h <;> simp at h
  exact h.symm

theorem namedTarget_ok {sf : SpokFile} {cwd : Str} {fs : FS} {n y : Str} (h : namedTarget sf cwd fs n = .ok y) :
    ∃ v, lookupVar sf.vars n = some v ∧ y = absP sf cwd v := by
  unfold namedTarget at h
  split at h
  · simp at h
  · rename_i v hv
    exact ⟨v, hv, statted_ok h⟩

/-- per task: the designated paths of that task, in the order the code collects them -/
def taskDesignated (sf : SpokFile) (cwd : Str) (t : Task) : List Str :=
  t.globOutputs.flatMap (globTargets sf cwd) ++ t.fileOutputs.map (fileTarget sf cwd) ++
  t.namedOutputs.filterMap (fun n => (lookupVar sf.vars n).map (absP sf cwd))

theorem designatedList_eq (sf : SpokFile) (cwd : Str) :
    designatedList sf cwd = sf.tasks.flatMap (taskDesignated sf cwd) ++ [sf.cacheDir] := rfl

theorem taskTargets_ok {sf : SpokFile} {cwd : Str} {fs : FS} {t : Task} {r : List Str}
    (h : taskTargets sf cwd fs t = .ok r) : r = taskDesignated sf cwd t := by
  unfold taskTargets at h
  split at h
  · simp at h
  · rename_i fl hfl
    split at h
    · simp at h
    · rename_i nm hnm
      simp at h
      subst h
      have h1 : fl = t.fileOutputs.map (fileTarget sf cwd) :=
        mapE_ok (fun x _ y hy => statted_ok hy) hfl
      have h2 : nm = t.namedOutputs.filterMap (fun n => (lookupVar sf.vars n).map (absP sf cwd)) := by
        clear hfl h1
        generalize t.namedOutputs = ns at hnm
        induction ns generalizing nm with
        | nil => simp [mapE] at hnm; simp [hnm]
        | cons a rest ih =>
          unfold mapE at hnm
          split at hnm
          · simp at hnm
          · rename_i b hb
            split at hnm
            · simp at hnm
            · rename_i bs hbs
              simp at hnm
              subst hnm
              obtain ⟨v, hv, rfl⟩ := namedTarget_ok hb
              simp [hv, ih _ hbs]
      simp [taskDesignated, h1, h2]

/-- when collecting succeeds, the list `toRemove` is exactly the designated list -/
theorem targets_ok {sf : SpokFile} {cwd : Str} {fs : FS} {ts : List Str}
    (h : targets sf cwd fs = .ok ts) : ts = designatedList sf cwd := by
  unfold targets at h
  split at h
  · simp at h
  · rename_i per hper
    simp at h
    subst h
    have : per = sf.tasks.map (taskDesignated sf cwd) := mapE_ok (fun x _ y hy => taskTargets_ok hy) hper
    rw [designatedList_eq, this, List.flatMap_def]

/-- ... and then every named output was defined -/
theorem targets_ok_defined {sf : SpokFile} {cwd : Str} {fs : FS} {ts : List Str}
    (h : targets sf cwd fs = .ok ts) :
    ∀ t ∈ sf.tasks, ∀ n ∈ t.namedOutputs, ∃ v, lookupVar sf.vars n = some v := by
  unfold targets at h
  split at h
  · simp at h
  · rename_i per hper
    intro t ht n hn
    obtain ⟨r, hr⟩ := mapE_ok_all hper t ht
    unfold taskTargets at hr
    split at hr
    · simp at hr
    · split at hr
      · simp at hr
      · rename_i nm hnm
        obtain ⟨y, hy⟩ := mapE_ok_all hnm n hn
        obtain ⟨v, hv, _⟩ := namedTarget_ok hy
        exact ⟨v, hv⟩

theorem mem_designatedList {sf : SpokFile} {cwd d : Str} :
    d ∈ designatedList sf cwd ↔ Designated sf cwd d := by
  constructor
  · intro h
    simp only [designatedList, List.mem_append, List.mem_flatMap, List.mem_map, List.mem_filterMap,
      List.mem_singleton, globTargets, fileTarget] at h
    rcases h with ⟨t, ht, (⟨g, hg, m, hm, rfl⟩ | ⟨o, ho, rfl⟩) | ⟨n, hn, hv⟩⟩ | rfl
    · exact .glob ht hg hm
    · exact .file ht ho
    · cases hl : lookupVar sf.vars n with
      | none => simp [hl] at hv
      | some v =>
        simp [hl] at hv
        subst hv
        exact .named ht hn hl
    · exact .cache
  · intro h
    simp only [designatedList, List.mem_append, List.mem_flatMap, List.mem_map, List.mem_filterMap,
      List.mem_singleton, globTargets, fileTarget]
    cases h with
    | file ht ho => exact .inl ⟨_, ht, .inl (.inr ⟨_, ho, rfl⟩)⟩
    | named ht hn hv => exact .inl ⟨_, ht, .inr ⟨_, hn, by simp [hv]⟩⟩
    | glob ht hg hm => exact .inl ⟨_, ht, .inl (.inl ⟨_, hg, _, hm, rfl⟩)⟩
    | cache => exact .inr rfl

/-- when collecting the targets succeeds: all named outputs defined, no `os.Stat` failure of the ENOTDIR kind -/
theorem targets_total {sf : SpokFile} {cwd : Str} {fs : FS}
    (hdef : ∀ t ∈ sf.tasks, ∀ n ∈ t.namedOutputs, ∃ v, lookupVar sf.vars n = some v)
    (hstat : ∀ d ∈ designatedList sf cwd, statErr fs (pathOf d) = false) :
    targets sf cwd fs = .ok (designatedList sf cwd) := by
  have hper : mapE (taskTargets sf cwd fs) sf.tasks = .ok (sf.tasks.map (taskDesignated sf cwd)) := by
    apply mapE_total
    intro t ht
    have hmem : ∀ d ∈ taskDesignated sf cwd t, d ∈ designatedList sf cwd := by
      intro d hd
      rw [designatedList_eq]
      exact List.mem_append_left _ (List.mem_flatMap.2 ⟨t, ht, hd⟩)
    have h1 : mapE (fun o => statted fs (fileTarget sf cwd o)) t.fileOutputs =
        .ok (t.fileOutputs.map (fileTarget sf cwd)) := by
      apply mapE_total
      intro o ho
      have : statErr fs (pathOf (fileTarget sf cwd o)) = false :=
        hstat _ (hmem _ (List.mem_append_left _ (List.mem_append_right _ (List.mem_map.2 ⟨o, ho, rfl⟩))))
      simp [statted, this]
    have h2 : mapE (namedTarget sf cwd fs) t.namedOutputs =
        .ok (t.namedOutputs.map (fun n => absP sf cwd ((lookupVar sf.vars n).getD []))) := by
      apply mapE_total
      intro n hn
      obtain ⟨v, hv⟩ := hdef t ht n hn
      have : statErr fs (pathOf (absP sf cwd v)) = false :=
        hstat _ (hmem _ (List.mem_append_right _ (List.mem_filterMap.2 ⟨n, hn, by simp [hv]⟩)))
      simp [namedTarget, hv, statted, this]
    have h3 : t.namedOutputs.map (fun n => absP sf cwd ((lookupVar sf.vars n).getD [])) =
        t.namedOutputs.filterMap (fun n => (lookupVar sf.vars n).map (absP sf cwd)) := by
      have : ∀ ns : List Str, (∀ n ∈ ns, ∃ v, lookupVar sf.vars n = some v) →
          ns.map (fun n => absP sf cwd ((lookupVar sf.vars n).getD [])) =
          ns.filterMap (fun n => (lookupVar sf.vars n).map (absP sf cwd)) := by
        intro ns
        induction ns with
        | nil => simp
        | cons a rest ih =>
          intro h
          obtain ⟨v, hv⟩ := h a (by simp)
          simp [hv, ih (fun n hn => h n (by simp [hn]))]
      exact this _ (hdef t ht)
    simp [taskTargets, h1, h2, h3, taskDesignated]
  simp [targets, hper, designatedList_eq, List.flatMap_def]

/-! ## removing one after the other = one filter -/

theorem foldl_removeAll (ts : List Str) (fs : FS) :
    ts.foldl (fun fs t => removeAll fs (pathOf t)) fs = expectedAfter fs ts := by
  induction ts generalizing fs with
  | nil =>
    simp only [List.foldl_nil, expectedAfter, List.any_nil, Bool.not_false]
    exact (List.filter_eq_self.2 (fun _ _ => rfl)).symm
  | cons t rest ih =>
    rw [List.foldl_cons, ih]
    simp only [expectedAfter, removeAll, List.filter_filter]
    congr 1
    funext e
    simp only [List.any_cons, Bool.not_or]
    exact Bool.and_comm _ _

theorem mem_expectedAfter {fs : FS} {ds : List Str} {e : Path × Kind} :
    e ∈ expectedAfter fs ds ↔ e ∈ fs ∧ ¬ ∃ d ∈ ds, pathOf d <+: e.1 := by
  simp [expectedAfter, within, List.mem_filter]

/-! ## the refusal test -/

theorem within_iff {d p : Path} : within d p = true ↔ d <+: p := by
  simp [within]

theorem containsSpokfile_cleanAbs {t target : Str} (ht : CleanAbs t) (hp : CleanAbs target) :
    containsSpokfile t target = within (pathOf t) (pathOf target) := by
  unfold containsSpokfile
  simp only [ht.2, hp.2, ht.1, hp.1, Bool.true_and]
  by_cases h : t = target
  · subst h; simp [within]
  · simp [h]

theorem cleanAbs_cacheDir {sf : SpokFile} (hd : isAbs sf.dir = true) : CleanAbs sf.cacheDir :=
  cleanAbs_join hd

theorem cleanAbs_path {sf : SpokFile} (hd : isAbs sf.dir = true) : CleanAbs sf.path :=
  cleanAbs_join hd

/-- what `physical` returns is again a clean absolute path (`EvalSymlinks` + `Join`) -/
def PhysOk (sf : SpokFile) : Prop := ∀ s, CleanAbs s → CleanAbs (sf.phys s)

theorem cleanAbs_designated {sf : SpokFile} {cwd d : Str} (hd : isAbs sf.dir = true) (hc : isAbs cwd = true)
    (hp : PhysOk sf) (h : Designated sf cwd d) : CleanAbs d := by
  cases h with
  | file _ _ => exact hp _ (cleanAbs_abs hc _)
  | named _ _ _ => exact hp _ (cleanAbs_abs hc _)
  | glob _ _ _ => exact hp _ (cleanAbs_abs hc _)
  | cache => exact cleanAbs_cacheDir hd

/-- on designated paths the code's test `containsSpokfile` is the specification's `protectedPath` -/
theorem containsSpokfile_designated {sf : SpokFile} {cwd d : Str} (hd : isAbs sf.dir = true) (hc : isAbs cwd = true)
    (hp : PhysOk sf) (h : Designated sf cwd d) : containsSpokfile d sf.path = protectedPath sf (pathOf d) := by
  rw [containsSpokfile_cleanAbs (cleanAbs_designated hd hc hp h) (cleanAbs_path hd)]
  rfl

theorem isPrefix_trans' {a b c : Path} (h1 : a <+: b) (h2 : b <+: c) : a <+: c := List.IsPrefix.trans h1 h2

/-! ## runClean, case by case -/

theorem runClean_err_fs (sf : SpokFile) (cwd : Str) (fs : FS) :
    (runClean sf cwd fs).err ≠ none → (runClean sf cwd fs).fs = fs ∧ (runClean sf cwd fs).removed = [] := by
  unfold runClean
  split
  · simp
  · split <;> simp

theorem runClean_ok {sf : SpokFile} {cwd : Str} {fs : FS} (h : (runClean sf cwd fs).err = none) :
    targets sf cwd fs = .ok (designatedList sf cwd) ∧
    (∀ d ∈ designatedList sf cwd, containsSpokfile d sf.path = false) ∧
    (runClean sf cwd fs).fs = expectedAfter fs (designatedList sf cwd) ∧
    (runClean sf cwd fs).removed = designatedList sf cwd := by
  unfold runClean at h ⊢
  split at h
  · simp at h
  · rename_i ts hts
    have hts' := targets_ok hts
    subst hts'
    split at h
    · simp at h
    · rename_i hfind
      refine ⟨hts, ?_, foldl_removeAll _ _, rfl⟩
      intro d hd
      have := List.find?_eq_none.1 hfind d hd
      simpa using this

end Spok.Clean

namespace Spok.Clean

/-! ## the link resolution of `Clean.lean` is a `physical`: clean absolute paths in, clean absolute paths out -/

theorem resolveDir_abs (links : List (Str × Str)) : ∀ (fuel : Nat) (cs : List Str) (cur : Str), isAbs cur = true →
    isAbs (resolveDir links fuel cs cur) = true
  | 0, _, _, h => by simpa [resolveDir] using h
  | _ + 1, [], _, h => by simpa [resolveDir] using h
  | fuel + 1, c :: rest, cur, h => by
    unfold resolveDir
    simp only []
    split
    · exact resolveDir_abs links fuel rest _ (resolveDir_abs links fuel _ _ rfl)
    · exact resolveDir_abs links fuel rest _ (cleanAbs_join h).1

theorem physOf_cleanAbs (links : List (Str × Str)) (s : Str) (h : CleanAbs s) : CleanAbs (physOf links s) := by
  unfold physOf
  split
  · exact h
  · exact cleanAbs_join (resolveDir_abs links _ _ _ rfl)

/-- a spokfile whose `phys` is the link resolution of some world meets `PhysOk` -/
theorem physOk_physOf (dir : Str) (vars : List (Str × Str)) (tasks : List Task) (links : List (Str × Str)) :
    PhysOk ⟨dir, vars, tasks, physOf links⟩ := fun s h => physOf_cleanAbs links s h

end Spok.Clean
