import Spok.Lemmas.JsonEnc
/-! # Reading back what `Dump` wrote, part 1: `takeStr` finds the end of an encoded string literal -/
namespace Spok.Json
open Spok

def pre (l : Bytes) (x : Bytes × Bytes) : Bytes × Bytes := (l ++ x.1, x.2)

/-- neither a quote nor a backslash -/
def PlainB (b : UInt8) : Prop := b.toNat ≠ 34 ∧ b.toNat ≠ 92

theorem takeStr_cons (c : UInt8) (rest : Bytes) : takeStr (c :: rest) =
    if c.toNat == 34 then some ([], rest)
    else if c.toNat == 92 then
      match rest with
      | [] => none
      | e :: rest' => (takeStr rest').map fun (b, r) => (c :: e :: b, r)
    else (takeStr rest).map fun (b, r) => (c :: b, r) := by
  conv => lhs; unfold takeStr
  rfl

theorem takeStr_plain1 (b : UInt8) (h : PlainB b) (rest : Bytes) : takeStr (b :: rest) = (takeStr rest).map (pre [b]) := by
  rw [takeStr_cons]
  simp only [beq_iff_eq, h.1, h.2, if_false]
  cases takeStr rest <;> simp [pre]

theorem takeStr_plain : ∀ (l : Bytes), (∀ b ∈ l, PlainB b) → ∀ rest, takeStr (l ++ rest) = (takeStr rest).map (pre l)
  | [], _, rest => by rcases h : takeStr rest with _ | ⟨x⟩ <;> simp [h, pre]
  | b :: l, h, rest => by
    rw [List.cons_append, takeStr_plain1 b (h b (by simp)), takeStr_plain l (fun x hx => h x (by simp [hx]))]
    cases takeStr rest <;> simp [pre]

theorem takeStr_esc (e : UInt8) (rest : Bytes) : takeStr (92 :: e :: rest) = (takeStr rest).map (pre [92, e]) := by
  rw [takeStr_cons]
  simp only [show ((92 : UInt8).toNat == 34) = false by decide, show ((92 : UInt8).toNat == 92) = true by decide]
  cases takeStr rest <;> simp [pre]

theorem plain_of_hex {c : UInt8} (h : isHex c.toNat = true) : PlainB c := by
  simp only [isHex, Bool.or_eq_true, Bool.and_eq_true, decide_eq_true_eq] at h
  constructor <;> omega

theorem takeStr_u4 {a b c d : UInt8} (ha : isHex a.toNat = true) (hb : isHex b.toNat = true) (hc : isHex c.toNat = true)
    (hd : isHex d.toNat = true) (rest : Bytes) :
    takeStr ([92, 117, a, b, c, d] ++ rest) = (takeStr rest).map (pre [92, 117, a, b, c, d]) := by
  have hp : ∀ x ∈ [a, b, c, d], PlainB x := by
    intro x hx
    simp only [List.mem_cons, List.not_mem_nil, or_false] at hx
    rcases hx with rfl | rfl | rfl | rfl <;> exact plain_of_hex ‹_›
  show takeStr (92 :: 117 :: ([a, b, c, d] ++ rest)) = _
  rw [takeStr_esc, takeStr_plain [a, b, c, d] hp]
  cases takeStr rest <;> simp [pre]

theorem takeStr_escAscii (b : UInt8) (hb : b.toNat < 128) (rest : Bytes) : takeStr (escAscii b ++ rest) = (takeStr rest).map (pre (escAscii b)) := by
  unfold escAscii
  simp only []
  split
  · exact takeStr_esc _ _
  · repeat' split
    all_goals first
      | exact takeStr_esc _ _
      | exact takeStr_u4 (by decide) (by decide) (isHex_hexd _ (by omega)) (isHex_hexd _ (by omega)) rest
      | (rename_i h1 _ _ _ _ _ _
         simp only [Bool.or_eq_true, beq_iff_eq, not_or] at h1
         exact takeStr_plain [b] (by intro x hx; simp only [List.mem_singleton] at hx; subst hx; exact ⟨h1.1, h1.2⟩) rest)

theorem takeStr_encRune {bs : Bytes} {r : Rune} (hr : r ∈ decodeAll bs) (rest : Bytes) :
    takeStr (encRune r ++ rest) = (takeStr rest).map (pre (encRune r)) := by
  unfold encRune
  split
  · rename_i h; exact takeStr_escAscii _ h _
  · rename_i h
    repeat' split
    all_goals first
      | exact takeStr_u4 (by decide) (by decide) (by decide) (by decide) rest
      | (obtain ⟨b0, rest0, rfl⟩ := decodeAll_mem hr
         refine takeStr_plain _ ?_ rest
         intro b hb
         simp only [Rune.bytes, List.mem_cons] at hb
         rcases hb with rfl | hb
         · constructor <;> omega
         · have := decode1_more_high b0 rest0 b hb
           constructor <;> omega)

theorem takeStr_flatMap {bs : Bytes} : ∀ (rs : List Rune), (∀ r ∈ rs, r ∈ decodeAll bs) → ∀ rest,
    takeStr (rs.flatMap encRune ++ rest) = (takeStr rest).map (pre (rs.flatMap encRune))
  | [], _, rest => by rcases h : takeStr rest with _ | ⟨x⟩ <;> simp [h, pre]
  | r :: rs, h, rest => by
    rw [List.flatMap_cons, List.append_assoc, takeStr_encRune (h r (by simp)),
      takeStr_flatMap rs (fun x hx => h x (by simp [hx]))]
    cases takeStr rest <;> simp [pre]

/-- after the opening quote of an encoded literal, `takeStr` returns exactly the body and what follows the closing quote -/
theorem takeStr_encBody (s rest : Bytes) : takeStr (encBody s ++ 34 :: rest) = some (encBody s, rest) := by
  unfold encBody
  rw [takeStr_flatMap (bs := s) _ (fun _ h => h)]
  rw [takeStr_cons]
  simp [pre]

end Spok.Json
