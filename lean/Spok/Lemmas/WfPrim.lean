import Spok.Lemmas.WfTok
/-! # The scanner primitives and loops, seen through the zipper (for `parse_wf`)

`Z inp l`: the zipper of the scanner state `l` is a split of the input and the token under
construction (`tokRev`) is the stretch directly left of the cursor.  Every primitive and every
scanning loop preserves it; the loops come with a description of what they put into `tokRev`
(`scanIdent`: the maximal run of identifier runes; `scanComment`: no newline, and stops in front of
an ASCII rune or at the end; `scanString`: no quote, a newline at most in first position, then the
closing quote; `stripCR`: removes exactly the trailing carriage returns).

`TokInvV inp m l` is the continuation-style token invariant: the tokens emitted so far, followed by
any stream admissible from mode `m`, form an admissible stream. -/
namespace Spok.PW
open Spok

/-! ## projections of the primitives -/

theorem next_nil {l : L} (h : l.right = []) : l.next = ({ l with width := 0 }, eofRune) := by
  simp [L.next, h]

theorem next_cons {l : L} {r : Rune} {rs : List Rune} (h : l.right = r :: rs) :
    (l.next).1.left = r :: l.left ∧ (l.next).1.right = rs ∧ (l.next).1.tokRev = r :: l.tokRev ∧ (l.next).2 = r := by
  simp [L.next, h]

@[simp] theorem next_toks (l : L) : (l.next).1.toks = l.toks := by
  unfold L.next; cases l.right <;> rfl

/-- `peek` changes nothing but `width` (and possibly `line`) -/
theorem peek_fields (l : L) :
    (l.peek).1.left = l.left ∧ (l.peek).1.tokRev = l.tokRev ∧ (l.peek).1.toks = l.toks := by
  show (l.next).1.backup.left = l.left ∧ (l.next).1.backup.tokRev = l.tokRev ∧ (l.next).1.backup.toks = l.toks
  unfold L.next
  cases hr : l.right with
  | nil => simp [L.backup]
  | cons r rs => simp [L.backup, Rune.w_ne_zero]

@[simp] theorem peek_left (l : L) : (l.peek).1.left = l.left := (peek_fields l).1
@[simp] theorem peek_tokRev (l : L) : (l.peek).1.tokRev = l.tokRev := (peek_fields l).2.1
@[simp] theorem peek_toks (l : L) : (l.peek).1.toks = l.toks := (peek_fields l).2.2
@[simp] theorem atEOL_left (l : L) : (l.atEOL).1.left = l.left := peek_left l
@[simp] theorem atEOL_tokRev (l : L) : (l.atEOL).1.tokRev = l.tokRev := peek_tokRev l
@[simp] theorem atEOL_toks (l : L) : (l.atEOL).1.toks = l.toks := peek_toks l
@[simp] theorem nb_left (l : L) : (l.next).1.backup.left = l.left := peek_left l
@[simp] theorem nb_tokRev (l : L) : (l.next).1.backup.tokRev = l.tokRev := peek_tokRev l
@[simp] theorem nb_toks (l : L) : (l.next).1.backup.toks = l.toks := peek_toks l

@[simp] theorem backup_toks (l : L) : l.backup.toks = l.toks := by
  unfold L.backup; repeat' split
  all_goals rfl

@[simp] theorem absorb_toks (l : L) (n : Nat) : (l.absorb n).toks = l.toks := rfl
@[simp] theorem emit_tokRev (l : L) (t : TT) : (l.emit t).tokRev = [] := rfl
@[simp] theorem emit_left (l : L) (t : TT) : (l.emit t).left = l.left := rfl
@[simp] theorem discard_tokRev (l : L) : l.discard.tokRev = [] := rfl
@[simp] theorem discard_left (l : L) : l.discard.left = l.left := rfl
@[simp] theorem discard_toks (l : L) : l.discard.toks = l.toks := rfl
theorem emit_toks (l : L) (t : TT) :
    (l.emit t).toks.toList = l.toks.toList ++ [⟨t, l.tokRev.reverse, l.start, l.startLine, 0⟩] := by
  simp [L.emit]
theorem error_toks (l : L) : (l.error).1.toks.toList = l.toks.toList ++ [⟨.error, [], l.start, l.startLine, l.line⟩] := by
  simp [L.error]

theorem peek_rune_nil {l : L} (h : l.right = []) : (l.peek).2 = eofRune := by
  rw [L.peek_rune, L.next_rune_nil h]
theorem peek_rune_cons {l : L} {r : Rune} {rs : List Rune} (h : l.right = r :: rs) : (l.peek).2 = r := by
  rw [L.peek_rune]; exact (next_cons h).2.2.2

/-- the rune just read has a code point the end-of-input rune does not have: it came from the input -/
theorem right_of_next_cp {l : L} {c : Nat} (hc : (l.next).2.cp = c) (hne : c ≠ 65533) : ∃ rs, l.right = (l.next).2 :: rs := by
  cases hr : l.right with
  | nil => simp [L.next, hr, eofRune] at hc; omega
  | cons r rs => exact ⟨rs, by simp [L.next, hr]⟩

theorem right_of_next_ident {l : L} (h : isIdent (l.next).2 = true) : ∃ rs, l.right = (l.next).2 :: rs := by
  cases hr : l.right with
  | nil => exact absurd hr (right_ne_nil_of_isIdent_next h)
  | cons r rs => exact ⟨rs, by simp [L.next, hr]⟩

theorem right_of_next_letter {l : L} (h : isLetter (l.next).2 = true) : ∃ rs, l.right = (l.next).2 :: rs := by
  cases hr : l.right with
  | nil => exact absurd hr (right_ne_nil_of_isLetter_next h)
  | cons r rs => exact ⟨rs, by simp [L.next, hr]⟩

/-! ## `atEOL` -/

theorem atEOL_snd (l : L) : (l.atEOL).2 = ((l.peek).2.cp == NL || l.hasPrefix [CR, NL]) := by
  simp [L.atEOL, L.hasPrefix]

/-- at a line end the cursor is in front of LF or CR -/
theorem ascHead_of_atEOL {l : L} (h : (l.atEOL).2 = true) (hne : l.right ≠ []) : AscHead l.right := by
  rw [atEOL_snd] at h
  cases hr : l.right with
  | nil => exact absurd hr hne
  | cons r rs =>
    rw [peek_rune_cons hr] at h
    simp only [Bool.or_eq_true, beq_iff_eq] at h
    show r.cp < 128
    rcases h with h | h
    · omega
    · simp [L.hasPrefix, hr] at h; omega

theorem not_NL_of_not_atEOL {l : L} {r : Rune} {rs : List Rune} (h : (l.atEOL).2 = false) (hr : l.right = r :: rs) :
    r.cp ≠ NL := by
  rw [atEOL_snd, peek_rune_cons hr] at h
  simp only [Bool.or_eq_false_iff, beq_eq_false_iff_ne] at h
  exact h.1

theorem dropWhile_head {α} (p : α → Bool) : ∀ (xs : List α) (x : α) (rest : List α),
    xs.dropWhile p = x :: rest → p x = false := by
  intro xs
  induction xs with
  | nil => intro x rest h; simp at h
  | cons a xs ih =>
    intro x rest h
    simp only [List.dropWhile_cons] at h
    split at h
    · exact ih x rest h
    · rename_i hp
      injection h with h1 _
      subst h1; simpa using hp

/-- after `skipWs` the cursor is not in front of white space, so not at a line end -/
theorem atEOL_false_of_nonspace {l : L} (h : ∀ r rs, l.right = r :: rs → isSpace r = false) : (l.atEOL).2 = false := by
  rw [atEOL_snd]
  cases hr : l.right with
  | nil => rw [peek_rune_nil hr]; simp [L.hasPrefix, hr, eofRune]
  | cons r rs =>
    have hs := h r rs hr
    rw [peek_rune_cons hr]
    simp only [Bool.or_eq_false_iff, beq_eq_false_iff_ne]
    constructor
    · intro hc; rw [isSpace, hc, isSpaceCp_NL] at hs; cases hs
    · cases hp : l.hasPrefix [CR, NL]
      · rfl
      · exfalso
        simp [L.hasPrefix, hr] at hp
        rw [isSpace, hp.1, isSpaceCp_CR] at hs; cases hs

/-! ## the zipper invariant -/

structure Z (inp : List Rune) (l : L) : Prop where
  zip : l.left.reverse ++ l.right = inp
  pre : ∃ before, l.left = l.tokRev ++ before

variable {inp : List Rune} {l : L}

/-- the token under construction is a slice of the input, and what follows it is `right` -/
theorem Z.slice (h : Z inp l) : ∃ pre, inp = pre ++ l.tokRev.reverse ++ l.right := by
  obtain ⟨before, hb⟩ := h.pre
  refine ⟨before.reverse, ?_⟩
  rw [← h.zip, hb]; simp

theorem Z.sl (h : Z inp l) : Sl inp l.tokRev.reverse := by
  obtain ⟨pre, hp⟩ := h.slice
  exact ⟨pre, l.right, hp⟩

theorem Z.sla (h : Z inp l) (ha : AscHead l.right) : SlA inp l.tokRev.reverse := by
  obtain ⟨pre, hp⟩ := h.slice
  exact ⟨pre, l.right, hp, ha⟩

theorem Z.of_eq {l' : L} (h : Z inp l) (h1 : l'.left = l.left) (h2 : l'.right = l.right) (h3 : l'.tokRev = l.tokRev) :
    Z inp l' := ⟨by rw [h1, h2]; exact h.zip, by rw [h1, h3]; exact h.pre⟩

theorem Z.next (h : Z inp l) : Z inp (l.next).1 := by
  cases hr : l.right with
  | nil => rw [next_nil hr]; exact h.of_eq rfl rfl rfl
  | cons r rs =>
    obtain ⟨h1, h2, h3, _⟩ := next_cons hr
    obtain ⟨before, hb⟩ := h.pre
    refine ⟨?_, before, ?_⟩
    · rw [h1, h2, ← h.zip, hr]; simp
    · rw [h1, h3, hb]; simp

theorem Z.peek (h : Z inp l) : Z inp (l.peek).1 := h.of_eq (by simp) (by simp) (by simp)
theorem Z.atEOL (h : Z inp l) : Z inp (l.atEOL).1 := h.peek
theorem Z.nb (h : Z inp l) : Z inp (l.next).1.backup := h.peek

theorem Z.absorb (h : Z inp l) (n : Nat) : Z inp (l.absorb n) := by
  obtain ⟨before, hb⟩ := h.pre
  refine ⟨?_, before, ?_⟩
  · simp only [L.absorb, List.reverse_append, List.reverse_reverse, List.append_assoc, List.take_append_drop]
    exact h.zip
  · simp [L.absorb, hb]

theorem Z.emit (h : Z inp l) (t : TT) : Z inp (l.emit t) := ⟨h.zip, l.left, rfl⟩
theorem Z.discard (h : Z inp l) : Z inp l.discard := ⟨h.zip, l.left, rfl⟩

theorem Z.init (rs : List Rune) : Z rs (L.init rs) := ⟨by simp [L.init], [], by simp [L.init]⟩

/-- `lastIs c`: the token is not empty and ends with a rune of code point `c`, which `stepBack` returns to the input -/
theorem Z.lastIs_true (h : Z inp l) {c : Nat} (hl : l.lastIs c = true) :
    ∃ x ts, l.tokRev = x :: ts ∧ x.cp = c ∧ l.stepBack.tokRev = ts ∧ l.stepBack.right = x :: l.right ∧
      l.stepBack.toks = l.toks ∧ Z inp l.stepBack := by
  obtain ⟨before, hb⟩ := h.pre
  unfold L.lastIs at hl
  split at hl
  · rename_i t ts r ls h1 h2
    have hcp : r.cp = c := by simpa using hl
    rw [h1, h2] at hb
    simp only [List.cons_append, List.cons.injEq] at hb
    obtain ⟨rfl, hls⟩ := hb
    have hz := h.zip
    refine ⟨r, ts, h1, hcp, by simp [L.stepBack, h1, h2], by simp [L.stepBack, h1, h2], by simp [L.stepBack, h1, h2], ?_, before, ?_⟩
    · simp only [L.stepBack, h1, h2]
      rw [h2] at hz; simpa using hz
    · simp [L.stepBack, h1, h2, hls]
  · cases hl

theorem Z.lastIs_false (h : Z inp l) {c : Nat} (hl : l.lastIs c = false) : ∀ x ts, l.tokRev = x :: ts → x.cp ≠ c := by
  intro x ts hx
  obtain ⟨before, hb⟩ := h.pre
  rw [hx] at hb
  unfold L.lastIs at hl
  rw [hx, hb] at hl
  simpa using hl

/-! ## the scanning loops -/

theorem skipWs_tokRev (l : L) : (skipWs l).tokRev = [] := by
  induction h : l.right.length using Nat.strongRecOn generalizing l with
  | _ n ih =>
    unfold skipWs
    split
    · rfl
    · rename_i r rs hr
      split
      · exact ih _ (by subst h; simp [hr]) _ rfl
      · rfl

theorem skipWs_toks (l : L) : (skipWs l).toks = l.toks := by
  induction h : l.right.length using Nat.strongRecOn generalizing l with
  | _ n ih =>
    unfold skipWs
    split
    · simp
    · rename_i r rs hr
      split
      · rw [ih _ (by subst h; simp [hr]) _ rfl]; simp
      · simp

theorem Z.skipWs (h : Z inp l) : Z inp (skipWs l) := by
  induction hn : l.right.length using Nat.strongRecOn generalizing l with
  | _ n ih =>
    unfold Spok.skipWs
    split
    · exact h.nb.discard
    · rename_i r rs hr
      split
      · exact ih _ (by subst hn; simp [hr]) h.next rfl
      · exact h.nb.discard

/-- after `skipWs` the cursor is at the end of the input or in front of a rune that is not white space -/
theorem skipWs_head (l : L) : ∀ r rs, (skipWs l).right = r :: rs → isSpace r = false := by
  intro r rs h
  rw [skipWs_right] at h
  exact dropWhile_head _ _ _ _ h

theorem scanIdent_spec (l : L) :
    (scanIdent l).tokRev = (l.right.takeWhile isIdent).reverse ++ l.tokRev ∧ (scanIdent l).toks = l.toks := by
  induction h : l.right.length using Nat.strongRecOn generalizing l with
  | _ n ih =>
    unfold scanIdent
    split
    · rename_i hr; simp [hr]
    · rename_i r rs hr
      split
      · rename_i hs
        obtain ⟨h1, h2, h3, _⟩ := next_cons hr
        obtain ⟨e1, e2⟩ := ih _ (by subst h; simp [hr]) (l.next).1 rfl
        rw [e1, e2, h2, h3, hr]
        simp [hs]
      · rename_i hs
        simp [hr, hs]

theorem Z.scanIdent (h : Z inp l) : Z inp (scanIdent l) := by
  induction hn : l.right.length using Nat.strongRecOn generalizing l with
  | _ n ih =>
    unfold Spok.scanIdent
    split
    · exact h.nb
    · rename_i r rs hr
      split
      · exact ih _ (by subst hn; simp [hr]) h.next rfl
      · exact h.nb

/-- the loop of `lexComment`: what it reads has no newline in it, and it stops at the end of the input
    or in front of LF / CR -/
theorem scanComment_spec (h : Z inp l) :
    ∃ s : List Rune, (scanComment l).tokRev = s.reverse ++ l.tokRev ∧ (∀ x ∈ s, x.cp ≠ NL) ∧ (scanComment l).toks = l.toks ∧
      AscHead (scanComment l).right ∧ Z inp (scanComment l) := by
  induction hn : l.right.length using Nat.strongRecOn generalizing l with
  | _ n ih =>
    subst hn
    unfold scanComment
    split
    · rename_i hr
      exact ⟨[], by simp, by simp, by simp, by simp [hr, AscHead], h.atEOL⟩
    · rename_i r rs hr
      split
      · rename_i he
        refine ⟨[], by simp, by simp, by simp, ?_, h.atEOL⟩
        rw [L.atEOL_right]
        exact ascHead_of_atEOL he (by simp [hr])
      · rename_i he
        have he : (l.atEOL).2 = false := by simpa using he
        have hne := not_NL_of_not_atEOL he hr
        have hr' : (l.atEOL).1.right = r :: rs := by simp [hr]
        obtain ⟨h1, h2, h3, _⟩ := next_cons hr'
        obtain ⟨s, e1, e2, e3, e4, e5⟩ := ih _ (by simp [hr]) (l := ((l.atEOL).1.next).1) h.atEOL.next rfl
        refine ⟨r :: s, ?_, ?_, ?_, e4, e5⟩
        · rw [e1, h3]; simp
        · intro x hx
          simp only [List.mem_cons] at hx
          rcases hx with rfl | hx
          · exact hne
          · exact e2 x hx
        · rw [e3]; simp

/-- the loop of `lexString` on a terminated string: no quote inside, a newline at most in first
    position (`atEOL` is tested on what *follows* each rune), then the closing quote -/
theorem scanString_spec (h : Z inp l) : ∀ l', scanString l = .ok l' →
    ∃ (s : List Rune) (q : Rune), l'.tokRev = q :: (s.reverse ++ l.tokRev) ∧ q.cp = QUOTE ∧ (∀ x ∈ s, x.cp ≠ QUOTE) ∧
      (∀ x ∈ s.tail, x.cp ≠ NL) ∧ ((∀ r rs, l.right = r :: rs → r.cp ≠ NL) → ∀ x ∈ s, x.cp ≠ NL) ∧
      l'.toks = l.toks ∧ Z inp l' := by
  induction hn : l.right.length using Nat.strongRecOn generalizing l with
  | _ n ih =>
    subst hn
    intro l' hs
    unfold scanString at hs
    split at hs
    · cases hs
    · rename_i r rs hr
      obtain ⟨h1, h2, h3, _⟩ := next_cons hr
      simp only [] at hs
      split at hs
      · rename_i hq
        cases hs
        refine ⟨[], r, by simp [h3], by simpa using hq, by simp, by simp, by simp, by simp, h.next⟩
      · rename_i hq
        have hq : r.cp ≠ QUOTE := by simpa using hq
        split at hs
        · cases hs
        · split at hs
          · cases hs
          · rename_i hne he
            have he : ((l.next).1.atEOL).2 = false := by simpa using he
            have hr1 : ((l.next).1.atEOL).1.right = rs := by rw [L.atEOL_right]; exact h2
            obtain ⟨s, q, e1, e2, e3, e4, e5, e6, e7⟩ :=
              ih _ (by rw [hr1, hr]; simp) (l := ((l.next).1.atEOL).1) h.next.atEOL rfl l' hs
            have hnl : ∀ x ∈ s, x.cp ≠ NL := by
              apply e5
              intro x xs hx
              rw [hr1] at hx
              exact not_NL_of_not_atEOL he (by rw [h2]; exact hx)
            refine ⟨r :: s, q, ?_, e2, ?_, ?_, ?_, ?_, e7⟩
            · rw [e1]; simp [h3]
            · intro x hx
              simp only [List.mem_cons] at hx
              rcases hx with rfl | hx
              · exact hq
              · exact e3 x hx
            · simpa using hnl
            · intro hh x hx
              simp only [List.mem_cons] at hx
              rcases hx with rfl | hx
              · exact hh _ _ hr
              · exact hnl x hx
            · rw [e6]; simp

theorem skipBlanks_toks (l : L) : (skipBlanks l).toks = l.toks := by
  induction h : l.right.length using Nat.strongRecOn generalizing l with
  | _ n ih =>
    subst h
    unfold skipBlanks
    split
    · simp
    · rename_i r rs hr
      split
      · rw [ih _ (by simp [hr]) _ rfl]; simp
      · simp

theorem Z.skipBlanks (h : Z inp l) : Z inp (skipBlanks l) := by
  induction hn : l.right.length using Nat.strongRecOn generalizing l with
  | _ n ih =>
    subst hn
    unfold Spok.skipBlanks
    split
    · exact h.peek
    · rename_i r rs hr
      split
      · exact ih _ (by simp [hr]) h.peek.next rfl
      · exact h.peek

/-- `stripCR` removes exactly the trailing carriage returns of the token and puts them back onto the input -/
theorem stripCR_spec (h : Z inp l) :
    ∃ z : List Rune, (∀ x ∈ z, x.cp = CR) ∧ l.tokRev.reverse = (stripCR l).tokRev.reverse ++ z ∧ (stripCR l).right = z ++ l.right ∧
      (stripCR l).toks = l.toks ∧ (∀ x ts, (stripCR l).tokRev = x :: ts → x.cp ≠ CR) ∧ Z inp (stripCR l) := by
  induction hn : l.tokRev.length using Nat.strongRecOn generalizing l with
  | _ n ih =>
    subst hn
    unfold stripCR
    split
    · rename_i hc
      obtain ⟨x, ts, e1, e2, e3, e4, e5, e6⟩ := h.lastIs_true hc
      obtain ⟨z, f1, f2, f3, f4, f5, f6⟩ := ih _ (by rw [e3, e1]; simp) (l := l.stepBack) e6 rfl
      refine ⟨z ++ [x], ?_, ?_, ?_, ?_, f5, f6⟩
      · intro y hy
        simp only [List.mem_append, List.mem_singleton] at hy
        rcases hy with hy | rfl
        · exact f1 y hy
        · exact e2
      · rw [e1, List.reverse_cons, ← e3, f2]; simp
      · rw [f3, e4]; simp
      · rw [f4, e5]
    · rename_i hc
      have hc : l.lastIs CR = false := by simpa using hc
      exact ⟨[], by simp, by simp, by simp, rfl, h.lastIs_false hc, h⟩

/-! ## the token invariant -/

def TokInvV (inp : List Rune) (m : VM) (l : L) : Prop :=
  ∀ suf, StrV inp m suf → StrV inp .top (l.toks.toList ++ suf)

theorem TokInvV.congr {m : VM} {l' : L} (h : TokInvV inp m l) (ht : l'.toks = l.toks) : TokInvV inp m l' := by
  intro suf hs; rw [ht]; exact h suf hs

theorem TokInvV.sub {m1 m2 : VM} (h : TokInvV inp m2 l) (hs : Sub inp m1 m2) : TokInvV inp m1 l :=
  fun suf hsuf => h suf (hsuf.sub hs)

theorem TokInvV.emit {m m' : VM} (h : TokInvV inp m l) {ty : TT} (ht : transV m ty = some m')
    (hok : tokOK inp m ty l.tokRev.reverse) : TokInvV inp m' (l.emit ty) := by
  intro suf hsuf
  rw [emit_toks, List.append_assoc]
  apply h
  exact Or.inr ⟨hok, m', ht, hsuf⟩

/-- the ERROR token closes the stream -/
theorem TokInvV.error {m : VM} (h : TokInvV inp m l) (h1 : m ≠ .afterHash) (h2 : m ≠ .afterTask) :
    StrV inp .top (l.error).1.toks.toList := by
  rw [error_toks]
  apply h
  exact Or.inl ⟨rfl, Or.inl ⟨rfl, h1, h2⟩⟩

/-- the EOF token closes the stream -/
theorem TokInvV.eof {m : VM} (h : TokInvV inp m l) (h1 : eofOK m = true) : StrV inp .top (l.emit .eof).toks.toList := by
  rw [emit_toks]
  apply h
  exact Or.inl ⟨rfl, Or.inr ⟨rfl, h1⟩⟩

theorem TokInvV.init (rs : List Rune) : TokInvV inp .top (L.init rs) := by
  intro suf hs; simpa [L.init] using hs

end Spok.PW
