import Spok.Clean
/-! # Lemmas about the lexical path algebra (`split`, `glue`, `clean`, `join`, `abs`)

Main results: an absolute path cleans to `/` followed by its normal components (`segs_clean_abs`),
`clean` is idempotent on absolute paths, and everything `abs cwd ·` returns (for an absolute `cwd`) is
absolute and already clean (`cleanAbs_abs`). -/
namespace Spok.Clean

/-! ## split / glue -/

theorem split_slash (cs : Str) : split ('/' :: cs) = [] :: split cs := by
  simp [split]

theorem split_cons {c : Char} (hc : c ≠ '/') (cs : Str) : split (c :: cs) = consHead c (split cs) := by
  simp [split, hc]

theorem split_ne_nil (s : Str) : split s ≠ [] := by
  induction s with
  | nil => simp [split]
  | cons c cs ih =>
    by_cases hc : c = '/'
    · subst hc; simp [split_slash]
    · rw [split_cons hc]
      cases h : split cs <;> simp [consHead]

theorem split_noslash {s : Str} (h : '/' ∉ s) : split s = [s] := by
  induction s with
  | nil => simp [split]
  | cons c cs ih =>
    have hc : c ≠ '/' := by intro e; apply h; simp [e]
    have hcs : '/' ∉ cs := by intro e; apply h; simp [e]
    rw [split_cons hc, ih hcs]; rfl

/-- the '/' between two texts separates their pieces -/
theorem split_append (a b : Str) : split (a ++ '/' :: b) = split a ++ split b := by
  induction a with
  | nil => simp [split]
  | cons c cs ih =>
    by_cases hc : c = '/'
    · subst hc
      simp [split_slash, ih]
    · rw [List.cons_append, split_cons hc, split_cons hc, ih]
      cases hs : split cs with
      | nil => exact absurd hs (split_ne_nil cs)
      | cons h t => simp [consHead]

theorem mem_split_noslash {s x : Str} (h : x ∈ split s) : '/' ∉ x := by
  induction s generalizing x with
  | nil => simp [split] at h; subst h; simp
  | cons c cs ih =>
    by_cases hc : c = '/'
    · subst hc
      rw [split_slash] at h
      simp at h
      rcases h with rfl | h
      · simp
      · exact ih h
    · rw [split_cons hc] at h
      cases hs : split cs with
      | nil => exact absurd hs (split_ne_nil cs)
      | cons hd tl =>
        rw [hs] at h
        simp [consHead] at h
        rcases h with rfl | h
        · have : '/' ∉ hd := ih (by rw [hs]; simp)
          intro hm
          simp at hm
          rcases hm with hm | hm
          · exact hc hm.symm
          · exact this hm
        · exact ih (by rw [hs]; simp [h])

theorem split_glue {l : List Str} (hne : l ≠ []) (hs : ∀ x ∈ l, '/' ∉ x) : split (glue l) = l := by
  induction l with
  | nil => exact absurd rfl hne
  | cons x t ih =>
    cases t with
    | nil => simpa [glue] using split_noslash (hs x (by simp))
    | cons y t' =>
      have : glue (x :: y :: t') = x ++ '/' :: glue (y :: t') := by simp [glue]
      rw [this, split_append, split_noslash (hs x (by simp)), ih (by simp) (fun z hz => hs z (by simp [hz]))]
      simp

/-! ## normal component lists -/

/-- a proper path element: not empty, not `.`, not `..`, no slash inside -/
def Proper (x : Str) : Prop := x ≠ [] ∧ x ≠ DOT ∧ x ≠ DOTDOT ∧ '/' ∉ x

theorem step_proper {r : Bool} {st : List Str} {x : Str} (hx : Proper x) : step r st x = x :: st := by
  obtain ⟨h1, h2, h3, _⟩ := hx
  simp [step, h1, h2, h3]

theorem foldl_step_proper {r : Bool} {l : List Str} (hl : ∀ x ∈ l, Proper x) (st : List Str) :
    l.foldl (step r) st = l.reverse ++ st := by
  induction l generalizing st with
  | nil => simp
  | cons x t ih =>
    simp only [List.foldl_cons, step_proper (hl x (by simp))]
    rw [ih (fun z hz => hl z (by simp [hz]))]
    simp

theorem cleanSegs_proper {r : Bool} {l : List Str} (hl : ∀ x ∈ l, Proper x) : cleanSegs r l = l := by
  simp [cleanSegs, foldl_step_proper hl]

/-- in a rooted path the stack only ever holds proper elements -/
theorem step_rooted_inv {st : List Str} {x : Str} (hst : ∀ y ∈ st, Proper y) (hx : '/' ∉ x) :
    ∀ y ∈ step true st x, Proper y := by
  unfold step
  split
  · exact hst
  · split
    · exact hst
    · split
      · cases st with
        | nil => simp
        | cons top rest =>
          have htop : top ≠ DOTDOT := (hst top (by simp)).2.2.1
          simp [htop]
          intro y hy
          exact hst y (by simp [hy])
      · rename_i h1 h2 h3
        intro y hy
        simp at hy
        rcases hy with rfl | hy
        · exact ⟨h1, h2, h3, hx⟩
        · exact hst y hy

theorem foldl_step_rooted_inv {l : List Str} (hl : ∀ x ∈ l, '/' ∉ x) {st : List Str} (hst : ∀ y ∈ st, Proper y) :
    ∀ y ∈ l.foldl (step true) st, Proper y := by
  induction l generalizing st with
  | nil => simpa using hst
  | cons x t ih =>
    simp only [List.foldl_cons]
    exact ih (fun z hz => hl z (by simp [hz])) (step_rooted_inv hst (hl x (by simp)))

theorem cleanSegs_rooted_proper (s : Str) : ∀ y ∈ cleanSegs true (split s), Proper y := by
  intro y hy
  simp only [cleanSegs, List.mem_reverse] at hy
  exact foldl_step_rooted_inv (fun x hx => mem_split_noslash hx) (by simp) y hy

/-! ## clean on absolute paths -/

theorem isAbs_cons (s : Str) : isAbs ('/' :: s) = true := rfl

theorem isAbs_iff {s : Str} : isAbs s = true ↔ ∃ t, s = '/' :: t := by
  cases s with
  | nil => simp [isAbs]
  | cons c t =>
    by_cases h : c = '/'
    · subst h; simp [isAbs]
    · simp only [isAbs]
      constructor
      · intro hh; split at hh <;> simp_all
      · rintro ⟨t', ht'⟩; simp at ht'; exact absurd ht'.1 h

theorem clean_abs {s : Str} (h : isAbs s = true) : clean s = '/' :: glue (cleanSegs true (split s)) := by
  simp [clean, h]

theorem isAbs_clean {s : Str} (h : isAbs s = true) : isAbs (clean s) = true := by
  rw [clean_abs h]; rfl

theorem filter_nonempty_proper {l : List Str} (hl : ∀ x ∈ l, Proper x) :
    l.filter (fun x => !x.isEmpty) = l := by
  apply List.filter_eq_self.2
  intro x hx
  have := (hl x hx).1
  cases x <;> simp_all

/-- pieces of `/` ++ the glued normal components -/
theorem split_slash_glue {l : List Str} (hl : ∀ x ∈ l, Proper x) :
    split ('/' :: glue l) = if l = [] then [[], []] else [] :: l := by
  rw [split_slash]
  by_cases hne : l = []
  · subst hne; simp [glue, split]
  · simp [hne, split_glue hne (fun x hx => (hl x hx).2.2.2)]

theorem segs_slash_glue {l : List Str} (hl : ∀ x ∈ l, Proper x) : segs ('/' :: glue l) = l := by
  unfold segs
  rw [split_slash_glue hl]
  by_cases hne : l = []
  · subst hne; simp
  · simp [hne, filter_nonempty_proper hl]

theorem cleanSegs_cons_nil (r : Bool) (l : List Str) : cleanSegs r ([] :: l) = cleanSegs r l := by
  simp [cleanSegs, step]

theorem cleanSegs_slash_glue {l : List Str} (hl : ∀ x ∈ l, Proper x) :
    cleanSegs true (split ('/' :: glue l)) = l := by
  rw [split_slash_glue hl]
  by_cases hne : l = []
  · subst hne; simp [cleanSegs, step]
  · simp [hne, cleanSegs_cons_nil, cleanSegs_proper hl]

/-- the components of a cleaned absolute path are its normal components -/
theorem segs_clean_abs {s : Str} (h : isAbs s = true) : segs (clean s) = cleanSegs true (split s) := by
  rw [clean_abs h, segs_slash_glue (cleanSegs_rooted_proper s)]

theorem clean_idem_abs {s : Str} (h : isAbs s = true) : clean (clean s) = clean s := by
  rw [clean_abs (isAbs_clean h)]
  rw [clean_abs h, cleanSegs_slash_glue (cleanSegs_rooted_proper s)]

/-- absolute and already clean: what every path handed to `os.RemoveAll` looks like -/
def CleanAbs (t : Str) : Prop := isAbs t = true ∧ clean t = t

theorem cleanAbs_clean {s : Str} (h : isAbs s = true) : CleanAbs (clean s) :=
  ⟨isAbs_clean h, clean_idem_abs h⟩

theorem pathOf_proper {t : Str} (h : CleanAbs t) : ∀ x ∈ pathOf t, Proper x := by
  unfold pathOf
  rw [← h.2, segs_clean_abs h.1]
  exact cleanSegs_rooted_proper t

/-! ## join / abs -/

theorem join_abs_head {d x : Str} (hd : isAbs d = true) : join [d, x] = clean (d ++ '/' :: x) := by
  obtain ⟨t, rfl⟩ := isAbs_iff.1 hd
  simp [join, glue]

theorem cleanAbs_join {d x : Str} (hd : isAbs d = true) : CleanAbs (join [d, x]) := by
  rw [join_abs_head hd]
  apply cleanAbs_clean
  obtain ⟨t, rfl⟩ := isAbs_iff.1 hd
  rfl

/-- `filepath.Abs` returns an absolute, clean path (given an absolute working directory) -/
theorem cleanAbs_abs {cwd : Str} (hc : isAbs cwd = true) (s : Str) : CleanAbs (abs cwd s) := by
  unfold abs
  split
  · rename_i h; exact cleanAbs_clean h
  · exact cleanAbs_join hc

/-- components of `dir/name` for a clean absolute `dir` and a proper `name` -/
theorem pathOf_join_name {d n : Str} (hd : CleanAbs d) (hn : Proper n) :
    pathOf (join [d, n]) = pathOf d ++ [n] := by
  have hp := pathOf_proper hd
  unfold pathOf at *
  rw [join_abs_head hd.1]
  have habs : isAbs (d ++ '/' :: n) = true := by
    obtain ⟨t, rfl⟩ := isAbs_iff.1 hd.1; rfl
  rw [segs_clean_abs habs, split_append, split_noslash hn.2.2.2]
  -- d = clean d = '/' :: glue (segs d)
  have hd' : d = '/' :: glue (segs d) := by
    have h1 := clean_abs hd.1
    rw [hd.2] at h1
    have h2 : segs d = cleanSegs true (split d) := by
      have := segs_clean_abs hd.1
      rwa [hd.2] at this
    rw [← h2] at h1
    exact h1
  have hsplit : split d = if segs d = [] then [[], []] else [] :: segs d := by
    conv => lhs; rw [hd']
    exact split_slash_glue hp
  rw [hsplit]
  by_cases hne : segs d = []
  · simp [hne, cleanSegs, step, hn.1, hn.2.1, hn.2.2.1]
  · simp only [hne, if_false]
    have hall : ∀ x ∈ segs d ++ [n], Proper x := by
      intro x hx
      simp at hx
      rcases hx with hx | rfl
      · exact hp x hx
      · exact hn
    rw [List.cons_append, cleanSegs_cons_nil, cleanSegs_proper hall]

end Spok.Clean
