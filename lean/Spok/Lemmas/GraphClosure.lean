import Spok.Lemmas.Graph
/-! # `load` and `closure` (file.New's duplicate check, buildGraph) meet their specification

`CInv` is the invariant of the closure's call stack; `closure_ok` / `closure_error` are what the rest of the
development uses: on success the graph's vertices are exactly the names reachable from the request, all defined, and its
edges are exactly the declared dependencies between them; it fails exactly when a reachable name is undefined, and the
`could not add edge` error (`Err.other`) is unreachable. -/
namespace Spok.Graph

variable {α : Type} [DecidableEq α]

/-! ## lookup / load -/

theorem lookup_isSome_iff {ts : Table α} {n : α} : (lookup ts n).isSome ↔ n ∈ names ts := by
  induction ts with
  | nil => simp [lookup, names]
  | cons t ts ih =>
    obtain ⟨m, ds⟩ := t
    by_cases hm : m = n
    · simp [lookup, names, hm]
    · have hn : ¬ n = m := fun h => hm h.symm
      simp only [lookup, hm, if_false, names, List.map_cons, List.mem_cons, hn, false_or]
      exact ih

theorem lookup_none_iff {ts : Table α} {n : α} : lookup ts n = none ↔ n ∉ names ts := by
  rw [← lookup_isSome_iff]; cases lookup ts n <;> simp

theorem deps_of_lookup {ts : Table α} {n : α} {ds : List α} (h : lookup ts n = some ds) : deps ts n = ds := by
  simp [deps, h]

theorem loadFrom_eq (acc rest : Table α) :
    loadFrom acc rest =
      if (names rest).Nodup ∧ (∀ n ∈ names rest, n ∉ names acc) then .ok (acc ++ rest) else .error .duplicate := by
  induction rest generalizing acc with
  | nil => simp [loadFrom, names]
  | cons t rest ih =>
    obtain ⟨n, ds⟩ := t
    simp only [loadFrom]
    by_cases hn : n ∈ names acc
    · have : (lookup acc n).isSome = true := lookup_isSome_iff.mpr hn
      rw [if_pos this, if_neg]
      rintro ⟨_, h2⟩
      exact h2 n (by simp [names]) hn
    · have : ¬ (lookup acc n).isSome = true := fun h => hn (lookup_isSome_iff.mp h)
      rw [if_neg this, ih]
      have hcond : ((names rest).Nodup ∧ ∀ m ∈ names rest, m ∉ names (acc ++ [(n, ds)])) ↔
          ((names ((n, ds) :: rest)).Nodup ∧ ∀ m ∈ names ((n, ds) :: rest), m ∉ names acc) := by
        simp only [names, List.map_cons, List.map_append, List.map_nil, List.mem_append, List.mem_cons,
          List.not_mem_nil, or_false, not_or, List.nodup_cons, List.mem_map, forall_eq_or_imp]
        constructor
        · rintro ⟨h1, h2⟩
          have hn' := hn
          simp only [names, List.mem_map] at hn'
          refine ⟨⟨?_, h1⟩, hn', fun m hm => (h2 m hm).1⟩
          rintro ⟨x, hx, hxn⟩
          exact (h2 n ⟨x, hx, hxn⟩).2 rfl
        · rintro ⟨⟨h0, h1⟩, _, h2⟩
          refine ⟨h1, fun m hm => ⟨h2 m hm, ?_⟩⟩
          rintro rfl
          exact h0 hm
      by_cases hc : (names rest).Nodup ∧ ∀ m ∈ names rest, m ∉ names (acc ++ [(n, ds)])
      · rw [if_pos hc, if_pos (hcond.mp hc)]; simp
      · rw [if_neg hc, if_neg (fun h => hc (hcond.mpr h))]

theorem load_eq (ts : Table α) : load ts = if (names ts).Nodup then .ok ts else .error .duplicate := by
  unfold load
  rw [loadFrom_eq]
  by_cases h : (names ts).Nodup
  · rw [if_pos h, if_pos ⟨h, by simp [names]⟩]; simp
  · rw [if_neg h, if_neg (fun h' => h h'.1)]

/-! ## the closure invariant -/

/-- symbolic run of the stack: every pending `AddEdge(d, _)` finds `d` in the graph, given that each pending `visit`
    that returns normally leaves its name in the graph -/
def edgeReady (vs : List α) : List (Frame α) → Prop
  | [] => True
  | .visit n _ :: st => edgeReady (n :: vs) st
  | .edge d _ :: st => d ∈ vs ∧ edgeReady vs st

omit [DecidableEq α] in
theorem edgeReady_mono {vs vs' : List α} (h : ∀ x ∈ vs, x ∈ vs') : ∀ {st : List (Frame α)}, edgeReady vs st → edgeReady vs' st := by
  intro st
  induction st generalizing vs vs' with
  | nil => intro _; trivial
  | cons f st ih =>
    cases f with
    | visit n p =>
      intro hr
      refine ih (vs := n :: vs) ?_ hr
      intro x hx
      rcases List.mem_cons.mp hx with rfl | hx
      · exact List.mem_cons_self
      · exact List.mem_cons_of_mem _ (h x hx)
    | edge d n =>
      intro hr
      exact ⟨h d hr.1, ih h hr.2⟩

omit [DecidableEq α] in
theorem edgeReady_frames (n : α) (ds : List α) {vs : List α} {st : List (Frame α)} (h : edgeReady vs st) :
    edgeReady vs (frames n ds ++ st) := by
  induction ds generalizing vs with
  | nil => simpa [frames] using h
  | cons d ds ih =>
    have : frames n (d :: ds) ++ st = Frame.visit d (some n) :: Frame.edge d n :: (frames n ds ++ st) := by
      simp [frames]
    rw [this]
    refine ⟨List.mem_cons_self, ih (edgeReady_mono (fun x hx => List.mem_cons_of_mem _ hx) h)⟩

omit [DecidableEq α] in
theorem edgeReady_requests (vs : List α) (req : List α) : edgeReady vs (req.map fun r => Frame.visit r none) := by
  induction req generalizing vs with
  | nil => trivial
  | cons r req ih => exact ih _

omit [DecidableEq α] in
theorem mem_frames_visit {n d : α} {p : Option α} {ds : List α} :
    Frame.visit d p ∈ frames n ds ↔ d ∈ ds ∧ p = some n := by
  simp only [frames, List.mem_flatMap, List.mem_cons, Frame.visit.injEq, List.not_mem_nil, or_false, reduceCtorEq]
  constructor
  · rintro ⟨x, hx, ⟨rfl, rfl⟩⟩; exact ⟨hx, rfl⟩
  · rintro ⟨hd, rfl⟩; exact ⟨d, hd, rfl, rfl⟩

omit [DecidableEq α] in
theorem mem_frames_edge {n d m : α} {ds : List α} :
    Frame.edge d m ∈ frames n ds ↔ d ∈ ds ∧ m = n := by
  simp only [frames, List.mem_flatMap, List.mem_cons, Frame.edge.injEq, List.not_mem_nil, or_false, reduceCtorEq, false_or]
  constructor
  · rintro ⟨x, hx, ⟨rfl, rfl⟩⟩; exact ⟨hx, rfl⟩
  · rintro ⟨hd, rfl⟩; exact ⟨d, hd, rfl, rfl⟩

structure CInv (ts : Table α) (req : List α) (g : Graph α) (st : List (Frame α)) : Prop where
  vnodup : g.verts.Nodup
  vreach : ∀ v ∈ g.verts, Reach ts req v ∧ (lookup ts v).isSome
  freach : ∀ n p, Frame.visit n p ∈ st → Reach ts req n
  fedge : ∀ d n, Frame.edge d n ∈ st → n ∈ g.verts ∧ d ∈ deps ts n
  reqs : ∀ r ∈ req, r ∈ g.verts ∨ ∃ p, Frame.visit r p ∈ st
  closed : ∀ v ∈ g.verts, ∀ d ∈ deps ts v, d ∈ g.verts ∨ ∃ p, Frame.visit d p ∈ st
  edged : ∀ v ∈ g.verts, ∀ d ∈ deps ts v, (d, v) ∈ g.edges ∨ Frame.edge d v ∈ st
  esound : ∀ p c, (p, c) ∈ g.edges → p ∈ g.verts ∧ c ∈ g.verts ∧ p ∈ deps ts c
  enodup : g.edges.Nodup
  ready : edgeReady g.verts st

theorem mem_insEdge {g : Graph α} {d n : α} {e : α × α} :
    e ∈ (g.insEdge d n).edges ↔ e ∈ g.edges ∨ e = (d, n) := by
  unfold Graph.insEdge
  by_cases h : (d, n) ∈ g.edges
  · simp only [h, if_true]
    constructor
    · exact Or.inl
    · rintro (h' | rfl)
      · exact h'
      · exact h
  · simp [h]

theorem cinv_init (ts : Table α) (req : List α) : CInv ts req Graph.empty (req.map fun r => Frame.visit r none) where
  vnodup := List.nodup_nil
  vreach := by intro v hv; cases hv
  freach := by
    intro n p h
    simp only [List.mem_map, Frame.visit.injEq] at h
    obtain ⟨r, hr, rfl, _⟩ := h
    exact .req hr
  fedge := by intro d n h; simp at h
  reqs := by intro r hr; right; exact ⟨none, List.mem_map.mpr ⟨r, hr, rfl⟩⟩
  closed := by intro v hv; cases hv
  edged := by intro v hv; cases hv
  esound := by intro p c h; cases h
  enodup := List.nodup_nil
  ready := edgeReady_requests _ _

theorem cinv_edge {ts : Table α} {req : List α} {g : Graph α} {d n : α} {st : List (Frame α)}
    (h : CInv ts req g (Frame.edge d n :: st)) : CInv ts req (g.insEdge d n) st where
  vnodup := h.vnodup
  vreach := h.vreach
  freach := fun m p hm => h.freach m p (List.mem_cons_of_mem _ hm)
  fedge := fun d' n' hm => h.fedge d' n' (List.mem_cons_of_mem _ hm)
  reqs := by
    intro r hr
    rcases h.reqs r hr with h1 | ⟨p, hp⟩
    · exact Or.inl h1
    · right; refine ⟨p, ?_⟩
      simpa using hp
  closed := by
    intro v hv d' hd'
    rcases h.closed v hv d' hd' with h1 | ⟨p, hp⟩
    · exact Or.inl h1
    · right; refine ⟨p, ?_⟩
      simpa using hp
  edged := by
    intro v hv d' hd'
    rcases h.edged v hv d' hd' with h1 | h1
    · exact Or.inl (mem_insEdge.mpr (Or.inl h1))
    · rcases List.mem_cons.mp h1 with h2 | h2
      · left
        have : d' = d ∧ v = n := by simpa using h2
        exact mem_insEdge.mpr (Or.inr (by rw [this.1, this.2]))
      · exact Or.inr h2
  esound := by
    intro p c hpc
    rcases mem_insEdge.mp hpc with h1 | h1
    · exact h.esound p c h1
    · have : p = d ∧ c = n := by simpa using h1
      obtain ⟨rfl, rfl⟩ := this
      have := h.fedge p c List.mem_cons_self
      exact ⟨h.ready.1, this.1, this.2⟩
  enodup := by
    unfold Graph.insEdge
    by_cases hm : (d, n) ∈ g.edges
    · simpa [hm] using h.enodup
    · simp only [hm, if_false]
      rw [List.nodup_append]
      refine ⟨h.enodup, by simp, ?_⟩
      intro a ha b hb
      have : b = (d, n) := by simpa using hb
      subst this
      intro hab; subst hab; exact hm ha
  ready := h.ready.2

theorem cinv_seen {ts : Table α} {req : List α} {g : Graph α} {n : α} {p : Option α} {st : List (Frame α)}
    (h : CInv ts req g (Frame.visit n p :: st)) (hn : n ∈ g.verts) : CInv ts req g st where
  vnodup := h.vnodup
  vreach := h.vreach
  freach := fun m q hm => h.freach m q (List.mem_cons_of_mem _ hm)
  fedge := fun d' n' hm => h.fedge d' n' (List.mem_cons_of_mem _ hm)
  reqs := by
    intro r hr
    rcases h.reqs r hr with h1 | ⟨q, hq⟩
    · exact Or.inl h1
    · rcases List.mem_cons.mp hq with h2 | h2
      · left
        have : r = n := by simpa using (Frame.visit.inj h2).1
        exact this ▸ hn
      · exact Or.inr ⟨q, h2⟩
  closed := by
    intro v hv d hd
    rcases h.closed v hv d hd with h1 | ⟨q, hq⟩
    · exact Or.inl h1
    · rcases List.mem_cons.mp hq with h2 | h2
      · left
        have : d = n := by simpa using (Frame.visit.inj h2).1
        exact this ▸ hn
      · exact Or.inr ⟨q, h2⟩
  edged := by
    intro v hv d hd
    rcases h.edged v hv d hd with h1 | h1
    · exact Or.inl h1
    · right; simpa using h1
  esound := h.esound
  enodup := h.enodup
  ready := by
    have := h.ready
    refine edgeReady_mono ?_ (this : edgeReady (n :: g.verts) st)
    intro x hx
    rcases List.mem_cons.mp hx with rfl | hx
    · exact hn
    · exact hx

theorem cinv_new {ts : Table α} {req : List α} {g : Graph α} {n : α} {p : Option α} {ds : List α} {st : List (Frame α)}
    (h : CInv ts req g (Frame.visit n p :: st)) (hl : lookup ts n = some ds) (hn : n ∉ g.verts) :
    CInv ts req (g.addVertex n) (frames n ds ++ st) := by
  have hdeps : deps ts n = ds := deps_of_lookup hl
  have hreach : Reach ts req n := h.freach n p List.mem_cons_self
  have hv' : ∀ x, x ∈ (g.addVertex n).verts ↔ x ∈ g.verts ∨ x = n := by
    intro x; simp [Graph.addVertex]
  exact {
    vnodup := by
      show (g.verts ++ [n]).Nodup
      rw [List.nodup_append]
      refine ⟨h.vnodup, by simp, ?_⟩
      intro a ha b hb
      have : b = n := by simpa using hb
      subst this
      intro hab; subst hab; exact hn ha
    vreach := by
      intro v hv
      rcases (hv' v).mp hv with h1 | rfl
      · exact h.vreach v h1
      · exact ⟨hreach, by simp [hl]⟩
    freach := by
      intro m q hm
      rcases List.mem_append.mp hm with h1 | h1
      · have := mem_frames_visit.mp h1
        exact .dep hreach (hdeps ▸ this.1)
      · exact h.freach m q (List.mem_cons_of_mem _ h1)
    fedge := by
      intro d m hm
      rcases List.mem_append.mp hm with h1 | h1
      · obtain ⟨hd, rfl⟩ := mem_frames_edge.mp h1
        exact ⟨(hv' _).mpr (Or.inr rfl), hdeps ▸ hd⟩
      · have := h.fedge d m (List.mem_cons_of_mem _ h1)
        exact ⟨(hv' _).mpr (Or.inl this.1), this.2⟩
    reqs := by
      intro r hr
      rcases h.reqs r hr with h1 | ⟨q, hq⟩
      · exact Or.inl ((hv' _).mpr (Or.inl h1))
      · rcases List.mem_cons.mp hq with h2 | h2
        · left
          have : r = n := by simpa using (Frame.visit.inj h2).1
          exact (hv' _).mpr (Or.inr this)
        · exact Or.inr ⟨q, List.mem_append_right _ h2⟩
    closed := by
      intro v hv d hd
      rcases (hv' v).mp hv with h1 | rfl
      · rcases h.closed v h1 d hd with h2 | ⟨q, hq⟩
        · exact Or.inl ((hv' _).mpr (Or.inl h2))
        · rcases List.mem_cons.mp hq with h3 | h3
          · left
            have : d = n := by simpa using (Frame.visit.inj h3).1
            exact (hv' _).mpr (Or.inr this)
          · exact Or.inr ⟨q, List.mem_append_right _ h3⟩
      · right
        exact ⟨some v, List.mem_append_left _ (mem_frames_visit.mpr ⟨hdeps ▸ hd, rfl⟩)⟩
    edged := by
      intro v hv d hd
      rcases (hv' v).mp hv with h1 | rfl
      · rcases h.edged v h1 d hd with h2 | h2
        · exact Or.inl h2
        · right
          have : Frame.edge d v ∈ st := by simpa using h2
          exact List.mem_append_right _ this
      · right
        exact List.mem_append_left _ (mem_frames_edge.mpr ⟨hdeps ▸ hd, rfl⟩)
    esound := by
      intro a c hac
      have := h.esound a c hac
      exact ⟨(hv' _).mpr (Or.inl this.1), (hv' _).mpr (Or.inl this.2.1), this.2.2⟩
    enodup := h.enodup
    ready := by
      have h0 : edgeReady (n :: g.verts) st := h.ready
      have h1 : edgeReady (g.verts ++ [n]) st := edgeReady_mono (by
        intro x hx
        rcases List.mem_cons.mp hx with rfl | hx
        · simp
        · simp [hx]) h0
      exact edgeReady_frames n ds h1 }

/-! ## what `closure` returns -/

/-- the graph is exactly the part of the spokfile selected by the request -/
structure Selected (ts : Table α) (req : List α) (g : Graph α) : Prop where
  vnodup : g.verts.Nodup
  enodup : g.edges.Nodup
  verts_iff : ∀ n, n ∈ g.verts ↔ Reach ts req n
  defined : ∀ n ∈ g.verts, (lookup ts n).isSome
  edges_iff : ∀ p c, (p, c) ∈ g.edges ↔ c ∈ g.verts ∧ p ∈ deps ts c

theorem selected_of_cinv {ts : Table α} {req : List α} {g : Graph α} (h : CInv ts req g []) : Selected ts req g where
  vnodup := h.vnodup
  enodup := h.enodup
  verts_iff := by
    intro n
    constructor
    · exact fun hn => (h.vreach n hn).1
    · intro hr
      induction hr with
      | req hr =>
        rcases h.reqs _ hr with h1 | ⟨p, hp⟩
        · exact h1
        · cases hp
      | dep _ hd ih =>
        rcases h.closed _ ih _ hd with h1 | ⟨p, hp⟩
        · exact h1
        · cases hp
  defined := fun n hn => (h.vreach n hn).2
  edges_iff := by
    intro p c
    constructor
    · intro hpc
      have := h.esound p c hpc
      exact ⟨this.2.1, this.2.2⟩
    · rintro ⟨hc, hp⟩
      rcases h.edged c hc p hp with h1 | h1
      · exact h1
      · cases h1

theorem closureLoop_spec {ts : Table α} {req : List α} (g : Graph α) (st : List (Frame α)) (h : CInv ts req g st) :
    (∀ g', closureLoop ts g st = .ok g' → Selected ts req g') ∧
    (∀ e, closureLoop ts g st = .error e →
      (e = .noSuchTask ∨ e = .noSuchDependency) ∧ ∃ n, Reach ts req n ∧ lookup ts n = none) := by
  fun_induction closureLoop ts g st with
  | case1 g =>
    refine ⟨?_, ?_⟩
    · intro g' hg'
      cases hg'
      exact selected_of_cinv h
    · intro e he; cases he
  | case2 g d n st hc ih => exact ih (cinv_edge h)
  | case3 g d n st hc =>
    exfalso
    exact hc ⟨h.ready.1, (h.fedge d n List.mem_cons_self).1⟩
  | case4 g n p st hl =>
    refine ⟨fun g' hg' => (by cases hg'), ?_⟩
    intro e he
    cases he
    refine ⟨?_, n, h.freach n p List.mem_cons_self, hl⟩
    cases p <;> simp
  | case5 g n p st ds hl hv ih => exact ih (cinv_seen h hv)
  | case6 g n p st ds hl hv _ ih => exact ih (cinv_new h hl hv)

theorem closure_ok {ts : Table α} {req : List α} {g : Graph α} (h : closure ts req = .ok g) : Selected ts req g :=
  (closureLoop_spec _ _ (cinv_init ts req)).1 g h

theorem closure_error {ts : Table α} {req : List α} {e : Err} (h : closure ts req = .error e) :
    (e = .noSuchTask ∨ e = .noSuchDependency) ∧ ∃ n, Reach ts req n ∧ lookup ts n = none :=
  (closureLoop_spec _ _ (cinv_init ts req)).2 e h

/-- `closure` fails exactly when some selected name is undefined -/
theorem closure_error_iff {ts : Table α} {req : List α} :
    (∃ e, closure ts req = .error e) ↔ ∃ n, Reach ts req n ∧ lookup ts n = none := by
  constructor
  · rintro ⟨e, he⟩; exact (closure_error he).2
  · rintro ⟨n, hr, hl⟩
    cases hc : closure ts req with
    | error e => exact ⟨e, rfl⟩
    | ok g =>
      have hs := closure_ok hc
      have := hs.defined n ((hs.verts_iff n).mpr hr)
      rw [hl] at this; cases this

end Spok.Graph
