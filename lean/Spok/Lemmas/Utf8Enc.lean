import Spok.Lemmas.JsonUtf8
/-! # UTF-8: the decoder accepts every encoded Unicode scalar value and gives back its code point

`utf8enc` is `utf8.EncodeRune`, `decode1`/`decodeAll` are `utf8.DecodeRune` (Go semantics: an invalid byte is a rune
U+FFFD of width one).  Together with `utf8enc_decode1` (re-encoding what was validly decoded gives back the bytes) this
makes the two inverse to each other on well-formed text: the lexer sees exactly the code points the file was written
with, and nothing is flagged invalid. -/
namespace Spok.Json
open Spok

theorem ofNat_toNat_lt (n : Nat) (h : n < 256) : (UInt8.ofNat n).toNat = n := by
  simp [Nat.mod_eq_of_lt h]

/-- a Unicode scalar value: a code point that is not a surrogate -/
def isScalar (cp : Nat) : Prop := cp < 0xD800 ∨ (0xE000 ≤ cp ∧ cp ≤ 0x10FFFF)

theorem decode1_utf8enc_1 (cp : Nat) (h : cp < 0x80) (rest : List UInt8) :
    decode1 (UInt8.ofNat cp) rest = ⟨cp, UInt8.ofNat cp, []⟩ := by
  unfold decode1
  simp [ofNat_toNat_lt cp (by omega), h]

theorem decode1_utf8enc_2 (cp : Nat) (h1 : 0x80 ≤ cp) (h2 : cp < 0x800) (rest : List UInt8) :
    decode1 (UInt8.ofNat (0xC0 + cp / 64)) (UInt8.ofNat (0x80 + cp % 64) :: rest) =
      ⟨cp, UInt8.ofNat (0xC0 + cp / 64), [UInt8.ofNat (0x80 + cp % 64)]⟩ := by
  have a : (UInt8.ofNat (0xC0 + cp / 64)).toNat = 0xC0 + cp / 64 := ofNat_toNat_lt _ (by omega)
  have b : (UInt8.ofNat (0x80 + cp % 64)).toNat = 0x80 + cp % 64 := ofNat_toNat_lt _ (by omega)
  unfold decode1
  simp only [a, b, cont]
  rw [if_neg (by omega), if_neg (by omega), if_pos (by omega)]
  simp only [Bool.and_eq_true, decide_eq_true_eq]
  rw [if_pos (by omega)]
  congr 1
  omega

theorem decode1_utf8enc_3 (cp : Nat) (h1 : 0x800 ≤ cp) (h2 : cp < 0x10000) (hs : ¬ (0xD800 ≤ cp ∧ cp < 0xE000))
    (rest : List UInt8) :
    decode1 (UInt8.ofNat (0xE0 + cp / 4096)) (UInt8.ofNat (0x80 + cp / 64 % 64) :: UInt8.ofNat (0x80 + cp % 64) :: rest) =
      ⟨cp, UInt8.ofNat (0xE0 + cp / 4096), [UInt8.ofNat (0x80 + cp / 64 % 64), UInt8.ofNat (0x80 + cp % 64)]⟩ := by
  have a : (UInt8.ofNat (0xE0 + cp / 4096)).toNat = 0xE0 + cp / 4096 := ofNat_toNat_lt _ (by omega)
  have b : (UInt8.ofNat (0x80 + cp / 64 % 64)).toNat = 0x80 + cp / 64 % 64 := ofNat_toNat_lt _ (by omega)
  have c : (UInt8.ofNat (0x80 + cp % 64)).toNat = 0x80 + cp % 64 := ofNat_toNat_lt _ (by omega)
  unfold decode1
  simp only [a, b, c, cont]
  rw [if_neg (by omega), if_neg (by omega), if_neg (by omega), if_pos (by omega)]
  simp only [Bool.and_eq_true, decide_eq_true_eq, beq_iff_eq]
  rw [if_pos]
  · congr 1
    omega
  · refine ⟨⟨?_, ?_⟩, by omega, by omega⟩
    · split <;> omega
    · split <;> omega

theorem decode1_utf8enc_4 (cp : Nat) (h1 : 0x10000 ≤ cp) (h2 : cp ≤ 0x10FFFF) (rest : List UInt8) :
    decode1 (UInt8.ofNat (0xF0 + cp / 262144))
        (UInt8.ofNat (0x80 + cp / 4096 % 64) :: UInt8.ofNat (0x80 + cp / 64 % 64) :: UInt8.ofNat (0x80 + cp % 64) :: rest) =
      ⟨cp, UInt8.ofNat (0xF0 + cp / 262144),
        [UInt8.ofNat (0x80 + cp / 4096 % 64), UInt8.ofNat (0x80 + cp / 64 % 64), UInt8.ofNat (0x80 + cp % 64)]⟩ := by
  have a : (UInt8.ofNat (0xF0 + cp / 262144)).toNat = 0xF0 + cp / 262144 := ofNat_toNat_lt _ (by omega)
  have b : (UInt8.ofNat (0x80 + cp / 4096 % 64)).toNat = 0x80 + cp / 4096 % 64 := ofNat_toNat_lt _ (by omega)
  have c : (UInt8.ofNat (0x80 + cp / 64 % 64)).toNat = 0x80 + cp / 64 % 64 := ofNat_toNat_lt _ (by omega)
  have d : (UInt8.ofNat (0x80 + cp % 64)).toNat = 0x80 + cp % 64 := ofNat_toNat_lt _ (by omega)
  unfold decode1
  simp only [a, b, c, d, cont]
  rw [if_neg (by omega), if_neg (by omega), if_neg (by omega), if_neg (by omega), if_pos (by omega)]
  simp only [Bool.and_eq_true, decide_eq_true_eq, beq_iff_eq]
  rw [if_pos]
  · congr 1
    omega
  · refine ⟨⟨⟨?_, ?_⟩, by omega, by omega⟩, by omega, by omega⟩
    · split <;> omega
    · split <;> omega

/-- **decoding an encoded scalar value gives the scalar value back**, with exactly the encoder's bytes, whatever follows -/
theorem decodeAll_utf8enc_cons (cp : Nat) (h : isScalar cp) (rest : List UInt8) :
    ∃ r : Rune, decodeAll (utf8enc cp ++ rest) = r :: decodeAll rest ∧ r.cp = cp ∧ r.bytes = utf8enc cp ∧ r.invalid = false := by
  unfold utf8enc
  unfold isScalar at h
  split
  · rename_i h1
    refine ⟨⟨cp, UInt8.ofNat cp, []⟩, ?_, rfl, rfl, ?_⟩
    · simp only [List.cons_append, List.nil_append]
      rw [decodeAll, decode1_utf8enc_1 cp h1]; simp [Rune.w]
    · simp [Rune.invalid]; omega
  · split
    · rename_i h1 h2
      refine ⟨⟨cp, UInt8.ofNat (0xC0 + cp / 64), [UInt8.ofNat (0x80 + cp % 64)]⟩, ?_, rfl, rfl, ?_⟩
      · simp only [List.cons_append, List.nil_append]
        rw [decodeAll, decode1_utf8enc_2 cp (by omega) h2]; simp [Rune.w]
      · simp [Rune.invalid]
    · split
      · rename_i h3
        simp only [Bool.or_eq_true, Bool.and_eq_true, decide_eq_true_eq] at h3
        omega
      · rename_i h1 h2 h3
        simp only [Bool.or_eq_true, Bool.and_eq_true, decide_eq_true_eq, not_or, not_and, Nat.not_lt] at h3
        split
        · rename_i h4
          refine ⟨⟨cp, UInt8.ofNat (0xE0 + cp / 4096), [UInt8.ofNat (0x80 + cp / 64 % 64), UInt8.ofNat (0x80 + cp % 64)]⟩, ?_, rfl, rfl, ?_⟩
          · simp only [List.cons_append, List.nil_append]
            rw [decodeAll, decode1_utf8enc_3 cp (by omega) h4 (by omega)]; simp [Rune.w]
          · simp [Rune.invalid]
        · rename_i h4
          refine ⟨⟨cp, UInt8.ofNat (0xF0 + cp / 262144),
            [UInt8.ofNat (0x80 + cp / 4096 % 64), UInt8.ofNat (0x80 + cp / 64 % 64), UInt8.ofNat (0x80 + cp % 64)]⟩, ?_, rfl, rfl, ?_⟩
          · simp only [List.cons_append, List.nil_append]
            rw [decodeAll, decode1_utf8enc_4 cp (by omega) (by omega)]; simp [Rune.w]
          · simp [Rune.invalid]

/-- well-formed UTF-8 text decodes to the code points it was written with; no rune of it is flagged invalid -/
theorem decodeAll_utf8 : ∀ (cps : List Nat), (∀ cp ∈ cps, isScalar cp) →
    (decodeAll (cps.flatMap utf8enc)).map (·.cp) = cps ∧ ∀ r ∈ decodeAll (cps.flatMap utf8enc), r.invalid = false
  | [], _ => by simp [decodeAll]
  | cp :: cps, h => by
    obtain ⟨r, hd, hcp, _, hinv⟩ := decodeAll_utf8enc_cons cp (h cp (by simp)) (cps.flatMap utf8enc)
    obtain ⟨ih1, ih2⟩ := decodeAll_utf8 cps (fun x hx => h x (by simp [hx]))
    rw [List.flatMap_cons, hd]
    refine ⟨by simp [hcp, ih1], ?_⟩
    intro x hx
    simp only [List.mem_cons] at hx
    rcases hx with rfl | hx
    · exact hinv
    · exact ih2 x hx

end Spok.Json
