import Spok.Lemmas.RunTrace
/-! # Lifting the micro-step invariants over invocations and over the history fold
    (helper lemmas for Props/C01 C02 C10 C14) -/
namespace Spok.Run
open Spok.Judge.Run

variable (digest : Items → Digest)

/-- world invariant (all histories): what is on disk is justified by the ghost, missing, or unparsable -/
def WInv (w : World) : Prop := InvDisk digest w.last w.disk
/-- world invariant (between kills): what is on disk records every last success on ≥ 1 file -/
def CW (w : World) : Prop := CDisk digest w.last w.disk

/-- the judges' ghost follows the world -/
def Sync (g : Ghost) (w : World) : Prop := g.last = w.last ∧ g.inp = w.inp ∧ g.disk = w.disk.cls

theorem sync_init : Sync Ghost.init World.init := ⟨rfl, rfl, rfl⟩
theorem winv_init : WInv digest World.init := fun _ => rfl
theorem cw_init : CW digest World.init := fun _ => rfl

/-! ## the start of an invocation -/

theorem mkTask_name (inp : Name → Option Inputs) (fails : Name → Bool) (t : Name) : (mkTask inp fails t).name = t := by
  unfold mkTask; split <;> rfl

theorem todo_names (w : World) (force : Bool) (order : List Name) (fails : Name → Bool) :
    (initSt w force order fails).todo.map (·.name) = order := by
  simp only [initSt, List.map_map]
  conv => rhs; rw [← List.map_id order]
  apply List.map_congr_left
  intro t _
  simp [mkTask_name]

theorem inv_init (w : World) (force : Bool) (order : List Name) (fails : Name → Bool) (h : WInv digest w) :
    Inv digest (initSt w force order fails) :=
  ⟨fun _ => just_none digest _ _, h⟩

theorem cinv_init (w : World) (force : Bool) (order : List Name) (fails : Name → Bool) (h : CW digest w) :
    CInv digest (initSt w force order fails) := h

theorem tinv_init (w : World) (force : Bool) (order : List Name) (fails : Name → Bool) :
    TInv w.inp w.last (initSt w force order fails) := by
  refine ⟨rfl, ?_, trivial⟩
  intro t ht hr
  simp only [initSt, List.mem_map] at ht
  obtain ⟨n, _, rfl⟩ := ht
  unfold mkTask at hr ⊢
  split at hr
  · rename_i i hi; simp [hi]
  · simp at hr

theorem finv_init (w : World) (force : Bool) (order : List Name) (fails : Name → Bool) :
    FInv order (initSt w force order fails) := by
  intro _
  refine ⟨fun e he => by simp [initSt] at he, fun n hn => .inl ?_⟩
  rw [todo_names]; exact hn

theorem iter_force (k : Nat) (s : St) : (iter digest k s).force = s.force := by
  induction k generalizing s with
  | zero => rfl
  | succ k ih => simp only [iter, ih, step_force]

/-! ## one invocation -/

section invocation
variable (w : World) (force : Bool) (order : List Name) (fails : Name → Bool) (crashAt : Option Nat)

theorem runInv_inv (h : WInv digest w) : Inv digest (runInv digest w force order fails crashAt) :=
  iter_preserves digest _ (step_inv digest) _ _ (inv_init digest w force order fails h)

theorem runInv_tinv : TInv w.inp w.last (runInv digest w force order fails crashAt) :=
  iter_preserves digest _ (step_tinv digest w.inp w.last) _ _ (tinv_init w force order fails)

theorem runInv_finv : FInv order (runInv digest w force order fails crashAt) := by
  have := iter_preserves digest (fun s => TInv w.inp w.last s ∧ FInv order s)
    (fun s h => ⟨step_tinv digest _ _ s h.1, step_finv digest _ _ order s h.1 h.2⟩)
    (crashAt.getD (fuel order.length)) _ ⟨tinv_init w force order fails, finv_init w force order fails⟩
  exact this.2

theorem runInv_c01 (hnc : ¬ Collision digest) (h : WInv digest w) :
    checkTrace (c01Entry w.inp) w.inp w.last (runInv digest w force order fails crashAt).out = true := by
  have := iter_preserves digest
    (fun s => Inv digest s ∧ TInv w.inp w.last s ∧ checkTrace (c01Entry w.inp) w.inp w.last s.out = true)
    (fun s h => ⟨step_inv digest s h.1, step_tinv digest _ _ s h.2.1, step_c01 digest _ _ hnc s h.1 h.2.1 h.2.2⟩)
    (crashAt.getD (fuel order.length)) _
    ⟨inv_init digest w force order fails h, tinv_init w force order fails, rfl⟩
  exact this.2.2

theorem runInv_cinv (h : CW digest w) : CInv digest (runInv digest w force order fails crashAt) :=
  iter_preserves digest _ (step_cinv digest) _ _ (cinv_init digest w force order fails h)

theorem runInv_c02 (h : CW digest w) :
    checkTrace (c02Entry force w.inp) w.inp w.last (runInv digest w force order fails crashAt).out = true := by
  have := iter_preserves digest
    (fun s => s.force = force ∧ CInv digest s ∧ TInv w.inp w.last s ∧
      checkTrace (c02Entry force w.inp) w.inp w.last s.out = true)
    (fun s h => by
      obtain ⟨hf, hc, ht, hk⟩ := h
      refine ⟨by rw [step_force, hf], step_cinv digest s hc, step_tinv digest _ _ s ht, ?_⟩
      have := step_c02 digest w.inp w.last s hc ht (by rw [hf]; exact hk)
      rw [hf] at this; exact this)
    (crashAt.getD (fuel order.length)) _
    ⟨rfl, cinv_init digest w force order fails h, tinv_init w force order fails, rfl⟩
  exact this.2.2.2

/-- an invocation that is not killed reaches a terminal pc -/
theorem runInv_terminal : (runInv digest w force order fails none).pc.terminal = true := by
  apply iter_terminal
  simp [measure, initSt, Pc.terminal, rank, fuel]

/-- the ghost after the invocation is the judges' replay of what was observed -/
theorem runInv_ghost :
    ghostTrace w.inp w.last (traceOf (runInv digest w force order fails crashAt)) =
      (runInv digest w force order fails crashAt).last := by
  have h := (runInv_tinv digest w force order fails crashAt).1
  unfold traceOf
  split
  · exact h.symm
  · rw [ghostTrace_filter]; exact h.symm

theorem outcome_not_bad (s : St) : outcomeOf crashAt s ≠ .bad ∧ outcomeOf crashAt s ≠ .panic := by
  unfold outcomeOf
  split <;> (try split) <;> simp

/-- a damaged cache: the next invocation stops at once with the explicit cache error, having executed nothing -/
theorem runInv_corrupt (hd : w.disk = .corrupt) :
    ∀ k, (iter digest k (initSt w force order fails)).out = [] ∧
      (iter digest k (initSt w force order fails)).disk = .corrupt ∧
      (iter digest k (initSt w force order fails)).last = w.last ∧
      ((k = 0 ∧ (iter digest k (initSt w force order fails)).pc = .boot) ∨
       (k > 0 ∧ (iter digest k (initSt w force order fails)).pc = .cacheError)) := by
  intro k
  cases k with
  | zero => simp [iter, initSt, hd]
  | succ k =>
    have h1 : step digest (initSt w force order fails) = { initSt w force order fails with pc := .cacheError } := by
      simp [step, initSt, hd]
    simp only [iter, h1]
    rw [iter_fixed digest k _ (by rfl)]
    simp [initSt, hd]

/-- the cache error is only ever raised for a damaged cache -/
theorem cacheError_only_corrupt :
    ∀ k, (let s := iter digest k (initSt w force order fails);
      (s.pc = .boot → s.disk = w.disk) ∧ (s.pc = .cacheError → w.disk = .corrupt)) := by
  intro k
  apply iter_preserves digest (fun s => (s.pc = .boot → s.disk = w.disk) ∧ (s.pc = .cacheError → w.disk = .corrupt))
  · intro s ⟨h1, h2⟩
    unfold step
    split
    · rename_i hpc
      split
      · simp
      · rename_i hdk; simp; rw [← h1 hpc, hdk]
      · simp
    · simp
    · simp
    · rename_i hpc
      split
      · simp
      · split
        · simp
        · split
          · simp [hpc]
          · split <;> simp
    · simp
    · split <;> simp
    · split
      · simp
      · split <;> simp
    · split <;> simp
    · exact ⟨h1, h2⟩
    · exact ⟨h1, h2⟩
    · exact ⟨h1, h2⟩
  · simp [initSt]

end invocation

/-! ## the history fold -/

theorem winv_event (w : World) (e : Event) (h : WInv digest w) : WInv digest (runEvent digest w e).1 := by
  cases e with
  | edit f => exact h
  | removeCache => exact fun _ => rfl
  | invoke force order fails crashAt => exact inv_disk digest _ (runInv_inv digest w force order fails crashAt h)

theorem winv_history : ∀ (h : History) (w : World), WInv digest w → WInv digest (runHistory digest w h).1
  | [], _, hw => hw
  | e :: es, w, hw => winv_history es _ (winv_event digest w e hw)

theorem sync_event (g : Ghost) (w : World) (e : Event) (h : Sync g w) :
    Sync (advance g (runEvent digest w e).2) (runEvent digest w e).1 := by
  obtain ⟨h1, h2, h3⟩ := h
  cases e with
  | edit f => exact ⟨h1, rfl, h3⟩
  | removeCache => exact ⟨rfl, h2, rfl⟩
  | invoke force order fails crashAt =>
    refine ⟨?_, h2, rfl⟩
    simp only [runEvent, advance]
    rw [h1, h2]
    exact runInv_ghost digest w force order fails crashAt

/-- C01 / C10 / C14 (second half): the judge of skip soundness accepts every history the model produces -/
theorem hist_c01 (hnc : ¬ Collision digest) : ∀ (h : History) (w : World) (g : Ghost), WInv digest w → Sync g w →
    judgeWith c01Ev g (runHistory digest w h).2 = true
  | [], _, _, _, _ => rfl
  | e :: es, w, g, hw, hs => by
    simp only [runHistory, judgeWith, Bool.and_eq_true]
    refine ⟨?_, hist_c01 hnc es _ _ (winv_event digest w e hw) (sync_event digest g w e hs)⟩
    cases e with
    | edit f => rfl
    | removeCache => rfl
    | invoke force order fails crashAt =>
      simp only [runEvent, c01Ev, Bool.and_eq_true, bne_iff_ne, ne_eq]
      refine ⟨(outcome_not_bad crashAt _).1, ?_⟩
      rw [hs.1, hs.2.1]
      unfold traceOf
      split
      · exact runInv_c01 digest w force order fails crashAt hnc hw
      · exact checkTrace_c01_filter _ _ _

/-- first half of C14 -/
theorem hist_c14 : ∀ (h : History) (w : World) (g : Ghost), judgeWith c14Ev g (runHistory digest w h).2 = true
  | [], _, _ => rfl
  | e :: es, w, g => by
    simp only [runHistory, judgeWith, Bool.and_eq_true]
    refine ⟨?_, hist_c14 es _ _⟩
    cases e with
    | edit f => rfl
    | removeCache => rfl
    | invoke force order fails crashAt =>
      simp only [runEvent, c14Ev, Bool.and_eq_true, bne_iff_ne, ne_eq]
      refine ⟨(outcome_not_bad crashAt _).1, ?_⟩
      cases hf : force with
      | false => simp
      | true =>
        cases hfin : (outcomeOf crashAt (runInv digest w true order fails crashAt) == Outcome.done) with
        | false => simp
        | true =>
          have hpc : (runInv digest w true order fails crashAt).pc = .finished := by
            simp only [beq_iff_eq] at hfin
            unfold outcomeOf at hfin
            split at hfin <;> first | assumption | (split at hfin <;> cases hfin) | cases hfin
          have hF := runInv_finv digest w true order fails crashAt
            (by rw [runInv, iter_force]; rfl)
          have hT := (runInv_tinv digest w true order fails crashAt).2.2
          simp only [TPc, hpc] at hT
          simp only [traceOf, hpc]
          simp only [Bool.and_self, Bool.not_true, Bool.false_or, Bool.and_eq_true, List.all_eq_true, List.any_eq_true,
            beq_iff_eq]
          refine ⟨hF.1, fun n hn => ?_⟩
          rcases hF.2 n hn with h | ⟨e, he, h1, h2⟩
          · rw [hT] at h; simp at h
          · exact ⟨e, he, h1, h2⟩

theorem hasCrash_cons (o : OEvent) (os : ObservedHistory) : hasCrash (o :: os) = (isCrash o || hasCrash os) := by
  simp [hasCrash]

/-- C02: unless a kill was observed, the judge of skip completeness accepts every history the model produces -/
theorem hist_c02 : ∀ (h : History) (w : World) (g : Ghost), CW digest w → Sync g w →
    hasCrash (runHistory digest w h).2 = true ∨ judgeWith c02Ev g (runHistory digest w h).2 = true
  | [], _, _, _, _ => .inr rfl
  | e :: es, w, g, hw, hs => by
    simp only [runHistory, judgeWith, hasCrash_cons, Bool.and_eq_true, Bool.or_eq_true]
    cases e with
    | edit f =>
      rcases hist_c02 es _ _ (show CW digest (runEvent digest w (.edit f)).1 from hw) (sync_event digest g w _ hs) with h | h
      · exact .inl (.inr h)
      · exact .inr ⟨rfl, h⟩
    | removeCache =>
      rcases hist_c02 es _ _ (show CW digest (runEvent digest w .removeCache).1 from fun _ => rfl)
        (sync_event digest g w _ hs) with h | h
      · exact .inl (.inr h)
      · exact .inr ⟨rfl, h⟩
    | invoke force order fails crashAt =>
      cases ht : (runInv digest w force order fails crashAt).pc.terminal with
      | false =>
        left; left
        simp only [runEvent, isCrash, outcomeOf]
        cases hp : (runInv digest w force order fails crashAt).pc <;> simp [hp, Pc.terminal] at ht <;>
          cases crashAt <;> simp
      | true =>
        have hcw : CW digest (runEvent digest w (.invoke force order fails crashAt)).1 :=
          cinv_disk digest _ (runInv_cinv digest w force order fails crashAt hw) ht
        rcases hist_c02 es _ _ hcw (sync_event digest g w _ hs) with h | h
        · exact .inl (.inr h)
        · refine .inr ⟨?_, h⟩
          simp only [runEvent, c02Ev, Bool.and_eq_true, bne_iff_ne, ne_eq, Bool.or_eq_true]
          refine ⟨(outcome_not_bad crashAt _).1, ?_⟩
          cases hfin : (outcomeOf crashAt (runInv digest w force order fails crashAt) == Outcome.done) with
          | false => left; simpa using hfin
          | true =>
            right
            have hpc : (runInv digest w force order fails crashAt).pc = .finished := by
              simp only [beq_iff_eq] at hfin
              unfold outcomeOf at hfin
              split at hfin <;> first | assumption | (split at hfin <;> cases hfin) | cases hfin
            rw [hs.1, hs.2.1]
            simp only [traceOf, hpc]
            exact runInv_c02 digest w force order fails crashAt hw

/-- in a crash-free history no kill is observed (termination) -/
theorem hist_nocrash : ∀ (h : History) (w : World), crashFree h = true → hasCrash (runHistory digest w h).2 = false
  | [], _, _ => rfl
  | e :: es, w, hcf => by
    simp only [crashFree, List.all_cons, Bool.and_eq_true] at hcf
    simp only [runHistory, hasCrash_cons, Bool.or_eq_false_iff]
    refine ⟨?_, hist_nocrash es _ (by simpa [crashFree] using hcf.2)⟩
    cases e with
    | edit f => rfl
    | removeCache => rfl
    | invoke force order fails crashAt =>
      cases crashAt with
      | some k => simp [Event.crashFree] at hcf
      | none =>
        have ht := runInv_terminal digest w force order fails
        simp only [runEvent, isCrash, outcomeOf]
        cases hp : (runInv digest w force order fails none).pc <;> simp [hp, Pc.terminal] at ht ⊢

/-- C10 beyond C01: never a panic or a hang; a damaged cache gives the explicit cache error having executed nothing;
    the cache error is only raised for a damaged cache -/
theorem hist_c10 : ∀ (h : History) (w : World) (g : Ghost), Sync g w →
    judgeWith c10Ev g (runHistory digest w h).2 = true
  | [], _, _, _ => rfl
  | e :: es, w, g, hs => by
    simp only [runHistory, judgeWith, Bool.and_eq_true]
    refine ⟨?_, hist_c10 es _ _ (sync_event digest g w e hs)⟩
    cases e with
    | edit f => rfl
    | removeCache => rfl
    | invoke force order fails crashAt =>
      simp only [runEvent, c10Ev, Bool.and_eq_true, bne_iff_ne, ne_eq, Bool.or_eq_true, beq_iff_eq]
      refine ⟨⟨⟨⟨(outcome_not_bad crashAt _).2, (outcome_not_bad crashAt _).1⟩, ?_⟩, ?_⟩, ?_⟩
      · -- never stuck
        cases crashAt with
        | some k => unfold outcomeOf; split <;> simp
        | none =>
          have ht := runInv_terminal digest w force order fails
          unfold outcomeOf
          cases hp : (runInv digest w force order fails none).pc <;> simp [hp, Pc.terminal] at ht ⊢
      · -- damaged cache
        by_cases hd : w.disk = .corrupt
        · right
          obtain ⟨ho, _, _, hk⟩ := runInv_corrupt digest w force order fails hd (crashAt.getD (fuel order.length))
          have ho' : (runInv digest w force order fails crashAt).out = [] := ho
          refine ⟨?_, by simp [traceOf]; split <;> simp [ho']⟩
          rcases hk with ⟨hk0, hpc⟩ | ⟨_, hpc⟩
          · have hpc' : (runInv digest w force order fails crashAt).pc = .boot := hpc
            cases crashAt with
            | none => simp [fuel] at hk0
            | some k => right; simp [outcomeOf, hpc']
          · have hpc' : (runInv digest w force order fails crashAt).pc = .cacheError := hpc
            left; simp [outcomeOf, hpc']
        · left
          rw [hs.2.2]
          cases hdk : w.disk <;> simp [Disk.cls] <;> exact hd hdk
      · -- cache error only for a damaged cache
        by_cases hoc : outcomeOf crashAt (runInv digest w force order fails crashAt) = .cacheError
        · right
          have hpc : (runInv digest w force order fails crashAt).pc = .cacheError := by
            unfold outcomeOf at hoc
            split at hoc <;> first | assumption | (split at hoc <;> cases hoc) | cases hoc
          have := (cacheError_only_corrupt digest w force order fails (crashAt.getD (fuel order.length))).2 hpc
          rw [hs.2.2, this]; rfl
        · left; exact hoc

end Spok.Run
