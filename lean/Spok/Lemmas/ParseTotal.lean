import Spok.Lemmas.LexLine
/-! # The parser on an admissible token stream: never past the end, never `.spin`, never `.panic`

On a token list `ts` with `Str n m ts` (see `LexLine`) every parse function either returns an error
built from a real token (`illegal` on a token with `1 ≤ line ≤ n`, `lexErr` on the final ERROR token,
whose cited line the lexer kept within `1 … n`) or succeeds leaving a top-level admissible stream that
is no longer than its input.  In particular `pnext` is never applied to the exhausted list,
`parseCommands` meets `}` or the ERROR token, and `parseLoop`'s fuel suffices. -/
namespace Spok

/-- a syntax error that cites a line of the input and quotes that same line -/
def GoodF (n : Nat) (f : PFail) : Prop := ∃ e, f = .err e ∧ 1 ≤ e.cited ∧ e.cited ≤ n ∧ e.ctx = e.cited

def GoodRes {α : Type} (n : Nat) (len : Nat) : PRes α → Prop
  | .error f => GoodF n f
  | .ok (_, ts') => Str n .top ts' ∧ ts'.length ≤ len

def GoodOpt (n : Nat) : Option PFail → Prop
  | none => True
  | some f => GoodF n f

variable {c : PCtx} {t : Tok} {ts : List Tok} {m : Mode}

theorem lexErr_good (h1 : 1 ≤ t.errLine) (h2 : t.errLine ≤ c.nlines) : GoodF c.nlines (lexErr c t) := by
  refine ⟨⟨t.errLine, t.errLine⟩, ?_, h1, h2, rfl⟩
  simp [lexErr, h1, h2]

theorem illegal_good (h1 : 1 ≤ t.line) (h2 : t.line ≤ c.nlines) : GoodF c.nlines (illegal c t) := by
  refine ⟨⟨t.line, t.line⟩, ?_, h1, h2, rfl⟩
  have : (t.line == 0) = false := by simp; omega
  simp [illegal, this, h2]

theorem GoodRes.mono {α : Type} {n a b : Nat} {r : PRes α} (h : GoodRes n a r) (hab : a ≤ b) : GoodRes n b r := by
  unfold GoodRes at h ⊢
  split
  · simpa using h
  · simp only at h ⊢; exact ⟨h.1, by omega⟩

theorem Str.nil_false {n : Nat} (h : Str n m []) : False := h

/-- a token that is not the last one: neither EOF nor ERROR is possible, and the rest follows its mode -/
theorem Str.tail {n : Nat} (h : Str n m (t :: ts)) (h1 : t.ty ≠ .eof) (h2 : t.ty ≠ .error) :
    ∃ m', trans m t.ty = some m' ∧ Str n m' ts := by
  rcases h with ⟨_, hf⟩ | ⟨_, _, m', hm, hs⟩
  · rcases hf with ⟨_, he, _⟩ | ⟨_, he, _⟩
    · exact absurd he h1
    · exact absurd he h2
  · exact ⟨m', hm, hs⟩

/-- the head of a stream: an ERROR cites a line of the input, anything else sits on a line of the input -/
theorem Str.head {n : Nat} (h : Str n m (t :: ts)) :
    (t.ty = .error → 1 ≤ t.errLine ∧ t.errLine ≤ n) ∧ (t.ty ≠ .error → 1 ≤ t.line ∧ t.line ≤ n) := by
  rcases h with ⟨_, hf⟩ | ⟨h1, h2, m', hm, hs⟩
  · rcases hf with ⟨_, he, h1, h2⟩ | ⟨_, he, h1, h2⟩
    · exact ⟨fun h => (by rw [he] at h; cases h), fun _ => ⟨h1, h2⟩⟩
    · exact ⟨fun _ => ⟨h1, h2⟩, fun h => absurd he h⟩
  · exact ⟨fun h => (by rw [h] at hm; cases m <;> simp [trans] at hm), fun _ => ⟨h1, h2⟩⟩

/-- rejecting the head token of a stream gives a located error -/
theorem reject_lexErr (h : Str c.nlines m (t :: ts)) (he : t.ty = .error) : GoodF c.nlines (lexErr c t) :=
  lexErr_good (h.head.1 he).1 (h.head.1 he).2

theorem reject_illegal (h : Str c.nlines m (t :: ts)) (he : t.ty ≠ .error) : GoodF c.nlines (illegal c t) :=
  illegal_good (h.head.2 he).1 (h.head.2 he).2

/-- after `#` comes a COMMENT, after `task` an IDENT: these modes never end the stream -/
theorem Str.after {n : Nat} (h : Str n m ts) (hm : m = .afterHash ∨ m = .afterTask) :
    ∃ t ts', ts = t :: ts' ∧ Str n .top ts' ∧ (m = .afterHash → t.ty = .comment) ∧ (m = .afterTask → t.ty = .ident) := by
  cases ts with
  | nil => exact h.elim
  | cons t ts' =>
    rcases h with ⟨_, hf⟩ | ⟨h1, h2, m', hm', hs⟩
    · rcases hf with ⟨h0, _⟩ | ⟨h0, _⟩
      · rcases hm with rfl | rfl <;> cases h0
      · rcases hm with rfl | rfl <;> rcases h0 with h0 | h0 <;> cases h0
    · refine ⟨t, ts', rfl, ?_⟩
      rcases hm with rfl | rfl
      · cases hty : t.ty <;> rw [hty] at hm' <;> simp [trans] at hm'
        subst hm'; exact ⟨hs, fun _ => rfl, fun h => (by cases h)⟩
      · cases hty : t.ty <;> rw [hty] at hm' <;> simp [trans] at hm'
        subst hm'; exact ⟨hs, fun h => (by cases h), fun _ => rfl⟩

theorem expect_good (ty : TT) (h1 : ty ≠ .eof) (h : Str c.nlines .top ts) :
    (∀ f, expect c ty ts = .error f → GoodF c.nlines f) ∧
    (∀ ts', expect c ty ts = .ok ts' →
      ∃ m', trans .top ty = some m' ∧ Str c.nlines m' ts' ∧ ts'.length < ts.length) := by
  cases ts with
  | nil => exact h.elim
  | cons t ts1 =>
    by_cases he : t.ty = .error
    · have : expect c ty (t :: ts1) = .error (lexErr c t) := by simp [expect, pnext, he]
      rw [this]
      exact ⟨fun f hf => (by cases hf; exact reject_lexErr h he), fun ts' hf => (by cases hf)⟩
    · by_cases hty : t.ty = ty
      · have : expect c ty (t :: ts1) = .ok ts1 := by
          have he' : ¬ ty = .error := by rw [← hty]; exact he
          simp [expect, pnext, he', hty]
        rw [this]
        refine ⟨fun f hf => (by cases hf), fun ts' hf => ?_⟩
        cases hf
        obtain ⟨m', hm, hs⟩ := h.tail (by rw [hty]; exact h1) he
        exact ⟨m', by rw [← hty]; exact hm, hs, by simp⟩
      · have : expect c ty (t :: ts1) = .error (illegal c t) := by simp [expect, pnext, he, hty]
        rw [this]
        exact ⟨fun f hf => (by cases hf; exact reject_illegal h he), fun ts' hf => (by cases hf)⟩

theorem parseArgList_good : ∀ (ts : List Tok) (acc : List Arg), Str c.nlines .top ts →
    GoodRes c.nlines ts.length (parseArgList c ts acc)
  | [], _, h => h.elim
  | t :: ts, acc, h => by
    unfold parseArgList
    split
    · rename_i hty
      obtain ⟨m', hm, hs⟩ := h.tail (by simp [hty]) (by simp [hty])
      rw [hty] at hm; simp [trans] at hm; subst hm
      exact ⟨hs, by simp⟩
    · rename_i hty
      obtain ⟨m', hm, hs⟩ := h.tail (by simp [hty]) (by simp [hty])
      rw [hty] at hm; simp [trans] at hm; subst hm
      exact (parseArgList_good ts _ hs).mono (by simp)
    · rename_i hty
      obtain ⟨m', hm, hs⟩ := h.tail (by simp [hty]) (by simp [hty])
      rw [hty] at hm; simp [trans] at hm; subst hm
      exact (parseArgList_good ts _ hs).mono (by simp)
    · rename_i hty
      obtain ⟨m', hm, hs⟩ := h.tail (by simp [hty]) (by simp [hty])
      rw [hty] at hm; simp [trans] at hm; subst hm
      exact (parseArgList_good ts _ hs).mono (by simp)
    · rename_i hty; exact reject_lexErr h hty
    · rename_i h1 h2 h3 h4 h5
      exact reject_illegal h h5

theorem parseOutputs_good (h : Str c.nlines .top ts) : GoodRes c.nlines ts.length (parseOutputs c ts) := by
  unfold parseOutputs
  split
  · exact h.elim
  · rename_i t ts1
    split
    · exact ⟨h, Nat.le_refl _⟩
    · rename_i hty
      have hty : t.ty = .output := by simpa using hty
      obtain ⟨m', hm, hs⟩ := h.tail (by simp [hty]) (by simp [hty])
      rw [hty] at hm; simp [trans] at hm; subst hm
      cases ts1 with
      | nil => exact hs.elim
      | cons n ts2 =>
        simp only [pnext]
        split
        · rename_i hn
          obtain ⟨m', hm, hs2⟩ := hs.tail (by simp [hn]) (by simp [hn])
          rw [hn] at hm; simp [trans] at hm; subst hm
          exact ⟨hs2, by simp; omega⟩
        · rename_i hn
          obtain ⟨m', hm, hs2⟩ := hs.tail (by simp [hn]) (by simp [hn])
          rw [hn] at hm; simp [trans] at hm; subst hm
          exact ⟨hs2, by simp; omega⟩
        · rename_i hn
          obtain ⟨m', hm, hs2⟩ := hs.tail (by simp [hn]) (by simp [hn])
          rw [hn] at hm; simp [trans] at hm; subst hm
          exact ⟨hs2, by simp; omega⟩
        · rename_i hn
          obtain ⟨m', hm, hs2⟩ := hs.tail (by simp [hn]) (by simp [hn])
          rw [hn] at hm; simp [trans] at hm; subst hm
          exact (parseArgList_good ts2 [] hs2).mono (by simp; omega)
        · rename_i hn; exact reject_lexErr hs hn
        · rename_i h1 h2 h3 h4 h5
          exact reject_illegal hs h5

/-- after `{`: COMMANDs until `}` or the final ERROR token — the loop that would spin on an exhausted
    stream never sees one -/
theorem parseCommands_good : ∀ (ts : List Tok) (acc : List (List Rune)), Str c.nlines .body ts →
    GoodRes c.nlines ts.length (parseCommands c ts acc)
  | [], _, h => h.elim
  | t :: ts, acc, h => by
    unfold parseCommands
    split
    · rename_i hty; exact reject_lexErr h hty
    · rename_i hty
      obtain ⟨m', hm, hs⟩ := h.tail (by simp [hty]) (by simp [hty])
      rw [hty] at hm; simp [trans] at hm; subst hm
      exact ⟨hs, by simp⟩
    · rename_i hty
      obtain ⟨m', hm, hs⟩ := h.tail (by simp [hty]) (by simp [hty])
      rw [hty] at hm; simp [trans] at hm; subst hm
      exact (parseCommands_good ts _ hs).mono (by simp)
    · rename_i h1 h2 h3
      exfalso
      rcases h with ⟨_, hf⟩ | ⟨_, _, m', hm, _⟩
      · rcases hf with ⟨h0, _⟩ | ⟨_, he, _⟩
        · cases h0
        · exact h1 he
      · cases hty : t.ty <;> rw [hty] at hm <;> simp [trans] at hm
        · exact h2 hty
        · exact h3 hty

/-- `task` has been read: the name is there, and every later read hits a real token -/
theorem parseTask_good (doc : List Rune) (h : Str c.nlines .afterTask ts) :
    GoodRes c.nlines ts.length (parseTask c doc ts) := by
  obtain ⟨nt, ts1, rfl, hs1, _, _⟩ := h.after (Or.inr rfl)
  unfold parseTask
  simp only [pnext]
  have e1 := expect_good (c := c) .lparen (by decide) hs1
  split
  · rename_i f he; exact e1.1 f he
  · rename_i ts2 he
    obtain ⟨m', hm, hs2, hl2⟩ := e1.2 ts2 he
    simp [trans] at hm; subst hm
    have a1 := parseArgList_good (c := c) ts2 [] hs2
    split
    · rename_i f he; rw [he] at a1; exact a1
    · rename_i deps ts3 he
      rw [he] at a1
      have hs3 : Str c.nlines .top ts3 := a1.1
      have hl3 : ts3.length ≤ ts2.length := a1.2
      have o1 := parseOutputs_good (c := c) hs3
      split
      · rename_i f he; rw [he] at o1; exact o1
      · rename_i outs ts4 he
        rw [he] at o1
        have hs4 : Str c.nlines .top ts4 := o1.1
        have hl4 : ts4.length ≤ ts3.length := o1.2
        have e2 := expect_good (c := c) .lbrace (by decide) hs4
        split
        · rename_i f he; exact e2.1 f he
        · rename_i ts5 he
          obtain ⟨m', hm, hs5, hl5⟩ := e2.2 ts5 he
          simp [trans] at hm; subst hm
          have c1 := parseCommands_good (c := c) ts5 [] hs5
          split
          · rename_i f he; rw [he] at c1; exact c1
          · rename_i cmds ts6 he
            rw [he] at c1
            exact ⟨c1.1, by have := c1.2; simp only [List.length_cons]; omega⟩

theorem parseAssign_good (ident : Tok) (h : Str c.nlines .top ts) :
    GoodRes c.nlines ts.length (parseAssign c ident ts) := by
  unfold parseAssign
  have e1 := expect_good (c := c) .declare (by decide) h
  split
  · rename_i f he; exact e1.1 f he
  · rename_i ts1 he
    obtain ⟨m', hm, hs1, hl1⟩ := e1.2 ts1 he
    simp [trans] at hm; subst hm
    cases ts1 with
    | nil => exact hs1.elim
    | cons n ts2 =>
      simp only [pnext]
      split
      · rename_i hn
        obtain ⟨m', hm, hs2⟩ := hs1.tail (by simp [hn]) (by simp [hn])
        rw [hn] at hm; simp [trans] at hm; subst hm
        exact ⟨hs2, by simp only [List.length_cons] at hl1; omega⟩
      · rename_i hn
        obtain ⟨m', hm, hs2⟩ := hs1.tail (by simp [hn]) (by simp [hn])
        rw [hn] at hm; simp [trans] at hm; subst hm
        split
        · rename_i t2 ts3
          split
          · rename_i hl
            have hl : t2.ty = .lparen := by simpa using hl
            obtain ⟨m', hm, hs3⟩ := hs2.tail (by simp [hl]) (by simp [hl])
            rw [hl] at hm; simp [trans] at hm; subst hm
            have a1 := parseArgList_good (c := c) ts3 [] hs3
            split
            · rename_i f he; rw [he] at a1; exact a1
            · rename_i args ts4 he
              rw [he] at a1
              exact ⟨a1.1, by have := a1.2; simp only [List.length_cons] at hl1; omega⟩
          · exact ⟨hs2, by simp only [List.length_cons] at hl1 ⊢; omega⟩
        · exact hs2.elim
      · rename_i hn; exact reject_lexErr hs1 hn
      · rename_i h1 h2 h3
        exact reject_illegal hs1 h3

/-- the statement loop: each round consumes a token, so `|tokens| + 1` rounds suffice, and whatever
    ends the loop is the EOF token, or a located error -/
theorem parseLoop_good : ∀ (fuel : Nat) (ts : List Tok) (acc : List Node), Str c.nlines .top ts → ts.length < fuel →
    GoodOpt c.nlines (parseLoop c fuel ts acc).2 := by
  intro fuel
  induction fuel with
  | zero => intro ts acc _ hl; omega
  | succ fuel ih =>
    intro ts acc h hl
    unfold parseLoop
    cases ts with
    | nil => exact h.elim
    | cons t ts =>
      simp only [List.length_cons] at hl
      simp only []
      split
      · trivial
      · rename_i hty; exact reject_lexErr h hty
      · -- `#`
        rename_i hty
        obtain ⟨m', hm, hs⟩ := h.tail (by simp [hty]) (by simp [hty])
        rw [hty] at hm; simp [trans] at hm; subst hm
        obtain ⟨cm, ts1, rfl, hs1, _, _⟩ := hs.after (Or.inl rfl)
        rw [show pnext (cm :: ts1) = (cm, ts1) from rfl]
        simp only [List.length_cons] at hl ⊢
        split
        · rename_i n ts2
          by_cases hn : (n.ty == TT.task && !cm.val.isEmpty) = true
          · rw [if_pos hn]
            have hn : n.ty = .task := by simp at hn; exact hn.1
            obtain ⟨m', hm, hs2⟩ := hs1.tail (by simp [hn]) (by simp [hn])
            rw [hn] at hm; simp [trans] at hm; subst hm
            have t1 := parseTask_good (c := c) cm.val hs2
            split
            · rename_i f he; rw [he] at t1; exact t1
            · rename_i node ts3 he
              rw [he] at t1
              exact ih _ _ t1.1 (by have := t1.2; simp only [List.length_cons] at hl; omega)
          · rw [if_neg hn]
            exact ih _ _ hs1 (by simp only [List.length_cons] at hl ⊢; omega)
        · exact hs1.elim
      · -- identifier: an assignment
        rename_i hty
        obtain ⟨m', hm, hs⟩ := h.tail (by simp [hty]) (by simp [hty])
        rw [hty] at hm; simp [trans] at hm; subst hm
        have a1 := parseAssign_good (c := c) t hs
        split
        · rename_i f he; rw [he] at a1; exact a1
        · rename_i node ts1 he
          rw [he] at a1
          exact ih _ _ a1.1 (by have := a1.2; omega)
      · -- `task`
        rename_i hty
        obtain ⟨m', hm, hs⟩ := h.tail (by simp [hty]) (by simp [hty])
        rw [hty] at hm; simp [trans] at hm; subst hm
        have t1 := parseTask_good (c := c) [] hs
        split
        · rename_i f he; rw [he] at t1; exact t1
        · rename_i node ts1 he
          rw [he] at t1
          exact ih _ _ t1.1 (by have := t1.2; omega)
      · rename_i h1 h2 h3 h4 h5
        exact reject_illegal h h2

theorem parseToks_good {n : Nat} {toks : List Tok} (h : Str n .top toks) : GoodOpt n (parseToks n toks).fail :=
  parseLoop_good (c := ⟨n⟩) (toks.length + 1) toks [] h (by omega)

/-- every ERROR token of an admissible stream cites a line of the input -/
theorem Str.errors_located {n : Nat} : ∀ {m : Mode} {ts : List Tok}, Str n m ts →
    ∀ t ∈ ts, t.ty = .error → 1 ≤ t.errLine ∧ t.errLine ≤ n
  | _, [], h => h.elim
  | m, t :: ts, h => by
    intro x hx hty
    simp only [List.mem_cons] at hx
    rcases hx with rfl | hx
    · exact h.head.1 hty
    · rcases h with ⟨he, _⟩ | ⟨_, _, m', _, hs⟩
      · subst he; cases hx
      · exact Str.errors_located hs x hx hty

/-- every token other than an ERROR token sits on a line of the input (EOF included) -/
theorem Str.lines_located {n : Nat} : ∀ {m : Mode} {ts : List Tok}, Str n m ts →
    ∀ t ∈ ts, t.ty ≠ .error → 1 ≤ t.line ∧ t.line ≤ n
  | _, [], h => h.elim
  | m, t :: ts, h => by
    intro x hx hty
    simp only [List.mem_cons] at hx
    rcases hx with rfl | hx
    · exact h.head.2 hty
    · rcases h with ⟨he, _⟩ | ⟨_, _, m', _, hs⟩
      · subst he; cases hx
      · exact Str.lines_located hs x hx hty

/-- an admissible stream ends with its only EOF / ERROR token -/
theorem Str.ends {n : Nat} : ∀ {m : Mode} {ts : List Tok}, Str n m ts →
    ∃ pre last, ts = pre ++ [last] ∧ (last.ty = .eof ∨ last.ty = .error) ∧
      ∀ t ∈ pre, t.ty ≠ .eof ∧ t.ty ≠ .error
  | _, [], h => h.elim
  | m, t :: ts, h => by
    rcases h with ⟨he, hf⟩ | ⟨_, _, m', hm, hs⟩
    · subst he
      refine ⟨[], t, rfl, ?_, by simp⟩
      rcases hf with ⟨_, h, _⟩ | ⟨_, h, _⟩
      · exact Or.inl h
      · exact Or.inr h
    · obtain ⟨pre, last, rfl, hl, hp⟩ := Str.ends hs
      refine ⟨t :: pre, last, rfl, hl, ?_⟩
      intro x hx
      simp only [List.mem_cons] at hx
      rcases hx with rfl | hx
      · constructor <;> intro hh <;> rw [hh] at hm <;> cases m <;> simp [trans] at hm
      · exact hp x hx

end Spok
