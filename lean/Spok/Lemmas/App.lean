import Spok.App
/-! helper lemmas about `Spok.App.action` (used by Props/C19, Props/C20): the chain of checks of `App.Run`
    opened up once, so that the property theorems are short case analyses -/
namespace Spok.App

theorem prepare_none (o : Options) (w : World) (h : prepare o w = none) :
    (o.spokfileGiven = true ∨ w.found = true) ∧ w.nameOk = true ∧ w.dotenvOk = true ∧
    w.readable = true ∧ w.parses = true ∧ w.loads = true := by
  unfold prepare at h
  repeat' split at h
  all_goals simp_all
  cases hg : o.spokfileGiven <;> simp_all

theorem prepare_none_iff (o : Options) (w : World) : prepare o w = none ↔ w.ok o = true := by
  constructor
  · intro h
    have := prepare_none o w h
    obtain ⟨h1, h2, h3, h4, h5, h6⟩ := this
    simp only [World.ok, Bool.and_eq_true, Bool.or_eq_true]
    exact ⟨⟨⟨⟨⟨h1, h2⟩, h3⟩, h4⟩, h5⟩, h6⟩
  · intro h
    simp only [World.ok, Bool.and_eq_true, Bool.or_eq_true] at h
    obtain ⟨⟨⟨⟨⟨h1, h2⟩, h3⟩, h4⟩, h5⟩, h6⟩ := h
    unfold prepare
    rcases h1 with h1 | h1 <;> simp [h1, h2, h3, h4, h5, h6]

/-- the four ways `App.Run` can go before its `switch` -/
theorem action_cases (o : Options) (args : List String) (w : World) :
    (o.init = true ∧ w.cwdSpokfile = true ∧ action o args w = .error .initExists) ∨
    (o.init = true ∧ w.cwdSpokfile = false ∧ action o args w = .initialise) ∨
    (o.init = false ∧ ∃ e, action o args w = .error e) ∨
    (o.init = false ∧ (o.quiet && o.debug) = false ∧ prepare o w = none ∧ action o args w = dispatch o args w) := by
  unfold action
  cases hi : o.init
  · cases hq : (o.quiet && o.debug)
    · cases hp : prepare o w
      · simp
      · simp
    · simp
  · cases hc : w.cwdSpokfile <;> simp

/-- the `switch` -/
theorem dispatch_cases (o : Options) (args : List String) (w : World) :
    (o.fmt = true ∧ dispatch o args w = .fmt) ∨
    (o.fmt = false ∧ o.vars = true ∧ dispatch o args w = .vars) ∨
    (o.fmt = false ∧ o.vars = false ∧ o.clean = true ∧ (dispatch o args w = .cleanTask ∨ dispatch o args w = .clean)) ∨
    (o.fmt = false ∧ o.vars = false ∧ o.clean = false ∧ o.show = true ∧ dispatch o args w = .show) ∨
    (o.fmt = false ∧ o.vars = false ∧ o.clean = false ∧ o.show = false ∧ args = [] ∧
      dispatch o args w = defaultDispatch w.hasDefault) ∨
    (o.fmt = false ∧ o.vars = false ∧ o.clean = false ∧ o.show = false ∧ args ≠ [] ∧ dispatch o args w = .run args) := by
  unfold dispatch defaultDispatch
  cases o.fmt <;> cases o.vars <;> cases o.clean <;> cases o.show <;> cases w.hasClean <;> cases args <;> simp

/-- what the `switch` can write: the spokfile under `--fmt`, the cache, or (under `--clean`) declared outputs -/
theorem dispatch_writes (o : Options) (args : List String) (w : World) (d : Write) (hd : d ∈ writes (dispatch o args w)) :
    (d = ⟨.spokfile, .modify⟩ ∧ o.fmt = true ∧ dispatch o args w = .fmt) ∨ d.target = .cache ∨
    (d = ⟨.outputs, .delete⟩ ∧ o.clean = true ∧ dispatch o args w = .clean) := by
  rcases dispatch_cases o args w with ⟨h1, h⟩ | ⟨_, _, h⟩ | ⟨_, _, hc, h | h⟩ | ⟨_, _, _, _, h⟩ | ⟨_, _, _, _, _, h⟩ | ⟨_, _, _, _, _, h⟩
  all_goals rw [h] at hd ⊢
  all_goals (try (unfold defaultDispatch at hd; split at hd))
  all_goals simp_all [writes]
  all_goals (try (rcases hd with rfl | rfl <;> simp))

/-- a task is not ok exactly when one of its commands has a non-zero status -/
theorem not_ok_iff (r : Result) : r.ok = false ↔ ∃ c ∈ r.cmds, c.status ≠ 0 := by
  simp [Result.ok, CmdResult.ok, List.all_eq_false]

/-- the loop finds the FIRST failing task: everything before it is ok, it is not, and it is the one named -/
theorem firstFailing_spec (rs : List Result) (h : ∃ r ∈ rs, ∃ c ∈ r.cmds, c.status ≠ 0) :
    ∃ pre r post c, rs = pre ++ r :: post ∧ (∀ p ∈ pre, p.ok = true) ∧ r.ok = false ∧
      c ∈ r.cmds ∧ c.status ≠ 0 ∧ firstFailing rs = some (r.task, c) := by
  induction rs with
  | nil => obtain ⟨r, hr, _⟩ := h; cases hr
  | cons r rs ih =>
    cases hok : r.ok with
    | false =>
      obtain ⟨c, hc, hn⟩ := (not_ok_iff r).mp hok
      cases hf : r.cmds.find? (fun c => !c.ok) with
      | none =>
        have := List.find?_eq_none.mp hf c hc
        simp [CmdResult.ok] at this
        exact absurd this hn
      | some c' =>
        refine ⟨[], r, rs, c', rfl, by simp, hok, List.mem_of_find?_eq_some hf, ?_, ?_⟩
        · have := List.find?_some hf
          simpa [CmdResult.ok] using this
        · simp [firstFailing, hok, hf]
    | true =>
      have h' : ∃ r' ∈ rs, ∃ c ∈ r'.cmds, c.status ≠ 0 := by
        obtain ⟨r', hr', c, hc, hn⟩ := h
        cases hr' with
        | head =>
          have : r.ok = false := (not_ok_iff r).mpr ⟨c, hc, hn⟩
          rw [hok] at this; cases this
        | tail _ hm => exact ⟨r', hm, c, hc, hn⟩
      obtain ⟨pre, r', post, c, he, hpre, hr', hc, hn, hf⟩ := ih h'
      refine ⟨r :: pre, r', post, c, by simp [he], ?_, hr', hc, hn, ?_⟩
      · intro p hp
        cases hp with
        | head => exact hok
        | tail _ hm => exact hpre p hm
      · simp [firstFailing, hok, hf]

/-- all commands succeeded: the loop of `runTasks` finds nothing -/
theorem firstFailing_none (rs : List Result) (hok : ∀ r ∈ rs, ∀ c ∈ r.cmds, c.status = 0) : firstFailing rs = none := by
  induction rs with
  | nil => rfl
  | cons r rs ih =>
    have hr : r.ok = true := by
      simp only [Result.ok, List.all_eq_true, CmdResult.ok, beq_iff_eq]
      intro c hc; exact hok r (by simp) c hc
    simp only [firstFailing, hr, if_true]
    exact ih (fun r' hr' => hok r' (by simp [hr']))

theorem optMap_map {α β γ} (f : β → Option γ) (g : α → β) (h : α → γ) (hf : ∀ x, f (g x) = some (h x)) (xs : List α) :
    optMap f (xs.map g) = some (xs.map h) := by
  induction xs with
  | nil => rfl
  | cons x xs ih => simp [optMap, hf, ih]

theorem decodeCmd_cmdJson (c : CmdResult) : decodeCmd (cmdJson c) = some c := by
  simp [decodeCmd, cmdJson, field]

theorem decodeResult_resultJson (r : Result) : decodeResult (resultJson r) = some r := by
  obtain ⟨t, cs, s⟩ := r
  cases cs with
  | nil => simp [decodeResult, resultJson, field]
  | cons c cs =>
    have := optMap_map decodeCmd cmdJson id decodeCmd_cmdJson (c :: cs)
    simp only [List.map_id_fun, id_eq, List.map_cons] at this
    simp [decodeResult, resultJson, field, this]

theorem byName_trans (a b c : String × String) : byName a b = true → byName b c = true → byName a c = true := by
  simp only [byName, decide_eq_true_eq]; exact String.le_trans

theorem byName_total (a b : String × String) : (byName a b || byName b a) = true := by
  simp only [byName, Bool.or_eq_true, decide_eq_true_eq]; exact String.le_total a.1 b.1

end Spok.App
