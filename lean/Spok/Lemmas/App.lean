import Spok.App
/-! helper lemmas about `Spok.App.action` (used by Props/C19, Props/C20): the chain of checks of `App.Run`
    opened up once, so that the property theorems are short case analyses -/
namespace Spok.App

theorem prepare_none (o : Options) (w : World) (h : prepare o w = none) :
    (o.spokfileGiven = true ∨ w.found = true) ∧ w.nameOk = true ∧ w.dotenvOk = true ∧
    w.readable = true ∧ w.parses = true ∧ w.loads = true := by
  unfold prepare at h
  repeat' split at h
  all_goals simp_all
  cases hg : o.spokfileGiven <;> simp_all

theorem prepare_none_iff (o : Options) (w : World) : prepare o w = none ↔ w.ok o = true := by
  constructor
  · intro h
    have := prepare_none o w h
    obtain ⟨h1, h2, h3, h4, h5, h6⟩ := this
    simp only [World.ok, Bool.and_eq_true, Bool.or_eq_true]
    exact ⟨⟨⟨⟨⟨h1, h2⟩, h3⟩, h4⟩, h5⟩, h6⟩
  · intro h
    simp only [World.ok, Bool.and_eq_true, Bool.or_eq_true] at h
    obtain ⟨⟨⟨⟨⟨h1, h2⟩, h3⟩, h4⟩, h5⟩, h6⟩ := h
    unfold prepare
    rcases h1 with h1 | h1 <;> simp [h1, h2, h3, h4, h5, h6]

/-- the four ways `App.Run` can go before its `switch` -/
theorem action_cases (o : Options) (args : List String) (w : World) :
    (o.init = true ∧ w.cwdSpokfile = true ∧ action o args w = .error .initExists) ∨
    (o.init = true ∧ w.cwdSpokfile = false ∧ action o args w = .initialise) ∨
    (o.init = false ∧ ∃ e, action o args w = .error e) ∨
    (o.init = false ∧ (o.quiet && o.debug) = false ∧ prepare o w = none ∧ action o args w = dispatch o args w) := by
  unfold action
  cases hi : o.init
  · cases hq : (o.quiet && o.debug)
    · cases hp : prepare o w
      · simp
      · simp
    · simp
  · cases hc : w.cwdSpokfile <;> simp

/-- the `switch` -/
theorem dispatch_cases (o : Options) (args : List String) (w : World) :
    (o.fmt = true ∧ dispatch o args w = .fmt) ∨
    (o.fmt = false ∧ o.vars = true ∧ dispatch o args w = .vars) ∨
    (o.fmt = false ∧ o.vars = false ∧ o.clean = true ∧ (dispatch o args w = .cleanTask ∨ dispatch o args w = .clean)) ∨
    (o.fmt = false ∧ o.vars = false ∧ o.clean = false ∧ o.show = true ∧ dispatch o args w = .show) ∨
    (o.fmt = false ∧ o.vars = false ∧ o.clean = false ∧ o.show = false ∧ args = [] ∧
      dispatch o args w = defaultDispatch w.hasDefault) ∨
    (o.fmt = false ∧ o.vars = false ∧ o.clean = false ∧ o.show = false ∧ args ≠ [] ∧ dispatch o args w = .run args) := by
  unfold dispatch defaultDispatch
  cases o.fmt <;> cases o.vars <;> cases o.clean <;> cases o.show <;> cases w.hasClean <;> cases args <;> simp

end Spok.App
