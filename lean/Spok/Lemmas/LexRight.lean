import Spok.Syntax.Lexer
/-! # How the lexer primitives and scanning loops move through the input (`right`)

Helper lemmas for termination (C08) and for everything that follows the scanner through a text. -/
namespace Spok

@[simp] theorem L.next_right (l : L) : (l.next).1.right = l.right.tail := by
  unfold L.next; cases l.right <;> simp

@[simp] theorem L.next_backup_right (l : L) : ((l.next).1.backup).right = l.right := L.peek_right l

@[simp] theorem L.absorb_right (l : L) (n : Nat) : (l.absorb n).right = l.right.drop n := by simp [L.absorb]
@[simp] theorem L.emit_right (l : L) (t : TT) : (l.emit t).right = l.right := by simp [L.emit]
@[simp] theorem L.discard_right (l : L) : (l.discard).right = l.right := by simp [L.discard]
@[simp] theorem L.error_tag (l : L) : (l.error).2 = .done := by simp [L.error]
@[simp] theorem L.error_right (l : L) : (l.error).1.right = l.right := by simp [L.error]
@[simp] theorem L.atEOF_iff (l : L) : l.atEOF = true ↔ l.right = [] := by simp [L.atEOF]

theorem isSpaceCp_NL : isSpaceCp NL = true := by decide
theorem isSpaceCp_CR : isSpaceCp CR = true := by decide
theorem isSpaceCp_SP : isSpaceCp SP = true := by decide
theorem isSpaceCp_TAB : isSpaceCp TAB = true := by decide
theorem isSpaceCp_RBRACE : isSpaceCp RBRACE = false := by decide

/-- `skipWhitespace` leaves exactly the input after its maximal whitespace prefix -/
theorem skipWs_right (l : L) : (skipWs l).right = l.right.dropWhile isSpace := by
  induction h : l.right.length using Nat.strongRecOn generalizing l with
  | _ n ih =>
    unfold skipWs
    split
    · rename_i hr; simp [hr]
    · rename_i r rs hr
      split
      · rename_i hs
        rw [ih _ (by subst h; simp [hr]) _ rfl]
        simp [hr, hs]
      · rename_i hs
        simp [hr, hs]

theorem dropWhile_length_le {α} (p : α → Bool) (xs : List α) : (xs.dropWhile p).length ≤ xs.length := by
  induction xs with
  | nil => simp
  | cons x xs ih => simp only [List.dropWhile_cons]; split <;> simp <;> omega

theorem skipWs_right_le (l : L) : (skipWs l).right.length ≤ l.right.length := by
  rw [skipWs_right]; exact dropWhile_length_le _ _

theorem scanIdent_right (l : L) : (scanIdent l).right = l.right.dropWhile isIdent := by
  induction h : l.right.length using Nat.strongRecOn generalizing l with
  | _ n ih =>
    unfold scanIdent
    split
    · rename_i hr; simp [hr]
    · rename_i r rs hr
      split
      · rename_i hs
        rw [ih _ (by subst h; simp [hr]) _ rfl]
        simp [hr, hs]
      · rename_i hs
        simp [hr, hs]

theorem scanIdent_right_le (l : L) : (scanIdent l).right.length ≤ l.right.length := by
  rw [scanIdent_right]; exact dropWhile_length_le _ _

theorem scanComment_right_le (l : L) : (scanComment l).right.length ≤ l.right.length := by
  induction h : l.right.length using Nat.strongRecOn generalizing l with
  | _ n ih =>
    subst h
    unfold scanComment
    split
    · simp
    · rename_i r rs hr
      split
      · simp
      · have := ih _ (by simp [hr]) ((l.atEOL).1.next).1 rfl
        simp [hr] at this ⊢
        omega

theorem skipBlanks_right_le (l : L) : (skipBlanks l).right.length ≤ l.right.length := by
  induction h : l.right.length using Nat.strongRecOn generalizing l with
  | _ n ih =>
    subst h
    unfold skipBlanks
    split
    · simp
    · rename_i r rs hr
      split
      · have := ih _ (by simp [hr]) ((l.peek).1.next).1 rfl
        simp [hr] at this ⊢
        omega
      · simp

/-- a terminated string consumed at least its closing quote -/
theorem scanString_ok_right_lt (l l' : L) (h : scanString l = .ok l') : l'.right.length < l.right.length := by
  induction hn : l.right.length using Nat.strongRecOn generalizing l with
  | _ n ih =>
    subst hn
    unfold scanString at h
    split at h
    · cases h
    · rename_i r rs hr
      simp only [] at h
      split at h
      · cases h; simp [hr]
      · split at h
        · cases h
        · split at h
          · cases h
          · have := ih _ (by simp [hr]) _ h rfl
            simp [hr] at this ⊢
            omega

end Spok
