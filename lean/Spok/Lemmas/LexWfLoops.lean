import Spok.Lemmas.LexWf
/-! # The well-formedness invariant of the scanner (C16), part 2: the scanning loops -/
namespace Spok

@[simp] theorem L.next_toks (l : L) : (l.next).1.toks = l.toks := by
  unfold L.next; cases l.right <;> rfl
@[simp] theorem L.backup_toks (l : L) : l.backup.toks = l.toks := by
  unfold L.backup; repeat' split
  all_goals rfl
@[simp] theorem L.peek_toks (l : L) : (l.peek).1.toks = l.toks := by simp [L.peek]
@[simp] theorem L.atEOL_toks (l : L) : (l.atEOL).1.toks = l.toks := by simp [L.atEOL]

theorem L.next_tokRev_cons {l : L} {r : Rune} {rs : List Rune} (h : l.right = r :: rs) :
    (l.next).1.tokRev = r :: l.tokRev := by simp [L.next, h]

theorem skipWs_tokRev (l : L) : (skipWs l).tokRev = [] := by
  induction h : l.right.length using Nat.strongRecOn generalizing l with
  | _ n ih =>
    unfold skipWs
    split
    · rfl
    · rename_i r rs hr
      split
      · exact ih _ (by subst h; simp [hr]) _ rfl
      · rfl

/-- `skipWhitespace` (entered with nothing but white space pending) keeps the invariant -/
theorem Wf.skipWs {input : List Rune} {l : L} (h : Wf input l) (hws : ∀ r ∈ l.tokRev, isSpace r = true) :
    Wf input (skipWs l) := by
  induction hn : l.right.length using Nat.strongRecOn generalizing l with
  | _ n ih =>
    unfold Spok.skipWs
    split
    · rw [L.next_backup_eq h]; exact (h.setW _).discard hws
    · rename_i r rs hr
      split
      · rename_i hs
        refine ih _ (by subst hn; simp [hr]) h.next ?_ rfl
        rw [L.next_tokRev_cons hr]
        intro x hx
        simp only [List.mem_cons] at hx
        rcases hx with rfl | hx
        · exact hs
        · exact hws x hx
      · rw [L.next_backup_eq h]; exact (h.setW _).discard hws

theorem Wf.scanIdent {input : List Rune} {l : L} (h : Wf input l) : Wf input (scanIdent l) := by
  induction hn : l.right.length using Nat.strongRecOn generalizing l with
  | _ n ih =>
    unfold Spok.scanIdent
    split
    · exact h.next_backup
    · rename_i r rs hr
      split
      · exact ih _ (by subst hn; simp [hr]) h.next rfl
      · exact h.next_backup

theorem Wf.scanComment {input : List Rune} {l : L} (h : Wf input l) : Wf input (scanComment l) := by
  induction hn : l.right.length using Nat.strongRecOn generalizing l with
  | _ n ih =>
    unfold Spok.scanComment
    split
    · exact h.atEOL
    · rename_i r rs hr
      split
      · exact h.atEOL
      · exact ih _ (by subst hn; simp [hr]) h.atEOL.next rfl

theorem Wf.scanString {input : List Rune} {l l' : L} (h : Wf input l) (hs : scanString l = .ok l') : Wf input l' := by
  induction hn : l.right.length using Nat.strongRecOn generalizing l with
  | _ n ih =>
    unfold Spok.scanString at hs
    split at hs
    · cases hs
    · rename_i r rs hr
      simp only [] at hs
      split at hs
      · cases hs; exact h.next
      · split at hs
        · cases hs
        · split at hs
          · cases hs
          · exact ih _ (by subst hn; simp [hr]) h.next.atEOL hs rfl

/-- whatever `scanString` returns, it has emitted nothing -/
theorem scanString_toks (l : L) : ∀ l', (scanString l = .ok l' ∨ scanString l = .error l') → l'.toks = l.toks := by
  induction hn : l.right.length using Nat.strongRecOn generalizing l with
  | _ n ih =>
    intro l' hs
    unfold scanString at hs
    split at hs
    · rcases hs with hs | hs
      · cases hs
      · cases hs; simp
    · rename_i r rs hr
      simp only [] at hs
      split at hs
      · rcases hs with hs | hs
        · cases hs; simp
        · cases hs
      · split at hs
        · rcases hs with hs | hs
          · cases hs
          · cases hs; simp
        · split at hs
          · rcases hs with hs | hs
            · cases hs
            · cases hs; simp
          · have := ih _ (by subst hn; simp [hr]) ((l.next).1.atEOL).1 rfl l' hs
            simpa using this

theorem Wf.skipBlanks {input : List Rune} {l : L} (h : Wf input l) (hws : ∀ r ∈ l.tokRev, isSpace r = true) :
    Wf input (skipBlanks l) ∧ ∀ r ∈ (skipBlanks l).tokRev, isSpace r = true := by
  induction hn : l.right.length using Nat.strongRecOn generalizing l with
  | _ n ih =>
    unfold Spok.skipBlanks
    split
    · rw [L.peek_eq h]; exact ⟨h.setW _, hws⟩
    · rename_i r rs hr
      split
      · rename_i hb
        have hsp : isSpace r = true := by
          simp only [Bool.or_eq_true, beq_iff_eq] at hb
          rcases hb with hb | hb
          · exact isSpace_of_cp hb isSpaceCp_SP
          · exact isSpace_of_cp hb isSpaceCp_TAB
        have hr' : (l.peek).1.right = r :: rs := by simp [hr]
        refine ih _ (by subst hn; simp [hr]) h.peek.next ?_ rfl
        rw [L.next_tokRev_cons hr', L.peek_eq h]
        intro x hx
        simp only [List.mem_cons, L.setW_tokRev] at hx
        rcases hx with rfl | hx
        · exact hsp
        · exact hws x hx
      · rw [L.peek_eq h]; exact ⟨h.setW _, hws⟩

theorem Wf.stripCR {input : List Rune} {l : L} (h : Wf input l) : Wf input (stripCR l) := by
  induction hn : l.tokRev.length using Nat.strongRecOn generalizing l with
  | _ n ih =>
    unfold Spok.stripCR
    split
    · rename_i hc
      have hlt : l.stepBack.tokRev.length < l.tokRev.length := by
        unfold L.lastIs at hc
        split at hc
        · rename_i h1 h2; simp [L.stepBack, h1, h2]
        · cases hc
      exact ih _ (by subst hn; exact hlt) (h.stepBack CR hc (by omega) (by omega)) rfl
    · exact h

end Spok
