import Spok.Lemmas.RT.Paren
/-! # Round trip: lexing an assignment (`LexStmtSpec Node.isAssign`): string, builtin call, identifier -/
set_option linter.unusedSimpArgs false
namespace Spok
namespace RT

theorem ident_of_cp {r : Rune} {c : Nat} (h : r.cp = c) (hc : identCp c = true) : isIdent r = true := by
  rw [isIdent_eq, h, hc]

/-- a name that does not begin with `task`, followed by something that is not an identifier rune, is not read as
    the keyword -/
theorem not_kw_of_kwPrefix {n X : List Rune} (hne : n ≠ []) (hk : kwPrefix n = false) (hX : Stops isIdent X) :
    ((n ++ X).take 4).map (·.cp) ≠ [116, 97, 115, 107] := by
  intro h
  have hx : ∀ x xs, X = x :: xs → x.cp ≠ 97 ∧ x.cp ≠ 115 ∧ x.cp ≠ 107 := by
    intro x xs hX'
    have := hX x (by rw [hX']; rfl)
    refine ⟨fun he => ?_, fun he => ?_, fun he => ?_⟩ <;>
    · rw [ident_of_cp he (by decide)] at this; cases this
  match n, hne, hk with
  | [a], _, _ =>
    cases X with
    | nil => simp at h
    | cons x xs => simp at h; exact (hx x xs rfl).1 h.2.1
  | [a, b], _, _ =>
    cases X with
    | nil => simp at h
    | cons x xs => simp at h; exact (hx x xs rfl).2.1 h.2.2.1
  | [a, b, c], _, _ =>
    cases X with
    | nil => simp at h
    | cons x xs => simp at h; exact (hx x xs rfl).2.2 h.2.2.2
  | a :: b :: c :: d :: n', _, hk =>
    simp [kwPrefix] at hk h
    exact hk h.1 h.2.1 h.2.2.1 h.2.2.2

theorem parenText_head {args : List Arg} {p : List Rune} (h : ParenText args p) : ∃ p', p = asc LPAREN :: p' := by
  cases h with
  | empty ws _ => exact ⟨_, rfl⟩
  | items ws args body _ _ => exact ⟨_, rfl⟩


/-- the name, the white space after it, and `:=` ahead: from a statement boundary to state `declare` -/
theorem goes_assign_head {n ws1 : List Rune} (hne : n ≠ []) (hn : IdentRunes n) (hk : kwPrefix n = false) (hw1 : Ws ws1)
    {l : L} {t : Tag} {V : List Rune} (hat : AtStmt l t (n ++ ws1 ++ asc COLON :: asc EQUALS :: V)) :
    Goes l t .declare (asc COLON :: asc EQUALS :: V) [] [(.ident, n)] := by
  cases n with
  | nil => exact absurd rfl hne
  | cons r n' =>
    have hX : Stops isIdent (ws1 ++ asc COLON :: asc EQUALS :: V) := stops_ident_ws_append hw1 (Stops.cons (by simp) _)
    have hkw := not_kw_of_kwPrefix (X := ws1 ++ asc COLON :: asc EQUALS :: V) hne hk hX
    have h1 := goes_enter_ident (l := l) (t := t) (r := r) (more := n' ++ ws1 ++ asc COLON :: asc EQUALS :: V)
      (by simpa using hat) (hn r (by simp)) (by simpa using hkw)
    have hT : identTag (asc COLON :: asc EQUALS :: V) = .declare := by simp [identTag, declAhead]
    have key : ∀ l1 : L, l1.right = n' ++ ws1 ++ asc COLON :: asc EQUALS :: V → l1.tokRev = [r] →
        Goes l1 .ident .declare (asc COLON :: asc EQUALS :: V) [] [(.ident, r :: n')] := by
      intro l1 hr1 hk1
      have := goes_lexIdent (l := l1) (n := n') (ws := ws1) (after := asc COLON :: asc EQUALS :: V) hr1
        (fun x hx => hn x (by simp [hx])) hw1 (Stops.cons (by simp) _) (Stops.cons (by simp) _) (by rw [hT]; simp)
      exact this.cast hT rfl rfl (by simp [hk1])
    exact (h1.trans key).cast rfl rfl rfl (by simp)

theorem ws_takeWhile (xs : List Rune) : Ws (xs.takeWhile isSpace) := by
  induction xs with
  | nil => exact ws_nil
  | cons x xs ih =>
    simp only [List.takeWhile_cons]
    split
    · rename_i hx
      intro r hr
      rcases List.mem_cons.mp hr with rfl | hr
      · exact hx
      · exact ih r hr
    · exact ws_nil

/-- where `lexRightParen` goes after a builtin call, and that this is a statement boundary -/
theorem rparenTag_nextStmt {rest : List Rune} (h : NextStmtOK rest) :
    rparenTag (rest.dropWhile isSpace) ≠ .done ∧
    ∀ l' : L, l'.tokRev = [] → l'.right = rest.dropWhile isSpace → AtStmt l' (rparenTag (rest.dropWhile isSpace)) rest := by
  unfold NextStmtOK at h
  cases hd : rest.dropWhile isSpace with
  | nil =>
    refine ⟨by simp [rparenTag], fun l' hk hr => ⟨hk, Or.inl ⟨by simp [rparenTag], ?_⟩⟩⟩
    rw [hr, hd]; rfl
  | cons r rs =>
    rw [hd] at h
    simp only [] at h
    rcases h with h | h
    · have h1 : r.cp ≠ LBRACE := cp_ne_of_ident h (by simp)
      have h2 : r.cp ≠ MINUS := cp_ne_of_ident h (by simp)
      have hT : rparenTag (r :: rs) = .start := by simp [rparenTag, arrowAhead, h1, h2, h]
      refine ⟨by simp [hT], fun l' hk hr => ⟨hk, Or.inl ⟨hT, ?_⟩⟩⟩
      rw [hr, ← hd, dropWhile_idem]
    · have hi : isIdent r = false := not_ident_of_cp h (by simp)
      have hT : rparenTag (r :: rs) = .hash := by simp [rparenTag, arrowAhead, h, hi]
      refine ⟨by simp [hT], fun l' hk hr => ⟨hk, Or.inr ⟨hT, hr.trans hd.symm, r, rs, hr, h⟩⟩⟩

end RT

open RT in
/-- an assignment: `name := "string"`, `name := builtin(args…)`, `name := other` -/
theorem lexStmt_assign : LexStmtSpec Node.isAssign := by
  intro node txt rest hP hst l t hat
  cases hst with
  | comment => exact hP.elim
  | task => exact hP.elim
  | assignStr n ws1 ws2 s b e rest hne hn hkw hw1 hw2 hs hb he =>
    have h1 := goes_assign_head (l := l) (t := t) (V := ws2 ++ asc QUOTE :: s ++ asc QUOTE :: b ++ e ++ rest)
      hne hn hkw hw1 (by simpa using hat)
    have h2 := h1.trans (fun l1 hr1 _ => goes_lexDeclare_string (l := l1) (c1 := asc COLON) (c2 := asc EQUALS)
      (r := asc QUOTE) (ws := ws2) (rs := s ++ asc QUOTE :: b ++ e ++ rest) (by simpa using hr1) (by simp) hw2 rfl)
    have ht : e ++ rest = [] ∨ startsEol (e ++ rest) = true := by
      rcases he with he | ⟨rfl, rfl⟩
      · exact Or.inr (eol_startsEol he rest)
      · exact Or.inl rfl
    have key : ∀ l2 : L, l2.right = s ++ asc QUOTE :: b ++ e ++ rest → l2.tokRev = [asc QUOTE] →
        Goes l2 .declString .start (e ++ rest) [] [(.string, asc QUOTE :: s ++ [asc QUOTE])] := by
      intro l2 hr2 hk2
      have := goes_lexDeclString (l := l2) (s := s) (b := b) (tail := e ++ rest) (q := asc QUOTE) (by simpa using hr2)
        hs rfl hb ht
      exact this.cast rfl rfl rfl (by simp [hk2])
    obtain ⟨l', hR, hr', hk', hv'⟩ := h2.trans key
    have hwe : Ws e := by
      rcases he with he | ⟨rfl, _⟩
      · exact eol_ws he
      · exact ws_nil
    exact ⟨l', .start, hR, atStmt_start hk' hr' hwe, _, rfl, by simpa [vDeclare] using hv'⟩
  | assignCall n ws1 ws2 f ws3 args p rest hne hn hkw hw1 hw2 hfne hf hw3 hp hnext =>
    cases f with
    | nil => exact absurd rfl hfne
    | cons f0 f' =>
      obtain ⟨p', rfl⟩ := parenText_head hp
      obtain ⟨iv, hiv, hgo⟩ := goes_paren hp
      obtain ⟨hTne, hexit⟩ := rparenTag_nextStmt hnext
      have h1 := goes_assign_head (l := l) (t := t) (V := ws2 ++ f0 :: f' ++ ws3 ++ asc LPAREN :: p' ++ rest)
        hne hn hkw hw1 (by simpa using hat)
      have h2 := h1.trans (fun l1 hr1 _ => goes_lexDeclare_ident (l := l1) (c1 := asc COLON) (c2 := asc EQUALS)
        (r := f0) (ws := ws2) (rs := f' ++ ws3 ++ asc LPAREN :: p' ++ rest) (by simpa using hr1) (by simp) hw2
        (hf f0 (by simp)))
      have hT : identTag (asc LPAREN :: p' ++ rest) = .leftParen := by simp [identTag]
      have key : ∀ l2 : L, l2.right = f' ++ ws3 ++ asc LPAREN :: p' ++ rest → l2.tokRev = [f0] →
          Goes l2 .ident .leftParen (asc LPAREN :: p' ++ rest) [] [(.ident, f0 :: f')] := by
        intro l2 hr2 hk2
        have := goes_lexIdent (l := l2) (n := f') (ws := ws3) (after := asc LPAREN :: p' ++ rest) (by simpa using hr2)
          (fun x hx => hf x (by simp [hx])) hw3 (Stops.cons (by simp) _) (Stops.cons (by simp) _) (by rw [hT]; simp)
        exact this.cast hT rfl rfl (by simp [hk2])
      have h3 := h2.trans key
      have h4 := h3.trans (fun l3 hr3 hk3 => hgo (l := l3) (rest := rest) hk3 (by simpa using hr3))
      have h5 := h4.trans (fun l4 hr4 hk4 => goes_lexRightParen (l := l4) (r := asc RPAREN)
        (ws := rest.takeWhile isSpace) (after := rest.dropWhile isSpace)
        (by rw [hr4]; simp [List.takeWhile_append_dropWhile]) hk4
        (ws_takeWhile rest) (stops_dropWhile _ _) hTne)
      obtain ⟨l', hR, hr', hk', hv'⟩ := h5
      refine ⟨l', _, hR, hexit l' hk' hr', _, ⟨vLParen :: iv ++ [vRParen], ?_, rfl⟩, ?_⟩
      · rcases hiv with ⟨rfl, rfl⟩ | hiv
        · exact Or.inl ⟨rfl, rfl⟩
        · exact Or.inr ⟨iv, hiv, rfl⟩
      · simpa [vDeclare, vRParen] using hv'
  | assignIdent n ws1 ws2 v ws3 hne hn hkw hw1 hw2 hvne hv hw3 =>
    cases v with
    | nil => exact absurd rfl hvne
    | cons v0 v' =>
      have h1 := goes_assign_head (l := l) (t := t) (V := ws2 ++ v0 :: v' ++ ws3)
        hne hn hkw hw1 (by simpa using hat)
      have h2 := h1.trans (fun l1 hr1 _ => goes_lexDeclare_ident (l := l1) (c1 := asc COLON) (c2 := asc EQUALS)
        (r := v0) (ws := ws2) (rs := v' ++ ws3) (by simpa using hr1) (by simp) hw2 (hv v0 (by simp)))
      have key : ∀ l2 : L, l2.right = v' ++ ws3 → l2.tokRev = [v0] →
          Goes l2 .ident .start [] [] [(.ident, v0 :: v')] := by
        intro l2 hr2 hk2
        have := goes_lexIdent (l := l2) (n := v') (ws := ws3) (after := []) (by simpa using hr2)
          (fun x hx => hv x (by simp [hx])) hw3 (Stops.nil _) (Stops.nil _) (by simp [identTag])
        exact this.cast (by simp [identTag]) rfl rfl (by simp [hk2])
      obtain ⟨l', hR, hr', hk', hv'⟩ := h2.trans key
      exact ⟨l', .start, hR, atStmt_start (ws := []) hk' (by simpa using hr') ws_nil, _, rfl,
        by simpa [vDeclare] using hv'⟩

end Spok
