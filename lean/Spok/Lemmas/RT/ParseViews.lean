import Spok.Lemmas.RT.Defs
/-! # Round trip: the parser on token lists whose views are known

The parser only looks at `Tok.ty` and `Tok.val` on its success paths.  So for a token list `ts` with
`ts.map view = vs` and `vs` one of the shapes of `Lemmas/RT/Defs.lean` (`ItemViews`, `ParenViews`,
`OutsViews`, `StmtViews`) the parse functions return the structure the views were made from.

One hypothesis is needed that the view relations do not carry: a string argument `.str s` is recovered
from its token `"s"` by `stripQuotes`, which removes *every* quote; so `s` itself must not contain one
(`Arg.NQ`, `Node.NQ`; it follows from `StrOK s`, see `Assemble.lean`). -/
namespace Spok

/-! ## quote-freeness -/

def Arg.NQ : Arg → Prop
  | .str s => ∀ r ∈ s, r.cp ≠ QUOTE
  | .ident _ => True

def ArgsNQ (as : List Arg) : Prop := ∀ a ∈ as, a.NQ

def Val.NQ : Val → Prop
  | .str s => ∀ r ∈ s, r.cp ≠ QUOTE
  | .ident _ => True
  | .call _ args => ArgsNQ args

def Node.NQ : Node → Prop
  | .comment _ => True
  | .assign _ v => v.NQ
  | .task _ _ deps outs _ => ArgsNQ deps ∧ ArgsNQ outs

theorem ArgsNQ.head {a : Arg} {as : List Arg} (h : ArgsNQ (a :: as)) : a.NQ := h a (by simp)
theorem ArgsNQ.tail {a : Arg} {as : List Arg} (h : ArgsNQ (a :: as)) : ArgsNQ as :=
  fun b hb => h b (by simp [hb])

theorem stripQuotes_quoted {s : List Rune} (h : ∀ r ∈ s, r.cp ≠ QUOTE) :
    stripQuotes (asc QUOTE :: s ++ [asc QUOTE]) = s := by
  have h1 : s.filter (fun r => r.cp != QUOTE) = s := by
    rw [List.filter_eq_self]; intro r hr; simpa using h r hr
  simp [stripQuotes, List.filter_append, asc, h1]

theorem stripQuotes_quoted' {s : List Rune} (h : ∀ r ∈ s, r.cp ≠ QUOTE) :
    stripQuotes (asc QUOTE :: (s ++ [asc QUOTE])) = s := stripQuotes_quoted h

/-! ## destructuring a token list by its views -/

theorem map_view_cons {ts : List Tok} {v : View} {vs : List View} (h : ts.map view = v :: vs) :
    ∃ t ts', ts = t :: ts' ∧ t.ty = v.1 ∧ t.val = v.2 ∧ ts'.map view = vs := by
  cases ts with
  | nil => simp at h
  | cons t ts' =>
    simp only [List.map_cons, List.cons.injEq] at h
    refine ⟨t, ts', rfl, ?_, ?_, h.2⟩
    · rw [← h.1]; rfl
    · rw [← h.1]; rfl

theorem map_view_nil {ts : List Tok} (h : ts.map view = []) : ts = [] := by simpa using h

theorem map_view_append {ts : List Tok} {a b : List View} (h : ts.map view = a ++ b) :
    ∃ ta tb, ts = ta ++ tb ∧ ta.map view = a ∧ tb.map view = b := by
  rw [List.map_eq_append_iff] at h
  exact h

/-! ## argument lists -/

theorem parseArgList_rparen (c : PCtx) {t : Tok} (ht : t.ty = .rparen) (ts : List Tok) (acc : List Arg) :
    parseArgList c (t :: ts) acc = .ok (acc.reverse, ts) := by
  simp only [parseArgList, ht]

theorem parseArgList_comma (c : PCtx) {t : Tok} (ht : t.ty = .comma) (ts : List Tok) (acc : List Arg) :
    parseArgList c (t :: ts) acc = parseArgList c ts acc := by
  simp only [parseArgList, ht]

theorem parseArgList_arg (c : PCtx) {a : Arg} (ha : a.NQ) {t : Tok} (hty : t.ty = (argView a).1)
    (hval : t.val = (argView a).2) (ts : List Tok) (acc : List Arg) :
    parseArgList c (t :: ts) acc = parseArgList c ts (a :: acc) := by
  cases a with
  | str s =>
    simp only [argView] at hty hval
    simp only [parseArgList, hty, hval, stripQuotes_quoted ha]
  | ident n =>
    simp only [argView] at hty hval
    simp only [parseArgList, hty, hval]

/-- the items of an argument list followed by the closing parenthesis -/
theorem parseArgList_items (c : PCtx) {args : List Arg} {iv : List View} (h : ItemViews args iv) :
    ArgsNQ args → ∀ (items : List Tok) (tR : Tok) (rest : List Tok) (acc : List Arg),
    items.map view = iv → tR.ty = .rparen →
    parseArgList c (items ++ tR :: rest) acc = .ok (acc.reverse ++ args, rest) := by
  induction h with
  | last a =>
    intro hq items tR rest acc hv hR
    obtain ⟨t, ts', rfl, hty, hval, hv'⟩ := map_view_cons hv
    cases map_view_nil hv'
    simp only [List.cons_append, List.nil_append]
    rw [parseArgList_arg c hq.head hty hval, parseArgList_rparen c hR]
    simp
  | lastComma a =>
    intro hq items tR rest acc hv hR
    obtain ⟨t, ts', rfl, hty, hval, hv'⟩ := map_view_cons hv
    obtain ⟨t2, ts'', rfl, hty2, _, hv''⟩ := map_view_cons hv'
    cases map_view_nil hv''
    simp only [List.cons_append, List.nil_append]
    rw [parseArgList_arg c hq.head hty hval, parseArgList_comma c (by simpa [vComma] using hty2),
      parseArgList_rparen c hR]
    simp
  | cons a as vs _ ih =>
    intro hq items tR rest acc hv hR
    obtain ⟨t, ts', rfl, hty, hval, hv'⟩ := map_view_cons hv
    obtain ⟨t2, ts'', rfl, hty2, _, hv''⟩ := map_view_cons hv'
    simp only [List.cons_append]
    rw [parseArgList_arg c hq.head hty hval, parseArgList_comma c (by simpa [vComma] using hty2),
      ih hq.tail ts'' tR rest (a :: acc) hv'' hR]
    simp

/-- `( … )`: the first token is the left parenthesis, and `parseArgList` on what follows it returns the
    arguments and stops behind the right parenthesis -/
theorem parse_paren (c : PCtx) {args : List Arg} {pv : List View} (h : ParenViews args pv) (hq : ArgsNQ args)
    (ts rest : List Tok) (hv : ts.map view = pv) :
    ∃ tL ts', ts = tL :: ts' ∧ tL.ty = .lparen ∧ parseArgList c (ts' ++ rest) [] = .ok (args, rest) := by
  rcases h with ⟨rfl, rfl⟩ | ⟨iv, hi, rfl⟩
  · obtain ⟨tL, ts', rfl, hty, _, hv'⟩ := map_view_cons hv
    obtain ⟨tR, ts'', rfl, hty2, _, hv''⟩ := map_view_cons hv'
    cases map_view_nil hv''
    refine ⟨tL, [tR], rfl, by simpa [vLParen] using hty, ?_⟩
    simp only [List.cons_append, List.nil_append]
    rw [parseArgList_rparen c (by simpa [vRParen] using hty2)]
    simp
  · obtain ⟨tL, ts', rfl, hty, _, hv'⟩ := map_view_cons hv
    obtain ⟨items, tb, rfl, hvi, hvb⟩ := map_view_append hv'
    obtain ⟨tR, ts'', rfl, hty2, _, hv''⟩ := map_view_cons hvb
    cases map_view_nil hv''
    refine ⟨tL, items ++ [tR], rfl, by simpa [vLParen] using hty, ?_⟩
    have := parseArgList_items c hi hq items tR rest [] hvi (by simpa [vRParen] using hty2)
    simpa using this

/-! ## the pieces of a task -/

theorem expect_ok (c : PCtx) {ty : TT} {t : Tok} (ht : t.ty = ty) (hne : ty ≠ .error) (ts : List Tok) :
    expect c ty (t :: ts) = .ok ts := by
  simp [expect, pnext, ht, hne]

/-- the output clause, followed by the `{` token (which is not consumed) -/
theorem parseOutputs_views (c : PCtx) {outs : List Arg} {ov : List View} (h : OutsViews outs ov) (hq : ArgsNQ outs)
    (ts : List Tok) (hv : ts.map view = ov) (tB : Tok) (htB : tB.ty = .lbrace) (rest : List Tok) :
    parseOutputs c (ts ++ tB :: rest) = .ok (outs, tB :: rest) := by
  rcases h with ⟨rfl, rfl⟩ | ⟨a, rfl, rfl⟩ | ⟨_, pv, hp, rfl⟩
  · cases map_view_nil hv
    simp [parseOutputs, htB]
  · obtain ⟨tO, ts', rfl, hty, _, hv'⟩ := map_view_cons hv
    obtain ⟨tA, ts'', rfl, hty2, hval2, hv''⟩ := map_view_cons hv'
    cases map_view_nil hv''
    have hO : tO.ty = .output := by simpa [vOutput] using hty
    have ha := hq.head
    cases a with
    | str s =>
      simp only [argView] at hty2 hval2
      simp [parseOutputs, hO, pnext, hty2, hval2, stripQuotes_quoted' ha]
    | ident n =>
      simp only [argView] at hty2 hval2
      simp [parseOutputs, hO, pnext, hty2, hval2]
  · obtain ⟨tO, ts', rfl, hty, _, hv'⟩ := map_view_cons hv
    have hO : tO.ty = .output := by simpa [vOutput] using hty
    obtain ⟨tL, ts'', rfl, hL, hpa⟩ := parse_paren c hp hq ts' (tB :: rest) hv'
    simp [parseOutputs, hO, pnext, hL, hpa]

/-- the command tokens of a body, followed by the `}` token -/
theorem parseCommands_views (c : PCtx) : ∀ (cmds : List (List Rune)) (ts : List Tok),
    ts.map view = cmds.map (fun c => (TT.command, c)) → ∀ (tR : Tok), tR.ty = .rbrace →
    ∀ (rest : List Tok) (acc : List (List Rune)),
    parseCommands c (ts ++ tR :: rest) acc = .ok (acc.reverse ++ cmds, rest) := by
  intro cmds
  induction cmds with
  | nil =>
    intro ts hv tR hR rest acc
    cases map_view_nil hv
    simp [parseCommands, hR]
  | cons cm cmds ih =>
    intro ts hv tR hR rest acc
    obtain ⟨t, ts', rfl, hty, hval, hv'⟩ := map_view_cons hv
    simp only [List.cons_append]
    simp only [] at hty hval
    rw [parseCommands]
    simp only [hty, hval]
    rw [ih ts' hv' tR hR rest (cm :: acc)]
    simp

/-- a task from its name token on (the `task` keyword has been consumed) -/
theorem parseTask_views (c : PCtx) (doc : List Rune) {name : List Rune} {deps outs : List Arg} {cmds : List (List Rune)}
    {pv ov : List View} (hp : ParenViews deps pv) (ho : OutsViews outs ov) (hqd : ArgsNQ deps) (hqo : ArgsNQ outs)
    (ts : List Tok)
    (hv : ts.map view = (.ident, name) :: pv ++ ov ++ vLBrace :: cmds.map (fun c => (TT.command, c)) ++ [vRBrace])
    (rest : List Tok) :
    parseTask c doc (ts ++ rest) = .ok (.task name doc deps outs cmds, rest) := by
  have hv1 : ts.map view = (.ident, name) :: (pv ++ (ov ++ (vLBrace :: (cmds.map (fun c => (TT.command, c)) ++ [vRBrace])))) := by
    rw [hv]; simp
  obtain ⟨tN, ts1, rfl, _, hname, hv2⟩ := map_view_cons hv1
  obtain ⟨tp, ts2, rfl, hvp, hv3⟩ := map_view_append hv2
  obtain ⟨to, ts3, rfl, hvo, hv4⟩ := map_view_append hv3
  obtain ⟨tB, ts4, rfl, htB, _, hv5⟩ := map_view_cons hv4
  obtain ⟨tc, ts5, rfl, hvc, hv6⟩ := map_view_append hv5
  obtain ⟨tR, ts6, rfl, htR, _, hv7⟩ := map_view_cons hv6
  cases map_view_nil hv7
  have hB : tB.ty = .lbrace := by simpa [vLBrace] using htB
  have hR : tR.ty = .rbrace := by simpa [vRBrace] using htR
  obtain ⟨tL, tp', rfl, hL, hpa⟩ := parse_paren c hp hqd tp (to ++ tB :: (tc ++ tR :: rest)) hvp
  have hout := parseOutputs_views c ho hqo to hvo tB hB (tc ++ tR :: rest)
  have hcm := parseCommands_views c cmds tc hvc tR hR rest []
  have e1 : (tN :: (tL :: tp' ++ (to ++ tB :: (tc ++ [tR])))) ++ rest
      = tN :: tL :: (tp' ++ (to ++ tB :: (tc ++ tR :: rest))) := by simp
  rw [e1]
  simp only [parseTask, pnext, expect_ok c hL (by decide), hpa, hout, expect_ok c hB (by decide), hcm]
  simp only [] at hname
  simp [hname]

/-! ## assignments -/

theorem parseAssign_str (c : PCtx) (id : Tok) {s : List Rune} (hs : ∀ r ∈ s, r.cp ≠ QUOTE) (ts : List Tok)
    (hv : ts.map view = [vDeclare, (.string, asc QUOTE :: s ++ [asc QUOTE])]) (rest : List Tok) :
    parseAssign c id (ts ++ rest) = .ok (.assign id.val (.str s), rest) := by
  obtain ⟨tD, ts1, rfl, hD, _, hv1⟩ := map_view_cons hv
  obtain ⟨tS, ts2, rfl, hS, hval, hv2⟩ := map_view_cons hv1
  cases map_view_nil hv2
  have hD' : tD.ty = .declare := by simpa [vDeclare] using hD
  simp only [] at hS hval
  simp [parseAssign, expect_ok c hD' (by decide), pnext, hS, hval, stripQuotes_quoted' hs]

theorem parseAssign_call (c : PCtx) (id : Tok) {f : List Rune} {args : List Arg} {pv : List View}
    (hp : ParenViews args pv) (hq : ArgsNQ args) (ts : List Tok)
    (hv : ts.map view = vDeclare :: (.ident, f) :: pv) (rest : List Tok) :
    parseAssign c id (ts ++ rest) = .ok (.assign id.val (.call f args), rest) := by
  obtain ⟨tD, ts1, rfl, hD, _, hv1⟩ := map_view_cons hv
  obtain ⟨tF, ts2, rfl, hF, hval, hv2⟩ := map_view_cons hv1
  have hD' : tD.ty = .declare := by simpa [vDeclare] using hD
  obtain ⟨tL, tp', rfl, hL, hpa⟩ := parse_paren c hp hq ts2 rest hv2
  simp only [] at hF hval
  simp [parseAssign, expect_ok c hD' (by decide), pnext, hF, hval, hL, hpa]

/-- `NAME := OTHER`: what follows is not a left parenthesis -/
theorem parseAssign_ident (c : PCtx) (id : Tok) {v : List Rune} (ts : List Tok)
    (hv : ts.map view = [vDeclare, (.ident, v)]) (rest : List Tok)
    (hrest : ∀ t tl, rest = t :: tl → t.ty ≠ .lparen) :
    parseAssign c id (ts ++ rest) = .ok (.assign id.val (.ident v), rest) := by
  obtain ⟨tD, ts1, rfl, hD, _, hv1⟩ := map_view_cons hv
  obtain ⟨tV, ts2, rfl, hV, hval, hv2⟩ := map_view_cons hv1
  cases map_view_nil hv2
  have hD' : tD.ty = .declare := by simpa [vDeclare] using hD
  simp only [] at hV hval
  cases rest with
  | nil => simp [parseAssign, expect_ok c hD' (by decide), pnext, hV, hval]
  | cons t tl =>
    have := hrest t tl rfl
    simp [parseAssign, expect_ok c hD' (by decide), pnext, hV, hval, this]

/-! ## one statement = one iteration of `parseLoop` -/

/-- what may follow the tokens of `node`: nothing, or a token that begins a statement or ends the file;
    and after a comment with text, not the `task` keyword (the comment would be read as a docstring) -/
def NextOK (node : Node) (next : List Tok) : Prop :=
  (∀ t tl, next = t :: tl → t.ty = .hash ∨ t.ty = .ident ∨ t.ty = .task ∨ t.ty = .eof) ∧
  (node.isNonEmptyComment = true → ∀ t tl, next = t :: tl → t.ty ≠ .task)

theorem parseLoop_stmt (c : PCtx) (node : Node) (vs : List View) (hs : StmtViews node vs) (hq : node.NQ)
    (ts next : List Tok) (hv : ts.map view = vs) (hn : NextOK node next) (fuel : Nat) (acc : List Node) :
    parseLoop c (fuel + 1) (ts ++ next) acc = parseLoop c fuel next (node :: acc) := by
  cases node with
  | comment cm =>
    simp only [StmtViews] at hs
    subst hs
    obtain ⟨tH, ts1, rfl, hH, _, hv1⟩ := map_view_cons hv
    obtain ⟨tC, ts2, rfl, _, hval, hv2⟩ := map_view_cons hv1
    cases map_view_nil hv2
    have hH' : tH.ty = .hash := by simpa [vHash] using hH
    simp only [] at hval
    cases next with
    | nil => simp [parseLoop, hH', pnext, hval]
    | cons n tl =>
      by_cases hc : cm = []
      · subst hc
        simp [parseLoop, hH', pnext, hval]
      · have : n.ty ≠ .task := hn.2 (by simp [Node.isNonEmptyComment, hc]) n tl rfl
        simp [parseLoop, hH', pnext, hval, this]
  | assign n v =>
    cases v with
    | str s =>
      simp only [StmtViews] at hs
      subst hs
      obtain ⟨tI, ts1, rfl, hI, hval, hv1⟩ := map_view_cons hv
      simp only [] at hI hval
      have := parseAssign_str c tI (s := s) hq ts1 hv1 next
      simp only [List.cons_append]
      rw [parseLoop]
      simp only [hI, this, hval]
    | ident w =>
      simp only [StmtViews] at hs
      subst hs
      obtain ⟨tI, ts1, rfl, hI, hval, hv1⟩ := map_view_cons hv
      simp only [] at hI hval
      have := parseAssign_ident c tI (v := w) ts1 hv1 next (by
        intro t tl h
        rcases hn.1 t tl h with h | h | h | h <;> simp [h])
      simp only [List.cons_append]
      rw [parseLoop]
      simp only [hI, this, hval]
    | call f args =>
      simp only [StmtViews] at hs
      obtain ⟨pv, hp, rfl⟩ := hs
      obtain ⟨tI, ts1, rfl, hI, hval, hv1⟩ := map_view_cons hv
      simp only [] at hI hval
      have := parseAssign_call c tI (f := f) hp hq ts1 hv1 next
      simp only [List.cons_append]
      rw [parseLoop]
      simp only [hI, this, hval]
  | task name doc deps outs cmds =>
    simp only [StmtViews] at hs
    obtain ⟨pv, ov, hp, ho, rfl⟩ := hs
    by_cases hd : doc = []
    · subst hd
      simp only [List.isEmpty_nil, if_true, List.nil_append] at hv
      obtain ⟨tT, ts1, rfl, hT, _, hv1⟩ := map_view_cons hv
      have hT' : tT.ty = .task := by simpa [vTask] using hT
      have := parseTask_views c [] hp ho hq.1 hq.2 ts1 (by simpa using hv1) next
      simp only [List.cons_append]
      rw [parseLoop]
      simp only [hT', this]
    · have hde : doc.isEmpty = false := by cases doc <;> simp_all
      simp only [hde, Bool.false_eq_true, if_false, List.cons_append, List.nil_append] at hv
      obtain ⟨tH, ts1, rfl, hH, _, hv1⟩ := map_view_cons hv
      obtain ⟨tC, ts2, rfl, _, hval, hv2⟩ := map_view_cons hv1
      obtain ⟨tT, ts3, rfl, hT, _, hv3⟩ := map_view_cons hv2
      have hH' : tH.ty = .hash := by simpa [vHash] using hH
      have hT' : tT.ty = .task := by simpa [vTask] using hT
      simp only [] at hval
      have := parseTask_views c doc hp ho hq.1 hq.2 ts3 (by simpa using hv3) next
      simp only [List.cons_append]
      rw [parseLoop]
      simp only [hH', pnext, hT', hval, hde, this]
      simp

/-! ## a whole file -/

/-- the tokens of a file: the statements' tokens, then EOF -/
inductive TreeViews : Tree → List View → Prop
  | nil : TreeViews [] [vEOF]
  | cons (node : Node) (vs : List View) (t : Tree) (rest : List View) : StmtViews node vs → node.NQ →
      TreeViews t rest →
      (node.isNonEmptyComment = true → ∀ n2, t.head? = some n2 → n2.isDoclessTask = false) →
      TreeViews (node :: t) (vs ++ rest)

/-- the first view of a statement -/
theorem StmtViews.head {node : Node} {vs : List View} (h : StmtViews node vs) :
    ∃ v tl, vs = v :: tl ∧ (v.1 = .hash ∨ v.1 = .ident ∨ (v.1 = .task ∧ node.isDoclessTask = true)) := by
  cases node with
  | comment cm => simp only [StmtViews] at h; subst h; exact ⟨_, _, rfl, Or.inl rfl⟩
  | assign n v =>
    cases v with
    | str s => simp only [StmtViews] at h; subst h; exact ⟨_, _, rfl, Or.inr (Or.inl rfl)⟩
    | ident w => simp only [StmtViews] at h; subst h; exact ⟨_, _, rfl, Or.inr (Or.inl rfl)⟩
    | call f args =>
      simp only [StmtViews] at h; obtain ⟨pv, _, rfl⟩ := h; exact ⟨_, _, rfl, Or.inr (Or.inl rfl)⟩
  | task name doc deps outs cmds =>
    simp only [StmtViews] at h
    obtain ⟨pv, ov, _, _, rfl⟩ := h
    cases doc with
    | nil => exact ⟨_, _, rfl, Or.inr (Or.inr ⟨rfl, rfl⟩)⟩
    | cons d ds => exact ⟨_, _, rfl, Or.inl rfl⟩

/-- the first view of a file -/
theorem TreeViews.head {t : Tree} {vs : List View} (h : TreeViews t vs) :
    ∃ v tl, vs = v :: tl ∧ (v.1 = .hash ∨ v.1 = .ident ∨ v.1 = .eof ∨
      (v.1 = .task ∧ ∃ n2, t.head? = some n2 ∧ n2.isDoclessTask = true)) := by
  cases h with
  | nil => exact ⟨_, _, rfl, Or.inr (Or.inr (Or.inl rfl))⟩
  | cons node vs t rest hs _ _ _ =>
    obtain ⟨v, tl, rfl, hv⟩ := hs.head
    refine ⟨v, tl ++ rest, rfl, ?_⟩
    rcases hv with h | h | ⟨h, hd⟩
    · exact Or.inl h
    · exact Or.inr (Or.inl h)
    · exact Or.inr (Or.inr (Or.inr ⟨h, node, rfl, hd⟩))

/-- the parser on the tokens of a file returns the tree, whatever fuel (at least the number of tokens)
    it is given -/
theorem parseLoop_tree (c : PCtx) {t : Tree} {vs : List View} (h : TreeViews t vs) :
    ∀ (toks : List Tok) (fuel : Nat) (acc : List Node), toks.map view = vs → toks.length ≤ fuel →
    parseLoop c fuel toks acc = (acc.reverse ++ t, none) := by
  induction h with
  | nil =>
    intro toks fuel acc hv hf
    obtain ⟨tE, ts1, rfl, hE, _, hv1⟩ := map_view_cons hv
    have hE' : tE.ty = .eof := by simpa [vEOF] using hE
    cases fuel with
    | zero => simp at hf
    | succ fuel => simp [parseLoop, hE']
  | cons node vs t rest hs hq ht hadj ih =>
    intro toks fuel acc hv hf
    obtain ⟨ts, next, rfl, hvs, hvn⟩ := map_view_append hv
    obtain ⟨v0, tl0, hvs0, _⟩ := hs.head
    have hlen : 1 ≤ ts.length := by
      have := congrArg List.length hvs
      rw [hvs0] at this; simp at this; omega
    cases fuel with
    | zero => rw [List.length_append] at hf; omega
    | succ fuel =>
      have hnext : NextOK node next := by
        obtain ⟨v, tl, hvt, hv1⟩ := ht.head
        rw [hvt] at hvn
        obtain ⟨tn, tn', rfl, hty, _, _⟩ := map_view_cons hvn
        constructor
        · intro t' tl' he
          cases he
          rcases hv1 with h | h | h | ⟨h, _⟩
          · exact Or.inl (hty.trans h)
          · exact Or.inr (Or.inl (hty.trans h))
          · exact Or.inr (Or.inr (Or.inr (hty.trans h)))
          · exact Or.inr (Or.inr (Or.inl (hty.trans h)))
        · intro hne t' tl' he
          cases he
          intro htask
          rcases hv1 with h | h | h | ⟨_, n2, hn2, hd⟩
          · rw [hty, h] at htask; cases htask
          · rw [hty, h] at htask; cases htask
          · rw [hty, h] at htask; cases htask
          · have := hadj hne n2 hn2
            rw [hd] at this; cases this
      rw [parseLoop_stmt c node vs hs hq ts next hvs hnext fuel acc]
      rw [ih next fuel (node :: acc) hvn (by rw [List.length_append] at hf; omega)]
      simp

/-- non-vacuity: `# h`, `x := "a"`, EOF -/
example (c : PCtx) :
    parseLoop c 6 [⟨.hash, [asc HASH], 0, 1, 0⟩, ⟨.comment, [asc 104], 1, 1, 0⟩, ⟨.ident, [asc 120], 3, 2, 0⟩,
      ⟨.declare, [asc COLON, asc EQUALS], 5, 2, 0⟩, ⟨.string, [asc QUOTE, asc 97, asc QUOTE], 8, 2, 0⟩, ⟨.eof, [], 11, 2, 0⟩] [] =
    ([.comment [asc 104], .assign [asc 120] (.str [asc 97])], none) := by
  have h : TreeViews [.comment [asc 104], .assign [asc 120] (.str [asc 97])]
      ([vHash, (.comment, [asc 104])] ++ ([(.ident, [asc 120]), vDeclare, (.string, asc QUOTE :: [asc 97] ++ [asc QUOTE])] ++ [vEOF])) :=
    TreeViews.cons _ _ _ _ rfl trivial
      (TreeViews.cons _ _ _ _ rfl (by intro r hr; simp at hr; subst hr; decide) TreeViews.nil (by intro h; cases h))
      (by intro _ n2 h2; cases h2; rfl)
  exact parseLoop_tree c h _ 6 [] rfl (by decide)

end Spok
