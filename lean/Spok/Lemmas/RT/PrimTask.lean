import Spok.Lemmas.RT.Defs
/-! # Round trip, task statements: effect of the lexer primitives on `left`, `right`, `tokRev`, `toks`

Views ignore offsets and line numbers, so only these four fields are followed.  (`backup` consults
`width`; it is only ever used directly after `next`, so the lemmas speak about `(l.next).1.backup`.) -/
namespace Spok.RTT

@[simp] theorem asc_cp (c : Nat) : (asc c).cp = c := rfl

/-! ## `next`, `backup`, `peek`, `atEOL` -/

theorem L.next_snd {l : L} {r : Rune} {rs : List Rune} (h : l.right = r :: rs) : (l.next).2 = r := by
  simp [L.next, h]
theorem L.next_left {l : L} {r : Rune} {rs : List Rune} (h : l.right = r :: rs) : (l.next).1.left = r :: l.left := by
  simp [L.next, h]
theorem L.next_tokRev {l : L} {r : Rune} {rs : List Rune} (h : l.right = r :: rs) :
    (l.next).1.tokRev = r :: l.tokRev := by
  simp [L.next, h]
@[simp] theorem L.next_toks (l : L) : (l.next).1.toks = l.toks := by
  unfold L.next; cases l.right <;> simp

@[simp] theorem L.next_backup_left (l : L) : ((l.next).1.backup).left = l.left := by
  unfold L.next L.backup
  cases h : l.right with
  | nil => simp
  | cons r rs => simp [Rune.w_ne_zero]
@[simp] theorem L.next_backup_tokRev (l : L) : ((l.next).1.backup).tokRev = l.tokRev := by
  unfold L.next L.backup
  cases h : l.right with
  | nil => simp
  | cons r rs => simp [Rune.w_ne_zero]
@[simp] theorem L.next_backup_toks (l : L) : ((l.next).1.backup).toks = l.toks := by
  unfold L.next L.backup
  cases h : l.right with
  | nil => simp
  | cons r rs => simp [Rune.w_ne_zero]

@[simp] theorem L.peek_fst (l : L) : (l.peek).1 = (l.next).1.backup := rfl
theorem L.peek_snd {l : L} {r : Rune} {rs : List Rune} (h : l.right = r :: rs) : (l.peek).2 = r := by
  rw [L.peek_rune, L.next_snd h]

theorem L.next_snd_eq (l : L) : (l.next).2 = l.right.headD eofRune := by
  unfold L.next; cases l.right <;> simp
theorem L.peek_snd_eq (l : L) : (l.peek).2 = l.right.headD eofRune := by
  rw [L.peek_rune, L.next_snd_eq]

@[simp] theorem L.atEOL_fst (l : L) : (l.atEOL).1 = (l.next).1.backup := rfl

theorem L.atEOL_snd (l : L) : (l.atEOL).2 = startsEol l.right := by
  show ((l.peek).2.cp == NL || (l.peek).1.hasPrefix [CR, NL]) = _
  unfold L.hasPrefix
  rw [L.peek_right]
  cases h : l.right with
  | nil =>
    rw [L.peek_rune, L.next_rune_nil h]
    simp [startsEol, eofRune]
  | cons r rs =>
    rw [L.peek_snd h]
    cases rs with
    | nil => simp [startsEol]
    | cons r2 rs2 => simp [startsEol]

/-! ## `absorb`, `emit`, `discard` -/

@[simp] theorem L.absorb_tokRev (l : L) (n : Nat) : (l.absorb n).tokRev = (l.right.take n).reverse ++ l.tokRev := by
  simp [L.absorb]
@[simp] theorem L.absorb_left (l : L) (n : Nat) : (l.absorb n).left = (l.right.take n).reverse ++ l.left := by
  simp [L.absorb]
@[simp] theorem L.absorb_toks (l : L) (n : Nat) : (l.absorb n).toks = l.toks := by simp [L.absorb]
@[simp] theorem L.emit_tokRev (l : L) (t : TT) : (l.emit t).tokRev = [] := by simp [L.emit]
@[simp] theorem L.emit_left (l : L) (t : TT) : (l.emit t).left = l.left := by simp [L.emit]
@[simp] theorem L.discard_tokRev (l : L) : (l.discard).tokRev = [] := by simp [L.discard]
@[simp] theorem L.discard_toks (l : L) : (l.discard).toks = l.toks := by simp [L.discard]

@[simp] theorem views_emit (l : L) (t : TT) : views (l.emit t) = views l ++ [(t, l.tokRev.reverse)] := by
  simp [views, L.emit, view]

@[simp] theorem views_absorb (l : L) (n : Nat) : views (l.absorb n) = views l := rfl

theorem views_congr {l l' : L} (h : l'.toks = l.toks) : views l' = views l := by simp [views, h]

/-! ## `skipWs` -/

@[simp] theorem skipWs_tokRev (l : L) : (skipWs l).tokRev = [] := by
  induction h : l.right.length using Nat.strongRecOn generalizing l with
  | _ n ih =>
    unfold skipWs
    split
    · simp
    · rename_i r rs hr
      split
      · exact ih _ (by subst h; simp [hr]) _ rfl
      · simp

@[simp] theorem skipWs_toks (l : L) : (skipWs l).toks = l.toks := by
  induction h : l.right.length using Nat.strongRecOn generalizing l with
  | _ n ih =>
    unfold skipWs
    split
    · simp
    · rename_i r rs hr
      split
      · rw [ih _ (by subst h; simp [hr]) _ rfl]; simp
      · simp

@[simp] theorem views_skipWs (l : L) : views (skipWs l) = views l := views_congr (skipWs_toks l)

/-- skipping whitespace `ws` in front of a text that begins with a non-space rune -/
theorem dropWhile_ws {ws : List Rune} (hws : Ws ws) {r : Rune} (hr : isSpace r = false) (rest : List Rune) :
    (ws ++ r :: rest).dropWhile isSpace = r :: rest := by
  rw [dropWhile_append_of_all _ _ _ hws]
  simp [hr]

theorem dropWhile_nonspace {r : Rune} (hr : isSpace r = false) (rest : List Rune) :
    (r :: rest).dropWhile isSpace = r :: rest := by
  simp [hr]

/-! ## `scanIdent` -/

@[simp] theorem scanIdent_toks (l : L) : (scanIdent l).toks = l.toks := by
  induction h : l.right.length using Nat.strongRecOn generalizing l with
  | _ n ih =>
    unfold scanIdent
    split
    · simp
    · rename_i r rs hr
      split
      · rw [ih _ (by subst h; simp [hr]) _ rfl]; simp
      · simp

/-- scanning an identifier `n` in front of a text that does not continue it -/
theorem scanIdent_spec (n : List Rune) (hn : IdentRunes n) (rest : List Rune)
    (hrest : ∀ r, rest.head? = some r → isIdent r = false) :
    ∀ (l : L), l.right = n ++ rest → (scanIdent l).right = rest ∧ (scanIdent l).tokRev = n.reverse ++ l.tokRev := by
  induction n with
  | nil =>
    intro l hl
    unfold scanIdent
    split
    · rename_i h; simp_all
    · rename_i r rs hr
      have hrr : rest = r :: rs := by simpa using hl.symm.trans hr
      have : isIdent r = false := hrest r (by simp [hrr])
      simp [this, hr, hrr]
  | cons a n ih =>
    intro l hl
    have ha : isIdent a = true := hn a (by simp)
    have hl' : l.right = a :: (n ++ rest) := by simpa using hl
    unfold scanIdent
    split
    · rename_i h; simp_all
    · rename_i r rs hr
      have hra : r = a ∧ rs = n ++ rest := by
        have := hr.symm.trans hl'; simpa using this
      obtain ⟨rfl, rfl⟩ := hra
      simp only [ha, if_true]
      have := ih (fun x hx => hn x (by simp [hx])) (l.next).1 (by rw [L.next_right, hr]; rfl)
      rw [this.1, this.2, L.next_tokRev hr]
      simp

/-! ## `stepBack`, `lastIs`, `stripCR` while the token is the text just before the cursor -/

theorem L.lastIs_of {l : L} {x : Rune} {ts lf : List Rune} (ht : l.tokRev = x :: ts) (hl : l.left = x :: lf) (c : Nat) :
    l.lastIs c = (x.cp == c) := by
  simp [L.lastIs, ht, hl]

theorem L.lastIs_nil {l : L} (ht : l.tokRev = []) (c : Nat) : l.lastIs c = false := by
  simp [L.lastIs, ht]

theorem L.stepBack_of {l : L} {x : Rune} {ts lf : List Rune} (ht : l.tokRev = x :: ts) (hl : l.left = x :: lf) :
    l.stepBack.tokRev = ts ∧ l.stepBack.left = lf ∧ l.stepBack.right = x :: l.right ∧ l.stepBack.toks = l.toks := by
  simp [L.stepBack, ht, hl]

/-- `stripCR` removes exactly the carriage returns `cr` at the end of the token when what precedes
    them (`tk`, reversed) does not end in one -/
theorem stripCR_spec (cr : List Rune) (hcr : ∀ r ∈ cr, r.cp = CR) (tk lf : List Rune)
    (htk : ∀ r, tk.head? = some r → r.cp ≠ CR) :
    ∀ (l : L), l.tokRev = cr ++ tk → l.left = cr ++ tk ++ lf →
      (stripCR l).tokRev = tk ∧ (stripCR l).left = tk ++ lf ∧ (stripCR l).right = cr.reverse ++ l.right ∧
      (stripCR l).toks = l.toks := by
  induction cr with
  | nil =>
    intro l ht hl
    have hno : l.lastIs CR = false := by
      cases htk' : tk with
      | nil => exact L.lastIs_nil (by simpa [htk'] using ht) _
      | cons x ts =>
        rw [L.lastIs_of (x := x) (ts := ts) (lf := ts ++ lf) (by simpa [htk'] using ht) (by simpa [htk'] using hl)]
        have := htk x (by simp [htk'])
        simpa using this
    unfold stripCR
    simp [hno]
    simpa using ⟨ht, hl⟩
  | cons x cr ih =>
    intro l ht hl
    have hx : x.cp = CR := hcr x (by simp)
    have ht' : l.tokRev = x :: (cr ++ tk) := by simpa using ht
    have hl' : l.left = x :: (cr ++ tk ++ lf) := by simpa using hl
    have hyes : l.lastIs CR = true := by rw [L.lastIs_of ht' hl']; simp [hx]
    obtain ⟨h1, h2, h3, h4⟩ := L.stepBack_of ht' hl'
    have := ih (fun r hr => hcr r (by simp [hr])) l.stepBack h1 h2
    unfold stripCR
    simp only [hyes, dif_pos]
    rw [this.1, this.2.1, this.2.2.1, this.2.2.2, h3, h4]
    simp

/-! ## `scanComment` -/

@[simp] theorem startsEol_nil : startsEol [] = false := rfl

/-- scanning a comment text `doc` in front of a line end (or the end of input) -/
theorem scanComment_spec (doc rest : List Rune)
    (hdoc : ∀ pre suf, doc = pre ++ suf → suf ≠ [] → startsEol (suf ++ rest) = false)
    (hrest : rest = [] ∨ startsEol rest = true) :
    ∀ (l : L), l.right = doc ++ rest →
      (scanComment l).right = rest ∧ (scanComment l).tokRev = doc.reverse ++ l.tokRev ∧ (scanComment l).toks = l.toks := by
  induction doc with
  | nil =>
    intro l hl
    have hl' : l.right = rest := by simpa using hl
    unfold scanComment
    split
    · rename_i h; simp [hl']
    · rename_i r rs hr
      have : startsEol rest = true := by
        rcases hrest with h | h
        · rw [h] at hl'; rw [hl'] at hr; cases hr
        · exact h
      simp [L.atEOL_snd, hl', this]
  | cons a doc ih =>
    intro l hl
    have hl' : l.right = a :: (doc ++ rest) := by simpa using hl
    have hne : startsEol (a :: (doc ++ rest)) = false := by
      have := hdoc [] (a :: doc) rfl (by simp); simpa using this
    unfold scanComment
    split
    · rename_i h; rw [h] at hl'; cases hl'
    · rename_i r rs hr
      have hm : ((l.atEOL).1).right = a :: (doc ++ rest) := by simp [hl']
      rw [L.atEOL_snd, hl', hne]
      simp only [Bool.false_eq_true, if_false]
      have := ih (fun pre suf h1 h2 => hdoc (a :: pre) suf (by simp [h1]) h2) ((l.atEOL).1.next).1
        (by rw [L.next_right, hm]; rfl)
      rw [this.1, this.2.1, this.2.2, L.next_tokRev hm]
      simp

/-! ## `scanString` -/

theorem startsEol_cons_of {r : Rune} (rs : List Rune) (h1 : r.cp ≠ NL) (h2 : r.cp ≠ CR) : startsEol (r :: rs) = false := by
  simp [startsEol, h1, h2]

/-- scanning a string body `s` and its closing quote (the opening quote has been consumed) -/
theorem scanString_spec (s rest : List Rune) (hq : ∀ r ∈ s, r.cp ≠ QUOTE) (hnl : ∀ r ∈ s.tail, r.cp ≠ NL) :
    ∀ (l : L), l.right = s ++ asc QUOTE :: rest →
      ∃ l', scanString l = .ok l' ∧ l'.right = rest ∧ l'.tokRev = asc QUOTE :: s.reverse ++ l.tokRev ∧ l'.toks = l.toks := by
  induction s with
  | nil =>
    intro l hl
    have hl' : l.right = asc QUOTE :: rest := by simpa using hl
    unfold scanString
    split
    · rename_i h; rw [h] at hl'; cases hl'
    · rename_i r rs hr
      obtain ⟨rfl, rfl⟩ : r = asc QUOTE ∧ rs = rest := by simpa using hr.symm.trans hl'
      simp only [asc_cp, beq_self_eq_true, if_true]
      exact ⟨_, rfl, by rw [L.next_right, hr]; rfl, by rw [L.next_tokRev hr]; simp, by simp⟩
  | cons a s ih =>
    intro l hl
    have hl' : l.right = a :: (s ++ asc QUOTE :: rest) := by simpa using hl
    have ha : a.cp ≠ QUOTE := hq a (by simp)
    unfold scanString
    split
    · rename_i h; rw [h] at hl'; cases hl'
    · rename_i r rs hr
      obtain ⟨rfl, rfl⟩ : r = a ∧ rs = s ++ asc QUOTE :: rest := by simpa using hr.symm.trans hl'
      have h1 : (l.next).1.right = s ++ asc QUOTE :: rest := by rw [L.next_right, hr]; rfl
      have hne : startsEol (s ++ asc QUOTE :: rest) = false := by
        cases s with
        | nil => simp [startsEol]
        | cons b s' =>
          have hb : b.cp ≠ NL := hnl b (by simp)
          cases s' with
          | nil => simp [startsEol, hb]
          | cons c s'' =>
            have hc : c.cp ≠ NL := hnl c (by simp)
            simp [startsEol, hb, hc]
      simp only [ha, beq_iff_eq, if_false, L.atEOL_snd, h1, hne]
      have hemp : (s ++ asc QUOTE :: rest).isEmpty = false := by simp
      simp only [hemp, Bool.false_eq_true, if_false]
      obtain ⟨l', h2, h3, h4, h5⟩ := ih (fun r hr => hq r (by simp [hr]))
        (fun r hr => hnl r (by simp; exact List.mem_of_mem_tail hr)) (((l.next).1.atEOL).1) (by simp [hr])
      refine ⟨l', h2, h3, ?_, ?_⟩
      · rw [h4]; simp [L.next_tokRev hr]
      · rw [h5]; simp

/-! ## character classes -/

theorem isSpaceCp_mem {c : Nat} (h : isSpaceCp c = true) :
    c ∈ [9, 10, 11, 12, 13, 32, 133, 160, 5760, 8192, 8193, 8194, 8195, 8196, 8197, 8198, 8199, 8200, 8201, 8202,
         8232, 8233, 8239, 8287, 12288] := by
  unfold isSpaceCp at h
  split at h
  · simp at h; simp; omega
  · simp [inTable, Generated.Unicode.space] at h; simp; omega

set_option maxRecDepth 100000 in
theorem space_not_letter_list :
    ∀ c ∈ [9, 10, 11, 12, 13, 32, 133, 160, 5760, 8192, 8193, 8194, 8195, 8196, 8197, 8198, 8199, 8200, 8201, 8202,
         8232, 8233, 8239, 8287, 12288], isLetterCp c = false := by decide +kernel

/-- whitespace runes are not identifier runes -/
theorem isIdent_of_isSpace {r : Rune} (h : isSpace r = true) : isIdent r = false := by
  have hm := isSpaceCp_mem h
  have hl := space_not_letter_list _ hm
  have h95 : r.cp ≠ 95 := by
    intro h'; rw [h'] at hm; simp at hm
  simp [isIdent, isLetter, hl, h95]

theorem isSpace_of_isIdent {r : Rune} (h : isIdent r = true) : isSpace r = false := by
  cases hs : isSpace r with
  | false => rfl
  | true => rw [isIdent_of_isSpace hs] at h; cases h

theorem isSpace_of_isLetter {r : Rune} (h : isLetter r = true) : isSpace r = false :=
  isSpace_of_isIdent (by simp [isIdent, h])

theorem isSpace_false_of_cp {r : Rune} {c : Nat} (h : r.cp = c) (hc : isSpaceCp c = false) : isSpace r = false := by
  simp [isSpace, h, hc]

theorem isIdent_false_of_cp {r : Rune} {c : Nat} (h : r.cp = c) (hc : (isLetterCp c || c == 95) = false) :
    isIdent r = false := by
  simp only [isIdent, isLetter, h]; exact hc

theorem isLetter_false_of_cp {r : Rune} {c : Nat} (h : r.cp = c) (hc : isLetterCp c = false) : isLetter r = false := by
  simp [isLetter, h, hc]

end Spok.RTT
