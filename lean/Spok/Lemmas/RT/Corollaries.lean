import Spok.Lemmas.RT.Format
/-! # Round trip: what follows from C06

Assuming `hC06 : ∀ t txt, Doc t txt → parseRunes txt = ⟨t, none⟩` (`C06_of_specs` in `Assemble.lean`
discharges it from the three lexing lemmas):

* `print_parse`: the formatter's output parses, without error, to the normalised tree;
* `sem_norm` (C07): normalisation does not change what the file does;
* `format_norm` (C11): formatting the normalised tree gives the same text — with `print_parse`, the
  formatter is idempotent (`format_idem`);
* `notes_norm` (C15): normalisation does not change comments (as shown) and docstrings. -/
namespace Spok

/-- print, then parse: the normalised tree, no error -/
theorem print_parse (hC06 : ∀ t txt, Doc t txt → parseRunes txt = ⟨t, none⟩) {t : Tree} (h : wfTree t = true) :
    parseRunes (format t) = ⟨norm t, none⟩ :=
  hC06 (norm t) (format t) (renders_format t h)

/-- C07: the normalised tree means the same -/
theorem sem_norm (t : Tree) : sem (norm t) = sem t := by
  simp only [sem, norm, List.filterMap_map]
  congr 1
  funext n
  cases n <;> rfl

theorem printComment_norm (L : Lits) (c : List Rune) : printComment L (normComment c) = printComment L c := by
  simp only [printComment, normComment_isEmpty, trimSpace_normComment]

theorem printNode_norm (L : Lits) (n : Node) : printNode L (normNode n) = printNode L n := by
  cases n with
  | comment c =>
    simp only [normNode, printNode, normComment_isEmpty, printComment_norm]
  | assign n v => rfl
  | task name doc deps outs cmds =>
    simp only [normNode, printNode, printComment_norm]

/-- C11 (tree form): the normalised tree is written out as the same text, for any literals -/
theorem printTree_norm (L : Lits) (t : Tree) : printTree L (norm t) = printTree L t := by
  simp only [printTree, norm, List.map_map]
  congr 1
  apply List.map_congr_left
  intro n _
  exact printNode_norm L n

theorem format_norm (t : Tree) : format (norm t) = format t := printTree_norm stdLits t

/-- normalisation is idempotent -/
theorem normComment_idem (c : List Rune) : normComment (normComment c) = normComment c := by
  cases c with
  | nil => rfl
  | cons a c =>
    have e : normComment (a :: c) = asc SP :: trimSpace (a :: c) := rfl
    rw [e]
    show asc SP :: trimSpace (asc SP :: trimSpace (a :: c)) = _
    rw [trimSpace_respell]

theorem norm_idem (t : Tree) : norm (norm t) = norm t := by
  simp only [norm, List.map_map]
  apply List.map_congr_left
  intro n _
  cases n <;> simp [normNode, normComment_idem]

/-- C15: the normalised tree documents the same -/
theorem notes_norm (t : Tree) : notes (norm t) = notes t := by
  simp only [notes, norm, List.filterMap_map]
  congr 1
  funext n
  cases n with
  | comment c => simp only [Function.comp, normNode, trimSpace_normComment]
  | assign n v => rfl
  | task name doc deps outs cmds => simp only [Function.comp, normNode, trimSpace_normComment]

/-- C11: formatting what the formatted text parses to gives the same text again -/
theorem format_idem (hC06 : ∀ t txt, Doc t txt → parseRunes txt = ⟨t, none⟩) {t : Tree} (h : wfTree t = true) :
    (parseRunes (format t)).fail = none ∧ format (parseRunes (format t)).tree = format t := by
  rw [print_parse hC06 h]
  exact ⟨rfl, format_norm t⟩

/-- C07: what the formatted text parses to means the same as the tree that was formatted -/
theorem format_sem (hC06 : ∀ t txt, Doc t txt → parseRunes txt = ⟨t, none⟩) {t : Tree} (h : wfTree t = true) :
    sem (parseRunes (format t)).tree = sem t := by
  rw [print_parse hC06 h]; exact sem_norm t

/-- C15: … and documents the same -/
theorem format_notes (hC06 : ∀ t txt, Doc t txt → parseRunes txt = ⟨t, none⟩) {t : Tree} (h : wfTree t = true) :
    notes (parseRunes (format t)).tree = notes t := by
  rw [print_parse hC06 h]; exact notes_norm t

end Spok
