import Spok.Lemmas.RT.ParseViews
import Spok.Lemmas.LexWfLoops
/-! # Round trip: assembling C06 from the three lexing lemmas

`C06_of_specs`: given the lexing lemmas for comments, assignments and tasks (`LexStmtSpec …`, proved
elsewhere), every admissible layout `Doc t txt` parses to exactly `t`.

Induction on `Doc`, generalised to an arbitrary lexer state at a statement boundary with arbitrary
tokens already emitted: the lexer reaches `.done` having emitted tokens whose views are
`vs₁ ++ vs₂ ++ … ++ [vEOF]` (`TreeViews`), on which the parser returns the tree (`parseLoop_tree`).

Helper lemmas live in `Spok.Asm` so as not to collide with the lexing files' own helpers. -/
namespace Spok
namespace Asm

/-! ## quote-freeness of what a layout spells -/

theorem argNQ {a : Arg} {txt : List Rune} (h : ArgText a txt) : a.NQ := by
  cases h with
  | str s hs => exact hs.1
  | ident n _ _ => trivial

theorem itemsNQ {args : List Arg} {txt : List Rune} (h : ItemsText args txt) : ArgsNQ args := by
  induction h with
  | last a txt ws ha _ => intro b hb; simp at hb; subst hb; exact argNQ ha
  | lastComma a txt ws ws2 ha _ _ => intro b hb; simp at hb; subst hb; exact argNQ ha
  | cons a txt ws ws2 as rest ha _ _ _ ih =>
    intro b hb
    simp at hb
    rcases hb with rfl | hb
    · exact argNQ ha
    · exact ih b hb

theorem parenNQ {args : List Arg} {p : List Rune} (h : ParenText args p) : ArgsNQ args := by
  cases h with
  | empty ws _ => intro b hb; cases hb
  | items ws args body _ hi => exact itemsNQ hi

theorem outsNQ {outs : List Arg} {o : List Rune} (h : OutsText outs o) : ArgsNQ outs := by
  cases h with
  | none ws _ => intro b hb; cases hb
  | single ws1 ws2 ws3 a txt _ _ ha _ => intro b hb; simp at hb; subst hb; exact argNQ ha
  | list ws1 ws2 ws3 args p _ _ _ _ hp => exact parenNQ hp

theorem stmtNQ {node : Node} {txt rest : List Rune} (h : StmtText node txt rest) : node.NQ := by
  cases h with
  | comment => trivial
  | assignStr n ws1 ws2 s b e rest _ _ _ _ _ hs _ _ => exact hs.1
  | assignCall n ws1 ws2 f ws3 args p rest _ _ _ _ _ _ _ _ hp _ => exact parenNQ hp
  | assignIdent => trivial
  | task doc d e ws0 ws1 name ws2 deps p outs o cmds b rest _ _ _ _ hp ho _ _ => exact ⟨parenNQ hp, outsNQ ho⟩

/-- every node is a comment, an assignment or a task -/
theorem node_cases (node : Node) : node.isComment ∨ node.isAssign ∨ node.isTask := by
  cases node with
  | comment => exact Or.inl trivial
  | assign => exact Or.inr (Or.inl trivial)
  | task => exact Or.inr (Or.inr trivial)

/-! ## the end of the input -/

theorem skipWs_toks (l : L) : (skipWs l).toks = l.toks := by
  induction h : l.right.length using Nat.strongRecOn generalizing l with
  | _ n ih =>
    unfold skipWs
    split
    · simp [L.discard]
    · rename_i r rs hr
      split
      · rw [ih _ (by subst h; simp [hr]) _ rfl]; simp
      · simp [L.discard]

theorem peek_nil {l : L} (h : l.right = []) : l.peek = ({ l with width := 0 }, eofRune) := by
  simp [L.peek, L.next, h, L.backup]

/-- at the end of the input (possibly after whitespace) `lexStart` emits EOF and stops -/
theorem lexStart_eof {l : L} (h : l.right.dropWhile isSpace = []) :
    ∃ l', lexStart l = (l', .done) ∧ views l' = views l ++ [vEOF] := by
  have hr : (skipWs l).right = [] := by rw [skipWs_right, h]
  have ht : (skipWs l).tokRev = [] := skipWs_tokRev l
  have hk : (skipWs l).toks = l.toks := skipWs_toks l
  refine ⟨{ skipWs l with width := 0 }.emit .eof, ?_, ?_⟩
  · unfold lexStart
    simp only [L.hasPrefix, hr, peek_nil hr, isIdent_eofRune, L.atEOF]
    simp
  · simp [views, L.emit, ht, hk, vEOF, view]

/-- leading whitespace does not matter at a statement boundary -/
theorem atStmt_skip {l : L} {tag : Tag} {ws txt : List Rune} (hws : Ws ws) (h : AtStmt l tag (ws ++ txt)) :
    AtStmt l tag txt := by
  unfold AtStmt at h ⊢
  rw [dropWhile_append_of_all isSpace ws txt hws] at h
  exact h

/-! ## lexing a whole file -/

theorem lex_doc (hc : LexStmtSpec Node.isComment) (ha : LexStmtSpec Node.isAssign) (ht : LexStmtSpec Node.isTask)
    {t : Tree} {txt : List Rune} (h : Doc t txt) :
    ∀ (l : L) (tag : Tag), AtStmt l tag txt →
    ∃ l', Reaches l tag l' .done ∧ ∃ vs, TreeViews t vs ∧ views l' = views l ++ vs := by
  induction h with
  | nil ws hws =>
    intro l tag hat
    obtain ⟨_, hat⟩ := hat
    have hnil : ws.dropWhile isSpace = [] := by
      have := dropWhile_append_of_all isSpace ws [] hws
      simpa using this
    rcases hat with ⟨rfl, hr⟩ | ⟨_, hr, r, tl, hr2, _⟩
    · rw [hnil] at hr
      obtain ⟨l', hl, hv⟩ := lexStart_eof hr
      exact ⟨l', Reaches.step (by decide) (by simpa [stepTag] using hl), [vEOF], TreeViews.nil, hv⟩
    · rw [hnil] at hr; rw [hr] at hr2; cases hr2
  | cons ws node txt t rest hws hst _ hadj ih =>
    intro l tag hat
    have hat' : AtStmt l tag (txt ++ rest) := by
      apply atStmt_skip hws
      simpa [List.append_assoc] using hat
    have hspec : ∃ l' t', Reaches l tag l' t' ∧ AtStmt l' t' rest ∧ ∃ vs, StmtViews node vs ∧ views l' = views l ++ vs := by
      rcases node_cases node with hn | hn | hn
      · exact hc node txt rest hn hst l tag hat'
      · exact ha node txt rest hn hst l tag hat'
      · exact ht node txt rest hn hst l tag hat'
    obtain ⟨l1, t1, hr1, hat1, vs, hvs, hv1⟩ := hspec
    obtain ⟨l2, hr2, vs2, htv, hv2⟩ := ih l1 t1 hat1
    refine ⟨l2, hr1.trans hr2, vs ++ vs2, TreeViews.cons node vs t vs2 hvs (stmtNQ hst) htv hadj, ?_⟩
    rw [hv2, hv1, List.append_assoc]

end Asm

/-- **C06 from the lexing lemmas**: a tree written out in any admissible layout is parsed back exactly -/
theorem C06_of_specs (hc : LexStmtSpec Node.isComment) (ha : LexStmtSpec Node.isAssign) (ht : LexStmtSpec Node.isTask) :
    ∀ (t : Tree) (txt : List Rune), Doc t txt → parseRunes txt = ⟨t, none⟩ := by
  intro t txt hdoc
  have hat : AtStmt (L.init txt) .start txt := ⟨rfl, Or.inl ⟨rfl, rfl⟩⟩
  obtain ⟨l', hr, vs, htv, hv⟩ := Asm.lex_doc hc ha ht hdoc (L.init txt) .start hat
  have hlex := lexRunes_of_reaches hr
  have hv' : l'.toks.toList.map view = vs := by
    have : views (L.init txt) = [] := rfl
    rw [this, List.nil_append] at hv
    exact hv
  have hp := parseLoop_tree ⟨nLines txt⟩ htv l'.toks.toList (l'.toks.toList.length + 1) [] hv' (by omega)
  simp only [Array.length_toList] at hp
  simp [parseRunes, hlex, parseToks, hp]

end Spok
