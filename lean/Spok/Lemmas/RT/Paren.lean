import Spok.Lemmas.RT.Prim
/-! # Round trip: lexing a parenthesised argument list (`LexParenSpec`) -/
set_option linter.unusedSimpArgs false
namespace Spok
namespace RT

theorem itemsText_head {args : List Arg} {body : List Rune} (h : ItemsText args body) :
    ∃ r0 body', body = r0 :: body' ∧ (r0.cp = QUOTE ∨ isIdent r0 = true) := by
  cases h with
  | last a txt ws ha _ =>
    obtain ⟨r0, txt', rfl, h0⟩ := argText_head ha
    exact ⟨r0, _, rfl, h0⟩
  | lastComma a txt ws ws2 ha _ _ =>
    obtain ⟨r0, txt', rfl, h0⟩ := argText_head ha
    exact ⟨r0, _, rfl, h0⟩
  | cons a txt ws ws2 as rest ha _ _ _ =>
    obtain ⟨r0, txt', rfl, h0⟩ := argText_head ha
    exact ⟨r0, _, rfl, h0⟩

theorem space_of_arg_head {r0 : Rune} (h : r0.cp = QUOTE ∨ isIdent r0 = true) : isSpace r0 = false := by
  rcases h with h | h
  · exact not_space_of_cp h (by simp)
  · exact isIdent_not_space h

/-- `lexArgs` in front of an argument -/
theorem goes_lexArgs_arg {l : L} {r0 : Rune} {rs : List Rune} (hr : l.right.dropWhile isSpace = r0 :: rs)
    (h : r0.cp = QUOTE ∨ isIdent r0 = true) : Goes l .args (runeTag r0) rs [r0] [] := by
  rcases h with h | h
  · simpa [runeTag, h] using goes_lexArgs_string hr h
  · have hq : r0.cp ≠ QUOTE := cp_ne_of_ident h (by simp)
    simpa [runeTag, hq] using goes_lexArgs_ident hr h

/-- `lexComma` in front of a comma, white space and an argument -/
theorem goes_lexComma_arg {l : L} {c r0 : Rune} {ws rs : List Rune} (hr : l.right = c :: ws ++ r0 :: rs) (hk : l.tokRev = [])
    (hw : Ws ws) (h : r0.cp = QUOTE ∨ isIdent r0 = true) : Goes l .comma (runeTag r0) rs [r0] [(.comma, [c])] := by
  rcases h with h | h
  · simpa [runeTag, h] using goes_lexComma_string hr hk hw h
  · have hq : r0.cp ≠ QUOTE := cp_ne_of_ident h (by simp)
    simpa [runeTag, hq] using goes_lexComma_ident hr hk hw h

/-- the items of an argument list, from the state in which the first rune of the first item has been consumed, up
    to the closing parenthesis -/
theorem goes_items {args : List Arg} {body : List Rune} (h : ItemsText args body) :
    ∃ iv, ItemViews args iv ∧
    ∀ {rp : Rune} {rest : List Rune}, rp.cp = RPAREN → ∀ {r0 : Rune} {body' : List Rune}, body = r0 :: body' →
    ∀ {l : L}, l.right = body' ++ rp :: rest → l.tokRev = [r0] →
    Goes l (runeTag r0) .rightParen (rp :: rest) [] iv := by
  induction h with
  | last a txt ws ha hws =>
    refine ⟨[argView a], ItemViews.last a, ?_⟩
    intro rp rest hrp r0 body' hb l hr hk
    obtain ⟨q0, txt', rfl, _⟩ := argText_head ha
    have hb' : q0 = r0 ∧ txt' ++ ws = body' := by simpa using hb
    obtain ⟨rfl, rfl⟩ := hb'
    exact goes_arg ha hws ⟨rp, rest, rfl, Or.inl ⟨hrp, rfl⟩⟩ rfl (by simpa using hr) hk
  | lastComma a txt ws ws2 ha hws hw2 =>
    refine ⟨[argView a, vComma], ItemViews.lastComma a, ?_⟩
    intro rp rest hrp r0 body' hb l hr hk
    obtain ⟨q0, txt', rfl, _⟩ := argText_head ha
    have hb' : q0 = r0 ∧ txt' ++ (ws ++ asc COMMA :: ws2) = body' := by simpa using hb
    obtain ⟨rfl, rfl⟩ := hb'
    have h1 := goes_arg (after := asc COMMA :: ws2 ++ rp :: rest) ha hws ⟨_, _, rfl, Or.inr (Or.inl ⟨rfl, rfl⟩)⟩ rfl
      (by simpa using hr) hk
    have h2 := h1.trans (fun l1 hr1 hk1 => goes_lexComma_rparen (c := asc COMMA) (ws := ws2) (r := rp) (rs := rest)
      (by simpa using hr1) hk1 hw2 hrp)
    exact h2.cast rfl rfl rfl (by simp [vComma])
  | cons a txt ws ws2 as rest0 ha hws hw2 hrest ih =>
    obtain ⟨iv, hiv, hgo⟩ := ih
    refine ⟨argView a :: vComma :: iv, ItemViews.cons a as iv hiv, ?_⟩
    intro rp rest hrp r0 body' hb l hr hk
    obtain ⟨q0, txt', rfl, _⟩ := argText_head ha
    have hb' : q0 = r0 ∧ txt' ++ (ws ++ asc COMMA :: (ws2 ++ rest0)) = body' := by simpa using hb
    obtain ⟨rfl, rfl⟩ := hb'
    obtain ⟨r1, rest0', rfl, h1head⟩ := itemsText_head hrest
    have h1 := goes_arg (after := asc COMMA :: ws2 ++ r1 :: rest0' ++ rp :: rest) ha hws
      ⟨_, _, rfl, Or.inr (Or.inl ⟨rfl, rfl⟩)⟩ rfl (by simpa using hr) hk
    have h2 := h1.trans (fun l1 hr1 hk1 => goes_lexComma_arg (c := asc COMMA) (ws := ws2) (r0 := r1)
      (rs := rest0' ++ rp :: rest) (by simpa using hr1) hk1 hw2 h1head)
    have h3 := h2.trans (fun l2 hr2 hk2 => hgo (rp := rp) (rest := rest) hrp rfl hr2 hk2)
    exact h3.cast rfl rfl rfl (by simp [vComma])

/-- Lexing `( … )`, chaining form: the item tokens do not depend on the state the lexer starts in -/
theorem goes_paren {args : List Arg} {p : List Rune} (hp : ParenText args p) :
    ∃ iv, ((args = [] ∧ iv = []) ∨ ItemViews args iv) ∧
    ∀ {l : L} {rest : List Rune}, l.tokRev = [] → l.right = p ++ rest →
    Goes l .leftParen .rightParen (asc RPAREN :: rest) [] (vLParen :: iv) := by
  cases hp with
  | empty ws hw =>
    refine ⟨[], Or.inl ⟨rfl, rfl⟩, ?_⟩
    intro l rest hk hr
    have h1 := goes_lexLeftParen (l := l) (r := asc LPAREN) (ws := ws) (after := asc RPAREN :: rest)
      (by simpa using hr) hk hw (Stops.cons (by simp) _)
    have h2 := h1.trans (fun l1 hr1 _ => goes_lexArgs_rparen (l := l1) (r := asc RPAREN) (rs := rest)
      (by rw [hr1]; simp) rfl)
    exact h2.cast rfl rfl rfl (by simp [vLParen])
  | items ws args body hw hbody =>
    obtain ⟨r0, body', rfl, h0⟩ := itemsText_head hbody
    obtain ⟨iv, hiv, hgo⟩ := goes_items hbody
    refine ⟨iv, Or.inr hiv, ?_⟩
    intro l rest hk hr
    have h1 := goes_lexLeftParen (l := l) (r := asc LPAREN) (ws := ws) (after := r0 :: body' ++ asc RPAREN :: rest)
      (by simpa using hr) hk hw (Stops.cons (space_of_arg_head h0) _)
    have h2 := h1.trans (fun l1 hr1 _ => goes_lexArgs_arg (l := l1) (r0 := r0) (rs := body' ++ asc RPAREN :: rest)
      (by rw [hr1]; simp [space_of_arg_head h0]) h0)
    have h3 := h2.trans (fun l2 hr2 hk2 => hgo (rp := asc RPAREN) (rest := rest) rfl rfl hr2 hk2)
    exact h3.cast rfl rfl rfl (by simp [vLParen])

end RT

/-- Lexing `( … )`: `LexParenSpec` of `RT/Defs.lean` -/
theorem lexParen_spec : LexParenSpec := by
  intro args p hp l rest hk hr
  obtain ⟨iv, hiv, hgo⟩ := RT.goes_paren hp
  obtain ⟨l', hR, hr', hk', hv'⟩ := hgo hk hr
  exact ⟨l', hR, hk', hr', iv, hiv, hv'⟩

end Spok
