import Spok.Lemmas.RT.Outs
/-! # Round trip, task statements: the body (`{ … }`), i.e. the command loop `lexTaskCommandsF` -/
namespace Spok.RTT

/-! ## one iteration of the command loop, by case -/

/-- an ordinary rune of command text -/
theorem F_plain (fuel : Nat) (l : L) (r : Rune) (rs : List Rune) (h : l.right = r :: rs) (hnl : r.cp ≠ NL)
    (hp1 : (rs.take 2).map (·.cp) ≠ [LBRACE, LBRACE]) (hp2 : (rs.take 2).map (·.cp) ≠ [RBRACE, RBRACE])
    (hrb : r.cp ≠ RBRACE) (hne : rs ≠ []) (hh : r.cp ≠ HASH) (ha : isASCII r = true) :
    lexTaskCommandsF (fuel + 1) l = lexTaskCommandsF fuel (l.next).1 := by
  rw [lexTaskCommandsF]
  rw [List.map_take] at hp1 hp2
  simp [L.next_snd_eq, h, hasPrefix_eq, hnl, hp1, hp2, hrb, hne, hh, ha, L.atEOF]

/-- `{{` or `}}` directly after the rune read: both are taken as command text -/
theorem F_jump (fuel : Nat) (l : L) (r : Rune) (rs : List Rune) (h : l.right = r :: rs) (hnl : r.cp ≠ NL)
    (hp : (rs.take 2).map (·.cp) = [LBRACE, LBRACE] ∨ (rs.take 2).map (·.cp) = [RBRACE, RBRACE]) :
    lexTaskCommandsF (fuel + 1) l = lexTaskCommandsF fuel ((l.next).1.absorb 2) := by
  rw [lexTaskCommandsF]
  rw [List.map_take] at hp
  rcases hp with hp | hp <;> simp [L.next_snd_eq, h, hasPrefix_eq, hnl, hp]

/-- a newline ends the command -/
theorem F_nl (fuel : Nat) (l : L) (r : Rune) (rs : List Rune) (h : l.right = r :: rs) (hnl : r.cp = NL) :
    lexTaskCommandsF (fuel + 1) l =
      lexTaskCommandsF fuel (skipWs ((stripCR (l.next).1.backup).emit .command)) := by
  rw [lexTaskCommandsF]
  simp [L.next_snd_eq, h, hnl]

/-- the closing brace ends the body -/
theorem F_close (fuel : Nat) (l : L) (r : Rune) (rs : List Rune) (h : l.right = r :: rs) (hrb : r.cp = RBRACE)
    (hp1 : (rs.take 2).map (·.cp) ≠ [LBRACE, LBRACE]) (hp2 : (rs.take 2).map (·.cp) ≠ [RBRACE, RBRACE]) :
    lexTaskCommandsF (fuel + 1) l =
      (skipWs (
        let l1 := (l.next).1.backup
        let l2 := if l1.lastIs SP then l1.stepBack else l1
        let l3 := stripCR l2
        if !l3.tokRev.isEmpty then l3.emit .command else l3), .rightBrace) := by
  rw [lexTaskCommandsF]
  rw [List.map_take] at hp1 hp2
  simp [L.next_snd_eq, h, hasPrefix_eq, hrb, hp1, hp2]

/-! ## scanning command text -/

/-- what may follow a piece of command text so that the loop's two-rune look-ahead behaves as in
    `cmdScanOK` (where a newline follows): something, not beginning with `{` nor with `}}` -/
def FolOK (fol : List Rune) : Prop :=
  fol ≠ [] ∧ (∀ r, fol.head? = some r → r.cp ≠ LBRACE) ∧ (fol.take 2).map (·.cp) ≠ [RBRACE, RBRACE]

theorem FolOK.of_head {x : Rune} (xs : List Rune) (h1 : x.cp ≠ LBRACE) (h2 : x.cp ≠ RBRACE) : FolOK (x :: xs) := by
  refine ⟨by simp, ?_, ?_⟩
  · intro r hr; simp at hr; subst hr; exact h1
  · cases xs <;> simp [h2]

/-- the closing brace followed by something that is not a brace -/
theorem FolOK.close (rest : List Rune) (hrest : ∀ r, rest.head? = some r → r.cp ≠ RBRACE ∧ r.cp ≠ LBRACE) :
    FolOK (asc RBRACE :: rest) := by
  refine ⟨by simp, ?_, ?_⟩
  · intro r hr; simp at hr; subst hr; decide
  · cases rest with
    | nil => simp
    | cons y ys => have := (hrest y rfl).1; simp [this]

theorem pair_length {rs : List Rune} {c : Nat} (h : (rs.take 2).map (·.cp) = [c, c]) :
    ∃ a b rs', rs = a :: b :: rs' ∧ a.cp = c ∧ b.cp = c := by
  cases rs with
  | nil => simp at h
  | cons a rs1 =>
    cases rs1 with
    | nil => simp at h
    | cons b rs' => exact ⟨a, b, rs', rfl, by simpa using h⟩

theorem cmdScanOK_cons (r : Rune) (rest : List Rune) (h : cmdScanOK (r :: rest) = true) :
    r.cp ≠ NL ∧
    ((((rest.take 2).map (·.cp) = [LBRACE, LBRACE] ∨ (rest.take 2).map (·.cp) = [RBRACE, RBRACE]) ∧
        cmdScanOK (rest.drop 2) = true) ∨
     ((rest.take 2).map (·.cp) ≠ [LBRACE, LBRACE] ∧ (rest.take 2).map (·.cp) ≠ [RBRACE, RBRACE] ∧
        r.cp ≠ RBRACE ∧ r.cp ≠ HASH ∧ isASCII r = true ∧ cmdScanOK rest = true)) := by
  rw [cmdScanOK] at h
  by_cases hnl : r.cp = NL
  · simp [hnl] at h
  · refine ⟨hnl, ?_⟩
    by_cases hp : (rest.take 2).map (·.cp) = [LBRACE, LBRACE] ∨ (rest.take 2).map (·.cp) = [RBRACE, RBRACE]
    · left
      refine ⟨hp, ?_⟩
      rw [List.map_take] at hp
      rcases hp with hp | hp <;> simpa [hnl, hp] using h
    · right
      have hp1 : (rest.take 2).map (·.cp) ≠ [LBRACE, LBRACE] := fun h' => hp (Or.inl h')
      have hp2 : (rest.take 2).map (·.cp) ≠ [RBRACE, RBRACE] := fun h' => hp (Or.inr h')
      refine ⟨hp1, hp2, ?_⟩
      rw [List.map_take] at hp1 hp2
      simp only [beq_iff_eq, hnl, if_false, hp1, hp2, List.map_take, Bool.or_eq_true] at h
      by_cases h1 : r.cp = RBRACE
      · simp [h1] at h
      · by_cases h2 : r.cp = HASH
        · simp [h2] at h
        · by_cases h3 : isASCII r = true
          · simp [h1, h2, h3] at h
            exact ⟨h1, h2, h3, h⟩
          · simp [h1, h2, h3] at h

/-- **the scan**: command text `c` accepted by `cmdScanOK` is taken into the token rune by rune (or in
    jumps over `{{` / `}}`) whatever admissible text follows it -/
theorem scan_spec (c : List Rune) : cmdScanOK c = true → ∀ fol, FolOK fol → ∀ (fuel : Nat) (l : L),
    l.right = c ++ fol → l.right.length < fuel →
    ∃ fuel' l', lexTaskCommandsF fuel l = lexTaskCommandsF fuel' l' ∧ fol.length < fuel' ∧ l'.right = fol ∧
      l'.tokRev = c.reverse ++ l.tokRev ∧ l'.left = c.reverse ++ l.left ∧ l'.toks = l.toks := by
  induction hn : c.length using Nat.strongRecOn generalizing c with
  | _ n ih =>
    intro hc fol hfol fuel l hl hfuel
    cases c with
    | nil =>
      exact ⟨fuel, l, rfl, by simpa [hl] using hfuel, by simpa using hl, by simp, by simp, rfl⟩
    | cons r rest =>
      have hl' : l.right = r :: (rest ++ fol) := by simpa using hl
      obtain ⟨fuel0, rfl⟩ : ∃ k, fuel = k + 1 := ⟨fuel - 1, by omega⟩
      have hfuel0 : (rest ++ fol).length < fuel0 := by rw [hl'] at hfuel; simp at hfuel ⊢; omega
      obtain ⟨hnl, hcase⟩ := cmdScanOK_cons r rest hc
      rcases hcase with ⟨hp, hc'⟩ | ⟨hp1, hp2, hrb, hh, ha, hc'⟩
      · -- a jump
        obtain ⟨a, b, rest', rfl, hab⟩ : ∃ a b rest', rest = a :: b :: rest' ∧
            ((a.cp = LBRACE ∧ b.cp = LBRACE) ∨ (a.cp = RBRACE ∧ b.cp = RBRACE)) := by
          rcases hp with hp | hp
          · obtain ⟨a, b, rs', h1, h2, h3⟩ := pair_length hp; exact ⟨a, b, rs', h1, Or.inl ⟨h2, h3⟩⟩
          · obtain ⟨a, b, rs', h1, h2, h3⟩ := pair_length hp; exact ⟨a, b, rs', h1, Or.inr ⟨h2, h3⟩⟩
        have hstep := F_jump fuel0 l r (a :: b :: rest' ++ fol) hl' hnl (by
          rcases hab with ⟨h1, h2⟩ | ⟨h1, h2⟩
          · left; simp [h1, h2]
          · right; simp [h1, h2])
        have hm : ((l.next).1.absorb 2).right = rest' ++ fol := by
          rw [L.absorb_right, L.next_right, hl']; simp
        obtain ⟨fuel', l', e, hf', hr', ht', hlf', hk'⟩ := ih rest'.length (by subst hn; simp; omega) rest' rfl
          (by simpa using hc') fol hfol fuel0 _ hm (by rw [hm]; simp at hfuel0 ⊢; omega)
        have hnr : (l.next).1.right = a :: b :: (rest' ++ fol) := by rw [L.next_right, hl']; simp
        refine ⟨fuel', l', hstep.trans e, hf', hr', ?_, ?_, ?_⟩
        · rw [ht', L.absorb_tokRev, hnr, L.next_tokRev hl']; simp
        · rw [hlf', L.absorb_left, hnr, L.next_left hl']; simp
        · rw [hk']; simp
      · -- an ordinary rune
        have hq1 : ((rest ++ fol).take 2).map (·.cp) ≠ [LBRACE, LBRACE] := by
          cases rest with
          | nil =>
            intro h
            obtain ⟨a, b, rs', h1, h2, _⟩ := pair_length h
            exact hfol.2.1 a (by simp at h1; simp [h1]) h2
          | cons x rest1 =>
            cases rest1 with
            | nil =>
              intro h
              obtain ⟨a, b, rs', h1, _, h3⟩ := pair_length h
              simp at h1
              exact hfol.2.1 b (by simp [h1.2]) h3
            | cons y rest2 => simpa using hp1
        have hq2 : ((rest ++ fol).take 2).map (·.cp) ≠ [RBRACE, RBRACE] := by
          cases rest with
          | nil => simpa using hfol.2.2
          | cons x rest1 =>
            cases rest1 with
            | nil =>
              intro h
              obtain ⟨a, b, rs', h1, h2, _⟩ := pair_length h
              simp at h1
              obtain ⟨_, hx⟩ := cmdScanOK_cons x [] hc'
              rcases hx with ⟨hx, _⟩ | ⟨_, _, hx, _⟩
              · simp at hx
              · exact hx (h1.1 ▸ h2)
            | cons y rest2 => simpa using hp2
        have hstep := F_plain fuel0 l r (rest ++ fol) hl' hnl hq1 hq2 hrb (by simp [hfol.1]) hh ha
        have hm : (l.next).1.right = rest ++ fol := by rw [L.next_right, hl']; rfl
        obtain ⟨fuel', l', e, hf', hr', ht', hlf', hk'⟩ := ih rest.length (by subst hn; simp) rest rfl hc' fol hfol
          fuel0 _ hm (by rw [hm]; exact hfuel0)
        refine ⟨fuel', l', hstep.trans e, hf', hr', ?_, ?_, ?_⟩
        · rw [ht', L.next_tokRev hl']; simp
        · rw [hlf', L.next_left hl']; simp
        · rw [hk']; simp

/-! ## how a command ends -/

/-- carriage returns and blanks are command text -/
theorem cmdScanOK_crsp (c : List Rune) (h : ∀ r ∈ c, r.cp = CR ∨ r.cp = SP) : cmdScanOK c = true := by
  induction c with
  | nil => rw [cmdScanOK]
  | cons r rest ih =>
    have hr := h r (by simp)
    have ih' := ih (fun x hx => h x (by simp [hx]))
    have hnp : ∀ c, c = LBRACE ∨ c = RBRACE → (List.map (fun x => x.cp) rest).take 2 ≠ [c, c] := by
      intro c hc heq
      cases rest with
      | nil => simp at heq
      | cons x xs =>
        have hx := h x (by simp)
        cases xs with
        | nil => simp at heq
        | cons y ys => simp at heq; omega
    rw [cmdScanOK]
    have h1 := hnp LBRACE (Or.inl rfl)
    have h2 := hnp RBRACE (Or.inr rfl)
    rcases hr with hr | hr <;> simp [hr, h1, h2, ih', isASCII]

theorem head?_reverse_ne {prev : List Rune} {c : Nat} (h : endsWithCp prev c = false) :
    ∀ r, prev.reverse.head? = some r → r.cp ≠ c := by
  intro r hr
  rw [List.head?_reverse] at hr
  simpa [endsWithCp, hr] using h

/-- `CR* LF ws` after a command `prev` held in the token buffer: the command is emitted and the loop
    goes on at `more` -/
theorem sep_spec (prev crs ws more lf : List Rune) (hprev : endsWithCp prev CR = false)
    (hcrs : ∀ r ∈ crs, r.cp = CR) (hws : Ws ws) (hmore : more.dropWhile isSpace = more) (fuel : Nat) (l : L)
    (ht : l.tokRev = prev.reverse) (hlf : l.left = prev.reverse ++ lf)
    (h : l.right = crs ++ asc NL :: (ws ++ more)) (hfuel : l.right.length < fuel) :
    ∃ fuel' l', lexTaskCommandsF fuel l = lexTaskCommandsF fuel' l' ∧ more.length < fuel' ∧ l'.tokRev = [] ∧
      l'.right = more ∧ views l' = views l ++ [(.command, prev)] := by
  obtain ⟨fuel1, l1, e1, hf1, r1, t1, lf1, k1⟩ := scan_spec crs (cmdScanOK_crsp crs (fun r hr => Or.inl (hcrs r hr)))
    (asc NL :: (ws ++ more)) (FolOK.of_head _ (by decide) (by decide)) fuel l h hfuel
  obtain ⟨fuel2, rfl⟩ : ∃ k, fuel1 = k + 1 := ⟨fuel1 - 1, by simp at hf1; omega⟩
  have e2 := F_nl fuel2 l1 (asc NL) (ws ++ more) r1 rfl
  have hm := stripCR_spec crs.reverse (by simpa using hcrs) prev.reverse lf (head?_reverse_ne hprev)
    (l1.next).1.backup (by simp [t1, ht]) (by simp [lf1, hlf])
  obtain ⟨m1, m2, m3, m4⟩ := hm
  refine ⟨fuel2, _, e1.trans e2, ?_, by simp, ?_, ?_⟩
  · simp at hf1 ⊢; omega
  · rw [skipWs_right, L.emit_right, m3]
    simp only [List.reverse_reverse, L.next_backup_right, r1]
    rw [dropWhile_append_of_all _ _ _ (fun x hx => isSpace_of_cp (hcrs x hx) isSpaceCp_CR)]
    have : isSpace (asc NL) = true := by decide
    simp only [List.dropWhile_cons, this, if_true]
    rw [dropWhile_append_of_all _ _ _ hws, hmore]
  · rw [views_skipWs, views_emit, views_congr m4, views_congr (L.next_backup_toks _), views_congr k1, m1]
    simp

/-- the closing brace with nothing in the token buffer (after a separator): nothing is emitted -/
theorem close_empty_spec (rest : List Rune) (hrest : ∀ r, rest.head? = some r → r.cp ≠ RBRACE ∧ r.cp ≠ LBRACE)
    (fuel : Nat) (l : L) (ht : l.tokRev = []) (h : l.right = asc RBRACE :: rest) (hfuel : l.right.length < fuel) :
    ∃ l', lexTaskCommandsF fuel l = (l', .rightBrace) ∧ l'.tokRev = [] ∧ l'.right = asc RBRACE :: rest ∧
      views l' = views l := by
  obtain ⟨fuel0, rfl⟩ : ∃ k, fuel = k + 1 := ⟨fuel - 1, by omega⟩
  have hp1 : (rest.take 2).map (·.cp) ≠ [LBRACE, LBRACE] := by
    intro hp; obtain ⟨a, b, rs', h1, h2, _⟩ := pair_length hp
    exact (hrest a (by simp [h1])).2 h2
  have hp2 : (rest.take 2).map (·.cp) ≠ [RBRACE, RBRACE] := by
    intro hp; obtain ⟨a, b, rs', h1, h2, _⟩ := pair_length hp
    exact (hrest a (by simp [h1])).1 h2
  have e := F_close fuel0 l (asc RBRACE) rest h rfl hp1 hp2
  have hb : ((l.next).1.backup).tokRev = [] := by simp [ht]
  have h1 : ((l.next).1.backup).lastIs SP = false := L.lastIs_nil hb _
  have h2 : ((l.next).1.backup).lastIs CR = false := L.lastIs_nil hb _
  have h3 : stripCR (l.next).1.backup = (l.next).1.backup := by unfold stripCR; simp [h2]
  simp only [h1, Bool.false_eq_true, if_false, h3, hb, List.isEmpty_nil, Bool.not_true] at e
  refine ⟨_, e, by simp, ?_, ?_⟩
  · rw [skipWs_right, L.next_backup_right, h]; exact dropWhile_nonspace (by decide) _
  · rw [views_skipWs, views_congr (L.next_backup_toks _)]

/-- one-line style: `CR*`, at most one blank, and the closing brace after the last command `prev` held in
    the token buffer: the command is emitted without the blank and the carriage returns -/
theorem close_spec (prev crs sp rest lf : List Rune) (hne : prev ≠ []) (hprev : endsWithCp prev CR = false)
    (hcrs : ∀ r ∈ crs, r.cp = CR) (hsp : sp = [] ∨ sp = [asc SP])
    (hblank : crs = [] → sp = [] → endsWithCp prev SP = false)
    (hrest : ∀ r, rest.head? = some r → r.cp ≠ RBRACE ∧ r.cp ≠ LBRACE)
    (fuel : Nat) (l : L) (ht : l.tokRev = prev.reverse) (hlf : l.left = prev.reverse ++ lf)
    (h : l.right = (crs ++ sp) ++ asc RBRACE :: rest) (hfuel : l.right.length < fuel) :
    ∃ l', lexTaskCommandsF fuel l = (l', .rightBrace) ∧ l'.tokRev = [] ∧ l'.right = asc RBRACE :: rest ∧
      views l' = views l ++ [(.command, prev)] := by
  have hsp' : ∀ r ∈ sp, r.cp = SP := by
    rcases hsp with rfl | rfl <;> simp
  obtain ⟨fuel1, l1, e1, hf1, r1, t1, lf1, k1⟩ := scan_spec (crs ++ sp)
    (cmdScanOK_crsp _ (fun r hr => by
      rcases List.mem_append.1 hr with h' | h'
      · exact Or.inl (hcrs r h')
      · exact Or.inr (hsp' r h')))
    (asc RBRACE :: rest) (FolOK.close rest hrest) fuel l h hfuel
  obtain ⟨fuel2, rfl⟩ : ∃ k, fuel1 = k + 1 := ⟨fuel1 - 1, by simp at hf1; omega⟩
  have hp1 : (rest.take 2).map (·.cp) ≠ [LBRACE, LBRACE] := by
    intro hp; obtain ⟨a, b, rs', h1, h2, _⟩ := pair_length hp
    exact (hrest a (by simp [h1])).2 h2
  have hp2 : (rest.take 2).map (·.cp) ≠ [RBRACE, RBRACE] := by
    intro hp; obtain ⟨a, b, rs', h1, h2, _⟩ := pair_length hp
    exact (hrest a (by simp [h1])).1 h2
  have e2 := F_close fuel2 l1 (asc RBRACE) rest r1 rfl hp1 hp2
  -- the state after `backup`
  generalize hm : (l1.next).1.backup = m at e2
  have mt : m.tokRev = sp.reverse ++ (crs.reverse ++ prev.reverse) := by subst hm; simp [t1, ht]
  have ml : m.left = sp.reverse ++ (crs.reverse ++ prev.reverse ++ lf) := by subst hm; simp [lf1, hlf]
  have mr : m.right = asc RBRACE :: rest := by subst hm; simp [r1]
  have mk : m.toks = l.toks := by subst hm; simp [k1]
  -- dropping one trailing blank
  have h2 : ∃ m2, (if m.lastIs SP then m.stepBack else m) = m2 ∧ m2.tokRev = crs.reverse ++ prev.reverse ∧
      m2.left = crs.reverse ++ prev.reverse ++ lf ∧ m2.right = sp ++ asc RBRACE :: rest ∧ m2.toks = l.toks := by
    rcases hsp with rfl | rfl
    · -- no blank: the token does not end in one
      have hno : m.lastIs SP = false := by
        cases hcr : crs.reverse with
        | cons x xs =>
          have hx : x.cp = CR := hcrs x (by rw [← List.mem_reverse, hcr]; simp)
          rw [L.lastIs_of (x := x) (ts := xs ++ prev.reverse) (lf := xs ++ prev.reverse ++ lf)
            (by simp [mt, hcr]) (by simp [ml, hcr])]
          simp [hx]
        | nil =>
          have hcrs0 : crs = [] := by simpa using hcr
          have hb := hblank hcrs0 rfl
          cases hp : prev.reverse with
          | nil => exact absurd (by simpa using hp) hne
          | cons x xs =>
            have := head?_reverse_ne hb x (by simp [hp])
            rw [L.lastIs_of (x := x) (ts := xs) (lf := xs ++ lf) (by simp [mt, hcr, hp]) (by simp [ml, hcr, hp])]
            simpa using this
      exact ⟨m, by simp [hno], by simpa using mt, by simpa using ml, by simpa using mr, mk⟩
    · have mt' : m.tokRev = asc SP :: (crs.reverse ++ prev.reverse) := by simpa using mt
      have ml' : m.left = asc SP :: (crs.reverse ++ prev.reverse ++ lf) := by simpa using ml
      have hyes : m.lastIs SP = true := by rw [L.lastIs_of mt' ml']; rfl
      obtain ⟨s1, s2, s3, s4⟩ := L.stepBack_of mt' ml'
      exact ⟨m.stepBack, by simp [hyes], s1, s2, by rw [s3, mr]; rfl, by rw [s4, mk]⟩
  obtain ⟨m2, hm2, m2t, m2l, m2r, m2k⟩ := h2
  simp only [hm2] at e2
  obtain ⟨c1, c2, c3, c4⟩ := stripCR_spec crs.reverse (by simpa using hcrs) prev.reverse lf (head?_reverse_ne hprev)
    m2 m2t m2l
  have hnonempty : (stripCR m2).tokRev.isEmpty = false := by
    rw [c1]; cases hp : prev.reverse with
    | nil => exact absurd (by simpa using hp) hne
    | cons x xs => rfl
  simp only [hnonempty, Bool.not_false, if_true] at e2
  refine ⟨_, e1.trans e2, by simp, ?_, ?_⟩
  · rw [skipWs_right, L.emit_right, c3, m2r, List.reverse_reverse, ← List.append_assoc]
    have hall : ∀ x ∈ crs ++ sp, isSpace x = true := by
      intro x hx
      rcases List.mem_append.1 hx with h' | h'
      · exact isSpace_of_cp (hcrs x h') isSpaceCp_CR
      · exact isSpace_of_cp (hsp' x h') isSpaceCp_SP
    rw [dropWhile_append_of_all _ _ _ hall]
    exact dropWhile_nonspace (by decide) _
  · rw [views_skipWs, views_emit, views_congr c4, views_congr m2k, c1]
    simp

/-! ## all commands of a body -/

theorem FolOK.sep {sep : List Rune} (h : CmdSep sep) (more : List Rune) : FolOK (sep ++ more) := by
  obtain ⟨crs, ws, hcrs, _, rfl⟩ := h
  cases crs with
  | nil => exact FolOK.of_head _ (by decide) (by decide)
  | cons x xs =>
    have hx : x.cp = CR := hcrs x (by simp)
    exact FolOK.of_head _ (by rw [hx]; decide) (by rw [hx]; decide)

theorem FolOK.more {cs : List (List Rune)} {prev b : List Rune} (h : MoreCmds cs prev b) (rest : List Rune)
    (hrest : ∀ r, rest.head? = some r → r.cp ≠ RBRACE ∧ r.cp ≠ LBRACE) : FolOK (b ++ asc RBRACE :: rest) := by
  cases h with
  | done prev e he =>
    rcases he with he | ⟨crs, sp, hcrs, hsp, rfl, _⟩
    · exact FolOK.sep he _
    · cases crs with
      | cons x xs =>
        have hx : x.cp = CR := hcrs x (by simp)
        exact FolOK.of_head _ (by rw [hx]; decide) (by rw [hx]; decide)
      | nil =>
        rcases hsp with rfl | rfl
        · exact FolOK.close rest hrest
        · exact FolOK.of_head _ (by decide) (by decide)
  | cons prev sep c cs rest' hsep _ _ =>
    have := FolOK.sep hsep (c ++ rest' ++ asc RBRACE :: rest)
    simpa using this

/-- **the command loop**: with the command `prev` in the token buffer and the remaining commands `cs`
    ahead, the loop emits `prev :: cs` and stops in front of the closing brace -/
theorem moreCmds_spec {cs : List (List Rune)} {prev b : List Rune} (hm : MoreCmds cs prev b) :
    ∀ (rest : List Rune), (∀ r, rest.head? = some r → r.cp ≠ RBRACE ∧ r.cp ≠ LBRACE) →
    prev ≠ [] → endsWithCp prev CR = false →
    ∀ (fuel : Nat) (l : L) (lf : List Rune), l.tokRev = prev.reverse → l.left = prev.reverse ++ lf →
    l.right = b ++ asc RBRACE :: rest → l.right.length < fuel →
    ∃ l', lexTaskCommandsF fuel l = (l', .rightBrace) ∧ l'.tokRev = [] ∧ l'.right = asc RBRACE :: rest ∧
      views l' = views l ++ (prev :: cs).map (fun c => (TT.command, c)) := by
  induction hm with
  | done prev e he =>
    intro rest hrest hne hprev fuel l lf ht hlf h hfuel
    rcases he with ⟨crs, ws, hcrs, hws, rfl⟩ | ⟨crs, sp, hcrs, hsp, rfl, hblank⟩
    · obtain ⟨fuel1, l1, e1, hf1, t1, r1, v1⟩ := sep_spec prev crs ws (asc RBRACE :: rest) lf hprev hcrs hws
        (dropWhile_nonspace (by decide) _) fuel l ht hlf (by rw [h]; simp) hfuel
      obtain ⟨l2, e2, t2, r2, v2⟩ := close_empty_spec rest hrest fuel1 l1 t1 r1 (by rw [r1]; exact hf1)
      exact ⟨l2, e1.trans e2, t2, r2, by rw [v2, v1]; simp⟩
    · obtain ⟨l1, e1, t1, r1, v1⟩ := close_spec prev crs sp rest lf hne hprev hcrs hsp hblank hrest fuel l ht hlf h hfuel
      exact ⟨l1, e1, t1, r1, by rw [v1]; simp⟩
  | cons prev sep c cs rest' hsep hc _ ih =>
    intro rest hrest hne hprev fuel l lf ht hlf h hfuel
    obtain ⟨crs, ws, hcrs, hws, rfl⟩ := hsep
    -- the next command
    obtain ⟨a, c', rfl, ha, hscan, hcr⟩ : ∃ a c', c = a :: c' ∧ isSpace a = false ∧ cmdScanOK (a :: c') = true ∧
        endsWithCp (a :: c') CR = false := by
      cases c with
      | nil => exact absurd hc (by simp [NextCmdOK])
      | cons a c' => exact ⟨a, c', rfl, hc.1, hc.2.1, hc.2.2⟩
    obtain ⟨fuel1, l1, e1, hf1, t1, r1, v1⟩ := sep_spec prev crs ws ((a :: c') ++ (rest' ++ asc RBRACE :: rest)) lf hprev
      hcrs hws (dropWhile_nonspace ha _) fuel l ht hlf (by rw [h]; simp) hfuel
    obtain ⟨fuel2, l2, e2, hf2, r2, t2, lf2, k2⟩ := scan_spec (a :: c') hscan (rest' ++ asc RBRACE :: rest)
      (FolOK.more ‹_› rest hrest) fuel1 l1 r1 (by rw [r1]; exact hf1)
    obtain ⟨l3, e3, t3, r3, v3⟩ := ih rest hrest (by simp) hcr fuel2 l2 l1.left (by rw [t2, t1]; simp) lf2 r2
      (by rw [r2]; exact hf2)
    refine ⟨l3, e1.trans (e2.trans e3), t3, r3, ?_⟩
    rw [v3, views_congr k2, v1]; simp

/-! ## the body -/

theorem lexLeftBrace_spec (l : L) (more : List Rune) (ht : l.tokRev = []) (h : l.right = asc LBRACE :: more) :
    ∃ l', lexLeftBrace l = (l', .taskBody) ∧ l'.tokRev = [] ∧ l'.right = more.dropWhile isSpace ∧
      views l' = views l ++ [vLBrace] := by
  refine ⟨skipWs ((l.absorb 1).emit .lbrace), ?_, by simp, by simp [skipWs_right, h], by simp [h, ht, vLBrace]⟩
  unfold lexLeftBrace
  simp [L.atEOF, h]

/-- `lexTaskBody` in front of the closing brace -/
theorem lexTaskBody_close (l : L) (rest : List Rune) (h : l.right = asc RBRACE :: rest) :
    ∃ l', lexTaskBody l = (l', .rightBrace) ∧ l'.tokRev = [] ∧ l'.right = asc RBRACE :: rest ∧ views l' = views l := by
  have hr : (skipWs l).right = asc RBRACE :: rest := by
    rw [skipWs_right, h]; exact dropWhile_nonspace (by decide) _
  refine ⟨((skipWs l).next).1.backup, ?_, by simp, by simp [hr], ?_⟩
  · unfold lexTaskBody
    simp [L.atEOF, h, L.next_snd_eq, hr]
  · rw [views_congr (L.next_backup_toks _), views_skipWs]

/-- `lexTaskBody` in front of the first letter of the first command -/
theorem lexTaskBody_letter (l : L) (a : Rune) (more : List Rune) (ha : isLetter a = true) (h : l.right = a :: more) :
    ∃ l' lf, lexTaskBody l = (l', .taskCommands) ∧ l'.tokRev = [a] ∧ l'.left = a :: lf ∧ l'.right = more ∧
      views l' = views l := by
  have hr : (skipWs l).right = a :: more := by
    rw [skipWs_right, h]; exact dropWhile_nonspace (isSpace_of_isLetter ha) _
  have hrb : (a.cp == RBRACE) = false := by
    cases hq : a.cp == RBRACE with
    | false => rfl
    | true => rw [isLetter_false_of_cp (by simpa using hq) (by decide)] at ha; cases ha
  refine ⟨((skipWs l).next).1, (skipWs l).left, ?_, by rw [L.next_tokRev hr]; simp, L.next_left hr, by simp [hr], ?_⟩
  · unfold lexTaskBody
    simp [L.atEOF, h, L.next_snd_eq, hr, hrb, ha]
  · rw [views_congr (L.next_toks _), views_skipWs]

theorem lexRightBrace_spec (l : L) (rest : List Rune) (ht : l.tokRev = []) (h : l.right = asc RBRACE :: rest) :
    ∃ l', lexRightBrace l = (l', .start) ∧ l'.tokRev = [] ∧ l'.right = rest ∧ views l' = views l ++ [vRBrace] := by
  refine ⟨(l.absorb 1).emit .rbrace, ?_, by simp, by simp [h], by simp [h, ht, vRBrace]⟩
  unfold lexRightBrace
  simp [L.atEOF, h]

/-- **the body**: from the opening brace to behind the closing brace -/
theorem body_reaches (cmds : List (List Rune)) (b : List Rune) (hb : BodyText cmds b) (rest : List Rune)
    (hrest : ∀ r, rest.head? = some r → r.cp ≠ RBRACE ∧ r.cp ≠ LBRACE) (l : L) (ht : l.tokRev = [])
    (h : l.right = asc LBRACE :: (b ++ asc RBRACE :: rest)) :
    ∃ l', Reaches l .leftBrace l' .start ∧ l'.tokRev = [] ∧ l'.right = rest ∧
      views l' = views l ++ vLBrace :: cmds.map (fun c => (TT.command, c)) ++ [vRBrace] := by
  obtain ⟨l1, e1, t1, r1, v1⟩ := lexLeftBrace_spec l _ ht h
  cases hb with
  | empty ws hws =>
    have r1' : l1.right = asc RBRACE :: rest := by
      rw [r1]; exact dropWhile_ws hws (by decide) _
    obtain ⟨l2, e2, t2, r2, v2⟩ := lexTaskBody_close l1 rest r1'
    obtain ⟨l3, e3, t3, r3, v3⟩ := lexRightBrace_spec l2 rest t2 r2
    refine ⟨l3, (reach_leftBrace e1).trans ((reach_taskBody e2).trans (reach_rightBrace e3)), t3, r3, ?_⟩
    rw [v3, v2, v1]; simp
  | cmds ws c cs restb hws hc hmore =>
    obtain ⟨a, c', rfl, ha, hscan, hcr⟩ : ∃ a c', c = a :: c' ∧ isLetter a = true ∧ cmdScanOK c' = true ∧
        endsWithCp (a :: c') CR = false := by
      cases c with
      | nil => exact absurd hc (by simp [FirstCmdOK])
      | cons a c' => exact ⟨a, c', rfl, hc.1, hc.2.1, hc.2.2⟩
    have r1' : l1.right = a :: (c' ++ (restb ++ asc RBRACE :: rest)) := by
      rw [r1]
      have := dropWhile_ws hws (isSpace_of_isLetter ha) (c' ++ (restb ++ asc RBRACE :: rest))
      simpa using this
    obtain ⟨l2, lf, e2, t2, lf2, r2, v2⟩ := lexTaskBody_letter l1 a _ ha r1'
    -- the command loop
    obtain ⟨fuel3, l3, e3, hf3, r3, t3, lf3, k3⟩ := scan_spec c' hscan (restb ++ asc RBRACE :: rest)
      (FolOK.more hmore rest hrest) (l2.right.length + 1) l2 r2 (by omega)
    obtain ⟨l4, e4, t4, r4, v4⟩ := moreCmds_spec hmore rest hrest (by simp) hcr fuel3 l3 lf
      (by rw [t3, t2]; simp) (by rw [lf3, lf2]; simp) r3 (by rw [r3]; exact hf3)
    have e34 : lexTaskCommands l2 = (l4, .rightBrace) := by
      unfold lexTaskCommands; rw [e3, e4]
    obtain ⟨l5, e5, t5, r5, v5⟩ := lexRightBrace_spec l4 rest t4 r4
    refine ⟨l5, (reach_leftBrace e1).trans ((reach_taskBody e2).trans ((reach_taskCommands e34).trans
      (reach_rightBrace e5))), t5, r5, ?_⟩
    rw [v5, v4, views_congr k3, v2, v1]; simp

end Spok.RTT
