import Spok.Lemmas.RT.Outs
/-! # Round trip, task statements: the body (`{ … }`), i.e. the command loop `lexTaskCommandsF` -/
namespace Spok.RTT

/-! ## one iteration of the command loop, by case -/

/-- an ordinary rune of command text -/
theorem F_plain (fuel : Nat) (l : L) (r : Rune) (rs : List Rune) (h : l.right = r :: rs) (hnl : r.cp ≠ NL)
    (hp1 : (rs.take 2).map (·.cp) ≠ [LBRACE, LBRACE]) (hp2 : (rs.take 2).map (·.cp) ≠ [RBRACE, RBRACE])
    (hrb : r.cp ≠ RBRACE) (hne : rs ≠ []) (hh : r.cp ≠ HASH) (ha : isASCII r = true) :
    lexTaskCommandsF (fuel + 1) l = lexTaskCommandsF fuel (l.next).1 := by
  rw [lexTaskCommandsF]
  rw [List.map_take] at hp1 hp2
  simp [L.next_snd_eq, h, hasPrefix_eq, hnl, hp1, hp2, hrb, hne, hh, ha, L.atEOF]

/-- `{{` or `}}` directly after the rune read: both are taken as command text -/
theorem F_jump (fuel : Nat) (l : L) (r : Rune) (rs : List Rune) (h : l.right = r :: rs) (hnl : r.cp ≠ NL)
    (hp : (rs.take 2).map (·.cp) = [LBRACE, LBRACE] ∨ (rs.take 2).map (·.cp) = [RBRACE, RBRACE]) :
    lexTaskCommandsF (fuel + 1) l = lexTaskCommandsF fuel ((l.next).1.absorb 2) := by
  rw [lexTaskCommandsF]
  rw [List.map_take] at hp
  rcases hp with hp | hp <;> simp [L.next_snd_eq, h, hasPrefix_eq, hnl, hp]

/-- a newline ends the command -/
theorem F_nl (fuel : Nat) (l : L) (r : Rune) (rs : List Rune) (h : l.right = r :: rs) (hnl : r.cp = NL) :
    lexTaskCommandsF (fuel + 1) l =
      lexTaskCommandsF fuel (skipWs ((stripCR (l.next).1.backup).emit .command)) := by
  rw [lexTaskCommandsF]
  simp [L.next_snd_eq, h, hnl]

/-- the closing brace ends the body -/
theorem F_close (fuel : Nat) (l : L) (r : Rune) (rs : List Rune) (h : l.right = r :: rs) (hrb : r.cp = RBRACE)
    (hp1 : (rs.take 2).map (·.cp) ≠ [LBRACE, LBRACE]) (hp2 : (rs.take 2).map (·.cp) ≠ [RBRACE, RBRACE]) :
    lexTaskCommandsF (fuel + 1) l =
      (skipWs (
        let l1 := (l.next).1.backup
        let l2 := if l1.lastIs SP then l1.stepBack else l1
        let l3 := stripCR l2
        if !l3.tokRev.isEmpty then l3.emit .command else l3), .rightBrace) := by
  rw [lexTaskCommandsF]
  rw [List.map_take] at hp1 hp2
  simp [L.next_snd_eq, h, hasPrefix_eq, hrb, hp1, hp2]

end Spok.RTT
