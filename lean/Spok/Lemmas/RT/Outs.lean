import Spok.Lemmas.RT.TaskHead
/-! # Round trip, task statements: from the closing parenthesis of the dependencies to the opening brace
(the output clause: none, a single string, a single identifier, a parenthesised list) -/
namespace Spok.RTT

theorem isSpace_asc_LBRACE : isSpace (asc LBRACE) = false := by decide
theorem isSpace_asc_MINUS : isSpace (asc MINUS) = false := by decide

/-- `lexRightParen` when (after whitespace) the body follows -/
theorem lexRightParen_brace (l : L) (ws more : List Rune) (hws : Ws ws) (ht : l.tokRev = [])
    (h : l.right = asc RPAREN :: (ws ++ asc LBRACE :: more)) :
    ∃ l', lexRightParen l = (l', .leftBrace) ∧ l'.tokRev = [] ∧ l'.right = asc LBRACE :: more ∧
      views l' = views l ++ [vRParen] := by
  have hr : (skipWs ((l.absorb 1).emit .rparen)).right = asc LBRACE :: more := by
    rw [skipWs_right, L.emit_right, L.absorb_right, h]
    simpa using dropWhile_ws hws isSpace_asc_LBRACE more
  refine ⟨((skipWs ((l.absorb 1).emit .rparen)).next).1.backup, ?_, by simp, by simp [hr], ?_⟩
  · unfold lexRightParen
    simp [L.atEOF, h, L.peek_snd_eq, hr]
  · rw [views_congr (L.next_backup_toks _)]
    simp [h, ht, vRParen]

/-- `lexRightParen` when (after whitespace) `->` follows -/
theorem lexRightParen_arrow (l : L) (ws more : List Rune) (hws : Ws ws) (ht : l.tokRev = [])
    (h : l.right = asc RPAREN :: (ws ++ asc MINUS :: asc GT :: more)) :
    ∃ l', lexRightParen l = (l', .outputOp) ∧ l'.tokRev = [] ∧ l'.right = asc MINUS :: asc GT :: more ∧
      views l' = views l ++ [vRParen] := by
  have hr : (skipWs ((l.absorb 1).emit .rparen)).right = asc MINUS :: asc GT :: more := by
    rw [skipWs_right, L.emit_right, L.absorb_right, h]
    simpa using dropWhile_ws hws isSpace_asc_MINUS (asc GT :: more)
  refine ⟨((skipWs ((l.absorb 1).emit .rparen)).next).1.backup, ?_, by simp, by simp [hr], ?_⟩
  · unfold lexRightParen
    simp [L.atEOF, h, L.peek_snd_eq, hr, hasPrefix_eq]
  · rw [views_congr (L.next_backup_toks _)]
    simp [h, ht, vRParen]

/-- `lexOutputOp`: `->`, whitespace, then the first rune `x` of what follows is read -/
theorem lexOutputOp_next (l : L) (ws x more) (hws : Ws ws) (hx : isSpace x = false) (ht : l.tokRev = [])
    (h : l.right = asc MINUS :: asc GT :: (ws ++ x :: more)) :
    (skipWs ((l.absorb 2).emit .output)).right = x :: more ∧
    views (skipWs ((l.absorb 2).emit .output)) = views l ++ [vOutput] := by
  constructor
  · rw [skipWs_right, L.emit_right, L.absorb_right, h]
    simpa using dropWhile_ws hws hx more
  · simp [h, ht, vOutput]

theorem lexOutputOp_quote (l : L) (ws more : List Rune) (hws : Ws ws) (ht : l.tokRev = [])
    (h : l.right = asc MINUS :: asc GT :: (ws ++ asc QUOTE :: more)) :
    ∃ l', lexOutputOp l = (l', .string) ∧ l'.tokRev = [asc QUOTE] ∧ l'.right = more ∧
      views l' = views l ++ [vOutput] := by
  obtain ⟨hr, hv⟩ := lexOutputOp_next l ws (asc QUOTE) more hws (by decide) ht h
  refine ⟨((skipWs ((l.absorb 2).emit .output)).next).1, ?_, by rw [L.next_tokRev hr]; simp, by simp [hr], ?_⟩
  · unfold lexOutputOp
    simp [L.atEOF, h, L.next_snd_eq, hr]
  · rw [views_congr (L.next_toks _), hv]

theorem lexOutputOp_paren (l : L) (ws more : List Rune) (hws : Ws ws) (ht : l.tokRev = [])
    (h : l.right = asc MINUS :: asc GT :: (ws ++ asc LPAREN :: more)) :
    ∃ l', lexOutputOp l = (l', .leftParen) ∧ l'.tokRev = [] ∧ l'.right = asc LPAREN :: more ∧
      views l' = views l ++ [vOutput] := by
  obtain ⟨hr, hv⟩ := lexOutputOp_next l ws (asc LPAREN) more hws (by decide) ht h
  refine ⟨((skipWs ((l.absorb 2).emit .output)).next).1.backup, ?_, by simp, by simp [hr], ?_⟩
  · unfold lexOutputOp
    simp [L.atEOF, h, L.next_snd_eq, hr]
  · rw [views_congr (L.next_backup_toks _), hv]

theorem lexOutputOp_ident (l : L) (ws : List Rune) (x : Rune) (more : List Rune) (hws : Ws ws) (hx : isIdent x = true)
    (ht : l.tokRev = []) (h : l.right = asc MINUS :: asc GT :: (ws ++ x :: more)) :
    ∃ l', lexOutputOp l = (l', .ident) ∧ l'.tokRev = [x] ∧ l'.right = more ∧
      views l' = views l ++ [vOutput] := by
  obtain ⟨hr, hv⟩ := lexOutputOp_next l ws x more hws (isSpace_of_isIdent hx) ht h
  have h1 : (x.cp == QUOTE) = false := by
    cases hq : x.cp == QUOTE with
    | false => rfl
    | true => rw [isIdent_false_of_cp (by simpa using hq) (by decide)] at hx; cases hx
  have h2 : (x.cp == LPAREN) = false := by
    cases hq : x.cp == LPAREN with
    | false => rfl
    | true => rw [isIdent_false_of_cp (by simpa using hq) (by decide)] at hx; cases hx
  refine ⟨((skipWs ((l.absorb 2).emit .output)).next).1, ?_, by rw [L.next_tokRev hr]; simp, by simp [hr], ?_⟩
  · unfold lexOutputOp
    simp [L.atEOF, h, L.next_snd_eq, hr, h1, h2, hx]
  · rw [views_congr (L.next_toks _), hv]

/-- `lexString` on a string body whose closing quote is not followed by a line end -/
theorem lexString_args (l : L) (s fol : List Rune) (hs : StrOK s) (hne : fol ≠ []) (hfol : startsEol fol = false)
    (ht : l.tokRev = [asc QUOTE]) (h : l.right = s ++ asc QUOTE :: fol) :
    ∃ l', lexString l = (l', .args) ∧ l'.tokRev = [] ∧ l'.right = fol ∧
      views l' = views l ++ [(.string, asc QUOTE :: s ++ [asc QUOTE])] := by
  obtain ⟨m, h1, h2, h3, h4⟩ := scanString_spec s fol hs.1 hs.2 l h
  refine ⟨(((m.emit .string).next).1.backup), ?_, by simp, by simp [h2], ?_⟩
  · unfold lexString
    simp [h1, L.atEOF, h2, hne, L.atEOL_snd, hfol]
  · rw [views_congr (L.next_backup_toks _), views_emit, views_congr h4, h3, ht]
    simp

/-- `lexArgs` in front of (whitespace and) the opening brace -/
theorem lexArgs_brace (l : L) (ws more : List Rune) (hws : Ws ws) (h : l.right = ws ++ asc LBRACE :: more) :
    ∃ l', lexArgs l = (l', .leftBrace) ∧ l'.tokRev = [] ∧ l'.right = asc LBRACE :: more ∧ views l' = views l := by
  have hr : (skipWs l).right = asc LBRACE :: more := by
    rw [skipWs_right, h, dropWhile_ws hws isSpace_asc_LBRACE]
  refine ⟨((skipWs l).next).1.backup, ?_, by simp, by simp [hr], ?_⟩
  · unfold lexArgs
    simp [L.next_snd_eq, hr, (by decide : isIdent (asc LBRACE) = false)]
  · rw [views_congr (L.next_backup_toks _), views_skipWs]

/-- `lexIdent` on the remainder `n` of an identifier followed by whitespace and the opening brace -/
theorem lexIdent_brace (l : L) (n ws more : List Rune) (hn : IdentRunes n) (hws : Ws ws)
    (h : l.right = n ++ (ws ++ asc LBRACE :: more)) :
    ∃ l', lexIdent l = (l', .leftBrace) ∧ l'.tokRev = [] ∧ l'.right = asc LBRACE :: more ∧
      views l' = views l ++ [(.ident, l.tokRev.reverse ++ n)] := by
  have hstop : ∀ r, (ws ++ asc LBRACE :: more).head? = some r → isIdent r = false := by
    intro r hr
    cases ws with
    | nil => simp at hr; subst hr; decide
    | cons w ws => simp at hr; subst hr; exact isIdent_of_isSpace (hws _ (by simp))
  obtain ⟨h1, h2⟩ := scanIdent_spec n hn _ hstop l h
  have hr : (skipWs ((scanIdent l).emit .ident)).right = asc LBRACE :: more := by
    rw [skipWs_right, L.emit_right, h1, dropWhile_ws hws isSpace_asc_LBRACE]
  refine ⟨((((((skipWs ((scanIdent l).emit .ident)).peek).1).atEOL).1).peek).1, ?_, by simp, by simp [hr], ?_⟩
  · unfold lexIdent
    simp [L.peek_snd_eq, hr, hasPrefix_eq, L.atEOL_snd, L.atEOF, startsEol]
  · simp only [L.peek_fst, L.atEOL_fst]
    rw [views_congr (L.next_backup_toks _), views_congr (L.next_backup_toks _), views_congr (L.next_backup_toks _),
      views_skipWs, views_emit, views_congr (scanIdent_toks l), h2]
    simp

theorem startsEol_append_brace {ws : List Rune} (h : startsEol ws = false) (more : List Rune) :
    startsEol (ws ++ asc LBRACE :: more) = false := by
  cases ws with
  | nil => simp [startsEol]
  | cons x ws' =>
    cases ws' with
    | nil => simp [startsEol] at h ⊢; exact h
    | cons y ws'' => simpa [startsEol] using h

/-- **the output clause**: from the closing parenthesis of the dependencies to the opening brace -/
theorem outs_reaches (hparen : LexParenSpec) (outs : List Arg) (o : List Rune) (ho : OutsText outs o) (l : L)
    (more : List Rune) (ht : l.tokRev = []) (h : l.right = asc RPAREN :: (o ++ asc LBRACE :: more)) :
    ∃ l', Reaches l .rightParen l' .leftBrace ∧ l'.tokRev = [] ∧ l'.right = asc LBRACE :: more ∧
      ∃ ov, OutsViews outs ov ∧ views l' = views l ++ vRParen :: ov := by
  cases ho with
  | none ws hws =>
    obtain ⟨l1, e1, t1, r1, v1⟩ := lexRightParen_brace l o more hws ht h
    exact ⟨l1, reach_rightParen e1, t1, r1, [], Or.inl ⟨rfl, rfl⟩, v1⟩
  | single ws1 ws2 ws3 a txt hws1 hws2 harg hafter =>
    have h' : l.right = asc RPAREN :: (ws1 ++ asc MINUS :: asc GT :: (ws2 ++ (txt ++ (ws3 ++ asc LBRACE :: more)))) := by
      rw [h]; simp
    obtain ⟨l1, e1, t1, r1, v1⟩ := lexRightParen_arrow l ws1 _ hws1 ht h'
    cases harg with
    | str s hs =>
      have r1' : l1.right = asc MINUS :: asc GT :: (ws2 ++ asc QUOTE :: (s ++ asc QUOTE :: (ws3 ++ asc LBRACE :: more))) := by
        rw [r1]; simp
      obtain ⟨l2, e2, t2, r2, v2⟩ := lexOutputOp_quote l1 ws2 _ hws2 t1 r1'
      obtain ⟨l3, e3, t3, r3, v3⟩ := lexString_args l2 s (ws3 ++ asc LBRACE :: more) hs (by simp)
        (startsEol_append_brace hafter.2 more) t2 r2
      obtain ⟨l4, e4, t4, r4, v4⟩ := lexArgs_brace l3 ws3 more hafter.1 r3
      refine ⟨l4, ?_, t4, r4, [vOutput, argView (.str s)], Or.inr (Or.inl ⟨_, rfl, rfl⟩), ?_⟩
      · exact (reach_rightParen e1).trans ((reach_outputOp e2).trans ((reach_string e3).trans (reach_args e4)))
      · rw [v4, v3, v2, v1]; simp [argView]
    | ident n hne hn =>
      cases txt with
      | nil => exact absurd rfl hne
      | cons x n' =>
        have r1' : l1.right = asc MINUS :: asc GT :: (ws2 ++ x :: (n' ++ (ws3 ++ asc LBRACE :: more))) := by
          rw [r1]; simp
        obtain ⟨l2, e2, t2, r2, v2⟩ := lexOutputOp_ident l1 ws2 x _ hws2 (hn x (by simp)) t1 r1'
        obtain ⟨l3, e3, t3, r3, v3⟩ := lexIdent_brace l2 n' ws3 more (fun r hr => hn r (by simp [hr])) hafter r2
        refine ⟨l3, ?_, t3, r3, [vOutput, argView (.ident (x :: n'))], Or.inr (Or.inl ⟨_, rfl, rfl⟩), ?_⟩
        · exact (reach_rightParen e1).trans ((reach_outputOp e2).trans (reach_ident e3))
        · rw [v3, v2, v1, t2]; simp [argView]
  | list ws1 ws2 ws3 args p hws1 hws2 hws3 hne hp =>
    have h' : l.right = asc RPAREN :: (ws1 ++ asc MINUS :: asc GT :: (ws2 ++ (p ++ (ws3 ++ asc LBRACE :: more)))) := by
      rw [h]; simp
    obtain ⟨l1, e1, t1, r1, v1⟩ := lexRightParen_arrow l ws1 _ hws1 ht h'
    obtain ⟨p', hp'⟩ := ParenText.head hp
    have r1' : l1.right = asc MINUS :: asc GT :: (ws2 ++ asc LPAREN :: (p' ++ (ws3 ++ asc LBRACE :: more))) := by
      rw [r1, hp']; simp
    obtain ⟨l2, e2, t2, r2, v2⟩ := lexOutputOp_paren l1 ws2 _ hws2 t1 r1'
    obtain ⟨l3, e3, t3, r3, iv, hiv, v3⟩ := hparen outs p hp l2 (ws3 ++ asc LBRACE :: more) t2 (by rw [r2, hp']; simp)
    obtain ⟨l4, e4, t4, r4, v4⟩ := lexRightParen_brace l3 ws3 more hws3 t3 r3
    refine ⟨l4, ?_, t4, r4, vOutput :: (vLParen :: iv ++ [vRParen]), Or.inr (Or.inr ⟨hne, _, ?_, rfl⟩), ?_⟩
    · exact (reach_rightParen e1).trans ((reach_outputOp e2).trans (e3.trans (reach_rightParen e4)))
    · rcases hiv with ⟨h1, h2⟩ | h1
      · exact absurd h1 hne
      · exact Or.inr ⟨iv, h1, rfl⟩
    · rw [v4, v3, v2, v1]; simp

end Spok.RTT
