import Spok.Syntax.WF
/-! # Round trip: `trimSpace` (the model of `strings.TrimSpace`) and the comment normalisation

`trimSpace s` keeps only runes of `s`, begins and ends with a non-space rune (if it is not empty), is
idempotent, and ignores leading whitespace.  From these: `normComment` is stable under the formatter's
re-spelling.  Helpers live in `Spok.Trim`. -/
namespace Spok
namespace Trim

/-- `dropWhile` does nothing on a list whose head does not satisfy the predicate -/
theorem dropWhile_self {α} {p : α → Bool} {xs : List α} (h : ∀ r, xs.head? = some r → p r = false) :
    xs.dropWhile p = xs := by
  cases xs with
  | nil => rfl
  | cons x xs => simp [h x rfl]

/-- the head of what `dropWhile` leaves does not satisfy the predicate -/
theorem head_dropWhile {α} (p : α → Bool) (xs : List α) : ∀ r, (xs.dropWhile p).head? = some r → p r = false := by
  intro r hr
  have := List.head?_dropWhile_not p xs
  rw [hr] at this
  exact this

/-- trimming on the right -/
def rtrim (s : List Rune) : List Rune := (s.reverse.dropWhile isSpace).reverse

theorem trimSpace_eq (s : List Rune) : trimSpace s = rtrim (s.dropWhile isSpace) := rfl

theorem rtrim_mem {s : List Rune} {r : Rune} (h : r ∈ rtrim s) : r ∈ s := by
  unfold rtrim at h
  rw [List.mem_reverse] at h
  have := (List.dropWhile_sublist (l := s.reverse) isSpace).subset h
  simpa using this

theorem rtrim_last {s : List Rune} {r : Rune} (h : (rtrim s).getLast? = some r) : isSpace r = false := by
  unfold rtrim at h
  rw [List.getLast?_reverse] at h
  exact head_dropWhile _ _ r h

theorem rtrim_self {s : List Rune} (h : ∀ r, s.getLast? = some r → isSpace r = false) : rtrim s = s := by
  unfold rtrim
  rw [dropWhile_self (by rw [List.head?_reverse]; exact h)]
  simp

theorem dropWhile_append_last {α} (p : α → Bool) (h : α) (hp : p h = false) :
    ∀ zs : List α, ∃ w, (zs ++ [h]).dropWhile p = w ++ [h] := by
  intro zs
  induction zs with
  | nil => exact ⟨[], by simp [hp]⟩
  | cons z zs ih =>
    by_cases hz : p z = true
    · obtain ⟨w, hw⟩ := ih
      exact ⟨w, by simp [hz, hw]⟩
    · exact ⟨z :: zs, by simp [hz]⟩

/-- trimming on the right keeps a non-space head -/
theorem rtrim_head {h : Rune} {tl : List Rune} (hp : isSpace h = false) : ∃ tl', rtrim (h :: tl) = h :: tl' := by
  unfold rtrim
  obtain ⟨w, hw⟩ := dropWhile_append_last isSpace h hp tl.reverse
  rw [List.reverse_cons, hw]
  exact ⟨w.reverse, by simp⟩

theorem rtrim_nil : rtrim [] = [] := rfl

/-- the head of a trimmed text is not a space -/
theorem trimSpace_head (s : List Rune) : ∀ r, (trimSpace s).head? = some r → isSpace r = false := by
  intro r hr
  rw [trimSpace_eq] at hr
  cases hd : s.dropWhile isSpace with
  | nil => rw [hd, rtrim_nil] at hr; cases hr
  | cons h tl =>
    have hh : isSpace h = false := head_dropWhile isSpace s h (by rw [hd]; rfl)
    obtain ⟨tl', ht⟩ := rtrim_head (tl := tl) hh
    rw [hd, ht] at hr
    cases hr
    exact hh

end Trim

open Trim

/-- the last rune of a trimmed text is not a space -/
theorem trimSpace_last {s : List Rune} {r : Rune} (h : (trimSpace s).getLast? = some r) : isSpace r = false :=
  rtrim_last h

theorem trimSpace_mem {s : List Rune} {r : Rune} (h : r ∈ trimSpace s) : r ∈ s := by
  rw [trimSpace_eq] at h
  exact (List.dropWhile_sublist (l := s) isSpace).subset (rtrim_mem h)

theorem trimSpace_nil : trimSpace [] = [] := rfl

/-- leading whitespace is ignored -/
theorem trimSpace_cons_space {r : Rune} (h : isSpace r = true) (s : List Rune) : trimSpace (r :: s) = trimSpace s := by
  simp [trimSpace, h]

/-- `strings.TrimSpace` is idempotent -/
theorem trimSpace_idem (s : List Rune) : trimSpace (trimSpace s) = trimSpace s := by
  rw [trimSpace_eq (trimSpace s), dropWhile_self (trimSpace_head s)]
  exact rtrim_self (fun r hr => trimSpace_last hr)

theorem isSpace_SP : isSpace (asc SP) = true := by decide

/-- the formatter's re-spelling ` ` + trimmed text trims to the same text -/
theorem trimSpace_respell (c : List Rune) : trimSpace (asc SP :: trimSpace c) = trimSpace c := by
  rw [trimSpace_cons_space isSpace_SP, trimSpace_idem]

/-! ## `normComment` -/

theorem normComment_nil : normComment [] = [] := rfl

theorem normComment_ne {c : List Rune} (h : c ≠ []) : normComment c = asc SP :: trimSpace c := by
  cases c with
  | nil => exact absurd rfl h
  | cons a c => rfl

/-- emptiness is preserved -/
theorem normComment_isEmpty (c : List Rune) : (normComment c).isEmpty = c.isEmpty := by
  cases c <;> rfl

theorem trimSpace_normComment (c : List Rune) : trimSpace (normComment c) = trimSpace c := by
  cases c with
  | nil => rfl
  | cons a c => exact trimSpace_respell (a :: c)

end Spok
