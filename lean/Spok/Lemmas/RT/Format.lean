import Spok.Lemmas.RT.Trim
/-! # Round trip: the formatter's output is an admissible layout of the normalised tree

`renders_format : wfTree t = true → Doc (norm t) (format t)`: the text `ast.Tree.String` produces is the
layout with single blanks, `", "` separators, four-blank indentation and LF line ends.

Helpers live in `Spok.Fmt`. -/
namespace Spok
namespace Fmt

/-! ## character classes -/

theorem isSpaceCp_mem {c : Nat} (h : isSpaceCp c = true) :
    c ∈ [9, 10, 11, 12, 13, 32, 133, 160, 5760, 8192, 8193, 8194, 8195, 8196, 8197, 8198, 8199, 8200, 8201, 8202,
         8232, 8233, 8239, 8287, 12288] := by
  unfold isSpaceCp at h
  split at h
  · simp at h; simp; omega
  · simp [inTable, Generated.Unicode.space] at h; simp; omega

set_option maxRecDepth 100000 in
theorem space_not_letter_list :
    ∀ c ∈ [9, 10, 11, 12, 13, 32, 133, 160, 5760, 8192, 8193, 8194, 8195, 8196, 8197, 8198, 8199, 8200, 8201, 8202,
         8232, 8233, 8239, 8287, 12288], isLetterCp c = false := by decide +kernel

/-- whitespace runes are not identifier runes (on Go's own tables) -/
theorem isIdent_of_isSpace {r : Rune} (h : isSpace r = true) : isIdent r = false := by
  have hm := isSpaceCp_mem h
  have hl := space_not_letter_list _ hm
  have h95 : r.cp ≠ 95 := by
    intro h'; rw [h'] at hm; simp at hm
  simp [isIdent, isLetter, hl, h95]

theorem isSpace_of_isIdent {r : Rune} (h : isIdent r = true) : isSpace r = false := by
  cases hs : isSpace r with
  | false => rfl
  | true => rw [isIdent_of_isSpace hs] at h; cases h

theorem ws_of_all {ws : List Rune} (h : ws.all isSpace = true) : Ws ws := by
  intro r hr; exact List.all_eq_true.mp h r hr

theorem ws_nil : Ws [] := by intro r hr; cases hr

theorem ws_append {a b : List Rune} (ha : Ws a) (hb : Ws b) : Ws (a ++ b) := by
  intro r hr
  rcases List.mem_append.mp hr with h | h
  · exact ha r h
  · exact hb r h

/-! ## the literals -/

theorem lit_commentOpen : stdLits.commentOpen = [asc HASH, asc SP] := by decide
theorem lit_nl : stdLits.nl = [asc NL] := by decide
theorem lit_quote : stdLits.quote = [asc QUOTE] := by decide
theorem lit_assignOp : stdLits.assignOp = [asc SP, asc COLON, asc EQUALS, asc SP] := by decide
theorem lit_taskKw : stdLits.taskKw = [asc 116, asc 97, asc 115, asc 107, asc SP] := by decide
theorem lit_lparen : stdLits.lparen = [asc LPAREN] := by decide
theorem lit_rparen : stdLits.rparen = [asc RPAREN] := by decide
theorem lit_sep : stdLits.sep = [asc COMMA, asc SP] := by decide
theorem lit_arrow : stdLits.arrow = [asc SP, asc MINUS, asc GT, asc SP] := by decide
theorem lit_bodyOpen : stdLits.bodyOpen = [asc SP, asc LBRACE, asc NL] := by decide
theorem lit_indent : stdLits.indent = [asc SP, asc SP, asc SP, asc SP] := by decide
theorem lit_bodyClose : stdLits.bodyClose = [asc RBRACE, asc NL, asc NL] := by decide
theorem lit_emptyComment : stdLits.emptyComment = [asc HASH, asc NL] := by decide

/-! ## Bool ↔ Prop bridges -/

theorem identRunes_of {n : List Rune} (h : identRunesB n = true) : IdentRunes n := by
  intro r hr; exact List.all_eq_true.mp h r hr

theorem strOK_of {s : List Rune} (h : strOKB s = true) : StrOK s := by
  simp only [strOKB, Bool.and_eq_true, List.all_eq_true] at h
  exact ⟨fun r hr => by simpa using h.1 r hr, fun r hr => by simpa using h.2 r hr⟩

theorem commentOK_of {c : List Rune} (h : commentOKB c = true) : CommentOK c := by
  simp only [commentOKB, List.all_eq_true] at h
  exact fun r hr => by simpa using h r hr

theorem firstCmdOK_of {c : List Rune} (h : firstCmdOKB c = true) : FirstCmdOK c := by
  cases c with
  | nil => simp [firstCmdOKB] at h
  | cons a c' =>
    simp only [firstCmdOKB, Bool.and_eq_true, Bool.not_eq_true'] at h
    exact ⟨h.1.1, h.1.2, h.2⟩

theorem nextCmdOK_of {c : List Rune} (h : nextCmdOKB c = true) : NextCmdOK c := by
  cases c with
  | nil => simp [nextCmdOKB] at h
  | cons a c' =>
    simp only [nextCmdOKB, Bool.and_eq_true, Bool.not_eq_true'] at h
    exact ⟨h.1.1, h.1.2, h.2⟩

theorem ne_nil_of_isEmpty {α} {xs : List α} (h : (!xs.isEmpty) = true) : xs ≠ [] := by
  cases xs with
  | nil => simp at h
  | cons => simp

/-! ## arguments -/

theorem printArg_str (s : List Rune) : printArg stdLits (.str s) = asc QUOTE :: s ++ [asc QUOTE] := by
  simp [printArg, lit_quote]

theorem printArg_ident (n : List Rune) : printArg stdLits (.ident n) = n := rfl

theorem argText_of {a : Arg} (h : argOKB a = true) : ArgText a (printArg stdLits a) := by
  cases a with
  | str s => rw [printArg_str]; exact ArgText.str s (strOK_of h)
  | ident n =>
    simp only [argOKB, Bool.and_eq_true] at h
    exact ArgText.ident n (ne_nil_of_isEmpty h.1) (identRunes_of h.2)

theorem afterArg_nil (a : Arg) : AfterArg a [] := by
  cases a with
  | str s => exact ⟨ws_nil, rfl⟩
  | ident n => exact ws_nil

theorem afterArg_sp (a : Arg) : AfterArg a [asc SP] := by
  cases a with
  | str s => exact ⟨ws_of_all (by decide), by decide⟩
  | ident n => exact ws_of_all (by decide)

/-- `a, b, c` -/
theorem items_format : ∀ (as : List Arg) (a : Arg), (∀ x ∈ a :: as, argOKB x = true) →
    ItemsText (a :: as) (joinR [asc COMMA, asc SP] ((a :: as).map (printArg stdLits))) := by
  intro as
  induction as with
  | nil =>
    intro a h
    have := ItemsText.last a _ [] (argText_of (h a (by simp))) (afterArg_nil a)
    simpa [joinR] using this
  | cons b bs ih =>
    intro a h
    have h2 := ih b (fun x hx => h x (by simp [hx]))
    have := ItemsText.cons a _ [] [asc SP] (b :: bs) _ (argText_of (h a (by simp))) (afterArg_nil a)
      (ws_of_all (by decide)) h2
    simpa [joinR, List.append_assoc] using this

/-- the text of an argument list as the formatter writes it -/
def parenTxt (args : List Arg) : List Rune :=
  asc LPAREN :: joinR [asc COMMA, asc SP] (args.map (printArg stdLits)) ++ [asc RPAREN]

theorem paren_format (args : List Arg) (h : ∀ x ∈ args, argOKB x = true) : ParenText args (parenTxt args) := by
  cases args with
  | nil =>
    have := ParenText.empty [] ws_nil
    simpa [parenTxt, joinR] using this
  | cons a as =>
    have := ParenText.items [] (a :: as) _ ws_nil (items_format as a h)
    simpa [parenTxt] using this

/-! ## the output clause -/

/-- what the formatter writes between `)` and `{` -/
def outsTxt (outs : List Arg) : List Rune :=
  (match outs with
   | [] => []
   | [o] => [asc SP, asc MINUS, asc GT, asc SP] ++ printArg stdLits o
   | os => [asc SP, asc MINUS, asc GT, asc SP] ++ parenTxt os) ++ [asc SP]

theorem outs_format (outs : List Arg) (h : ∀ x ∈ outs, argOKB x = true) : OutsText outs (outsTxt outs) := by
  match outs, h with
  | [], _ =>
    exact OutsText.none [asc SP] (ws_of_all (by decide))
  | [o], h =>
    have := OutsText.single [asc SP] [asc SP] [asc SP] o _ (ws_of_all (by decide)) (ws_of_all (by decide))
      (argText_of (h o (by simp))) (afterArg_sp o)
    simpa [outsTxt, List.append_assoc] using this
  | a :: b :: os, h =>
    have := OutsText.list [asc SP] [asc SP] [asc SP] (a :: b :: os) _ (ws_of_all (by decide)) (ws_of_all (by decide))
      (ws_of_all (by decide)) (by simp) (paren_format (a :: b :: os) h)
    simpa [outsTxt, List.append_assoc] using this

/-! ## the body -/

/-- one command line as the formatter writes it -/
def cmdLine (c : List Rune) : List Rune := [asc SP, asc SP, asc SP, asc SP] ++ c ++ [asc NL]

theorem cmdSep_indent : CmdSep [asc NL, asc SP, asc SP, asc SP, asc SP] := by
  unfold CmdSep
  exact ⟨[], [asc SP, asc SP, asc SP, asc SP], (fun r hr => by cases hr), ws_of_all (by decide), rfl⟩

theorem cmdSep_nl : CmdSep [asc NL] := by
  unfold CmdSep
  exact ⟨[], [], (fun r hr => by cases hr), ws_nil, rfl⟩

theorem moreCmds_format : ∀ (cs : List (List Rune)) (prev : List Rune), (∀ c ∈ cs, nextCmdOKB c = true) →
    MoreCmds cs prev (asc NL :: (cs.map cmdLine).flatten) := by
  intro cs
  induction cs with
  | nil =>
    intro prev _
    exact MoreCmds.done prev [asc NL] (Or.inl cmdSep_nl)
  | cons c cs ih =>
    intro prev h
    have := MoreCmds.cons prev _ c cs _ cmdSep_indent (nextCmdOK_of (h c (by simp)))
      (ih c (fun x hx => h x (by simp [hx])))
    simpa [cmdLine, List.append_assoc] using this

theorem body_format (cmds : List (List Rune)) (h : cmdsOKB cmds = true) :
    BodyText cmds (asc NL :: (cmds.map cmdLine).flatten) := by
  cases cmds with
  | nil => exact BodyText.empty [asc NL] (ws_of_all (by decide))
  | cons c cs =>
    simp only [cmdsOKB, Bool.and_eq_true, List.all_eq_true] at h
    have := BodyText.cmds [asc NL, asc SP, asc SP, asc SP, asc SP] c cs _ (ws_of_all (by decide))
      (firstCmdOK_of h.1) (moreCmds_format cs c h.2)
    simpa [cmdLine, List.append_assoc] using this

/-! ## comments -/

theorem commentOK_respell {c : List Rune} (h : CommentOK c) : CommentOK (asc SP :: trimSpace c) := by
  intro r hr
  simp only [List.mem_cons] at hr
  rcases hr with rfl | hr
  · decide
  · exact h r (trimSpace_mem hr)

theorem endsCR_respell (c : List Rune) : endsWithCp (asc SP :: trimSpace c) CR = false := by
  unfold endsWithCp
  cases ht : trimSpace c with
  | nil => decide
  | cons y ys =>
    rw [List.getLast?_cons_cons]
    cases hl : (y :: ys).getLast? with
    | none => rfl
    | some r =>
      have hs : isSpace r = false := trimSpace_last (by rw [ht]; exact hl)
      have : r.cp ≠ CR := by
        intro hc
        have : isSpace r = true := by unfold isSpace; rw [hc]; decide
        rw [hs] at this; cases this
      simpa using this

theorem printComment_nil : printComment stdLits [] = [] := rfl

theorem printComment_cons (a : Rune) (c : List Rune) :
    printComment stdLits (a :: c) = asc HASH :: asc SP :: trimSpace (a :: c) ++ [asc NL] := by
  simp [printComment, lit_commentOpen, lit_nl]

theorem stmt_comment (c rest : List Rune) (h : commentOKB c = true) :
    StmtText (.comment (normComment c)) (printNode stdLits (.comment c)) rest := by
  cases c with
  | nil =>
    have := StmtText.comment [] [asc NL] rest (by intro r hr; cases hr) (Or.inl (Or.inl rfl))
      (by intro h; simp [endsWithCp] at h)
    simpa [printNode, lit_emptyComment, normComment] using this
  | cons a c =>
    have := StmtText.comment (asc SP :: trimSpace (a :: c)) [asc NL] rest (commentOK_respell (commentOK_of h))
      (Or.inl (Or.inl rfl)) (by intro h; rw [endsCR_respell] at h; cases h)
    have e : normComment (a :: c) = asc SP :: trimSpace (a :: c) := rfl
    rw [e]
    simpa [printNode, printComment_cons] using this

/-! ## the first rune of a formatted statement -/

/-- a text that is empty or begins (without leading whitespace) like a statement -/
def StartsStmt (txt : List Rune) : Prop :=
  txt = [] ∨ ∃ r tl, txt = r :: tl ∧ isSpace r = false ∧ (isIdent r = true ∨ r.cp = HASH)

theorem startsStmt_hash (tl : List Rune) : StartsStmt (asc HASH :: tl) :=
  Or.inr ⟨_, _, rfl, by decide, Or.inr rfl⟩

theorem printNode_starts (node : Node) (h : nodeOKB node = true) (rest : List Rune) :
    StartsStmt (printNode stdLits node ++ rest) := by
  cases node with
  | comment c =>
    cases c with
    | nil => simp only [printNode, lit_emptyComment, List.isEmpty_nil, if_true]; exact startsStmt_hash _
    | cons a c =>
      simp only [printNode, List.isEmpty_cons, Bool.false_eq_true, if_false, printComment_cons]
      exact startsStmt_hash _
  | assign n v =>
    simp only [nodeOKB, Bool.and_eq_true] at h
    have hne := ne_nil_of_isEmpty h.1.1.1
    have hid := identRunes_of h.1.1.2
    cases n with
    | nil => exact absurd rfl hne
    | cons a n =>
      have ha : isIdent a = true := hid a (by simp)
      exact Or.inr ⟨a, _, rfl, isSpace_of_isIdent ha, Or.inl ha⟩
  | task name doc deps outs cmds =>
    cases doc with
    | nil =>
      simp only [printNode, printComment_nil, lit_taskKw, List.append_assoc, List.nil_append, List.cons_append]
      exact Or.inr ⟨_, _, rfl, by decide, Or.inl (by decide)⟩
    | cons a doc =>
      simp only [printNode, printComment_cons, List.cons_append]
      exact startsStmt_hash _

theorem format_cons (node : Node) (t : Tree) : format (node :: t) = printNode stdLits node ++ format t := rfl

theorem format_starts : ∀ (t : Tree), (∀ n ∈ t, nodeOKB n = true) → StartsStmt (format t) := by
  intro t h
  cases t with
  | nil => exact Or.inl rfl
  | cons node t => rw [format_cons]; exact printNode_starts node (h node (by simp)) _

theorem nextStmtOK_nl {txt : List Rune} (h : StartsStmt txt) : NextStmtOK (asc NL :: txt) := by
  unfold NextStmtOK
  have hnl : isSpace (asc NL) = true := by decide
  rw [List.dropWhile_cons_of_pos hnl]
  rcases h with rfl | ⟨r, tl, rfl, hs, hi⟩
  · simp
  · rw [List.dropWhile_cons_of_neg (by simp [hs])]
    exact hi

/-! ## layouts -/

/-- more whitespace in front of a file -/
theorem doc_ws {t : Tree} {txt : List Rune} (h : Doc t txt) (ws : List Rune) (hws : Ws ws) : Doc t (ws ++ txt) := by
  cases h with
  | nil ws' hws' => exact Doc.nil _ (ws_append hws hws')
  | cons ws' node txt' t' rest hws' hst hd hadj =>
    have := Doc.cons (ws ++ ws') node txt' t' rest (ws_append hws hws') hst hd hadj
    simpa [List.append_assoc] using this

theorem normNode_isNonEmptyComment (n : Node) : (normNode n).isNonEmptyComment = n.isNonEmptyComment := by
  cases n with
  | comment c => simp [normNode, Node.isNonEmptyComment, normComment_isEmpty]
  | assign => rfl
  | task => rfl

theorem normNode_isDoclessTask (n : Node) : (normNode n).isDoclessTask = n.isDoclessTask := by
  cases n with
  | comment c => rfl
  | assign => rfl
  | task name doc deps outs cmds => simp [normNode, Node.isDoclessTask, normComment_isEmpty]

/-- the side condition of `Doc.cons` for the normalised tree -/
theorem adj_norm (node : Node) (t : Tree) (h : adjOKB (node :: t) = true) :
    (normNode node).isNonEmptyComment = true → ∀ n2, (norm t).head? = some n2 → n2.isDoclessTask = false := by
  intro hne n2 hn2
  cases t with
  | nil => simp [norm] at hn2
  | cons m t =>
    simp only [norm, List.map_cons, List.head?_cons, Option.some.injEq] at hn2
    subst hn2
    rw [normNode_isDoclessTask]
    rw [normNode_isNonEmptyComment] at hne
    simp only [adjOKB, Bool.and_eq_true, Bool.not_eq_true', Bool.and_eq_false_iff] at h
    rcases h.1.1 with h1 | h1
    · rw [h1] at hne; cases hne
    · exact h1

theorem adj_tail (node : Node) (t : Tree) (h : adjOKB (node :: t) = true) : adjOKB t = true := by
  cases t with
  | nil => rfl
  | cons m t =>
    simp only [adjOKB, Bool.and_eq_true] at h
    exact h.2

theorem adj_identAssign (node : Node) (t : Tree) (h : adjOKB (node :: t) = true) (hi : node.isIdentAssign = true) : t = [] := by
  cases t with
  | nil => rfl
  | cons m t =>
    simp only [adjOKB, Bool.and_eq_true, Bool.not_eq_true'] at h
    rw [h.1.2] at hi; cases hi

/-! ## assignments -/

theorem stmt_assignStr (n s rest : List Rune) (hn : n ≠ []) (hi : IdentRunes n) (hk : kwPrefix n = false) (hs : StrOK s) :
    StmtText (.assign n (.str s)) (printNode stdLits (.assign n (.str s))) rest := by
  have := StmtText.assignStr n [asc SP] [asc SP] s [] [asc NL] rest hn hi hk (ws_of_all (by decide))
    (ws_of_all (by decide)) hs (fun r hr => by cases hr) (Or.inl (Or.inl rfl))
  simpa [printNode, printVal, lit_assignOp, lit_quote, lit_nl, List.append_assoc] using this

/-- `NAME := f(args)` without the line end -/
def callTxt (n f : List Rune) (args : List Arg) : List Rune :=
  n ++ [asc SP] ++ asc COLON :: asc EQUALS :: [asc SP] ++ f ++ [] ++ parenTxt args

theorem printNode_call (n f : List Rune) (args : List Arg) :
    printNode stdLits (.assign n (.call f args)) = callTxt n f args ++ [asc NL] := by
  simp [printNode, printVal, callTxt, parenTxt, lit_assignOp, lit_lparen, lit_rparen, lit_sep, lit_nl, List.append_assoc]

theorem stmt_assignCall (n f : List Rune) (args : List Arg) (rest : List Rune) (hn : n ≠ []) (hi : IdentRunes n)
    (hk : kwPrefix n = false) (hf : f ≠ []) (hfi : IdentRunes f) (ha : ∀ x ∈ args, argOKB x = true)
    (hrest : NextStmtOK rest) :
    StmtText (.assign n (.call f args)) (callTxt n f args) rest :=
  StmtText.assignCall n [asc SP] [asc SP] f [] args (parenTxt args) rest hn hi hk (ws_of_all (by decide))
    (ws_of_all (by decide)) hf hfi ws_nil (paren_format args ha) hrest

theorem stmt_assignIdent (n v : List Rune) (hn : n ≠ []) (hi : IdentRunes n) (hk : kwPrefix n = false)
    (hv : v ≠ []) (hvi : IdentRunes v) :
    StmtText (.assign n (.ident v)) (printNode stdLits (.assign n (.ident v))) [] := by
  have := StmtText.assignIdent n [asc SP] [asc SP] v [asc NL] hn hi hk (ws_of_all (by decide))
    (ws_of_all (by decide)) hv hvi (ws_of_all (by decide))
  simpa [printNode, printVal, lit_assignOp, lit_nl, List.append_assoc] using this

/-! ## tasks -/

/-- a task as the formatter writes it, up to and including the closing brace -/
def taskTxt (name doc : List Rune) (deps outs : List Arg) (cmds : List (List Rune)) : List Rune :=
  printComment stdLits doc ++ asc 116 :: asc 97 :: asc 115 :: asc 107 :: [asc SP] ++ name ++ [] ++ parenTxt deps ++
    outsTxt outs ++ asc LBRACE :: (asc NL :: (cmds.map cmdLine).flatten) ++ [asc RBRACE]

theorem cmdLines_eq (cmds : List (List Rune)) :
    (cmds.map fun c => stdLits.indent ++ c ++ stdLits.nl) = cmds.map cmdLine := by
  apply List.map_congr_left
  intro c _
  simp [cmdLine, lit_indent, lit_nl]

theorem printNode_task (name doc : List Rune) (deps outs : List Arg) (cmds : List (List Rune)) :
    printNode stdLits (.task name doc deps outs cmds) = taskTxt name doc deps outs cmds ++ [asc NL, asc NL] := by
  simp only [printNode]
  rw [cmdLines_eq]
  match outs with
  | [] =>
    simp [taskTxt, outsTxt, parenTxt, lit_taskKw, lit_lparen, lit_rparen, lit_sep, lit_bodyOpen,
      lit_bodyClose, List.append_assoc]
  | [o] =>
    simp [taskTxt, outsTxt, parenTxt, lit_taskKw, lit_lparen, lit_rparen, lit_sep, lit_bodyOpen,
      lit_bodyClose, lit_arrow, List.append_assoc]
  | a :: b :: os =>
    simp [taskTxt, outsTxt, parenTxt, lit_taskKw, lit_lparen, lit_rparen, lit_sep, lit_bodyOpen,
      lit_bodyClose, lit_arrow, List.append_assoc]

theorem stmt_task (name doc : List Rune) (deps outs : List Arg) (cmds : List (List Rune)) (rest : List Rune)
    (hname : IdentRunes name) (hdoc : CommentOK doc) (hd : ∀ x ∈ deps, argOKB x = true)
    (ho : ∀ x ∈ outs, argOKB x = true) (hcm : cmdsOKB cmds = true)
    (hrest : ∀ r, rest.head? = some r → r.cp ≠ RBRACE ∧ r.cp ≠ LBRACE) :
    StmtText (.task name (normComment doc) deps outs cmds) (taskTxt name doc deps outs cmds) rest := by
  cases doc with
  | nil =>
    exact StmtText.task [] [] [] [] [asc SP] name [] deps (parenTxt deps) outs (outsTxt outs) cmds _ rest
      (Or.inl ⟨rfl, rfl⟩) (ws_of_all (by decide)) hname ws_nil (paren_format deps hd) (outs_format outs ho)
      (body_format cmds hcm) hrest
  | cons a c =>
    have := StmtText.task (asc SP :: trimSpace (a :: c)) (asc HASH :: (asc SP :: trimSpace (a :: c)) ++ [asc NL] ++ [])
      [asc NL] [] [asc SP] name [] deps (parenTxt deps) outs (outsTxt outs) cmds _ rest
      (Or.inr ⟨by simp, commentOK_respell hdoc, Or.inl rfl, (by intro h; rw [endsCR_respell] at h; cases h), ws_nil, rfl⟩)
      (ws_of_all (by decide)) hname ws_nil (paren_format deps hd) (outs_format outs ho)
      (body_format cmds hcm) hrest
    have e : normComment (a :: c) = asc SP :: trimSpace (a :: c) := rfl
    rw [e]
    simpa [taskTxt, printComment_cons, List.append_assoc] using this

/-! ## the whole file -/

theorem doc_format : ∀ (t : Tree), (∀ n ∈ t, nodeOKB n = true) → adjOKB t = true → Doc (norm t) (format t)
  | [] => fun _ _ => Doc.nil [] ws_nil
  | node :: t => by
    intro hok hadj
    have hok' : ∀ n ∈ t, nodeOKB n = true := fun n hn => hok n (by simp [hn])
    have ih := doc_format t hok' (adj_tail node t hadj)
    have hadj' := adj_norm node t hadj
    have hnode := hok node (by simp)
    rw [format_cons]
    show Doc (normNode node :: norm t) _
    cases node with
    | comment c =>
      have := Doc.cons [] _ _ _ (format t) ws_nil (stmt_comment c (format t) hnode) ih hadj'
      simpa [normNode] using this
    | assign n v =>
      simp only [nodeOKB, Bool.and_eq_true] at hnode
      obtain ⟨⟨⟨hn, hi⟩, hk0⟩, hv⟩ := hnode
      have hk : kwPrefix n = false := by simpa using hk0
      have hn' := ne_nil_of_isEmpty hn
      have hi' := identRunes_of hi
      cases v with
      | str s =>
        have := Doc.cons [] _ _ _ (format t) ws_nil
          (stmt_assignStr n s (format t) hn' hi' hk (strOK_of hv)) ih hadj'
        simpa [normNode] using this
      | ident w =>
        have ht : t = [] := adj_identAssign _ t hadj rfl
        subst ht
        simp only [valOKB, Bool.and_eq_true] at hv
        have := Doc.cons [] _ _ _ [] ws_nil
          (stmt_assignIdent n w hn' hi' hk (ne_nil_of_isEmpty hv.1) (identRunes_of hv.2)) (Doc.nil [] ws_nil) hadj'
        simpa [format, printTree, normNode, norm] using this
      | call f args =>
        simp only [valOKB, Bool.and_eq_true, List.all_eq_true] at hv
        have hrest : NextStmtOK (asc NL :: format t) := nextStmtOK_nl (format_starts t hok')
        have := Doc.cons [] _ _ _ (asc NL :: format t) ws_nil
          (stmt_assignCall n f args _ hn' hi' hk (ne_nil_of_isEmpty hv.1.1) (identRunes_of hv.1.2) hv.2 hrest)
          (doc_ws ih [asc NL] (ws_of_all (by decide))) hadj'
        simpa [printNode_call, normNode, List.append_assoc] using this
    | task name doc deps outs cmds =>
      simp only [nodeOKB, Bool.and_eq_true, List.all_eq_true] at hnode
      obtain ⟨⟨⟨⟨hname, hdoc⟩, hd⟩, ho⟩, hcm⟩ := hnode
      have := Doc.cons [] _ _ _ (asc NL :: asc NL :: format t) ws_nil
        (stmt_task name doc deps outs cmds _ (identRunes_of hname) (commentOK_of hdoc) hd ho hcm
          (by intro r hr; cases hr; exact ⟨by decide, by decide⟩))
        (doc_ws ih [asc NL, asc NL] (ws_of_all (by decide))) hadj'
      simpa [printNode_task, normNode, List.append_assoc] using this

end Fmt

/-- the formatter's output is an admissible layout of the normalised tree -/
theorem renders_format : ∀ t, wfTree t = true → Doc (norm t) (format t) := by
  intro t h
  simp only [wfTree, Bool.and_eq_true, List.all_eq_true] at h
  exact Fmt.doc_format t h.1 h.2

/-! ## non-vacuity: a tree with every kind of statement satisfies `wfTree` -/
namespace Fmt

theorem ex_scan : cmdScanOK [asc 111, asc SP, asc 120] = true := by
  simp [cmdScanOK, asc, isASCII]

/-- `#  h ⏎ # ⏎ y := f("o", x) ⏎ # d ⏎ task b(x) -> "o" { go x ⏎ o x } ⏎ z := x` -/
def exTree : Tree :=
  [.comment [asc SP, asc 104, asc SP], .comment [],
   .assign [asc 121] (.call [asc 102] [.str [asc 111], .ident [asc 120]]),
   .task [asc 98] [asc 100] [.ident [asc 120]] [.str [asc 111]] [[asc 103, asc 111, asc SP, asc 120], [asc 111, asc SP, asc 120]],
   .assign [asc 122] (.ident [asc 120])]

theorem exTree_wf : wfTree exTree = true := by
  simp only [exTree, wfTree, List.all_cons, List.all_nil, nodeOKB, cmdsOKB, firstCmdOKB, nextCmdOKB, ex_scan]
  decide

example : Doc (norm exTree) (format exTree) := renders_format exTree exTree_wf

end Fmt

end Spok
