import Spok.Lemmas.RT.Defs
import Spok.Lemmas.LexWfLoops
/-! # Round trip: primitive lemmas about the lexer machine, shared by the lexing lemmas

Everything here speaks about the three components of a scanner state that decide the control flow and the
token texts — `right` (remaining input), `tokRev` (token under construction) and `views` (tokens emitted,
without offsets) — and, for the primitives, `left`.  The counters `pos start line startLine width` only
feed offsets into tokens; `width` matters to `backup` alone, and every `backup` of the model directly
follows a `next`, so `(l.next).1.backup` is characterised as a whole.

Contents: character classes (white space is never an identifier rune; the ASCII punctuation used by the
syntax is neither), list facts about `takeWhile / dropWhile` on `piece ++ rest`, projections of the
primitives, the scanning loops on shaped input (`skipWs scanIdent scanComment scanString skipBlanks`),
`Goes`, the chaining form of `Reaches` in which all lemmas about state functions are stated, one `goes_lexXxx`
lemma per state function and branch used by statements, arguments and parentheses (`lexStart lexHash lexComment
lexIdent lexDeclare lexDeclString lexLeftParen lexArgs lexComma lexString lexRightParen`), the lexing of one
argument (`goes_arg`), and entering / leaving a statement boundary (`AtStmt`). -/
set_option linter.unusedSimpArgs false
namespace Spok
namespace RT

/-! ## character classes -/

/-- `isIdent` on code points -/
def identCp (c : Nat) : Bool := isLetterCp c || c == 95

theorem isIdent_eq (r : Rune) : isIdent r = identCp r.cp := rfl
theorem isSpace_eq (r : Rune) : isSpace r = isSpaceCp r.cp := rfl
@[simp] theorem asc_cp (c : Nat) : (asc c).cp = c := rfl
@[simp] theorem isIdent_asc (c : Nat) : isIdent (asc c) = identCp c := rfl
@[simp] theorem isSpace_asc (c : Nat) : isSpace (asc c) = isSpaceCp c := rfl

/-- all code points a range table contains -/
def tablePoints : List (Nat × Nat × Nat) → List Nat
  | [] => []
  | (lo, hi, st) :: t => (List.range ((hi - lo) / st + 1)).map (fun k => lo + k * st) ++ tablePoints t

theorem mem_tablePoints {t : List (Nat × Nat × Nat)} {c : Nat} (h : inTable t c = true) : c ∈ tablePoints t := by
  induction t with
  | nil => simp [inTable] at h
  | cons e t ih =>
    obtain ⟨lo, hi, st⟩ := e
    simp only [inTable, Bool.or_eq_true, Bool.and_eq_true, decide_eq_true_eq, beq_iff_eq] at h
    simp only [tablePoints, List.mem_append, List.mem_map, List.mem_range]
    rcases h with ⟨⟨h1, h2⟩, h3⟩ | h
    · left
      refine ⟨(c - lo) / st, ?_, ?_⟩
      · have : (c - lo) / st ≤ (hi - lo) / st := Nat.div_le_div_right (by omega)
        omega
      · have := Nat.div_mul_cancel (Nat.dvd_of_mod_eq_zero h3)
        omega
    · exact Or.inr (ih h)

/-- a finite list containing every white-space code point -/
def spacePoints : List Nat := List.range 256 ++ tablePoints Generated.Unicode.space

theorem spacePoints_check : (spacePoints.all fun c => !isSpaceCp c || !identCp c) = true := by
  decide +kernel

/-- Unicode white space is never a letter nor `_` (checked on Go's own tables) -/
theorem isSpaceCp_not_identCp {c : Nat} (h : isSpaceCp c = true) : identCp c = false := by
  have hm : c ∈ spacePoints := by
    unfold spacePoints
    unfold isSpaceCp at h
    split at h
    · exact List.mem_append_left _ (List.mem_range.mpr (by omega))
    · exact List.mem_append_right _ (mem_tablePoints h)
  have := spacePoints_check
  rw [List.all_eq_true] at this
  have := this c hm
  simpa [h] using this

theorem isSpace_not_ident {r : Rune} (h : isSpace r = true) : isIdent r = false :=
  isSpaceCp_not_identCp h

theorem isIdent_not_space {r : Rune} (h : isIdent r = true) : isSpace r = false := by
  cases hs : isSpace r with
  | false => rfl
  | true => rw [isSpace_not_ident hs] at h; cases h

@[simp] theorem identCp_QUOTE : identCp QUOTE = false := by decide
@[simp] theorem identCp_HASH : identCp HASH = false := by decide
@[simp] theorem identCp_LPAREN : identCp LPAREN = false := by decide
@[simp] theorem identCp_RPAREN : identCp RPAREN = false := by decide
@[simp] theorem identCp_COMMA : identCp COMMA = false := by decide
@[simp] theorem identCp_MINUS : identCp MINUS = false := by decide
@[simp] theorem identCp_COLON : identCp COLON = false := by decide
@[simp] theorem identCp_EQUALS : identCp EQUALS = false := by decide
@[simp] theorem identCp_GT : identCp GT = false := by decide
@[simp] theorem identCp_LBRACE : identCp LBRACE = false := by decide
@[simp] theorem identCp_RBRACE : identCp RBRACE = false := by decide
@[simp] theorem identCp_NL : identCp NL = false := by decide
@[simp] theorem identCp_CR : identCp CR = false := by decide
@[simp] theorem isSpaceCp_QUOTE : isSpaceCp QUOTE = false := by decide
@[simp] theorem isSpaceCp_HASH : isSpaceCp HASH = false := by decide
@[simp] theorem isSpaceCp_LPAREN : isSpaceCp LPAREN = false := by decide
@[simp] theorem isSpaceCp_RPAREN : isSpaceCp RPAREN = false := by decide
@[simp] theorem isSpaceCp_COMMA : isSpaceCp COMMA = false := by decide
@[simp] theorem isSpaceCp_MINUS : isSpaceCp MINUS = false := by decide
@[simp] theorem isSpaceCp_COLON : isSpaceCp COLON = false := by decide
@[simp] theorem isSpaceCp_EQUALS : isSpaceCp EQUALS = false := by decide
@[simp] theorem isSpaceCp_GT : isSpaceCp GT = false := by decide
@[simp] theorem isSpaceCp_LBRACE : isSpaceCp LBRACE = false := by decide
@[simp] theorem isSpaceCp_RBRACE' : isSpaceCp RBRACE = false := by decide
@[simp] theorem isSpaceCp_NL' : isSpaceCp NL = true := by decide
@[simp] theorem isSpaceCp_CR' : isSpaceCp CR = true := by decide
@[simp] theorem isSpaceCp_SP' : isSpaceCp SP = true := by decide
@[simp] theorem isSpaceCp_TAB' : isSpaceCp TAB = true := by decide
@[simp] theorem eofRune_cp : eofRune.cp = 0xFFFD := rfl

/-- a rune with a given code point that is not an identifier code point -/
theorem not_ident_of_cp {r : Rune} {c : Nat} (h : r.cp = c) (hc : identCp c = false) : isIdent r = false := by
  rw [isIdent_eq, h, hc]
theorem not_space_of_cp {r : Rune} {c : Nat} (h : r.cp = c) (hc : isSpaceCp c = false) : isSpace r = false := by
  rw [isSpace_eq, h, hc]
/-- an identifier rune has none of the code points of the syntax's punctuation -/
theorem cp_ne_of_ident {r : Rune} (h : isIdent r = true) {c : Nat} (hc : identCp c = false) : r.cp ≠ c := by
  intro he; rw [isIdent_eq, he, hc] at h; cases h
theorem cp_ne_of_space {r : Rune} (h : isSpace r = true) {c : Nat} (hc : isSpaceCp c = false) : r.cp ≠ c := by
  intro he; rw [isSpace_eq, he, hc] at h; cases h

/-! ## lists: a piece followed by something that stops the scan -/

/-- the list is empty or begins with an element on which `p` is false -/
def Stops {α} (p : α → Bool) (rest : List α) : Prop := ∀ r, rest.head? = some r → p r = false

theorem Stops.nil {α} (p : α → Bool) : Stops p [] := by intro r h; cases h
theorem Stops.cons {α} {p : α → Bool} {r : α} (h : p r = false) (rs : List α) : Stops p (r :: rs) := by
  intro r' h'; simp at h'; subst h'; exact h
theorem stops_dropWhile {α} (p : α → Bool) (xs : List α) : Stops p (xs.dropWhile p) := by
  induction xs with
  | nil => exact Stops.nil p
  | cons x xs ih =>
    simp only [List.dropWhile_cons]
    split
    · exact ih
    · rename_i h; exact Stops.cons (by simpa using h) _

theorem dropWhile_append_stops {α} {p : α → Bool} {ws rest : List α} (hw : ∀ r ∈ ws, p r = true) (hs : Stops p rest) :
    (ws ++ rest).dropWhile p = rest := by
  induction ws with
  | nil =>
    cases rest with
    | nil => rfl
    | cons r rs => simp [hs r rfl]
  | cons w ws ih =>
    simp only [List.cons_append, List.dropWhile_cons, hw w (by simp)]
    exact ih (fun r hr => hw r (by simp [hr]))

theorem takeWhile_append_stops {α} {p : α → Bool} {ws rest : List α} (hw : ∀ r ∈ ws, p r = true) (hs : Stops p rest) :
    (ws ++ rest).takeWhile p = ws := by
  induction ws with
  | nil =>
    cases rest with
    | nil => rfl
    | cons r rs => simp [hs r rfl]
  | cons w ws ih =>
    simp only [List.cons_append, List.takeWhile_cons, hw w (by simp)]
    rw [ih (fun r hr => hw r (by simp [hr]))]
    rfl

theorem dropWhile_idem {α} (p : α → Bool) (xs : List α) : (xs.dropWhile p).dropWhile p = xs.dropWhile p := by
  have := dropWhile_append_stops (ws := []) (p := p) (by simp) (stops_dropWhile p xs)
  simpa using this

theorem Stops.append {α} {p : α → Bool} {xs ys : List α} (hx : Stops p xs) (hne : xs ≠ []) : Stops p (xs ++ ys) := by
  cases xs with
  | nil => exact absurd rfl hne
  | cons x xs => exact Stops.cons (hx x rfl) _

/-- white space followed by something: what `dropWhile isSpace` leaves -/
theorem dropWhile_ws {ws rest : List Rune} (hw : Ws ws) (hs : Stops isSpace rest) :
    (ws ++ rest).dropWhile isSpace = rest := dropWhile_append_stops hw hs

theorem ws_append {a b : List Rune} (ha : Ws a) (hb : Ws b) : Ws (a ++ b) := by
  intro r hr; rcases List.mem_append.mp hr with h | h
  · exact ha r h
  · exact hb r h

theorem ws_nil : Ws [] := by intro r hr; cases hr

theorem eol_ws {e : List Rune} (h : Eol e) : Ws e := by
  rcases h with rfl | rfl <;> intro r hr <;> simp at hr
  · subst hr; simp
  · rcases hr with rfl | rfl <;> simp

theorem eol_startsEol {e : List Rune} (h : Eol e) (rest : List Rune) : startsEol (e ++ rest) = true := by
  rcases h with rfl | rfl
  · simp [Spok.startsEol]
  · simp [Spok.startsEol]

/-- a text whose first rune is not white space does not begin with a line end -/
theorem startsEol_of_stops {xs : List Rune} (h : Stops isSpace xs) : startsEol xs = false := by
  cases xs with
  | nil => rfl
  | cons r rs =>
    have hr := h r rfl
    have h1 : r.cp ≠ NL := fun he => by rw [isSpace_eq, he] at hr; simp at hr
    have h2 : r.cp ≠ CR := fun he => by rw [isSpace_eq, he] at hr; simp at hr
    simp [startsEol, h1, h2]

/-- the dropWhile of an identifier-initial (or any non-space-initial) text is the text itself -/
theorem dropWhile_of_stops {α} {p : α → Bool} {xs : List α} (h : Stops p xs) : xs.dropWhile p = xs := by
  have := dropWhile_append_stops (ws := []) (p := p) (by simp) h
  simpa using this

/-! ## projections of the primitives -/

theorem views_of_toks {l l' : L} (h : l'.toks = l.toks) : views l' = views l := by simp [views, h]

@[simp] theorem views_emit (l : L) (ty : TT) : views (l.emit ty) = views l ++ [(ty, l.tokRev.reverse)] := by
  simp [views, L.emit, view]
@[simp] theorem views_next (l : L) : views (l.next).1 = views l := views_of_toks (by simp)
@[simp] theorem views_backup (l : L) : views l.backup = views l := views_of_toks (by simp)
@[simp] theorem views_peek (l : L) : views (l.peek).1 = views l := views_of_toks (by simp)
@[simp] theorem views_atEOL (l : L) : views (l.atEOL).1 = views l := views_of_toks (by simp)
@[simp] theorem views_absorb (l : L) (n : Nat) : views (l.absorb n) = views l := rfl
@[simp] theorem views_discard (l : L) : views l.discard = views l := rfl

theorem next_left_cons {l : L} {r : Rune} {rs : List Rune} (h : l.right = r :: rs) :
    (l.next).1.left = r :: l.left := by simp [L.next, h]
theorem next_rune_cons {l : L} {r : Rune} {rs : List Rune} (h : l.right = r :: rs) : (l.next).2 = r := by
  simp [L.next, h]
theorem next_width_cons {l : L} {r : Rune} {rs : List Rune} (h : l.right = r :: rs) :
    (l.next).1.width = r.w := by simp [L.next, h]
theorem next_rune_nil {l : L} (h : l.right = []) : (l.next).2 = eofRune := by simp [L.next, h]

/-- `next` then `backup` restores the zipper and the token buffer (always) -/
@[simp] theorem next_backup_left (l : L) : ((l.next).1.backup).left = l.left := by
  unfold L.next L.backup
  cases h : l.right with
  | nil => simp
  | cons r rs => simp [Rune.w_ne_zero]
@[simp] theorem next_backup_tokRev (l : L) : ((l.next).1.backup).tokRev = l.tokRev := by
  unfold L.next L.backup
  cases h : l.right with
  | nil => simp
  | cons r rs => simp [Rune.w_ne_zero]

@[simp] theorem peek_left (l : L) : (l.peek).1.left = l.left := by simp [L.peek]
@[simp] theorem peek_tokRev (l : L) : (l.peek).1.tokRev = l.tokRev := by simp [L.peek]
theorem peek_rune_cons {l : L} {r : Rune} {rs : List Rune} (h : l.right = r :: rs) : (l.peek).2 = r := by
  simp [L.peek, next_rune_cons h]
theorem peek_rune_nil {l : L} (h : l.right = []) : (l.peek).2 = eofRune := by
  simp [L.peek, next_rune_nil h]
@[simp] theorem atEOL_left (l : L) : (l.atEOL).1.left = l.left := by simp [L.atEOL]
@[simp] theorem atEOL_tokRev (l : L) : (l.atEOL).1.tokRev = l.tokRev := by simp [L.atEOL]

/-- `hasPrefix` only looks at the remaining input -/
theorem hasPrefix_eq (l : L) (s : List Nat) : l.hasPrefix s = ((l.right.take s.length).map (·.cp) == s) := rfl
theorem hasPrefix_of_right {l l' : L} (h : l'.right = l.right) (s : List Nat) : l'.hasPrefix s = l.hasPrefix s := by
  simp [hasPrefix_eq, h]
@[simp] theorem hasPrefix_peek (l : L) (s : List Nat) : (l.peek).1.hasPrefix s = l.hasPrefix s :=
  hasPrefix_of_right (by simp) s
@[simp] theorem hasPrefix_atEOL (l : L) (s : List Nat) : (l.atEOL).1.hasPrefix s = l.hasPrefix s :=
  hasPrefix_of_right (by simp) s
@[simp] theorem atEOF_peek (l : L) : (l.peek).1.atEOF = l.atEOF := by simp [L.atEOF]
@[simp] theorem atEOF_atEOL (l : L) : (l.atEOL).1.atEOF = l.atEOF := by simp [L.atEOF]
theorem atEOF_cons {l : L} {r : Rune} {rs : List Rune} (h : l.right = r :: rs) : l.atEOF = false := by
  simp [L.atEOF, h]
theorem atEOF_nil {l : L} (h : l.right = []) : l.atEOF = true := by simp [L.atEOF, h]

/-- `atEOL` answers whether the remaining input begins with `\n` or `\r\n` -/
theorem atEOL_val (l : L) : (l.atEOL).2 = startsEol l.right := by
  have h1 : (l.atEOL).2 = ((l.peek).2.cp == NL || l.hasPrefix [CR, NL]) := by simp [L.atEOL]
  rw [h1]
  cases hr : l.right with
  | nil => simp [peek_rune_nil hr, hasPrefix_eq, hr, startsEol]
  | cons r rs =>
    cases rs with
    | nil => simp [peek_rune_cons hr, hasPrefix_eq, hr, startsEol]
    | cons r2 rs2 => simp [peek_rune_cons hr, hasPrefix_eq, hr, startsEol]

@[simp] theorem absorb_left (l : L) (n : Nat) : (l.absorb n).left = (l.right.take n).reverse ++ l.left := rfl
@[simp] theorem absorb_tokRev (l : L) (n : Nat) : (l.absorb n).tokRev = (l.right.take n).reverse ++ l.tokRev := rfl
@[simp] theorem emit_left (l : L) (t : TT) : (l.emit t).left = l.left := rfl
@[simp] theorem discard_left (l : L) : l.discard.left = l.left := rfl

/-! ## the scanning loops -/

@[simp] theorem skipWs_toks (l : L) : (skipWs l).toks = l.toks := by
  induction h : l.right.length using Nat.strongRecOn generalizing l with
  | _ n ih =>
    unfold skipWs
    split
    · simp [L.discard]
    · rename_i r rs hr
      split
      · rw [ih _ (by subst h; simp [hr]) _ rfl]; simp
      · simp [L.discard]
@[simp] theorem views_skipWs (l : L) : views (skipWs l) = views l := views_of_toks (by simp)
attribute [simp] skipWs_tokRev

/-- `skipWs` in front of `ws ++ rest` stops at `rest` -/
theorem skipWs_right_ws {l : L} {ws rest : List Rune} (hr : l.right = ws ++ rest) (hw : Ws ws) (hs : Stops isSpace rest) :
    (skipWs l).right = rest := by
  rw [skipWs_right, hr, dropWhile_ws hw hs]

theorem skipWs_left (l : L) : (skipWs l).left = (l.right.takeWhile isSpace).reverse ++ l.left := by
  induction h : l.right.length using Nat.strongRecOn generalizing l with
  | _ n ih =>
    unfold skipWs
    split
    · rename_i hr; simp [hr]
    · rename_i r rs hr
      split
      · rename_i hs
        rw [ih _ (by subst h; simp [hr]) _ rfl]
        simp [hr, hs, next_left_cons hr]
      · rename_i hs
        simp [hr, hs]

@[simp] theorem scanIdent_toks (l : L) : (scanIdent l).toks = l.toks := by
  induction h : l.right.length using Nat.strongRecOn generalizing l with
  | _ n ih =>
    unfold scanIdent
    split
    · simp
    · rename_i r rs hr
      split
      · rw [ih _ (by subst h; simp [hr]) _ rfl]; simp
      · simp
@[simp] theorem views_scanIdent (l : L) : views (scanIdent l) = views l := views_of_toks (by simp)

theorem scanIdent_tokRev (l : L) : (scanIdent l).tokRev = (l.right.takeWhile isIdent).reverse ++ l.tokRev := by
  induction h : l.right.length using Nat.strongRecOn generalizing l with
  | _ n ih =>
    unfold scanIdent
    split
    · rename_i hr; simp [hr]
    · rename_i r rs hr
      split
      · rename_i hs
        rw [ih _ (by subst h; simp [hr]) _ rfl]
        simp [hr, hs, L.next_tokRev_cons hr]
      · rename_i hs
        simp [hr, hs]

theorem scanIdent_left (l : L) : (scanIdent l).left = (l.right.takeWhile isIdent).reverse ++ l.left := by
  induction h : l.right.length using Nat.strongRecOn generalizing l with
  | _ n ih =>
    unfold scanIdent
    split
    · rename_i hr; simp [hr]
    · rename_i r rs hr
      split
      · rename_i hs
        rw [ih _ (by subst h; simp [hr]) _ rfl]
        simp [hr, hs, next_left_cons hr]
      · rename_i hs
        simp [hr, hs]

/-- `scanIdent` in front of `n ++ rest` (identifier runes, then something else) takes exactly `n` -/
theorem scanIdent_spec {l : L} {n rest : List Rune} (hr : l.right = n ++ rest) (hn : IdentRunes n)
    (hs : Stops isIdent rest) :
    (scanIdent l).right = rest ∧ (scanIdent l).tokRev = n.reverse ++ l.tokRev := by
  rw [scanIdent_right, scanIdent_tokRev, hr, dropWhile_append_stops hn hs, takeWhile_append_stops hn hs]
  exact ⟨rfl, rfl⟩

/-! ### comments -/

theorem scanComment_stop {l : L} (h : l.right = [] ∨ startsEol l.right = true) : scanComment l = (l.atEOL).1 := by
  rw [scanComment]
  split
  · rfl
  · rename_i r rs hr
    rcases h with h | h
    · rw [hr] at h; cases h
    · rw [atEOL_val, h]; rfl

theorem scanComment_go {l : L} {r : Rune} {rs : List Rune} (hr : l.right = r :: rs) (h : startsEol l.right = false) :
    scanComment l = scanComment ((l.atEOL).1.next).1 := by
  rw [scanComment]
  split
  · rename_i hn; rw [hr] at hn; cases hn
  · rw [atEOL_val, h]; rfl

theorem endsWithCp_cons_cons (a b : Rune) (c : List Rune) (k : Nat) : endsWithCp (a :: b :: c) k = endsWithCp (b :: c) k := by
  simp [endsWithCp, List.getLast?_cons_cons]

/-- a comment text `c` followed by `tail` (empty, or beginning with a line end; no `\r` | `\n` split across
    the boundary): `scanComment` takes exactly `c` -/
theorem scanComment_spec (c : List Rune) : ∀ (l : L) (tail : List Rune), l.right = c ++ tail → CommentOK c →
    (tail = [] ∨ startsEol tail = true) → (endsWithCp c CR = true → ∀ r, tail.head? = some r → r.cp ≠ NL) →
    (scanComment l).right = tail ∧ (scanComment l).tokRev = c.reverse ++ l.tokRev ∧ (scanComment l).toks = l.toks := by
  induction c with
  | nil =>
    intro l tail hr _ ht _
    rw [scanComment_stop (by simpa [hr] using ht)]
    simp [hr]
  | cons a c ih =>
    intro l tail hr hc ht hcr
    have ha : a.cp ≠ NL := hc a (by simp)
    have hse : startsEol l.right = false := by
      rw [hr]
      cases c with
      | nil =>
        cases tail with
        | nil => simp [startsEol, ha]
        | cons t ts =>
          by_cases hcar : a.cp = CR
          · have := hcr (by simp [endsWithCp, hcar]) t rfl
            simp [startsEol, ha, this]
          · simp [startsEol, ha, hcar]
      | cons b c =>
        have hb : b.cp ≠ NL := hc b (by simp)
        simp [startsEol, ha, hb]
    rw [scanComment_go (by simpa using hr) hse]
    have hr' : ((l.atEOL).1.next).1.right = c ++ tail := by
      rw [L.next_right_cons (r := a) (rs := c ++ tail) (by simpa using hr)]
    obtain ⟨h1, h2, h3⟩ := ih _ tail hr' (fun r hr => hc r (by simp [hr])) ht (by
      intro he
      cases c with
      | nil => simp [endsWithCp] at he
      | cons b c => exact hcr (by rwa [endsWithCp_cons_cons]))
    refine ⟨h1, ?_, ?_⟩
    · rw [h2, L.next_tokRev_cons (r := a) (rs := c ++ tail) (by simpa using hr)]; simp
    · rw [h3]; simp

/-! ### strings -/

theorem startsEol_append_quote {s : List Rune} (hs : ∀ r ∈ s, r.cp ≠ NL) {q : Rune} (hq : q.cp = QUOTE) (rest : List Rune) :
    startsEol (s ++ q :: rest) = false := by
  cases s with
  | nil => simp [startsEol, hq]
  | cons a s =>
    have ha : a.cp ≠ NL := hs a (by simp)
    cases s with
    | nil => simp [startsEol, ha, hq]
    | cons b s =>
      have hb : b.cp ≠ NL := hs b (by simp)
      simp [startsEol, ha, hb]

/-- a string body `s` (no quote; a newline at most in first position) followed by a quote: `scanString` takes the
    body and the quote -/
theorem scanString_spec (s : List Rune) : ∀ (l : L) (q : Rune) (rest : List Rune), l.right = s ++ q :: rest → StrOK s →
    q.cp = QUOTE →
    ∃ l', scanString l = .ok l' ∧ l'.right = rest ∧ l'.tokRev = q :: s.reverse ++ l.tokRev ∧ l'.toks = l.toks := by
  induction s with
  | nil =>
    intro l q rest hr _ hq
    rw [scanString]
    split
    · rename_i hn; rw [hr] at hn; cases hn
    · rename_i r rs hr2
      have : r = q ∧ rs = rest := by rw [hr] at hr2; simpa using hr2.symm
      obtain ⟨rfl, rfl⟩ := this
      simp only [hq, beq_self_eq_true, if_true]
      exact ⟨_, rfl, L.next_right_cons hr2, by rw [L.next_tokRev_cons hr2]; simp, by simp⟩
  | cons a s ih =>
    intro l q rest hr hok hq
    have ha : a.cp ≠ QUOTE := hok.1 a (by simp)
    have hnl : ∀ r ∈ s, r.cp ≠ NL := fun r h => hok.2 r (by simpa using h)
    rw [scanString]
    split
    · rename_i hn; rw [hr] at hn; cases hn
    · rename_i r rs hr2
      have : r = a ∧ rs = s ++ q :: rest := by rw [hr] at hr2; simpa using hr2.symm
      obtain ⟨rfl, rfl⟩ := this
      have hr1 : (l.next).1.right = s ++ q :: rest := L.next_right_cons hr2
      have he : ((l.next).1.atEOL).2 = false := by rw [atEOL_val, hr1]; exact startsEol_append_quote hnl hq rest
      have hne : (s ++ q :: rest).isEmpty = false := by simp
      simp only [ha, beq_iff_eq, if_false, he, hne, Bool.false_eq_true]
      obtain ⟨l', h1, h2, h3, h4⟩ := ih ((l.next).1.atEOL).1 q rest (by simpa using hr1)
        ⟨fun r h => hok.1 r (by simp [h]), fun r h => hnl r (List.mem_of_mem_tail h)⟩ hq
      refine ⟨l', h1, h2, ?_, ?_⟩
      · rw [h3]; simp [L.next_tokRev_cons hr2]
      · rw [h4]; simp

/-! ### blanks -/

def isBlank (r : Rune) : Bool := r.cp == SP || r.cp == TAB

theorem skipBlanks_right (l : L) : (skipBlanks l).right = l.right.dropWhile isBlank := by
  induction h : l.right.length using Nat.strongRecOn generalizing l with
  | _ n ih =>
    rw [skipBlanks]
    split
    · rename_i hr; simp [hr]
    · rename_i r rs hr
      have hp : (l.peek).1.right = r :: rs := by simp [hr]
      split
      · rename_i hs
        rw [ih _ (by subst h; simp [hr]) _ rfl, L.next_right_cons hp, hr]
        simp [isBlank, hs]
      · rename_i hs
        simp [hr, isBlank, hs]

@[simp] theorem skipBlanks_toks (l : L) : (skipBlanks l).toks = l.toks := by
  induction h : l.right.length using Nat.strongRecOn generalizing l with
  | _ n ih =>
    rw [skipBlanks]
    split
    · simp
    · rename_i r rs hr
      split
      · rw [ih _ (by subst h; simp [hr]) _ rfl]; simp
      · simp
@[simp] theorem views_skipBlanks (l : L) : views (skipBlanks l) = views l := views_of_toks (by simp)

theorem skipBlanks_right_blanks {l : L} {b rest : List Rune} (hr : l.right = b ++ rest) (hb : Blanks b)
    (hs : Stops isBlank rest) : (skipBlanks l).right = rest := by
  rw [skipBlanks_right, hr]
  exact dropWhile_append_stops (fun r h => by simpa [isBlank] using hb r h) hs

/-! ## chaining runs -/

/-- the rune `next` / `peek` return -/
def headRune : List Rune → Rune
  | [] => eofRune
  | r :: _ => r
@[simp] theorem headRune_cons (r : Rune) (rs : List Rune) : headRune (r :: rs) = r := rfl
@[simp] theorem headRune_nil : headRune [] = eofRune := rfl
@[simp] theorem next_rune (l : L) : (l.next).2 = headRune l.right := by
  unfold L.next; cases l.right <;> rfl
@[simp] theorem peek_rune (l : L) : (l.peek).2 = headRune l.right := by simp [L.peek]

/-- From `(l, t)` the run loop reaches tag `t'` in a state whose remaining input is `rt` and whose token buffer
    is `tk`, having emitted the tokens `vs`. -/
def Goes (l : L) (t t' : Tag) (rt tk : List Rune) (vs : List View) : Prop :=
  ∃ l', Reaches l t l' t' ∧ l'.right = rt ∧ l'.tokRev = tk ∧ views l' = views l ++ vs

theorem Goes.step {l l' : L} {t t' : Tag} {rt tk : List Rune} {vs : List View} (hf : t.final = false)
    (hs : stepTag l t = (l', t')) (hr : l'.right = rt) (hk : l'.tokRev = tk) (hv : views l' = views l ++ vs) :
    Goes l t t' rt tk vs := ⟨l', Reaches.step hf hs, hr, hk, hv⟩

theorem Goes.trans {l : L} {t t1 t2 : Tag} {r1 k1 r2 k2 : List Rune} {v1 v2 : List View}
    (h1 : Goes l t t1 r1 k1 v1) (h2 : ∀ l1 : L, l1.right = r1 → l1.tokRev = k1 → Goes l1 t1 t2 r2 k2 v2) :
    Goes l t t2 r2 k2 (v1 ++ v2) := by
  obtain ⟨l1, hR1, hr1, hk1, hv1⟩ := h1
  obtain ⟨l2, hR2, hr2, hk2, hv2⟩ := h2 l1 hr1 hk1
  exact ⟨l2, hR1.trans hR2, hr2, hk2, by rw [hv2, hv1, List.append_assoc]⟩

theorem Goes.refl (l : L) (t : Tag) : Goes l t t l.right l.tokRev [] := ⟨l, Reaches.refl l t, rfl, rfl, by simp⟩

/-- adjust the description of the result -/
theorem Goes.cast {l : L} {t t' t'' : Tag} {rt rt' tk tk' : List Rune} {vs vs' : List View}
    (h : Goes l t t' rt tk vs) (ht : t' = t'') (hr : rt = rt') (hk : tk = tk') (hv : vs = vs') :
    Goes l t t'' rt' tk' vs' := by subst ht hr hk hv; exact h

/-! ## the state functions on shaped input -/

theorem goes_lexStart_hash {l : L} {r : Rune} {rs : List Rune} (hr : l.right.dropWhile isSpace = r :: rs)
    (hc : r.cp = HASH) : Goes l .start .hash (r :: rs) [] [] := by
  have hr' : (skipWs l).right = r :: rs := by rw [skipWs_right, hr]
  have e : lexStart l = (skipWs l, .hash) := by simp [lexStart, hasPrefix_eq, hr', hc]
  exact Goes.step rfl e hr' (by simp) (by simp)

theorem goes_lexStart_task {l : L} {r : Rune} {rs : List Rune} (hr : l.right.dropWhile isSpace = r :: rs)
    (hk : ((r :: rs).take 4).map (·.cp) = [116, 97, 115, 107]) : Goes l .start .taskKeyword (r :: rs) [] [] := by
  have hr' : (skipWs l).right = r :: rs := by rw [skipWs_right, hr]
  have hc : r.cp = 116 := by simp at hk; exact hk.1
  have hk' : (skipWs l).hasPrefix [116, 97, 115, 107] = true := by
    rw [hasPrefix_eq, hr']; simpa using hk
  have hh : (skipWs l).hasPrefix [HASH] = false := by
    rw [hasPrefix_eq, hr']; simp [hc]
  have e : lexStart l = (skipWs l, .taskKeyword) := by simp [lexStart, hk', hh]
  exact Goes.step rfl e hr' (by simp) (by simp)

theorem goes_lexStart_ident {l : L} {r : Rune} {rs : List Rune} (hr : l.right.dropWhile isSpace = r :: rs)
    (hi : isIdent r = true) (hk : ((r :: rs).take 4).map (·.cp) ≠ [116, 97, 115, 107]) :
    Goes l .start .ident rs [r] [] := by
  have hr' : (skipWs l).right = r :: rs := by rw [skipWs_right, hr]
  have hc : r.cp ≠ HASH := cp_ne_of_ident hi (by simp)
  have e : lexStart l = (((skipWs l).peek).1.next.1, .ident) := by
    have hk' : (skipWs l).hasPrefix [116, 97, 115, 107] = false := by
      rw [hasPrefix_eq, hr']; simpa using hk
    simp [lexStart, hk', hr', hi]
    simp [hasPrefix_eq, hr', hc]
  have hp : ((skipWs l).peek).1.right = r :: rs := by simp [hr']
  exact Goes.step rfl e (L.next_right_cons hp) (by rw [L.next_tokRev_cons hp]; simp) (by simp)

theorem goes_lexStart_eof {l : L} (hr : l.right.dropWhile isSpace = []) : Goes l .start .done [] [] [vEOF] := by
  have hr' : (skipWs l).right = [] := by rw [skipWs_right, hr]
  have e : lexStart l = (((skipWs l).peek).1.emit .eof, .done) := by
    simp [lexStart, hasPrefix_eq, hr', L.atEOF, isIdent_eofRune]
  exact Goes.step rfl e (by simp [hr']) (by simp) (by simp [vEOF])

theorem goes_lexHash {l : L} {r : Rune} {rs : List Rune} (hr : l.right = r :: rs) (hk : l.tokRev = []) :
    Goes l .hash .comment rs [] [(.hash, [r])] := by
  have e : lexHash l = ((l.absorb 1).emit .hash, .comment) := by simp [lexHash, L.atEOF, hr]
  exact Goes.step rfl e (by simp [hr]) (by simp) (by simp [hr, hk])

theorem goes_lexComment {l : L} {c tail : List Rune} (hr : l.right = c ++ tail) (hk : l.tokRev = []) (hc : CommentOK c)
    (ht : tail = [] ∨ startsEol tail = true) (hcr : endsWithCp c CR = true → ∀ r, tail.head? = some r → r.cp ≠ NL) :
    Goes l .comment .start tail [] [(.comment, c)] := by
  obtain ⟨h1, h2, h3⟩ := scanComment_spec c l tail hr hc ht hcr
  exact Goes.step (l' := (scanComment l).emit .comment) rfl rfl (by simpa using h1) (by simp)
    (by simp [h2, hk, views_of_toks h3])


theorem stops_ident_ws_append {ws after : List Rune} (hw : Ws ws) (ha : Stops isIdent after) : Stops isIdent (ws ++ after) := by
  cases ws with
  | nil => simpa using ha
  | cons w ws => exact Stops.cons (isSpace_not_ident (hw w (by simp))) _

/-- the text begins with `:=` -/
def declAhead (after : List Rune) : Bool := (after.take 2).map (·.cp) == [COLON, EQUALS]

/-- where `lexIdent` goes, given what follows the identifier and the white space after it -/
def identTag (after : List Rune) : Tag :=
  match after with
  | [] => .start
  | r :: _ =>
    if r.cp = LPAREN then .leftParen
    else if declAhead after then .declare
    else if r.cp = RPAREN then .rightParen
    else if r.cp = COMMA then .comma
    else if r.cp = LBRACE then .leftBrace
    else .done

/-- the dispatch at the end of `lexIdent` -/
def identTail (l : L) : L × Tag :=
  let (l, r) := l.peek
  if r.cp == LPAREN then (l, .leftParen)
  else if l.hasPrefix [COLON, EQUALS] then (l, .declare)
  else
    let (l, eol) := l.atEOL
    if eol || l.atEOF then (l, .start)
    else
      let (l, r) := l.peek
      if r.cp == RPAREN then (l, .rightParen)
      else if r.cp == COMMA then (l, .comma)
      else if r.cp == LBRACE then (l, .leftBrace)
      else l.error

theorem lexIdent_eq (l : L) : lexIdent l = identTail (skipWs ((scanIdent l).emit .ident)) := rfl

theorem identTail_spec {m : L} {after : List Rune} (hm : m.right = after) (hs : Stops isSpace after)
    (ht : identTag after ≠ .done) :
    (identTail m).2 = identTag after ∧ (identTail m).1.right = after ∧ (identTail m).1.tokRev = m.tokRev ∧
    (identTail m).1.toks = m.toks := by
  have hse := startsEol_of_stops hs
  subst hm
  cases hr : m.right with
  | nil =>
    simp [identTail, identTag, hr, hasPrefix_eq, atEOL_val, startsEol, L.atEOF]
  | cons r rs =>
    rw [hr] at hse ht
    unfold identTag at ht ⊢
    unfold identTail
    simp only [] at ht ⊢
    by_cases h1 : r.cp = LPAREN
    · simp [hr, h1]
    · have hp : m.hasPrefix [COLON, EQUALS] = declAhead (r :: rs) := by rw [hasPrefix_eq, hr]; rfl
      by_cases h2 : declAhead (r :: rs) = true
      · simp [hr, h1, hp, h2]
      · have h2' := hp
        simp only [h2] at h2'
        by_cases h3 : r.cp = RPAREN
        · simp [hr, h1, h2, h2', h3, atEOL_val, hse, L.atEOF]
        · by_cases h4 : r.cp = COMMA
          · simp [hr, h1, h2, h2', h3, h4, atEOL_val, hse, L.atEOF]
          · by_cases h5 : r.cp = LBRACE
            · simp [hr, h1, h2, h2', h3, h4, h5, atEOL_val, hse, L.atEOF]
            · simp [h1, h2, h3, h4, h5] at ht

/-- `lexIdent` with the rest `n` of an identifier, white space `ws` and then `after` ahead (the first rune(s) of
    the identifier are in the token buffer): emits the identifier and stands in front of `after` -/
theorem goes_lexIdent {l : L} {n ws after : List Rune} (hr : l.right = n ++ ws ++ after) (hn : IdentRunes n) (hw : Ws ws)
    (hs : Stops isSpace after) (hi : Stops isIdent after) (ht : identTag after ≠ .done) :
    Goes l .ident (identTag after) after [] [(.ident, l.tokRev.reverse ++ n)] := by
  obtain ⟨h1, h2⟩ := scanIdent_spec (l := l) (n := n) (rest := ws ++ after) (by simpa using hr) hn
    (stops_ident_ws_append hw hi)
  have hm : (skipWs ((scanIdent l).emit .ident)).right = after :=
    skipWs_right_ws (ws := ws) (by simpa using h1) hw hs
  obtain ⟨e1, e2, e3, e4⟩ := identTail_spec hm hs ht
  refine Goes.step (l' := (identTail (skipWs ((scanIdent l).emit .ident))).1) rfl ?_ e2 (by rw [e3]; simp) ?_
  · show lexIdent l = _
    rw [lexIdent_eq, ← e1]
  · rw [views_of_toks e4]; simp [h2]

theorem stops_cons_space {r : Rune} (h : isSpace r = false) (rs : List Rune) : Stops isSpace (r :: rs) := Stops.cons h rs

/-- state after `:=` has been absorbed and the white space behind it skipped -/
theorem lexDeclare_mid {l : L} {c1 c2 : Rune} {ws after : List Rune} (hr : l.right = c1 :: c2 :: ws ++ after)
    (h1 : isSpace c1 = false) (hw : Ws ws) (hs : Stops isSpace after) :
    (skipWs (((skipWs l).absorb 2).emit .declare)).right = after ∧
    views (skipWs (((skipWs l).absorb 2).emit .declare)) = views l ++ [(.declare, [c1, c2])] := by
  have h0 : (skipWs l).right = c1 :: c2 :: ws ++ after := by
    rw [skipWs_right, hr]; simp [h1]
  refine ⟨?_, ?_⟩
  · rw [skipWs_right]; simp [h0, dropWhile_ws hw hs]
  · simp [h0]

theorem goes_lexDeclare_string {l : L} {c1 c2 r : Rune} {ws rs : List Rune} (hr : l.right = c1 :: c2 :: ws ++ r :: rs)
    (h1 : isSpace c1 = false) (hw : Ws ws) (hq : r.cp = QUOTE) :
    Goes l .declare .declString rs [r] [(.declare, [c1, c2])] := by
  have hs : isSpace r = false := not_space_of_cp hq (by simp)
  obtain ⟨hm, hv⟩ := lexDeclare_mid hr h1 hw (stops_cons_space hs rs)
  have h0 : (skipWs l).atEOF = false := by simp [L.atEOF, skipWs_right, hr, h1]
  have e : lexDeclare l = ((skipWs (((skipWs l).absorb 2).emit .declare)).next.1, .declString) := by
    simp [lexDeclare, h0, hm, hq]
  exact Goes.step rfl e (L.next_right_cons hm) (by rw [L.next_tokRev_cons hm]; simp) (by simpa using hv)

theorem goes_lexDeclare_ident {l : L} {c1 c2 r : Rune} {ws rs : List Rune} (hr : l.right = c1 :: c2 :: ws ++ r :: rs)
    (h1 : isSpace c1 = false) (hw : Ws ws) (hi : isIdent r = true) :
    Goes l .declare .ident rs [r] [(.declare, [c1, c2])] := by
  have hs : isSpace r = false := isIdent_not_space hi
  have hq : r.cp ≠ QUOTE := cp_ne_of_ident hi (by simp)
  obtain ⟨hm, hv⟩ := lexDeclare_mid hr h1 hw (stops_cons_space hs rs)
  have h0 : (skipWs l).atEOF = false := by simp [L.atEOF, skipWs_right, hr, h1]
  have e : lexDeclare l = ((skipWs (((skipWs l).absorb 2).emit .declare)).next.1, .ident) := by
    simp [lexDeclare, h0, hm, hq, hi]
  exact Goes.step rfl e (L.next_right_cons hm) (by rw [L.next_tokRev_cons hm]; simp) (by simpa using hv)

theorem stops_blank_of_eol {tail : List Rune} (ht : tail = [] ∨ startsEol tail = true) : Stops isBlank tail := by
  cases tail with
  | nil => exact Stops.nil _
  | cons r rs =>
    rcases ht with ht | ht
    · cases ht
    · refine Stops.cons ?_ _
      simp only [startsEol, Bool.or_eq_true, Bool.and_eq_true, beq_iff_eq] at ht
      rcases ht with ht | ⟨ht, _⟩ <;> simp [isBlank, ht]

/-- `lexDeclString` after the opening quote: the string body, the closing quote, blanks, then the end of the line
    (or of the input) -/
theorem goes_lexDeclString {l : L} {s b tail : List Rune} {q : Rune} (hr : l.right = s ++ q :: b ++ tail) (hok : StrOK s)
    (hq : q.cp = QUOTE) (hb : Blanks b) (ht : tail = [] ∨ startsEol tail = true) :
    Goes l .declString .start tail [] [(.string, l.tokRev.reverse ++ s ++ [q])] := by
  obtain ⟨l1, h1, h2, h3, h4⟩ := scanString_spec s l q (b ++ tail) (by simpa using hr) hok hq
  -- the state in which the blanks are skipped
  have key : ∀ l2 : L, l2.right = b ++ tail → l2.toks = (l1.emit .string).toks →
      ∃ l3, (if (skipBlanks l2).discard.atEOF then ((skipBlanks l2).discard, Tag.start) else
              if ((skipBlanks l2).discard.atEOL).2 then (((skipBlanks l2).discard.atEOL).1, Tag.start)
              else ((skipBlanks l2).discard.atEOL).1.error) = (l3, Tag.start) ∧
            l3.right = tail ∧ l3.tokRev = [] ∧ l3.toks = (l1.emit .string).toks := by
    intro l2 hr2 ht2
    have hsb : (skipBlanks l2).right = tail := skipBlanks_right_blanks hr2 hb (stops_blank_of_eol ht)
    rcases ht with ht | ht
    · refine ⟨(skipBlanks l2).discard, ?_, by simpa using hsb, by simp, by simp [L.discard, ht2]⟩
      simp [L.atEOF, hsb, ht]
    · have hne : tail ≠ [] := by intro h; rw [h] at ht; cases ht
      refine ⟨((skipBlanks l2).discard.atEOL).1, ?_, by simpa using hsb, by simp, by simp [L.discard, ht2]⟩
      simp [L.atEOF, hsb, hne, atEOL_val, ht]
  have hv1 : views (l1.emit .string) = views l ++ [(.string, l.tokRev.reverse ++ s ++ [q])] := by
    simp [h3, views_of_toks h4]
  by_cases hE : (l1.emit .string).atEOF = true
  · obtain ⟨l3, e3, r3, k3, t3⟩ := key (l1.emit .string) (by simpa using h2) rfl
    refine Goes.step (l' := l3) rfl ?_ r3 k3 (by rw [views_of_toks t3, hv1])
    show lexDeclString l = _
    simp only [lexDeclString, h1, hE, if_true]
    exact e3
  · obtain ⟨l3, e3, r3, k3, t3⟩ := key ((l1.emit .string).atEOL).1 (by simpa using h2) (by simp)
    refine Goes.step (l' := l3) rfl ?_ r3 k3 (by rw [views_of_toks t3, hv1])
    show lexDeclString l = _
    simp only [lexDeclString, h1, hE, if_false]
    exact e3


theorem goes_lexLeftParen {l : L} {r : Rune} {ws after : List Rune} (hr : l.right = r :: ws ++ after) (hk : l.tokRev = [])
    (hw : Ws ws) (hs : Stops isSpace after) : Goes l .leftParen .args after [] [(.lparen, [r])] := by
  have e : lexLeftParen l = (skipWs ((l.absorb 1).emit .lparen), .args) := by simp [lexLeftParen, L.atEOF, hr]
  refine Goes.step rfl e ?_ (by simp) (by simp [hr, hk])
  rw [skipWs_right]; simp [hr, dropWhile_ws hw hs]

/-! `lexArgs`: white space, then one rune decides -/

theorem goes_lexArgs_rparen {l : L} {r : Rune} {rs : List Rune} (hr : l.right.dropWhile isSpace = r :: rs)
    (hc : r.cp = RPAREN) : Goes l .args .rightParen (r :: rs) [] [] := by
  have hr' : (skipWs l).right = r :: rs := by rw [skipWs_right, hr]
  have e : lexArgs l = ((skipWs l).next.1.backup, .rightParen) := by simp [lexArgs, hr', hc]
  exact Goes.step rfl e (by simp [hr']) (by simp) (by simp)

theorem goes_lexArgs_string {l : L} {r : Rune} {rs : List Rune} (hr : l.right.dropWhile isSpace = r :: rs)
    (hc : r.cp = QUOTE) : Goes l .args .string rs [r] [] := by
  have hr' : (skipWs l).right = r :: rs := by rw [skipWs_right, hr]
  have e : lexArgs l = ((skipWs l).next.1, .string) := by simp [lexArgs, hr', hc]
  exact Goes.step rfl e (L.next_right_cons hr') (by rw [L.next_tokRev_cons hr']; simp) (by simp)

theorem goes_lexArgs_ident {l : L} {r : Rune} {rs : List Rune} (hr : l.right.dropWhile isSpace = r :: rs)
    (hi : isIdent r = true) : Goes l .args .ident rs [r] [] := by
  have hr' : (skipWs l).right = r :: rs := by rw [skipWs_right, hr]
  have h1 : r.cp ≠ RPAREN := cp_ne_of_ident hi (by simp)
  have h2 : r.cp ≠ QUOTE := cp_ne_of_ident hi (by simp)
  have e : lexArgs l = ((skipWs l).next.1, .ident) := by simp [lexArgs, hr', h1, h2, hi]
  exact Goes.step rfl e (L.next_right_cons hr') (by rw [L.next_tokRev_cons hr']; simp) (by simp)

theorem goes_lexArgs_comma {l : L} {r : Rune} {rs : List Rune} (hr : l.right.dropWhile isSpace = r :: rs)
    (hc : r.cp = COMMA) : Goes l .args .comma (r :: rs) [] [] := by
  have hr' : (skipWs l).right = r :: rs := by rw [skipWs_right, hr]
  have hi : isIdent r = false := not_ident_of_cp hc (by simp)
  have e : lexArgs l = ((skipWs l).next.1.backup, .comma) := by simp [lexArgs, hr', hc, hi]
  exact Goes.step rfl e (by simp [hr']) (by simp) (by simp)

theorem goes_lexArgs_lbrace {l : L} {r : Rune} {rs : List Rune} (hr : l.right.dropWhile isSpace = r :: rs)
    (hc : r.cp = LBRACE) : Goes l .args .leftBrace (r :: rs) [] [] := by
  have hr' : (skipWs l).right = r :: rs := by rw [skipWs_right, hr]
  have hi : isIdent r = false := not_ident_of_cp hc (by simp)
  have e : lexArgs l = ((skipWs l).next.1.backup, .leftBrace) := by simp [lexArgs, hr', hc, hi]
  exact Goes.step rfl e (by simp [hr']) (by simp) (by simp)

/-! `lexComma`: the comma, white space, then one rune decides -/

theorem lexComma_mid {l : L} {c : Rune} {ws after : List Rune} (hr : l.right = c :: ws ++ after) (hk : l.tokRev = [])
    (hw : Ws ws) (hs : Stops isSpace after) :
    (skipWs ((l.absorb 1).emit .comma)).right = after ∧
    views (skipWs ((l.absorb 1).emit .comma)) = views l ++ [(.comma, [c])] := by
  refine ⟨?_, by simp [hr, hk]⟩
  rw [skipWs_right]; simp [hr, dropWhile_ws hw hs]

theorem goes_lexComma_string {l : L} {c r : Rune} {ws rs : List Rune} (hr : l.right = c :: ws ++ r :: rs) (hk : l.tokRev = [])
    (hw : Ws ws) (hq : r.cp = QUOTE) : Goes l .comma .string rs [r] [(.comma, [c])] := by
  obtain ⟨hm, hv⟩ := lexComma_mid hr hk hw (stops_cons_space (not_space_of_cp hq (by simp)) rs)
  have e : lexComma l = ((skipWs ((l.absorb 1).emit .comma)).next.1, .string) := by
    simp [lexComma, L.atEOF, hr, hm, hq]
  exact Goes.step rfl e (L.next_right_cons hm) (by rw [L.next_tokRev_cons hm]; simp) (by simpa using hv)

theorem goes_lexComma_ident {l : L} {c r : Rune} {ws rs : List Rune} (hr : l.right = c :: ws ++ r :: rs) (hk : l.tokRev = [])
    (hw : Ws ws) (hi : isIdent r = true) : Goes l .comma .ident rs [r] [(.comma, [c])] := by
  obtain ⟨hm, hv⟩ := lexComma_mid hr hk hw (stops_cons_space (isIdent_not_space hi) rs)
  have hq : r.cp ≠ QUOTE := cp_ne_of_ident hi (by simp)
  have e : lexComma l = ((skipWs ((l.absorb 1).emit .comma)).next.1, .ident) := by
    simp [lexComma, L.atEOF, hr, hm, hq, hi]
  exact Goes.step rfl e (L.next_right_cons hm) (by rw [L.next_tokRev_cons hm]; simp) (by simpa using hv)

theorem goes_lexComma_rparen {l : L} {c r : Rune} {ws rs : List Rune} (hr : l.right = c :: ws ++ r :: rs) (hk : l.tokRev = [])
    (hw : Ws ws) (hc : r.cp = RPAREN) : Goes l .comma .rightParen (r :: rs) [] [(.comma, [c])] := by
  obtain ⟨hm, hv⟩ := lexComma_mid hr hk hw (stops_cons_space (not_space_of_cp hc (by simp)) rs)
  have hi : isIdent r = false := not_ident_of_cp hc (by simp)
  have e : lexComma l = ((skipWs ((l.absorb 1).emit .comma)).next.1.backup, .rightParen) := by
    simp [lexComma, L.atEOF, hr, hm, hc, hi]
  exact Goes.step rfl e (by simp [hm]) (by simp) (by simpa using hv)

/-- `lexString` after the opening quote, inside an argument list: the body, the closing quote, and then something
    that is neither the end of the input nor a line end -/
theorem goes_lexString {l : L} {s tail : List Rune} {q : Rune} (hr : l.right = s ++ q :: tail) (hok : StrOK s)
    (hq : q.cp = QUOTE) (hne : tail ≠ []) (ht : startsEol tail = false) :
    Goes l .string .args tail [] [(.string, l.tokRev.reverse ++ s ++ [q])] := by
  obtain ⟨l1, h1, h2, h3, h4⟩ := scanString_spec s l q tail hr hok hq
  have e : lexString l = (((l1.emit .string).atEOL).1, .args) := by
    simp [lexString, h1, L.atEOF, h2, hne, atEOL_val, ht]
  exact Goes.step rfl e (by simpa using h2) (by simp) (by simp [h3, views_of_toks h4])

/-- the text begins with `->` -/
def arrowAhead (after : List Rune) : Bool := (after.take 2).map (·.cp) == [MINUS, GT]

/-- where `lexRightParen` goes, given what follows the parenthesis and the white space after it -/
def rparenTag (after : List Rune) : Tag :=
  match after with
  | [] => .start
  | r :: _ =>
    if r.cp = LBRACE then .leftBrace
    else if arrowAhead after then .outputOp
    else if isIdent r then .start
    else if r.cp = HASH then .hash
    else .done

/-- the dispatch at the end of `lexRightParen` -/
def rparenTail (l : L) : L × Tag :=
  let (l, r) := l.peek
  if r.cp == LBRACE then (l, .leftBrace)
  else if l.hasPrefix [MINUS, GT] then (l, .outputOp)
  else
    let (l, eol) := l.atEOL
    if eol || l.atEOF || isIdent r then (l, .start)
    else if r.cp == HASH then (l, .hash)
    else l.error

theorem rparenTail_spec {m : L} {after : List Rune} (hm : m.right = after) (hs : Stops isSpace after)
    (ht : rparenTag after ≠ .done) :
    (rparenTail m).2 = rparenTag after ∧ (rparenTail m).1.right = after ∧ (rparenTail m).1.tokRev = m.tokRev ∧
    (rparenTail m).1.toks = m.toks := by
  have hse := startsEol_of_stops hs
  subst hm
  cases hr : m.right with
  | nil =>
    simp [rparenTail, rparenTag, hr, hasPrefix_eq, atEOL_val, startsEol, L.atEOF]
  | cons r rs =>
    rw [hr] at hse ht
    unfold rparenTag at ht ⊢
    unfold rparenTail
    simp only [] at ht ⊢
    by_cases h1 : r.cp = LBRACE
    · simp [hr, h1]
    · have hp : m.hasPrefix [MINUS, GT] = arrowAhead (r :: rs) := by rw [hasPrefix_eq, hr]; rfl
      by_cases h2 : arrowAhead (r :: rs) = true
      · simp [hr, h1, hp, h2]
      · have h2' := hp
        simp only [h2] at h2'
        by_cases h3 : isIdent r = true
        · simp [hr, h1, h2, h2', h3, atEOL_val, hse, L.atEOF]
        · by_cases h4 : r.cp = HASH
          · simp [hr, h1, h2, h2', h3, h4, atEOL_val, hse, L.atEOF]
          · simp [h1, h2, h3, h4] at ht

/-- `lexRightParen` in front of `)`, white space `ws` and then `after`: emits `)` and stands in front of `after` -/
theorem goes_lexRightParen {l : L} {r : Rune} {ws after : List Rune} (hr : l.right = r :: ws ++ after) (hk : l.tokRev = [])
    (hw : Ws ws) (hs : Stops isSpace after) (ht : rparenTag after ≠ .done) :
    Goes l .rightParen (rparenTag after) after [] [(.rparen, [r])] := by
  have hm : (skipWs ((l.absorb 1).emit .rparen)).right = after := by
    rw [skipWs_right]; simp [hr, dropWhile_ws hw hs]
  obtain ⟨e1, e2, e3, e4⟩ := rparenTail_spec hm hs ht
  have e : lexRightParen l = rparenTail (skipWs ((l.absorb 1).emit .rparen)) := by
    have : l.atEOF = false := by simp [L.atEOF, hr]
    unfold lexRightParen rparenTail
    simp only [this]
    rfl
  refine Goes.step (l' := (rparenTail (skipWs ((l.absorb 1).emit .rparen))).1) rfl ?_ e2 (by rw [e3]; simp) ?_
  · show lexRightParen l = _
    rw [e, ← e1]
  · rw [views_of_toks e4]; simp [hr, hk]

/-! ## one argument -/

/-- the state an argument is lexed in, by its first rune (which the dispatching state function has consumed) -/
def runeTag (r : Rune) : Tag := if r.cp = QUOTE then .string else .ident

/-- what may follow an argument and the white space after it, and the state the lexer is in then -/
def ArgStop (after : List Rune) (t : Tag) : Prop :=
  ∃ r rs, after = r :: rs ∧ ((r.cp = RPAREN ∧ t = .rightParen) ∨ (r.cp = COMMA ∧ t = .comma) ∨ (r.cp = LBRACE ∧ t = .leftBrace))

theorem argText_head {a : Arg} {txt : List Rune} (h : ArgText a txt) :
    ∃ r0 txt', txt = r0 :: txt' ∧ ((r0.cp = QUOTE) ∨ isIdent r0 = true) := by
  cases h with
  | str s hs => exact ⟨_, _, rfl, Or.inl rfl⟩
  | ident _ hne hn =>
    cases txt with
    | nil => exact absurd rfl hne
    | cons r n => exact ⟨r, n, rfl, Or.inr (hn r (by simp))⟩

theorem startsEol_ws_append {ws after : List Rune} (hw : startsEol ws = false) (ha : Stops isSpace after) :
    startsEol (ws ++ after) = false := by
  cases ws with
  | nil => simpa using startsEol_of_stops ha
  | cons w ws =>
    cases ws with
    | nil =>
      cases after with
      | nil => simpa using hw
      | cons x xs =>
        have hx := ha x rfl
        have : x.cp ≠ NL := fun he => by rw [isSpace_eq, he] at hx; simp at hx
        simp [startsEol] at hw ⊢
        simp [hw, this]
    | cons w2 ws => simpa [startsEol] using hw

theorem ArgStop.stops_space {after : List Rune} {t : Tag} (h : ArgStop after t) : Stops isSpace after := by
  obtain ⟨r, rs, rfl, h⟩ := h
  refine Stops.cons ?_ _
  rcases h with ⟨h, _⟩ | ⟨h, _⟩ | ⟨h, _⟩ <;> exact not_space_of_cp h (by simp)

theorem ArgStop.stops_ident {after : List Rune} {t : Tag} (h : ArgStop after t) : Stops isIdent after := by
  obtain ⟨r, rs, rfl, h⟩ := h
  refine Stops.cons ?_ _
  rcases h with ⟨h, _⟩ | ⟨h, _⟩ | ⟨h, _⟩ <;> exact not_ident_of_cp h (by simp)

theorem ArgStop.identTag {after : List Rune} {t : Tag} (h : ArgStop after t) : identTag after = t := by
  obtain ⟨r, rs, rfl, h⟩ := h
  rcases h with ⟨h, rfl⟩ | ⟨h, rfl⟩ | ⟨h, rfl⟩ <;> simp [RT.identTag, declAhead, h]

theorem ArgStop.ne_done {after : List Rune} {t : Tag} (h : ArgStop after t) : t ≠ .done := by
  obtain ⟨r, rs, rfl, h⟩ := h
  rcases h with ⟨h, rfl⟩ | ⟨h, rfl⟩ | ⟨h, rfl⟩ <;> simp

/-- from `.args` in front of white space and a stopper -/
theorem goes_lexArgs_stop {l : L} {ws after : List Rune} {t : Tag} (hr : l.right = ws ++ after) (hw : Ws ws)
    (h : ArgStop after t) : Goes l .args t after [] [] := by
  have hd : l.right.dropWhile isSpace = after := by rw [hr, dropWhile_ws hw h.stops_space]
  obtain ⟨r, rs, rfl, h⟩ := h
  rcases h with ⟨h, rfl⟩ | ⟨h, rfl⟩ | ⟨h, rfl⟩
  · exact goes_lexArgs_rparen hd h
  · exact goes_lexArgs_comma hd h
  · exact goes_lexArgs_lbrace hd h

/-- Lexing one argument whose first rune `r0` has just been consumed by the dispatching state function: the
    argument's token is emitted and the lexer stands in front of what follows the white space after it. -/
theorem goes_arg {a : Arg} {txt ws after : List Rune} {t : Tag} (ha : ArgText a txt) (hws : AfterArg a ws)
    (hstop : ArgStop after t) {r0 : Rune} {txt' : List Rune} (htxt : txt = r0 :: txt') {l : L}
    (hr : l.right = txt' ++ ws ++ after) (hk : l.tokRev = [r0]) :
    Goes l (runeTag r0) t after [] [argView a] := by
  cases ha with
  | str s hs =>
    obtain ⟨hw, he⟩ := hws
    have h0 : r0 = asc QUOTE ∧ txt' = s ++ [asc QUOTE] := by simpa using htxt.symm
    obtain ⟨rfl, rfl⟩ := h0
    have hne : ws ++ after ≠ [] := by
      obtain ⟨r, rs, rfl, _⟩ := hstop; simp
    have h1 := goes_lexString (l := l) (s := s) (q := asc QUOTE) (tail := ws ++ after) (by simpa using hr) hs rfl hne
      (startsEol_ws_append he hstop.stops_space)
    have h2 := h1.trans (fun l1 hr1 _ => goes_lexArgs_stop hr1 hw hstop)
    exact h2.cast rfl rfl rfl (by simp [hk, argView])
  | ident n hne hn =>
    subst htxt
    have hi : isIdent r0 = true := hn r0 (by simp)
    have hq : r0.cp ≠ QUOTE := cp_ne_of_ident hi (by simp)
    have h1 := goes_lexIdent (l := l) (n := txt') (ws := ws) (after := after) hr (fun r h => hn r (by simp [h])) hws
      hstop.stops_space hstop.stops_ident (by rw [hstop.identTag]; exact hstop.ne_done)
    have h2 : Goes l .ident t after [] [argView (.ident (r0 :: txt'))] :=
      h1.cast hstop.identTag rfl rfl (by simp [hk, argView])
    simpa [runeTag, hq] using h2

/-! ## statement boundaries -/

theorem dropWhile_ws_append {ws xs : List Rune} (hw : Ws ws) : (ws ++ xs).dropWhile isSpace = xs.dropWhile isSpace := by
  induction ws with
  | nil => rfl
  | cons w ws ih =>
    simp only [List.cons_append, List.dropWhile_cons, hw w (by simp)]
    exact ih (fun r hr => hw r (by simp [hr]))

/-- entering a statement that begins with `#` -/
theorem goes_enter_hash {l : L} {t : Tag} {h : Rune} {more : List Rune} (hat : AtStmt l t (h :: more)) (hc : h.cp = HASH) :
    Goes l t .hash (h :: more) [] [] := by
  have hs : isSpace h = false := not_space_of_cp hc (by simp)
  obtain ⟨hk, hat⟩ := hat
  rcases hat with ⟨rfl, hr⟩ | ⟨rfl, hr, _⟩
  · exact goes_lexStart_hash (by rw [hr]; simp [hs]) hc
  · exact (Goes.refl l .hash).cast rfl (by rw [hr]; simp [hs]) hk rfl

/-- entering a statement that begins with an identifier which is not the keyword `task…` -/
theorem goes_enter_ident {l : L} {t : Tag} {r : Rune} {more : List Rune} (hat : AtStmt l t (r :: more))
    (hi : isIdent r = true) (hk : ((r :: more).take 4).map (·.cp) ≠ [116, 97, 115, 107]) :
    Goes l t .ident more [r] [] := by
  have hs : isSpace r = false := isIdent_not_space hi
  obtain ⟨_, hat⟩ := hat
  rcases hat with ⟨rfl, hr⟩ | ⟨rfl, hr, r', tl, hr', hc'⟩
  · exact goes_lexStart_ident (by rw [hr]; simp [hs]) hi hk
  · exfalso
    rw [hr] at hr'
    simp [hs] at hr'
    obtain ⟨rfl, _⟩ := hr'
    exact cp_ne_of_ident hi (by simp) hc'

/-- leaving a statement in state `start`, in front of white space and the rest of the file -/
theorem atStmt_start {l : L} {ws rest : List Rune} (hk : l.tokRev = []) (hr : l.right = ws ++ rest) (hw : Ws ws) :
    AtStmt l .start rest := ⟨hk, Or.inl ⟨rfl, by rw [hr, dropWhile_ws_append hw]⟩⟩

end RT
end Spok
