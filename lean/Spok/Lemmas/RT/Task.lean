import Spok.Lemmas.RT.Body
/-! # Round trip: lexing a task statement (`LexStmtSpec Node.isTask`) -/
namespace Spok.RTT

theorem isSpace_asc_t : isSpace (asc 116) = false := by decide

/-- from `start` in front of (whitespace and) `task … { … }` to `start` behind the closing brace -/
theorem task_core (hparen : LexParenSpec) (ws1 name ws2 : List Rune) (deps : List Arg) (p : List Rune)
    (outs : List Arg) (o : List Rune) (cmds : List (List Rune)) (b rest : List Rune)
    (hws1 : Ws ws1) (hname : IdentRunes name) (hws2 : Ws ws2) (hp : ParenText deps p) (ho : OutsText outs o)
    (hb : BodyText cmds b) (hrest : ∀ r, rest.head? = some r → r.cp ≠ RBRACE ∧ r.cp ≠ LBRACE) (l : L)
    (h : l.right.dropWhile isSpace = asc 116 :: asc 97 :: asc 115 :: asc 107 ::
      (ws1 ++ (name ++ (ws2 ++ (p ++ (o ++ asc LBRACE :: (b ++ asc RBRACE :: rest))))))) :
    ∃ l', Reaches l .start l' .start ∧ l'.tokRev = [] ∧ l'.right = rest ∧
      ∃ pv ov, ParenViews deps pv ∧ OutsViews outs ov ∧
        views l' = views l ++ vTask :: (.ident, name) :: pv ++ ov ++ vLBrace :: cmds.map (fun c => (TT.command, c)) ++
          [vRBrace] := by
  obtain ⟨p', rfl⟩ := ParenText.head hp
  obtain ⟨l1, e1, t1, r1, v1⟩ := lexStart_task l _ h
  obtain ⟨l2, e2, t2, r2, v2⟩ := lexTaskKeyword_spec l1 _ t1 r1
  -- after the keyword and its whitespace: the name (possibly empty), whitespace, `(`
  have hlp : isSpace (asc LPAREN) = false := by decide
  obtain ⟨ws2', hws2', r2'⟩ : ∃ ws2', Ws ws2' ∧ l2.right = name ++ (ws2' ++ asc LPAREN ::
      (p' ++ (o ++ asc LBRACE :: (b ++ asc RBRACE :: rest)))) := by
    cases name with
    | nil =>
      refine ⟨[], (fun _ h => by cases h), ?_⟩
      rw [r2]
      have hw : Ws (ws1 ++ ws2) := by
        intro r hr
        rcases List.mem_append.1 hr with h' | h'
        · exact hws1 r h'
        · exact hws2 r h'
      have := dropWhile_ws hw hlp (p' ++ (o ++ asc LBRACE :: (b ++ asc RBRACE :: rest)))
      simpa using this
    | cons x name' =>
      refine ⟨ws2, hws2, ?_⟩
      rw [r2]
      have := dropWhile_ws hws1 (isSpace_of_isIdent (hname x (by simp)))
        (name' ++ (ws2 ++ asc LPAREN :: (p' ++ (o ++ asc LBRACE :: (b ++ asc RBRACE :: rest)))))
      simpa using this
  obtain ⟨l3, e3, t3, r3, v3⟩ := lexTaskName_spec l2 name ws2' _ hname hws2' t2 r2'
  obtain ⟨l4, e4, t4, r4, iv, hiv, v4⟩ := hparen deps _ hp l3 (o ++ asc LBRACE :: (b ++ asc RBRACE :: rest)) t3
    (by rw [r3]; simp)
  obtain ⟨l5, e5, t5, r5, ov, hov, v5⟩ := outs_reaches hparen outs o ho l4 _ t4 r4
  obtain ⟨l6, e6, t6, r6, v6⟩ := body_reaches cmds b hb rest hrest l5 t5 r5
  refine ⟨l6, ?_, t6, r6, vLParen :: iv ++ [vRParen], ov, ?_, hov, ?_⟩
  · exact (reach_start e1).trans ((reach_taskKeyword e2).trans ((reach_taskName e3).trans (e4.trans (e5.trans e6))))
  · rcases hiv with ⟨h1, h2⟩ | h1
    · exact Or.inl ⟨h1, by rw [h2]; rfl⟩
    · exact Or.inr ⟨iv, h1, rfl⟩
  · rw [v6, v5, v4, v3, v2, v1]; simp

end Spok.RTT

namespace Spok
open RTT

/-- **lexing a task statement**: from a statement boundary in front of a task (with or without
    docstring line) written in any admissible layout, the lexer reaches the statement boundary behind its
    closing brace, having emitted exactly the task's tokens -/
theorem lexStmt_task (hparen : LexParenSpec) : LexStmtSpec Node.isTask := by
  intro node txt rest hnode hst l t hat
  cases hst with
  | comment => exact hnode.elim
  | assignStr => exact hnode.elim
  | assignCall => exact hnode.elim
  | assignIdent => exact hnode.elim
  | task doc d e ws0 ws1 name ws2 deps p outs o cmds b rest hdoc hws1 hname hws2 hp ho hb hrest =>
    obtain ⟨hat0, hat⟩ := hat
    have hts : isSpace (asc 116) = false := isSpace_asc_t
    rcases hdoc with ⟨rfl, rfl⟩ | ⟨hne, hdocok, he, hcr, hws0, rfl⟩
    · -- no docstring
      have htxt : ([] ++ asc 116 :: asc 97 :: asc 115 :: asc 107 :: ws1 ++ name ++ ws2 ++ p ++ o ++ asc LBRACE :: b ++
          [asc RBRACE] ++ rest).dropWhile isSpace = asc 116 :: asc 97 :: asc 115 :: asc 107 ::
          (ws1 ++ (name ++ (ws2 ++ (p ++ (o ++ asc LBRACE :: (b ++ asc RBRACE :: rest)))))) := by
        have := dropWhile_nonspace hts (asc 97 :: asc 115 :: asc 107 ::
          (ws1 ++ (name ++ (ws2 ++ (p ++ (o ++ asc LBRACE :: (b ++ asc RBRACE :: rest)))))))
        simpa using this
      rcases hat with ⟨rfl, hr⟩ | ⟨rfl, hr, r, tl, hr2, hcp⟩
      · obtain ⟨l', e, t', r', pv, ov, hpv, hov, v'⟩ := task_core hparen ws1 name ws2 deps p outs o cmds b rest hws1 hname
          hws2 hp ho hb hrest l (hr.trans htxt)
        exact ⟨l', .start, e, ⟨t', Or.inl ⟨rfl, by rw [r']⟩⟩, _, ⟨pv, ov, hpv, hov, rfl⟩, by rw [v']; simp⟩
      · exfalso
        rw [htxt] at hr
        rw [hr] at hr2
        injection hr2 with h1 _
        rw [← h1] at hcp
        exact absurd hcp (by decide)
    · -- docstring line
      have htxt : (asc HASH :: doc ++ e ++ ws0 ++ asc 116 :: asc 97 :: asc 115 :: asc 107 :: ws1 ++ name ++ ws2 ++ p ++ o ++
          asc LBRACE :: b ++ [asc RBRACE] ++ rest).dropWhile isSpace = asc HASH :: (doc ++ (e ++ (ws0 ++
            asc 116 :: asc 97 :: asc 115 :: asc 107 ::
            (ws1 ++ (name ++ (ws2 ++ (p ++ (o ++ asc LBRACE :: (b ++ asc RBRACE :: rest))))))))) := by
        have := dropWhile_nonspace (by decide : isSpace (asc HASH) = false) (doc ++ (e ++ (ws0 ++
            asc 116 :: asc 97 :: asc 115 :: asc 107 ::
            (ws1 ++ (name ++ (ws2 ++ (p ++ (o ++ asc LBRACE :: (b ++ asc RBRACE :: rest)))))))))
        simpa using this
      -- in both cases the lexer gets to `hash` in front of the `#`
      obtain ⟨l0, e0, t0, r0, v0⟩ : ∃ l0, Reaches l t l0 .hash ∧ l0.tokRev = [] ∧
          l0.right = asc HASH :: (doc ++ (e ++ (ws0 ++ asc 116 :: asc 97 :: asc 115 :: asc 107 ::
            (ws1 ++ (name ++ (ws2 ++ (p ++ (o ++ asc LBRACE :: (b ++ asc RBRACE :: rest))))))))) ∧ views l0 = views l := by
        rcases hat with ⟨rfl, hr⟩ | ⟨rfl, hr, _⟩
        · obtain ⟨l0, e0, t0, r0, v0⟩ := lexStart_hash l _ (hr.trans htxt)
          exact ⟨l0, reach_start e0, t0, r0, v0⟩
        · exact ⟨l, Reaches.refl _ _, hat0, hr.trans htxt, rfl⟩
      obtain ⟨l1, e1, t1, r1, v1⟩ := lexHash_spec l0 _ t0 r0
      obtain ⟨l2, e2, t2, r2, v2⟩ := lexComment_spec l1 doc e _ hdocok he hcr t1 r1
      have hdw : l2.right.dropWhile isSpace = asc 116 :: asc 97 :: asc 115 :: asc 107 ::
          (ws1 ++ (name ++ (ws2 ++ (p ++ (o ++ asc LBRACE :: (b ++ asc RBRACE :: rest)))))) := by
        rw [r2, dropWhile_append_of_all _ _ _ (eol_ws he)]
        exact dropWhile_ws hws0 hts _
      obtain ⟨l', e, t', r', pv, ov, hpv, hov, v'⟩ := task_core hparen ws1 name ws2 deps p outs o cmds b rest hws1 hname
        hws2 hp ho hb hrest l2 hdw
      refine ⟨l', .start, e0.trans ((reach_hash e1).trans ((reach_comment e2).trans e)),
        ⟨t', Or.inl ⟨rfl, by rw [r']⟩⟩, _, ⟨pv, ov, hpv, hov, rfl⟩, ?_⟩
      have hemp : doc.isEmpty = false := by cases doc with | nil => exact absurd rfl hne | cons => rfl
      rw [v', v2, v1, v0, hemp]; simp

end Spok

namespace Spok
/-- non-vacuity: `task a() { x }` is an admissible layout of a task with one command -/
example : StmtText (.task [asc 97] [] [] [] [[asc 120]])
    ([] ++ asc 116 :: asc 97 :: asc 115 :: asc 107 :: [asc SP] ++ [asc 97] ++ [] ++ (asc LPAREN :: [] ++ [asc RPAREN]) ++
      [asc SP] ++ asc LBRACE :: ([asc SP] ++ [asc 120] ++ [asc SP]) ++ [asc RBRACE]) [] :=
  StmtText.task [] [] [] [] [asc SP] [asc 97] [] [] _ [] _ [[asc 120]] _ []
    (Or.inl ⟨rfl, rfl⟩) (by intro r hr; simp at hr; subst hr; decide) (by intro r hr; simp at hr; subst hr; decide)
    (by intro r hr; cases hr) (ParenText.empty [] (by intro r hr; cases hr))
    (OutsText.none [asc SP] (by intro r hr; simp at hr; subst hr; decide))
    (BodyText.cmds [asc SP] [asc 120] [] [asc SP] (by intro r hr; simp at hr; subst hr; decide)
      ⟨by decide, by rw [cmdScanOK], by decide⟩
      (MoreCmds.done _ _ (Or.inr ⟨[], [asc SP], by simp, Or.inr rfl, rfl, by simp⟩)))
    (by intro r hr; cases hr)
end Spok
