import Spok.Syntax.Render
import Spok.Lemmas.LexTerm
/-! # Round trip: shared definitions (the interface between the lexing lemmas, the parsing lemmas and
the assembly of C06 / C07 / C11 / C15)

* `Reaches l t l' t'`: some number of iterations of the lexer's `run` loop lead from state `(l, t)` to
  `(l', t')`.
* `views l`: the tokens emitted so far, as (type, text) pairs — offsets and line numbers are irrelevant
  to a successful parse.
* `…Views`: which token sequences the pieces of a file lex to.
* `Lex…Spec`: the *statements* of the lexing lemmas, as `Prop`-valued definitions, so that the files
  proving them and the files using them can be written independently. -/
namespace Spok

/-! ## running the lexer -/

/-- `k` iterations of the run loop lead from `(l, t)` to `(l', t')`, whatever the remaining budget -/
def Reaches (l : L) (t : Tag) (l' : L) (t' : Tag) : Prop := ∃ k, ∀ f, runF (f + k) l t = runF f l' t'

theorem Reaches.refl (l : L) (t : Tag) : Reaches l t l t := ⟨0, fun _ => rfl⟩

theorem Reaches.trans {l1 l2 l3 : L} {t1 t2 t3 : Tag} (h1 : Reaches l1 t1 l2 t2) (h2 : Reaches l2 t2 l3 t3) :
    Reaches l1 t1 l3 t3 := by
  obtain ⟨k1, h1⟩ := h1
  obtain ⟨k2, h2⟩ := h2
  refine ⟨k2 + k1, fun f => ?_⟩
  rw [← Nat.add_assoc, h1, h2]

/-- one iteration -/
theorem Reaches.step {l l' : L} {t t' : Tag} (hf : t.final = false) (hs : stepTag l t = (l', t')) :
    Reaches l t l' t' := by
  refine ⟨1, fun f => ?_⟩
  show runF (f + 1) l t = runF f l' t'
  rw [runF]; simp [hf, hs]

/-- a run that has ended keeps its result when given more fuel -/
theorem runF_final (f : Nat) (l : L) (t : Tag) (h : t.final = true) : runF f l t = (l, t) := by
  cases f <;> simp [runF, h]

theorem runF_mono : ∀ (f j : Nat) (l : L) (t : Tag), (runF f l t).2 = .done → runF (f + j) l t = runF f l t := by
  intro f
  induction f with
  | zero =>
    intro j l t h
    by_cases hf : t.final = true
    · rw [runF_final _ _ _ hf, runF_final _ _ _ hf]
    · simp [runF, hf] at h
  | succ f ih =>
    intro j l t h
    by_cases hf : t.final = true
    · rw [runF_final _ _ _ hf, runF_final _ _ _ hf]
    · have : f + 1 + j = (f + j) + 1 := by omega
      rw [this]
      simp only [runF, hf] at h ⊢
      exact ih j _ _ h

/-- reaching `.done` determines the result of `lexRunes` -/
theorem lexRunes_of_reaches {rs : List Rune} {l' : L} (h : Reaches (L.init rs) .start l' .done) :
    lexRunes rs = ⟨l'.toks.toList, true⟩ := by
  obtain ⟨k, hk⟩ := h
  have hd := runF_done (3 * rs.length + 4) (L.init rs) .start (by simp) (by simp [L.init, rank])
  have hm := runF_mono (3 * rs.length + 4) k (L.init rs) .start hd
  have := hk (3 * rs.length + 4)
  rw [runF_final (3 * rs.length + 4) l' .done (by simp [Tag.final])] at this
  unfold lexRunes
  rw [← hm, this]
  simp

/-! ## token views -/

abbrev View := TT × List Rune
def view (t : Tok) : View := (t.ty, t.val)
def views (l : L) : List View := l.toks.toList.map view

def argView : Arg → View
  | .str s => (.string, asc QUOTE :: s ++ [asc QUOTE])
  | .ident n => (.ident, n)

def vHash : View := (.hash, [asc HASH])
def vTask : View := (.task, [asc 116, asc 97, asc 115, asc 107])
def vLParen : View := (.lparen, [asc LPAREN])
def vRParen : View := (.rparen, [asc RPAREN])
def vLBrace : View := (.lbrace, [asc LBRACE])
def vRBrace : View := (.rbrace, [asc RBRACE])
def vComma : View := (.comma, [asc COMMA])
def vOutput : View := (.output, [asc MINUS, asc GT])
def vDeclare : View := (.declare, [asc COLON, asc EQUALS])
def vEOF : View := (.eof, [])

/-- the tokens of the items of an argument list (without the parentheses): a comma after every item
    but the last, and possibly after the last too -/
inductive ItemViews : List Arg → List View → Prop
  | last (a : Arg) : ItemViews [a] [argView a]
  | lastComma (a : Arg) : ItemViews [a] [argView a, vComma]
  | cons (a : Arg) (as : List Arg) (vs : List View) : ItemViews as vs → ItemViews (a :: as) (argView a :: vComma :: vs)

/-- `(` items `)` -/
def ParenViews (args : List Arg) (vs : List View) : Prop :=
  (args = [] ∧ vs = [vLParen, vRParen]) ∨ ∃ iv, ItemViews args iv ∧ vs = vLParen :: iv ++ [vRParen]

/-- the output clause -/
def OutsViews (outs : List Arg) (vs : List View) : Prop :=
  (outs = [] ∧ vs = []) ∨ (∃ a, outs = [a] ∧ vs = [vOutput, argView a]) ∨
  (outs ≠ [] ∧ ∃ pv, ParenViews outs pv ∧ vs = vOutput :: pv)

/-- the tokens a top-level statement lexes to -/
def StmtViews : Node → List View → Prop
  | .comment c, vs => vs = [vHash, (.comment, c)]
  | .assign n (.str s), vs => vs = [(.ident, n), vDeclare, (.string, asc QUOTE :: s ++ [asc QUOTE])]
  | .assign n (.ident v), vs => vs = [(.ident, n), vDeclare, (.ident, v)]
  | .assign n (.call f args), vs => ∃ pv, ParenViews args pv ∧ vs = (.ident, n) :: vDeclare :: (.ident, f) :: pv
  | .task name doc deps outs cmds, vs =>
    ∃ pv ov, ParenViews deps pv ∧ OutsViews outs ov ∧
      vs = (if doc.isEmpty then [] else [vHash, (.comment, doc)]) ++ vTask :: (.ident, name) :: pv ++ ov ++
           vLBrace :: cmds.map (fun c => (TT.command, c)) ++ [vRBrace]

/-! ## statements of the lexing lemmas -/

/-- Lexing `( … )` from the state that has just been told to lex a left parenthesis: the lexer arrives,
    with an empty token buffer, in front of the closing parenthesis in state `rightParen`, having emitted
    `(` and the items. -/
def LexParenSpec : Prop :=
  ∀ (args : List Arg) (p : List Rune), ParenText args p →
  ∀ (l : L) (rest : List Rune), l.tokRev = [] → l.right = p ++ rest →
  ∃ l', Reaches l .leftParen l' .rightParen ∧ l'.tokRev = [] ∧ l'.right = asc RPAREN :: rest ∧
    ∃ iv, ((args = [] ∧ iv = []) ∨ ItemViews args iv) ∧ views l' = views l ++ vLParen :: iv

/-- where the lexer stands between two statements: in `start`, or (after a builtin call) already in
    `hash` in front of the `#` of the next comment / docstring -/
def AtStmt (l : L) (t : Tag) (txt : List Rune) : Prop :=
  l.tokRev = [] ∧
  ((t = .start ∧ l.right.dropWhile isSpace = txt.dropWhile isSpace) ∨
   (t = .hash ∧ l.right = txt.dropWhile isSpace ∧ ∃ r tl, l.right = r :: tl ∧ r.cp = HASH))

/-- Lexing one statement: from a statement boundary in front of `txt ++ rest` the lexer reaches a
    statement boundary in front of `rest`, having emitted the statement's tokens. -/
def LexStmtSpec (P : Node → Prop) : Prop :=
  ∀ (node : Node) (txt rest : List Rune), P node → StmtText node txt rest →
  ∀ (l : L) (t : Tag), AtStmt l t (txt ++ rest) →
  ∃ l' t', Reaches l t l' t' ∧ AtStmt l' t' rest ∧ ∃ vs, StmtViews node vs ∧ views l' = views l ++ vs

def Node.isComment : Node → Prop | .comment _ => True | _ => False
def Node.isAssign : Node → Prop | .assign _ _ => True | _ => False
def Node.isTask : Node → Prop | .task .. => True | _ => False

end Spok
