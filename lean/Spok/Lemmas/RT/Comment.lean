import Spok.Lemmas.RT.Prim
/-! # Round trip: lexing a comment statement (`LexStmtSpec Node.isComment`) -/
set_option linter.unusedSimpArgs false
namespace Spok

open RT in
/-- a comment line -/
theorem lexStmt_comment : LexStmtSpec Node.isComment := by
  intro node txt rest hP hst l t hat
  cases hst with
  | comment c e rest hc he hcr =>
    have h1 := goes_enter_hash (l := l) (t := t) (h := asc HASH) (more := c ++ e ++ rest) (by simpa using hat) rfl
    have h2 := h1.trans (fun l1 hr1 hk1 => goes_lexHash hr1 hk1)
    have ht : e ++ rest = [] ∨ startsEol (e ++ rest) = true := by
      rcases he with he | ⟨rfl, rfl⟩
      · exact Or.inr (eol_startsEol he rest)
      · exact Or.inl rfl
    have hcr' : endsWithCp c CR = true → ∀ r, (e ++ rest).head? = some r → r.cp ≠ NL := by
      intro hcr1 r hr
      rcases he with he | ⟨rfl, rfl⟩
      · rcases he with rfl | rfl
        · exact absurd rfl (hcr hcr1)
        · simp at hr; subst hr; simp
      · simp at hr
    have h3 := h2.trans (fun l2 hr2 hk2 => goes_lexComment (c := c) (tail := e ++ rest) (by simpa using hr2) hk2 hc ht hcr')
    obtain ⟨l', hR, hr', hk', hv'⟩ := h3
    have hwe : Ws e := by
      rcases he with he | ⟨rfl, _⟩
      · exact eol_ws he
      · exact ws_nil
    exact ⟨l', .start, hR, atStmt_start hk' hr' hwe, _, rfl, by simpa [vHash] using hv'⟩
  | assignStr => exact hP.elim
  | assignCall => exact hP.elim
  | assignIdent => exact hP.elim
  | task => exact hP.elim

end Spok
