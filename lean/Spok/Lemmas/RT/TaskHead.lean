import Spok.Lemmas.RT.PrimTask
/-! # Round trip, task statements: docstring line and header (`# doc`, `task name (`) -/
namespace Spok.RTT

/-- one iteration of the run loop, by state function -/
theorem step_reaches {l l' : L} {t t' : Tag} (hf : t.final = false) (hs : stepTag l t = (l', t')) :
    Reaches l t l' t' := Reaches.step hf hs

theorem reach_start {l l' : L} {t' : Tag} (h : lexStart l = (l', t')) : Reaches l .start l' t' := Reaches.step rfl h
theorem reach_hash {l l' : L} {t' : Tag} (h : lexHash l = (l', t')) : Reaches l .hash l' t' := Reaches.step rfl h
theorem reach_comment {l l' : L} {t' : Tag} (h : lexComment l = (l', t')) : Reaches l .comment l' t' := Reaches.step rfl h
theorem reach_taskKeyword {l l' : L} {t' : Tag} (h : lexTaskKeyword l = (l', t')) : Reaches l .taskKeyword l' t' := Reaches.step rfl h
theorem reach_leftParen {l l' : L} {t' : Tag} (h : lexLeftParen l = (l', t')) : Reaches l .leftParen l' t' := Reaches.step rfl h
theorem reach_rightParen {l l' : L} {t' : Tag} (h : lexRightParen l = (l', t')) : Reaches l .rightParen l' t' := Reaches.step rfl h
theorem reach_outputOp {l l' : L} {t' : Tag} (h : lexOutputOp l = (l', t')) : Reaches l .outputOp l' t' := Reaches.step rfl h
theorem reach_leftBrace {l l' : L} {t' : Tag} (h : lexLeftBrace l = (l', t')) : Reaches l .leftBrace l' t' := Reaches.step rfl h
theorem reach_rightBrace {l l' : L} {t' : Tag} (h : lexRightBrace l = (l', t')) : Reaches l .rightBrace l' t' := Reaches.step rfl h
theorem reach_taskBody {l l' : L} {t' : Tag} (h : lexTaskBody l = (l', t')) : Reaches l .taskBody l' t' := Reaches.step rfl h
theorem reach_taskCommands {l l' : L} {t' : Tag} (h : lexTaskCommands l = (l', t')) : Reaches l .taskCommands l' t' := Reaches.step rfl h
theorem reach_taskName {l l' : L} {t' : Tag} (h : lexTaskName l = (l', t')) : Reaches l .taskName l' t' := Reaches.step rfl h
theorem reach_ident {l l' : L} {t' : Tag} (h : lexIdent l = (l', t')) : Reaches l .ident l' t' := Reaches.step rfl h
theorem reach_args {l l' : L} {t' : Tag} (h : lexArgs l = (l', t')) : Reaches l .args l' t' := Reaches.step rfl h
theorem reach_string {l l' : L} {t' : Tag} (h : lexString l = (l', t')) : Reaches l .string l' t' := Reaches.step rfl h

theorem hasPrefix_eq (l : L) (s : List Nat) : l.hasPrefix s = ((l.right.take s.length).map (·.cp) == s) := rfl

/-! ## the docstring line -/

/-- `lexStart` in front of (whitespace and) a `#` -/
theorem lexStart_hash (l : L) (rest : List Rune) (h : l.right.dropWhile isSpace = asc HASH :: rest) :
    ∃ l', lexStart l = (l', .hash) ∧ l'.tokRev = [] ∧ l'.right = asc HASH :: rest ∧ views l' = views l := by
  have hr : (skipWs l).right = asc HASH :: rest := by rw [skipWs_right, h]
  refine ⟨skipWs l, ?_, by simp, hr, by simp⟩
  unfold lexStart
  simp [hasPrefix_eq, hr]

theorem lexHash_spec (l : L) (rest : List Rune) (ht : l.tokRev = []) (h : l.right = asc HASH :: rest) :
    ∃ l', lexHash l = (l', .comment) ∧ l'.tokRev = [] ∧ l'.right = rest ∧ views l' = views l ++ [vHash] := by
  refine ⟨(l.absorb 1).emit .hash, ?_, by simp, by simp [h], by simp [h, ht, vHash]⟩
  unfold lexHash
  simp [L.atEOF, h]

/-- a comment text followed by its line end never looks like a line end earlier -/
theorem comment_no_eol (doc e more : List Rune) (hdoc : CommentOK doc) (he : Eol e)
    (hcr : endsWithCp doc CR = true → e ≠ [asc NL]) :
    ∀ pre suf, doc = pre ++ suf → suf ≠ [] → startsEol (suf ++ (e ++ more)) = false := by
  intro pre suf hd hne
  cases suf with
  | nil => exact absurd rfl hne
  | cons x suf' =>
    have hx : x.cp ≠ NL := hdoc x (by simp [hd])
    cases suf' with
    | cons y suf'' =>
      have hy : y.cp ≠ NL := hdoc y (by simp [hd])
      simp [startsEol, hx, hy]
    | nil =>
      rcases he with rfl | rfl
      · -- `e = [NL]`: the last rune of `doc` is not a carriage return
        have : x.cp ≠ CR := by
          intro hc
          have : endsWithCp doc CR = true := by simp [endsWithCp, hd, hc]
          exact hcr this rfl
        simp [startsEol, hx, this]
      · simp [startsEol, hx]

theorem eol_startsEol {e : List Rune} (h : Eol e) (rest : List Rune) : startsEol (e ++ rest) = true := by
  rcases h with rfl | rfl <;> simp [Spok.startsEol]

theorem eol_ws {e : List Rune} (h : Eol e) : Ws e := by
  rcases h with rfl | rfl <;> intro r hr <;> simp at hr
  · subst hr; decide
  · rcases hr with rfl | rfl <;> decide

theorem lexComment_spec (l : L) (doc e more : List Rune) (hdoc : CommentOK doc) (he : Eol e)
    (hcr : endsWithCp doc CR = true → e ≠ [asc NL]) (ht : l.tokRev = []) (h : l.right = doc ++ (e ++ more)) :
    ∃ l', lexComment l = (l', .start) ∧ l'.tokRev = [] ∧ l'.right = e ++ more ∧
      views l' = views l ++ [(.comment, doc)] := by
  obtain ⟨h1, h2, h3⟩ := scanComment_spec doc (e ++ more) (comment_no_eol doc e more hdoc he hcr)
    (Or.inr (eol_startsEol he more)) l h
  refine ⟨(scanComment l).emit .comment, rfl, by simp, by simp [h1], ?_⟩
  rw [views_emit, views_congr h3, h2, ht]; simp

/-! ## the header -/

/-- `lexStart` in front of (whitespace and) the keyword -/
theorem lexStart_task (l : L) (rest : List Rune)
    (h : l.right.dropWhile isSpace = asc 116 :: asc 97 :: asc 115 :: asc 107 :: rest) :
    ∃ l', lexStart l = (l', .taskKeyword) ∧ l'.tokRev = [] ∧
      l'.right = asc 116 :: asc 97 :: asc 115 :: asc 107 :: rest ∧ views l' = views l := by
  have hr : (skipWs l).right = asc 116 :: asc 97 :: asc 115 :: asc 107 :: rest := by rw [skipWs_right, h]
  refine ⟨skipWs l, ?_, by simp, hr, by simp⟩
  unfold lexStart
  simp [hasPrefix_eq, hr]

theorem lexTaskKeyword_spec (l : L) (rest : List Rune) (ht : l.tokRev = [])
    (h : l.right = asc 116 :: asc 97 :: asc 115 :: asc 107 :: rest) :
    ∃ l', lexTaskKeyword l = (l', .taskName) ∧ l'.tokRev = [] ∧ l'.right = rest.dropWhile isSpace ∧
      views l' = views l ++ [vTask] := by
  refine ⟨skipWs ((l.absorb 4).emit .task), ?_, by simp, by simp [skipWs_right, h], by simp [h, ht, vTask]⟩
  unfold lexTaskKeyword
  simp [L.atEOF, h]

theorem lexTaskName_spec (l : L) (name ws2 more : List Rune) (hname : IdentRunes name) (hws : Ws ws2)
    (ht : l.tokRev = []) (h : l.right = name ++ (ws2 ++ asc LPAREN :: more)) :
    ∃ l', lexTaskName l = (l', .leftParen) ∧ l'.tokRev = [] ∧ l'.right = asc LPAREN :: more ∧
      views l' = views l ++ [(.ident, name)] := by
  have hstop : ∀ r, (ws2 ++ asc LPAREN :: more).head? = some r → isIdent r = false := by
    intro r hr
    cases ws2 with
    | nil => simp at hr; subst hr; decide
    | cons w ws => simp at hr; subst hr; exact isIdent_of_isSpace (hws _ (by simp))
  obtain ⟨h1, h2⟩ := scanIdent_spec name hname _ hstop l h
  have hsp : isSpace (asc LPAREN) = false := by decide
  have hr : (skipWs ((scanIdent l).emit .ident)).right = asc LPAREN :: more := by
    rw [skipWs_right, L.emit_right, h1, dropWhile_ws hws hsp]
  refine ⟨((skipWs ((scanIdent l).emit .ident)).next).1.backup, ?_, by simp, by simp [hr], ?_⟩
  · unfold lexTaskName
    simp [L.peek_snd hr]
  · rw [views_congr (L.next_backup_toks _), views_skipWs, views_emit, views_congr (scanIdent_toks l), h2, ht]
    simp

theorem ParenText.head {args : List Arg} {p : List Rune} (h : ParenText args p) : ∃ p', p = asc LPAREN :: p' := by
  cases h with
  | empty ws _ => exact ⟨_, rfl⟩
  | items ws args body _ _ => exact ⟨ws ++ body ++ [asc RPAREN], by simp⟩

end Spok.RTT
