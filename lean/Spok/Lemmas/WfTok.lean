import Spok.Syntax.WF
import Spok.Lemmas.LexTerm
/-! # The value-level shape of the lexer's token stream (for `parse_wf`)

`StrV inp m ts` refines the type-level stream predicate `Str` of `LexLine`: the *mode* `m` is (an
abstraction of) the lexer state function that will emit the next token, `transV` says which token
types that state can emit and where it goes, and `tokOK` says what the text of a token emitted there
looks like:

* a COMMENT has no newline; an IDENT consists of identifier runes, is non-empty unless it is a task
  name, and does not begin with the keyword when it was scanned from `lexStart`;
* a STRING is `"` ++ s ++ `"` with `strOKB s`; the first COMMAND of a body satisfies `firstCmdOKB`, a
  later one `nextCmdOKB`;
* every such text is a contiguous slice of the input `inp` (`Sl`), followed — for comments and
  commands — by an ASCII rune or the end of the input (`SlA`); this is what the self-decoding of the
  formatted text needs.

Line numbers play no role here. -/
namespace Spok.PW
open Spok

inductive VM where
  | top | atEnd | afterHash | afterTask | needLParen | args | afterRParen | afterOutput | afterIdent
  | afterComma | afterDeclare | afterString | body0 | body1 | closing
  | needRParen | needComma | needLBrace | needString | needIdent | needIdentS
deriving DecidableEq, Repr

/-- what a non-final token of type `ty` does to the mode; `none` = never emitted there -/
def transV : VM → TT → Option VM
  | .top, .hash => some .afterHash
  | .top, .task => some .afterTask
  | .top, .ident => some .afterIdent
  | .afterHash, .comment => some .top
  | .afterTask, .ident => some .needLParen
  | .needLParen, .lparen => some .args
  | .args, .rparen => some .afterRParen
  | .args, .string => some .afterString
  | .args, .ident => some .afterIdent
  | .args, .comma => some .afterComma
  | .args, .lbrace => some .body0
  | .afterRParen, .hash => some .afterHash
  | .afterRParen, .task => some .afterTask
  | .afterRParen, .ident => some .afterIdent
  | .afterRParen, .lbrace => some .body0
  | .afterRParen, .output => some .afterOutput
  | .afterOutput, .string => some .afterString
  | .afterOutput, .lparen => some .args
  | .afterOutput, .ident => some .afterIdent
  | .afterIdent, .lparen => some .args
  | .afterIdent, .declare => some .afterDeclare
  | .afterIdent, .rparen => some .afterRParen
  | .afterIdent, .comma => some .afterComma
  | .afterIdent, .lbrace => some .body0
  | .afterComma, .string => some .afterString
  | .afterComma, .ident => some .afterIdent
  | .afterComma, .rparen => some .afterRParen
  | .afterDeclare, .string => some .top
  | .afterDeclare, .ident => some .afterIdent
  | .afterString, .hash => some .afterHash
  | .afterString, .task => some .afterTask
  | .afterString, .ident => some .afterIdent
  | .afterString, .rparen => some .afterRParen
  | .afterString, .string => some .afterString
  | .afterString, .comma => some .afterComma
  | .afterString, .lbrace => some .body0
  | .body0, .command => some .body1
  | .body0, .rbrace => some .top
  | .body1, .command => some .body1
  | .body1, .rbrace => some .top
  | .closing, .rbrace => some .top
  | .needRParen, .rparen => some .afterRParen
  | .needComma, .comma => some .afterComma
  | .needLBrace, .lbrace => some .body0
  | .needString, .string => some .afterString
  | .needIdent, .ident => some .afterIdent
  | .needIdentS, .ident => some .afterIdent
  | _, _ => none

/-- `v` is a contiguous slice of the input -/
def Sl (inp v : List Rune) : Prop := ∃ pre post, inp = pre ++ v ++ post

/-- empty, or beginning with an ASCII rune -/
def AscHead : List Rune → Prop
  | [] => True
  | r :: _ => r.cp < 128

/-- `v` is a contiguous slice of the input, followed by an ASCII rune or the end of the input -/
def SlA (inp v : List Rune) : Prop := ∃ pre post, inp = pre ++ v ++ post ∧ AscHead post

def StrTokOK (inp v : List Rune) : Prop :=
  ∃ q1 s q2, v = q1 :: s ++ [q2] ∧ q1.cp = QUOTE ∧ q2.cp = QUOTE ∧ strOKB s = true ∧ Sl inp v

/-- the text of a token of type `ty` emitted in mode `m` -/
def tokOK (inp : List Rune) (m : VM) : TT → List Rune → Prop
  | .comment, v => commentOKB v = true ∧ SlA inp v
  | .ident, v => identRunesB v = true ∧ (m ≠ .afterTask → v ≠ []) ∧
      ((m = .top ∨ m = .afterRParen ∨ m = .needIdentS) → kwPrefix v = false) ∧ Sl inp v
  | .string, v => StrTokOK inp v
  | .command, v => (m = .body0 → firstCmdOKB v = true) ∧ (m ≠ .body0 → nextCmdOKB v = true) ∧ SlA inp v
  | _, _ => True

def eofOK : VM → Bool
  | .top | .atEnd | .afterIdent | .afterString | .afterRParen => true
  | _ => false

/-- the last token of a stream: ERROR (never directly after `#` or `task`), or EOF where a statement may end -/
def FinV (m : VM) (t : Tok) : Prop :=
  (t.ty = .error ∧ m ≠ .afterHash ∧ m ≠ .afterTask) ∨ (t.ty = .eof ∧ eofOK m = true)

def StrV (inp : List Rune) : VM → List Tok → Prop
  | _, [] => False
  | m, t :: ts =>
    (ts = [] ∧ FinV m t) ∨ (tokOK inp m t.ty t.val ∧ ∃ m', transV m t.ty = some m' ∧ StrV inp m' ts)

/-- mode inclusion: everything `m1` can emit, `m2` can emit too (with the same successor) -/
def Sub (inp : List Rune) (m1 m2 : VM) : Prop :=
  (∀ t, FinV m1 t → FinV m2 t) ∧
  (∀ ty v m', transV m1 ty = some m' → tokOK inp m1 ty v → transV m2 ty = some m' ∧ tokOK inp m2 ty v)

variable {inp : List Rune}

theorem StrV.sub {m1 m2 : VM} (hs : Sub inp m1 m2) {ts : List Tok} (h : StrV inp m1 ts) : StrV inp m2 ts := by
  cases ts with
  | nil => exact h.elim
  | cons t ts =>
    rcases h with ⟨he, hf⟩ | ⟨hok, m', hm, hr⟩
    · exact Or.inl ⟨he, hs.1 t hf⟩
    · obtain ⟨h1, h2⟩ := hs.2 t.ty t.val m' hm hok
      exact Or.inr ⟨h2, m', h1, hr⟩

/-- decide a concrete mode inclusion by running through the token types -/
macro "sub_tac" : tactic =>
  `(tactic| (refine ⟨fun t h => ?_, fun ty v m' h1 h2 => ?_⟩
             · rcases h with ⟨h1, _, _⟩ | ⟨h1, h2⟩
               · exact Or.inl ⟨h1, by decide, by decide⟩
               · first
                   | exact Or.inr ⟨h1, rfl⟩
                   | exact absurd h2 (by decide)
             · cases ty <;> simp only [transV, reduceCtorEq] at h1 ⊢ <;>
                 first
                   | (cases h1; exact ⟨rfl, by first | exact h2 | (simp only [tokOK] at h2 ⊢; simp_all)⟩)
                   | (cases h1)))

theorem sub_top_afterRParen : Sub inp .top .afterRParen := by sub_tac
theorem sub_top_afterString : Sub inp .top .afterString := by sub_tac
theorem sub_args_afterString : Sub inp .args .afterString := by sub_tac
theorem sub_atEnd_afterIdent : Sub inp .atEnd .afterIdent := by sub_tac
theorem sub_atEnd_top : Sub inp .atEnd .top := by sub_tac
theorem sub_needLParen_afterIdent : Sub inp .needLParen .afterIdent := by sub_tac
theorem sub_needLParen_afterOutput : Sub inp .needLParen .afterOutput := by sub_tac
theorem sub_closing_body0 : Sub inp .closing .body0 := by sub_tac
theorem sub_closing_body1 : Sub inp .closing .body1 := by sub_tac
theorem sub_needRParen_afterIdent : Sub inp .needRParen .afterIdent := by sub_tac
theorem sub_needRParen_args : Sub inp .needRParen .args := by sub_tac
theorem sub_needRParen_afterComma : Sub inp .needRParen .afterComma := by sub_tac
theorem sub_needComma_afterIdent : Sub inp .needComma .afterIdent := by sub_tac
theorem sub_needComma_args : Sub inp .needComma .args := by sub_tac
theorem sub_needLBrace_afterIdent : Sub inp .needLBrace .afterIdent := by sub_tac
theorem sub_needLBrace_args : Sub inp .needLBrace .args := by sub_tac
theorem sub_needLBrace_afterRParen : Sub inp .needLBrace .afterRParen := by sub_tac
theorem sub_needString_afterOutput : Sub inp .needString .afterOutput := by sub_tac
theorem sub_needString_args : Sub inp .needString .args := by sub_tac
theorem sub_needString_afterComma : Sub inp .needString .afterComma := by sub_tac
theorem sub_needIdent_afterOutput : Sub inp .needIdent .afterOutput := by sub_tac
theorem sub_needIdent_args : Sub inp .needIdent .args := by sub_tac
theorem sub_needIdent_afterComma : Sub inp .needIdent .afterComma := by sub_tac
theorem sub_needIdent_afterDeclare : Sub inp .needIdent .afterDeclare := by sub_tac
theorem sub_needIdentS_top : Sub inp .needIdentS .top := by sub_tac

/-! ## reading a stream -/

theorem StrV.nil_false {m : VM} (h : StrV inp m []) : False := h

/-- a token that is neither EOF nor ERROR is not the last one -/
theorem StrV.tail {m : VM} {t : Tok} {ts : List Tok} (h : StrV inp m (t :: ts)) (h1 : t.ty ≠ .eof) (h2 : t.ty ≠ .error) :
    tokOK inp m t.ty t.val ∧ ∃ m', transV m t.ty = some m' ∧ StrV inp m' ts := by
  rcases h with ⟨_, hf⟩ | h
  · rcases hf with ⟨he, _⟩ | ⟨he, _⟩
    · exact absurd he h2
    · exact absurd he h1
  · exact h

/-- directly after `#` / `task` the stream goes on -/
theorem StrV.tail_after {m : VM} {t : Tok} {ts : List Tok} (h : StrV inp m (t :: ts)) (hm : m = .afterHash ∨ m = .afterTask) :
    tokOK inp m t.ty t.val ∧ ∃ m', transV m t.ty = some m' ∧ StrV inp m' ts := by
  rcases h with ⟨_, hf⟩ | h
  · rcases hf with ⟨_, h1, h2⟩ | ⟨_, he⟩
    · rcases hm with rfl | rfl
      · exact absurd rfl h1
      · exact absurd rfl h2
    · rcases hm with rfl | rfl <;> simp [eofOK] at he
  · exact h

end Spok.PW
