import Spok.Find
/-! # Lemmas about the `Find` model (used by `Props/C17.lean`) -/
namespace Spok.Find

/-! ## prefixes -/

theorem isAbove_iff {d o : Dir} : isAbove d o = true ↔ d <+: o ∧ d.length < o.length := by
  simp [isAbove, List.isPrefixOf_iff_prefix]

/-- whatever is above something above `stop` is above `stop` -/
theorem isAbove_of_prefix {d d' stop : Dir} (h : isAbove d stop = true) (hp : d' <+: d) :
    isAbove d' stop = true := by
  rw [isAbove_iff] at *
  exact ⟨hp.trans h.1, Nat.lt_of_le_of_lt hp.length_le h.2⟩

theorem upsRev_prefix (r : List String) : ∀ d ∈ upsRev r, d <+: r.reverse := by
  induction r with
  | nil => simp [upsRev]
  | cons c up ih =>
    intro d hd
    simp only [upsRev, List.mem_cons] at hd
    rcases hd with rfl | hd
    · exact List.prefix_refl _
    · have := ih d hd
      rw [List.reverse_cons]
      exact this.trans (List.prefix_append _ _)

theorem prefix_mem_upsRev (r : List String) : ∀ d, d <+: r.reverse → d ∈ upsRev r := by
  induction r with
  | nil => intro d hd; simp at hd; simp [upsRev, hd]
  | cons c up ih =>
    intro d hd
    rw [List.reverse_cons, List.prefix_concat_iff] at hd
    simp only [upsRev, List.mem_cons]
    rcases hd with hd | hd
    · left; simp [hd]
    · right; exact ih d hd

/-! ## the loop computes the specification -/

theorem findUp_spec (fs : FS) (stop : Dir) (r : List String) :
    findUp fs stop r =
      match (upsRev r).find? (candidate fs stop) with
      | some d => .found d
      | none => .notFound := by
  induction r with
  | nil =>
    simp only [findUp, upsRev, List.find?_cons, List.find?_nil, candidate]
    cases isAbove [] stop <;> cases hasSpokfile (fs []) <;> simp
  | cons c up ih =>
    have rest_above : isAbove up.reverse stop = true →
        (upsRev up).find? (candidate fs stop) = none := by
      intro h
      rw [List.find?_eq_none]
      intro d hd
      simp [candidate, isAbove_of_prefix h (upsRev_prefix up d hd)]
    have hpre : up.reverse <+: up.reverse ++ [c] := List.prefix_append _ _
    have hlen : up.reverse.length < (up.reverse ++ [c]).length := by simp
    simp only [findUp, upsRev, List.find?_cons, List.reverse_cons]
    generalize up.reverse ++ [c] = start at hpre hlen ⊢
    by_cases h1 : isAbove start stop = true
    · simp [candidate, h1, rest_above (isAbove_of_prefix h1 hpre)]
    · by_cases h2 : hasSpokfile (fs start) = true
      · simp [candidate, h1, h2]
      · by_cases h3 : start = stop
        · subst h3
          have hab : isAbove up.reverse start = true := isAbove_iff.2 ⟨hpre, hlen⟩
          simp [candidate, h1, h2, rest_above hab]
        · simp [candidate, h1, h2, h3, ih]

end Spok.Find
