import Spok.Lemmas.LexWfLoops
/-! # The well-formedness invariant of the scanner (C16), part 3: state functions, `stepTag`, `runF`

`WfT input l tag` is the invariant on (state, next state function) pairs: `Wf` plus what the predecessor
has established about how `tag` is entered (`Entry`: "`lexHash` is entered with `#` next", "`lexStart`
is entered with no pending text", …).  Once the scanner has stopped (`.done`) the state itself is no
longer constrained, only the token stream (`DoneOK`): tiles of a prefix followed by one ERROR token, or
tiles of the whole input followed by the EOF token at its end. -/
namespace Spok

/-! ## more projections -/

@[simp] theorem L.peek_tokRev (l : L) : (l.peek).1.tokRev = l.tokRev := by
  unfold L.peek L.next L.backup
  cases h : l.right with
  | nil => simp
  | cons r rs => simp [Rune.w_ne_zero]
@[simp] theorem L.atEOL_tokRev (l : L) : (l.atEOL).1.tokRev = l.tokRev := by simp [L.atEOL]
@[simp] theorem L.next_backup_tokRev (l : L) : ((l.next).1.backup).tokRev = l.tokRev := L.peek_tokRev l

theorem L.hasPrefix_congr {l l' : L} (h : l'.right = l.right) (s : List Nat) : l'.hasPrefix s = l.hasPrefix s := by
  simp [L.hasPrefix, h]
@[simp] theorem L.hasPrefix_peek (l : L) (s : List Nat) : (l.peek).1.hasPrefix s = l.hasPrefix s :=
  L.hasPrefix_congr (by simp) s
@[simp] theorem L.hasPrefix_atEOL (l : L) (s : List Nat) : (l.atEOL).1.hasPrefix s = l.hasPrefix s :=
  L.hasPrefix_congr (by simp) s
@[simp] theorem L.hasPrefix_next_backup (l : L) (s : List Nat) : ((l.next).1.backup).hasPrefix s = l.hasPrefix s :=
  L.hasPrefix_congr (by simp) s

theorem L.atEOF_false_of_hasPrefix {l : L} {c : Nat} {s : List Nat} (h : l.hasPrefix (c :: s) = true) :
    l.atEOF = false := by
  cases hr : l.right with
  | nil => simp [L.hasPrefix, hr] at h
  | cons r rs => simp [L.atEOF, hr]

/-- the rune `next` (or `peek`) returns, if it is not U+FFFD, is the next rune of the input -/
theorem L.hasPrefix_of_next_cp {l : L} {c : Nat} (h : ((l.next).2.cp == c) = true) (hc : c ≠ 0xFFFD) :
    l.hasPrefix [c] = true := by
  cases hr : l.right with
  | nil =>
    rw [L.next_rune_nil hr] at h
    have : 65533 = c := by simpa [eofRune] using h
    exact absurd this.symm hc
  | cons r rs =>
    have : (l.next).2 = r := by simp [L.next, hr]
    rw [this] at h
    simpa [L.hasPrefix, hr] using h

theorem L.hasPrefix_of_peek_cp {l : L} {c : Nat} (h : ((l.peek).2.cp == c) = true) (hc : c ≠ 0xFFFD) :
    l.hasPrefix [c] = true := by
  rw [L.peek_rune] at h; exact L.hasPrefix_of_next_cp h hc

/-- `skipWs` does not move when the next rune is a non-blank one -/
theorem skipWs_right_of_hasPrefix {l : L} {c : Nat} {s : List Nat} (h : l.hasPrefix (c :: s) = true)
    (hc : isSpaceCp c = false) : (skipWs l).right = l.right := by
  rw [skipWs_right]
  cases hr : l.right with
  | nil => rfl
  | cons r rs =>
    have : r.cp = c := by
      have := h; simp [L.hasPrefix, hr] at this; exact this.1
    simp [isSpace, this, hc]

theorem skipWs_right_of_spaces {m : L} {ws : List Rune} {r : Rune} {rs : List Rune} (hm : m.right = ws ++ r :: rs)
    (hws : ∀ x ∈ ws, isSpace x = true) (hr : isSpace r = false) : (skipWs m).right = r :: rs := by
  rw [skipWs_right, hm, dropWhile_append_of_all _ _ _ hws]
  simp [hr]

/-! ## the invariant on (state, tag) pairs -/

/-- how each state function is entered -/
def Entry (l : L) : Tag → Prop
  | .start | .taskBody | .args => l.tokRev = []
  | .declare => l.tokRev = [] ∧ l.hasPrefix [COLON, EQUALS] = true
  | .hash => l.hasPrefix [HASH] = true
  | .taskKeyword => l.hasPrefix [116, 97, 115, 107] = true
  | .leftParen => l.hasPrefix [LPAREN] = true
  | .rightParen => l.hasPrefix [RPAREN] = true
  | .outputOp => l.hasPrefix [MINUS, GT] = true
  | .leftBrace => l.hasPrefix [LBRACE] = true
  | .rightBrace => l.hasPrefix [RBRACE] = true
  | .comma => l.hasPrefix [COMMA] = true
  | _ => True

/-- the token stream of a scan that has stopped -/
def DoneOK (input : List Rune) (toks : List Tok) : Prop :=
  ∃ ts e, toks = ts ++ [e] ∧
    ((e.ty = .error ∧ ∃ b rest, b.reverse ++ rest = input ∧ TilesR b ts) ∨
     (e = ⟨.eof, [], bytesLen input, 1 + nl input, 0⟩ ∧ TilesR input.reverse ts))

def WfT (input : List Rune) (l : L) : Tag → Prop
  | .done => DoneOK input l.toks.toList
  | .spin => True
  | t => Wf input l ∧ Entry l t

theorem wfT_intro {input : List Rune} {l : L} (t : Tag) (hd : t ≠ .done) (hs : t ≠ .spin) (h : Wf input l)
    (he : Entry l t) : WfT input l t := by
  cases t <;> first | exact ⟨h, he⟩ | exact absurd rfl hd | exact absurd rfl hs

theorem WfT.error {input : List Rune} {l : L} (h : TilesOK input l.toks) : WfT input (l.error).1 (l.error).2 := by
  obtain ⟨b, rest, h1, h2⟩ := h
  exact ⟨l.toks.toList, ⟨.error, [], l.start, l.startLine, l.line⟩, by simp [L.error], Or.inl ⟨rfl, b, rest, h1, h2⟩⟩

theorem WfT.eof {input : List Rune} {l : L} (h : Wf input l) (ht : l.tokRev = []) (hr : l.right = []) :
    WfT input (l.emit .eof) .done := by
  obtain ⟨before, e1, e2, e3, e4⟩ := h.tok
  have hl : l.left = input.reverse := by
    have := h.zip; rw [hr] at this; rw [← this]; simp
  have hb : before = input.reverse := by rw [← hl, e1, ht]; rfl
  subst hb
  refine ⟨l.toks.toList, ⟨.eof, l.tokRev.reverse, l.start, l.startLine, 0⟩, by simp [L.emit], Or.inr ⟨?_, e4⟩⟩
  simp [ht, e2, e3]

/-! ## the state functions -/

section
variable {input : List Rune}

theorem wfT_lexStart {l : L} (h : WfT input l .start) : WfT input (lexStart l).1 (lexStart l).2 := by
  obtain ⟨h, ht⟩ := h
  have ht : l.tokRev = [] := ht
  have h1 := h.skipWs (by simp [ht])
  have t1 := skipWs_tokRev l
  unfold lexStart
  simp only []
  split
  · rename_i hp; exact wfT_intro .hash (by decide) (by decide) h1 hp
  · split
    · rename_i hp; exact wfT_intro .taskKeyword (by decide) (by decide) h1 hp
    · split
      · exact wfT_intro .ident (by decide) (by decide) h1.peek.next trivial
      · split
        · rename_i he
          exact WfT.eof h1.peek (by simp [t1]) (by simpa using he)
        · exact WfT.error h1.peek.tilesOK

theorem wfT_lexHash {l : L} (h : WfT input l .hash) : WfT input (lexHash l).1 (lexHash l).2 := by
  obtain ⟨h, hp⟩ := h
  unfold lexHash
  rw [L.atEOF_false_of_hasPrefix hp]
  exact wfT_intro .comment (by decide) (by decide)
    ((h.absorb [HASH] hp (by decide)).emit .hash (by decide) (by decide)) trivial

theorem wfT_lexComment {l : L} (h : WfT input l .comment) : WfT input (lexComment l).1 (lexComment l).2 := by
  obtain ⟨h, -⟩ := h
  exact wfT_intro .start (by decide) (by decide) (h.scanComment.emit .comment (by decide) (by decide)) rfl

theorem wfT_lexTaskKeyword {l : L} (h : WfT input l .taskKeyword) :
    WfT input (lexTaskKeyword l).1 (lexTaskKeyword l).2 := by
  obtain ⟨h, hp⟩ := h
  unfold lexTaskKeyword
  rw [L.atEOF_false_of_hasPrefix hp]
  exact wfT_intro .taskName (by decide) (by decide)
    (((h.absorb [116, 97, 115, 107] hp (by decide)).emit .task (by decide) (by decide)).skipWs (by simp)) trivial

theorem wfT_lexLeftParen {l : L} (h : WfT input l .leftParen) : WfT input (lexLeftParen l).1 (lexLeftParen l).2 := by
  obtain ⟨h, hp⟩ := h
  unfold lexLeftParen
  rw [L.atEOF_false_of_hasPrefix hp]
  exact wfT_intro .args (by decide) (by decide)
    (((h.absorb [LPAREN] hp (by decide)).emit .lparen (by decide) (by decide)).skipWs (by simp)) (skipWs_tokRev _)

theorem wfT_lexLeftBrace {l : L} (h : WfT input l .leftBrace) : WfT input (lexLeftBrace l).1 (lexLeftBrace l).2 := by
  obtain ⟨h, hp⟩ := h
  unfold lexLeftBrace
  rw [L.atEOF_false_of_hasPrefix hp]
  exact wfT_intro .taskBody (by decide) (by decide)
    (((h.absorb [LBRACE] hp (by decide)).emit .lbrace (by decide) (by decide)).skipWs (by simp)) (skipWs_tokRev _)

theorem wfT_lexRightBrace {l : L} (h : WfT input l .rightBrace) : WfT input (lexRightBrace l).1 (lexRightBrace l).2 := by
  obtain ⟨h, hp⟩ := h
  unfold lexRightBrace
  rw [L.atEOF_false_of_hasPrefix hp]
  exact wfT_intro .start (by decide) (by decide)
    ((h.absorb [RBRACE] hp (by decide)).emit .rbrace (by decide) (by decide)) rfl

theorem wfT_lexRightParen {l : L} (h : WfT input l .rightParen) : WfT input (lexRightParen l).1 (lexRightParen l).2 := by
  obtain ⟨h, hp⟩ := h
  unfold lexRightParen
  rw [L.atEOF_false_of_hasPrefix hp]
  have h1 := ((h.absorb [RPAREN] hp (by decide)).emit .rparen (by decide) (by decide)).skipWs (by simp)
  have t1 := skipWs_tokRev ((l.absorb 1).emit .rparen)
  simp only [Bool.false_eq_true, if_false]
  split
  · rename_i hc
    exact wfT_intro .leftBrace (by decide) (by decide) h1.peek (by simpa [Entry] using L.hasPrefix_of_peek_cp hc (by decide))
  · split
    · rename_i hc
      exact wfT_intro .outputOp (by decide) (by decide) h1.peek hc
    · split
      · exact wfT_intro .start (by decide) (by decide) h1.peek.atEOL (by simp [Entry, t1])
      · split
        · rename_i hc
          exact wfT_intro .hash (by decide) (by decide) h1.peek.atEOL
            (by simpa [Entry] using L.hasPrefix_of_peek_cp hc (by decide))
        · exact WfT.error h1.peek.atEOL.tilesOK

theorem wfT_lexOutputOp {l : L} (h : WfT input l .outputOp) : WfT input (lexOutputOp l).1 (lexOutputOp l).2 := by
  obtain ⟨h, hp⟩ := h
  unfold lexOutputOp
  rw [L.atEOF_false_of_hasPrefix hp]
  have h1 := ((h.absorb [MINUS, GT] hp (by decide)).emit .output (by decide) (by decide)).skipWs (by simp)
  simp only [Bool.false_eq_true, if_false]
  split
  · exact wfT_intro .string (by decide) (by decide) h1.next trivial
  · split
    · rename_i hc
      exact wfT_intro .leftParen (by decide) (by decide) h1.next_backup
        (by simpa [Entry] using L.hasPrefix_of_next_cp hc (by decide))
    · split
      · exact wfT_intro .ident (by decide) (by decide) h1.next trivial
      · split
        · exact WfT.error h1.next_backup.tilesOK
        · split
          · exact WfT.error h1.next.tilesOK
          · exact WfT.error h1.next_backup.tilesOK

theorem wfT_lexTaskBody {l : L} (h : WfT input l .taskBody) : WfT input (lexTaskBody l).1 (lexTaskBody l).2 := by
  obtain ⟨h, ht⟩ := h
  have ht : l.tokRev = [] := ht
  have h1 := h.skipWs (by simp [ht])
  unfold lexTaskBody
  split
  · exact WfT.error h.tilesOK
  · simp only []
    split
    · rename_i hc
      exact wfT_intro .rightBrace (by decide) (by decide) h1.next_backup
        (by simpa [Entry] using L.hasPrefix_of_next_cp hc (by decide))
    · split
      · exact wfT_intro .taskCommands (by decide) (by decide) h1.next trivial
      · exact WfT.error h1.next.tilesOK

theorem wfT_lexTaskName {l : L} (h : WfT input l .taskName) : WfT input (lexTaskName l).1 (lexTaskName l).2 := by
  obtain ⟨h, -⟩ := h
  have h1 := (h.scanIdent.emit .ident (by decide) (by decide)).skipWs (by simp)
  unfold lexTaskName
  simp only []
  split
  · exact WfT.error h1.peek.tilesOK
  · rename_i hc
    have hc' : ((skipWs ((scanIdent l).emit .ident)).peek.2.cp == LPAREN) = true := by simpa using hc
    exact wfT_intro .leftParen (by decide) (by decide) h1.peek
      (by simpa [Entry] using L.hasPrefix_of_peek_cp hc' (by decide))

theorem wfT_lexIdent {l : L} (h : WfT input l .ident) : WfT input (lexIdent l).1 (lexIdent l).2 := by
  obtain ⟨h, -⟩ := h
  have h1 := (h.scanIdent.emit .ident (by decide) (by decide)).skipWs (by simp)
  have t1 := skipWs_tokRev ((scanIdent l).emit .ident)
  unfold lexIdent
  simp only []
  split
  · rename_i hc
    exact wfT_intro .leftParen (by decide) (by decide) h1.peek
      (by simpa [Entry] using L.hasPrefix_of_peek_cp hc (by decide))
  · split
    · rename_i hc
      exact wfT_intro .declare (by decide) (by decide) h1.peek ⟨by simp [t1], hc⟩
    · split
      · exact wfT_intro .start (by decide) (by decide) h1.peek.atEOL (by simp [Entry, t1])
      · split
        · rename_i hc
          exact wfT_intro .rightParen (by decide) (by decide) h1.peek.atEOL.peek
            (by simpa [Entry] using L.hasPrefix_of_peek_cp hc (by decide))
        · split
          · rename_i hc
            exact wfT_intro .comma (by decide) (by decide) h1.peek.atEOL.peek
              (by simpa [Entry] using L.hasPrefix_of_peek_cp hc (by decide))
          · split
            · rename_i hc
              exact wfT_intro .leftBrace (by decide) (by decide) h1.peek.atEOL.peek
                (by simpa [Entry] using L.hasPrefix_of_peek_cp hc (by decide))
            · exact WfT.error h1.peek.atEOL.peek.tilesOK

theorem wfT_lexArgs {l : L} (h : WfT input l .args) : WfT input (lexArgs l).1 (lexArgs l).2 := by
  obtain ⟨h, ht⟩ := h
  have ht : l.tokRev = [] := ht
  have h1 := h.skipWs (by simp [ht])
  unfold lexArgs
  simp only []
  split
  · rename_i hc
    exact wfT_intro .rightParen (by decide) (by decide) h1.next_backup
      (by simpa [Entry] using L.hasPrefix_of_next_cp hc (by decide))
  · split
    · exact wfT_intro .string (by decide) (by decide) h1.next trivial
    · split
      · exact wfT_intro .ident (by decide) (by decide) h1.next trivial
      · split
        · rename_i hc
          exact wfT_intro .comma (by decide) (by decide) h1.next_backup
            (by simpa [Entry] using L.hasPrefix_of_next_cp hc (by decide))
        · split
          · rename_i hc
            exact wfT_intro .leftBrace (by decide) (by decide) h1.next_backup
              (by simpa [Entry] using L.hasPrefix_of_next_cp hc (by decide))
          · exact WfT.error h1.next.tilesOK

theorem wfT_lexComma {l : L} (h : WfT input l .comma) : WfT input (lexComma l).1 (lexComma l).2 := by
  obtain ⟨h, hp⟩ := h
  unfold lexComma
  rw [L.atEOF_false_of_hasPrefix hp]
  have h1 := ((h.absorb [COMMA] hp (by decide)).emit .comma (by decide) (by decide)).skipWs (by simp)
  simp only [Bool.false_eq_true, if_false]
  split
  · exact wfT_intro .string (by decide) (by decide) h1.next trivial
  · split
    · exact wfT_intro .ident (by decide) (by decide) h1.next trivial
    · split
      · rename_i hc
        exact wfT_intro .rightParen (by decide) (by decide) h1.next_backup
          (by simpa [Entry] using L.hasPrefix_of_next_cp hc (by decide))
      · exact WfT.error h1.next_backup.tilesOK

theorem wfT_lexDeclare {l : L} (h : WfT input l .declare) : WfT input (lexDeclare l).1 (lexDeclare l).2 := by
  obtain ⟨h, ht, hp⟩ := h
  have h0 := h.skipWs (by simp [ht])
  have hp0 : (skipWs l).hasPrefix [COLON, EQUALS] = true := by
    rw [L.hasPrefix_congr (skipWs_right_of_hasPrefix hp (by decide))]; exact hp
  unfold lexDeclare
  simp only []
  rw [L.atEOF_false_of_hasPrefix hp0]
  have h1 := ((h0.absorb [COLON, EQUALS] hp0 (by decide)).emit .declare (by decide) (by decide)).skipWs (by simp)
  simp only [Bool.false_eq_true, if_false]
  split
  · exact wfT_intro .declString (by decide) (by decide) h1.next trivial
  · split
    · exact wfT_intro .ident (by decide) (by decide) h1.next trivial
    · exact WfT.error h1.next_backup.tilesOK

theorem wfT_lexString {l : L} (h : WfT input l .string) : WfT input (lexString l).1 (lexString l).2 := by
  obtain ⟨h, -⟩ := h
  unfold lexString
  split
  · rename_i l' hs
    apply WfT.error
    rw [scanString_toks l l' (Or.inr hs)]; exact h.tilesOK
  · rename_i l' hs
    have h1 := (h.scanString hs).emit .string (by decide) (by decide)
    simp only []
    split
    · exact wfT_intro .start (by decide) (by decide) h1 rfl
    · split
      · exact wfT_intro .start (by decide) (by decide) h1.atEOL (by simp [Entry])
      · exact wfT_intro .args (by decide) (by decide) h1.atEOL (by simp [Entry])

theorem wfT_lexDeclString {l : L} (h : WfT input l .declString) :
    WfT input (lexDeclString l).1 (lexDeclString l).2 := by
  obtain ⟨h, -⟩ := h
  unfold lexDeclString
  split
  · rename_i l' hs
    apply WfT.error
    rw [scanString_toks l l' (Or.inr hs)]; exact h.tilesOK
  · rename_i l' hs
    have h1 := (h.scanString hs).emit .string (by decide) (by decide)
    simp only []
    generalize hm : (if (l'.emit .string).atEOF then l'.emit .string else ((l'.emit .string).atEOL).1) = m
    have hmw : Wf input m := by subst hm; split; exact h1; exact h1.atEOL
    have hmt : m.tokRev = [] := by subst hm; split <;> simp
    have h2 := hmw.skipBlanks (by simp [hmt])
    have h3 := h2.1.discard h2.2
    split
    · exact wfT_intro .start (by decide) (by decide) h3 rfl
    · split
      · exact wfT_intro .start (by decide) (by decide) h3.atEOL (by simp [Entry])
      · exact WfT.error h3.atEOL.tilesOK

theorem wfT_lexTaskCommandsF : ∀ (fuel : Nat) (l : L), Wf input l →
    WfT input (lexTaskCommandsF fuel l).1 (lexTaskCommandsF fuel l).2 := by
  intro fuel
  induction fuel with
  | zero => intro l _; exact trivial
  | succ fuel ih =>
    intro l h
    unfold lexTaskCommandsF
    rw [show l.next = ((l.next).1, (l.next).2) from rfl]
    simp only []
    split
    · -- newline: the command ends
      exact ih _ ((h.next_backup.stripCR.emit .command (by decide) (by decide)).skipWs (by simp))
    · split
      · rename_i hp
        exact ih _ (h.next.absorb [LBRACE, LBRACE] hp (by decide))
      · split
        · rename_i hp
          exact ih _ (h.next.absorb [RBRACE, RBRACE] hp (by decide))
        · split
          · -- closing brace
            rename_i hrb
            have hpre := L.hasPrefix_of_next_cp hrb (by decide)
            obtain ⟨r, rs, hr, hcp⟩ : ∃ r rs, l.right = r :: rs ∧ r.cp = RBRACE := by
              cases hr : l.right with
              | nil => simp [L.hasPrefix, hr] at hpre
              | cons r rs => exact ⟨r, rs, rfl, by simpa [L.hasPrefix, hr] using hpre⟩
            have hnb : ((l.next).1.backup).right = r :: rs := by rw [L.next_backup_right, hr]
            generalize hm2 : (l.next).1.backup = m2 at hnb
            have w2 : Wf input m2 := by subst hm2; exact h.next_backup
            -- optional step back over one blank
            generalize hm3 : (if m2.lastIs SP then m2.stepBack else m2) = m3
            have w3 : Wf input m3 := by
              subst hm3; split
              · rename_i hsp; exact w2.stepBack SP hsp (by omega) (by omega)
              · exact w2
            have r3 : ∃ ws : List Rune, (∀ x ∈ ws, isSpace x = true) ∧ m3.right = ws ++ r :: rs := by
              subst hm3; split
              · rename_i hsp
                obtain ⟨x, hx, hxr⟩ := L.stepBack_right_of_lastIs hsp
                exact ⟨[x], by intro y hy; simp at hy; subst hy; exact isSpace_of_cp hx isSpaceCp_SP, by rw [hxr, hnb]; simp⟩
              · exact ⟨[], by simp, by rw [hnb]; simp⟩
            obtain ⟨ws, hws, hw⟩ := r3
            obtain ⟨crs, hcrs, heq⟩ := stripCR_right m3
            have w4 : Wf input (stripCR m3) := w3.stripCR
            generalize stripCR m3 = m4 at heq w4
            generalize hm5 : (if (!m4.tokRev.isEmpty) = true then m4.emit .command else m4) = m5
            have w5 : Wf input m5 := by
              subst hm5; split
              · exact w4.emit .command (by decide) (by decide)
              · exact w4
            have t5 : m5.tokRev = [] := by
              subst hm5; split
              · rfl
              · rename_i hne; simpa using hne
            have r5 : m5.right = (crs ++ ws) ++ r :: rs := by
              subst hm5; split <;> simp [heq, hw]
            have hsp : ∀ x ∈ crs ++ ws, isSpace x = true := by
              intro x hx
              simp only [List.mem_append] at hx
              rcases hx with hx | hx
              · exact isSpace_of_cp (hcrs x hx) isSpaceCp_CR
              · exact hws x hx
            have hrn : isSpace r = false := by simp [isSpace, hcp, isSpaceCp_RBRACE]
            refine wfT_intro .rightBrace (by decide) (by decide) (w5.skipWs (by simp [t5])) ?_
            show (skipWs m5).hasPrefix [RBRACE] = true
            simp [L.hasPrefix, skipWs_right_of_spaces r5 hsp hrn, hcp]
          · split
            · exact WfT.error h.next.tilesOK
            · split
              · exact ih _ h.next
              · exact WfT.error h.next_backup.tilesOK

theorem wfT_lexTaskCommands {l : L} (h : WfT input l .taskCommands) :
    WfT input (lexTaskCommands l).1 (lexTaskCommands l).2 :=
  wfT_lexTaskCommandsF _ l h.1

/-- one step of the state machine keeps the invariant -/
theorem wfT_stepTag {l : L} {t : Tag} (h : WfT input l t) : WfT input (stepTag l t).1 (stepTag l t).2 := by
  cases t <;> simp only [stepTag]
  · exact wfT_lexStart h
  · exact wfT_lexHash h
  · exact wfT_lexComment h
  · exact wfT_lexTaskKeyword h
  · exact wfT_lexLeftParen h
  · exact wfT_lexRightParen h
  · exact wfT_lexOutputOp h
  · exact wfT_lexLeftBrace h
  · exact wfT_lexRightBrace h
  · exact wfT_lexTaskBody h
  · exact wfT_lexTaskCommands h
  · exact wfT_lexTaskName h
  · exact wfT_lexIdent h
  · exact wfT_lexArgs h
  · exact wfT_lexComma h
  · exact wfT_lexDeclare h
  · exact wfT_lexString h
  · exact wfT_lexDeclString h
  · exact h
  · exact h

theorem wfT_runF : ∀ (fuel : Nat) (l : L) (t : Tag), WfT input l t →
    WfT input (runF fuel l t).1 (runF fuel l t).2 := by
  intro fuel
  induction fuel with
  | zero =>
    intro l t h
    unfold runF
    by_cases hf : t.final = true
    · simpa [hf] using h
    · simp only [hf]; exact trivial
  | succ fuel ih =>
    intro l t h
    unfold runF
    by_cases hf : t.final = true
    · simpa [hf] using h
    · simp only [hf]
      exact ih _ _ (wfT_stepTag h)

/-- **the token stream of a complete scan**: tiles of a prefix and then an ERROR token, or tiles of the
    whole input and then the EOF token at its end -/
theorem lexRunes_doneOK {rs : List Rune} (h : RunesOK rs) : DoneOK rs (lexRunes rs).toks := by
  have hd := runF_done (3 * rs.length + 4) (L.init rs) .start (by simp) (by simp [L.init, rank])
  have hw := wfT_runF (input := rs) (3 * rs.length + 4) (L.init rs) .start
    (wfT_intro .start (by decide) (by decide) (Wf.init h) rfl)
  rw [hd] at hw
  exact hw

end

end Spok
