import Spok.Graph
/-! # Generic lemmas for the graph engine (C03): oracle-driven iteration order, emission sequences, cycles

Nothing here mentions spok: `reorder` always yields a permutation; an *emission sequence* over a finite graph (each
element is new and all its parents were emitted before) is duplicate-free and topologically ordered, no element of it
lies on a cycle, and one that cannot be extended either covers the graph or the graph has a cycle.  The last fact is
the pigeonhole argument of DESIGN §7.2; it is proved here without counting, by contracting one vertex at a time
(`cycle_of_no_source`). -/
namespace Spok.Graph

variable {α : Type} [DecidableEq α]

/-! ## `reorder` -/

theorem reorder_perm (h l : List α) : (reorder h l).Perm l := by
  induction h generalizing l with
  | nil => exact .refl _
  | cons x h ih =>
    simp only [reorder]
    split
    · next hx => exact ((ih _).cons x).trans (List.perm_cons_erase hx).symm
    · exact ih l

/-- every iteration order is dictated by some hint (the order itself) -/
theorem reorder_self {p l : List α} (hp : p.Perm l) : reorder p l = p := by
  induction p generalizing l with
  | nil => simpa [reorder] using hp.symm.eq_nil
  | cons x p ih =>
    have h := List.cons_perm_iff_perm_erase.mp hp
    simp only [reorder, h.1, if_true]
    rw [ih h.2]

theorem mem_reorder {h l : List α} {x : α} : x ∈ reorder h l ↔ x ∈ l := (reorder_perm h l).mem_iff

theorem nodup_reorder {h l : List α} (hl : l.Nodup) : (reorder h l).Nodup := (reorder_perm h l).symm.nodup hl

/-! ## cycles -/

omit [DecidableEq α] in
/-- In a non-empty finite set in which every element has a predecessor inside the set there is a cycle.
    (Remove one vertex `v`, short-cutting paths through it; a cycle of the smaller graph expands to one of the original.) -/
theorem cycle_of_no_source : ∀ (S : List α) (R : α → α → Prop), S ≠ [] → (∀ v ∈ S, ∃ p ∈ S, R p v) →
    ∃ v ∈ S, Relation.TransGen R v v := by
  intro S
  induction S with
  | nil => intro R h; exact absurd rfl h
  | cons v S ih =>
    intro R _ hsrc
    by_cases hvv : R v v
    · exact ⟨v, List.mem_cons_self, .single hvv⟩
    by_cases hS : S = []
    · obtain ⟨p, hp, hpv⟩ := hsrc v List.mem_cons_self
      subst hS
      have : p = v := by simpa using hp
      exact absurd (this ▸ hpv) hvv
    -- contract v
    let R' : α → α → Prop := fun p c => R p c ∨ (R p v ∧ R v c)
    have lift : ∀ {a b}, Relation.TransGen R' a b → Relation.TransGen R a b := by
      intro a b h
      induction h with
      | single h =>
        rcases h with h | ⟨h1, h2⟩
        · exact .single h
        · exact .tail (.single h1) h2
      | tail _ h ih =>
        rcases h with h | ⟨h1, h2⟩
        · exact .tail ih h
        · exact .tail (.tail ih h1) h2
    have hsrc' : ∀ c ∈ S, ∃ p ∈ S, R' p c := by
      intro c hc
      obtain ⟨p, hp, hpc⟩ := hsrc c (List.mem_cons_of_mem _ hc)
      rcases List.mem_cons.mp hp with rfl | hpS
      · obtain ⟨p', hp', hp'v⟩ := hsrc p List.mem_cons_self
        rcases List.mem_cons.mp hp' with rfl | hp'S
        · exact absurd hp'v hvv
        · exact ⟨p', hp'S, Or.inr ⟨hp'v, hpc⟩⟩
      · exact ⟨p, hpS, Or.inl hpc⟩
    obtain ⟨w, hw, hcyc⟩ := ih R' hS hsrc'
    exact ⟨w, List.mem_cons_of_mem _ hw, lift hcyc⟩

/-! ## emission sequences -/

/-- `v` may be emitted after `acc`: it is a vertex, it is new, and all its parents have been emitted -/
def Emit (V : List α) (E : List (α × α)) (acc : List α) (v : α) : Prop :=
  v ∈ V ∧ v ∉ acc ∧ ∀ p, (p, v) ∈ E → p ∈ acc

inductive EmitSeq (V : List α) (E : List (α × α)) : List α → Prop
  | nil : EmitSeq V E []
  | snoc {acc : List α} {v : α} : EmitSeq V E acc → Emit V E acc v → EmitSeq V E (acc ++ [v])

/-- nothing more can be emitted: every vertex not yet emitted still waits for a parent that is not emitted -/
def Stuck (V : List α) (E : List (α × α)) (acc : List α) : Prop :=
  ∀ v ∈ V, v ∉ acc → ∃ p, (p, v) ∈ E ∧ p ∉ acc

omit [DecidableEq α] in
theorem EmitSeq.nodup {V : List α} {E : List (α × α)} {acc : List α} (h : EmitSeq V E acc) : acc.Nodup := by
  induction h with
  | nil => exact List.nodup_nil
  | @snoc acc w _ he ih =>
    rw [List.nodup_append]
    refine ⟨ih, by simp, ?_⟩
    intro a ha b hb
    have : b = w := by simpa using hb
    subst this
    intro hab; subst hab
    exact he.2.1 ha

omit [DecidableEq α] in
theorem EmitSeq.subset {V : List α} {E : List (α × α)} {acc : List α} (h : EmitSeq V E acc) : ∀ v ∈ acc, v ∈ V := by
  induction h with
  | nil => intro v hv; cases hv
  | @snoc acc w _ he ih =>
    intro v hv
    rcases List.mem_append.mp hv with hv | hv
    · exact ih v hv
    · have : v = w := by simpa using hv
      subst this; exact he.1

/-- every parent of an emitted vertex was emitted strictly earlier -/
theorem EmitSeq.parents_before {V : List α} {E : List (α × α)} {acc : List α} (h : EmitSeq V E acc) :
    ∀ p v, (p, v) ∈ E → v ∈ acc → acc.idxOf p < acc.idxOf v := by
  induction h with
  | nil => intro p v _ hv; cases hv
  | @snoc acc w _ he ih =>
    intro p v hpv hv
    rw [List.idxOf_append, List.idxOf_append]
    by_cases hva : v ∈ acc
    · have h1 := ih p v hpv hva
      have hpa : p ∈ acc := List.idxOf_lt_length_iff.mp (Nat.lt_trans h1 (List.idxOf_lt_length_iff.mpr hva))
      simp only [hva, hpa, if_true]
      exact h1
    · have hvw : v = w := by
        rcases List.mem_append.mp hv with h' | h'
        · exact absurd h' hva
        · simpa using h'
      subst hvw
      have hpa : p ∈ acc := he.2.2 p hpv
      simp only [hva, hpa, if_true, if_false]
      have := List.idxOf_lt_length_iff.mpr hpa
      omega

theorem EmitSeq.parents_mem {V : List α} {E : List (α × α)} {acc : List α} (h : EmitSeq V E acc)
    {p v : α} (hpv : (p, v) ∈ E) (hv : v ∈ acc) : p ∈ acc :=
  List.idxOf_lt_length_iff.mp (Nat.lt_trans (h.parents_before p v hpv hv) (List.idxOf_lt_length_iff.mpr hv))

/-- along any path of edges that ends in an emitted vertex the positions strictly increase -/
theorem EmitSeq.path_before {V : List α} {E : List (α × α)} {acc : List α} (h : EmitSeq V E acc) {a b : α}
    (hab : Relation.TransGen (fun p c => (p, c) ∈ E) a b) : b ∈ acc → acc.idxOf a < acc.idxOf b := by
  induction hab with
  | single hr => exact fun hb => h.parents_before _ _ hr hb
  | tail _ hr ih =>
    intro hc
    have h1 := h.parents_before _ _ hr hc
    exact Nat.lt_trans (ih (h.parents_mem hr hc)) h1

/-- no emitted vertex lies on a cycle -/
theorem EmitSeq.not_on_cycle {V : List α} {E : List (α × α)} {acc : List α} (h : EmitSeq V E acc) {v : α}
    (hv : v ∈ acc) : ¬ Relation.TransGen (fun p c => (p, c) ∈ E) v v :=
  fun hc => Nat.lt_irrefl _ (h.path_before hc hv)

/-- a maximal emission sequence covers the graph unless the graph has a cycle -/
theorem EmitSeq.covers_or_cycle {V : List α} {E : List (α × α)} {acc : List α}
    (hE : ∀ p c, (p, c) ∈ E → p ∈ V) (hstuck : Stuck V E acc) :
    (∀ v ∈ V, v ∈ acc) ∨ ∃ v ∈ V, v ∉ acc ∧ Relation.TransGen (fun p c => (p, c) ∈ E) v v := by
  by_cases hS : V.filter (fun v => v ∉ acc) = []
  · left
    intro v hv
    by_cases hva : v ∈ acc
    · exact hva
    · have : v ∈ V.filter (fun v => v ∉ acc) := by simp [hv, hva]
      rw [hS] at this; cases this
  · right
    have := cycle_of_no_source (V.filter (fun v => v ∉ acc)) (fun p c => (p, c) ∈ E) hS (by
      intro v hv
      have hv' : v ∈ V ∧ v ∉ acc := by simpa using hv
      obtain ⟨p, hpv, hpa⟩ := hstuck v hv'.1 hv'.2
      exact ⟨p, by simp [hE p v hpv, hpa], hpv⟩)
    obtain ⟨v, hv, hc⟩ := this
    have hv' : v ∈ V ∧ v ∉ acc := by simpa using hv
    exact ⟨v, hv'.1, hv'.2, hc⟩

omit [DecidableEq α] in
/-- a duplicate-free list inside `V` that is as long as `V` contains all of `V` -/
theorem covers_of_length {V acc : List α} (hn : acc.Nodup) (hs : ∀ v ∈ acc, v ∈ V) (hl : V.length ≤ acc.length) :
    ∀ v ∈ V, v ∈ acc := by
  intro v hv
  apply Classical.byContradiction
  intro hva
  have h1 : (v :: acc).Nodup := List.nodup_cons.mpr ⟨hva, hn⟩
  have h2 : (v :: acc) ⊆ V := by
    intro x hx
    rcases List.mem_cons.mp hx with rfl | hx
    · exact hv
    · exact hs x hx
  have := h1.length_le_of_subset h2
  simp at this
  omega

end Spok.Graph
