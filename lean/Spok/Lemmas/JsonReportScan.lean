import Spok.Lemmas.JsonReport
import Spok.Lemmas.JsonEnc
/-! # The scanner over the `--json` report: one value, complete only at its last byte -/
namespace Spok.Json
open Spok

/-- a state in which a value may begin -/
def VStart (stp : Step) : Prop := stp = .beginValue ∨ stp = .beginValueOrEmpty

theorem Seg.uncons {s s' : Sc} {c : UInt8} {rest : Bytes} (h : Seg s (c :: rest) s') : Seg (feed s c) rest s' := by
  refine ⟨by rw [← scan_cons]; exact h.1, ?_⟩
  intro q hq hne
  have := h.2 (c :: q) (List.cons_prefix_cons.mpr ⟨rfl, hq⟩) (by intro he; exact hne (List.cons.inj he).2)
  rwa [scan_cons] at this

/-- in `beginValueOrEmpty` a byte that is neither a blank nor `]` is treated as in `beginValue` -/
theorem feed_orEmpty (stk : List PS) (c : UInt8) (h1 : isSpace c.toNat = false) (h2 : c.toNat ≠ 93) :
    feed (St .beginValueOrEmpty stk) c = feed (St .beginValue stk) c := by
  rw [feed_St, feed_St]
  conv => lhs; unfold stepFn
  conv => rhs; unfold stepFn
  simp [h1, h2, beginValue, Sc.push, Sc.fail]

theorem seg_of_beginValue {stk : List PS} (hs : stk ≠ []) {stp : Step} (hv : VStart stp) {c : UInt8} {r : Bytes} {s' : Sc}
    (h1 : isSpace c.toNat = false) (h2 : c.toNat ≠ 93) (h : Seg (St .beginValue stk) (c :: r) s') :
    Seg (St stp stk) (c :: r) s' := by
  rcases hv with rfl | rfl
  · exact h
  · refine Seg.cons (NA_St hs) ?_
    rw [feed_orEmpty stk c h1 h2]
    exact h.uncons

/-! ## strings, literals, numbers in value position -/

theorem seg_str_value {stk : List PS} (hs : stk ≠ []) {stp : Step} (hv : VStart stp) (s : Bytes) :
    Seg (St stp stk) (encStr s) (St .endValue stk) := by
  have := seg_encStr (stp := .beginValue) (Or.inl rfl) hs s
  unfold encStr at this ⊢
  exact seg_of_beginValue hs hv (by decide) (by decide) this

theorem seg_null {stk : List PS} (hs : stk ≠ []) : Seg (St .beginValue stk) kNull (St .endValue stk) := by
  show Seg _ [110, 117, 108, 108] _
  refine Seg.cons (NA_St hs) ?_
  rw [show feed (St .beginValue stk) 110 = St .n stk by rw [feed_St]; unfold stepFn; simp [beginValue, isSpace]]
  refine Seg.cons (NA_St hs) ?_
  rw [show feed (St .n stk) 117 = St .nu stk by rw [feed_St]; unfold stepFn; simp [lit]]
  refine Seg.cons (NA_St hs) ?_
  rw [show feed (St .nu stk) 108 = St .nul stk by rw [feed_St]; unfold stepFn; simp [lit]]
  refine Seg.cons (NA_St hs) ?_
  rw [show feed (St .nul stk) 108 = St .endValue stk by rw [feed_St]; unfold stepFn; simp [lit]]
  exact Seg.nil _

theorem seg_true {stk : List PS} (hs : stk ≠ []) : Seg (St .beginValue stk) kTrue (St .endValue stk) := by
  show Seg _ [116, 114, 117, 101] _
  refine Seg.cons (NA_St hs) ?_
  rw [show feed (St .beginValue stk) 116 = St .t stk by rw [feed_St]; unfold stepFn; simp [beginValue, isSpace]]
  refine Seg.cons (NA_St hs) ?_
  rw [show feed (St .t stk) 114 = St .tr stk by rw [feed_St]; unfold stepFn; simp [lit]]
  refine Seg.cons (NA_St hs) ?_
  rw [show feed (St .tr stk) 117 = St .tru stk by rw [feed_St]; unfold stepFn; simp [lit]]
  refine Seg.cons (NA_St hs) ?_
  rw [show feed (St .tru stk) 101 = St .endValue stk by rw [feed_St]; unfold stepFn; simp [lit]]
  exact Seg.nil _

theorem seg_false {stk : List PS} (hs : stk ≠ []) : Seg (St .beginValue stk) kFalse (St .endValue stk) := by
  show Seg _ [102, 97, 108, 115, 101] _
  refine Seg.cons (NA_St hs) ?_
  rw [show feed (St .beginValue stk) 102 = St .f stk by rw [feed_St]; unfold stepFn; simp [beginValue, isSpace]]
  refine Seg.cons (NA_St hs) ?_
  rw [show feed (St .f stk) 97 = St .fa stk by rw [feed_St]; unfold stepFn; simp [lit]]
  refine Seg.cons (NA_St hs) ?_
  rw [show feed (St .fa stk) 108 = St .fal stk by rw [feed_St]; unfold stepFn; simp [lit]]
  refine Seg.cons (NA_St hs) ?_
  rw [show feed (St .fal stk) 115 = St .fals stk by rw [feed_St]; unfold stepFn; simp [lit]]
  refine Seg.cons (NA_St hs) ?_
  rw [show feed (St .fals stk) 101 = St .endValue stk by rw [feed_St]; unfold stepFn; simp [lit]]
  exact Seg.nil _

theorem seg_bool {stk : List PS} (hs : stk ≠ []) (b : Bool) : Seg (St .beginValue stk) (encBool b) (St .endValue stk) := by
  cases b
  · exact seg_false hs
  · exact seg_true hs

/-- digits keep the scanner in `s1` -/
theorem seg_s1_digits {stk : List PS} (hs : stk ≠ []) : ∀ (ds : Bytes), AllDigits ds → Seg (St .s1 stk) ds (St .s1 stk)
  | [], _ => Seg.nil _
  | d :: ds, h => by
    have hd : isDigit d.toNat = true := h d (by simp)
    refine Seg.cons (NA_St hs) ?_
    rw [show feed (St .s1 stk) d = St .s1 stk by rw [feed_St]; unfold stepFn; simp [hd]]
    exact seg_s1_digits hs ds (fun x hx => h x (by simp [hx]))

/-- the decimal form: `0`, or a digit 1–9 followed by digits -/
theorem natDigits_shape (n : Nat) :
    natDigits n = [48] ∨ ∃ d ds, natDigits n = d :: ds ∧ 49 ≤ d.toNat ∧ d.toNat ≤ 57 ∧ AllDigits ds := by
  induction n using Nat.strongRecOn with
  | _ n ih =>
    rw [natDigits]
    by_cases h : n < 10
    · simp only [h, dif_pos]
      by_cases h0 : n = 0
      · left; subst h0; rfl
      · right
        refine ⟨_, [], rfl, ?_, ?_, by intro d hd; simp at hd⟩
        · have : (UInt8.ofNat (48 + n)).toNat = 48 + n := by simp only [UInt8.toNat_ofNat']; omega
          omega
        · have : (UInt8.ofNat (48 + n)).toNat = 48 + n := by simp only [UInt8.toNat_ofNat']; omega
          omega
    · simp only [h, dif_neg, not_false_eq_true]
      right
      have hlast := (digit_ofNat (n % 10) (by omega)).1
      rcases ih (n / 10) (by omega) with h0 | ⟨d, ds, hd, h1, h2, h3⟩
      · -- n / 10 = 0 is impossible for n ≥ 10: natDigits (n/10) = [48] means n/10 = 0
        exfalso
        have hv := ((natDigits_spec (n / 10)).2 0).1
        rw [h0] at hv
        simp [digitVal] at hv
        omega
      · refine ⟨d, ds ++ [UInt8.ofNat (48 + n % 10)], by rw [hd]; rfl, h1, h2, ?_⟩
        intro x hx
        rcases List.mem_append.mp hx with hx | hx
        · exact h3 x hx
        · rw [List.mem_singleton] at hx; rw [hx]; exact hlast

/-- the last member of an object: a number, then the closing brace (which the number state itself consumes) -/
theorem seg_number_close {rest : List PS} (hr : rest ≠ []) (n : Nat) :
    Seg (St .beginValue (.objVal :: rest)) (natDigits n ++ [125]) (St .endValue rest) := by
  have hpop : ∀ stp, endValue (St stp (.objVal :: rest)) 125 = St .endValue rest := by
    intro stp
    cases rest with
    | nil => exact absurd rfl hr
    | cons p rest' => simp [endValue, isSpace, Sc.pop]
  rcases natDigits_shape n with h0 | ⟨d, ds, hd, h1, h2, h3⟩
  · rw [h0]
    refine Seg.cons (NA_St (by simp)) ?_
    rw [show feed (St .beginValue (.objVal :: rest)) 48 = St .s0 (.objVal :: rest) by
      rw [feed_St]; unfold stepFn; simp [beginValue, isSpace]]
    refine Seg.cons (NA_St (by simp)) ?_
    rw [show feed (St .s0 (.objVal :: rest)) 125 = St .endValue rest by
      rw [feed_St]; unfold stepFn; simp only [state0]; simpa using hpop .s0]
    exact Seg.nil _
  · rw [hd]
    refine Seg.cons (NA_St (by simp)) ?_
    rw [show feed (St .beginValue (.objVal :: rest)) d = St .s1 (.objVal :: rest) by
      rw [feed_St]; unfold stepFn
      have e1 : isSpace d.toNat = false := by simp [isSpace]; omega
      have n1 : ¬ d.toNat = 123 := by omega
      have n2 : ¬ d.toNat = 91 := by omega
      have n3 : ¬ d.toNat = 34 := by omega
      have n4 : ¬ d.toNat = 45 := by omega
      have n5 : ¬ d.toNat = 48 := by omega
      have n6 : ¬ d.toNat = 116 := by omega
      have n7 : ¬ d.toNat = 102 := by omega
      have n8 : ¬ d.toNat = 110 := by omega
      simp [beginValue, e1, n1, n2, n3, n4, n5, n6, n7, n8, h1, h2]]
    refine Seg.append (seg_s1_digits (by simp) ds h3) ?_
    refine Seg.cons (NA_St (by simp)) ?_
    rw [show feed (St .s1 (.objVal :: rest)) 125 = St .endValue rest by
      rw [feed_St]; unfold stepFn; simp only [isDigit, state0]; simpa using hpop .s1]
    exact Seg.nil _

/-! ## object and array punctuation -/

def depthOk (stk : List PS) : Prop := stk.length + 2 ≤ maxNestingDepth

theorem feed_open_obj {stk : List PS} (hd : depthOk stk) : feed (St .beginValue stk) 123 = St .beginStringOrEmpty (.objKey :: stk) := by
  rw [feed_St]; unfold stepFn
  unfold depthOk at hd
  simp [beginValue, isSpace, Sc.push]; omega

theorem feed_open_arr {stk : List PS} (hd : depthOk stk) : feed (St .beginValue stk) 91 = St .beginValueOrEmpty (.arrVal :: stk) := by
  rw [feed_St]; unfold stepFn
  unfold depthOk at hd
  simp [beginValue, isSpace, Sc.push]; omega

theorem feed_arr_comma (rest : List PS) : feed (St .endValue (.arrVal :: rest)) 44 = St .beginValue (.arrVal :: rest) := by
  rw [feed_St]; unfold stepFn; simp [endValue, isSpace]

theorem feed_arr_close {rest : List PS} (hr : rest ≠ []) : feed (St .endValue (.arrVal :: rest)) 93 = St .endValue rest := by
  rw [feed_St]; unfold stepFn
  cases rest with
  | nil => exact absurd rfl hr
  | cons p r => simp [endValue, isSpace, Sc.pop]

theorem feed_obj_close {rest : List PS} (hr : rest ≠ []) : feed (St .endValue (.objVal :: rest)) 125 = St .endValue rest := by
  rw [feed_St]; unfold stepFn
  cases rest with
  | nil => exact absurd rfl hr
  | cons p r => simp [endValue, isSpace, Sc.pop]

/-- `{"key":` -/
theorem seg_first_key {stk : List PS} (hs : stk ≠ []) (hd : depthOk stk) (k : Bytes) :
    Seg (St .beginValue stk) (123 :: (encStr k ++ [58])) (St .beginValue (.objVal :: stk)) := by
  refine Seg.cons (NA_St hs) ?_
  rw [feed_open_obj hd]
  refine Seg.append (seg_encStr (Or.inr (Or.inr rfl)) (by simp) k) ?_
  exact Seg.cons (NA_St (by simp)) (by rw [feed_colon]; exact Seg.nil _)

/-- `,"key":` -/
theorem seg_next_key (rest : List PS) (k : Bytes) :
    Seg (St .endValue (.objVal :: rest)) (44 :: (encStr k ++ [58])) (St .beginValue (.objVal :: rest)) := by
  refine Seg.cons (NA_St (by simp)) ?_
  rw [feed_comma]
  refine Seg.append (seg_encStr (Or.inr (Or.inl rfl)) (by simp) k) ?_
  exact Seg.cons (NA_St (by simp)) (by rw [feed_colon]; exact Seg.nil _)

/-- a non-empty array of values each of which is a segment from `beginValue`, and starts with a byte that is neither a
    blank nor `]` -/
theorem seg_items {stk : List PS} (items : List Bytes)
    (hitem : ∀ it ∈ items, Seg (St .beginValue (.arrVal :: stk)) it (St .endValue (.arrVal :: stk))) :
    items ≠ [] → Seg (St .beginValue (.arrVal :: stk)) (joinComma items) (St .endValue (.arrVal :: stk)) := by
  induction items with
  | nil => intro h; exact absurd rfl h
  | cons x l ih =>
    intro _
    cases l with
    | nil => simpa [joinComma] using hitem x (by simp)
    | cons y l =>
      simp only [joinComma]
      refine Seg.append (hitem x (by simp)) ?_
      refine Seg.cons (NA_St (by simp)) ?_
      rw [feed_arr_comma]
      exact ih (fun it hit => hitem it (by simp [hit])) (by simp)

theorem seg_arr {stk : List PS} (hs : stk ≠ []) (hd : depthOk stk) (items : List Bytes) (hne : items ≠ [])
    (hitem : ∀ it ∈ items, Seg (St .beginValue (.arrVal :: stk)) it (St .endValue (.arrVal :: stk)))
    (hstart : ∀ it ∈ items, ∃ c r, it = c :: r ∧ isSpace c.toNat = false ∧ c.toNat ≠ 93) :
    Seg (St .beginValue stk) (encArr items) (St .endValue stk) := by
  unfold encArr
  refine Seg.cons (NA_St hs) ?_
  rw [feed_open_arr hd]
  have hj := seg_items items hitem hne
  -- the first byte of the first item decides between `[]` and a value
  obtain ⟨x, l, rfl⟩ : ∃ x l, items = x :: l := by
    cases items with
    | nil => exact absurd rfl hne
    | cons x l => exact ⟨x, l, rfl⟩
  obtain ⟨c, r, hx, h1, h2⟩ := hstart x (by simp)
  have hjc : ∃ r', joinComma (x :: l) = c :: r' := by
    cases l with
    | nil => exact ⟨r, by simp [joinComma, hx]⟩
    | cons y l => exact ⟨r ++ 44 :: joinComma (y :: l), by simp [joinComma, hx]⟩
  obtain ⟨r', hr'⟩ := hjc
  rw [hr'] at hj ⊢
  refine Seg.append (seg_of_beginValue (by simp) (Or.inr rfl) h1 h2 hj) ?_
  exact Seg.cons (NA_St (by simp)) (by rw [feed_arr_close hs]; exact Seg.nil _)

end Spok.Json

namespace Spok.Json
open Spok

/-! ## the report's own objects -/

theorem kCmd_eq : kCmd = 123 :: (encStr (ascii "cmd") ++ [58]) := by decide +kernel
theorem kStdout_eq : kStdout = 44 :: (encStr (ascii "stdout") ++ [58]) := by decide +kernel
theorem kStderr_eq : kStderr = 44 :: (encStr (ascii "stderr") ++ [58]) := by decide +kernel
theorem kStatus_eq : kStatus = 44 :: (encStr (ascii "status") ++ [58]) := by decide +kernel
theorem kTask_eq : kTask = 123 :: (encStr (ascii "task") ++ [58]) := by decide +kernel
theorem kResults_eq : kResults = 44 :: (encStr (ascii "results") ++ [58]) := by decide +kernel
theorem kSkipped_eq : kSkipped = 44 :: (encStr (ascii "skipped") ++ [58]) := by decide +kernel

theorem seg_cmd {stk : List PS} (hs : stk ≠ []) (hd : depthOk stk) (c : BCmd) :
    Seg (St .beginValue stk) (encCmd c) (St .endValue stk) := by
  unfold encCmd
  rw [kCmd_eq, kStdout_eq, kStderr_eq, kStatus_eq]
  refine Seg.append (seg_first_key hs hd _) ?_
  refine Seg.append (seg_str_value (by simp) (Or.inl rfl) _) ?_
  refine Seg.append (seg_next_key _ _) ?_
  refine Seg.append (seg_str_value (by simp) (Or.inl rfl) _) ?_
  refine Seg.append (seg_next_key _ _) ?_
  refine Seg.append (seg_str_value (by simp) (Or.inl rfl) _) ?_
  refine Seg.append (seg_next_key _ _) ?_
  exact seg_number_close hs _

theorem encCmd_first (c : BCmd) : ∃ b r, encCmd c = b :: r ∧ isSpace b.toNat = false ∧ b.toNat ≠ 93 :=
  ⟨123, _, by simp [encCmd, kCmd, ascii]; rfl, by decide, by decide⟩

theorem encResult_first (r : BResult) : ∃ b t, encResult r = b :: t ∧ isSpace b.toNat = false ∧ b.toNat ≠ 93 :=
  ⟨123, _, by simp [encResult, kTask, ascii]; rfl, by decide, by decide⟩

theorem depthOk_cons {stk : List PS} (p q : PS) (h : stk.length + 4 ≤ maxNestingDepth) : depthOk (p :: q :: stk) := by
  unfold depthOk; simp only [List.length_cons]; omega

theorem seg_cmds {stk : List PS} (hs : stk ≠ []) (hd : stk.length + 4 ≤ maxNestingDepth) (cs : List BCmd) :
    Seg (St .beginValue stk) (encCmds cs) (St .endValue stk) := by
  unfold encCmds
  cases cs with
  | nil => exact seg_null hs
  | cons c cs =>
    simp only [List.isEmpty_cons, Bool.false_eq_true, if_false]
    refine seg_arr hs (by unfold depthOk; omega) _ (by simp) ?_ ?_
    · intro it hit
      obtain ⟨c', _, rfl⟩ := List.mem_map.mp hit
      exact seg_cmd (by simp) (by unfold depthOk; simp only [List.length_cons]; omega) c'
    · intro it hit
      obtain ⟨c', _, rfl⟩ := List.mem_map.mp hit
      exact encCmd_first c'

theorem seg_result {stk : List PS} (hs : stk ≠ []) (hd : stk.length + 6 ≤ maxNestingDepth) (r : BResult) :
    Seg (St .beginValue stk) (encResult r) (St .endValue stk) := by
  unfold encResult
  rw [kTask_eq, kResults_eq, kSkipped_eq]
  refine Seg.append (seg_first_key hs (by unfold depthOk; omega) _) ?_
  refine Seg.append (seg_str_value (by simp) (Or.inl rfl) _) ?_
  refine Seg.append (seg_next_key _ _) ?_
  refine Seg.append (seg_cmds (by simp) (by simp only [List.length_cons]; omega) _) ?_
  refine Seg.append (seg_next_key _ _) ?_
  refine Seg.append (seg_bool (by simp) _) ?_
  exact Seg.cons (NA_St (by simp)) (by rw [feed_obj_close hs]; exact Seg.nil _)

theorem feed_init_arr : feed Sc.init 91 = St .beginValueOrEmpty [.arrVal] := by
  simp [feed, Sc.init, stepFn, beginValue, isSpace, Sc.push, maxNestingDepth]

theorem feed_close_top_empty : feed (St .beginValueOrEmpty [.arrVal]) 93 = Done := by
  rw [feed_St]; unfold stepFn; simp [endValue, isSpace, Sc.pop, Done]

theorem feed_close_top : feed (St .endValue [.arrVal]) 93 = Done := by
  rw [feed_St]; unfold stepFn; simp [endValue, isSpace, Sc.pop, Done]

/-- everything after the opening bracket of the report -/
theorem seg_report_tail (rs : List BResult) :
    Seg (St .beginValueOrEmpty [.arrVal]) (joinComma (rs.map encResult) ++ [93]) Done := by
  cases rs with
  | nil =>
    simp only [List.map_nil, joinComma, List.nil_append]
    exact Seg.cons (NA_St (by simp)) (by rw [feed_close_top_empty]; exact Seg.nil _)
  | cons r rs =>
    have hitems := seg_items (stk := []) ((r :: rs).map encResult)
      (by intro it hit
          obtain ⟨r', _, rfl⟩ := List.mem_map.mp hit
          exact seg_result (by simp) (by simp [maxNestingDepth]) r') (by simp)
    obtain ⟨c, t, hx, h1, h2⟩ := encResult_first r
    have hjc : ∃ t', joinComma ((r :: rs).map encResult) = c :: t' := by
      cases rs with
      | nil => exact ⟨t, by simp [joinComma, hx]⟩
      | cons y l => exact ⟨t ++ 44 :: joinComma ((y :: l).map encResult), by simp [joinComma, hx]⟩
    obtain ⟨t', ht'⟩ := hjc
    rw [ht'] at hitems ⊢
    refine Seg.append (seg_of_beginValue (by simp) (Or.inr rfl) h1 h2 hitems) ?_
    exact Seg.cons (NA_St (by simp)) (by rw [feed_close_top]; exact Seg.nil _)

theorem scan_encReport (rs : List BResult) : scan Sc.init (encReport rs) = Done := by
  unfold encReport encArr
  rw [scan_cons, feed_init_arr]
  exact (seg_report_tail rs).1

end Spok.Json
