import Spok.Json.Report
import Spok.Lemmas.JsonLoad
/-! # Reading back the `--json` report: every reader of `Json/Report.lean` on what its writer wrote -/
namespace Spok.Json
open Spok

theorem lit?_append : ∀ (w T : Bytes), lit? w (w ++ T) = some T
  | [], T => by cases T <;> rfl
  | w :: ws, T => by simp [lit?, lit?_append ws T]

theorem pStr_encStr (s T : Bytes) : pStr (encStr s ++ T) = some (sanitize s, T) := by
  simp only [encStr, List.cons_append, List.append_assoc, pStr, show ((34 : UInt8).toNat == 34) = true by decide, if_true]
  rw [takeStr_encBody]
  simp [unqBody_encBody]

/-! ## numbers -/

def AllDigits (ds : Bytes) : Prop := ∀ d ∈ ds, isDigit d.toNat = true

theorem readDigits_append : ∀ (ds : Bytes), AllDigits ds → ∀ (a : Nat) (T : Bytes),
    readDigits a (ds ++ T) = readDigits (ds.foldl digitVal a) T
  | [], _, a, T => rfl
  | d :: ds, h, a, T => by
    have hd : isDigit d.toNat = true := h d (by simp)
    simp only [List.cons_append, readDigits, hd, if_true, List.foldl_cons]
    exact readDigits_append ds (fun x hx => h x (by simp [hx])) _ T

theorem digit_ofNat (k : Nat) (h : k < 10) : isDigit (UInt8.ofNat (48 + k)).toNat = true ∧ (UInt8.ofNat (48 + k)).toNat - 48 = k := by
  have : (UInt8.ofNat (48 + k)).toNat = 48 + k := by
    simp only [UInt8.toNat_ofNat']; omega
  rw [this]; simp [isDigit]; omega

theorem natDigits_spec (n : Nat) : AllDigits (natDigits n) ∧ ∀ a, (natDigits n).foldl digitVal a = a * 10 ^ (natDigits n).length + n ∧ natDigits n ≠ [] := by
  induction n using Nat.strongRecOn with
  | _ n ih =>
    rw [natDigits]
    by_cases h : n < 10
    · simp only [h, dif_pos]
      obtain ⟨h1, h2⟩ := digit_ofNat n h
      refine ⟨?_, ?_⟩
      · intro d hd; rw [List.mem_singleton] at hd; rw [hd]; exact h1
      · intro a
        refine ⟨?_, List.cons_ne_nil _ _⟩
        show digitVal a (UInt8.ofNat (48 + n)) = a * 10 ^ 1 + n
        unfold digitVal; rw [h2]
    · simp only [h, dif_neg, not_false_eq_true]
      obtain ⟨i1, i2⟩ := ih (n / 10) (by omega)
      obtain ⟨h1, h2⟩ := digit_ofNat (n % 10) (by omega)
      refine ⟨?_, ?_⟩
      · intro d hd
        rcases List.mem_append.mp hd with hd | hd
        · exact i1 d hd
        · rw [List.mem_singleton] at hd; rw [hd]; exact h1
      · intro a
        refine ⟨?_, by intro hnil; exact absurd (List.append_eq_nil_iff.mp hnil).2 (List.cons_ne_nil _ _)⟩
        rw [List.foldl_append, (i2 a).1]
        show digitVal (a * 10 ^ (natDigits (n / 10)).length + n / 10) (UInt8.ofNat (48 + n % 10)) = _
        unfold digitVal
        rw [h2, List.length_append, List.length_singleton, Nat.pow_succ]
        have := Nat.div_add_mod n 10
        have e : (a * 10 ^ (natDigits (n / 10)).length + n / 10) * 10 = a * (10 ^ (natDigits (n / 10)).length * 10) + (n / 10) * 10 := by
          rw [Nat.add_mul, Nat.mul_assoc]
        omega

theorem pNat_digits (n : Nat) (c : UInt8) (T : Bytes) (hc : isDigit c.toNat = false) :
    pNat (natDigits n ++ c :: T) = some (n, c :: T) := by
  obtain ⟨h1, h2⟩ := natDigits_spec n
  obtain ⟨h3, hne⟩ := h2 0
  cases hds : natDigits n with
  | nil => exact absurd hds hne
  | cons d ds =>
    have hd : isDigit d.toNat = true := h1 d (by simp [hds])
    simp only [List.cons_append, pNat, hd, if_true]
    have := readDigits_append (natDigits n) h1 0 (c :: T)
    rw [hds] at this
    simp only [List.cons_append] at this
    rw [this, ← hds, h3]
    simp [readDigits, hc]

/-! ## sequences -/

theorem pSeq_items {α β : Type} (p : Bytes → Option (β × Bytes)) (enc : α → Bytes) (f : α → β)
    (hp : ∀ x T, p (enc x ++ T) = some (f x, T)) :
    ∀ (l : List α) (fuel : Nat) (T : Bytes), l ≠ [] → l.length ≤ fuel →
      pSeq p fuel (joinComma (l.map enc) ++ 93 :: T) = some (l.map f, T)
  | [], _, _, h, _ => absurd rfl h
  | [x], fuel, T, _, hf => by
    obtain ⟨k, rfl⟩ : ∃ k, fuel = k + 1 := ⟨fuel - 1, by simp at hf; omega⟩
    simp [joinComma, pSeq, hp]
  | x :: y :: l, fuel, T, _, hf => by
    obtain ⟨k, rfl⟩ : ∃ k, fuel = k + 1 := ⟨fuel - 1, by simp at hf; omega⟩
    have ih := pSeq_items p enc f hp (y :: l) k T (by simp) (by simp at hf ⊢; omega)
    simp only [List.map_cons] at ih
    simp only [List.map_cons, joinComma, List.append_assoc, List.cons_append, pSeq, hp,
      show ((44 : UInt8).toNat == 44) = true by decide, if_true, ih, Option.map_some]

theorem joinComma_len {α : Type} (enc : α → Bytes) (l : List α) : l.length ≤ (joinComma (l.map enc)).length + 1 := by
  induction l with
  | nil => simp
  | cons x l ih =>
    cases l with
    | nil => simp [joinComma]
    | cons y l =>
      simp only [List.map_cons, joinComma, List.length_append, List.length_cons] at ih ⊢
      omega

/-- an array whose (non-empty) items start with a byte other than `]` -/
theorem pArr_items {α β : Type} (p : Bytes → Option (β × Bytes)) (enc : α → Bytes) (f : α → β)
    (hp : ∀ x T, p (enc x ++ T) = some (f x, T)) (hstart : ∀ x, ∃ c r, enc x = c :: r ∧ c.toNat ≠ 93)
    (l : List α) (T : Bytes) : pArr p (encArr (l.map enc) ++ T) = some (l.map f, T) := by
  cases l with
  | nil => simp [encArr, joinComma, pArr]
  | cons x l =>
    have hlen := joinComma_len enc (x :: l)
    obtain ⟨c, r, hx, hc⟩ := hstart x
    have hj : ∃ r', joinComma ((x :: l).map enc) = c :: r' := by
      cases l with
      | nil => exact ⟨r, by simp [joinComma, hx]⟩
      | cons y l => exact ⟨r ++ 44 :: joinComma ((y :: l).map enc), by simp [joinComma, hx]⟩
    obtain ⟨r', hr'⟩ := hj
    have hc' : (c.toNat == 93) = false := by simpa using hc
    have key := pSeq_items p enc f hp (x :: l) ((91 :: (c :: r' ++ [93]) ++ T).length) T (by simp)
      (by rw [hr'] at hlen; simp only [List.length_cons, List.length_append] at hlen ⊢; omega)
    rw [hr'] at key
    simp only [encArr, hr', List.cons_append, List.append_assoc, pArr, show ((91 : UInt8).toNat == 91) = true by decide,
      if_true, hc', Bool.false_eq_true, if_false]
    simpa using key

/-! ## the objects -/

theorem pCmd_encCmd (c : BCmd) (T : Bytes) : pCmd (encCmd c ++ T) = some (c.san, T) := by
  simp only [encCmd, List.append_assoc, pCmd, lit?_append, pStr_encStr, Option.bind_eq_bind, Option.bind_some,
    List.cons_append, List.nil_append]
  rw [pNat_digits _ 125 _ (by decide)]
  simp [lit?, BCmd.san]

theorem encCmd_start (c : BCmd) : ∃ b r, encCmd c = b :: r ∧ b.toNat ≠ 93 :=
  ⟨123, _, by simp [encCmd, kCmd, ascii]; rfl, by decide⟩

theorem lit?_null_arr (items : List Bytes) (T : Bytes) : lit? kNull (encArr items ++ T) = none := by
  simp [encArr, kNull, ascii, lit?]

theorem pCmds_encCmds (cs : List BCmd) (T : Bytes) : pCmds (encCmds cs ++ T) = some (cs.map BCmd.san, T) := by
  unfold encCmds pCmds
  cases cs with
  | nil => simp [lit?_append]
  | cons c cs =>
    simp only [List.isEmpty_cons, Bool.false_eq_true, if_false, lit?_null_arr]
    exact pArr_items pCmd encCmd BCmd.san pCmd_encCmd encCmd_start (c :: cs) T

theorem pBool_encBool (b : Bool) (T : Bytes) : pBool (encBool b ++ T) = some (b, T) := by
  cases b
  · have : lit? kTrue (kFalse ++ T) = none := by simp [kTrue, kFalse, ascii, lit?]
    simp [pBool, encBool, this, lit?_append]
  · simp [pBool, encBool, lit?_append]

theorem pResult_encResult (r : BResult) (T : Bytes) : pResult (encResult r ++ T) = some (r.san, T) := by
  simp only [encResult, List.append_assoc, pResult, lit?_append, pStr_encStr, pCmds_encCmds, pBool_encBool,
    Option.bind_eq_bind, Option.bind_some, List.cons_append, List.nil_append]
  simp [lit?, BResult.san]

theorem encResult_start (r : BResult) : ∃ b t, encResult r = b :: t ∧ b.toNat ≠ 93 :=
  ⟨123, _, by simp [encResult, kTask, ascii]; rfl, by decide⟩

theorem decReport_encReport (rs : List BResult) : decReport (encReport rs) = some (rs.map BResult.san) := by
  have := pArr_items pResult encResult BResult.san pResult_encResult encResult_start rs []
  simp only [List.append_nil] at this
  simp [decReport, encReport, this]

/-! ## text survives unchanged -/

theorem BCmd.san_text (c : BCmd) (h : c.text) : c.san = c := by
  obtain ⟨h1, h2, h3⟩ := h
  simp [BCmd.san, sanitize_valid _ h1, sanitize_valid _ h2, sanitize_valid _ h3]

theorem BResult.san_text (r : BResult) (h : r.text) : r.san = r := by
  obtain ⟨h1, h2⟩ := h
  have : r.cmds.map BCmd.san = r.cmds := by
    have : ∀ c ∈ r.cmds, BCmd.san c = id c := fun c hc => BCmd.san_text c (h2 c hc)
    rw [List.map_congr_left this]; simp
  simp [BResult.san, sanitize_valid _ h1, this]

end Spok.Json
