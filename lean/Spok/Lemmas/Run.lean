import Spok.Run
/-! # Invariants of the run machine (helper lemmas for Props/C01 C02 C10 C14)

* `Inv`  (soundness): every digest in memory or on disk is the digest of the files of the task's last success.
* `CInv` (completeness, crash-free): every last success on ≥ 1 file is recorded.
* termination measure. -/
namespace Spok.Run

variable (digest : Items → Digest)

/-! ## `Inv`: what is recorded is justified -/

/-- a recorded digest is the digest of the files of the last successful completion -/
def Just (last : Name → Option Items) (t : Name) (o : Option Digest) : Prop :=
  ∀ d, o = some d → ∃ i, last t = some i ∧ digest i = d

def InvMap (last : Name → Option Items) (m : Map) : Prop := ∀ t, Just digest last t (m t)

/-- what may be on disk: a justified map, nothing (and then nothing is remembered), or an unparsable file -/
def InvDisk (last : Name → Option Items) : Disk → Prop
  | .valid m => InvMap digest last m
  | .missing => ∀ t, last t = none
  | .corrupt => True

def InvPc (s : St) : Prop :=
  match s.pc, s.todo with
  | .boot, _ => InvDisk digest s.last s.disk
  | .initializing, _ => s.disk = .missing ∧ ∀ t, s.last t = none
  | .initWriting, _ => s.disk = .corrupt
  | .decide, _ => s.disk = .valid s.mem
  | .finished, _ => s.disk = .valid s.mem
  | .hashError, _ => s.disk = .valid s.mem
  | .cacheError, _ => s.disk = .corrupt
  | .committing, _ => s.disk = .corrupt
  | .invalidating old, t :: _ => s.disk = .corrupt ∧ s.mem t.name = none ∧ Just digest s.last t.name old
  | .invalidated old, t :: _ => s.disk = .valid s.mem ∧ s.mem t.name = none ∧ Just digest s.last t.name old
  | .executed old, t :: _ => s.disk = .valid s.mem ∧ s.mem t.name = none ∧
        (t.ok = true → s.last t.name = some t.inp.items) ∧ (t.ok = false → Just digest s.last t.name old)
  | .invalidating _, [] => False
  | .invalidated _, [] => False
  | .executed _, [] => False

def Inv (s : St) : Prop := InvMap digest s.last s.mem ∧ InvPc digest s

theorem invMap_upd {last : Name → Option Items} {m : Map} (t : Name) (v : Option Digest)
    (h : InvMap digest last m) (hv : Just digest last t v) : InvMap digest last (upd m t v) := by
  intro u d hu
  unfold upd at hu
  split at hu
  · rename_i e; subst e; exact hv d hu
  · exact h u d hu

theorem just_none (last : Name → Option Items) (t : Name) : Just digest last t none := by
  intro d hx; cases hx

/-- a successful completion of `t` keeps every map justified, provided `t`'s own entry is empty -/
theorem invMap_last_upd {last : Name → Option Items} {m : Map} (t : Name) (i : Items)
    (h : InvMap digest last m) (hnone : m t = none) : InvMap digest (upd last t (some i)) m := by
  intro u d hu
  by_cases e : u = t
  · subst e; rw [hnone] at hu; cases hu
  · obtain ⟨j, hj, hdj⟩ := h u d hu
    exact ⟨j, by simp [upd, e, hj], hdj⟩

theorem just_recorded {last : Name → Option Items} (t : TaskIn) (old : Option Digest)
    (hok : t.ok = true → last t.name = some t.inp.items) (hfail : t.ok = false → Just digest last t.name old) :
    Just digest last t.name (recorded digest t old) := by
  unfold recorded
  by_cases h : t.ok = true
  · simp only [h, if_true]
    split
    · intro d hx; cases hx; exact ⟨t.inp.items, hok h, rfl⟩
    · exact just_none digest _ _
  · have hf : t.ok = false := by simpa using h
    simp only [hf]
    exact hfail hf

theorem step_inv (s : St) (h : Inv digest s) : Inv digest (step digest s) := by
  obtain ⟨hm, hp⟩ := h
  unfold step
  split
  · -- boot
    rename_i hpc
    simp only [InvPc, hpc] at hp
    split
    · rename_i hdk; rw [hdk] at hp; exact ⟨hm, by simp [InvPc, hdk]; exact hp⟩
    · rename_i hdk; exact ⟨hm, by simp [InvPc, hdk]⟩
    · rename_i m hdk
      rw [hdk] at hp
      exact ⟨hp, by simp [InvPc, hdk]⟩
  · -- initializing
    exact ⟨hm, by simp [InvPc]⟩
  · -- initWriting
    exact ⟨fun t => just_none digest _ _, by simp [InvPc]⟩
  · -- decide
    rename_i hpc
    simp only [InvPc, hpc] at hp
    split
    · exact ⟨hm, by simp [InvPc, hp]⟩
    · rename_i t rest hto
      split
      · exact ⟨hm, by simp [InvPc, hp]⟩
      · split
        · exact ⟨hm, by simp [InvPc, hpc, hp]⟩
        · split
          · refine ⟨invMap_upd digest _ _ hm (just_none digest _ _), ?_⟩
            simp only [InvPc, hto]
            exact ⟨trivial, by simp [upd], hm t.name⟩
          · rename_i hnone
            refine ⟨hm, ?_⟩
            simp only [InvPc, hto]
            exact ⟨hp, by simpa using hnone, just_none digest _ _⟩
  · -- invalidating
    rename_i old hpc
    cases hto : s.todo with
    | nil => simp [InvPc, hpc, hto] at hp
    | cons t rest =>
      simp only [InvPc, hpc, hto] at hp
      exact ⟨hm, by simp only [InvPc]; exact ⟨trivial, hp.2⟩⟩
  · -- invalidated
    rename_i old hpc
    split
    · rename_i hto; simp [InvPc, hpc, hto] at hp
    · rename_i t rest hto
      simp only [InvPc, hpc, hto] at hp
      obtain ⟨hdk, hnone, hold⟩ := hp
      by_cases hok : t.ok = true
      · simp only [hok, if_true]
        refine ⟨invMap_last_upd digest _ _ hm hnone, ?_⟩
        simp only [InvPc, hto]
        exact ⟨hdk, hnone, fun _ => by simp [upd], fun h => by simp [hok] at h⟩
      · simp only [hok]
        refine ⟨hm, ?_⟩
        simp only [InvPc, hto]
        exact ⟨hdk, hnone, fun h => absurd h hok, fun _ => hold⟩
  · -- executed
    rename_i old hpc
    split
    · rename_i hto; simp [InvPc, hpc, hto] at hp
    · rename_i t rest hto
      simp only [InvPc, hpc, hto] at hp
      obtain ⟨hdk, hnone, hokc, hfail⟩ := hp
      have hv := just_recorded digest t old hokc hfail
      split
      · exact ⟨invMap_upd digest _ _ hm hv, by simp [InvPc]⟩
      · exact ⟨hm, by simp [InvPc, hdk]⟩
  · -- committing
    split
    · rename_i hto; exact ⟨hm, by simp [InvPc]⟩
    · exact ⟨hm, by simp [InvPc]⟩
  · exact ⟨hm, hp⟩
  · exact ⟨hm, hp⟩
  · exact ⟨hm, hp⟩

/-- whenever the machine skips, the ghost agrees — or the digest collided -/
theorem skip_sound (s : St) (h : Inv digest s) (t : TaskIn)
    (hskip : skipTest digest s t = true) :
    s.last t.name = some t.inp.items ∨ ∃ i j, i ≠ j ∧ digest i = digest j := by
  simp [skipTest] at hskip
  obtain ⟨i, hi, hdi⟩ := h.1 t.name _ hskip.2
  by_cases e : i = t.inp.items
  · left; rw [← e]; exact hi
  · right; exact ⟨i, t.inp.items, e, hdi⟩

theorem force_never_skips (s : St) (t : TaskIn) (hf : s.force = true) : skipTest digest s t = false := by
  simp [skipTest, hf]

/-- the on-disk state is always corrupt, or justified: what a kill at this point leaves behind -/
theorem inv_disk (s : St) (h : Inv digest s) : InvDisk digest s.last s.disk := by
  obtain ⟨hm, hp⟩ := h
  unfold InvPc at hp
  split at hp <;> first
    | exact hp
    | (rw [hp]; first | exact hm | trivial)
    | (rw [hp.1]; first | exact hm | trivial | exact hp.2)
    | exact hp.elim

/-! ## `CInv`: what succeeded on ≥ 1 file is recorded (between kills) -/

/-- the converse of `Just`: a last success on at least one file is recorded with its digest -/
def CJust (last : Name → Option Items) (t : Name) (o : Option Digest) : Prop :=
  ∀ i, last t = some i → i ≠ [] → o = some (digest i)

def CMap (last : Name → Option Items) (m : Map) : Prop := ∀ t, CJust digest last t (m t)

def CMapExcept (last : Name → Option Items) (m : Map) (t : Name) : Prop :=
  ∀ u, u ≠ t → CJust digest last u (m u)

def CDisk (last : Name → Option Items) : Disk → Prop
  | .valid m => CMap digest last m
  | .missing => ∀ t, last t = none
  | .corrupt => False

/-- the head task is not up to date in the sense of C02 (or the run is forced) -/
def Stale (s : St) (t : TaskIn) : Prop :=
  ¬ (s.force = false ∧ s.last t.name = some t.inp.items ∧ t.inp.items ≠ [])

def CInv (s : St) : Prop :=
  match s.pc, s.todo with
  | .boot, _ => CDisk digest s.last s.disk
  | .initializing, _ => ∀ t, s.last t = none
  | .initWriting, _ => ∀ t, s.last t = none
  | .decide, _ => s.disk = .valid s.mem ∧ CMap digest s.last s.mem
  | .finished, _ => s.disk = .valid s.mem ∧ CMap digest s.last s.mem
  | .hashError, _ => s.disk = .valid s.mem ∧ CMap digest s.last s.mem
  | .cacheError, _ => False
  | .invalidating old, t :: _ => CMapExcept digest s.last s.mem t.name ∧ s.mem t.name = none ∧
        CJust digest s.last t.name old ∧ Stale s t
  | .invalidated old, t :: _ => s.disk = .valid s.mem ∧ CMapExcept digest s.last s.mem t.name ∧ s.mem t.name = none ∧
        CJust digest s.last t.name old ∧ Stale s t
  | .executed old, t :: _ => s.disk = .valid s.mem ∧ CMapExcept digest s.last s.mem t.name ∧ s.mem t.name = none ∧
        (t.ok = true → s.last t.name = some t.inp.items) ∧ (t.ok = false → CJust digest s.last t.name old)
  | .committing, _ :: _ => CMap digest s.last s.mem
  | .invalidating _, [] => False
  | .invalidated _, [] => False
  | .executed _, [] => False
  | .committing, [] => False

theorem cjust_recorded {last : Name → Option Items} (t : TaskIn) (old : Option Digest)
    (hok : t.ok = true → last t.name = some t.inp.items) (hfail : t.ok = false → CJust digest last t.name old) :
    CJust digest last t.name (recorded digest t old) := by
  unfold recorded
  by_cases h : t.ok = true
  · simp only [h, if_true]
    intro i hi hne
    rw [hok h] at hi
    cases hi
    have : t.inp.n > 0 := by
      unfold Inputs.n
      cases hl : t.inp.items with
      | nil => exact absurd hl hne
      | cons a l => simp; omega
    simp [this]
  · have hf : t.ok = false := by simpa using h
    simp only [hf]
    exact hfail hf

theorem stale_of_noskip (s : St) (t : TaskIn) (hc : CMap digest s.last s.mem)
    (hns : skipTest digest s t = false) : Stale s t := by
  intro ⟨hf, hl, hne⟩
  have hm := hc t.name _ hl hne
  have hn : t.inp.n > 0 := by
    unfold Inputs.n
    cases hl : t.inp.items with
    | nil => exact absurd hl hne
    | cons a l => simp; omega
  simp [skipTest, hf, hn, hm] at hns

theorem cmap_of_except {last : Name → Option Items} {m : Map} {t : Name} (v : Option Digest)
    (h : CMapExcept digest last m t) (hv : CJust digest last t v) : CMap digest last (upd m t v) := by
  intro u
  by_cases e : u = t
  · subst e; simpa [upd] using hv
  · simpa [upd, e] using h u e

theorem except_of_cmap {last : Name → Option Items} {m : Map} (t : Name) (v : Option Digest)
    (h : CMap digest last m) : CMapExcept digest last (upd m t v) t := by
  intro u e
  simpa [upd, e] using h u

theorem except_last_upd {last : Name → Option Items} {m : Map} (t : Name) (v : Option Items)
    (h : CMapExcept digest last m t) : CMapExcept digest (upd last t v) m t := by
  intro u e i hi
  simp [upd, e] at hi
  exact h u e i hi

theorem step_cinv (s : St) (h : CInv digest s) : CInv digest (step digest s) := by
  unfold step
  split
  · -- boot
    rename_i hpc
    simp only [CInv, hpc] at h
    split
    · rename_i hdk; rw [hdk] at h; simp only [CInv]; exact h
    · rename_i hdk; rw [hdk] at h; exact h.elim
    · rename_i m hdk; rw [hdk] at h; simp only [CInv]; exact ⟨hdk, h⟩
  · -- initializing
    rename_i hpc
    simp only [CInv, hpc] at h
    simpa [CInv] using h
  · -- initWriting
    rename_i hpc
    simp only [CInv, hpc] at h
    simp only [CInv]
    exact ⟨trivial, fun t i hi => by rw [h t] at hi; cases hi⟩
  · -- decide
    rename_i hpc
    simp only [CInv, hpc] at h
    obtain ⟨hdk, hc⟩ := h
    split
    · simp only [CInv]; exact ⟨hdk, hc⟩
    · rename_i t rest hto
      split
      · simp only [CInv]; exact ⟨hdk, hc⟩
      · split
        · simp only [CInv, hpc]; exact ⟨hdk, hc⟩
        · rename_i hns
          have hst := stale_of_noskip digest s t hc (by simpa using hns)
          split
          · simp only [CInv, hto]
            exact ⟨except_of_cmap digest _ _ hc, by simp [upd], hc t.name, hst⟩
          · rename_i hnone
            have hn : s.mem t.name = none := by simpa using hnone
            simp only [CInv, hto]
            refine ⟨hdk, fun u _ => hc u, hn, ?_, hst⟩
            rw [← hn]; exact hc t.name
  · -- invalidating
    rename_i old hpc
    cases hto : s.todo with
    | nil => simp [CInv, hpc, hto] at h
    | cons t rest =>
      simp only [CInv, hpc, hto] at h
      simp only [CInv]
      exact ⟨trivial, h⟩
  · -- invalidated
    rename_i old hpc
    split
    · rename_i hto; simp [CInv, hpc, hto] at h
    · rename_i t rest hto
      simp only [CInv, hpc, hto] at h
      obtain ⟨hdk, hex, hnone, hold, _⟩ := h
      simp only [CInv, hto]
      by_cases hok : t.ok = true
      · simp only [hok, if_true]
        exact ⟨hdk, except_last_upd digest _ _ hex, hnone, fun _ => by simp [upd], fun h => by simp at h⟩
      · have hf : t.ok = false := by simpa using hok
        simp only [hf]
        exact ⟨hdk, hex, hnone, fun h => by simp at h, fun _ => hold⟩
  · -- executed
    rename_i old hpc
    split
    · rename_i hto; simp [CInv, hpc, hto] at h
    · rename_i t rest hto
      simp only [CInv, hpc, hto] at h
      obtain ⟨hdk, hex, hnone, hokc, hfail⟩ := h
      have hv := cjust_recorded digest t old hokc hfail
      split
      · simp only [CInv, hto]
        exact cmap_of_except digest _ hex hv
      · rename_i hrec
        have hr : recorded digest t old = none := by simpa using hrec
        simp only [CInv]
        refine ⟨hdk, fun u => ?_⟩
        by_cases e : u = t.name
        · subst e; rw [hnone, ← hr]; exact hv
        · exact hex u e
  · -- committing
    rename_i hpc
    split
    · rename_i hto; simp [CInv, hpc, hto] at h
    · rename_i t rest hto
      simp only [CInv, hpc, hto] at h
      simp only [CInv]
      exact ⟨trivial, h⟩
  · exact h
  · exact h
  · exact h

/-- C02 core: at the decision, an unforced task whose last success was on exactly these (≥ 1) files is skipped -/
theorem skip_complete (s : St) (h : CInv digest s) (t : TaskIn) (rest : List TaskIn)
    (hpc : s.pc = .decide) (_hto : s.todo = t :: rest) (hf : s.force = false)
    (hl : s.last t.name = some t.inp.items) (hne : t.inp.items ≠ []) : skipTest digest s t = true := by
  simp only [CInv, hpc] at h
  cases hs : skipTest digest s t with
  | true => rfl
  | false => exact absurd ⟨hf, hl, hne⟩ (stale_of_noskip digest s t h.2 hs)

/-- a task that hands no path to the hasher is never skipped -/
theorem nodeps_never_skips (s : St) (t : TaskIn) (hn : t.inp.n = 0) : skipTest digest s t = false := by
  simp [skipTest, hn]

/-- what a crash-free invocation leaves on disk -/
theorem cinv_disk (s : St) (h : CInv digest s) (ht : s.pc.terminal = true) : CDisk digest s.last s.disk := by
  unfold CInv at h
  split at h <;> simp_all [Pc.terminal, CDisk]

end Spok.Run
