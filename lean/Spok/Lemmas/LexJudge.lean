import Spok.Lemmas.LexTiles
import Spok.Wire
/-! # The executable judge `Judge.c16` accepts what the model produces

The judge decodes the bytes of each gap *in isolation*; that is sound for white-space gaps because a rune
that did not decode to U+FFFD decodes the same whatever follows it (`decode1_stable`). -/
namespace Spok
open Spok.Judge (countNL slice allSpace tilesFrom)

theorem decode1_b0 (b0 : UInt8) (rest : List UInt8) : (decode1 b0 rest).b0 = b0 := by
  unfold decode1
  simp only []
  repeat' split
  all_goals rfl

/-- a rune that is not U+FFFD was decoded from its own bytes alone -/
theorem decode1_stable (b0 : UInt8) (rest rest' : List UInt8) (h : (decode1 b0 rest).cp ≠ 0xFFFD) :
    decode1 b0 ((decode1 b0 rest).more ++ rest') = decode1 b0 rest := by
  generalize hr : decode1 b0 rest = r at h ⊢
  unfold decode1 at hr
  simp only [] at hr
  repeat' split at hr
  all_goals subst hr
  all_goals first
    | (exfalso; exact h rfl)
    | (unfold decode1; simp_all; done)
    | (unfold decode1
       simp only [List.nil_append, List.cons_append]
       repeat' split
       all_goals first | rfl | omega | (simp_all; done) | (exfalso; simp_all; omega))

theorem decodeAll_mem {bs : List UInt8} {r : Rune} (hr : r ∈ decodeAll bs) : ∃ b0 rest, r = decode1 b0 rest := by
  induction h : bs.length using Nat.strongRecOn generalizing bs with
  | _ n ih =>
    cases bs with
    | nil => simp [decodeAll] at hr
    | cons b0 rest =>
      rw [decodeAll] at hr
      simp only [List.mem_cons] at hr
      rcases hr with rfl | hr
      · exact ⟨b0, rest, rfl⟩
      · have hw := decode1_w_pos b0 rest
        exact ih _ (by subst h; simp [List.length_drop]; omega) hr rfl

theorem decodeAll_flat_of_stable (ws : List Rune)
    (h : ∀ r ∈ ws, ∀ rest', decode1 r.b0 (r.more ++ rest') = r) : decodeAll (flat ws) = ws := by
  induction ws with
  | nil => simp [decodeAll]
  | cons r ws ih =>
    have hr := h r (by simp) (flat ws)
    have hd : (r.b0 :: (r.more ++ flat ws)).drop r.w = flat ws := by
      simp [Rune.w]
    simp only [flat_cons, Rune.bytes, List.cons_append]
    rw [decodeAll]
    simp only [hr, hd]
    rw [ih (fun x hx => h x (by simp [hx]))]

theorem isSpaceCp_runeError : isSpaceCp 0xFFFD = false := by decide

/-- white-space runes of a decoding decode to themselves in isolation -/
theorem allSpace_flat {bs : List UInt8} {ws : List Rune} (hsub : ∀ r ∈ ws, r ∈ decodeAll bs)
    (hws : ∀ r ∈ ws, isSpace r = true) : allSpace (flat ws) = true := by
  have : decodeAll (flat ws) = ws := by
    apply decodeAll_flat_of_stable
    intro r hr rest'
    obtain ⟨b0, rest, rfl⟩ := decodeAll_mem (hsub r hr)
    have hne : (decode1 b0 rest).cp ≠ 0xFFFD := by
      intro hc
      have := hws _ hr
      rw [isSpace, hc, isSpaceCp_runeError] at this
      cases this
    rw [decode1_b0]; exact decode1_stable b0 rest rest' hne
  simp only [allSpace, this, List.all_eq_true]
  exact hws

theorem WsGap.allSpace {bytes : List UInt8} {a b : Nat} (h : WsGap bytes a b) : allSpace (slice bytes a b) = true := by
  obtain ⟨pre, ws, post, hd, h1, h2, hws⟩ := h
  have hb : bytes = flat (pre ++ ws ++ post) := by rw [← hd, flat_decodeAll]
  have : slice bytes a b = flat ws := by
    have hb' : b = bytesLen pre + bytesLen ws := by rw [← h2]; simp
    rw [hb, ← h1, hb', flat_length]; exact slice_flat pre ws post
  rw [this]
  exact allSpace_flat (bs := bytes) (fun r hr => by rw [hd]; simp [hr]) hws

theorem TilesFrom.ne_nil {bytes : List UInt8} {cur : Nat} {ts : List Tok} (h : TilesFrom bytes cur ts) : ts ≠ [] := by
  cases h <;> simp

/-- the byte-level property implies the executable judge's verdict -/
theorem TilesFrom.judge {bytes : List UInt8} {cur : Nat} {ts : List Tok} (h : TilesFrom bytes cur ts) :
    tilesFrom bytes cur ts = true := by
  induction h with
  | error he => simp [tilesFrom, he]
  | @eof cur t h1 h2 h3 h4 h5 =>
    have := h4.le
    have ha := h4.allSpace
    rw [h3] at this ha h5
    simp only [List.take_length] at h5
    simp only [tilesFrom, h1, h2]
    simp [ha, this, h5, h3]
  | @tok cur t ts h1 h2 h3 h4 h5 h6 h7 ih =>
    obtain ⟨t', ts', rfl⟩ := List.exists_cons_of_ne_nil h7.ne_nil
    have := h3.le
    simp only [flat_length] at h4 h5 ih
    simp only [tilesFrom]
    simp [h1, h2, this, h3.allSpace, h4, h5, h6, ih]

/-- the model's stream needs no cutting: EOF / ERROR occur only in last position -/
theorem cutToks_of_doneOK {input : List Rune} {toks : List Tok} (h : DoneOK input toks) : Wire.cutToks toks = toks := by
  obtain ⟨ts, e, rfl, h⟩ := h
  have hty : ∀ t ∈ ts, t.ty ≠ .error ∧ t.ty ≠ .eof := by
    rcases h with ⟨_, _, _, _, ht⟩ | ⟨_, ht⟩
    · exact ht.types
    · exact ht.types
  have he : (e.ty == .eof || e.ty == .error) = true := by
    rcases h with ⟨he, _⟩ | ⟨rfl, _⟩
    · simp [he]
    · rfl
  clear h
  induction ts with
  | nil => simp [Wire.cutToks, he]
  | cons t ts ih =>
    have := hty t (by simp)
    simp only [List.cons_append, Wire.cutToks]
    simp [this.1, this.2, ih (fun x hx => hty x (by simp [hx]))]

end Spok
