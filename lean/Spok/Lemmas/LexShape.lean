import Spok.Lemmas.LexLine
/-! # Every state function of the lexer preserves the line / token-shape invariant

`Inv inp l t`: in a live state with tag `t` the scanner state satisfies `St inp (modeOf t) l` and the
remaining input starts with the spelling of the token the state function is about to `absorb`; at
`.done` the emitted tokens form a complete admissible stream `Str (nLines inp) .top`.
`inv_stepTag` follows `stepTag` through all eighteen state functions; `lexRunes_str` is the result
for the whole run. -/
namespace Spok

def modeOf : Tag → Mode
  | .taskBody | .taskCommands | .rightBrace => .body
  | .comment => .afterHash
  | .taskName => .afterTask
  | _ => .top

/-- the text a state function `absorb`s without looking at it (it was seen by the previous state) -/
def spelling : Tag → List Nat
  | .hash => [HASH]
  | .taskKeyword => [116, 97, 115, 107]
  | .leftParen => [LPAREN]
  | .rightParen => [RPAREN]
  | .outputOp => [MINUS, GT]
  | .leftBrace => [LBRACE]
  | .rightBrace => [RBRACE]
  | .comma => [COMMA]
  | .declare => [COLON, EQUALS]
  | _ => []

def Live (inp : List Rune) (l : L) (t : Tag) : Prop :=
  St inp (modeOf t) l ∧ l.hasPrefix (spelling t) = true

def Inv (inp : List Rune) (l : L) : Tag → Prop
  | .done => Str (nLines inp) .top l.toks.toList
  | .spin => False
  | t => Live inp l t

variable {inp : List Rune} {l : L}

theorem inv_error {m : Mode} {l : L} (h : Loose inp m l) (hm : m = .top ∨ m = .body) :
    Inv inp (l.error).1 (l.error).2 := fin_error h hm

theorem not_eof_of_prefix {s : List Nat} (hp : l.hasPrefix s = true) (hs : s ≠ []) : l.atEOF = false := by
  cases hr : l.right with
  | nil =>
    have := hasPrefix_take hp
    rw [hr] at this
    simp at this
    exact absurd this hs
  | cons r rs => simp [L.atEOF, hr]

/-- a rune other than the end-of-input rune came from the input -/
theorem right_of_next {c : Nat} (hc : (l.next).2.cp = c) (hne : c ≠ 65533) : ∃ rs, l.right = (l.next).2 :: rs := by
  cases hr : l.right with
  | nil => simp [L.next, hr, eofRune] at hc; omega
  | cons r rs => exact ⟨rs, by simp [L.next, hr]⟩

/-- the rune just read or peeked heads the remaining input of any state that has the same `right` -/
theorem hp_of_next {l' : L} {c : Nat} (hc : (l.next).2.cp = c) (hne : c ≠ 65533) (hr : l'.right = l.right) :
    l'.hasPrefix [c] = true := by
  obtain ⟨rs, h⟩ := right_of_next hc hne
  simp [L.hasPrefix, hr, h, hc]

theorem live_nil_prefix (l : L) : l.hasPrefix [] = true := rfl

theorem inv_lexStart (h : Live inp l .start) : Inv inp (lexStart l).1 (lexStart l).2 := by
  have h1 : St inp .top (skipWs l) := st_skipWs h.1
  unfold lexStart
  simp only []
  split
  · rename_i hp; exact ⟨h1, hp⟩
  · split
    · rename_i hp; exact ⟨h1, hp⟩
    · split
      · exact ⟨st_next (st_peek h1), rfl⟩
      · split
        · exact fin_eof (st_peek h1)
        · exact inv_error (st_peek h1).loose (Or.inl rfl)

theorem inv_lexHash (h : Live inp l .hash) : Inv inp (lexHash l).1 (lexHash l).2 := by
  unfold lexHash
  split
  · rename_i he; rw [not_eof_of_prefix h.2 (by simp [spelling])] at he; cases he
  · exact ⟨st_emit (st_absorb h.1 h.2 (by decide)) rfl, rfl⟩

theorem inv_lexComment (h : Live inp l .comment) : Inv inp (lexComment l).1 (lexComment l).2 :=
  ⟨st_emit (st_scanComment h.1) rfl, rfl⟩

theorem inv_lexTaskKeyword (h : Live inp l .taskKeyword) : Inv inp (lexTaskKeyword l).1 (lexTaskKeyword l).2 := by
  unfold lexTaskKeyword
  split
  · rename_i he; rw [not_eof_of_prefix h.2 (by simp [spelling])] at he; cases he
  · exact ⟨st_skipWs (st_emit (st_absorb h.1 h.2 (by decide)) rfl), rfl⟩

theorem inv_lexLeftParen (h : Live inp l .leftParen) : Inv inp (lexLeftParen l).1 (lexLeftParen l).2 := by
  unfold lexLeftParen
  split
  · rename_i he; rw [not_eof_of_prefix h.2 (by simp [spelling])] at he; cases he
  · exact ⟨st_skipWs (st_emit (st_absorb h.1 h.2 (by decide)) rfl), rfl⟩

theorem inv_lexLeftBrace (h : Live inp l .leftBrace) : Inv inp (lexLeftBrace l).1 (lexLeftBrace l).2 := by
  unfold lexLeftBrace
  split
  · rename_i he; rw [not_eof_of_prefix h.2 (by simp [spelling])] at he; cases he
  · exact ⟨st_skipWs (st_emit (st_absorb h.1 h.2 (by decide)) rfl), rfl⟩

theorem inv_lexRightBrace (h : Live inp l .rightBrace) : Inv inp (lexRightBrace l).1 (lexRightBrace l).2 := by
  unfold lexRightBrace
  split
  · rename_i he; rw [not_eof_of_prefix h.2 (by simp [spelling])] at he; cases he
  · exact ⟨st_emit (st_absorb h.1 h.2 (by decide)) rfl, rfl⟩

theorem inv_lexRightParen (h : Live inp l .rightParen) : Inv inp (lexRightParen l).1 (lexRightParen l).2 := by
  unfold lexRightParen
  split
  · rename_i he; rw [not_eof_of_prefix h.2 (by simp [spelling])] at he; cases he
  · have h1 : St inp .top (skipWs ((l.absorb 1).emit .rparen)) :=
      st_skipWs (st_emit (st_absorb h.1 h.2 (by decide)) rfl)
    have h2 := st_peek h1
    simp only []
    split
    · rename_i hc
      exact ⟨h2, hp_of_next (by simpa [L.peek_rune] using hc) (by decide) (by simp)⟩
    · split
      · rename_i hp; exact ⟨h2, hp⟩
      · split
        · exact ⟨st_atEOL h2, rfl⟩
        · split
          · rename_i hc
            exact ⟨st_atEOL h2, hp_of_next (by simpa [L.peek_rune] using hc) (by decide) (by simp)⟩
          · exact inv_error (st_atEOL h2).loose (Or.inl rfl)

theorem inv_lexOutputOp (h : Live inp l .outputOp) : Inv inp (lexOutputOp l).1 (lexOutputOp l).2 := by
  unfold lexOutputOp
  split
  · rename_i he; rw [not_eof_of_prefix h.2 (by simp [spelling])] at he; cases he
  · have h1 : St inp .top (skipWs ((l.absorb 2).emit .output)) :=
      st_skipWs (st_emit (st_absorb h.1 h.2 (by decide)) rfl)
    have h2 := st_next h1
    simp only []
    split
    · exact ⟨h2, rfl⟩
    · split
      · rename_i hc
        exact ⟨st_peek h1, hp_of_next (by simpa using hc) (by decide) (by simp)⟩
      · split
        · exact ⟨h2, rfl⟩
        · split
          · exact inv_error (loose_backup h2) (Or.inl rfl)
          · split
            · exact inv_error h2.loose (Or.inl rfl)
            · exact inv_error (loose_backup h2) (Or.inl rfl)

theorem inv_lexTaskBody (h : Live inp l .taskBody) : Inv inp (lexTaskBody l).1 (lexTaskBody l).2 := by
  unfold lexTaskBody
  split
  · exact inv_error h.1.loose (Or.inr rfl)
  · have h1 : St inp .body (skipWs l) := st_skipWs h.1
    have h2 := st_next h1
    simp only []
    split
    · rename_i hc
      exact ⟨st_peek h1, hp_of_next (by simpa using hc) (by decide) (by simp)⟩
    · split
      · exact ⟨h2, rfl⟩
      · exact inv_error h2.loose (Or.inr rfl)

theorem inv_lexTaskName (h : Live inp l .taskName) : Inv inp (lexTaskName l).1 (lexTaskName l).2 := by
  have h1 : St inp .top (skipWs ((scanIdent l).emit .ident)) := st_skipWs (st_emit (st_scanIdent h.1) rfl)
  have h2 := st_peek h1
  unfold lexTaskName
  simp only []
  split
  · exact inv_error h2.loose (Or.inl rfl)
  · rename_i hc
    exact ⟨h2, hp_of_next (by simpa [L.peek_rune] using hc) (by decide) (by simp)⟩

theorem inv_lexIdent (h : Live inp l .ident) : Inv inp (lexIdent l).1 (lexIdent l).2 := by
  have h1 : St inp .top (skipWs ((scanIdent l).emit .ident)) := st_skipWs (st_emit (st_scanIdent h.1) rfl)
  have h2 := st_peek h1
  have h3 := st_atEOL h2
  have h4 := st_peek h3
  unfold lexIdent
  simp only []
  split
  · rename_i hc
    exact ⟨h2, hp_of_next (by simpa [L.peek_rune] using hc) (by decide) (by simp)⟩
  · split
    · rename_i hp; exact ⟨h2, hp⟩
    · split
      · exact ⟨h3, rfl⟩
      · split
        · rename_i hc
          exact ⟨h4, hp_of_next (by simpa [L.peek_rune] using hc) (by decide) (by simp)⟩
        · split
          · rename_i hc
            exact ⟨h4, hp_of_next (by simpa [L.peek_rune] using hc) (by decide) (by simp)⟩
          · split
            · rename_i hc
              exact ⟨h4, hp_of_next (by simpa [L.peek_rune] using hc) (by decide) (by simp)⟩
            · exact inv_error h4.loose (Or.inl rfl)

theorem inv_lexArgs (h : Live inp l .args) : Inv inp (lexArgs l).1 (lexArgs l).2 := by
  have h1 : St inp .top (skipWs l) := st_skipWs h.1
  have h2 := st_next h1
  have h3 := st_peek h1
  unfold lexArgs
  simp only []
  split
  · rename_i hc
    exact ⟨h3, hp_of_next (by simpa using hc) (by decide) (by simp)⟩
  · split
    · exact ⟨h2, rfl⟩
    · split
      · exact ⟨h2, rfl⟩
      · split
        · rename_i hc
          exact ⟨h3, hp_of_next (by simpa using hc) (by decide) (by simp)⟩
        · split
          · rename_i hc
            exact ⟨h3, hp_of_next (by simpa using hc) (by decide) (by simp)⟩
          · exact inv_error h2.loose (Or.inl rfl)

theorem inv_lexComma (h : Live inp l .comma) : Inv inp (lexComma l).1 (lexComma l).2 := by
  unfold lexComma
  split
  · rename_i he; rw [not_eof_of_prefix h.2 (by simp [spelling])] at he; cases he
  · have h1 : St inp .top (skipWs ((l.absorb 1).emit .comma)) :=
      st_skipWs (st_emit (st_absorb h.1 h.2 (by decide)) rfl)
    have h2 := st_next h1
    simp only []
    split
    · exact ⟨h2, rfl⟩
    · split
      · exact ⟨h2, rfl⟩
      · split
        · rename_i hc
          exact ⟨st_peek h1, hp_of_next (by simpa using hc) (by decide) (by simp)⟩
        · exact inv_error (loose_backup h2) (Or.inl rfl)

theorem head_of_prefix {c : Nat} {s : List Nat} (hp : l.hasPrefix (c :: s) = true) :
    ∃ r rs, l.right = r :: rs ∧ r.cp = c := by
  have := hasPrefix_take hp
  cases hr : l.right with
  | nil => rw [hr] at this; simp at this
  | cons r rs => rw [hr] at this; simp at this; exact ⟨r, rs, rfl, this.1⟩

theorem skipWs_right_of_prefix {c : Nat} {s : List Nat} (hp : l.hasPrefix (c :: s) = true)
    (hc : isSpaceCp c = false) : (skipWs l).right = l.right := by
  obtain ⟨r, rs, hr, hcp⟩ := head_of_prefix hp
  rw [skipWs_right, hr]
  simp [isSpace, hcp, hc]

theorem inv_lexDeclare (h : Live inp l .declare) : Inv inp (lexDeclare l).1 (lexDeclare l).2 := by
  have h0 : St inp .top (skipWs l) := st_skipWs h.1
  have hr : (skipWs l).right = l.right := skipWs_right_of_prefix h.2 (by decide)
  have hp : (skipWs l).hasPrefix [COLON, EQUALS] = true := by rw [hasPrefix_congr hr]; exact h.2
  unfold lexDeclare
  simp only []
  split
  · rename_i he; rw [not_eof_of_prefix hp (by simp)] at he; cases he
  · have h1 : St inp .top (skipWs (((skipWs l).absorb 2).emit .declare)) :=
      st_skipWs (st_emit (st_absorb h0 hp (by decide)) rfl)
    have h2 := st_next h1
    split
    · exact ⟨h2, rfl⟩
    · split
      · exact ⟨h2, rfl⟩
      · exact inv_error (loose_backup h2) (Or.inl rfl)

theorem inv_lexString (h : Live inp l .string) : Inv inp (lexString l).1 (lexString l).2 := by
  have hs := st_scanString h.1
  unfold lexString
  split
  · rename_i l' he
    exact inv_error (hs.2 l' he) (Or.inl rfl)
  · rename_i l' he
    have h1 : St inp .top (l'.emit .string) := st_emit (hs.1 l' he) rfl
    simp only []
    split
    · exact ⟨h1, rfl⟩
    · split
      · exact ⟨st_atEOL h1, rfl⟩
      · exact ⟨st_atEOL h1, rfl⟩

theorem inv_lexDeclString (h : Live inp l .declString) : Inv inp (lexDeclString l).1 (lexDeclString l).2 := by
  have hs := st_scanString h.1
  unfold lexDeclString
  split
  · rename_i l' he
    exact inv_error (hs.2 l' he) (Or.inl rfl)
  · rename_i l' he
    have h1 : St inp .top (l'.emit .string) := st_emit (hs.1 l' he) rfl
    simp only []
    generalize hm : (if (l'.emit .string).atEOF then l'.emit .string else ((l'.emit .string).atEOL).1) = m
    have h2 : St inp .top m := by subst hm; split; exact h1; exact st_atEOL h1
    have h3 : St inp .top (skipBlanks m).discard := st_discard (st_skipBlanks h2)
    split
    · exact ⟨h3, rfl⟩
    · split
      · exact ⟨st_atEOL h3, rfl⟩
      · exact inv_error (st_atEOL h3).loose (Or.inl rfl)

/-- the command loop: COMMAND tokens only, then `}` is at the cursor, or an ERROR ends the stream -/
theorem inv_lexTaskCommandsF : ∀ (fuel : Nat) (l : L), St inp .body l → (lexTaskCommandsF fuel l).2 ≠ .spin →
    Inv inp (lexTaskCommandsF fuel l).1 (lexTaskCommandsF fuel l).2 := by
  intro fuel
  induction fuel with
  | zero => intro l _ hs; exact absurd rfl hs
  | succ fuel ih =>
    intro l h
    have h1 := st_next h
    have h2 : St inp .body (l.next).1.backup := st_peek h
    unfold lexTaskCommandsF
    simp only []
    split
    · exact ih _ (st_skipWs (st_emit (st_stripCR h2) rfl))
    · split
      · rename_i hp; exact ih _ (st_absorb h1 hp (by decide))
      · split
        · rename_i hp; exact ih _ (st_absorb h1 hp (by decide))
        · split
          · -- closing brace
            rename_i hrb
            intro _
            have hcp : (l.next).2.cp = RBRACE := by simpa using hrb
            obtain ⟨rs, hr⟩ := right_of_next hcp (by decide)
            have hnb : ((l.next).1.backup).right = (l.next).2 :: rs := by rw [L.next_backup_right, hr]
            generalize hm3 : (if (l.next).1.backup.lastIs SP then (l.next).1.backup.stepBack else (l.next).1.backup) = m3
            have h3 : St inp .body m3 := by
              subst hm3; split
              · rename_i hsp; exact st_stepBack h2 hsp (by decide)
              · exact h2
            have hw : ∃ ws : List Rune, (∀ x ∈ ws, isSpace x = true) ∧ m3.right = ws ++ (l.next).2 :: rs := by
              subst hm3; split
              · rename_i hsp
                obtain ⟨x, hx, hxr⟩ := L.stepBack_right_of_lastIs hsp
                exact ⟨[x], by intro y hy; simp at hy; subst hy; exact isSpace_of_cp hx isSpaceCp_SP, by rw [hxr, hnb]; simp⟩
              · exact ⟨[], by simp, by rw [hnb]; simp⟩
            obtain ⟨ws, hws, hw⟩ := hw
            obtain ⟨crs, hcrs, heq⟩ := stripCR_right m3
            have h4 := st_stripCR h3
            generalize hm5 : (if (!(stripCR m3).tokRev.isEmpty) = true then (stripCR m3).emit .command else stripCR m3) = m5
            have h5 : St inp .body m5 := by
              subst hm5; split
              · exact st_emit h4 rfl
              · exact h4
            have hr5 : m5.right = (stripCR m3).right := by subst hm5; split <;> simp
            refine ⟨st_skipWs h5, ?_⟩
            have : (skipWs m5).right = (l.next).2 :: rs := by
              rw [skipWs_right, hr5, heq, hw, ← List.append_assoc]
              rw [dropWhile_append_of_all]
              · have : isSpace (l.next).2 = false := by simp [isSpace, hcp, isSpaceCp_RBRACE]
                simp [this]
              · intro x hx
                simp only [List.mem_append] at hx
                rcases hx with hx | hx
                · exact isSpace_of_cp (hcrs x hx) isSpaceCp_CR
                · exact hws x hx
            simp [spelling, L.hasPrefix, this, hcp]
          · split
            · intro _; exact inv_error h1.loose (Or.inr rfl)
            · split
              · exact ih _ h1
              · intro _; exact inv_error (loose_backup h1) (Or.inr rfl)

theorem inv_lexTaskCommands (h : Live inp l .taskCommands) : Inv inp (lexTaskCommands l).1 (lexTaskCommands l).2 :=
  inv_lexTaskCommandsF _ l h.1 (dec_lexTaskCommands l).1

/-- one step of the `run` loop preserves the invariant -/
theorem inv_stepTag (t : Tag) (h : Inv inp l t) : Inv inp (stepTag l t).1 (stepTag l t).2 := by
  cases t <;> simp only [stepTag]
  · exact inv_lexStart h
  · exact inv_lexHash h
  · exact inv_lexComment h
  · exact inv_lexTaskKeyword h
  · exact inv_lexLeftParen h
  · exact inv_lexRightParen h
  · exact inv_lexOutputOp h
  · exact inv_lexLeftBrace h
  · exact inv_lexRightBrace h
  · exact inv_lexTaskBody h
  · exact inv_lexTaskCommands h
  · exact inv_lexTaskName h
  · exact inv_lexIdent h
  · exact inv_lexArgs h
  · exact inv_lexComma h
  · exact inv_lexDeclare h
  · exact inv_lexString h
  · exact inv_lexDeclString h
  · exact h
  · exact h

theorem inv_runF : ∀ (fuel : Nat) (l : L) (t : Tag), Inv inp l t → (runF fuel l t).2 = .done →
    Str (nLines inp) .top (runF fuel l t).1.toks.toList := by
  intro fuel
  induction fuel with
  | zero =>
    intro l t h hd
    unfold runF at hd ⊢
    by_cases hf : t.final = true
    · simp only [hf, if_true] at hd; subst hd; exact h
    · simp [hf] at hd
  | succ fuel ih =>
    intro l t h hd
    unfold runF at hd ⊢
    by_cases hf : t.final = true
    · simp only [hf, if_true] at hd ⊢; subst hd; exact h
    · simp only [hf] at hd ⊢
      exact ih _ _ (inv_stepTag t h) hd

theorem inv_init (hok : RunesOK inp) : Inv inp (L.init inp) .start := by
  refine ⟨⟨hok, by simp [L.init], by simp [L.init, cntNL], by simp [L.init], by simp [L.init, nLines], ?_⟩, rfl⟩
  intro suf hs
  exact hs

/-- **the token stream of a whole run is an admissible stream** -/
theorem lexRunes_str (rs : List Rune) (hok : RunesOK rs) : Str (nLines rs) .top (lexRunes rs).toks := by
  have hd := runF_done (3 * rs.length + 4) (L.init rs) .start (by simp) (by simp [L.init, rank])
  exact inv_runF _ _ _ (inv_init hok) hd

end Spok
