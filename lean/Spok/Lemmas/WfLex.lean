import Spok.Lemmas.WfPrim
import Spok.Lemmas.WfCmd
/-! # Every state function of the lexer establishes the value-level stream invariant

`LiveV inp l t`: the scanner state `l`, about to run the state function `t`, has its zipper on the
input (`Z`), has emitted tokens that any stream admissible from the mode of `t` completes to an
admissible stream (`TokInvV`), and has in `tokRev` what the previous state function has already read
of the next token (one identifier rune, the opening quote, the first letter of a command).
`livev_stepTag` follows `stepTag` through all eighteen state functions, `lexRunes_strV` is the
result for a whole run: `StrV rs .top (lexRunes rs).toks`. -/
namespace Spok.PW
open Spok

/-- does not begin with the keyword `task` -/
def NoKw (xs : List Rune) : Prop := (xs.take 4).map (·.cp) ≠ [116, 97, 115, 107]

def bodyM : Bool → VM
  | true => .body0
  | false => .body1

/-- the state of the command loop at its head: `s` is what the loop itself has scanned of the current
    command (for the first command of a body, `lexTaskBody` has read a letter before it) -/
def CmdSt (first : Bool) (l : L) : Prop :=
  ∃ s : List Rune, cmdScanF l.right s = true ∧
    (first = true → ∃ a, isLetter a = true ∧ l.tokRev.reverse = a :: s) ∧
    (first = false → l.tokRev.reverse = s ∧ (∀ x rest, s = x :: rest → isSpace x = false) ∧
      (s = [] → ∀ x rest, l.right = x :: rest → isSpace x = false))

def LiveV (inp : List Rune) (l : L) : Tag → Prop
  | .start => Z inp l ∧ ∃ m, (m = .top ∨ (m = .atEnd ∧ l.right = [])) ∧ TokInvV inp m l
  | .hash => Z inp l ∧ TokInvV inp .top l ∧ l.right ≠ []
  | .comment => Z inp l ∧ TokInvV inp .afterHash l ∧ l.tokRev = []
  | .taskKeyword => Z inp l ∧ TokInvV inp .top l ∧ l.right ≠ []
  | .leftParen => Z inp l ∧ TokInvV inp .needLParen l ∧ l.right ≠ []
  | .rightParen => Z inp l ∧ TokInvV inp .needRParen l ∧ l.right ≠ []
  | .outputOp => Z inp l ∧ TokInvV inp .afterRParen l ∧ l.right ≠ []
  | .leftBrace => Z inp l ∧ TokInvV inp .needLBrace l ∧ l.right ≠ []
  | .rightBrace => Z inp l ∧ TokInvV inp .closing l ∧ l.right ≠ []
  | .taskBody => Z inp l ∧ TokInvV inp .body0 l
  | .taskCommands => Z inp l ∧ TokInvV inp .body0 l ∧ CmdSt true l
  | .taskName => Z inp l ∧ TokInvV inp .afterTask l ∧ l.tokRev = []
  | .ident => Z inp l ∧ (∃ r, l.tokRev = [r] ∧ isIdent r = true) ∧
      (TokInvV inp .needIdent l ∨ (TokInvV inp .needIdentS l ∧ NoKw (l.tokRev.reverse ++ l.right)))
  | .args => Z inp l ∧ TokInvV inp .args l
  | .comma => Z inp l ∧ TokInvV inp .needComma l ∧ l.right ≠ []
  | .declare => Z inp l ∧ TokInvV inp .afterIdent l ∧ ∃ r rs, l.right = r :: rs ∧ isSpace r = false
  | .string => Z inp l ∧ TokInvV inp .needString l ∧ ∃ q, l.tokRev = [q] ∧ q.cp = QUOTE
  | .declString => Z inp l ∧ TokInvV inp .afterDeclare l ∧ ∃ q, l.tokRev = [q] ∧ q.cp = QUOTE
  | .done => StrV inp .top l.toks.toList
  | .spin => False

variable {inp : List Rune} {l : L}

/-! ## small facts -/

theorem atEOF_false (h : l.right ≠ []) : l.atEOF = false := by
  cases hr : l.right with
  | nil => exact absurd hr h
  | cons r rs => simp [L.atEOF, hr]

theorem right_ne_nil_of_prefix {c : Nat} {s : List Nat} (hp : l.hasPrefix (c :: s) = true) : l.right ≠ [] := by
  intro hr; simp [L.hasPrefix, hr] at hp

theorem right_ne_nil_of_next_cp {c : Nat} (hc : ((l.next).2.cp == c) = true) (hne : c ≠ 65533) : l.right ≠ [] := by
  obtain ⟨rs, h⟩ := right_of_next_cp (by simpa using hc) hne
  rw [h]; simp

theorem right_ne_nil_of_peek_cp {c : Nat} (hc : ((l.peek).2.cp == c) = true) (hne : c ≠ 65533) : l.right ≠ [] := by
  rw [L.peek_rune] at hc; exact right_ne_nil_of_next_cp hc hne

/-- the rune `next` has just read is the whole pending token when nothing was pending -/
theorem tokRev_next (ht : l.tokRev = []) {rs : List Rune} (hr : l.right = (l.next).2 :: rs) : (l.next).1.tokRev = [(l.next).2] := by
  obtain ⟨_, _, h3, _⟩ := next_cons hr
  rw [h3, ht]

theorem mem_takeWhile {α} (p : α → Bool) : ∀ (xs : List α) (x : α), x ∈ xs.takeWhile p → p x = true := by
  intro xs
  induction xs with
  | nil => intro x h; simp at h
  | cons a xs ih =>
    intro x h
    simp only [List.takeWhile_cons] at h
    split at h
    · simp only [List.mem_cons] at h
      rcases h with rfl | h
      · assumption
      · exact ih x h
    · simp at h

/-- an identifier scanned from `r :: rest` where `r :: rest` does not begin with the keyword -/
theorem kwPrefix_scanned {r : Rune} {rest : List Rune} (h : NoKw (r :: rest)) :
    kwPrefix (r :: rest.takeWhile isIdent) = false := by
  cases hk : kwPrefix (r :: rest.takeWhile isIdent) with
  | false => rfl
  | true =>
    exfalso; apply h
    have hk' : ((r :: rest.takeWhile isIdent).take 4).map (·.cp) = [116, 97, 115, 107] := by simpa [kwPrefix] using hk
    have hlen : 4 ≤ (r :: rest.takeWhile isIdent).length := by
      have := congrArg List.length hk'
      simp only [List.length_map, List.length_take, List.length_cons, List.length_nil] at this
      simp only [List.length_cons]; omega
    have : r :: rest = (r :: rest.takeWhile isIdent) ++ rest.dropWhile isIdent := by
      simp [List.takeWhile_append_dropWhile]
    rw [this, List.take_append_of_le_length hlen]
    exact hk'

theorem strOKB_of {s : List Rune} (h1 : ∀ x ∈ s, x.cp ≠ QUOTE) (h2 : ∀ x ∈ s.tail, x.cp ≠ NL) : strOKB s = true := by
  simp only [strOKB, Bool.and_eq_true, List.all_eq_true]
  exact ⟨fun x hx => by simpa using h1 x hx, fun x hx => by simpa using h2 x hx⟩

theorem isLetter_not_strip {a : Rune} (h : isLetter a = true) : a.cp ≠ CR ∧ a.cp ≠ SP := by
  constructor <;> intro hc <;> rw [isLetter, hc] at h <;> revert h <;> decide

theorem isSpace_of_strip {x : Rune} (h : x.cp = CR ∨ x.cp = SP) : isSpace x = true := by
  rcases h with h | h
  · exact isSpace_of_cp h isSpaceCp_CR
  · exact isSpace_of_cp h isSpaceCp_SP

theorem endsWithCp_reverse {tr : List Rune} {c : Nat} (h : ∀ x ts, tr = x :: ts → x.cp ≠ c) : endsWithCp tr.reverse c = false := by
  unfold endsWithCp
  rw [List.getLast?_reverse]
  cases tr with
  | nil => rfl
  | cons x ts => simpa using h x ts rfl

theorem tokOK_command (inp : List Rune) (m : VM) (v : List Rune) : tokOK inp m .command v =
    ((m = .body0 → firstCmdOKB v = true) ∧ (m ≠ .body0 → nextCmdOKB v = true) ∧ SlA inp v) := rfl
theorem tokOK_ident (inp : List Rune) (m : VM) (v : List Rune) : tokOK inp m .ident v =
    (identRunesB v = true ∧ (m ≠ .afterTask → v ≠ []) ∧
      ((m = .top ∨ m = .afterRParen ∨ m = .needIdentS) → kwPrefix v = false) ∧ Sl inp v) := rfl
theorem tokOK_comment (inp : List Rune) (m : VM) (v : List Rune) : tokOK inp m .comment v =
    (commentOKB v = true ∧ SlA inp v) := rfl
theorem tokOK_string (inp : List Rune) (m : VM) (v : List Rune) : tokOK inp m .string v = StrTokOK inp v := rfl

theorem next_snd_of_right {l l' : L} (h : l'.right = l.right) : (l'.next).2 = (l.next).2 := by
  unfold L.next; rw [h]; cases l.right <;> rfl

/-- the text of a COMMAND token: what the loop scanned (`tr`, ending in what it strips again, `z`) -/
theorem cmd_tokOK {first : Bool} {tr val z s R : List Rune} (hscan : cmdScanF R s = true) (hsplit : tr = val ++ z)
    (hz : ∀ x ∈ z, x.cp = CR ∨ x.cp = SP) (hend : endsWithCp val CR = false) (hsl : SlA inp val)
    (hfirst : first = true → ∃ a, isLetter a = true ∧ tr = a :: s)
    (hnext : first = false → tr = s ∧ (∀ x rest, s = x :: rest → isSpace x = false))
    (hne : first = false → val ≠ []) : tokOK inp (bodyM first) .command val := by
  cases first with
  | true =>
    obtain ⟨a, ha, htr⟩ := hfirst rfl
    rw [hsplit] at htr
    cases val with
    | nil =>
      exfalso
      simp only [List.nil_append] at htr
      have := hz a (by rw [htr]; simp)
      have := isLetter_not_strip ha
      omega
    | cons v vs =>
      simp only [List.cons_append, List.cons.injEq] at htr
      obtain ⟨rfl, hs⟩ := htr
      rw [← hs] at hscan
      have hok := cmdScanOK_of_scan hscan hz
      rw [tokOK_command]
      refine ⟨fun _ => ?_, fun h => absurd rfl h, hsl⟩
      simp [firstCmdOKB, ha, hok, hend]
  | false =>
    obtain ⟨htr, hsp⟩ := hnext rfl
    have hv := hne rfl
    cases val with
    | nil => exact absurd rfl hv
    | cons v vs =>
      rw [hsplit] at htr
      rw [← htr] at hscan
      have hok := cmdScanOK_of_scan hscan hz
      have hv : isSpace v = false := hsp v (vs ++ z) (by rw [← htr]; rfl)
      rw [tokOK_command]
      refine ⟨fun h => (by cases h), fun _ => ?_, hsl⟩
      simp [nextCmdOKB, hv, hok, hend]

/-! ## the state functions -/

def InvV (inp : List Rune) (p : L × Tag) : Prop := LiveV inp p.1 p.2

theorem livev_lexStart (h : LiveV inp l .start) : InvV inp (lexStart l) := by
  obtain ⟨hz, m, hm, ht⟩ := h
  have hz1 : Z inp (skipWs l) := hz.skipWs
  have ht1 : TokInvV inp m (skipWs l) := ht.congr (skipWs_toks l)
  have hr1 : (skipWs l).right = [] ∨ m = .top := by
    rcases hm with rfl | ⟨_, hr⟩
    · exact Or.inr rfl
    · left; rw [skipWs_right, hr]; rfl
  have hm1 : m ≠ .afterHash ∧ m ≠ .afterTask ∧ eofOK m = true := by
    rcases hm with rfl | ⟨rfl, _⟩ <;> exact ⟨by decide, by decide, rfl⟩
  unfold lexStart
  simp only []
  split
  · rename_i hp
    have hne := right_ne_nil_of_prefix hp
    rcases hr1 with h | rfl
    · exact absurd h hne
    · exact ⟨hz1, ht1, hne⟩
  · split
    · rename_i hp
      have hne := right_ne_nil_of_prefix hp
      rcases hr1 with h | rfl
      · exact absurd h hne
      · exact ⟨hz1, ht1, hne⟩
    · rename_i hk
      split
      · rename_i hi
        rw [L.peek_rune] at hi
        have hpr : (skipWs l).peek.1.right = (skipWs l).right := L.peek_right _
        -- the rune read by `next` after the `peek` is the one peeked
        have hn2 : ((skipWs l).peek.1.next).2 = ((skipWs l).next).2 := next_snd_of_right hpr
        obtain ⟨rs, hrs⟩ := right_of_next_ident hi
        have hrs' : (skipWs l).peek.1.right = ((skipWs l).peek.1.next).2 :: rs := by rw [hpr, hn2]; exact hrs
        have htr : ((skipWs l).peek.1.next).1.tokRev = [((skipWs l).peek.1.next).2] :=
          tokRev_next (by simp [skipWs_tokRev]) hrs'
        obtain ⟨_, n2, _, _⟩ := next_cons hrs'
        rcases hr1 with h | rfl
        · rw [h] at hrs; cases hrs
        · refine ⟨hz1.peek.next, ⟨_, htr, by rw [hn2]; exact hi⟩, Or.inr ⟨?_, ?_⟩⟩
          · exact (ht1.sub sub_needIdentS_top).congr (by simp)
          · rw [htr, n2]
            simp only [List.reverse_cons, List.reverse_nil, List.nil_append, List.singleton_append]
            rw [← hrs', hpr]
            intro hc
            apply hk
            simp [L.hasPrefix, hc]
      · split
        · exact (ht1.congr (l' := (skipWs l).peek.1) (by simp)).eof hm1.2.2
        · exact (ht1.congr (l' := (skipWs l).peek.1) (by simp)).error hm1.1 hm1.2.1

theorem livev_lexHash (h : LiveV inp l .hash) : InvV inp (lexHash l) := by
  obtain ⟨hz, ht, hne⟩ := h
  unfold lexHash
  rw [atEOF_false hne]
  exact ⟨(hz.absorb 1).emit _, (ht.congr (l' := l.absorb 1) rfl).emit (ty := .hash) rfl trivial, rfl⟩

theorem livev_lexComment (h : LiveV inp l .comment) : InvV inp (lexComment l) := by
  obtain ⟨hz, ht, htr⟩ := h
  obtain ⟨s, e1, e2, e3, e4, e5⟩ := scanComment_spec hz
  refine ⟨e5.emit _, .top, Or.inl rfl, (ht.congr e3).emit (ty := .comment) rfl ?_⟩
  rw [tokOK_comment]
  refine ⟨?_, e5.sla e4⟩
  rw [e1, htr]
  simp only [List.append_nil, List.reverse_reverse, commentOKB, List.all_eq_true]
  intro x hx; simpa using e2 x hx

theorem livev_lexTaskKeyword (h : LiveV inp l .taskKeyword) : InvV inp (lexTaskKeyword l) := by
  obtain ⟨hz, ht, hne⟩ := h
  unfold lexTaskKeyword
  rw [atEOF_false hne]
  refine ⟨((hz.absorb 4).emit _).skipWs, ?_, skipWs_tokRev _⟩
  exact ((ht.congr (l' := l.absorb 4) rfl).emit (ty := .task) rfl trivial).congr (skipWs_toks _)

theorem livev_lexLeftParen (h : LiveV inp l .leftParen) : InvV inp (lexLeftParen l) := by
  obtain ⟨hz, ht, hne⟩ := h
  unfold lexLeftParen
  rw [atEOF_false hne]
  exact ⟨((hz.absorb 1).emit _).skipWs, ((ht.congr (l' := l.absorb 1) rfl).emit (ty := .lparen) rfl trivial).congr (skipWs_toks _)⟩

theorem livev_lexLeftBrace (h : LiveV inp l .leftBrace) : InvV inp (lexLeftBrace l) := by
  obtain ⟨hz, ht, hne⟩ := h
  unfold lexLeftBrace
  rw [atEOF_false hne]
  exact ⟨((hz.absorb 1).emit _).skipWs, ((ht.congr (l' := l.absorb 1) rfl).emit (ty := .lbrace) rfl trivial).congr (skipWs_toks _)⟩

theorem livev_lexRightBrace (h : LiveV inp l .rightBrace) : InvV inp (lexRightBrace l) := by
  obtain ⟨hz, ht, hne⟩ := h
  unfold lexRightBrace
  rw [atEOF_false hne]
  exact ⟨(hz.absorb 1).emit _, .top, Or.inl rfl, (ht.congr (l' := l.absorb 1) rfl).emit (ty := .rbrace) rfl trivial⟩

theorem livev_lexRightParen (h : LiveV inp l .rightParen) : InvV inp (lexRightParen l) := by
  obtain ⟨hz, ht, hne⟩ := h
  unfold lexRightParen
  rw [atEOF_false hne]
  have hz1 : Z inp (skipWs ((l.absorb 1).emit .rparen)) := ((hz.absorb 1).emit _).skipWs
  have ht1 : TokInvV inp .afterRParen (skipWs ((l.absorb 1).emit .rparen)) :=
    ((ht.congr (l' := l.absorb 1) rfl).emit (ty := .rparen) rfl trivial).congr (skipWs_toks _)
  generalize skipWs ((l.absorb 1).emit .rparen) = l1 at hz1 ht1
  have ht2 : TokInvV inp .afterRParen l1.peek.1 := ht1.congr (by simp)
  have ht3 : TokInvV inp .afterRParen (l1.peek.1.atEOL).1 := ht2.congr (by simp)
  simp only [Bool.false_eq_true, if_false]
  split
  · rename_i hc
    exact ⟨hz1.peek, ht2.sub sub_needLBrace_afterRParen, by rw [L.peek_right]; exact right_ne_nil_of_peek_cp hc (by decide)⟩
  · split
    · rename_i hp
      exact ⟨hz1.peek, ht2, right_ne_nil_of_prefix hp⟩
    · split
      · exact ⟨hz1.peek.atEOL, .top, Or.inl rfl, ht3.sub sub_top_afterRParen⟩
      · split
        · rename_i hc
          refine ⟨hz1.peek.atEOL, ht3.sub sub_top_afterRParen, ?_⟩
          rw [L.atEOL_right, L.peek_right]; exact right_ne_nil_of_peek_cp hc (by decide)
        · exact ht3.error (by decide) (by decide)

theorem livev_lexOutputOp (h : LiveV inp l .outputOp) : InvV inp (lexOutputOp l) := by
  obtain ⟨hz, ht, hne⟩ := h
  unfold lexOutputOp
  rw [atEOF_false hne]
  have hz1 : Z inp (skipWs ((l.absorb 2).emit .output)) := ((hz.absorb 2).emit _).skipWs
  have ht1 : TokInvV inp .afterOutput (skipWs ((l.absorb 2).emit .output)) :=
    ((ht.congr (l' := l.absorb 2) rfl).emit (ty := .output) rfl trivial).congr (skipWs_toks _)
  have htr1 : (skipWs ((l.absorb 2).emit .output)).tokRev = [] := skipWs_tokRev _
  generalize skipWs ((l.absorb 2).emit .output) = l1 at hz1 ht1 htr1
  have ht2 : TokInvV inp .afterOutput (l1.next).1 := ht1.congr (by simp)
  have ht3 : TokInvV inp .afterOutput (l1.next).1.backup := ht1.congr (by simp)
  simp only [Bool.false_eq_true, if_false]
  split
  · rename_i hc
    obtain ⟨rs, hrs⟩ := right_of_next_cp (l := l1) (by simpa using hc) (by decide)
    exact ⟨hz1.next, ht2.sub sub_needString_afterOutput, _, tokRev_next htr1 hrs, by simpa using hc⟩
  · split
    · rename_i hc
      exact ⟨hz1.nb, ht3.sub sub_needLParen_afterOutput, by rw [L.next_backup_right]; exact right_ne_nil_of_next_cp hc (by decide)⟩
    · split
      · rename_i hi
        obtain ⟨rs, hrs⟩ := right_of_next_ident hi
        exact ⟨hz1.next, ⟨_, tokRev_next htr1 hrs, hi⟩, Or.inl (ht2.sub sub_needIdent_afterOutput)⟩
      · split
        · exact ht3.error (by decide) (by decide)
        · split
          · exact ht2.error (by decide) (by decide)
          · exact ht3.error (by decide) (by decide)

theorem livev_lexTaskBody (h : LiveV inp l .taskBody) : InvV inp (lexTaskBody l) := by
  obtain ⟨hz, ht⟩ := h
  unfold lexTaskBody
  split
  · exact ht.error (by decide) (by decide)
  · have hz1 : Z inp (skipWs l) := hz.skipWs
    have ht1 : TokInvV inp .body0 (skipWs l) := ht.congr (skipWs_toks _)
    have htr1 : (skipWs l).tokRev = [] := skipWs_tokRev _
    generalize skipWs l = l1 at hz1 ht1 htr1
    have ht2 : TokInvV inp .body0 (l1.next).1 := ht1.congr (by simp)
    have ht3 : TokInvV inp .body0 (l1.next).1.backup := ht1.congr (by simp)
    simp only []
    split
    · rename_i hc
      exact ⟨hz1.nb, ht3.sub sub_closing_body0, by rw [L.next_backup_right]; exact right_ne_nil_of_next_cp hc (by decide)⟩
    · split
      · rename_i hi
        obtain ⟨rs, hrs⟩ := right_of_next_letter hi
        refine ⟨hz1.next, ht2, [], cmdScanF_nil _, fun _ => ⟨_, hi, ?_⟩, fun h => by cases h⟩
        rw [tokRev_next htr1 hrs]; rfl
      · exact ht2.error (by decide) (by decide)

theorem identRunesB_takeWhile (xs : List Rune) : identRunesB (xs.takeWhile isIdent) = true := by
  simp only [identRunesB, List.all_eq_true]
  exact mem_takeWhile _ _

theorem livev_lexTaskName (h : LiveV inp l .taskName) : InvV inp (lexTaskName l) := by
  obtain ⟨hz, ht, htr⟩ := h
  obtain ⟨e1, e2⟩ := scanIdent_spec l
  have hz0 : Z inp (scanIdent l) := hz.scanIdent
  have hok : tokOK inp .afterTask .ident (scanIdent l).tokRev.reverse := by
    rw [tokOK_ident]
    refine ⟨?_, fun h => absurd rfl h, fun h => (by rcases h with h | h | h <;> cases h), hz0.sl⟩
    rw [e1, htr]; simp only [List.append_nil, List.reverse_reverse]
    exact identRunesB_takeWhile _
  have hz1 : Z inp (skipWs ((scanIdent l).emit .ident)) := (hz0.emit _).skipWs
  have ht1 : TokInvV inp .needLParen (skipWs ((scanIdent l).emit .ident)) :=
    ((ht.congr e2).emit (ty := .ident) rfl hok).congr (skipWs_toks _)
  unfold lexTaskName
  simp only []
  generalize skipWs ((scanIdent l).emit .ident) = l1 at hz1 ht1
  have ht2 : TokInvV inp .needLParen l1.peek.1 := ht1.congr (by simp)
  split
  · exact ht2.error (by decide) (by decide)
  · rename_i hc
    have hc : (l1.peek.2.cp == LPAREN) = true := by simpa using hc
    exact ⟨hz1.peek, ht2, by rw [L.peek_right]; exact right_ne_nil_of_peek_cp hc (by decide)⟩

theorem livev_lexIdent (h : LiveV inp l .ident) : InvV inp (lexIdent l) := by
  obtain ⟨hz, ⟨r, htr, hir⟩, ht⟩ := h
  obtain ⟨e1, e2⟩ := scanIdent_spec l
  have hz0 : Z inp (scanIdent l) := hz.scanIdent
  have hval : (scanIdent l).tokRev.reverse = r :: l.right.takeWhile isIdent := by
    rw [e1, htr]; simp
  have hid : identRunesB (r :: l.right.takeWhile isIdent) = true := by
    have := identRunesB_takeWhile l.right
    simp only [identRunesB, List.all_cons, Bool.and_eq_true] at this ⊢
    exact ⟨hir, this⟩
  have ht0 : TokInvV inp .afterIdent ((scanIdent l).emit .ident) := by
    rcases ht with ht | ⟨ht, hk⟩
    · refine (ht.congr e2).emit (ty := .ident) rfl ?_
      rw [hval, tokOK_ident]
      exact ⟨hid, fun _ => by simp, fun h => (by rcases h with h | h | h <;> cases h), by rw [← hval]; exact hz0.sl⟩
    · refine (ht.congr e2).emit (ty := .ident) rfl ?_
      rw [hval, tokOK_ident]
      refine ⟨hid, fun _ => by simp, fun _ => ?_, by rw [← hval]; exact hz0.sl⟩
      apply kwPrefix_scanned
      rw [htr] at hk; simpa using hk
  have hz1 : Z inp (skipWs ((scanIdent l).emit .ident)) := (hz0.emit _).skipWs
  have ht1 : TokInvV inp .afterIdent (skipWs ((scanIdent l).emit .ident)) := ht0.congr (skipWs_toks _)
  have hh1 := skipWs_head ((scanIdent l).emit .ident)
  unfold lexIdent
  simp only []
  generalize skipWs ((scanIdent l).emit .ident) = l1 at hz1 ht1 hh1
  have ht2 : TokInvV inp .afterIdent l1.peek.1 := ht1.congr (by simp)
  have ht3 : TokInvV inp .afterIdent (l1.peek.1.atEOL).1 := ht2.congr (by simp)
  have ht4 : TokInvV inp .afterIdent ((l1.peek.1.atEOL).1.peek).1 := ht3.congr (by simp)
  have hr4 : ((l1.peek.1.atEOL).1.peek).1.right = (l1.peek.1.atEOL).1.right := L.peek_right _
  split
  · rename_i hc
    exact ⟨hz1.peek, ht2.sub sub_needLParen_afterIdent, by rw [L.peek_right]; exact right_ne_nil_of_peek_cp hc (by decide)⟩
  · split
    · rename_i hp
      refine ⟨hz1.peek, ht2, ?_⟩
      have hne := right_ne_nil_of_prefix hp
      cases hr : l1.peek.1.right with
      | nil => exact absurd hr hne
      | cons x xs => exact ⟨x, xs, rfl, hh1 x xs (by rw [← hr]; simp)⟩
    · have heol : (l1.peek.1.atEOL).2 = false := by
        apply atEOL_false_of_nonspace
        intro x xs hx
        exact hh1 x xs (by rw [← hx]; simp)
      split
      · rename_i he
        rw [heol] at he
        simp only [Bool.false_or, L.atEOF_iff] at he
        exact ⟨hz1.peek.atEOL, .atEnd, Or.inr ⟨rfl, he⟩, ht3.sub sub_atEnd_afterIdent⟩
      · split
        · rename_i hc
          exact ⟨hz1.peek.atEOL.peek, ht4.sub sub_needRParen_afterIdent,
            by rw [hr4]; exact right_ne_nil_of_peek_cp hc (by decide)⟩
        · split
          · rename_i hc
            exact ⟨hz1.peek.atEOL.peek, ht4.sub sub_needComma_afterIdent,
              by rw [hr4]; exact right_ne_nil_of_peek_cp hc (by decide)⟩
          · split
            · rename_i hc
              exact ⟨hz1.peek.atEOL.peek, ht4.sub sub_needLBrace_afterIdent,
                by rw [hr4]; exact right_ne_nil_of_peek_cp hc (by decide)⟩
            · exact ht4.error (by decide) (by decide)

theorem livev_lexArgs (h : LiveV inp l .args) : InvV inp (lexArgs l) := by
  obtain ⟨hz, ht⟩ := h
  have hz1 : Z inp (skipWs l) := hz.skipWs
  have ht1 : TokInvV inp .args (skipWs l) := ht.congr (skipWs_toks _)
  have htr1 : (skipWs l).tokRev = [] := skipWs_tokRev _
  unfold lexArgs
  simp only []
  generalize skipWs l = l1 at hz1 ht1 htr1
  have ht2 : TokInvV inp .args (l1.next).1 := ht1.congr (by simp)
  have ht3 : TokInvV inp .args (l1.next).1.backup := ht1.congr (by simp)
  split
  · rename_i hc
    exact ⟨hz1.nb, ht3.sub sub_needRParen_args, by rw [L.next_backup_right]; exact right_ne_nil_of_next_cp hc (by decide)⟩
  · split
    · rename_i hc
      obtain ⟨rs, hrs⟩ := right_of_next_cp (l := l1) (by simpa using hc) (by decide)
      exact ⟨hz1.next, ht2.sub sub_needString_args, _, tokRev_next htr1 hrs, by simpa using hc⟩
    · split
      · rename_i hi
        obtain ⟨rs, hrs⟩ := right_of_next_ident hi
        exact ⟨hz1.next, ⟨_, tokRev_next htr1 hrs, hi⟩, Or.inl (ht2.sub sub_needIdent_args)⟩
      · split
        · rename_i hc
          exact ⟨hz1.nb, ht3.sub sub_needComma_args, by rw [L.next_backup_right]; exact right_ne_nil_of_next_cp hc (by decide)⟩
        · split
          · rename_i hc
            exact ⟨hz1.nb, ht3.sub sub_needLBrace_args, by rw [L.next_backup_right]; exact right_ne_nil_of_next_cp hc (by decide)⟩
          · exact ht2.error (by decide) (by decide)

theorem livev_lexComma (h : LiveV inp l .comma) : InvV inp (lexComma l) := by
  obtain ⟨hz, ht, hne⟩ := h
  unfold lexComma
  rw [atEOF_false hne]
  have hz1 : Z inp (skipWs ((l.absorb 1).emit .comma)) := ((hz.absorb 1).emit _).skipWs
  have ht1 : TokInvV inp .afterComma (skipWs ((l.absorb 1).emit .comma)) :=
    ((ht.congr (l' := l.absorb 1) rfl).emit (ty := .comma) rfl trivial).congr (skipWs_toks _)
  have htr1 : (skipWs ((l.absorb 1).emit .comma)).tokRev = [] := skipWs_tokRev _
  generalize skipWs ((l.absorb 1).emit .comma) = l1 at hz1 ht1 htr1
  have ht2 : TokInvV inp .afterComma (l1.next).1 := ht1.congr (by simp)
  have ht3 : TokInvV inp .afterComma (l1.next).1.backup := ht1.congr (by simp)
  simp only [Bool.false_eq_true, if_false]
  split
  · rename_i hc
    obtain ⟨rs, hrs⟩ := right_of_next_cp (l := l1) (by simpa using hc) (by decide)
    exact ⟨hz1.next, ht2.sub sub_needString_afterComma, _, tokRev_next htr1 hrs, by simpa using hc⟩
  · split
    · rename_i hi
      obtain ⟨rs, hrs⟩ := right_of_next_ident hi
      exact ⟨hz1.next, ⟨_, tokRev_next htr1 hrs, hi⟩, Or.inl (ht2.sub sub_needIdent_afterComma)⟩
    · split
      · rename_i hc
        exact ⟨hz1.nb, ht3.sub sub_needRParen_afterComma, by rw [L.next_backup_right]; exact right_ne_nil_of_next_cp hc (by decide)⟩
      · exact ht3.error (by decide) (by decide)

theorem livev_lexDeclare (h : LiveV inp l .declare) : InvV inp (lexDeclare l) := by
  obtain ⟨hz, ht, r, rs, hr, hsp⟩ := h
  have hr0 : (skipWs l).right = r :: rs := by rw [skipWs_right, hr]; simp [hsp]
  have hz0 : Z inp (skipWs l) := hz.skipWs
  have ht0 : TokInvV inp .afterIdent (skipWs l) := ht.congr (skipWs_toks _)
  unfold lexDeclare
  simp only []
  rw [atEOF_false (by rw [hr0]; simp)]
  generalize skipWs l = l0 at hz0 ht0
  have hz1 : Z inp (skipWs ((l0.absorb 2).emit .declare)) := ((hz0.absorb 2).emit _).skipWs
  have ht1 : TokInvV inp .afterDeclare (skipWs ((l0.absorb 2).emit .declare)) :=
    ((ht0.congr (l' := l0.absorb 2) rfl).emit (ty := .declare) rfl trivial).congr (skipWs_toks _)
  have htr1 : (skipWs ((l0.absorb 2).emit .declare)).tokRev = [] := skipWs_tokRev _
  generalize skipWs ((l0.absorb 2).emit .declare) = l1 at hz1 ht1 htr1
  have ht2 : TokInvV inp .afterDeclare (l1.next).1 := ht1.congr (by simp)
  have ht3 : TokInvV inp .afterDeclare (l1.next).1.backup := ht1.congr (by simp)
  simp only [Bool.false_eq_true, if_false]
  split
  · rename_i hc
    obtain ⟨rs, hrs⟩ := right_of_next_cp (l := l1) (by simpa using hc) (by decide)
    exact ⟨hz1.next, ht2, _, tokRev_next htr1 hrs, by simpa using hc⟩
  · split
    · rename_i hi
      obtain ⟨rs, hrs⟩ := right_of_next_ident hi
      exact ⟨hz1.next, ⟨_, tokRev_next htr1 hrs, hi⟩, Or.inl (ht2.sub sub_needIdent_afterDeclare)⟩
    · exact ht3.error (by decide) (by decide)

theorem scanString_err_toks : ∀ (l l' : L), scanString l = .error l' → l'.toks = l.toks := by
  intro l
  induction hn : l.right.length using Nat.strongRecOn generalizing l with
  | _ n ih =>
    subst hn
    intro l' hs
    unfold scanString at hs
    split at hs
    · cases hs; simp
    · rename_i r rs hr
      simp only [] at hs
      split at hs
      · cases hs
      · split at hs
        · cases hs; simp
        · split at hs
          · cases hs; simp
          · have hr1 : ((l.next).1.atEOL).1.right = rs := by rw [L.atEOL_right]; exact (next_cons hr).2.1
            rw [ih _ (by rw [hr1, hr]; simp) _ rfl l' hs]; simp

/-- the text of a STRING token -/
theorem string_tokOK {l' : L} {m : VM} (hz : Z inp l') {s : List Rune} {q q2 : Rune} (htr : l'.tokRev = q2 :: (s.reverse ++ [q]))
    (hq : q.cp = QUOTE) (hq2 : q2.cp = QUOTE) (h1 : ∀ x ∈ s, x.cp ≠ QUOTE) (h2 : ∀ x ∈ s.tail, x.cp ≠ NL) :
    tokOK inp m .string l'.tokRev.reverse := by
  rw [tokOK_string]
  refine ⟨q, s, q2, ?_, hq, hq2, strOKB_of h1 h2, hz.sl⟩
  rw [htr]; simp

theorem livev_lexString (h : LiveV inp l .string) : InvV inp (lexString l) := by
  obtain ⟨hz, ht, q, htr, hq⟩ := h
  unfold lexString
  split
  · rename_i l' he
    exact (ht.congr (scanString_err_toks l l' he)).error (by decide) (by decide)
  · rename_i l' he
    obtain ⟨s, q2, e1, e2, e3, e4, _, e6, e7⟩ := scanString_spec hz l' he
    have ht1 : TokInvV inp .afterString (l'.emit .string) :=
      (ht.congr e6).emit (ty := .string) rfl (string_tokOK e7 (by rw [e1, htr]) hq e2 e3 e4)
    have hz1 : Z inp (l'.emit .string) := e7.emit _
    have ht2 : TokInvV inp .afterString ((l'.emit .string).atEOL).1 := ht1.congr (by simp)
    simp only []
    split
    · exact ⟨hz1, .top, Or.inl rfl, ht1.sub sub_top_afterString⟩
    · split
      · exact ⟨hz1.atEOL, .top, Or.inl rfl, ht2.sub sub_top_afterString⟩
      · exact ⟨hz1.atEOL, ht2.sub sub_args_afterString⟩

theorem livev_lexDeclString (h : LiveV inp l .declString) : InvV inp (lexDeclString l) := by
  obtain ⟨hz, ht, q, htr, hq⟩ := h
  unfold lexDeclString
  split
  · rename_i l' he
    exact (ht.congr (scanString_err_toks l l' he)).error (by decide) (by decide)
  · rename_i l' he
    obtain ⟨s, q2, e1, e2, e3, e4, _, e6, e7⟩ := scanString_spec hz l' he
    have ht1 : TokInvV inp .top (l'.emit .string) :=
      (ht.congr e6).emit (ty := .string) rfl (string_tokOK e7 (by rw [e1, htr]) hq e2 e3 e4)
    have hz1 : Z inp (l'.emit .string) := e7.emit _
    simp only []
    generalize hm : (if (l'.emit .string).atEOF then l'.emit .string else ((l'.emit .string).atEOL).1) = m
    have hz2 : Z inp m := by subst hm; split; exact hz1; exact hz1.atEOL
    have ht2 : TokInvV inp .top m := by
      subst hm; split; exact ht1; exact ht1.congr (by simp)
    have hz3 : Z inp (skipBlanks m).discard := hz2.skipBlanks.discard
    have ht3 : TokInvV inp .top (skipBlanks m).discard := ht2.congr (by simp [skipBlanks_toks])
    split
    · exact ⟨hz3, .top, Or.inl rfl, ht3⟩
    · split
      · exact ⟨hz3.atEOL, .top, Or.inl rfl, ht3.congr (by simp)⟩
      · exact (ht3.congr (l' := ((skipBlanks m).discard.atEOL).1) (by simp)).error (by decide) (by decide)

end Spok.PW
