import Spok.Lemmas.JsonUtf8
import Spok.Lemmas.JsonTake
/-! # Reading back what `Dump` wrote, part 2: `unquote (encStr s) = sanitize s` -/
namespace Spok.Json
open Spok

theorem cons?_some (h t : Bytes) : cons? h (some t) = some (h ++ t) := rfl

theorem unq_nil : unqRunes [] = some [] := by rw [unqRunes.eq_def]

theorem unq_plain (b : UInt8) (h1 : 32 ≤ b.toNat) (h2 : b.toNat < 128) (h3 : b.toNat ≠ 34) (h4 : b.toNat ≠ 92)
    (rest : List Rune) : unqRunes (ascR b :: rest) = cons? [b] (unqRunes rest) := by
  rw [unqRunes.eq_def]
  have h5 : ¬ b.toNat < 32 := by omega
  simp [ascR, h2, h3, h4, h5]

theorem unq_high (r : Rune) (h : 128 ≤ r.b0.toNat) (rest : List Rune) :
    unqRunes (r :: rest) = cons? (utf8enc r.cp) (unqRunes rest) := by
  rw [unqRunes.eq_def]
  have h1 : r.b0.toNat ≠ 92 := by omega
  have h2 : r.b0.toNat ≠ 34 := by omega
  have h3 : ¬ r.b0.toNat < 32 := by omega
  have h4 : ¬ r.b0.toNat < 128 := by omega
  simp [h1, h2, h3, h4]

/-- `\"` and `\\` -/
theorem unq_esc_self (e : UInt8) (he : e.toNat = 34 ∨ e.toNat = 92) (rest : List Rune) :
    unqRunes (ascR 92 :: ascR e :: rest) = cons? [e] (unqRunes rest) := by
  rw [unqRunes.eq_def]
  rcases he with h | h <;> simp [ascR, h]

/-- `\b \f \n \r \t` -/
theorem unq_esc_named (e v : UInt8)
    (h : (e.toNat = 98 ∧ v = 8) ∨ (e.toNat = 102 ∧ v = 12) ∨ (e.toNat = 110 ∧ v = 10) ∨ (e.toNat = 114 ∧ v = 13) ∨ (e.toNat = 116 ∧ v = 9))
    (rest : List Rune) : unqRunes (ascR 92 :: ascR e :: rest) = cons? [v] (unqRunes rest) := by
  rw [unqRunes.eq_def]
  rcases h with ⟨h, rfl⟩ | ⟨h, rfl⟩ | ⟨h, rfl⟩ | ⟨h, rfl⟩ | ⟨h, rfl⟩ <;> simp [ascR, h]

/-- `\uXXXX` for a value outside the surrogate range -/
theorem unq_u4 (a b c d : UInt8) (rr : Nat) (hv : getu4 a b c d = some rr) (hs : isSurrogate rr = false) (rest : List Rune) :
    unqRunes (ascR 92 :: ascR 117 :: ascR a :: ascR b :: ascR c :: ascR d :: rest) = cons? (utf8enc rr) (unqRunes rest) := by
  rw [unqRunes.eq_def]
  simp [ascR, hv, hs]

end Spok.Json

namespace Spok.Json
open Spok

/-- what a rune survives the round trip as -/
def san (r : Rune) : Bytes := if r.invalid then [0xEF, 0xBF, 0xBD] else r.bytes

theorem sanitize_eq (s : Bytes) : sanitize s = (decodeAll s).flatMap san := rfl

set_option maxRecDepth 100000 in
theorem getu4_hexd : ∀ n, n < 128 → getu4 48 48 (hexd (n / 16)) (hexd (n % 16)) = some n := by decide +kernel

theorem hexd_lt (k : Nat) (h : k < 16) : (hexd k).toNat < 128 := by
  have : ∀ k, k < 16 → (hexd k).toNat < 128 := by decide
  exact this k h

theorem utf8enc_ascii (b : UInt8) (h : b.toNat < 128) : utf8enc b.toNat = [b] := by
  unfold utf8enc; simp [h]

/-- one chunk of `appendString`'s output, read back by `unquoteBytes` -/
theorem roundtrip_escAscii (b : UInt8) (hb : b.toNat < 128) (tail : Bytes) :
    unqRunes (decodeAll (escAscii b ++ tail)) = cons? [b] (unqRunes (decodeAll tail)) := by
  unfold escAscii
  simp only []
  split
  · rename_i h
    simp only [Bool.or_eq_true, beq_iff_eq] at h
    rw [decodeAll_ascii [92, b] (by intro x hx; simp at hx; rcases hx with rfl | rfl <;> simp [hb])]
    exact unq_esc_self b h _
  · split
    · rename_i h; simp only [beq_iff_eq] at h
      rw [decodeAll_ascii [92, 98] (by decide)]
      exact unq_esc_named 98 b (Or.inl ⟨rfl, u8_eq_of_toNat h⟩) _
    · split
      · rename_i h; simp only [beq_iff_eq] at h
        rw [decodeAll_ascii [92, 102] (by decide)]
        exact unq_esc_named 102 b (Or.inr (Or.inl ⟨rfl, u8_eq_of_toNat h⟩)) _
      · split
        · rename_i h; simp only [beq_iff_eq] at h
          rw [decodeAll_ascii [92, 110] (by decide)]
          exact unq_esc_named 110 b (Or.inr (Or.inr (Or.inl ⟨rfl, u8_eq_of_toNat h⟩))) _
        · split
          · rename_i h; simp only [beq_iff_eq] at h
            rw [decodeAll_ascii [92, 114] (by decide)]
            exact unq_esc_named 114 b (Or.inr (Or.inr (Or.inr (Or.inl ⟨rfl, u8_eq_of_toNat h⟩)))) _
          · split
            · rename_i h; simp only [beq_iff_eq] at h
              rw [decodeAll_ascii [92, 116] (by decide)]
              exact unq_esc_named 116 b (Or.inr (Or.inr (Or.inr (Or.inr ⟨rfl, u8_eq_of_toNat h⟩)))) _
            · split
              · rw [decodeAll_ascii [92, 117, 48, 48, hexd (b.toNat / 16), hexd (b.toNat % 16)] (by
                  intro x hx
                  simp only [List.mem_cons, List.not_mem_nil, or_false] at hx
                  rcases hx with rfl | rfl | rfl | rfl | rfl | rfl
                  · decide
                  · decide
                  · decide
                  · decide
                  · exact hexd_lt _ (by omega)
                  · exact hexd_lt _ (by omega))]
                have := unq_u4 48 48 (hexd (b.toNat / 16)) (hexd (b.toNat % 16)) b.toNat (getu4_hexd _ hb)
                  (by simp [isSurrogate]; omega) (decodeAll tail)
                rw [utf8enc_ascii b hb] at this
                exact this
              · rename_i h1 _ _ _ _ _ h7
                simp only [Bool.or_eq_true, beq_iff_eq, decide_eq_true_eq, not_or] at h1 h7
                rw [decodeAll_ascii [b] (by intro x hx; simp at hx; subst hx; exact hb)]
                exact unq_plain b (by omega) hb h1.1 h1.2 _

end Spok.Json

namespace Spok.Json
open Spok

theorem decoded_ascii {bs : Bytes} {r : Rune} (hr : r ∈ decodeAll bs) (h : r.b0.toNat < 128) : r = ascR r.b0 := by
  obtain ⟨b0, rest, rfl⟩ := decodeAll_mem hr
  rw [decode1_b0] at h ⊢
  exact decode1_ascii b0 h rest

theorem roundtrip_rune {bs : Bytes} {r : Rune} (hr : r ∈ decodeAll bs) (tail : Bytes) :
    unqRunes (decodeAll (encRune r ++ tail)) = cons? (san r) (unqRunes (decodeAll tail)) := by
  unfold encRune
  split
  · rename_i h
    have hra := decoded_ascii hr h
    have hsan : san r = [r.b0] := by
      rw [hra]; simp only [san, Rune.invalid, ascR, Rune.bytes]
      have : ¬ r.b0.toNat = 0xFFFD := by omega
      simp [this]
    rw [hsan]
    exact roundtrip_escAscii r.b0 h tail
  · rename_i h
    split
    · rename_i hinv
      rw [decodeAll_ascii [92, 117, 102, 102, 102, 100] (by decide)]
      have := unq_u4 102 102 102 100 0xFFFD (by decide) (by decide) (decodeAll tail)
      simp only [san, hinv, if_true]
      exact this
    · rename_i hinv
      have hinv' : r.invalid = false := by simpa using hinv
      obtain ⟨b0, rest0, rfl⟩ := decodeAll_mem hr
      have henc := utf8enc_decode1 b0 rest0 hinv'
      have hsan : san (decode1 b0 rest0) = (decode1 b0 rest0).bytes := by simp [san, hinv']
      split
      · rename_i hcp
        simp only [beq_iff_eq] at hcp
        rw [decodeAll_ascii [92, 117, 50, 48, 50, 56] (by decide)]
        have := unq_u4 50 48 50 56 0x2028 (by decide) (by decide) (decodeAll tail)
        rw [hsan, ← henc, hcp]; exact this
      · split
        · rename_i hcp
          simp only [beq_iff_eq] at hcp
          rw [decodeAll_ascii [92, 117, 50, 48, 50, 57] (by decide)]
          have := unq_u4 50 48 50 57 0x2029 (by decide) (by decide) (decodeAll tail)
          rw [hsan, ← henc, hcp]; exact this
        · rw [decodeAll_rune hr hinv', hsan, ← henc]
          exact unq_high _ (by omega) _

theorem roundtrip_flatMap {bs : Bytes} : ∀ (rs : List Rune), (∀ r ∈ rs, r ∈ decodeAll bs) → ∀ tail,
    unqRunes (decodeAll (rs.flatMap encRune ++ tail)) = cons? (rs.flatMap san) (unqRunes (decodeAll tail))
  | [], _, tail => by cases h : unqRunes (decodeAll tail) <;> simp [cons?, h]
  | r :: rs, h, tail => by
    rw [List.flatMap_cons, List.append_assoc, roundtrip_rune (h r (by simp)),
      roundtrip_flatMap rs (fun x hx => h x (by simp [hx]))]
    cases unqRunes (decodeAll tail) <;> simp [cons?]

/-- `unquote(appendString(s)) = s` with invalid bytes replaced by U+FFFD -/
theorem unqBody_encBody (s : Bytes) : unqBody (encBody s) = some (sanitize s) := by
  unfold unqBody encBody
  have := roundtrip_flatMap (bs := s) (decodeAll s) (fun _ h => h) []
  simp only [List.append_nil] at this
  rw [this, show decodeAll [] = [] from by simp [decodeAll], unq_nil, sanitize_eq]
  simp [cons?]

/-- a string without invalid bytes comes back unchanged -/
theorem sanitize_valid (s : Bytes) (h : ∀ r ∈ decodeAll s, r.invalid = false) : sanitize s = s := by
  rw [sanitize_eq]
  have key : ∀ (l : List Rune), (∀ r ∈ l, r.invalid = false) → l.flatMap san = l.flatMap (·.bytes) := by
    intro l
    induction l with
    | nil => intro _; rfl
    | cons r l ih =>
      intro hl
      simp only [List.flatMap_cons]
      rw [ih (fun x hx => hl x (by simp [hx]))]
      simp [san, hl r (by simp)]
  rw [key _ h]
  exact flat_decodeAll s

end Spok.Json
