import Spok.Lemmas.JsonReportScan
namespace Spok.Json
open Spok Spok.App

mutual
/-- `json.Marshal` of a value tree in compact form (object members in the order given) -/
def encJ : JVal → Bytes
  | .null => kNull
  | .bool b => encBool b
  | .num n => natDigits n
  | .str s => encStr (strBytes s)
  | .arr xs => 91 :: (encJs xs ++ [93])
  | .obj kvs => 123 :: (encKVs kvs ++ [125])
def encJs : List JVal → Bytes
  | [] => []
  | [x] => encJ x
  | x :: y :: r => encJ x ++ 44 :: encJs (y :: r)
def encKVs : List (String × JVal) → Bytes
  | [] => []
  | [(k, v)] => encStr (strBytes k) ++ 58 :: encJ v
  | (k, v) :: y :: r => encStr (strBytes k) ++ 58 :: encJ v ++ 44 :: encKVs (y :: r)
end

theorem encJs_map {α : Type} (f : α → JVal) : ∀ (l : List α), encJs (l.map f) = joinComma (l.map fun x => encJ (f x))
  | [] => by simp [encJs, joinComma]
  | [x] => by simp [encJs, joinComma]
  | x :: y :: r => by
    have := encJs_map f (y :: r)
    simp only [List.map_cons] at this ⊢
    simp only [encJs, joinComma, this]

end Spok.Json

namespace Spok.Json
open Spok Spok.App

theorem key_cmd : 123 :: (encStr (strBytes "cmd") ++ [58]) = kCmd := by decide +kernel
theorem key_stdout : 44 :: (encStr (strBytes "stdout") ++ [58]) = kStdout := by decide +kernel
theorem key_stderr : 44 :: (encStr (strBytes "stderr") ++ [58]) = kStderr := by decide +kernel
theorem key_status : 44 :: (encStr (strBytes "status") ++ [58]) = kStatus := by decide +kernel
theorem key_task : 123 :: (encStr (strBytes "task") ++ [58]) = kTask := by decide +kernel
theorem key_results : 44 :: (encStr (strBytes "results") ++ [58]) = kResults := by decide +kernel
theorem key_skipped : 44 :: (encStr (strBytes "skipped") ++ [58]) = kSkipped := by decide +kernel

theorem encJ_cmdJson (c : CmdResult) : encJ (cmdJson c) = encCmd (cmdB c) := by
  simp only [cmdJson, encJ, encKVs, encCmd, cmdB, ← key_cmd, ← key_stdout, ← key_stderr, ← key_status,
    List.cons_append, List.append_assoc, List.nil_append]

theorem encJ_resultJson (r : Result) : encJ (resultJson r) = encResult (resultB r) := by
  have hc : encJ (if r.cmds.isEmpty then JVal.null else .arr (r.cmds.map cmdJson)) = encCmds (r.cmds.map cmdB) := by
    cases h : r.cmds with
    | nil => simp [encJ, encCmds]
    | cons c cs =>
      simp only [List.isEmpty_cons, Bool.false_eq_true, if_false, encJ, encCmds, List.map_cons, encArr]
      have := encJs_map cmdJson (c :: cs)
      simp only [List.map_cons] at this
      rw [this]
      simp [encJ_cmdJson]
      rfl
  simp only [resultJson, encJ, encKVs, encResult, resultB, hc, ← key_task, ← key_results, ← key_skipped,
    List.cons_append, List.append_assoc, List.nil_append]

/-- the value-level document of `Spok.App` (`Props/C20.lean`) and the byte-level report are the same thing: compact
    `json.Marshal` of `jsonDoc rs` IS `encReport` of the results -/
theorem encJ_jsonDoc (rs : List Result) : encJ (jsonDoc rs) = encReport (rs.map resultB) := by
  simp only [jsonDoc, encJ, encReport, encArr]
  rw [encJs_map]
  simp [encJ_resultJson]
  rfl

end Spok.Json
