import Spok.Lemmas.Run
import Spok.Judge.Run
/-! # The machine's log against the judges' ghost replay; termination (helper lemmas for Props/C01 C02 C10 C14) -/
namespace Spok.Run
open Spok.Judge.Run

variable (digest : Items → Digest)

/-! ## generic -/

theorem iter_preserves (P : St → Prop) (hstep : ∀ s, P s → P (step digest s)) :
    ∀ (k : Nat) (s : St), P s → P (iter digest k s)
  | 0, _, h => h
  | k + 1, s, h => iter_preserves P hstep k (step digest s) (hstep s h)

theorem ghostTrace_append (inp : Name → Option Inputs) (L : Name → Option Items) (tr : List (Name × Out)) (e : Name × Out) :
    ghostTrace inp L (tr ++ [e]) = ghostStep inp (ghostTrace inp L tr) e := by
  simp [ghostTrace, List.foldl_append]

theorem checkTrace_append (chk : (Name → Option Items) → Name × Out → Bool) (inp : Name → Option Inputs) :
    ∀ (tr : List (Name × Out)) (L : Name → Option Items) (e : Name × Out),
      checkTrace chk inp L (tr ++ [e]) = (checkTrace chk inp L tr && chk (ghostTrace inp L tr) e)
  | [], L, e => by simp [checkTrace, ghostTrace]
  | a :: tr, L, e => by
    simp only [List.cons_append, checkTrace, checkTrace_append chk inp tr, ghostTrace, List.foldl_cons, Bool.and_assoc]

/-- skips leave the ghost alone, so the Runner calls alone determine it -/
theorem ghostTrace_filter (inp : Name → Option Inputs) :
    ∀ (tr : List (Name × Out)) (L : Name → Option Items), ghostTrace inp L (tr.filter isRun) = ghostTrace inp L tr
  | [], _ => rfl
  | (t, o) :: tr, L => by
    cases o <;> simp [List.filter, isRun, ghostTrace, ghostStep] <;> exact ghostTrace_filter inp tr _

theorem checkTrace_c01_filter (inp : Name → Option Inputs) :
    ∀ (tr : List (Name × Out)) (L : Name → Option Items), checkTrace (c01Entry inp) inp L (tr.filter isRun) = true
  | [], _ => rfl
  | (t, o) :: tr, L => by
    cases o <;> simp [List.filter, isRun, checkTrace, c01Entry] <;> exact checkTrace_c01_filter inp tr _

/-! ## the shape of one micro-step, as far as the log, the todo list and the ghost are concerned -/

theorem step_force (s : St) : (step digest s).force = s.force := by
  unfold step
  repeat' split
  all_goals rfl

inductive Shape (s s' : St) : Prop where
  | quiet (hout : s'.out = s.out) (htodo : s'.todo = s.todo) (hlast : s'.last = s.last)
  | skip (t : TaskIn) (rest : List TaskIn) (hpc : s.pc = .decide) (hto : s.todo = t :: rest) (hr : t.readable = true)
      (hskip : skipTest digest s t = true) (hout : s'.out = s.out ++ [(t.name, .skipped)]) (htodo : s'.todo = rest)
      (hlast : s'.last = s.last)
  | exec (old : Option Digest) (t : TaskIn) (rest : List TaskIn) (hpc : s.pc = .invalidated old) (hto : s.todo = t :: rest)
      (hout : s'.out = s.out ++ [(t.name, res t)]) (htodo : s'.todo = s.todo)
      (hlast : s'.last = if t.ok then upd s.last t.name (some t.inp.items) else s.last)
  | next (t : TaskIn) (rest : List TaskIn) (hpc : (∃ old, s.pc = .executed old) ∨ s.pc = .committing) (hto : s.todo = t :: rest)
      (hout : s'.out = s.out) (htodo : s'.todo = rest) (hlast : s'.last = s.last)

theorem step_shape (s : St) : Shape digest s (step digest s) := by
  unfold step
  split
  · split <;> exact .quiet rfl rfl rfl
  · exact .quiet rfl rfl rfl
  · exact .quiet rfl rfl rfl
  · rename_i hpc
    split
    · exact .quiet rfl rfl rfl
    · rename_i t rest hto
      split
      · exact .quiet rfl rfl rfl
      · rename_i hr
        split
        · rename_i hs
          exact .skip t rest hpc hto (by simpa using hr) hs rfl rfl rfl
        · split <;> exact .quiet rfl rfl rfl
  · exact .quiet rfl rfl rfl
  · rename_i old hpc
    split
    · exact .quiet rfl rfl rfl
    · rename_i t rest hto
      exact .exec old t rest hpc hto rfl rfl rfl
  · rename_i old hpc
    split
    · exact .quiet rfl rfl rfl
    · rename_i t rest hto
      split
      · exact .quiet rfl rfl rfl
      · exact .next t rest (.inl ⟨old, hpc⟩) hto rfl rfl rfl
  · rename_i hpc
    split
    · exact .quiet rfl rfl rfl
    · rename_i t rest hto
      exact .next t rest (.inr hpc) hto rfl rfl rfl
  · exact .quiet rfl rfl rfl
  · exact .quiet rfl rfl rfl
  · exact .quiet rfl rfl rfl

/-! ## `TInv`: the machine's ghost is the judges' ghost replay of the machine's log -/

variable (inp0 : Name → Option Inputs) (L0 : Name → Option Items)

def TodoOk (todo : List TaskIn) : Prop := ∀ t ∈ todo, t.readable = true → inp0 t.name = some t.inp

def TPc (s : St) : Prop :=
  match s.pc, s.todo with
  | .invalidating _, t :: _ => t.readable = true
  | .invalidated _, t :: _ => t.readable = true
  | .executed _, t :: _ => (t.name, res t) ∈ s.out
  | .committing, t :: _ => (t.name, res t) ∈ s.out
  | .finished, todo => todo = []
  | _, _ => True

def TInv (s : St) : Prop := s.last = ghostTrace inp0 L0 s.out ∧ TodoOk inp0 s.todo ∧ TPc s

theorem todoOk_tail {t : TaskIn} {rest : List TaskIn} (h : TodoOk inp0 (t :: rest)) : TodoOk inp0 rest :=
  fun u hu => h u (List.mem_cons_of_mem _ hu)

theorem step_tinv (s : St) (h : TInv inp0 L0 s) : TInv inp0 L0 (step digest s) := by
  obtain ⟨hl, hto, hp⟩ := h
  unfold step
  split
  · split <;> exact ⟨hl, hto, by simp [TPc]⟩
  · exact ⟨hl, hto, by simp [TPc]⟩
  · exact ⟨hl, hto, by simp [TPc]⟩
  · rename_i hpc
    split
    · rename_i he; exact ⟨hl, hto, by simp [TPc, he]⟩
    · rename_i t rest he
      split
      · exact ⟨hl, hto, by simp [TPc]⟩
      · rename_i hr
        have hr' : t.readable = true := by simpa using hr
        split
        · refine ⟨?_, ?_, by simp [TPc, hpc]⟩
          · simp only [ghostTrace_append, ghostStep]; exact hl
          · rw [he] at hto; exact todoOk_tail inp0 hto
        · split
          · exact ⟨hl, hto, by simp [TPc, he, hr']⟩
          · exact ⟨hl, hto, by simp [TPc, he, hr']⟩
  · rename_i old hpc
    cases he : s.todo with
    | nil => rw [he] at hto; exact ⟨hl, hto, by simp [TPc]⟩
    | cons t rest =>
      simp only [TPc, hpc, he] at hp
      rw [he] at hto; exact ⟨hl, hto, by simp [TPc, hp]⟩
  · rename_i old hpc
    split
    · rename_i he; exact ⟨hl, hto, by simp [TPc, he]⟩
    · rename_i t rest he
      simp only [TPc, hpc, he] at hp
      have hin : inp0 t.name = some t.inp := hto t (by simp [he]) hp
      refine ⟨?_, hto, by simp [TPc, he]⟩
      simp only [ghostTrace_append]
      cases hok : t.ok
      · simp [res, hok, ghostStep]; exact hl
      · simp [res, hok, ghostStep, hin]; rw [hl]
  · rename_i old hpc
    split
    · rename_i he; exact ⟨hl, hto, by simp [TPc, he]⟩
    · rename_i t rest he
      simp only [TPc, hpc, he] at hp
      split
      · exact ⟨hl, hto, by simp [TPc, he, hp]⟩
      · refine ⟨hl, ?_, by simp [TPc]⟩
        rw [he] at hto; exact todoOk_tail inp0 hto
  · split
    · rename_i he; exact ⟨hl, hto, by simp [TPc, he]⟩
    · rename_i t rest he
      refine ⟨hl, ?_, by simp [TPc]⟩
      rw [he] at hto; exact todoOk_tail inp0 hto
  · exact ⟨hl, hto, hp⟩
  · exact ⟨hl, hto, hp⟩
  · exact ⟨hl, hto, hp⟩

/-! ## the judges' per-entry tests hold of the machine's log -/

/-- an explicit digest collision: two different file sets with the same digest -/
def Collision : Prop := ∃ i j : Items, i ≠ j ∧ digest i = digest j

theorem isRun_res (t : TaskIn) : isRun (t.name, res t) = true := by
  unfold res; cases t.ok <;> rfl

theorem step_c01 (hnc : ¬ Collision digest) (s : St) (hI : Inv digest s) (hT : TInv inp0 L0 s)
    (hC : checkTrace (c01Entry inp0) inp0 L0 s.out = true) :
    checkTrace (c01Entry inp0) inp0 L0 (step digest s).out = true := by
  cases step_shape digest s with
  | quiet hout _ _ => rw [hout]; exact hC
  | skip t rest hpc hto hr hskip hout _ _ =>
    rw [hout, checkTrace_append, hC, ← hT.1]
    have hin := hT.2.1 t (by simp [hto]) hr
    rcases skip_sound digest s hI t hskip with h | h
    · simp [c01Entry, hin, h]
    · exact absurd h hnc
  | exec old t rest hpc hto hout _ _ =>
    rw [hout, checkTrace_append, hC]
    unfold res; cases t.ok <;> simp [c01Entry]
  | next _ _ _ _ hout _ _ => rw [hout]; exact hC

theorem n_pos_of_skip {s : St} {t : TaskIn} (h : skipTest digest s t = true) : t.inp.n > 0 := by
  simp [skipTest] at h; exact h.1.2

theorem step_c02 (s : St) (hC : CInv digest s) (hT : TInv inp0 L0 s)
    (hK : checkTrace (c02Entry s.force inp0) inp0 L0 s.out = true) :
    checkTrace (c02Entry s.force inp0) inp0 L0 (step digest s).out = true := by
  cases step_shape digest s with
  | quiet hout _ _ => rw [hout]; exact hK
  | skip t rest hpc hto hr hskip hout _ _ =>
    rw [hout, checkTrace_append, hK, ← hT.1]
    have hin := hT.2.1 t (by simp [hto]) hr
    have hn := n_pos_of_skip digest hskip
    have : (t.inp.n != 0) = true := by simp; omega
    simp [c02Entry, hin, this]
  | exec old t rest hpc hto hout _ _ =>
    rw [hout, checkTrace_append, hK, ← hT.1]
    have hr : t.readable = true := by
      have := hT.2.2; simp only [TPc, hpc, hto] at this; exact this
    have hin := hT.2.1 t (by simp [hto]) hr
    simp only [CInv, hpc, hto] at hC
    obtain ⟨_, _, _, _, hst⟩ := hC
    have hb : (!s.force && s.last t.name == some t.inp.items && !t.inp.items.isEmpty) = false := by
      cases hb : (!s.force && s.last t.name == some t.inp.items && !t.inp.items.isEmpty) with
      | false => rfl
      | true =>
        simp at hb
        exact absurd ⟨hb.1.1, hb.1.2, hb.2⟩ hst
    have hne : (res t != Out.skipped) = true := by unfold res; cases t.ok <;> rfl
    simp [c02Entry, hin, hb, hne]
  | next _ _ _ _ hout _ _ => rw [hout]; exact hK

/-- under `--force`: nothing in the log is a skip, and every selected task is still to do or has run -/
def FInv (order : List Name) (s : St) : Prop :=
  s.force = true → (∀ e ∈ s.out, isRun e = true) ∧
    (∀ n ∈ order, n ∈ s.todo.map (·.name) ∨ ∃ e ∈ s.out, e.1 = n ∧ isRun e = true)

theorem step_finv (order : List Name) (s : St) (hT : TInv inp0 L0 s) (hF : FInv order s) :
    FInv order (step digest s) := by
  intro hf
  rw [step_force] at hf
  obtain ⟨h1, h2⟩ := hF hf
  cases step_shape digest s with
  | quiet hout htodo _ => rw [hout, htodo]; exact ⟨h1, h2⟩
  | skip t rest hpc hto hr hskip hout _ _ =>
    rw [force_never_skips digest s t hf] at hskip; cases hskip
  | exec old t rest hpc hto hout htodo _ =>
    rw [hout, htodo]
    refine ⟨fun e he => ?_, fun n hn => ?_⟩
    · rcases List.mem_append.mp he with h | h
      · exact h1 e h
      · simp at h; subst h; exact isRun_res t
    · rcases h2 n hn with h | ⟨e, he, h⟩
      · exact .inl h
      · exact .inr ⟨e, List.mem_append_left _ he, h⟩
  | next t rest hpc hto hout htodo _ =>
    rw [hout, htodo]
    refine ⟨h1, fun n hn => ?_⟩
    have hmem : (t.name, res t) ∈ s.out := by
      have := hT.2.2
      rcases hpc with ⟨old, hpc⟩ | hpc <;> (simp only [TPc, hpc, hto] at this; exact this)
    rcases h2 n hn with h | h
    · rw [hto] at h
      simp only [List.map_cons, List.mem_cons] at h
      rcases h with h | h
      · exact .inr ⟨_, hmem, h.symm, isRun_res t⟩
      · exact .inl h
    · exact .inr h

/-! ## termination: every invocation reaches a terminal pc within `fuel` micro-steps -/

def rank : Pc → Nat
  | .boot => 8 | .initializing => 7 | .initWriting => 6 | .decide => 5
  | .invalidating _ => 4 | .invalidated _ => 3 | .executed _ => 2 | .committing => 1
  | .finished => 0 | .cacheError => 0 | .hashError => 0

def measure (s : St) : Nat := if s.pc.terminal then 0 else 5 * s.todo.length + rank s.pc

theorem step_terminal (s : St) (h : s.pc.terminal = true) : step digest s = s := by
  unfold step
  split <;> simp_all [Pc.terminal]

theorem step_measure (s : St) (h : s.pc.terminal = false) : measure (step digest s) < measure s := by
  unfold step
  split <;> rename_i hpc <;> simp [hpc, Pc.terminal] at h
  · split <;> simp [measure, hpc, Pc.terminal, rank]
  · simp [measure, hpc, Pc.terminal, rank]
  · simp [measure, hpc, Pc.terminal, rank]
  · split
    · simp [measure, hpc, Pc.terminal, rank]
    · rename_i t rest hto
      split
      · simp [measure, hpc, Pc.terminal, rank]
      · split
        · simp [measure, hpc, hto, Pc.terminal, rank]
        · split <;> simp [measure, hpc, hto, Pc.terminal, rank]
  · simp [measure, hpc, Pc.terminal, rank]
  · split
    · simp [measure, hpc, Pc.terminal, rank]
    · simp [measure, hpc, Pc.terminal, rank]
  · split
    · simp [measure, hpc, Pc.terminal, rank]
    · rename_i t rest hto
      split
      · simp [measure, hpc, hto, Pc.terminal, rank]
      · simp [measure, hpc, hto, Pc.terminal, rank]; omega
  · split
    · simp [measure, hpc, Pc.terminal, rank]
    · rename_i t rest hto
      simp [measure, hpc, hto, Pc.terminal, rank]; omega

theorem iter_terminal : ∀ (k : Nat) (s : St), measure s ≤ k → (iter digest k s).pc.terminal = true
  | 0, s, h => by
    unfold measure at h
    cases ht : s.pc.terminal with
    | true => simpa [iter] using ht
    | false =>
      simp [ht] at h
      have := h.2; cases hp : s.pc <;> simp [hp, rank, Pc.terminal] at this ht
  | k + 1, s, h => by
    cases ht : s.pc.terminal with
    | true =>
      simp only [iter, step_terminal digest s ht]
      exact iter_terminal k s (by simp [measure, ht])
    | false =>
      have := step_measure digest s ht
      exact iter_terminal k _ (by omega)

theorem iter_fixed (k : Nat) (s : St) (h : s.pc.terminal = true) : iter digest k s = s := by
  induction k with
  | zero => rfl
  | succ k ih => simp only [iter, step_terminal digest s h, ih]

end Spok.Run
