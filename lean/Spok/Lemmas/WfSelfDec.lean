import Spok.Lemmas.Utf8
import Spok.Lemmas.LexJudge
import Spok.Lemmas.ParseTreeOK
/-! # The formatted text of a parsed file decodes to itself

`format_selfDec`: for a successfully parsed byte string, `decodeAll (flat (format tree)) = format tree`
(this is what lets the byte-level round-trip statements be derived from the rune-level ones).

Every text of the tree is a slice of `decodeAll bs` (`parse_treeOK`).  A slice that was followed in the
input by a rune other than U+FFFD, or by nothing, decodes to itself whatever non-continuation bytes
follow it (`selfDec_of_slice`: decoding is suffix-closed, and a truncated sequence at the end of the
slice stays invalid); a text made of identifier runes — never U+FFFD — decodes to itself whatever
follows (`StL`).  The formatter puts a non-empty ASCII literal after every text of the first kind
(`Pre`: "can be put in front of anything self-decoding"). -/
namespace Spok.PW
open Spok

/-! ## stable runes and lists -/

/-- a rune that decodes from its own bytes whatever follows -/
def StR (r : Rune) : Prop := ∀ rest', decode1 r.b0 (r.more ++ rest') = r

def StL (v : List Rune) : Prop := ∀ r ∈ v, StR r

theorem StL.decode {v : List Rune} (h : StL v) : ∀ b, decodeAll (flat v ++ b) = v ++ decodeAll b := by
  induction v with
  | nil => intro b; simp [flat]
  | cons r v ih =>
    intro b
    have hr := h r (by simp) (flat v ++ b)
    have hd : (r.b0 :: (r.more ++ (flat v ++ b))).drop r.w = flat v ++ b := by simp [Rune.w]
    simp only [flat_cons, Rune.bytes, List.cons_append, List.append_assoc]
    rw [decodeAll]
    simp only [hr, hd]
    rw [ih (fun x hx => h x (by simp [hx]))]

theorem StL.selfDec {v : List Rune} (h : StL v) : SelfDec v := fun b _ => h.decode b

theorem StL.append {a b : List Rune} (ha : StL a) (hb : StL b) : StL (a ++ b) := by
  intro r hr
  simp only [List.mem_append] at hr
  rcases hr with hr | hr
  · exact ha r hr
  · exact hb r hr

theorem stR_asc (c : Nat) (hc : c < 128) : StR (asc c) := by
  intro rest'
  have h1 : (UInt8.ofNat c).toNat = c := by simp [UInt8.toNat_ofNat']; omega
  unfold decode1
  simp [asc, h1, hc]

/-- ASCII literal text -/
def AscL (v : List Rune) : Prop := ∀ r ∈ v, ∃ c, c < 128 ∧ r = asc c

theorem AscL.stL {v : List Rune} (h : AscL v) : StL v := by
  intro r hr
  obtain ⟨c, hc, rfl⟩ := h r hr
  exact stR_asc c hc

theorem AscL.nonCont {v : List Rune} (h : AscL v) (hne : v ≠ []) (rest : List Rune) : NonCont (flat (v ++ rest)) := by
  cases v with
  | nil => exact absurd rfl hne
  | cons r v =>
    obtain ⟨c, hc, rfl⟩ := h r (by simp)
    exact nonCont_flat_asc c hc _

/-- a decoded rune other than U+FFFD is stable, and its first byte is not a continuation byte -/
theorem stR_of_decoded {bs : List UInt8} {r : Rune} (hr : r ∈ decodeAll bs) (hc : r.cp ≠ 0xFFFD) : StR r := by
  obtain ⟨b0, rest, rfl⟩ := decodeAll_mem hr
  intro rest'
  rw [decode1_b0]
  exact decode1_stable b0 rest rest' hc

theorem decode1_nonCont (b0 : UInt8) (rest : List UInt8) (h : (decode1 b0 rest).cp ≠ 0xFFFD) : cont b0 = false := by
  have hb : cont b0 = true → (decode1 b0 rest).cp = 0xFFFD := by
    intro hc
    simp only [cont, Bool.and_eq_true, decide_eq_true_eq] at hc
    unfold decode1
    simp only []
    rw [if_neg (by omega), if_pos (by omega)]
  cases hc : cont b0 with
  | false => rfl
  | true => exact absurd (hb hc) h

theorem isIdent_not_runeError {r : Rune} (h : isIdent r = true) : r.cp ≠ 0xFFFD := by
  intro hc
  have : isIdent r = false := by
    have := Props.Facts.runeError_not_letter
    simp [isIdent, isLetter, hc, this]
  rw [this] at h; cases h

/-! ## slices of a decoding -/

/-- decoding is suffix-closed -/
theorem decodeAll_suffix : ∀ (pre : List Rune) (bs : List UInt8) (rest : List Rune), decodeAll bs = pre ++ rest →
    decodeAll (flat rest) = rest := by
  intro pre
  induction pre with
  | nil =>
    intro bs rest h
    simp only [List.nil_append] at h
    rw [← h, flat_decodeAll]
  | cons p pre ih =>
    intro bs rest h
    cases bs with
    | nil => simp [decodeAll] at h
    | cons b0 tl =>
      rw [decodeAll] at h
      simp only [List.cons_append, List.cons.injEq] at h
      exact ih _ rest h.2

/-- the follower of a slice: nothing, or a rune other than U+FFFD -/
def GoodHead : List Rune → Prop
  | [] => True
  | r :: _ => r.cp ≠ 0xFFFD

theorem nonCont_of_goodHead {bs : List UInt8} {post : List Rune} (hsub : ∀ r ∈ post, r ∈ decodeAll bs) (h : GoodHead post) :
    NonCont (flat post) := by
  cases post with
  | nil => simp [flat, NonCont]
  | cons r rest =>
    obtain ⟨b0, rs, hr⟩ := decodeAll_mem (hsub r (by simp))
    have hb : r.b0 = b0 := by rw [hr, decode1_b0]
    have hc : (decode1 b0 rs).cp ≠ 0xFFFD := by rw [← hr]; exact h
    simp only [flat_cons, Rune.bytes, List.cons_append, NonCont]
    rw [hb]; exact decode1_nonCont b0 rs hc

/-- a slice of a decoding that is followed by nothing, or by a rune other than U+FFFD, decodes to itself -/
theorem selfDec_of_slice {bs : List UInt8} {pre v post : List Rune} (h : decodeAll bs = pre ++ v ++ post)
    (hg : GoodHead post) : SelfDec v := by
  have h1 : decodeAll (flat (v ++ post)) = v ++ post := decodeAll_suffix pre bs (v ++ post) (by rw [h]; simp)
  have h2 : decodeAll (flat post) = post := decodeAll_suffix (pre ++ v) bs post h
  have hnc : NonCont (flat post) := by
    apply nonCont_of_goodHead (bs := bs) _ hg
    intro r hr; rw [h]; simp [hr]
  rw [flat_append, decodeAll_append _ _ hnc, h2] at h1
  have h3 : decodeAll (flat v) = v := List.append_cancel_right h1
  intro b hb
  rw [decodeAll_append _ _ hb, h3]

theorem goodHead_of_ascHead {post : List Rune} (h : AscHead post) : GoodHead post := by
  cases post with
  | nil => trivial
  | cons r rest => show r.cp ≠ 0xFFFD; have : r.cp < 128 := h; omega

/-- `trimSpace t` with what it cuts off -/
theorem trimSpace_split (t : List Rune) : ∃ ws1 ws2, t = ws1 ++ trimSpace t ++ ws2 ∧ ∀ r ∈ ws2, isSpace r = true := by
  refine ⟨t.takeWhile isSpace, (((t.dropWhile isSpace).reverse).takeWhile isSpace).reverse, ?_, ?_⟩
  · have h1 : t = t.takeWhile isSpace ++ t.dropWhile isSpace := List.takeWhile_append_dropWhile.symm
    have h2 : (t.dropWhile isSpace).reverse =
        ((t.dropWhile isSpace).reverse).takeWhile isSpace ++ ((t.dropWhile isSpace).reverse).dropWhile isSpace :=
      List.takeWhile_append_dropWhile.symm
    have h3 : t.dropWhile isSpace = trimSpace t ++ (((t.dropWhile isSpace).reverse).takeWhile isSpace).reverse := by
      have := congrArg List.reverse h2
      rw [List.reverse_reverse, List.reverse_append] at this
      exact this
    rw [List.append_assoc, ← h3]
    exact h1
  · intro r hr
    rw [List.mem_reverse] at hr
    exact mem_takeWhile _ _ _ hr

theorem isSpace_not_runeError {r : Rune} (h : isSpace r = true) : r.cp ≠ 0xFFFD := by
  intro hc
  rw [isSpace, hc, isSpaceCp_runeError] at h; cases h

/-! ## the texts of a parsed tree -/

section
variable {bs : List UInt8}

theorem sl_mem {inp v : List Rune} (h : Sl inp v) : ∀ r ∈ v, r ∈ inp := by
  obtain ⟨pre, post, rfl⟩ := h
  intro r hr; simp [hr]

theorem sl_of_txt {inp v : List Rune} (h : Txt inp v) : Sl inp v := by
  rcases h with ⟨pre, post, h, _⟩ | ⟨h, _⟩
  · exact ⟨pre, post, h⟩
  · exact h

/-- an identifier text is stable -/
theorem stL_ident {v : List Rune} (h : Txt (decodeAll bs) v) (hid : identRunesB v = true) : StL v := by
  intro r hr
  have hi : isIdent r = true := by
    simp only [identRunesB, List.all_eq_true] at hid
    exact hid r hr
  exact stR_of_decoded (sl_mem (sl_of_txt h) r hr) (isIdent_not_runeError hi)

theorem selfDec_txt {v : List Rune} (h : Txt (decodeAll bs) v) : SelfDec v := by
  rcases h with ⟨pre, post, h, ha⟩ | ⟨h, hid⟩
  · exact selfDec_of_slice h (goodHead_of_ascHead ha)
  · exact (stL_ident (Or.inr ⟨h, hid⟩) hid).selfDec

theorem selfDec_trim {v : List Rune} (h : Txt (decodeAll bs) v) : SelfDec (trimSpace v) := by
  obtain ⟨ws1, ws2, hv, hws⟩ := trimSpace_split v
  rcases h with ⟨pre, post, h, ha⟩ | ⟨h, hid⟩
  · apply selfDec_of_slice (bs := bs) (pre := pre ++ ws1) (post := ws2 ++ post)
    · rw [h]; conv => lhs; rw [hv]
      simp
    · cases ws2 with
      | nil => exact goodHead_of_ascHead ha
      | cons w ws => exact isSpace_not_runeError (hws w (by simp))
  · have hst := stL_ident (Or.inr ⟨h, hid⟩) hid
    have : StL (trimSpace v) := by
      intro r hr
      apply hst r
      rw [hv]; simp [hr]
    exact this.selfDec
end

/-! ## self-decoding prefixes -/

/-- `v` can be put in front of any self-decoding text -/
def Pre (v : List Rune) : Prop := ∀ rest, SelfDec rest → SelfDec (v ++ rest)

theorem Pre.nil : Pre [] := fun _ h => h

theorem Pre.append {a b : List Rune} (ha : Pre a) (hb : Pre b) : Pre (a ++ b) := by
  intro rest hr
  rw [List.append_assoc]
  exact ha _ (hb _ hr)

theorem StL.pre {a : List Rune} (h : StL a) : Pre a := by
  intro rest hr b hb
  rw [flat_append, List.append_assoc, h.decode, hr b hb, List.append_assoc]

/-- a self-decoding text followed by a non-empty ASCII literal -/
theorem Pre.text {v lit : List Rune} (hv : SelfDec v) (hl : AscL lit) (hne : lit ≠ []) : Pre (v ++ lit) := by
  intro rest hr
  rw [List.append_assoc]
  exact SelfDec.append hv (hl.stL.pre rest hr) (Or.inr (hl.nonCont hne rest))

theorem Pre.selfDec {v : List Rune} (h : Pre v) : SelfDec v := by
  have := h [] selfDec_nil
  simpa using this

theorem Pre.flatten {xs : List (List Rune)} (h : ∀ x ∈ xs, Pre x) : Pre xs.flatten := by
  induction xs with
  | nil => exact Pre.nil
  | cons x xs ih =>
    rw [List.flatten_cons]
    exact (h x (by simp)).append (ih (fun y hy => h y (by simp [hy])))

theorem Pre.joinR {sep : List Rune} (hs : Pre sep) : ∀ {xs : List (List Rune)}, (∀ x ∈ xs, Pre x) → Pre (joinR sep xs)
  | [], _ => Pre.nil
  | [x], h => h x (by simp)
  | x :: y :: xs, h => by
    show Pre (x ++ sep ++ Spok.joinR sep (y :: xs))
    exact ((h x (by simp)).append hs).append (Pre.joinR hs (fun z hz => h z (by simp [hz])))

/-! ## the literals of the formatter -/

theorem ascL_of_all {v : List Rune} (h : v.all (fun r => decide (r.cp < 128) && decide (r = asc r.cp)) = true) : AscL v := by
  intro r hr
  have := List.all_eq_true.mp h r hr
  simp only [Bool.and_eq_true, decide_eq_true_eq] at this
  exact ⟨r.cp, this.1, this.2⟩

theorem lit_commentOpen : AscL stdLits.commentOpen ∧ stdLits.commentOpen ≠ [] := ⟨ascL_of_all (by decide), by decide⟩
theorem lit_nl : AscL stdLits.nl ∧ stdLits.nl ≠ [] := ⟨ascL_of_all (by decide), by decide⟩
theorem lit_quote : AscL stdLits.quote ∧ stdLits.quote ≠ [] := ⟨ascL_of_all (by decide), by decide⟩
theorem lit_assignOp : AscL stdLits.assignOp := ascL_of_all (by decide)
theorem lit_taskKw : AscL stdLits.taskKw := ascL_of_all (by decide)
theorem lit_lparen : AscL stdLits.lparen := ascL_of_all (by decide)
theorem lit_rparen : AscL stdLits.rparen := ascL_of_all (by decide)
theorem lit_sep : AscL stdLits.sep := ascL_of_all (by decide)
theorem lit_arrow : AscL stdLits.arrow := ascL_of_all (by decide)
theorem lit_bodyOpen : AscL stdLits.bodyOpen := ascL_of_all (by decide)
theorem lit_indent : AscL stdLits.indent := ascL_of_all (by decide)
theorem lit_bodyClose : AscL stdLits.bodyClose := ascL_of_all (by decide)
theorem lit_emptyComment : AscL stdLits.emptyComment := ascL_of_all (by decide)

/-! ## the formatter -/

section
variable {bs : List UInt8}

theorem pre_printArg {a : Arg} (h : ArgOK (decodeAll bs) a) : Pre (printArg stdLits a) := by
  cases a with
  | str s =>
    show Pre (stdLits.quote ++ s ++ stdLits.quote)
    rw [List.append_assoc]
    exact lit_quote.1.stL.pre.append (Pre.text (selfDec_txt h.2) lit_quote.1 lit_quote.2)
  | ident n =>
    have hid : identRunesB n = true := by
      have := h.1; simp only [argOKB, Bool.and_eq_true] at this; exact this.2
    exact (stL_ident h.2 hid).pre

theorem pre_args {as : List Arg} (h : ∀ a ∈ as, ArgOK (decodeAll bs) a) :
    Pre (joinR stdLits.sep (as.map (printArg stdLits))) := by
  apply Pre.joinR lit_sep.stL.pre
  intro x hx
  obtain ⟨a, ha, rfl⟩ := List.mem_map.mp hx
  exact pre_printArg (h a ha)

theorem pre_printComment {t : List Rune} (h : Txt (decodeAll bs) t) : Pre (printComment stdLits t) := by
  unfold printComment
  split
  · exact Pre.nil
  · rw [List.append_assoc]
    exact lit_commentOpen.1.stL.pre.append (Pre.text (selfDec_trim h) lit_nl.1 lit_nl.2)

theorem pre_printVal {v : Val} (hb : valOKB v = true) (hq : valQ (decodeAll bs) v) : Pre (printVal stdLits v) := by
  cases v with
  | str s =>
    show Pre (stdLits.quote ++ s ++ stdLits.quote)
    rw [List.append_assoc]
    exact lit_quote.1.stL.pre.append (Pre.text (selfDec_txt hq) lit_quote.1 lit_quote.2)
  | ident n =>
    have hid : identRunesB n = true := by
      simp only [valOKB, Bool.and_eq_true] at hb; exact hb.2
    exact (stL_ident hq hid).pre
  | call f args =>
    simp only [valOKB, Bool.and_eq_true, List.all_eq_true] at hb
    show Pre (f ++ stdLits.lparen ++ joinR stdLits.sep (args.map (printArg stdLits)) ++ stdLits.rparen)
    exact (((stL_ident hq.1 hb.1.2).pre.append lit_lparen.stL.pre).append
      (pre_args (fun a ha => ⟨hb.2 a ha, hq.2 a ha⟩))).append lit_rparen.stL.pre

/-- the output clause as `printNode` writes it -/
def outsPart (outs : List Arg) : List Rune :=
  match outs with
  | [] => []
  | [o] => stdLits.arrow ++ printArg stdLits o
  | os => stdLits.arrow ++ stdLits.lparen ++ joinR stdLits.sep (os.map (printArg stdLits)) ++ stdLits.rparen

theorem printNode_task_eq (name doc : List Rune) (deps outs : List Arg) (cmds : List (List Rune)) :
    printNode stdLits (.task name doc deps outs cmds) =
      printComment stdLits doc ++ stdLits.taskKw ++ name ++ stdLits.lparen ++
      joinR stdLits.sep (deps.map (printArg stdLits)) ++ stdLits.rparen ++ outsPart outs ++
      stdLits.bodyOpen ++ (cmds.map fun c => stdLits.indent ++ c ++ stdLits.nl).flatten ++ stdLits.bodyClose := rfl

theorem pre_outsPart {outs : List Arg} (hall : ∀ a ∈ outs, ArgOK (decodeAll bs) a) : Pre (outsPart outs) := by
  match outs, hall with
  | [], _ => exact Pre.nil
  | [o], hall => exact lit_arrow.stL.pre.append (pre_printArg (hall o (by simp)))
  | o :: o2 :: os, hall =>
    exact ((lit_arrow.stL.pre.append lit_lparen.stL.pre).append (pre_args hall)).append lit_rparen.stL.pre

theorem pre_printNode {node : Node} (h : NodeOK (decodeAll bs) node) : Pre (printNode stdLits node) := by
  obtain ⟨hb, hq⟩ := h
  cases node with
  | comment t =>
    simp only [printNode]
    split
    · exact lit_emptyComment.stL.pre
    · exact pre_printComment hq
  | assign n v =>
    simp only [nodeOKB, Bool.and_eq_true] at hb
    show Pre (n ++ stdLits.assignOp ++ printVal stdLits v ++ stdLits.nl)
    exact (((stL_ident hq.1 hb.1.1.2).pre.append lit_assignOp.stL.pre).append (pre_printVal hb.2 hq.2)).append
      lit_nl.1.stL.pre
  | task name doc deps outs cmds =>
    simp only [nodeOKB, Bool.and_eq_true, List.all_eq_true] at hb
    obtain ⟨⟨⟨⟨b1, b2⟩, b3⟩, b4⟩, b5⟩ := hb
    obtain ⟨q1, q2, q3, q4, q5⟩ := hq
    have hdeps := pre_args (bs := bs) (as := deps) (fun a ha => ⟨b3 a ha, q3 a ha⟩)
    have houts : Pre (outsPart outs) := pre_outsPart (fun a ha => ⟨b4 a ha, q4 a ha⟩)
    have hcmds : Pre (cmds.map fun c => stdLits.indent ++ c ++ stdLits.nl).flatten := by
      apply Pre.flatten
      intro x hx
      obtain ⟨c, hc, rfl⟩ := List.mem_map.mp hx
      rw [List.append_assoc]
      exact lit_indent.stL.pre.append (Pre.text (selfDec_txt (q5 c hc)) lit_nl.1 lit_nl.2)
    rw [printNode_task_eq]
    exact (((((((((pre_printComment q2).append lit_taskKw.stL.pre).append (stL_ident q1 b1).pre).append
      lit_lparen.stL.pre).append hdeps).append lit_rparen.stL.pre).append houts).append lit_bodyOpen.stL.pre).append
      hcmds).append lit_bodyClose.stL.pre

theorem pre_format {tree : Tree} (h : TreeOK (decodeAll bs) tree) : Pre (format tree) := by
  obtain ⟨hwf, hq⟩ := h
  simp only [wfTree, Bool.and_eq_true, List.all_eq_true] at hwf
  unfold format printTree
  apply Pre.flatten
  intro x hx
  obtain ⟨node, hn, rfl⟩ := List.mem_map.mp hx
  exact pre_printNode ⟨hwf.1 node hn, hq node hn⟩
end

end Spok.PW

namespace Spok

/-- the formatted text of a successfully parsed file is self-decoding: whatever non-continuation bytes
    follow it, it decodes to itself -/
theorem format_selfDec' (bs : List UInt8) (h : (parse bs).fail = none) : SelfDec (format (parse bs).tree) :=
  (PW.pre_format (bs := bs) (parse_treeOK (decodeAll bs) h)).selfDec

/-- **the formatted text of a successfully parsed file decodes to itself** -/
theorem format_selfDec (bs : List UInt8) : (parse bs).fail = none →
    decodeAll (flat (format (parse bs).tree)) = format (parse bs).tree :=
  fun h => (format_selfDec' bs h).decode

/-! ## non-vacuity -/

/-- `# é` + an invalid byte + CRLF, then `x := "` + a truncated three-byte sequence + `"`: the texts of
    the tree contain U+FFFD runes, which only decode to themselves because of what follows them -/
def sdSample : List UInt8 :=
  [35, 32, 0xC3, 0xA9, 0xFF, 13, 10, 120, 32, 58, 61, 32, 34, 0xE2, 0x82, 34, 10]

set_option maxRecDepth 100000 in
theorem sdSample_parses : (parse sdSample).fail = none ∧ (parse sdSample).tree.length = 2 := by decide +kernel

example : decodeAll (flat (format (parse sdSample).tree)) = format (parse sdSample).tree :=
  format_selfDec sdSample sdSample_parses.1

end Spok
