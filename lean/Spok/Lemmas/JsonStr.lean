import Spok.Lemmas.JsonScan
/-! # The scanner over an encoded string literal -/
namespace Spok.Json
open Spok

theorem feed_St (stp : Step) (stk : List PS) (c : UInt8) : feed (St stp stk) c = stepFn (St stp stk) c.toNat := by
  simp [feed]

theorem inStr_plain {stk : List PS} {c : UInt8} (h1 : 32 ≤ c.toNat) (h2 : c.toNat ≠ 34) (h3 : c.toNat ≠ 92) :
    feed (St .inString stk) c = St .inString stk := by
  rw [feed_St]; unfold stepFn; simp [h2, h3]; omega

theorem inStr_bs {stk : List PS} : feed (St .inString stk) 92 = St .inStringEsc stk := by
  rw [feed_St]; unfold stepFn; simp

theorem inStr_quote {stk : List PS} : feed (St .inString stk) 34 = St .endValue stk := by
  rw [feed_St]; unfold stepFn; simp

def isEsc1 (c : Nat) : Bool := c == 98 || c == 102 || c == 110 || c == 114 || c == 116 || c == 92 || c == 47 || c == 34

theorem esc_simple {stk : List PS} {c : UInt8} (h : isEsc1 c.toNat = true) :
    feed (St .inStringEsc stk) c = St .inString stk := by
  rw [feed_St]; unfold stepFn
  simp only [isEsc1] at h
  simp [h]

theorem esc_u {stk : List PS} : feed (St .inStringEsc stk) 117 = St .escU stk := by
  rw [feed_St]; unfold stepFn; simp

theorem hex_step {stk : List PS} {c : UInt8} (h : isHex c.toNat = true) :
    feed (St .escU stk) c = St .escU1 stk ∧ feed (St .escU1 stk) c = St .escU12 stk ∧
    feed (St .escU12 stk) c = St .escU123 stk ∧ feed (St .escU123 stk) c = St .inString stk := by
  simp only [feed_St]
  refine ⟨?_, ?_, ?_, ?_⟩ <;> (unfold stepFn; simp [hexStep, h])

/-- a plain byte -/
theorem seg_plain {stk : List PS} (hs : stk ≠ []) {c : UInt8} (h1 : 32 ≤ c.toNat) (h2 : c.toNat ≠ 34) (h3 : c.toNat ≠ 92) :
    Seg (St .inString stk) [c] (St .inString stk) :=
  Seg.cons (NA_St hs) (by rw [inStr_plain h1 h2 h3]; exact Seg.nil _)

/-- `\x` -/
theorem seg_esc1 {stk : List PS} (hs : stk ≠ []) {c : UInt8} (h : isEsc1 c.toNat = true) :
    Seg (St .inString stk) [92, c] (St .inString stk) :=
  Seg.cons (NA_St hs) (by rw [inStr_bs]; exact Seg.cons (NA_St hs) (by rw [esc_simple h]; exact Seg.nil _))

/-- `\uXXXX` -/
theorem seg_u4 {stk : List PS} (hs : stk ≠ []) {a b c d : UInt8} (ha : isHex a.toNat = true) (hb : isHex b.toNat = true)
    (hc : isHex c.toNat = true) (hd : isHex d.toNat = true) :
    Seg (St .inString stk) [92, 117, a, b, c, d] (St .inString stk) := by
  refine Seg.cons (NA_St hs) ?_
  rw [inStr_bs]
  refine Seg.cons (NA_St hs) ?_
  rw [esc_u]
  refine Seg.cons (NA_St hs) ?_
  rw [(hex_step ha).1]
  refine Seg.cons (NA_St hs) ?_
  rw [(hex_step hb).2.1]
  refine Seg.cons (NA_St hs) ?_
  rw [(hex_step hc).2.2.1]
  refine Seg.cons (NA_St hs) ?_
  rw [(hex_step hd).2.2.2]
  exact Seg.nil _

/-- bytes from 0x80 on are ordinary string content for the scanner -/
theorem seg_high {stk : List PS} (hs : stk ≠ []) : ∀ (l : Bytes), (∀ b ∈ l, 128 ≤ b.toNat) →
    Seg (St .inString stk) l (St .inString stk)
  | [], _ => Seg.nil _
  | c :: l, h => by
    have hc := h c (by simp)
    refine Seg.cons (NA_St hs) ?_
    rw [inStr_plain (by omega) (by omega) (by omega)]
    exact seg_high hs l (fun b hb => h b (by simp [hb]))

theorem isHex_hexd (k : Nat) (h : k < 16) : isHex (hexd k).toNat = true := by
  have : ∀ k, k < 16 → isHex (hexd k).toNat = true := by decide
  exact this k h

/-- what `appendString` writes for an ASCII byte is a string-content segment -/
theorem seg_escAscii {stk : List PS} (hs : stk ≠ []) (b : UInt8) (hb : b.toNat < 128) :
    Seg (St .inString stk) (escAscii b) (St .inString stk) := by
  unfold escAscii
  simp only []
  split
  · rename_i h
    exact seg_esc1 hs (by simp only [Bool.or_eq_true, beq_iff_eq] at h; rcases h with h | h <;> simp [isEsc1, h])
  · split
    · exact seg_esc1 hs (by decide)
    · split
      · exact seg_esc1 hs (by decide)
      · split
        · exact seg_esc1 hs (by decide)
        · split
          · exact seg_esc1 hs (by decide)
          · split
            · exact seg_esc1 hs (by decide)
            · split
              · exact seg_u4 hs (by decide) (by decide) (isHex_hexd _ (by omega)) (isHex_hexd _ (by omega))
              · rename_i h1 _ _ _ _ _ h7
                simp only [Bool.or_eq_true, beq_iff_eq, decide_eq_true_eq, not_or] at h1 h7
                exact seg_plain hs (by omega) (by omega) (by omega)

end Spok.Json
