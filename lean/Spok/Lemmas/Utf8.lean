import Spok.Basic.Rune
/-! # UTF-8: decoding a concatenation

`decodeAll (a ++ b) = decodeAll a ++ decodeAll b` whenever `b` does not begin with a continuation byte
(in particular when it is empty or begins with an ASCII byte): a truncated multi-byte sequence at the
end of `a` is invalid with or without `b` after it.  This is what lets the byte-level round-trip
statements be derived from the rune-level ones: the printer only ever puts ASCII literals after the
token texts it copies. -/
namespace Spok

/-- `b` is empty or begins with a byte that is not a UTF-8 continuation byte -/
def NonCont : List UInt8 → Prop
  | [] => True
  | b :: _ => cont b = false

theorem range_imp_cont (b : UInt8) (lo hi : Nat) (hlo : 0x80 ≤ lo) (hhi : hi ≤ 0xBF)
    (h : (decide (lo ≤ b.toNat) && decide (b.toNat ≤ hi)) = true) : cont b = true := by
  simp only [Bool.and_eq_true, decide_eq_true_eq] at h
  simp only [cont, Bool.and_eq_true, decide_eq_true_eq]
  omega

/-- the first rune of `rest ++ b` after `b0` is the first rune of `rest` after `b0` -/
theorem decode1_append (b0 : UInt8) (rest b : List UInt8) (h : NonCont b) :
    decode1 b0 (rest ++ b) = decode1 b0 rest := by
  have key : ∀ x, b = x :: b.tail → cont x = false := by
    intro x hx; rw [hx] at h; exact h
  unfold decode1
  simp only []
  split
  · rfl
  · split
    · rfl
    · split
      · -- two bytes
        cases rest with
        | cons x xs => rfl
        | nil =>
          cases b with
          | nil => rfl
          | cons y ys => simp [key y rfl]
      · split
        · -- three bytes
          match rest with
          | x :: y :: zs => rfl
          | [x] =>
            cases b with
            | nil => rfl
            | cons y ys => simp [key y rfl]
          | [] =>
            match b with
            | [] => rfl
            | [y] => rfl
            | y :: z :: ys =>
              have hy := key y rfl
              simp only [List.nil_append]
              rw [if_neg]
              intro hc
              simp only [Bool.and_eq_true] at hc
              have hlo : 0x80 ≤ (if (b0.toNat == 0xE0) = true then 0xA0 else 0x80) := by split <;> omega
              have hhi : (if (b0.toNat == 0xED) = true then 0x9F else 0xBF) ≤ 0xBF := by split <;> omega
              have := range_imp_cont y _ _ hlo hhi (by simp only [Bool.and_eq_true]; exact hc.1)
              rw [hy] at this; cases this
        · split
          · -- four bytes
            match rest with
            | x :: y :: z :: ws => rfl
            | [x, y] =>
              cases b with
              | nil => rfl
              | cons u us => simp [key u rfl]
            | [x] =>
              match b with
              | [] => rfl
              | [u] => rfl
              | u :: v :: us => simp [key u rfl]
            | [] =>
              match b with
              | [] => rfl
              | [u] => rfl
              | [u, v] => rfl
              | u :: v :: w :: us =>
                have hu := key u rfl
                simp only [List.nil_append]
                rw [if_neg]
                intro hc
                simp only [Bool.and_eq_true] at hc
                have hlo : 0x80 ≤ (if (b0.toNat == 0xF0) = true then 0x90 else 0x80) := by split <;> omega
                have hhi : (if (b0.toNat == 0xF4) = true then 0x8F else 0xBF) ≤ 0xBF := by split <;> omega
                have := range_imp_cont u _ _ hlo hhi (by simp only [Bool.and_eq_true]; exact hc.1.1)
                rw [hu] at this; cases this
          · rfl

theorem decodeAll_append (a b : List UInt8) (h : NonCont b) : decodeAll (a ++ b) = decodeAll a ++ decodeAll b := by
  induction hn : a.length using Nat.strongRecOn generalizing a with
  | _ n ih =>
    subst hn
    cases a with
    | nil => simp [decodeAll]
    | cons b0 rest =>
      rw [List.cons_append, decodeAll, decodeAll, decode1_append b0 rest b h]
      simp only [List.cons_append, List.cons.injEq, true_and]
      have hw := decode1_w_le b0 rest
      have hp := decode1_w_pos b0 rest
      have : (b0 :: (rest ++ b)).drop (decode1 b0 rest).w = (b0 :: rest).drop (decode1 b0 rest).w ++ b := by
        rw [← List.cons_append, List.drop_append_of_le_length hw]
      rw [this]
      exact ih _ (by simp [List.length_drop]; omega) _ rfl

/-- an ASCII byte is not a continuation byte -/
theorem NonCont_of_lt (b : UInt8) (bs : List UInt8) (h : b.toNat < 0x80) : NonCont (b :: bs) := by
  simp only [NonCont, cont, Bool.and_eq_false_iff, decide_eq_false_iff_not]
  left; omega

end Spok

namespace Spok

/-- a piece of text that decodes to itself whatever (non-continuation) bytes follow it -/
def SelfDec (v : List Rune) : Prop := ∀ b, NonCont b → decodeAll (flat v ++ b) = v ++ decodeAll b

theorem flat_append (a b : List Rune) : flat (a ++ b) = flat a ++ flat b := by simp [flat]
theorem flat_cons (r : Rune) (rs : List Rune) : flat (r :: rs) = r.bytes ++ flat rs := by simp [flat]

theorem selfDec_nil : SelfDec [] := by intro b _; simp [flat]

/-- an ASCII literal rune -/
theorem selfDec_asc (c : Nat) (hc : c < 128) : SelfDec [asc c] := by
  intro b _
  have h1 : (UInt8.ofNat c).toNat = c := by simp [UInt8.toNat_ofNat']; omega
  have hd : decode1 (UInt8.ofNat c) b = ⟨c, UInt8.ofNat c, []⟩ := by
    unfold decode1; simp [h1, hc]
  have hf : flat [asc c] ++ b = UInt8.ofNat c :: b := by simp [flat, asc, Rune.bytes]
  rw [hf, decodeAll.eq_def]
  simp [hd, Rune.w, asc]

theorem SelfDec.append {a b : List Rune} (ha : SelfDec a) (hb : SelfDec b) (hnc : b = [] ∨ NonCont (flat b)) :
    SelfDec (a ++ b) := by
  intro x hx
  rw [flat_append, List.append_assoc]
  rcases hnc with rfl | hnc
  · simp only [flat, List.flatMap_nil, List.nil_append, List.append_nil]
    have := ha x hx
    simpa [flat] using this
  · have hnc' : NonCont (flat b ++ x) := by
      cases hfb : flat b with
      | nil => rw [hfb] at hnc; simpa using hx
      | cons y ys => rw [hfb] at hnc; simpa [NonCont] using hnc
    rw [ha _ hnc', hb x hx, List.append_assoc]

theorem nonCont_flat_asc (c : Nat) (hc : c < 128) (rest : List Rune) : NonCont (flat (asc c :: rest)) := by
  have h1 : (UInt8.ofNat c).toNat = c := by simp [UInt8.toNat_ofNat']; omega
  simp only [flat_cons, asc, Rune.bytes, List.cons_append]
  exact NonCont_of_lt _ _ (by omega)

theorem SelfDec.decode {v : List Rune} (h : SelfDec v) : decodeAll (flat v) = v := by
  have := h [] trivial
  simpa [decodeAll] using this

end Spok
