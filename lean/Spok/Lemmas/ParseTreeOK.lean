import Spok.Lemmas.WfLexCmd
import Spok.Lemmas.WfParse
/-! # What a successful parse returns (independent of `RunesOK`)

`parse_treeOK`: the tree of a successful parse satisfies `wfTree`, and every text in it is a slice of
the input that is followed by an ASCII rune or the end of the input, or consists of identifier runes
(`PW.TreeOK`).  No hypothesis on the runes is needed: the value-level invariant does not talk about
line numbers. -/
namespace Spok

theorem parse_treeOK (rs : List Rune) (h : (parseRunes rs).fail = none) : PW.TreeOK rs (parseRunes rs).tree := by
  unfold parseRunes at h ⊢
  simp only [lexRunes_halted, Bool.not_true, Bool.false_eq_true, if_false] at h ⊢
  exact PW.parseToks_wf (PW.lexRunes_strV rs) h

/-- `parse_wf` without the (unused) hypothesis on the runes -/
theorem parse_wf' (rs : List Rune) (h : (parseRunes rs).fail = none) : wfTree (parseRunes rs).tree = true :=
  (parse_treeOK rs h).1

end Spok
